#!/bin/sh
# lib/seedtest.sh <seed-dir> <property> [quick|thorough]
# Applies seeded/<dir>/patch.diff to a scratch worktree of /repo, runs the property's check
# against it (VERIF_REPO), removes the worktree. Never touches /repo's working tree.
set -u
seed="$1"; prop="$2"; tier="${3:-quick}"
wt="/tmp/wt-seed-$$"
git -C /repo worktree add -q --detach "$wt" HEAD || exit 2
if ! git -C "$wt" apply "/verif/seeded/$seed/patch.diff"; then
  echo "patch does not apply"; git -C /repo worktree remove --force "$wt"; exit 2
fi
cd /verif && VERIF_REPO="$wt" ./check "$prop" "$tier" 2>&1 | grep -v "^note:" | tail -4
rc=$?
git -C /repo worktree remove --force "$wt"
git -C /repo worktree prune
# binaries / module files built against scratch trees of earlier runs
find /verif/harness/bin -name '*-????????' -mmin +45 -delete 2>/dev/null
find /verif/work -maxdepth 1 \( -name 'alt-*' -o -name 'evidence-*' -o -name 'replays-*' \) -mmin +45 -exec rm -rf {} + 2>/dev/null
exit $rc
