"""Per-property configuration of ./check: one JSON fragment per property in lib/props.d/<Cxx>.json.

Keys: engine, n_quick, n_thorough (generated cases per tier), rule (how cases are generated / what is
non-trivial), assumptions [..], trusted_base [..] (property-specific additions), level ("proof" default),
level_text, level_note, technique (optional), engine_text (optional), exhaustive (bool),
nontrivial_min_ops (default 2), shrink_s (default 60).
"""
import glob
import json
import os

_D = os.path.join(os.path.dirname(os.path.abspath(__file__)), "props.d")
PROPS = {}
for _p in sorted(glob.glob(os.path.join(_D, "C*.json"))):
    PROPS[os.path.basename(_p)[:-5]] = json.load(open(_p))
ENGINES = sorted({e for c in PROPS.values() for e in (c.get("engines") or [c["engine"]])})
