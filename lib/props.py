"""Per-property configuration of ./check (engine, volumes, evidence texts)."""

ENGINES = ["keyenc"]

PROPS = {
    "C18": dict(
        engine="keyenc", n_quick=300, n_thorough=20000, exhaustive=True,
        rule="exhaustive: all (primary, secondary) pairs over alphabet {00,01,02,ff} up to length 2 (quick) / 3 (thorough), "
             "all ordered pairs of such composite keys up to length 1 (quick) / 2 (thorough), all 2^16 values of the 16-bit encoders, "
             "powers of two +-1 for the 32/64-bit encoders, every LPM prefix length 0..33 on five data patterns; plus n seeded random cases "
             "of long keys around the 127/128/254 length boundaries. A case is non-trivial if it has >= 2 ops; distinct by hash of its op list.",
        assumptions=["Go's bytes.Compare is bytewise lexicographic order (lex_lt)",
                     "netip-based encoders (NetIP, NetIPAddr, NetIPPrefix) delegate to net/netip and are not modelled"],
        trusted_base=["model: coq/theories/KeyEnc/Model.v (enc, nuk, accessors, beN, lpmEncode/lpmDecode) hand-written from part_index.go, index/int.go, index/bool.go, index/string.go, lpm/key.go"],
    ),
}
