#!/usr/bin/env python3
"""Regenerates MANIFEST.json from lib/props.py (checks) and lib/manifest_extra.json."""
import json, os, subprocess, sys
ROOT = os.path.dirname(os.path.dirname(os.path.abspath(__file__)))
sys.path.insert(0, os.path.join(ROOT, "lib"))
from props import PROPS, ENGINES
extra = json.load(open(os.path.join(ROOT, "lib", "manifest_extra.json")))
DEFAULT_NOTE = extra["level_note"]["*"]
DEFAULT_TECH = "machine-checked proof in Coq 8.16.1 over a hand-written executable model + model/implementation correspondence check (extracted OCaml vs Go harness)"
all_ids = [json.loads(l)["id"] for l in open(os.path.join(ROOT, "properties.jsonl"))]
hooks_commits = subprocess.run("git -C /repo log --format=%H --grep='^verif:'", shell=True, stdout=subprocess.PIPE, text=True).stdout.split()
m = {
    "version": 1,
    "setup_cmd": "./check setup",
    "hooks": {
        "guard": "verif",
        "enable": "go build -tags verif (the harness in /verif/harness is built with -tags verif against /repo through a replace directive)",
        "baseline_off_cmd": "cd /repo && GOFLAGS=-mod=mod GOPROXY=off go test -vet=off -count=1 -timeout 25m ./...",
        "source_commits": hooks_commits,
        "add_only": True,
    },
    "engines": [dict(name=e, path="harness/cmd/%s + ocaml/%s_drv.ml + coq/theories/Extract/X_%s.v" % (e, e, e),
                     serves_properties=sorted(p for p in PROPS if e in (PROPS[p].get("engines") or [PROPS[p]["engine"]])),
                     kind_free_text=next((PROPS[p].get("engine_text") for p in sorted(PROPS) if PROPS[p]["engine"] == e and PROPS[p].get("engine_text")), "")) for e in ENGINES],
    "checks": [],
    "not_applicable": [],
    "notes": extra.get("notes", ""),
}
for p in all_ids:
    if p in PROPS:
        c = PROPS[p]
        m["checks"].append({
            "property_id": p,
            "quick_cmd": "./check %s quick" % p,
            "thorough_cmd": "./check %s thorough" % p,
            "evidence_file": "/verif/evidence/%s.json" % p,
            "replay_cmd_template": "./check replay {path}",
            "engine": c["engine"],
            "level_claimed": {"category": c.get("level", "proof"), "text": c["level_text"], "design_ref": "DESIGN.md §4 " + p},
            "level_note": c.get("level_note", DEFAULT_NOTE),
            "technique": c.get("technique", DEFAULT_TECH),
        })
    else:
        m["not_applicable"].append({"property_id": p, "reason": extra["not_applicable"].get(p, "check not built yet in this round; see DESIGN.md")})
json.dump(m, open(os.path.join(ROOT, "MANIFEST.json"), "w"), indent=1)
print("MANIFEST.json: %d checks, %d not_applicable" % (len(m["checks"]), len(m["not_applicable"])))
