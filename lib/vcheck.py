#!/usr/bin/env python3
"""vcheck — driver of every /verif check.

  check setup                 build Coq development, extracted model runners, Go harness
  check <Cxx> quick|thorough  decide property Cxx (exit 0 / exit 1 + VIOLATION line)
  check replay <file>         re-run a replay file on the current tree

Decision rule (DESIGN.md §1): (1) the property's theorems in coq/theories/Properties/Cxx.v
compile and depend on no axiom outside the allowed list; (2) implementation and extracted
model agree on every observable of the corpus, the known-finding witnesses and the generated
cases, and no property oracle (!BAD) fires on the implementation. Otherwise shrink, search
for a concrete failing input and report.
"""
import fcntl
import glob
import hashlib
import json
import os
import re
import subprocess
import sys
import time

ROOT = os.path.dirname(os.path.dirname(os.path.abspath(__file__)))
COQ = os.path.join(ROOT, "coq")
OCAML = os.path.join(ROOT, "ocaml")
HARNESS = os.path.join(ROOT, "harness")
WORK = os.path.join(ROOT, "work")
REPO = os.environ.get("VERIF_REPO", "/repo")   # alternative tree (scratch worktree) for mutation testing
ALT = "" if REPO == "/repo" else "-" + hashlib.sha1(REPO.encode()).hexdigest()[:8]

sys.path.insert(0, os.path.join(ROOT, "lib"))
from props import PROPS, ENGINES  # noqa: E402
import sigs  # noqa: E402

ALLOWED_AXIOMS = {
    # standard-library axioms that may appear (each named in DESIGN.md §3 if it ever does)
    "functional_extensionality_dep", "FunctionalExtensionality.functional_extensionality_dep",
    "Eqdep.Eq_rect_eq.eq_rect_eq", "eq_rect_eq", "proof_irrelevance", "classic", "JMeq_eq",
    "propositional_extensionality",
}
FORBIDDEN = re.compile(
    r"\b(Admitted|admit|Axiom|Axioms|Parameter|Parameters|Conjecture|Conjectures|Abort All|"
    r"Unset Guard Checking|Unset Positivity Checking|Unset Universe Checking|bypass_check|"
    r"Admit Obligations|native_compute)\b")

GOENV = dict(os.environ, GOFLAGS="-mod=mod", GOPROXY="off")
GOENV.pop("GOTOOLCHAIN", None)
GOENV.pop("GOSUMDB", None)


def sh(cmd, cwd=None, timeout=3600, env=None, stdin=None, check=False):
    p = subprocess.run(cmd, cwd=cwd, timeout=timeout, env=env, input=stdin,
                       stdout=subprocess.PIPE, stderr=subprocess.STDOUT, text=True,
                       shell=isinstance(cmd, str))
    if check and p.returncode != 0:
        raise RuntimeError("command failed: %s\n%s" % (cmd, p.stdout[-4000:]))
    return p.returncode, p.stdout


class Lock:
    def __enter__(self):
        os.makedirs(WORK, exist_ok=True)
        self.f = open(os.path.join(WORK, ".lock"), "w")
        fcntl.flock(self.f, fcntl.LOCK_EX)
        return self

    def __exit__(self, *a):
        fcntl.flock(self.f, fcntl.LOCK_UN)
        self.f.close()


# ----------------------------------------------------------------------------- builds
def v_files():
    """The development = the .v files under coq/theories that git tracks (added or committed). Work-in-progress
    files that are not yet added are not part of it: an unfinished proof must not stall or break the checks.
    Without a git checkout (a copied tree) every .v file counts."""
    out = []
    for d, _, fs in os.walk(os.path.join(COQ, "theories")):
        for f in fs:
            if f.endswith(".v"):
                out.append(os.path.relpath(os.path.join(d, f), COQ))
    if os.path.isdir(os.path.join(ROOT, ".git")):
        p = subprocess.run(["git", "-C", ROOT, "ls-files", "coq/theories"], stdout=subprocess.PIPE, stderr=subprocess.DEVNULL, text=True)
        tracked = {os.path.relpath(os.path.join(ROOT, x), COQ) for x in p.stdout.split() if x.endswith(".v")}
        if p.returncode == 0 and tracked:
            out = [f for f in out if f in tracked]
    return sorted(out)


def build_coq():
    """Full .vo build through coq_makefile (never -vos). Returns (ok, log)."""
    files = [f for f in v_files() if not f.startswith("theories/Extract/")]
    proj = "-Q theories SV\n" + "\n".join(files) + "\n"
    pj = os.path.join(COQ, "_CoqProject")
    if not os.path.exists(pj) or open(pj).read() != proj or not os.path.exists(os.path.join(COQ, "Makefile.coq")):
        open(pj, "w").write(proj)
        sh("coq_makefile -f _CoqProject -o Makefile.coq", cwd=COQ, check=True)
    rc, out = sh("timeout 3000 make -f Makefile.coq -j16 -k 2>&1", cwd=COQ, timeout=3100)
    open(os.path.join(COQ, ".build.log"), "w").write(out)
    return rc == 0, out


def coq_deps(prop):
    """Transitive source dependencies (theories/**.v) of Properties/<prop>.v, from coq_makefile's dependency file."""
    depf = os.path.join(COQ, ".Makefile.coq.d")
    deps = {}
    if os.path.exists(depf):
        for line in open(depf).read().replace("\\\n", " ").splitlines():
            if ":" not in line:
                continue
            lhs, rhs = line.split(":", 1)
            targets = [x for x in lhs.split() if x.endswith(".vo")]
            srcs = [x[:-1] if x.endswith(".vo") else x for x in rhs.split() if x.endswith(".vo") or x.endswith(".v")]
            for t in targets:
                deps[t[:-1]] = [x for x in srcs if x.startswith("theories/")]
    start = "theories/Properties/%s.v" % prop
    seen, todo = set(), [start]
    while todo:
        f = todo.pop()
        if f in seen:
            continue
        seen.add(f)
        todo.extend(deps.get(f, []))
    return sorted(seen)


def forbidden_vernacular(files=None):
    bad = []
    for f in (files if files is not None else v_files()):
        pth = os.path.join(COQ, f)
        if not os.path.exists(pth):
            continue
        txt = open(pth).read()
        txt = re.sub(r"\(\*.*?\*\)", "", txt, flags=re.S)
        for m in FORBIDDEN.finditer(txt):
            bad.append("%s: %s" % (f, m.group(0)))
    return bad


def theorem_names(prop):
    p = os.path.join(COQ, "theories", "Properties", prop + ".v")
    if not os.path.exists(p):
        return []
    txt = re.sub(r"\(\*.*?\*\)", "", open(p).read(), flags=re.S)
    return re.findall(r"^\s*(?:Theorem|Lemma|Corollary)\s+([A-Za-z0-9_']+)", txt, flags=re.M)


def vo_fresh(prop):
    v = os.path.join(COQ, "theories", "Properties", prop + ".v")
    vo = v + "o"
    return os.path.exists(vo) and os.path.getmtime(vo) >= os.path.getmtime(v)


def assumptions(prop):
    """Re-runs coqc on Properties/<prop>.v (cached on the .vo mtime) and parses Print Assumptions.
    Returns (ok, [(theorem, [axioms])], text)."""
    d = os.path.join(COQ, ".assum")
    os.makedirs(d, exist_ok=True)
    out_f = os.path.join(d, prop + ".txt")
    vo = os.path.join(COQ, "theories", "Properties", prop + ".vo")
    if not os.path.exists(vo):
        return False, [], "Properties/%s.vo missing" % prop
    if not os.path.exists(out_f) or os.path.getmtime(out_f) < os.path.getmtime(vo):
        # compile a copy so that the real .vo is not rewritten (keeps make's timestamps stable)
        tmpd = os.path.join(WORK, "assum-" + prop)
        os.makedirs(tmpd, exist_ok=True)
        src = os.path.join(COQ, "theories", "Properties", prop + ".v")
        tmpv = os.path.join(tmpd, prop + "_assum.v")
        open(tmpv, "w").write(open(src).read())
        rc, out = sh(["timeout", "1200", "coqc", "-Q", os.path.join(COQ, "theories"), "SV", tmpv], cwd=tmpd, timeout=1300)
        if rc != 0:
            return False, [], out
        open(out_f, "w").write(out)
    text = open(out_f).read()
    names = theorem_names(prop)
    blocks = re.split(r"(?=Closed under the global context|Axioms:)", text)
    blocks = [b for b in blocks if b.startswith("Closed") or b.startswith("Axioms:")]
    res = []
    ok = True
    for i, b in enumerate(blocks):
        axs = []
        if b.startswith("Axioms:"):
            axs = re.findall(r"^([A-Za-z0-9_.']+)\s*:", b[len("Axioms:"):], flags=re.M)
        nm = names[i] if i < len(names) else "?%d" % i
        for a in axs:
            if a not in ALLOWED_AXIOMS and a.split(".")[-1] not in ALLOWED_AXIOMS:
                ok = False
        res.append((nm, axs))
    if len(blocks) < len(names):
        ok = False
        text += "\n(Print Assumptions missing for some theorems: %d blocks, %d theorems)" % (len(blocks), len(names))
    return ok, res, text


def newest(paths):
    m = 0
    for p in paths:
        if os.path.exists(p):
            m = max(m, os.path.getmtime(p))
    return m


def build_model(engine):
    """Extracts the engine's model and builds ocaml/gen/<engine>_model."""
    gen = os.path.join(OCAML, "gen")
    os.makedirs(gen, exist_ok=True)
    exe = os.path.join(gen, engine + "_model")
    xv = os.path.join(COQ, "theories", "Extract", "X_%s.v" % engine)
    srcs = [os.path.join(COQ, f) for f in v_files()] + [os.path.join(OCAML, "util.ml"), os.path.join(OCAML, engine + "_drv.ml")]
    if os.path.exists(exe) and os.path.getmtime(exe) >= newest(srcs):
        return True, ""
    rc, out = sh(["timeout", "900", "coqc", "-Q", os.path.join(COQ, "theories"), "SV", xv], cwd=gen, timeout=1000)
    if rc != 0:
        return False, out
    main = os.path.join(gen, engine + "_main.ml")
    with open(main, "w") as f:
        for part in (os.path.join(gen, engine + "_model.ml"), os.path.join(OCAML, "util.ml"), os.path.join(OCAML, engine + "_drv.ml")):
            f.write(open(part).read() + "\n")
    # build to a temporary name and rename atomically: a concurrently running check keeps executing the old binary
    tmp = exe + ".tmp%d" % os.getpid()
    rc, out = sh(["ocamlfind", "ocamlopt", "-w", "-a", "-package", "str", "-linkpkg", main, "-o", tmp], cwd=gen, timeout=900)
    if rc == 0:
        os.replace(tmp, exe)
    return rc == 0, out


def build_harness(engine):
    os.makedirs(os.path.join(HARNESS, "bin"), exist_ok=True)
    src = open(os.path.join(REPO, "go.sum")).read()
    if not ALT:
        gs = os.path.join(HARNESS, "go.sum")
        if not os.path.exists(gs) or open(gs).read() != src:
            open(gs, "w").write(src)
        modflag = []
    else:
        # build against a scratch tree without touching harness/go.mod: alternative modfile
        alt = os.path.join(WORK, "alt%s.mod" % ALT)
        open(alt, "w").write(open(os.path.join(HARNESS, "go.mod")).read().replace("=> /repo", "=> " + REPO))
        open(alt[:-4] + ".sum", "w").write(src)
        modflag = ["-modfile=" + alt]
    tmp = os.path.join("bin", engine + ALT + ".tmp%d" % os.getpid())
    rc, out = sh(["go", "build"] + modflag + ["-tags", "verif", "-o", tmp, "./cmd/" + engine],
                 cwd=HARNESS, env=GOENV, timeout=1800)
    if rc == 0:
        os.replace(os.path.join(HARNESS, tmp), os.path.join(HARNESS, "bin", engine + ALT))
    return rc == 0, out


def setup():
    t0 = time.time()
    with Lock():
        ok, out = build_coq()
        if not ok:
            print(out[-3000:])
            print("setup: WARNING Coq build has failures (each check verifies its own property file)")
        bad = forbidden_vernacular()
        if bad:
            print("setup: WARNING forbidden vernacular somewhere in the development (each check enforces it on the files its theorems depend on):", bad)
        for e in ENGINES:
            ok, out = build_model(e)
            if not ok:
                print(out[-3000:])
                print("setup: model runner build FAILED for", e)
                return 1
            ok, out = build_harness(e)
            if not ok:
                print(out[-3000:])
                print("setup: harness build FAILED for", e)
                return 1
        for p in sorted(PROPS):
            ok, res, text = assumptions(p)
            if not ok:
                print(text[-2000:])
                print("setup: assumptions check FAILED for", p)
                return 1
    print("setup ok in %.1fs" % (time.time() - t0))
    return 0


# ----------------------------------------------------------------------------- running cases
def split_cases(ops_text):
    """-> list of (case_id, [op lines])"""
    cases = []
    cur = None
    for line in ops_text.splitlines():
        if not line.strip():
            continue
        if line.startswith("#case"):
            cur = (line.split(None, 1)[1] if " " in line else "", [])
            cases.append(cur)
        else:
            if cur is None:
                cur = ("anon", [])
                cases.append(cur)
            cur[1].append(line)
    return cases


def join_cases(cases):
    out = []
    for cid, ops in cases:
        out.append("#case " + cid)
        out.extend(ops)
    return "\n".join(out) + "\n"


def run_impl(engine, ops_text, timeout=1800, extra_env=None):
    env = dict(GOENV)
    if extra_env:
        env.update(extra_env)
    p = subprocess.run([os.path.join(HARNESS, "bin", engine + ALT), "run"], input=ops_text, text=True,
                       stdout=subprocess.PIPE, stderr=subprocess.PIPE, timeout=timeout, env=env)
    return p.returncode, p.stdout, p.stderr


def run_model(engine, ops_text, timeout=1800):
    p = subprocess.run([os.path.join(OCAML, "gen", engine + "_model")], input=ops_text, text=True,
                       stdout=subprocess.PIPE, stderr=subprocess.PIPE, timeout=timeout)
    return p.returncode, p.stdout, p.stderr


TAG_RE = re.compile(r"^([PM]):(\S+) (.*)$")
BAD_RE = re.compile(r" !BAD:(C\d+):(\S+)")


class Failure:
    def __init__(self, kind, case_id, op_index, detail, clause=""):
        self.kind = kind          # 'bad' | 'divP' | 'divM' | 'crash'
        self.case_id = case_id
        self.op_index = op_index
        self.detail = detail
        self.clause = clause

    def strong(self):
        return self.kind in ("bad", "divP", "crash")


def compare(prop, ops_text, impl_out, model_out):
    """Aligns impl and model output per case. Returns (failures, stats)."""
    cases = split_cases(ops_text)
    # a property may adopt the observables / oracles an engine tags with another property id (same mechanism)
    aliases = set(PROPS.get(prop, {}).get("also_tags", []))

    def per_case(txt):
        d = {}
        order = []
        cur = None
        for line in txt.splitlines():
            if line.startswith("#case"):
                cid = line.split(None, 1)[1] if " " in line else ""
                cur = d.setdefault(cid, [])
                order.append(cid)
            elif cur is not None:
                cur.append(line)
        return d

    ic, mc = per_case(impl_out), per_case(model_out)
    fails = []
    stats = {"lines": 0, "P": 0, "M": 0, "other_prop": 0}
    for cid, ops in cases:
        il, ml = ic.get(cid, []), mc.get(cid, [])
        n = max(len(il), len(ml))
        diverged = False
        for i in range(n):
            a = il[i] if i < len(il) else "<missing>"
            b = ml[i] if i < len(ml) else "<missing>"
            stats["lines"] += 1
            bads = BAD_RE.findall(a)
            a_clean = BAD_RE.sub("", a)
            m = TAG_RE.match(a_clean)
            if m:
                kind, tags, payload = m.group(1), m.group(2).split(","), m.group(3)
            else:
                kind, tags, payload = "P", ["*"], a_clean   # untagged (X panic, E …): concerns everyone
            mine = prop in tags or "*" in tags or bool(aliases & set(tags))
            for bp, clause in bads:
                if bp == prop or bp in aliases:
                    fails.append(Failure("bad", cid, i, "impl: %s" % a, clause))
            if diverged:
                continue  # later payloads of this case are not independent observations; the implementation-only
                          # property oracles (!BAD, collected above) still are
            if not mine:
                stats["other_prop"] += 1
                continue
            stats[kind] += 1
            if payload != b:
                k = "divP" if kind == "P" else "divM"
                if a_clean.startswith("X panic") or a == "<missing>":
                    k = "crash"
                fails.append(Failure(k, cid, i, "impl=%s model=%s" % (a_clean, b)))
                diverged = True
    return fails, stats


def run_both(engine, prop, ops_text, timeout=1800):
    try:
        rc1, impl_out, err1 = run_impl(engine, ops_text, timeout)
    except subprocess.TimeoutExpired as ex:
        # the harness hung (e.g. a leaked lock): keep what it printed; the missing lines count as a crash
        rc1, impl_out, err1 = 0, (ex.stdout or b"").decode() if isinstance(ex.stdout, bytes) else (ex.stdout or ""), "timeout"
        impl_out += "\nX harness timed out after %ds\n" % timeout
    try:
        rc2, model_out, err2 = run_model(engine, ops_text, timeout)
    except subprocess.TimeoutExpired:
        rc2, model_out, err2 = 1, "", "model runner timed out"
    fails, stats = compare(prop, ops_text, impl_out, model_out)
    if rc1 != 0:
        fails.append(Failure("crash", "?", -1, "harness exited %d: %s" % (rc1, err1[-500:])))
    if rc2 != 0:
        fails.append(Failure("divM", "?", -1, "model runner exited %d: %s" % (rc2, err2[-500:])))
    return fails, stats, impl_out, model_out


def case_fails(engine, prop, cid, ops, want_strong):
    txt = join_cases([(cid, ops)])
    try:
        fails, _, _, _ = run_both(engine, prop, txt, timeout=120)
    except subprocess.TimeoutExpired:
        return False
    if want_strong:
        return any(f.strong() for f in fails)
    return bool(fails)


PINNED_OPS = {"tables", "new", "cfg"}


def shrink(engine, prop, cid, ops, want_strong, budget_s=90):
    """ddmin over the op lines of one case."""
    t0 = time.time()
    cur = list(ops)
    n = 2
    while len(cur) >= 2 and time.time() - t0 < budget_s:
        chunk = max(1, len(cur) // n)
        reduced = False
        for i in range(0, len(cur), chunk):
            # set-up lines without which the rest of a case is meaningless are never removed (a case shrunk to
            # "step on a table that does not exist" would fail for a reason of its own)
            cand = [l for j, l in enumerate(cur) if not (i <= j < i + chunk) or l.split(" ", 1)[0] in PINNED_OPS]
            if cand and len(cand) < len(cur) and case_fails(engine, prop, cid, cand, want_strong):
                cur = cand
                n = max(n - 1, 2)
                reduced = True
                break
            if time.time() - t0 > budget_s:
                break
        if not reduced:
            if chunk == 1:
                break
            n = min(len(cur), n * 2)
    return cur


# ----------------------------------------------------------------------------- known findings
def load_known():
    known, fixed = [], []
    p = os.path.join(ROOT, "KNOWN_FINDINGS.txt")
    if not os.path.exists(p):
        return known, fixed
    for line in open(p):
        line = line.strip()
        if line.startswith("known:"):
            m = re.match(r"known:\s+property=(\S+)\s+id=(\S+)\s+(?:engine=(\S+)\s+)?witness=(\S+)\s+sig=(\S+)\s+::\s*(.*)$", line)
            if m:
                known.append(dict(prop=m.group(1), id=m.group(2), engine=m.group(3), witness=m.group(4), sig=m.group(5), text=m.group(6)))
        elif line.startswith("fixed:"):
            fixed.append(line)
    return known, fixed


def matches_known(prop, known, ops, fail):
    # a property that adopts another property's observables (also_tags) inherits the known findings recorded for it
    adopted = set(PROPS.get(prop, {}).get("also_tags", []))
    for k in known:
        if k["prop"] != prop and k["prop"] not in adopted:
            continue
        fn = getattr(sigs, k["sig"], None)
        if fn and fn(ops, fail):
            return k
    return None


# ----------------------------------------------------------------------------- the check
def write_replay(prop, engine, cid, ops, fail, impl_out, model_out, note=""):
    rdir = os.path.join(ROOT, "replays") if not ALT else os.path.join(WORK, "replays" + ALT)
    os.makedirs(rdir, exist_ok=True)
    h = hashlib.sha1(("\n".join(ops) + prop + note).encode()).hexdigest()[:12]
    path = os.path.join(rdir, "%s-%s.json" % (prop, h))
    json.dump({
        "property": prop, "engine": engine, "case": cid, "ops": ops,
        "kind": fail.kind if fail else "theorem", "clause": fail.clause if fail else "",
        "detail": fail.detail if fail else note, "note": note,
        "impl_output": impl_out.splitlines()[:400], "model_output": model_out.splitlines()[:400],
        "rerun": "./check replay %s" % path,
    }, open(path, "w"), indent=1)
    return path


def gen_cases(engine, seed, n, tier, prop):
    rc, out = sh([os.path.join(HARNESS, "bin", engine + ALT), "gen", "-seed", str(seed), "-n", str(n), "-tier", tier, "-prop", prop],
                 env=GOENV, timeout=600)
    if rc != 0:
        raise RuntimeError("generator failed: " + out[-2000:])
    return out


def search_failing_input(engine, prop, seed, n, known):
    """Wider search after a broken proof / correspondence: fresh seeds, thorough volume.
    Returns (cid, ops, fail, impl_out, model_out) for a strong failure not matching a known finding, or None."""
    for k in range(3):
        ops_text = gen_cases(engine, seed * 1000003 + 7919 * (k + 1), n, "thorough", prop)
        fails, _, impl_out, model_out = run_both(engine, prop, ops_text)
        cases = dict(split_cases(ops_text))
        for f in fails:
            if f.strong() and f.case_id in cases:
                ops = shrink(engine, prop, f.case_id, cases[f.case_id], True, budget_s=60)
                fs, _, io, mo = run_both(engine, prop, join_cases([(f.case_id, ops)]))
                fs = [x for x in fs if x.strong()]
                if fs and not matches_known(prop, known, ops, fs[0]):
                    return f.case_id, ops, fs[0], io, mo
    return None


def check(prop, tier):
    t0 = time.time()
    cfg = PROPS[prop]
    engines = cfg.get("engines") or [cfg["engine"]]
    engine = engines[0]
    seed = int(os.environ.get("VERIF_SEED", "1") or "1")
    ev = {"property_id": prop, "tier": tier, "seed": seed, "level": cfg.get("level", "proof"), "violations": 0}
    violations = []   # (replay path, suffix)
    known_lines = []
    notes = []
    known, fixed = load_known()

    with Lock():
        coq_ok, coq_log = build_coq()
        forb = forbidden_vernacular(coq_deps(prop))
        thm_ok = coq_ok and vo_fresh(prop) and not forb
        if not coq_ok and vo_fresh(prop):
            # some other file is broken; this property's theorems still compiled
            thm_ok = not forb
            notes.append("Coq build has failures outside Properties/%s.v (see coq/.build.log)" % prop)
        a_ok, a_res, a_text = assumptions(prop) if thm_ok else (False, [], "not compiled")
        okm, outm, okh, outh = True, "", True, ""
        for eng_ in engines:
            okm_, outm_ = build_model(eng_)
            okh_, outh_ = build_harness(eng_)
            if not okm_:
                okm, outm = False, outm_
            if not okh_:
                okh, outh = False, outh_
    if not okh:
        print(outh[-3000:])
        print("ERROR: harness for engine %s does not build against /repo (with -tags verif)" % engine)
        return 2
    names = theorem_names(prop)
    broken_thm = None
    if not thm_ok or not a_ok:
        if forb:
            broken_thm = "forbidden vernacular: " + "; ".join(forb[:5])
        elif not thm_ok:
            m = re.findall(r'File "\./(theories/[^"]+)", line (\d+)', coq_log)
            broken_thm = "Properties/%s.v does not compile (first error at %s)" % (prop, m[0] if m else "?")
        else:
            broken_thm = "Print Assumptions of Properties/%s.v lists a non-allowed axiom or is incomplete" % prop
    if not okm:
        broken_thm = (broken_thm or "") + " model extraction/build failed: " + outm[-300:]

    chk = None
    if tier == "thorough" and thm_ok and a_ok:
        chk = coqchk(prop)
        if chk["rc"] != 0 or chk["axioms"] not in ("<none>",):
            broken_thm = "coqchk does not accept Properties/%s.vo or reports axioms: %s" % (prop, chk["axioms"])

    # --- correspondence
    n = cfg["n_" + tier]
    evaluations = 0
    distinct = set()
    samples = []
    hist = {}
    all_stats = {"lines": 0, "P": 0, "M": 0, "other_prop": 0}
    batches = []
    for eng_ in engines:
        for pth in sorted(glob.glob(os.path.join(ROOT, "corpus", eng_, "*.ops"))):
            batches.append(("corpus:" + os.path.basename(pth), eng_, open(pth).read()))
        if okm:
            n_e = cfg.get("n_%s_%s" % (tier, eng_), n)
            batches.append(("generated", eng_, gen_cases(eng_, seed, n_e, tier, prop)))
    strong_found = []
    weak_found = []
    first_samples = []
    for bname, engine, ops_text in batches if okm else []:
        fails, stats, impl_out, model_out = run_both(engine, prop, ops_text, timeout=900 if tier == "quick" else 3600)
        for k in all_stats:
            all_stats[k] += stats[k]
        cases = split_cases(ops_text)
        cd = dict(cases)
        if bname == "generated" and cases and not first_samples:
            first_samples.append({"engine": engine, "case": cases[0][0], "n_ops": len(cases[0][1]), "ops": cases[0][1][:60]})
        for cid, ops in cases:
            evaluations += 1
            h = hashlib.sha1("\n".join(ops).encode()).hexdigest()
            if len(ops) >= cfg.get("nontrivial_min_ops", 2):
                distinct.add(h)
            for o in ops:
                k = o.split(" ", 1)[0]
                hist[k] = hist.get(k, 0) + 1
            if len(samples) < 3 and bname == "generated" and (len(ops) <= 40 or evaluations % 97 == 0):
                samples.append({"engine": engine, "case": cid, "n_ops": len(ops), "ops": ops[:60]})
        seen_cases = set()
        for f in fails:
            if f.case_id in seen_cases:
                continue
            seen_cases.add(f.case_id)
            ops = cd.get(f.case_id)
            if ops is None:
                (strong_found if f.strong() else weak_found).append((f.case_id, [], f, impl_out[-2000:], model_out[-2000:], engine))
                continue
            small = shrink(engine, prop, f.case_id, ops, f.strong(), budget_s=cfg.get("shrink_s", 60))
            fs, _, io, mo = run_both(engine, prop, join_cases([(f.case_id, small)]))
            fs_sel = [x for x in fs if x.strong()] if f.strong() else fs
            if not fs_sel:   # flaky / not reproducible after shrinking: keep the original
                small, fs_sel, io, mo = ops, [f], impl_out, model_out
            if small is not ops:
                fs_sel[0].detail += "  [before shrinking (%d ops): %s]" % (len(ops), f.detail[:600])
            (strong_found if f.strong() else weak_found).append((f.case_id, small, fs_sel[0], io, mo, engine))
            # cases explained by a listed known finding do not use up the budget of reported cases
            fresh_n = sum(1 for x in strong_found if not matches_known(prop, known, x[1], x[2])) + len(weak_found)
            if fresh_n >= 3 or len(strong_found) + len(weak_found) >= 12:
                break

    # --- known-finding witnesses
    for k in known:
        if k["prop"] != prop or not okm:
            continue
        wtxt = open(os.path.join(ROOT, k["witness"])).read()
        fails, _, io, mo = run_both(k.get("engine") or engines[0], prop, wtxt)
        if any(f.strong() for f in fails):
            known_lines.append("KNOWN-FINDING: property=%s %s %s" % (prop, k["id"], k["text"]))
        else:
            notes.append("known finding %s no longer reproduces on its witness" % k["id"])

    # --- classify
    for cid, ops, f, io, mo, eng_ in strong_found:
        k = matches_known(prop, known, ops, f)
        if k:
            notes.append("generated case %s hit known finding %s" % (cid, k["id"]))
            continue
        path = write_replay(prop, eng_, cid, ops, f, io, mo)
        violations.append((path, ""))
    if not violations and (weak_found or broken_thm):
        found = None
        for eng_ in engines if okm else []:
            found = search_failing_input(eng_, prop, seed, cfg.get("n_thorough_%s" % eng_, cfg["n_thorough"]), known)
            if found:
                engine = eng_
                break
        if found:
            cid, ops, f, io, mo = found
            path = write_replay(prop, engine, cid, ops, f, io, mo, note="found by the search after: %s" % (broken_thm or weak_found[0][2].detail))
            violations.append((path, ""))
        else:
            if weak_found:
                cid, ops, f, io, mo, eng_ = weak_found[0]
                path = write_replay(prop, eng_, cid, ops, f, io, mo,
                                    note="correspondence broken: model/%s and implementation differ on a mechanism-level observable; no property-level failure found" % engine)
            else:
                path = write_replay(prop, engines[0], "-", [], None, "", "", note="theorem no longer checks: " + broken_thm)
            violations.append((path, " no-failing-input-found"))

    # --- runtime half (thorough tier only): -race stress, a reported data race is a concrete failing schedule
    race = None
    if tier == "thorough" and cfg.get("race"):
        race = run_race(cfg["race"], seed)
    elif tier == "quick" and cfg.get("race_quick"):
        race = run_race(cfg["race_quick"], seed)
    if race is not None:
        if race["racy"]:
            rdir = os.path.join(ROOT, "replays") if not ALT else os.path.join(WORK, "replays" + ALT)
            os.makedirs(rdir, exist_ok=True)
            path = os.path.join(rdir, "%s-race-%d.json" % (prop, seed))
            json.dump({"property": prop, "engine": "racer", "kind": "data-race", "ops": [], "case": "-",
                       "detail": "the -race stress reported a data race between lock-free readers and writers, or duplicate table lock sequence numbers",
                       "report": race["report"], "rerun": race["cmd"]}, open(path, "w"), indent=1)
            violations.append((path, ""))

    # --- evidence
    discharged = len(names) if (thm_ok and a_ok) else 0
    axioms = sorted({a for _, axs in a_res for a in axs})
    ev["violations"] = len(violations)
    ev["wall_s"] = round(time.time() - t0, 2)
    ev["coverage"] = {
        "obligations": max(len(names), 1),
        "discharged": discharged,
        "theorems": names,
        "print_assumptions": [{"theorem": nm, "axioms": axs} for nm, axs in a_res],
        "checker_cmd": "cd coq && coq_makefile -f _CoqProject -o Makefile.coq && make -f Makefile.coq -j16  (coqc 8.16.1, full .vo build; thorough adds coqchk -silent -o)",
        "trusted_base": cfg.get("trusted_base", []) + TRUSTED_COMMON,
        "evaluations": evaluations,
        "distinct_nontrivial": len(distinct),
        "rule": cfg.get("rule", ""),
        "samples": samples or first_samples,
        "op_histogram": hist,
        "observables_compared": all_stats,
        "known_findings_reproduced": known_lines,
        "notes": notes,
        "exhaustive": bool(cfg.get("exhaustive", False)),
    }
    ev["assumptions"] = cfg.get("assumptions", [])
    if race is not None:
        ev["coverage"]["race_stress"] = {k: race[k] for k in ("seconds", "racy", "cmd")}
    if chk is not None:
        ev["coverage"]["coqchk"] = {k: chk[k] for k in ("rc", "wall_s", "axioms", "cached")}

    evdir = os.path.join(ROOT, "evidence") if not ALT else os.path.join(WORK, "evidence" + ALT)
    os.makedirs(evdir, exist_ok=True)
    json.dump(ev, open(os.path.join(evdir, prop + ".json"), "w"), indent=1)

    for l in known_lines:
        print(l)
    for n_ in notes:
        print("note:", n_)
    print("%s %s: theorems %d/%d, cases %d (distinct non-trivial %d), observables %d, %.1fs" % (
        prop, tier, discharged, len(names), evaluations, len(distinct), all_stats["lines"], time.time() - t0))
    if violations:
        for path, suffix in violations:
            print("VIOLATION property=%s replay=%s%s" % (prop, path, suffix))
        return 1
    return 0


TRUSTED_COMMON = [
    "Coq 8.16.1 kernel (coqc, full .vo build; no native_compute; vm_compute only in Examples/refutation witnesses)",
    "axioms: none expected — Print Assumptions under every property theorem is parsed into print_assumptions",
    "extraction: Require Extraction + ExtrOcamlBasic only (Extract Inductive for bool, option, unit, list, prod, sumbool, sumor; no Extract Constant); N/Z/positive/nat stay Coq datatypes",
    "hand-written and trusted: ocaml/util.ml + ocaml/<engine>_drv.ml (parsing/printing), Go harness generators/oracles (harness/), lib/vcheck.py (comparison, shrinking)",
    "the model is hand-written; its tie to /repo is the correspondence check re-run on every check against the current working tree built with -tags verif",
]


def run_race(rc_cfg, seed):
    """Builds harness/cmd/racer (with -race unless norace) against REPO and runs it; exit code 66/67, 'DATA RACE' or
    'DUPLICATE LOCK SEQUENCE' = racy. Supporting search for a failing schedule only, never part of a proof."""
    secs = int(rc_cfg.get("seconds", 20))
    norace = bool(rc_cfg.get("norace"))
    extra = rc_cfg.get("args", [])
    repeat = int(rc_cfg.get("repeat", 1))
    with Lock():
        src = open(os.path.join(REPO, "go.sum")).read()
        modflag = []
        if ALT:
            alt = os.path.join(WORK, "alt%s.mod" % ALT)
            open(alt, "w").write(open(os.path.join(HARNESS, "go.mod")).read().replace("=> /repo", "=> " + REPO))
            open(alt[:-4] + ".sum", "w").write(src)
            modflag = ["-modfile=" + alt]
        exe = os.path.join("bin", ("racer-norace" if norace else "racer") + ALT)
        tmp = exe + ".tmp%d" % os.getpid()
        rc, out = sh(["go", "build"] + ([] if norace else ["-race"]) + modflag + ["-tags", "verif", "-o", tmp, "./cmd/racer"],
                     cwd=HARNESS, env=GOENV, timeout=1800)
        if rc == 0:
            os.replace(os.path.join(HARNESS, tmp), os.path.join(HARNESS, exe))
    args = ["-d", "%ds" % secs, "-seed", str(seed)] + extra
    cmd = "GORACE='halt_on_error=1 exitcode=66' %s %s" % (os.path.join(HARNESS, exe), " ".join(args))
    if rc != 0:
        return {"seconds": secs, "racy": False, "cmd": cmd, "report": "racer does not build: " + out[-500:]}
    env = dict(GOENV, GORACE="halt_on_error=1 exitcode=66")
    racy, report = False, ""
    for _ in range(repeat):
        p = subprocess.run([os.path.join(HARNESS, exe)] + args, env=env,
                           stdout=subprocess.PIPE, stderr=subprocess.STDOUT, text=True, timeout=secs + 600)
        report = p.stdout[-6000:]
        if p.returncode in (66, 67) or "DATA RACE" in p.stdout or "DUPLICATE LOCK SEQUENCE" in p.stdout:
            racy = True
            break
    return {"seconds": secs, "racy": racy, "cmd": cmd, "report": report}


def coqchk(prop):
    """Independent re-check (coqchk -silent -o) of the compiled property file and everything it depends on.
    Results are cached per property on the hash of its transitive sources (a run takes 10-25 min)."""
    deps = coq_deps(prop)
    h = hashlib.sha1()
    for f in deps:
        h.update(open(os.path.join(COQ, f), "rb").read())
    key = h.hexdigest()
    cache = os.path.join(WORK, "coqchk-%s.json" % prop)
    if os.path.exists(cache):
        c = json.load(open(cache))
        if c.get("key") == key:
            c["cached"] = True
            return c
    t0 = time.time()
    rc, out = sh("timeout 3000 coqchk -silent -o -Q theories SV SV.Properties.%s 2>&1 | tail -40" % prop, cwd=COQ, timeout=3100)
    axioms = re.findall(r"\* Axioms:\s*(.*?)\n\s*\n", out, flags=re.S)
    res = {"key": key, "rc": rc, "wall_s": round(time.time() - t0, 1), "axioms": axioms[0].strip() if axioms else "?",
           "tail": out[-1500:], "cached": False}
    json.dump(res, open(cache, "w"), indent=1)
    return res


def replay(path):
    r = json.load(open(path))
    prop, engine = r["property"], r["engine"]
    with Lock():
        build_coq()
        build_model(engine)
        ok, out = build_harness(engine)
        if not ok:
            print(out[-2000:])
            return 2
    if not r["ops"]:
        print("replay names a theorem/correspondence only:", r.get("note"))
        return 1 if not vo_fresh(prop) else 0
    txt = join_cases([(r["case"], r["ops"])])
    fails, stats, io, mo = run_both(engine, prop, txt)
    print("--- impl\n" + io + "--- model\n" + mo)
    for f in fails:
        print("FAIL kind=%s case=%s op#%d %s %s" % (f.kind, f.case_id, f.op_index, f.clause, f.detail))
    if fails:
        print("VIOLATION property=%s replay=%s" % (prop, path))
        return 1
    print("replay passes on the current tree")
    return 0


def main(argv):
    if len(argv) >= 2 and argv[1] == "setup":
        return setup()
    if len(argv) >= 3 and argv[1] == "replay":
        return replay(argv[2])
    if len(argv) >= 3 and argv[1] in PROPS and argv[2] in ("quick", "thorough"):
        return check(argv[1], argv[2])
    print(__doc__)
    return 2


if __name__ == "__main__":
    sys.exit(main(sys.argv))
