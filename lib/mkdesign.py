#!/usr/bin/env python3
"""Regenerates the generated tables of DESIGN.md (between the BEGIN/END markers) from the tree:
per-property status (engines, theorem counts) and the seeded-change detection matrix."""
import json, os, re, glob
ROOT = os.path.dirname(os.path.dirname(os.path.abspath(__file__)))
def thm(p):
    f = os.path.join(ROOT, "coq/theories/Properties/%s.v" % p)
    txt = re.sub(r"\(\*.*?\*\)", "", open(f).read(), flags=re.S)
    names = re.findall(r"^\s*Theorem\s+([A-Za-z0-9_']+)", txt, flags=re.M)
    return len(names), [n for n in names if n.endswith("_partial")], [n for n in names if "refuted" in n]
titles = {json.loads(l)["id"]: json.loads(l)["title"] for l in open(os.path.join(ROOT, "properties.jsonl"))}
rows = ["| id | title | engines | theorems | of which `_partial` | refutation theorems |", "|---|---|---|---|---|---|"]
tot = 0
for p in sorted(titles):
    cfg = json.load(open(os.path.join(ROOT, "lib/props.d/%s.json" % p)))
    n, part, ref = thm(p)
    tot += n
    rows.append("| %s | %s | %s | %d | %s | %s |" % (p, titles[p], ", ".join(cfg.get("engines") or [cfg["engine"]]), n,
                ", ".join("`%s`" % x for x in part) or "–", ", ".join("`%s`" % x for x in ref) or "–"))
rows.append("\nTotal: %d theorems in `Properties/*.v`, each closed under the global context." % tot)
status = "\n".join(rows)
srows = ["| seed | origin | property | needs | detection (quick tier) |", "|---|---|---|---|---|"]
cnt = {"strong": 0, "weak": 0, "missed": 0, "error": 0}
for d in sorted(glob.glob(os.path.join(ROOT, "seeded", "*", "meta.json"))):
    sid = os.path.basename(os.path.dirname(d))
    m = json.load(open(d))
    dj = os.path.join(os.path.dirname(d), "detected.json")
    det = json.load(open(dj)) if os.path.exists(dj) else {}
    best = "strong" if "strong" in det.values() else ("weak" if "weak" in det.values() else ("missed" if det else "not run"))
    if best in cnt:
        cnt[best] += 1
    origin = "reverse of fix" if sid.startswith("D") else "independent sub-agent"
    needs = (m.get("needs_to_manifest") or "")
    if needs == "see notes.md":
        needs = re.sub(r"\s+", " ", (m.get("notes_head") or ""))[:110]
    srows.append("| %s | %s | %s | %s | %s |" % (sid, origin, m["breaks_property"], needs[:140].replace("|", "/"),
                 ", ".join("%s: **%s**" % kv if kv[1] == "strong" else "%s: %s" % kv for kv in sorted(det.items())) or "not run"))
srows.append("\nSeeds whose best detection is strong: %d, weak only (`no-failing-input-found`): %d, missed: %d." % (cnt["strong"], cnt["weak"], cnt["missed"]))
seeds = "\n".join(srows)
p = os.path.join(ROOT, "DESIGN.md")
s = open(p).read()
def put(s, tag, body):
    b, e = "<!-- BEGIN:%s -->" % tag, "<!-- END:%s -->" % tag
    if b not in s:
        return s + "\n%s\n%s\n%s\n" % (b, body, e)
    return s[:s.index(b) + len(b)] + "\n" + body + "\n" + s[s.index(e):]
s = put(s, "STATUS", status)
s = put(s, "SEEDS", seeds)
open(p, "w").write(s)
print("DESIGN.md tables regenerated: %d theorems; seeds %s" % (tot, cnt))
