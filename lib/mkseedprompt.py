#!/usr/bin/env python3
"""lib/mkseedprompt.py <Cxx> <round> -> prints the prompt given to an independent seeding sub-agent.
The prompt contains only the property's text and anchors, the rules of the exercise and one-line
summaries of changes other seeders already delivered (so that new ones differ); nothing from /verif."""
import json, sys, os, glob, re
ROOT = os.path.dirname(os.path.dirname(os.path.abspath(__file__)))
pid, rnd = sys.argv[1], sys.argv[2]
prop = next(json.loads(l) for l in open(os.path.join(ROOT, "properties.jsonl")) if json.loads(l)["id"] == pid)
wt, out = "/tmp/seedwt%s-%s" % (rnd, pid), "/tmp/seedout%s-%s" % (rnd, pid)
tried = []
for d in sorted(glob.glob(os.path.join(ROOT, "seeded", "*"))):
    mp = os.path.join(d, "meta.json")
    if not os.path.exists(mp):
        continue
    m = json.load(open(mp))
    if m.get("breaks_property") != pid:
        continue
    files = sorted(set(re.findall(r"^diff --git a/(\S+)", open(os.path.join(d, "patch.diff")).read(), flags=re.M)))
    head = " ".join((m.get("notes_head") or "").split())[:300]
    tried.append(" - %s (%s): %s" % (os.path.basename(d), ", ".join(files), head))
anchors = ", ".join(prop["anchors"]["files"])
print(f"""You are a software engineer testing the quality of a verification effort for the Go library cilium/statedb (an in-memory transactional database: MVCC snapshots over persistent adaptive radix trees, multi-index tables, watch channels, change iterators with graveyard GC, plus a reconciler). Your job: craft realistic, subtle BUGS ("seeded changes") that break one stated property while the code still compiles and the existing test suite still passes.

SETUP: create your own scratch git worktree of the repository and work ONLY there:
  git -C /repo worktree add --detach {wt} HEAD
Never edit /repo itself, never look into or touch /verif (it contains the verification machinery under test — your changes must be independent of it). Go environment for every shell call: `export GOFLAGS=-mod=mod GOPROXY=off` (nothing else; no network). Run the suite in the worktree with `cd {wt} && go test -vet=off -count=1 ./... 2>&1 | tail -15` (about 30-60 s). Ignore the files verif_hooks.go / verif_nohooks.go / export_verif.go and the `verifPause(...)`/`verifLock(...)` call sites: they are inert instrumentation; do not modify or remove them.

THE PROPERTY ({pid}: {prop['title']}):
"{prop['statement']}"
It must hold: {prop['quantifier']['text']}
Code anchors: {anchors}

ALREADY TRIED by others (do NOT repeat these code sites / mechanisms; find different ones, in other functions or other files among the anchors and their callees):
""" + "\n".join(tried) + f"""

TASK: produce 3 DIFFERENT seeded changes (each one a separate small patch against the clean worktree HEAD, each touching the library code only — no test files), such that for each:
 1. the library still compiles (`go build ./...`) and the ENTIRE existing test suite still passes with the change applied;
 2. the property above is violated by the changed code;
 3. the violation needs something specific to manifest — a particular interleaving, a fault at a particular point, a multi-step sequence of operations, an unusual input (empty key, 0x00/0x01 bytes, key that is a prefix of another, a boundary size, a stale revision…), or two cooperating code sites that each look fine alone — NOT something ordinary use would expose at once. Prefer plausible programmer mistakes (off-by-one, wrong variable, missing clone/copy, reordered steps, a lost case in a switch, an optimisation that is wrong in a corner) over sabotage. Make the 3 changes exercise different mechanisms / code sites.
 4. you write a demonstration: a Go test file (placed in the package directory of the worktree, name it seed_demo_test.go, package-internal or external as needed) with a test that FAILS with the change and PASSES on the clean tree. Verify both directions yourself.

For each change k = 1..3 create the directory {out}/k/ containing: patch.diff (output of `git -C {wt} diff` for the library change only, WITHOUT the demo test), demo_test.go (the demonstration test file, with a comment at the top saying in which package directory it must be placed and the exact `go test -run` command), and notes.md (which property clause it breaks, what exactly is needed to make it manifest, why the existing suite does not catch it, what you ran and the observed outputs with and without the change). Do NOT use `git stash` (refs/stash is shared by all worktrees of /repo and gets crossed with other people's): save a change with `git diff > file.patch` and re-apply it with `git apply`. Between changes restore the worktree with `git -C {wt} checkout -- . && git -C {wt} clean -fdq`.

When done, remove the worktree: `git -C /repo worktree remove --force {wt}`.

FINAL REPORT: for each change one paragraph: the file/function changed, the failing scenario, confirmation that (a) suite passes with change, (b) demo fails with change, (c) demo passes without. If you could not make a change satisfying all conditions say so plainly rather than delivering a weaker one.""")
