#!/usr/bin/env python3
"""lib/seedrun.py [seed ids...] — runs every seeded change against the checks of the properties it
is recorded to affect (meta.json: breaks_property + also_affects) in scratch worktrees and writes
seeded/<id>/detected.json and seeded/RESULTS.md. Never touches /repo's working tree."""
import json, os, subprocess, sys, concurrent.futures, re
ROOT = os.path.dirname(os.path.dirname(os.path.abspath(__file__)))
def run(seed, prop, tier="quick"):
    p = subprocess.run([os.path.join(ROOT, "lib", "seedtest.sh"), seed, prop, tier], stdout=subprocess.PIPE, stderr=subprocess.STDOUT, text=True)
    out = p.stdout
    viol = re.findall(r"^VIOLATION property=\S+ replay=(\S+)(.*)$", out, flags=re.M)
    if not viol:
        verdict = "missed" if "theorems" in out else "error"
    elif all("no-failing-input-found" in v[1] for v in viol):
        verdict = "weak"
    else:
        verdict = "strong"
    return seed, prop, verdict, out[-600:]
def main():
    ids = sys.argv[1:] or sorted(d for d in os.listdir(os.path.join(ROOT, "seeded")) if os.path.exists(os.path.join(ROOT, "seeded", d, "meta.json")))
    jobs = []
    for sid in ids:
        m = json.load(open(os.path.join(ROOT, "seeded", sid, "meta.json")))
        props = [m["breaks_property"]] + [p for p in m.get("also_affects", []) if p != m["breaks_property"]]
        for p in props:
            jobs.append((sid, p))
    res = {}
    with concurrent.futures.ThreadPoolExecutor(max_workers=4) as ex:
        for sid, prop, verdict, tail in ex.map(lambda j: run(*j), jobs):
            res.setdefault(sid, {})[prop] = verdict
            print(sid, prop, verdict, flush=True)
            if verdict == "error":
                print(tail)
    for sid, r in res.items():
        json.dump(r, open(os.path.join(ROOT, "seeded", sid, "detected.json"), "w"), indent=1)
    # summary over everything recorded so far
    lines = ["# Seeded changes vs checks (quick tier)", "", "| seed | breaks | detection per property check |", "|---|---|---|"]
    for sid in sorted(os.listdir(os.path.join(ROOT, "seeded"))):
        dj = os.path.join(ROOT, "seeded", sid, "detected.json")
        mj = os.path.join(ROOT, "seeded", sid, "meta.json")
        if os.path.exists(dj) and os.path.exists(mj):
            m = json.load(open(mj)); d = json.load(open(dj))
            lines.append("| %s | %s | %s |" % (sid, m["breaks_property"], ", ".join("%s: %s" % kv for kv in sorted(d.items()))))
    open(os.path.join(ROOT, "seeded", "RESULTS.md"), "w").write("\n".join(lines) + "\n")
if __name__ == "__main__":
    main()
