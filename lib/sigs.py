"""Signatures of known findings: decidable predicates over a minimized failing case
(ops: list of op lines, fail: vcheck.Failure). A failing case that matches none of the
signatures of its property is reported as a VIOLATION."""


def _unhex(s):
    return b"" if s == "-" else bytes.fromhex(s)


def _esc_len(b):
    return len(b) + sum(1 for c in b if c <= 1)


def keyenc_k1(ops, fail):
    """K1: order inverted; some primary key has escaped length >= 256."""
    if "order" not in (fail.clause or "") and fail.kind != "divP":
        return False
    for o in ops:
        f = o.split()
        if f[0] == "cmp" and (_esc_len(_unhex(f[1])) >= 256 or _esc_len(_unhex(f[3])) >= 256):
            return True
    return False


def keyenc_k2(ops, fail):
    """K2: parts not separable; the primary key has escaped length >= 65536."""
    if "separable" not in (fail.clause or ""):
        return False
    for o in ops:
        f = o.split()
        if f[0] == "nuk" and _esc_len(_unhex(f[1])) >= 65536:
            return True
    return False


def table_k3(ops, fail):
    """K3: CompareAndSwap / CompareAndDelete with guard revision 0 act unguarded."""
    if "write-result" not in (fail.clause or ""):
        return False
    for o in ops:
        f = o.split()
        if f[0] in ("cas", "cad") and len(f) > 2 and f[2] == "0":
            return True
    return False


def table_k4(ops, fail):
    """K4: Next() called with the transaction that created the iterator, after that
    transaction deleted objects before Changes(): the deletion is never delivered."""
    if "replay-does-not-converge" not in (fail.clause or ""):
        return False
    fresh = set()
    for o in ops:
        f = o.split()
        if f[0] == "changes":
            fresh.add(f[1])
        elif f[0] in ("commit", "abort"):
            fresh.clear()
        elif f[0] == "next" and f[2] == "txn" and f[1] in fresh:
            return True
    return False
