"""Signatures of known findings: decidable predicates over a minimized failing case
(ops: list of op lines, fail: vcheck.Failure). A failing case that matches none of the
signatures of its property is reported as a VIOLATION."""


def _unhex(s):
    return b"" if s == "-" else bytes.fromhex(s)


def _esc_len(b):
    return len(b) + sum(1 for c in b if c <= 1)


def keyenc_k1(ops, fail):
    """K1: order inverted; some primary key has escaped length >= 256."""
    if "order" not in (fail.clause or "") and fail.kind != "divP":
        return False
    for o in ops:
        f = o.split()
        if f[0] == "cmp" and (_esc_len(_unhex(f[1])) >= 256 or _esc_len(_unhex(f[3])) >= 256):
            return True
    return False


def keyenc_k2(ops, fail):
    """K2: parts not separable; the primary key has escaped length >= 65536."""
    if "separable" not in (fail.clause or ""):
        return False
    for o in ops:
        f = o.split()
        if f[0] == "nuk" and _esc_len(_unhex(f[1])) >= 65536:
            return True
    return False


def table_k3(ops, fail):
    """K3: CompareAndSwap / CompareAndDelete with guard revision 0 act unguarded."""
    if "write-result" not in (fail.clause or ""):
        return False
    for o in ops:
        f = o.split()
        if f[0] in ("cas", "cad") and len(f) > 2 and f[2] == "0":
            return True
    return False


def table_k4(ops, fail):
    """K4: Next() called with the transaction that created the iterator, after that
    transaction deleted objects BEFORE Changes(): the deletion is never delivered, the replay
    keeps the object. Every key the replay has in excess of the snapshot must be explained that way
    (deleted in the creating transaction before Changes(), iterator advanced with Next(txn) in it);
    a deletion made after Changes() that goes missing is a different failure."""
    import re
    m = re.search(r"replay-does-not-converge\(replay:(.*?);snapshot:(.*?)\)", fail.clause or "")
    if not m:
        return False

    def kv(txt):
        return dict(x.split("=", 1) for x in txt.split(",") if "=" in x)
    rep, snap = kv(m.group(1)), kv(m.group(2))
    extra = {k for k in rep if k not in snap}
    if not extra or any(rep[k] != snap[k] for k in rep if k in snap) or any(k not in rep for k in snap):
        return False
    explained = set()
    predel = {}       # table -> keys deleted so far in the open txn ("*" = DeleteAll)
    created = {}      # iterator id -> (table, keys deleted in the txn before its Changes())
    for o in ops:
        f = o.split()
        if f[0] == "begin":
            predel, created = {}, {}
        elif f[0] == "delete" and len(f) >= 3:
            predel.setdefault(f[1], set()).add(f[2])
        elif f[0] == "cad" and len(f) >= 4:
            predel.setdefault(f[1], set()).add(f[3])
        elif f[0] == "deleteall" and len(f) >= 2:
            predel.setdefault(f[1], set()).add("*")
        elif f[0] == "changes" and len(f) >= 3:
            created[f[1]] = set(predel.get(f[2], set()))
        elif f[0] in ("commit", "abort"):
            predel, created = {}, {}
        elif f[0] == "next" and len(f) >= 3 and f[2] == "txn" and f[1] in created:
            keys = created[f[1]]
            explained |= extra if "*" in keys else (extra & keys)
    return extra <= explained


