#!/usr/bin/env python3
"""lib/seedverify.py <src-dir> <seed-id> <property> [pkgdir]
Confirms a delivered seeded change in a scratch worktree: patch applies and builds, the existing
suite passes with it, the demonstration fails with it and passes without it. On success copies
patch.diff / demo_test.go / notes.md to seeded/<seed-id>/ and writes meta.json."""
import json, os, re, subprocess, sys, shutil
ROOT = os.path.dirname(os.path.dirname(os.path.abspath(__file__)))
ENV = dict(os.environ, GOFLAGS="-mod=mod", GOPROXY="off")
def sh(cmd, cwd):
    p = subprocess.run(cmd, cwd=cwd, shell=True, env=ENV, stdout=subprocess.PIPE, stderr=subprocess.STDOUT, text=True, timeout=3000)
    return p.returncode, p.stdout
def main():
    src, sid, prop = sys.argv[1], sys.argv[2], sys.argv[3]
    demo = open(os.path.join(src, "demo_test.go")).read()
    m = re.search(r"-run '?\^?(\w+)\$?'?", demo)
    test = m.group(1)
    tags = "-tags verif " if "-tags verif" in demo else ""   # demonstrations may use the verif hooks to force an interleaving
    pkg = sys.argv[4] if len(sys.argv) > 4 else "."
    if len(sys.argv) <= 4:
        mm = re.search(r"^package (\w+)", demo, flags=re.M)
        pk = mm.group(1)
        pkg = {"statedb": ".", "statedb_test": ".", "part": "part", "part_test": "part", "lpm": "lpm", "lpm_test": "lpm",
               "reconciler": "reconciler", "reconciler_test": "reconciler", "index": "index", "index_test": "index",
               "internal": "internal", "internal_test": "internal"}.get(pk, ".")
    wt = "/tmp/wt-verify-%d" % os.getpid()
    sh("git -C /repo worktree add -q --detach %s HEAD" % wt, "/")
    res = {}
    try:
        shutil.copy(os.path.join(src, "demo_test.go"), os.path.join(wt, pkg, "seed_demo_test.go"))
        rc, out = sh("go test %s-vet=off -count=1 -run '%s' ./%s" % (tags, test, pkg), wt)
        res["demo_clean_passes"] = rc == 0
        rc, out = sh("git apply %s" % os.path.join(os.path.abspath(src), "patch.diff"), wt)
        res["applies"] = rc == 0
        rc, out = sh("go build ./... && go build -tags verif ./...", wt)
        res["builds"] = rc == 0
        rc, out = sh("go test %s-vet=off -count=1 -run '%s' ./%s" % (tags, test, pkg), wt)
        res["demo_fails_with_change"] = rc != 0
        res["demo_output_with_change"] = out[-600:]
        os.remove(os.path.join(wt, pkg, "seed_demo_test.go"))
        rc, out = sh("go test -vet=off -count=1 ./... 2>&1 | tail -30", wt)
        passed = ("FAIL" not in out) and ("ok" in out)
        if not passed:
            # the suite has a load-dependent flake (reconciler TestMultipleReconcilersPerModuleMetrics, also on the
            # clean tree): a test that fails because of the change fails every time, so re-run failing packages
            pkgs = re.findall(r"^FAIL\s+(github.com/cilium/statedb\S*)", out, flags=re.M)
            passed = bool(pkgs)
            for pk in pkgs:
                rel = "./" + pk[len("github.com/cilium/statedb"):].lstrip("/")
                oks = 0
                for _ in range(3):
                    rc2, out2 = sh("go test -vet=off -count=1 %s 2>&1 | tail -5" % rel, wt)
                    oks += rc2 == 0 and "FAIL" not in out2
                res.setdefault("flaky_reruns", {})[pk] = oks
                passed = passed and oks >= 2
        res["suite_passes_with_change"] = passed
        res["suite_tail"] = out[-500:]
    finally:
        sh("git -C /repo worktree remove --force %s; git -C /repo worktree prune" % wt, "/")
    ok = all(res.get(k) for k in ("demo_clean_passes", "applies", "builds", "demo_fails_with_change", "suite_passes_with_change"))
    print(sid, "CONFIRMED" if ok else "REJECTED", {k: v for k, v in res.items() if isinstance(v, bool)})
    if not ok:
        print(res.get("suite_tail", ""), res.get("demo_output_with_change", ""))
        return 1
    dst = os.path.join(ROOT, "seeded", sid)
    os.makedirs(dst, exist_ok=True)
    for f in ("patch.diff", "demo_test.go", "notes.md"):
        if os.path.exists(os.path.join(src, f)):
            shutil.copy(os.path.join(src, f), os.path.join(dst, f))
    notes = open(os.path.join(src, "notes.md")).read() if os.path.exists(os.path.join(src, "notes.md")) else ""
    json.dump({"id": sid, "origin": "independent seeding sub-agent (given only the property text and a scratch worktree)",
               "breaks_property": prop, "also_affects": [],
               "demonstration": "demo_test.go: place in ./%s as seed_demo_test.go; go test -run '%s' ./%s" % (pkg, test, pkg),
               "needs_to_manifest": "see notes.md", "notes_head": notes[:700],
               "what_was_run": "lib/seedverify.py in a scratch worktree: patch applies and builds (with and without -tags verif); demo passes on HEAD, fails with the patch; full existing suite passes with the patch",
               "confirmed": res}, open(os.path.join(dst, "meta.json"), "w"), indent=1)
    return 0
if __name__ == "__main__":
    sys.exit(main())
