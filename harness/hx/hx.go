// Package hx: shared helpers of the verification harness engines (trusted glue):
// one PRNG (splitmix64) from which every random choice derives, the hex/line
// protocol shared with the OCaml model drivers, and the gen/run command line.
package hx

import (
	"bufio"
	"encoding/hex"
	"flag"
	"fmt"
	"os"
	"strings"
	"sync/atomic"
	"time"
)

type Rand struct{ s uint64 }

func NewRand(seed uint64) *Rand { return &Rand{s: seed*0x9E3779B97F4A7C15 + 0x1234567} }
func (r *Rand) U64() uint64 {
	r.s += 0x9E3779B97F4A7C15
	z := r.s
	z = (z ^ (z >> 30)) * 0xBF58476D1CE4E5B9
	z = (z ^ (z >> 27)) * 0x94D049BB133111EB
	return z ^ (z >> 31)
}
func (r *Rand) Intn(n int) int {
	if n <= 0 {
		return 0
	}
	return int(r.U64() % uint64(n))
}
func (r *Rand) Chance(pct int) bool { return r.Intn(100) < pct }
func (r *Rand) Fork() *Rand         { return NewRand(r.U64()) }

// Perm returns a random permutation of 0..n-1.
func (r *Rand) Perm(n int) []int {
	p := make([]int, n)
	for i := range p {
		p[i] = i
	}
	for i := n - 1; i > 0; i-- {
		j := r.Intn(i + 1)
		p[i], p[j] = p[j], p[i]
	}
	return p
}
func Pick[T any](r *Rand, xs []T) T { return xs[r.Intn(len(xs))] }

// Hex encodes bytes; the empty string is "-".
func Hex(b []byte) string {
	if len(b) == 0 {
		return "-"
	}
	return hex.EncodeToString(b)
}
func UnHex(s string) []byte {
	if s == "-" {
		return []byte{}
	}
	b, err := hex.DecodeString(s)
	if err != nil {
		panic("bad hex " + s)
	}
	return b
}

// Out is a buffered line writer.
type Out struct{ w *bufio.Writer }

func NewOut(f *os.File) *Out             { return &Out{bufio.NewWriterSize(f, 1<<20)} }
func (o *Out) P(format string, a ...any) { fmt.Fprintf(o.w, format+"\n", a...) }
func (o *Out) Flush()                    { o.w.Flush() }

// Engine is implemented by each engine's main package.
type Engine interface {
	// Gen writes cases ("#case <id>" followed by op lines) to out.
	Gen(r *Rand, n int, tier string, prop string, out *Out)
	// Case is called at every "#case" line; Op for every other line. Each Op call
	// must print exactly one line (the model driver prints the matching line).
	Case(id string)
	Op(fields []string, line string, out *Out)
}

// Main implements: <engine> gen -seed S -n N -tier T   |   <engine> run < ops
func Main(e Engine) {
	if len(os.Args) < 2 {
		fmt.Fprintln(os.Stderr, "usage: gen|run")
		os.Exit(2)
	}
	out := NewOut(os.Stdout)
	defer out.Flush()
	switch os.Args[1] {
	case "gen":
		fs := flag.NewFlagSet("gen", flag.ExitOnError)
		seed := fs.Uint64("seed", 1, "seed")
		n := fs.Int("n", 100, "number of cases")
		tier := fs.String("tier", "quick", "tier")
		prop := fs.String("prop", "", "property the run is for (generators may shift their distribution)")
		fs.Parse(os.Args[2:])
		e.Gen(NewRand(*seed), *n, *tier, *prop, out)
	case "run":
		// real-time watchdog: no engine may hang the whole run; an op that does not finish within 120 s is
		// reported in place of its output and the process ends (the remaining cases count as missing)
		var opSeq atomic.Int64
		var curOp atomic.Value
		curOp.Store("")
		go func() {
			last, stale := int64(-1), 0
			for {
				time.Sleep(time.Second)
				if n := opSeq.Load(); n != last {
					last, stale = n, 0
					continue
				}
				if curOp.Load().(string) == "" {
					continue
				}
				stale++
				if stale >= 120 {
					out.P("X stuck for 120s in op: %s", curOp.Load().(string))
					out.Flush()
					os.Exit(0)
				}
			}
		}()
		sc := bufio.NewScanner(os.Stdin)
		sc.Buffer(make([]byte, 1<<20), 1<<26)
		for sc.Scan() {
			line := sc.Text()
			f := strings.Fields(line)
			if len(f) == 0 {
				continue
			}
			if f[0] == "#case" {
				out.P("%s", line)
				id := ""
				if len(f) > 1 {
					id = f[1]
				}
				e.Case(id)
				continue
			}
			curOp.Store(line)
			opSeq.Add(1)
			runOp(e, f, line, out)
			curOp.Store("")
			opSeq.Add(1)
		}
	default:
		fmt.Fprintln(os.Stderr, "usage: gen|run")
		os.Exit(2)
	}
}

// runOp isolates panics of the implementation: the op's line becomes "X panic <class>".
func runOp(e Engine, f []string, line string, out *Out) {
	defer func() {
		if r := recover(); r != nil {
			out.P("X panic %s", PanicClass(r))
		}
	}()
	e.Op(f, line, out)
}

// PanicClass maps a panic value to a short stable token.
func PanicClass(r any) string {
	s := fmt.Sprint(r)
	s = strings.ReplaceAll(s, " ", "_")
	if len(s) > 60 {
		s = s[:60]
	}
	return s
}
