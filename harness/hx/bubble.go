package hx

import (
	"bufio"
	"flag"
	"fmt"
	"os"
	"strings"
	"sync/atomic"
	"testing"
	"testing/synctest"
	"time"
)

// MainBubble is Main for engines that need virtual time: in "run" mode every case
// (the "#case" line and the ops that follow it) is executed inside its own
// testing/synctest bubble, so time.Sleep, timers and synctest.Wait() are deterministic.
// The engine is still an ordinary binary: the bubble is entered through testing.Main
// with a single synthetic test. The protocol output goes to the real stdout; whatever
// the testing package prints ("PASS") is diverted to stderr.
//
// Inside Op the engine may call synctest.Wait() and time.Sleep() freely. Goroutines
// started in a case must have exited (or be durably blocked forever is NOT allowed)
// when the case ends: implement CaseEnd() to stop background workers.
type BubbleEngine interface {
	Engine
	CaseEnd()
}

func MainBubble(e BubbleEngine) {
	if len(os.Args) < 2 || os.Args[1] != "run" {
		Main(e)
		return
	}
	out := NewOut(os.Stdout)
	os.Stdout = os.Stderr
	type cs struct {
		header string
		id     string
		ops    []string
	}
	var cases []*cs
	sc := bufio.NewScanner(os.Stdin)
	sc.Buffer(make([]byte, 1<<20), 1<<26)
	for sc.Scan() {
		line := sc.Text()
		f := strings.Fields(line)
		if len(f) == 0 {
			continue
		}
		if f[0] == "#case" {
			id := ""
			if len(f) > 1 {
				id = f[1]
			}
			cases = append(cases, &cs{header: line, id: id})
			continue
		}
		if len(cases) == 0 {
			cases = append(cases, &cs{header: "#case anon", id: "anon"})
		}
		c := cases[len(cases)-1]
		c.ops = append(c.ops, line)
	}
	// real-time watchdog: an op that does not finish within 30 s (a goroutine blocked for ever on a
	// mutex is not "durably blocked" for synctest, so nothing else would notice) is reported in place of
	// its output line and the process ends; the remaining cases are reported as missing by the comparison.
	var curOp atomic.Value
	var opSeq atomic.Int64
	curOp.Store("")
	go func() {
		last := int64(-1)
		stale := 0
		for {
			time.Sleep(time.Second)
			if n := opSeq.Load(); n != last {
				last, stale = n, 0
				continue
			}
			stale++
			if stale >= 30 {
				out.P("X stuck for 30s in op: %s", curOp.Load().(string))
				out.Flush()
				os.Exit(0)
			}
		}
	}()
	testing.Init()
	flag.CommandLine.Parse([]string{"-test.timeout=0"})
	testing.Main(func(pat, str string) (bool, error) { return true, nil },
		[]testing.InternalTest{{Name: "engine", F: func(t *testing.T) {
			for _, c := range cases {
				out.P("%s", c.header)
				func() {
					defer func() {
						if r := recover(); r != nil {
							out.P("X panic-in-bubble %s", PanicClass(r))
						}
					}()
					synctest.Test(t, func(t *testing.T) {
						e.Case(c.id)
						defer e.CaseEnd()
						for _, line := range c.ops {
							curOp.Store(line)
							opSeq.Add(1)
							runOp(e, strings.Fields(line), line, out)
							opSeq.Add(1)
						}
					})
				}()
				out.Flush()
			}
		}}}, nil, nil)
	// not reached: testing.Main exits
	fmt.Fprintln(os.Stderr, "unreachable")
}
