package main

import (
	"bytes"
	"fmt"
	"sort"

	"verif/harness/hx"
)

// The generator is pure: it keeps its own key sets per version (a plain map semantics) only to
// aim deletes/modifies at present keys and queries at interesting prefixes.

type gver struct {
	keys map[string]bool
}

func cloneSet(m map[string]bool) map[string]bool {
	o := make(map[string]bool, len(m))
	for k := range m {
		o[k] = true
	}
	return o
}

type gcase struct {
	r        *hx.Rand
	out      *hx.Out
	alpha    []byte
	maxLen   int
	versions []string
	vkeys    map[string]map[string]bool
	head     string
	nver     int
	nh       int // handles handed out
	ni       int
	nc       int
	clones   []string
	iters    []string
	cur      map[string]bool // key set of the live txn
	zero     bool            // live txn still has txnID 0 (begun from version 0, no id bump so far)
	short    bool
}

func (g *gcase) randKey() []byte {
	l := g.r.Intn(g.maxLen + 1)
	if l == 0 && !g.r.Chance(30) {
		l = 1 + g.r.Intn(g.maxLen)
	}
	k := make([]byte, l)
	for i := range k {
		k[i] = hx.Pick(g.r, g.alpha)
	}
	return k
}

func sortedKeys(m map[string]bool) []string {
	ks := make([]string, 0, len(m))
	for k := range m {
		ks = append(ks, k)
	}
	sort.Strings(ks)
	return ks
}

func (g *gcase) presentKey(m map[string]bool) ([]byte, bool) {
	if len(m) == 0 {
		return nil, false
	}
	ks := sortedKeys(m)
	return []byte(ks[g.r.Intn(len(ks))]), true
}

// queryKey: present key, absent random key, proper prefix of a present key (ends inside a
// compressed path or at an inner node), or extension of a present key.
func (g *gcase) queryKey(m map[string]bool) []byte {
	k, ok := g.presentKey(m)
	if !ok {
		return g.randKey()
	}
	switch g.r.Intn(5) {
	case 0:
		return k
	case 1:
		return g.randKey()
	case 2:
		return k[:g.r.Intn(len(k)+1)]
	case 3:
		return append(append([]byte{}, k...), hx.Pick(g.r, g.alpha))
	default:
		if len(k) > 0 {
			k2 := append([]byte{}, k...)
			k2[len(k2)-1] = hx.Pick(g.r, g.alpha)
			return k2
		}
		return k
	}
}

func (g *gcase) handle() string {
	if g.nh >= 36 {
		return "-"
	}
	g.nh++
	return fmt.Sprintf("h%d", g.nh)
}

func (g *gcase) itName() string {
	if g.ni >= 10 || !g.r.Chance(40) {
		return "-"
	}
	g.ni++
	n := fmt.Sprintf("i%d", g.ni)
	g.iters = append(g.iters, n)
	return n
}

// readTarget picks t, a clone or a version, with its key set (nil when unknown to the generator).
func (g *gcase) readTarget(live bool) (string, map[string]bool) {
	x := g.r.Intn(10)
	if live && x < 6 {
		return "t", g.cur
	}
	if len(g.clones) > 0 && x < 8 {
		c := hx.Pick(g.r, g.clones)
		return "c" + c, g.vkeys["c"+c]
	}
	v := hx.Pick(g.r, g.versions)
	return "v" + v, g.vkeys[v]
}

// watchOps: take handles from a committed version.
func (g *gcase) watchOps(v string, n int) {
	m := g.vkeys[v]
	for i := 0; i < n; i++ {
		switch g.r.Intn(6) {
		case 0:
			if h := g.handle(); h != "-" {
				g.out.P("rootw v%s %s", v, h)
			}
		case 1, 2, 3:
			g.out.P("get v%s %s %s", v, hx.Hex(g.queryKey(m)), g.handle())
		default:
			g.out.P("pfx v%s %s %s -", v, hx.Hex(g.queryKey(m)), g.handle())
		}
	}
	if g.r.Chance(50) {
		g.out.P("chk")
	}
}

func (g *gcase) readOp(live bool) {
	tg, m := g.readTarget(live)
	if m == nil {
		m = g.cur
	}
	bump := tg == "t"
	switch g.r.Intn(9) {
	case 0, 1:
		g.out.P("get %s %s", tg, hx.Hex(g.queryKey(m)))
		bump = false
	case 2:
		h := "-"
		if g.r.Chance(50) {
			h = g.handle()
		}
		g.out.P("get %s %s %s", tg, hx.Hex(g.queryKey(m)), h)
		bump = false
	case 3:
		g.out.P("len %s", tg)
		bump = false
	case 4:
		g.out.P("all %s", tg)
	case 5, 6:
		h := "-"
		if g.r.Chance(30) {
			h = g.handle()
		}
		g.out.P("pfx %s %s %s %s", tg, hx.Hex(g.queryKey(m)), h, g.itName())
	case 7:
		g.out.P("lb %s %s %s", tg, hx.Hex(g.queryKey(m)), g.itName())
	default:
		if g.ni < 10 {
			g.ni++
			n := fmt.Sprintf("i%d", g.ni)
			g.iters = append(g.iters, n)
			g.out.P("iter %s %s", tg, n)
		} else {
			g.out.P("len %s", tg)
			bump = false
		}
	}
	if bump {
		g.zero = false
	}
}

func (g *gcase) iterOp() {
	if len(g.iters) == 0 {
		return
	}
	it := hx.Pick(g.r, g.iters)
	if g.r.Chance(75) {
		g.out.P("next %s", it)
	} else {
		g.out.P("rest %s", it)
	}
}

// cloneTxn: a transaction begun from a tree returned by Txn.Clone(), writing keys the clone holds; mostly
// abandoned. The clone (and the transaction it was taken from) must not change.
func (g *gcase) cloneTxn() {
	if len(g.clones) == 0 {
		return
	}
	c := hx.Pick(g.r, g.clones)
	base := g.vkeys["c"+c]
	g.out.P("begin c%s", c)
	g.cur = cloneSet(base)
	for i, n := 0, 1+g.r.Intn(4); i < n; i++ {
		k, ok := g.presentKey(g.cur)
		if !ok || g.r.Chance(30) {
			k = g.randKey()
		}
		if g.r.Chance(40) {
			g.out.P("del %s", hx.Hex(k))
			delete(g.cur, string(k))
		} else {
			g.out.P("ins %s %d", hx.Hex(k), g.r.Intn(1000))
			g.cur[string(k)] = true
		}
	}
	if g.r.Chance(65) {
		g.out.P("abandon")
	} else {
		g.nver++
		v := fmt.Sprintf("%d", g.nver)
		g.out.P("commit %s", v)
		g.versions = append(g.versions, v)
		g.vkeys[v] = g.cur
	}
	g.out.P("chk")
	g.cur = nil
	g.out.P("pers")
}

// txn emits one transaction. mode: 0 mixed, 1 grow, 2 shrink.
// oneShot emits Tree.Insert / Tree.Modify / Tree.Delete on the head version: a transaction of one write,
// committed and notified by the tree itself
func (g *gcase) oneShot() {
	g.watchOps(g.head, 1+g.r.Intn(2))
	cur := cloneSet(g.vkeys[g.head])
	k := g.randKey()
	if len(cur) > 0 && g.r.Chance(50) {
		var ks []string
		for x := range cur {
			ks = append(ks, x)
		}
		sort.Strings(ks)
		k = []byte(ks[g.r.Intn(len(ks))])
	}
	g.nver++
	v := fmt.Sprintf("%d", g.nver)
	switch g.r.Intn(3) {
	case 0:
		g.out.P("tins %s %d %s", hx.Hex(k), g.r.Intn(1000), v)
		cur[string(k)] = true
	case 1:
		g.out.P("tmod %s %d %s", hx.Hex(k), g.r.Intn(1000), v)
		cur[string(k)] = true
	default:
		g.out.P("tdel %s 0 %s", hx.Hex(k), v)
		delete(cur, string(k))
	}
	g.out.P("chk")
	g.versions = append(g.versions, v)
	g.vkeys[v] = cur
	g.head = v
}

func (g *gcase) txn(nOps int, mode int) {
	if g.r.Chance(8) {
		g.oneShot()
		return
	}
	base := g.head
	if len(g.versions) > 1 && g.r.Chance(20) {
		base = hx.Pick(g.r, g.versions)
	} else if g.r.Chance(10) {
		base = g.versions[len(g.versions)-1]
	}
	if g.r.Chance(70) {
		g.watchOps(base, 1+g.r.Intn(3))
	}
	g.out.P("begin %s", base)
	g.cur = cloneSet(g.vkeys[base])
	g.zero = base == "0"
	persEvery := nOps <= 24
	for i := 0; i < nOps; i++ {
		x := g.r.Intn(100)
		wIns, wDel := 35, 25
		switch mode {
		case 1:
			wIns, wDel = 70, 5
		case 2:
			wIns, wDel = 5, 70
		}
		mut := false
		switch {
		case x < wIns:
			k := g.randKey()
			if g.r.Chance(15) {
				if pk, ok := g.presentKey(g.cur); ok {
					k = pk
				}
			}
			v := g.r.Intn(1000)
			op := "ins"
			if g.r.Chance(18) {
				op = "mod"
			}
			if g.r.Chance(12) {
				if h := g.handle(); h != "-" {
					g.out.P("%s %s %d %s", op, hx.Hex(k), v, h)
				} else {
					g.out.P("%s %s %d", op, hx.Hex(k), v)
				}
			} else {
				g.out.P("%s %s %d", op, hx.Hex(k), v)
			}
			g.cur[string(k)] = true
			mut = true
		case x < wIns+wDel:
			k, ok := g.presentKey(g.cur)
			if !ok || g.r.Chance(12) {
				k = g.queryKey(g.cur)
			}
			g.out.P("del %s", hx.Hex(k))
			delete(g.cur, string(k))
			mut = true
		case x < wIns+wDel+3 && g.nc < 6:
			g.nc++
			c := fmt.Sprintf("%d", g.nc)
			g.out.P("clone %s", c)
			g.clones = append(g.clones, c)
			g.vkeys["c"+c] = cloneSet(g.cur)
			g.zero = false
		case x < wIns+wDel+8:
			g.iterOp()
		case x < wIns+wDel+9:
			k := g.randKey()
			g.out.P("allins %s %d", hx.Hex(k), g.r.Intn(1000))
			if len(g.cur) > 0 {
				g.cur[string(k)] = true
			}
			g.zero = false
			mut = true
		default:
			g.readOp(true)
		}
		if mut && (persEvery || g.r.Chance(6)) {
			g.out.P("pers")
		}
		if g.r.Chance(4) {
			g.out.P("chk")
		}
	}
	fromHead := base == g.head
	fate := g.r.Intn(100)
	switch {
	case fate < 20:
		g.out.P("abandon")
		g.out.P("chk")
	case fromHead && fate < 60:
		g.nver++
		v := fmt.Sprintf("%d", g.nver)
		g.out.P("cnotify %s", v)
		g.out.P("chk")
		g.versions = append(g.versions, v)
		g.vkeys[v] = g.cur
		g.head = v
	case fromHead && fate < 85:
		g.nver++
		v := fmt.Sprintf("%d", g.nver)
		g.out.P("commit %s", v)
		g.out.P("chk")
		if g.r.Chance(40) {
			g.watchOps(v, 1+g.r.Intn(2))
		}
		g.out.P("notify")
		g.out.P("chk")
		g.versions = append(g.versions, v)
		g.vkeys[v] = g.cur
		g.head = v
	default:
		g.nver++
		v := fmt.Sprintf("%d", g.nver)
		g.out.P("commit %s", v)
		g.out.P("chk")
		g.versions = append(g.versions, v)
		g.vkeys[v] = g.cur
	}
	g.cur = nil
	g.out.P("pers")
	if len(g.clones) > 0 && g.r.Chance(35) {
		g.cloneTxn()
	}
	// reads on old versions / clones / iterators between transactions
	for i, n := 0, g.r.Intn(4); i < n; i++ {
		if g.r.Chance(30) {
			g.iterOp()
		} else {
			g.readOp(false)
		}
	}
}

// finish ends the live txn: mostly CommitAndNotify / Commit+Notify on the main chain.
func (g *gcase) finish(abandonPct int) {
	fate := g.r.Intn(100)
	switch {
	case fate < abandonPct:
		g.out.P("abandon")
		g.out.P("chk")
		return
	case fate < abandonPct+(100-abandonPct)*2/3:
		g.nver++
		v := fmt.Sprintf("%d", g.nver)
		g.out.P("cnotify %s", v)
		g.versions = append(g.versions, v)
		g.vkeys[v] = g.cur
		g.head = v
	default:
		g.nver++
		v := fmt.Sprintf("%d", g.nver)
		g.out.P("commit %s", v)
		g.out.P("chk")
		g.out.P("notify")
		g.versions = append(g.versions, v)
		g.vkeys[v] = g.cur
		g.head = v
	}
	g.out.P("chk")
	g.cur = nil
}

func cat(parts ...[]byte) []byte {
	var o []byte
	for _, p := range parts {
		o = append(o, p...)
	}
	return o
}

// deepCase: long keys sharing long prefixes: x^i y and x^i z for i = 0..D with D > 32, so that
// every level of the path has larger siblings and LowerBound iterators carry more than 32 pending
// edge sets; the retained iterators are read several times (All twice, Next, All again).
func (g *gcase) deepCase() {
	r := g.r
	bs := []byte{byte(1 + r.Intn(80)), byte(90 + r.Intn(60)), byte(160 + r.Intn(90))}
	x, y, z := bs[0:1], bs[1:2], bs[2:3]
	if r.Chance(30) { // descend along the middle byte: smaller and larger siblings on every level
		x, y = y, x
	}
	D := 33 + r.Intn(12)
	xs := func(i int) []byte { return bytes.Repeat(x, i) }
	var keys [][]byte
	for i := 0; i <= D; i++ {
		keys = append(keys, cat(xs(i), y), cat(xs(i), z))
		if r.Chance(20) {
			keys = append(keys, xs(i))
		}
	}
	for i := len(keys) - 1; i > 0; i-- {
		j := r.Intn(i + 1)
		keys[i], keys[j] = keys[j], keys[i]
	}
	g.out.P("begin 0")
	g.cur = map[string]bool{}
	for i, k := range keys {
		g.out.P("ins %s %d", hx.Hex(k), r.Intn(1000))
		g.cur[string(k)] = true
		if i == len(keys)/2 && r.Chance(50) {
			g.out.P("lb t %s i1", hx.Hex(cat(xs(D/2+10), y)))
			g.iters = append(g.iters, "i1")
			g.out.P("rest i1")
		}
	}
	g.finish(0)
	deepIter := func(tg, name string) {
		d := D - r.Intn(3)
		probe := cat(xs(d), hx.Pick(r, [][]byte{x, y, z, {}}))
		if r.Chance(20) {
			probe = cat(xs(d), x, x)
		}
		g.out.P("lb %s %s %s", tg, hx.Hex(probe), name)
		g.iters = append(g.iters, name)
		g.out.P("rest %s", name)
		g.out.P("rest %s", name)
		for i, n := 0, r.Intn(4); i < n; i++ {
			g.out.P("next %s", name)
		}
		g.out.P("rest %s", name)
	}
	deepIter("v"+g.head, "i2")
	if r.Chance(50) {
		g.out.P("pfx v%s %s - i3", g.head, hx.Hex(xs(D-5)))
		g.iters = append(g.iters, "i3")
		g.out.P("rest i3")
		for i := 0; i < 8; i++ {
			g.out.P("next i3")
		}
		g.out.P("rest i3")
	}
	g.out.P("pers")
	// a second txn writing deep keys, with an iterator taken inside the txn
	g.out.P("begin %s", g.head)
	g.cur = cloneSet(g.vkeys[g.head])
	for i, n := 0, 3+r.Intn(10); i < n; i++ {
		k := cat(xs(r.Intn(D+2)), hx.Pick(r, [][]byte{y, z, {}}))
		if r.Chance(50) {
			g.out.P("del %s", hx.Hex(k))
			delete(g.cur, string(k))
		} else {
			g.out.P("ins %s %d", hx.Hex(k), r.Intn(1000))
			g.cur[string(k)] = true
		}
		if i == 2 {
			deepIter("t", "i4")
		}
	}
	g.finish(20)
	g.out.P("pers")
	g.out.P("rest i2")
	g.out.P("next i2")
	g.out.P("rest i2")
}

// prefixKeyCase: a key K that is a proper prefix of several keys sharing the next byte (K's node has a
// leaf and a single inner child), usually with a sibling so that K's node is not the root; handles
// (Get on present/absent keys below K, Prefix on every prefix of a key below K) are taken from the
// committed tree; one txn deletes K and then writes below it.
func (g *gcase) prefixKeyCase() {
	r := g.r
	pool := make([]byte, 0, 8)
	for len(pool) < 8 {
		b := byte(r.Intn(256))
		dup := false
		for _, c := range pool {
			dup = dup || c == b
		}
		if !dup {
			pool = append(pool, b)
		}
	}
	pk := func() byte { return pool[r.Intn(len(pool))] }
	K := make([]byte, r.Intn(4))
	for i := range K {
		K[i] = pk()
	}
	sep := []byte{pk()}
	if r.Chance(30) {
		sep = append(sep, pk())
	}
	var below [][]byte
	for i, n := 0, 2+r.Intn(3); i < n; i++ {
		k := cat(K, sep, []byte{pool[i]})
		if r.Chance(25) {
			k = append(k, pk())
		}
		below = append(below, k)
	}
	absent := cat(K, sep, []byte{pool[6]})
	keys := append([][]byte{K}, below...)
	if len(K) > 0 && r.Chance(80) { // sibling at the parent: K's node is not the root
		j := append([]byte{}, K...)
		j[len(j)-1]++
		keys = append(keys, j)
		if r.Chance(30) {
			keys = append(keys, cat(j, []byte{pk()}))
		}
	}
	if r.Chance(15) { // a second next byte below K: not the single-child shape
		keys = append(keys, cat(K, []byte{sep[0] + 1}, []byte{pk()}))
	}
	for i := len(keys) - 1; i > 0; i-- {
		j := r.Intn(i + 1)
		keys[i], keys[j] = keys[j], keys[i]
	}
	g.out.P("begin 0")
	g.cur = map[string]bool{}
	for _, k := range keys {
		g.out.P("ins %s %d", hx.Hex(k), r.Intn(1000))
		g.cur[string(k)] = true
	}
	g.finish(0)
	v := g.head
	// handles from the committed tree
	g.out.P("rootw v%s %s", v, g.handle())
	g.out.P("get v%s %s %s", v, hx.Hex(K), g.handle())
	g.out.P("get v%s %s %s", v, hx.Hex(absent), g.handle())
	g.out.P("get v%s %s %s", v, hx.Hex(cat(K, sep)), g.handle())
	g.out.P("get v%s %s %s", v, hx.Hex(below[0]), g.handle())
	long := cat(below[len(below)-1], []byte{pk()})
	for l := 0; l <= len(long); l++ {
		if l == len(long) || l >= len(K)-1 || r.Chance(40) {
			g.out.P("pfx v%s %s %s -", v, hx.Hex(long[:l]), g.handle())
		}
	}
	g.out.P("pfx v%s %s %s -", v, hx.Hex(absent), g.handle())
	g.out.P("chk")
	// the txn: delete K, then write below it (and sometimes around it)
	for round := 0; round < 1+r.Intn(2); round++ {
		g.out.P("begin %s", g.head)
		g.cur = cloneSet(g.vkeys[g.head])
		if round > 0 || r.Chance(15) {
			g.out.P("ins %s %d", hx.Hex(K), r.Intn(1000))
			g.cur[string(K)] = true
		}
		if r.Chance(20) {
			g.out.P("get t %s", hx.Hex(absent))
		}
		if r.Chance(40) {
			// a longer key goes first: K's node is already owned by the txn when K itself is deleted (and merged
			// with its remaining child if only one is left)
			for i, n := 0, 1+r.Intn(len(below)-1); i < n; i++ {
				g.out.P("del %s", hx.Hex(below[i]))
				delete(g.cur, string(below[i]))
			}
		}
		g.out.P("del %s", hx.Hex(K))
		delete(g.cur, string(K))
		for i, n := 0, r.Intn(4); i < n; i++ {
			switch r.Intn(6) {
			case 0, 1:
				g.out.P("ins %s %d", hx.Hex(absent), r.Intn(1000))
				g.cur[string(absent)] = true
			case 2:
				k := hx.Pick(r, below)
				g.out.P("del %s", hx.Hex(k))
				delete(g.cur, string(k))
			case 3:
				k := hx.Pick(r, below)
				g.out.P("mod %s %d", hx.Hex(k), r.Intn(1000))
				g.cur[string(k)] = true
			case 4:
				k := cat(K, sep)
				g.out.P("ins %s %d %s", hx.Hex(k), r.Intn(1000), g.handle())
				g.cur[string(k)] = true
			default:
				g.out.P("del %s", hx.Hex(absent))
				delete(g.cur, string(absent))
			}
			if r.Chance(15) {
				g.out.P("pfx t %s - -", hx.Hex(cat(K, sep)))
			}
		}
		g.finish(10)
		g.out.P("pers")
	}
}

// fanCase: an inner node with exactly N children at a node-size threshold (4/5, 16/17, 48/49) under a
// common prefix P; handles on the committed tree (root, Prefix P, Prefix below it, Get of present and
// absent keys below P); then one txn that crosses the threshold (deleting or inserting children) —
// the demotion / promotion paths of removeChild and insert must carry the watch channels over.
func (g *gcase) fanCase() {
	r := g.r
	P := make([]byte, r.Intn(3))
	for i := range P {
		P[i] = byte(r.Intn(256))
	}
	N := hx.Pick(r, []int{2, 3, 4, 5, 6, 16, 17, 18, 48, 49, 50})
	perm := r.Perm(256)
	next := perm[:N]
	spare := perm[N : N+4]
	child := func(b int) []byte {
		k := cat(P, []byte{byte(b)})
		return k
	}
	var keys [][]byte
	tails := map[int][]byte{}
	for _, b := range next {
		k := child(b)
		if r.Chance(20) {
			tails[b] = []byte{byte(r.Intn(256))}
			k = cat(k, tails[b])
		}
		keys = append(keys, k)
	}
	key := func(b int) []byte { return cat(child(b), tails[b]) }
	if len(P) > 0 && r.Chance(70) { // sibling: P's node is not the root
		j := append([]byte{}, P...)
		j[len(j)-1]++
		keys = append(keys, j)
	}
	if r.Chance(25) {
		keys = append(keys, P) // P itself holds a leaf
	}
	g.out.P("begin 0")
	g.cur = map[string]bool{}
	for _, k := range keys {
		g.out.P("ins %s %d", hx.Hex(k), r.Intn(1000))
		g.cur[string(k)] = true
	}
	g.finish(0)
	for round, rounds := 0, 1+r.Intn(2); round < rounds; round++ {
		v := g.head
		g.out.P("rootw v%s %s", v, g.handle())
		g.out.P("pfx v%s %s %s -", v, hx.Hex(P), g.handle())
		if len(P) > 0 {
			g.out.P("pfx v%s %s %s -", v, hx.Hex(P[:len(P)-1]), g.handle())
		}
		g.out.P("pfx v%s %s %s -", v, hx.Hex(child(next[0])), g.handle())
		g.out.P("pfx v%s %s %s -", v, hx.Hex(child(spare[0])), g.handle())
		g.out.P("get v%s %s %s", v, hx.Hex(key(next[0])), g.handle())
		g.out.P("get v%s %s %s", v, hx.Hex(key(next[N-1])), g.handle())
		g.out.P("get v%s %s %s", v, hx.Hex(child(spare[0])), g.handle())
		g.out.P("get v%s %s %s", v, hx.Hex(cat(child(spare[1]), []byte{7})), g.handle())
		g.out.P("get v%s %s %s", v, hx.Hex(P), g.handle())
		g.out.P("chk")
		g.out.P("begin %s", g.head)
		g.cur = cloneSet(g.vkeys[g.head])
		switch x := r.Intn(12); {
		case x >= 10:
			// the only operation deletes a key that is not stored but ends exactly on an inner node (P, if it holds no
			// entry) or inside / beyond the tree: not a change - no channel may close, the root watch stays open
			g.out.P("del %s", hx.Hex(P))
			delete(g.cur, string(P))
			if r.Chance(40) {
				k := cat(child(spare[3]), []byte{1})
				g.out.P("del %s", hx.Hex(k))
			}
		case x < 5: // delete one or two children (the last ones, the first one, or a random one)
			for i, n := 0, 1+r.Intn(2); i < n && i < N; i++ {
				b := next[N-1-i]
				if r.Chance(30) {
					b = next[r.Intn(N)]
				}
				g.out.P("del %s", hx.Hex(key(b)))
				delete(g.cur, string(key(b)))
			}
		case x < 8: // insert one or two new children
			for i, n := 0, 1+r.Intn(2); i < n; i++ {
				k := child(spare[i])
				g.out.P("ins %s %d %s", hx.Hex(k), r.Intn(1000), g.handle())
				g.cur[string(k)] = true
			}
		default: // delete then re-insert, or the reverse: the node changes kind twice in one txn
			b := next[r.Intn(N)]
			g.out.P("del %s", hx.Hex(key(b)))
			delete(g.cur, string(key(b)))
			if r.Chance(50) {
				g.out.P("pfx t %s - -", hx.Hex(P))
			}
			g.out.P("ins %s %d", hx.Hex(child(spare[2])), r.Intn(1000))
			g.cur[string(child(spare[2]))] = true
			if r.Chance(50) {
				g.out.P("del %s", hx.Hex(child(spare[2])))
				delete(g.cur, string(child(spare[2])))
			}
		}
		g.finish(5)
		g.out.P("pers")
	}
}

func (*eng) Gen(r *hx.Rand, n int, tier string, prop string, out *hx.Out) {
	alphaSizes := []int{2, 3, 6, 20, 70, 256}
	for c := 0; c < n; c++ {
		cr := r.Fork()
		g := &gcase{r: cr, out: out, vkeys: map[string]map[string]bool{"0": {}}, versions: []string{"0"}, head: "0"}
		as := alphaSizes[c%len(alphaSizes)]
		g.alpha = make([]byte, as)
		switch {
		case as == 256:
			for i := range g.alpha {
				g.alpha[i] = byte(i)
			}
		default:
			// spread over the byte range, always containing 0x00 and 0xff
			for i := range g.alpha {
				g.alpha[i] = byte(i * 255 / (as - 1))
			}
		}
		switch {
		case as <= 3:
			g.maxLen = 4
		case as <= 20:
			g.maxLen = 3
		default:
			g.maxLen = 2
		}
		if cr.Chance(20) {
			g.maxLen = 1 + cr.Intn(4)
		}
		ro := 0
		if cr.Chance(25) {
			ro = 1
		}
		if c%16 == 11 || c%16 == 4 {
			out.P("#case g%d-fan", c)
			out.P("new %d", ro)
			g.fanCase()
			continue
		}
		switch c % 8 {
		case 5:
			out.P("#case g%d-deep", c)
			out.P("new %d", ro)
			g.deepCase()
			continue
		case 2, 7:
			out.P("#case g%d-pk", c)
			if cr.Chance(60) {
				ro = 0
			}
			out.P("new %d", ro)
			g.prefixKeyCase()
			continue
		}
		out.P("#case g%d-a%d", c, as)
		out.P("new %d", ro)
		// size class: most cases small and readable, some long ones that cross the 16/48 thresholds
		long := cr.Chance(25) || (as >= 70 && cr.Chance(50))
		nTxn := 1 + cr.Intn(6)
		for t := 0; t < nTxn; t++ {
			nOps := 1 + cr.Intn(12)
			if cr.Chance(30) {
				nOps = 1 + cr.Intn(40)
			}
			mode := 0
			if long {
				nOps = 40 + cr.Intn(260)
				mode = cr.Intn(3)
				if t == 0 {
					mode = 1
				}
			}
			g.txn(nOps, mode)
		}
		g.watchOps(g.head, 1)
		out.P("chk")
	}
}
