// part engine (C11, C12): part.Tree / part.Txn / part.Iterator against the extracted model
// Part/Model.v, with Go-side oracles against a plain sorted-map reference (C11) and the
// clauses of the watch-channel property (C12).
//
// Line protocol (targets: t = live txn, c<name> = clone, v<name> = committed version):
//
//	new <ro>                      fresh tree (ro=1: RootOnlyWatch); version "0"
//	begin <v>                     Tree.Txn() on version v
//	ins|mod <k> <v> [<h> [z]]     Insert/Modify, with handle: InsertWatch/ModifyWatch
//	del <k>
//	get <tgt> <k> [<h>]           Get, optionally retaining the watch channel as handle h
//	len|all <tgt>
//	allins <k> <v>                Txn.All with an Insert from inside the yield callback
//	iter <tgt> <it>               Iterator(), retained as <it>
//	pfx <tgt> <p> <h|-> <it|->    Prefix
//	lb <tgt> <k> <it|->           LowerBound
//	next|rest <it>                Iterator.Next / Iterator.All
//	clone <c>                     Txn.Clone
//	rootw <tgt> <h>               RootWatch
//	commit <v> | notify | cnotify <v> | abandon
//	chk                           closed bits of every handle
//	pers                          digest of every version, clone and iterator
package main

import (
	"bytes"
	"fmt"
	"sort"
	"strconv"
	"strings"

	"github.com/cilium/statedb/part"

	"verif/harness/hx"
)

const hmod = 1000000007

type kv struct {
	k []byte
	v uint64
}

func digestHash(l []kv) uint64 {
	h := uint64(7)
	for _, e := range l {
		for _, b := range e.k {
			h = (h*131 + uint64(b) + 1) % hmod
		}
		h = (h*131 + 257) % hmod
		h = (h*1000003 + e.v) % hmod
	}
	return h
}

func digest(l []kv) string {
	s := fmt.Sprintf("n=%d h=%d", len(l), digestHash(l))
	if len(l) <= 16 {
		parts := make([]string, len(l))
		for i, e := range l {
			parts[i] = fmt.Sprintf("%s:%d", hx.Hex(e.k), e.v)
		}
		s += " [" + strings.Join(parts, " ") + "]"
	}
	return s
}

func short(l []kv) string { return fmt.Sprintf("%d:%d", len(l), digestHash(l)) }

func modFun(old, nw uint64) uint64 { return (old*7 + nw) % 1000000 }

// ---- reference: a plain map, sorted on demand
type refmap map[string]uint64

func (r refmap) clone() refmap {
	o := make(refmap, len(r))
	for k, v := range r {
		o[k] = v
	}
	return o
}

func (r refmap) sorted() []kv {
	ks := make([]string, 0, len(r))
	for k := range r {
		ks = append(ks, k)
	}
	sort.Strings(ks) // bytewise
	o := make([]kv, len(ks))
	for i, k := range ks {
		o[i] = kv{[]byte(k), r[k]}
	}
	return o
}

func (r refmap) prefix(p []byte) []kv {
	var o []kv
	for _, e := range r.sorted() {
		if bytes.HasPrefix(e.k, p) {
			o = append(o, e)
		}
	}
	return o
}

func (r refmap) lower(k []byte) []kv {
	var o []kv
	for _, e := range r.sorted() {
		if bytes.Compare(e.k, k) >= 0 {
			o = append(o, e)
		}
	}
	return o
}

func sameList(a, b []kv) bool {
	if len(a) != len(b) {
		return false
	}
	for i := range a {
		if !bytes.Equal(a[i].k, b[i].k) || a[i].v != b[i].v {
			return false
		}
	}
	return true
}

func strictlySorted(a []kv) bool {
	for i := 1; i < len(a); i++ {
		if bytes.Compare(a[i-1].k, a[i].k) >= 0 {
			return false
		}
	}
	return true
}

// ---- harness state
type version struct {
	t    part.Tree[uint64]
	ref  refmap
	main bool // produced by a notified txn begun from the head of the main chain (or version 0)
}

type iterS struct {
	it  *part.Iterator[uint64]
	ref []kv // what remains
}

type handle struct {
	name      string
	ch        <-chan struct{}
	kind      string // get | pfx | root | ins
	key       []byte
	srcVer    string // version the handle was taken from ("" = live txn or clone)
	owner     int    // serial of the txn that handed out an ins handle
	pos       int    // number of changes made by the owner before the hand-out
	z         bool   // handed out while txnID was still 0 (see report: in-place leaf update)
	mustClose bool
	wasClosed bool
}

type change struct {
	key []byte
}

type txnS struct {
	x         *part.Txn[uint64]
	ref       refmap
	fromHead  bool
	serial    int
	changes   []change
	commitVer string
}

type eng struct {
	versions map[string]*version
	vorder   []string
	clones   map[string]*version
	corder   []string
	iters    map[string]*iterS
	iorder   []string
	handles  []*handle
	wnum     map[<-chan struct{}]int
	live     *txnS
	pending  *txnS
	head     string
	serial   int
	mainTxns map[int]bool // serials of notified main-chain txns
}

func (e *eng) Case(string) { e.reset() }

func (e *eng) reset() {
	*e = eng{versions: map[string]*version{}, clones: map[string]*version{}, iters: map[string]*iterS{},
		wnum: map[<-chan struct{}]int{}, mainTxns: map[int]bool{}}
}

func isClosed(ch <-chan struct{}) bool {
	if ch == nil {
		return false
	}
	select {
	case <-ch:
		return true
	default:
		return false
	}
}

func vopt(v uint64, ok bool) string {
	if !ok {
		return "-"
	}
	return strconv.FormatUint(v, 10)
}

type target struct {
	txn  *txnS
	tree *version
	ver  string
}

func (e *eng) target(s string) (target, bool) {
	switch {
	case s == "t":
		if e.live == nil {
			return target{}, false
		}
		return target{txn: e.live}, true
	case len(s) > 1 && s[0] == 'c':
		c, ok := e.clones[s[1:]]
		return target{tree: c}, ok
	case len(s) > 1 && s[0] == 'v':
		v, ok := e.versions[s[1:]]
		return target{tree: v, ver: s[1:]}, ok
	}
	return target{}, false
}

func (t target) ref() refmap {
	if t.txn != nil {
		return t.txn.ref
	}
	return t.tree.ref
}

func collect(it part.Iterator[uint64]) []kv {
	var o []kv
	it.All(func(k []byte, v uint64) bool {
		o = append(o, kv{append([]byte{}, k...), v})
		return true
	})
	return o
}

// addHandle registers a watch channel; returns a !BAD suffix if it is already closed although
// it comes from the newest state (head version, or the live txn begun from it).
func (e *eng) addHandle(name string, ch <-chan struct{}, kind string, key []byte, tg target, z bool) string {
	// the 'z' marker (hand-out in the id-0 first transaction of a New() tree) was needed before fix ca81d8d in
	// /repo (transaction ids start at 1); the oracle now applies to those hand-outs as well
	z = false
	if ch != nil {
		if _, ok := e.wnum[ch]; !ok {
			e.wnum[ch] = len(e.wnum) + 1
		}
	}
	h := &handle{name: name, ch: ch, kind: kind, key: key, srcVer: tg.ver, z: z, wasClosed: isClosed(ch)}
	// a handle taken from a stale version may legitimately be closed already (closed-at-handout
	// below covers the newest state); the exact root clause then only speaks about later txns
	h.mustClose = h.wasClosed
	if tg.txn != nil {
		h.owner = tg.txn.serial
		h.pos = len(tg.txn.changes)
	}
	if kind != "ins" && tg.txn != nil {
		h.kind = "intxn-" + kind // queries made inside a txn: mechanism-level only
	}
	if tg.tree != nil && tg.ver == "" {
		h.kind = "clone-" + kind
	}
	out := e.handles[:0]
	for _, o := range e.handles {
		if o.name != name {
			out = append(out, o)
		}
	}
	e.handles = append(out, h)
	newest := (tg.ver != "" && tg.ver == e.head && e.pending == nil) || (tg.txn != nil && tg.txn.fromHead)
	if newest && h.wasClosed {
		return " !BAD:C12:closed-at-handout"
	}
	return ""
}

// sweep: no handle may go from open to closed outside Notify.
func (e *eng) sweep() string {
	bad := ""
	for _, h := range e.handles {
		c := isClosed(h.ch)
		if c && !h.wasClosed {
			bad = " !BAD:C12:closed-without-notify"
		}
		h.wasClosed = c
	}
	return bad
}

// afterNotify evaluates the clauses of C12 for the notified main-chain txn t.
func (e *eng) afterNotify(t *txnS) string {
	changed := func(k []byte, from int) bool {
		for _, c := range t.changes[from:] {
			if bytes.Equal(c.key, k) {
				return true
			}
		}
		return false
	}
	for _, h := range e.handles {
		fromMain := h.srcVer != "" && e.versions[h.srcVer] != nil && e.versions[h.srcVer].main
		switch h.kind {
		case "root":
			if fromMain && len(t.changes) > 0 {
				h.mustClose = true
			}
		case "get":
			if fromMain && changed(h.key, 0) {
				h.mustClose = true
			}
		case "pfx":
			if fromMain {
				for _, c := range t.changes {
					if bytes.HasPrefix(c.key, h.key) {
						h.mustClose = true
					}
				}
			}
		case "ins":
			if h.owner == t.serial {
				if !h.z && changed(h.key, h.pos) {
					h.mustClose = true
				}
			} else if e.mainTxns[h.owner] && changed(h.key, 0) {
				h.mustClose = true
			}
		// handles taken INSIDE an earlier (committed and notified, main-chain) transaction: what that transaction
		// itself did after the hand-out is mechanism level (9.3: an in-place write of a node the transaction owns
		// keeps the channel), but the node stays on the search path in the committed tree, so every LATER
		// transaction that changes the key / a key under the prefix / anything must close the channel
		// (Part/TxnHandles.v; seeded change S3-C12-3 orphaned such a channel on a promotion)
		case "intxn-get":
			if h.owner != t.serial && e.mainTxns[h.owner] && changed(h.key, 0) {
				h.mustClose = true
			}
		case "intxn-pfx":
			if h.owner != t.serial && e.mainTxns[h.owner] {
				for _, c := range t.changes {
					if bytes.HasPrefix(c.key, h.key) {
						h.mustClose = true
					}
				}
			}
		case "intxn-root":
			if h.owner != t.serial && e.mainTxns[h.owner] && len(t.changes) > 0 {
				h.mustClose = true
			}
		}
	}
	e.mainTxns[t.serial] = true
	bad := ""
	for _, h := range e.handles {
		c := isClosed(h.ch)
		h.wasClosed = c
		fromMain := h.srcVer != "" && e.versions[h.srcVer] != nil && e.versions[h.srcVer].main
		if h.mustClose && !c {
			bad = " !BAD:C12:" + h.kind + "-not-closed(" + h.name + ")"
		}
		if h.kind == "root" && fromMain && !h.mustClose && c {
			bad = " !BAD:C12:root-closed-unchanged"
		}
	}
	return bad
}

func (e *eng) addVersion(name string, v *version) {
	if _, ok := e.versions[name]; !ok {
		e.vorder = append(e.vorder, name)
	}
	e.versions[name] = v
}

func (e *eng) addIter(name string, it part.Iterator[uint64], ref []kv) {
	if _, ok := e.iters[name]; !ok {
		e.iorder = append(e.iorder, name)
	}
	e.iters[name] = &iterS{it: &it, ref: ref}
}

func (e *eng) Op(f []string, line string, out *hx.Out) {
	bad := ""
	c11 := func(cond bool, clause string) {
		if !cond && bad == "" {
			bad = " !BAD:C11:" + clause
		}
	}
	switch {
	case f[0] == "new" && len(f) == 2:
		e.reset()
		var t part.Tree[uint64]
		if f[1] == "1" {
			t = part.New[uint64](part.RootOnlyWatch)
		} else {
			t = part.New[uint64]()
		}
		e.addVersion("0", &version{t: t, ref: refmap{}, main: true})
		e.head = "0"
		out.P("P:C11,C12 ok")
	case f[0] == "begin" && len(f) == 2:
		v, ok := e.versions[f[1]]
		if !ok && strings.HasPrefix(f[1], "c") {
			// a transaction begun from the tree returned by Txn.Clone()
			v, ok = e.clones[f[1][1:]]
		}
		if !ok || e.live != nil {
			out.P("E badref")
			return
		}
		e.pending = nil
		e.serial++
		e.live = &txnS{x: v.t.Txn(), ref: v.ref.clone(), fromHead: f[1] == e.head, serial: e.serial}
		out.P("P:C11,C12 ok%s", e.sweep())
	case (f[0] == "ins" || f[0] == "mod") && len(f) >= 3 && len(f) <= 5:
		if e.live == nil {
			out.P("E badref")
			return
		}
		t := e.live
		k := hx.UnHex(f[1])
		v, _ := strconv.ParseUint(f[2], 10, 64)
		refOld, refHad := t.ref[string(k)]
		var old, nv uint64
		var had bool
		var w <-chan struct{}
		if f[0] == "mod" {
			old, nv, had, w = t.x.ModifyWatch(k, v, modFun)
			want := v
			if refHad {
				want = modFun(refOld, v)
			}
			c11(nv == want, "modify-new")
			t.ref[string(k)] = want
		} else {
			old, had, w = t.x.InsertWatch(k, v)
			t.ref[string(k)] = v
		}
		c11(had == refHad && (!had || old == refOld), "old-value")
		c11(t.x.Len() == len(t.ref), "len")
		t.changes = append(t.changes, change{k})
		if len(f) >= 4 && f[3] != "-" {
			bad += e.addHandle(f[3], w, "ins", k, target{txn: t}, false) // the former "z" marker (txn id 0) is ignored: ids start at 1
		}
		bad += e.sweep()
		if f[0] == "mod" {
			out.P("P:C11 old=%s new=%d%s", vopt(old, had), nv, bad)
		} else {
			out.P("P:C11 old=%s%s", vopt(old, had), bad)
		}
	case (f[0] == "tins" || f[0] == "tmod" || f[0] == "tdel") && len(f) == 4:
		// Tree.Insert / Tree.Modify / Tree.Delete on the head version: Txn() + one write + CommitAndNotify() inside
		v, ok := e.versions[e.head]
		if !ok || e.live != nil {
			out.P("E badref")
			return
		}
		e.pending = nil
		e.serial++
		t := &txnS{ref: v.ref.clone(), fromHead: true, serial: e.serial}
		k := hx.UnHex(f[1])
		val, _ := strconv.ParseUint(f[2], 10, 64)
		refOld, refHad := t.ref[string(k)]
		var old uint64
		var had bool
		var tree part.Tree[uint64]
		switch f[0] {
		case "tins":
			old, had, tree = v.t.Insert(k, val)
			t.ref[string(k)] = val
			t.changes = append(t.changes, change{k})
		case "tmod":
			old, had, tree = v.t.Modify(k, val, modFun)
			want := val
			if refHad {
				want = modFun(refOld, val)
			}
			t.ref[string(k)] = want
			t.changes = append(t.changes, change{k})
		default:
			old, had, tree = v.t.Delete(k)
			delete(t.ref, string(k))
			if refHad {
				t.changes = append(t.changes, change{k})
			}
		}
		c11(had == refHad && (!had || old == refOld), "old-value")
		c11(tree.Len() == len(t.ref), "len")
		if got, found := func() (uint64, bool) { x, _, ok := tree.Get(k); return x, ok }(); found != (f[0] != "tdel") || (found && got != t.ref[string(k)]) {
			c11(false, "one-shot-result")
		}
		e.addVersion(f[3], &version{t: tree, ref: t.ref.clone(), main: true})
		e.head = f[3]
		out.P("P:C11,C12 old=%s%s%s", vopt(old, had), bad, e.afterNotify(t))
	case f[0] == "del" && len(f) == 2:
		if e.live == nil {
			out.P("E badref")
			return
		}
		t := e.live
		k := hx.UnHex(f[1])
		refOld, refHad := t.ref[string(k)]
		old, had := t.x.Delete(k)
		c11(had == refHad && (!had || old == refOld), "old-value")
		delete(t.ref, string(k))
		c11(t.x.Len() == len(t.ref), "len")
		if refHad {
			t.changes = append(t.changes, change{k})
		}
		bad += e.sweep()
		out.P("P:C11 old=%s%s", vopt(old, had), bad)
	case f[0] == "get" && (len(f) == 3 || len(f) == 4):
		tg, ok := e.target(f[1])
		if !ok {
			out.P("E badref")
			return
		}
		k := hx.UnHex(f[2])
		var v uint64
		var w <-chan struct{}
		var found bool
		if tg.txn != nil {
			v, w, found = tg.txn.x.Get(k)
		} else {
			v, w, found = tg.tree.t.Get(k)
		}
		rv, rok := tg.ref()[string(k)]
		c11(found == rok && (!found || v == rv), "get")
		if len(f) == 4 && f[3] != "-" {
			bad += e.addHandle(f[3], w, "get", k, tg, false)
		}
		bad += e.sweep()
		out.P("P:C11 val=%s%s", vopt(v, found), bad)
	case f[0] == "len" && len(f) == 2:
		tg, ok := e.target(f[1])
		if !ok {
			out.P("E badref")
			return
		}
		n := 0
		if tg.txn != nil {
			n = tg.txn.x.Len()
		} else {
			n = tg.tree.t.Len()
		}
		c11(n == len(tg.ref()), "len")
		out.P("P:C11 len=%d%s", n, bad)
	case f[0] == "all" && len(f) == 2:
		tg, ok := e.target(f[1])
		if !ok {
			out.P("E badref")
			return
		}
		var l []kv
		yield := func(k []byte, v uint64) bool {
			l = append(l, kv{append([]byte{}, k...), v})
			return true
		}
		if tg.txn != nil {
			tg.txn.x.All(yield)
		} else {
			tg.tree.t.All(yield)
		}
		c11(strictlySorted(l), "order")
		c11(sameList(l, tg.ref().sorted()), "iteration")
		out.P("P:C11 %s%s", digest(l), bad)
	case f[0] == "allins" && len(f) == 3:
		// Txn.All with an Insert performed from inside the yield callback at the first element:
		// the iteration must still yield the contents as of the call (txnID bump in All)
		if e.live == nil {
			out.P("E badref")
			return
		}
		t := e.live
		k := hx.UnHex(f[1])
		v, _ := strconv.ParseUint(f[2], 10, 64)
		want := t.ref.sorted()
		var l []kv
		var old uint64
		var had, did bool
		t.x.All(func(kk []byte, vv uint64) bool {
			l = append(l, kv{append([]byte{}, kk...), vv})
			if !did {
				did = true
				refOld, refHad := t.ref[string(k)]
				old, had = t.x.Insert(k, v)
				c11(had == refHad && (!had || old == refOld), "old-value")
				t.ref[string(k)] = v
				t.changes = append(t.changes, change{k})
			}
			return true
		})
		c11(sameList(l, want), "iteration-during-mutation")
		bad += e.sweep()
		out.P("P:C11 %s old=%s%s", digest(l), vopt(old, had), bad)
	case f[0] == "iter" && len(f) == 3:
		tg, ok := e.target(f[1])
		if !ok {
			out.P("E badref")
			return
		}
		var it part.Iterator[uint64]
		if tg.txn != nil {
			it = tg.txn.x.Iterator()
		} else {
			it = tg.tree.t.Iterator()
		}
		e.addIter(f[2], it, tg.ref().sorted())
		out.P("P:C11 ok")
	case f[0] == "pfx" && len(f) == 5:
		tg, ok := e.target(f[1])
		if !ok {
			out.P("E badref")
			return
		}
		p := hx.UnHex(f[2])
		var it part.Iterator[uint64]
		var w <-chan struct{}
		if tg.txn != nil {
			it, w = tg.txn.x.Prefix(p)
		} else {
			it, w = tg.tree.t.Prefix(p)
		}
		l := collect(it)
		want := tg.ref().prefix(p)
		c11(strictlySorted(l), "order")
		c11(sameList(l, want), "prefix")
		if f[3] != "-" {
			bad += e.addHandle(f[3], w, "pfx", p, tg, false)
		}
		if f[4] != "-" {
			e.addIter(f[4], it, want)
		}
		bad += e.sweep()
		out.P("P:C11 %s%s", digest(l), bad)
	case f[0] == "lb" && len(f) == 4:
		tg, ok := e.target(f[1])
		if !ok {
			out.P("E badref")
			return
		}
		k := hx.UnHex(f[2])
		var it part.Iterator[uint64]
		if tg.txn != nil {
			it = tg.txn.x.LowerBound(k)
		} else {
			it = tg.tree.t.LowerBound(k)
		}
		l := collect(it)
		want := tg.ref().lower(k)
		c11(strictlySorted(l), "order")
		c11(sameList(l, want), "lowerbound")
		if f[3] != "-" {
			e.addIter(f[3], it, want)
		}
		out.P("P:C11 %s%s", digest(l), bad)
	case f[0] == "next" && len(f) == 2:
		it, ok := e.iters[f[1]]
		if !ok {
			out.P("E badref")
			return
		}
		k, v, found := it.it.Next()
		if len(it.ref) == 0 {
			c11(!found, "iterator")
		} else {
			c11(found && bytes.Equal(k, it.ref[0].k) && v == it.ref[0].v, "iterator")
			it.ref = it.ref[1:]
		}
		if found {
			out.P("P:C11 kv=%s:%d%s", hx.Hex(k), v, bad)
		} else {
			out.P("P:C11 end%s", bad)
		}
	case f[0] == "rest" && len(f) == 2:
		it, ok := e.iters[f[1]]
		if !ok {
			out.P("E badref")
			return
		}
		l := collect(*it.it)
		c11(sameList(l, it.ref), "iterator")
		out.P("P:C11 %s%s", digest(l), bad)
	case f[0] == "clone" && len(f) == 2:
		if e.live == nil {
			out.P("E badref")
			return
		}
		if _, ok := e.clones[f[1]]; !ok {
			e.corder = append(e.corder, f[1])
		}
		e.clones[f[1]] = &version{t: e.live.x.Clone(), ref: e.live.ref.clone()}
		out.P("P:C11 ok")
	case f[0] == "rootw" && len(f) == 3:
		tg, ok := e.target(f[1])
		if !ok {
			out.P("E badref")
			return
		}
		var w <-chan struct{}
		if tg.txn != nil {
			w = tg.txn.x.RootWatch()
		} else {
			w = tg.tree.t.RootWatch()
		}
		bad += e.addHandle(f[2], w, "root", nil, tg, false)
		out.P("P:C12 ok%s", bad)
	case f[0] == "commit" && len(f) == 2:
		if e.live == nil {
			out.P("E badref")
			return
		}
		t := e.live
		e.addVersion(f[1], &version{t: t.x.Commit(), ref: t.ref.clone()})
		t.commitVer = f[1]
		e.live, e.pending = nil, t
		out.P("P:C11,C12 ok%s", e.sweep())
	case f[0] == "notify" && len(f) == 1:
		if e.pending == nil || !e.pending.fromHead {
			out.P("E badref")
			return
		}
		t := e.pending
		t.x.Notify()
		e.pending = nil
		bad = e.afterNotify(t)
		// the version committed by t becomes the head of the main chain
		if v, ok := e.versions[t.commitVer]; ok {
			v.main = true
			e.head = t.commitVer
		}
		out.P("P:C12 ok%s", bad)
	case f[0] == "cnotify" && len(f) == 2:
		if e.live == nil || !e.live.fromHead {
			out.P("E badref")
			return
		}
		t := e.live
		e.addVersion(f[1], &version{t: t.x.CommitAndNotify(), ref: t.ref.clone(), main: true})
		e.head = f[1]
		e.live, e.pending = nil, nil
		out.P("P:C11,C12 ok%s", e.afterNotify(t))
	case f[0] == "abandon" && len(f) == 1:
		if e.live == nil {
			out.P("E badref")
			return
		}
		e.live = nil
		out.P("P:C11,C12 ok%s", e.sweep())
	case f[0] == "chk" && len(f) == 1:
		bad += e.sweep()
		var sb strings.Builder
		sb.WriteString("chk")
		for _, h := range e.handles {
			if h.ch == nil {
				fmt.Fprintf(&sb, " %s=nil", h.name)
			} else {
				c := 0
				if isClosed(h.ch) {
					c = 1
				}
				fmt.Fprintf(&sb, " %s=w%d:%d", h.name, e.wnum[h.ch], c)
			}
		}
		out.P("M:C12 %s%s", sb.String(), bad)
	case f[0] == "pers" && len(f) == 1:
		var sb strings.Builder
		sb.WriteString("pers")
		for _, name := range e.vorder {
			v := e.versions[name]
			l := collect(v.t.Iterator())
			c11(sameList(l, v.ref.sorted()) && v.t.Len() == len(v.ref), "persistence-version")
			// point lookups too: a descent compares the node prefixes that full iteration never looks at
			for _, e2 := range l {
				if got, _, ok := v.t.Get(e2.k); !ok || got != e2.v {
					c11(false, "persistence-version-get")
				}
				it, _ := v.t.Prefix(e2.k)
				if k0, v0, ok := it.Next(); !ok || !bytes.Equal(k0, e2.k) || v0 != e2.v {
					c11(false, "persistence-version-prefix")
				}
			}
			fmt.Fprintf(&sb, " v%s=%s", name, short(l))
		}
		for _, name := range e.corder {
			v := e.clones[name]
			l := collect(v.t.Iterator())
			c11(sameList(l, v.ref.sorted()) && v.t.Len() == len(v.ref), "persistence-clone")
			fmt.Fprintf(&sb, " c%s=%s", name, short(l))
		}
		for _, name := range e.iorder {
			it := e.iters[name]
			l := collect(*it.it)
			c11(sameList(l, it.ref), "persistence-iterator")
			fmt.Fprintf(&sb, " i%s=%s", name, short(l))
		}
		out.P("P:C11 %s%s", sb.String(), bad)
	default:
		out.P("E unknown op: %s", line)
	}
}

func main() { hx.Main(&eng{}) }
