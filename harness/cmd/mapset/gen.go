package main

// Pure generator: branching histories over the register file. It keeps its own plain-Go shadow of the
// register contents only to steer the distribution (delete keys that exist, force representation
// switches, avoid the region documented below); it never runs part.*.
//
// Avoided region (outside C17's quantifier, see MapSet/Refuted.v equalkeys_needs_invariant): a raw
// decode (mdecj/mdecy) of >= 2 pairs that all carry the same key builds a 1-element tree on which
// EqualKeys/SlowEqual are wrong. Encodings produced by Marshal never contain duplicates.

import (
	"fmt"
	"sort"
	"strings"

	"verif/harness/hx"
)

var keysH = []string{"-", "00", "01", "0001", "00ff", "61", "6162", "ff", "ff00", "0100"}

// int32 keys as their 4 big-endian bytes: small, negative, surrogate range, beyond the last code point, extremes
var keysI = []string{"00000000", "00000001", "00000061", "000000ff", "00000100", "0000d800", "0000dfff", "0000fffd", "00110000",
	"7fffffff", "80000000", "fffffffe", "ffffffff", "ffff0000"}
var keysS = []string{"-", "61", "62", "6162", "616263", "6261", "7e", "41", "6120"}

type gcase struct {
	r      *hx.Rand
	out    *hx.Out
	keys   []string
	val    int
	nextID int
	maps   []int
	sets   []int
	txns   []int
	shM    map[int]map[string]int
	shS    map[int]map[string]int
	shT    map[int]map[string]int
	nops   int
}

func (g *gcase) emit(format string, a ...any) {
	g.out.P(format, a...)
	g.nops++
}

func (g *gcase) id() int { g.nextID++; return g.nextID }
func (g *gcase) v() int  { g.val++; return g.val }
func (g *gcase) key() string {
	return hx.Pick(g.r, g.keys)
}

func skeys(m map[string]int) []string {
	out := make([]string, 0, len(m))
	for k := range m {
		out = append(out, k)
	}
	sort.Strings(out)
	return out
}

// a key of the shadow (70%) or any key
func (g *gcase) keyOf(sh map[string]int) string {
	if len(sh) > 0 && g.r.Chance(70) {
		return hx.Pick(g.r, skeys(sh))
	}
	return g.key()
}

// source map register: existing one (biased to small ones), sometimes the never-written register 0
func (g *gcase) srcM() int {
	if len(g.maps) == 0 || g.r.Chance(4) {
		return 0
	}
	if g.r.Chance(40) {
		// prefer a small map: representation switches live there
		best := g.maps[g.r.Intn(len(g.maps))]
		for i := 0; i < 3; i++ {
			c := g.maps[g.r.Intn(len(g.maps))]
			if len(g.shM[c]) < len(g.shM[best]) {
				best = c
			}
		}
		return best
	}
	return g.maps[g.r.Intn(len(g.maps))]
}

func (g *gcase) srcS() int {
	if len(g.sets) == 0 || g.r.Chance(6) {
		return 0
	}
	return g.sets[g.r.Intn(len(g.sets))]
}

func cpS(m map[string]int) map[string]int {
	o := map[string]int{}
	for k, v := range m {
		o[k] = v
	}
	return o
}

func (g *gcase) lim() int {
	return hx.Pick(g.r, []int{0, 1, 1, 1, 2, 3})
}

func (g *gcase) pairs(n int, distinct bool) (string, map[string]int, int) {
	var sb strings.Builder
	sh := map[string]int{}
	cnt := 0
	for i := 0; i < n; i++ {
		k := g.key()
		if distinct {
			if _, ok := sh[k]; ok {
				continue
			}
		}
		v := g.v()
		sh[k] = v
		fmt.Fprintf(&sb, " %s %d", k, v)
		cnt++
	}
	return sb.String(), sh, cnt
}

func (g *gcase) mset(s int, k string) int {
	d := g.id()
	v := g.v()
	g.emit("mset %d %d %s %d", d, s, k, v)
	sh := cpS(g.shM[s])
	sh[k] = v
	g.shM[d] = sh
	g.maps = append(g.maps, d)
	return d
}

func (g *gcase) mdel(s int, k string) int {
	d := g.id()
	g.emit("mdel %d %d %s", d, s, k)
	sh := cpS(g.shM[s])
	delete(sh, k)
	g.shM[d] = sh
	g.maps = append(g.maps, d)
	return d
}

func (g *gcase) mfrom(s int, n int) int {
	d := g.id()
	ps, hm, _ := g.pairs(n, true)
	g.emit("mfrom %d %d%s", d, s, ps)
	sh := cpS(g.shM[s])
	for k, v := range hm {
		sh[k] = v
	}
	g.shM[d] = sh
	g.maps = append(g.maps, d)
	return d
}

func (g *gcase) mtxn(s int) int {
	t := g.id()
	g.emit("mtxn %d %d", t, s)
	g.shT[t] = cpS(g.shM[s])
	g.txns = append(g.txns, t)
	return t
}

func (g *gcase) tset(t int, k string) {
	v := g.v()
	g.emit("tset %d %s %d", t, k, v)
	g.shT[t][k] = v
}

func (g *gcase) tdel(t int, k string) {
	g.emit("tdel %d %s", t, k)
	delete(g.shT[t], k)
}

func (g *gcase) tcommit(t int) int {
	d := g.id()
	g.emit("tcommit %d %d", d, t)
	g.shM[d] = cpS(g.shT[t])
	g.maps = append(g.maps, d)
	return d
}

func (g *gcase) newS(d int, sh map[string]int) int {
	g.shS[d] = sh
	g.sets = append(g.sets, d)
	return d
}

// one random op
func (g *gcase) step() {
	r := g.r
	switch c := r.Intn(100); {
	case c < 14:
		s := g.srcM()
		g.mset(s, g.keyOf(g.shM[s]))
	case c < 26:
		s := g.srcM()
		g.mdel(s, g.keyOf(g.shM[s]))
	case c < 32:
		g.mfrom(g.srcM(), hx.Pick(r, []int{0, 1, 2, 2, 3, 4}))
	case c < 36:
		if len(g.txns) < 3 {
			g.mtxn(g.srcM())
		} else {
			g.tset(hx.Pick(r, g.txns), g.key())
		}
	case c < 50:
		if len(g.txns) == 0 {
			g.mtxn(g.srcM())
			return
		}
		t := hx.Pick(r, g.txns)
		switch r.Intn(10) {
		case 0, 1, 2, 3:
			g.tset(t, g.key())
		case 4, 5, 6:
			g.tdel(t, g.keyOf(g.shT[t]))
		case 7:
			switch r.Intn(3) {
			case 0:
				g.emit("tall %d %d", t, g.lim())
			case 1:
				g.emit("tpre %d %s %d", t, g.key(), g.lim())
			default:
				g.emit("tlb %d %s %d", t, g.key(), g.lim())
			}
		default:
			d := g.tcommit(t)
			// the shape of seeded/D6: keep writing to the committed map and to the transaction
			if r.Chance(70) {
				if r.Chance(70) {
					g.mset(d, g.key())
				} else {
					g.mdel(d, g.keyOf(g.shM[d]))
				}
				g.tset(t, g.key())
				if r.Chance(60) {
					g.tcommit(t)
				}
			}
		}
	case c < 56:
		s := g.srcM()
		switch r.Intn(3) {
		case 0:
			g.emit("mall %d %d", s, g.lim())
		case 1:
			g.emit("mpre %d %s %d", s, g.key(), g.lim())
		default:
			g.emit("mlb %d %s %d", s, g.key(), g.lim())
		}
	case c < 61:
		s := g.srcM()
		d := g.id()
		g.emit("%s %d %d", hx.Pick(r, []string{"mjson", "myaml"}), d, s)
		g.shM[d] = cpS(g.shM[s])
		g.maps = append(g.maps, d)
	case c < 64:
		n := hx.Pick(r, []int{0, 1, 2, 3, 4})
		ps, sh, cnt := g.pairs(n, false)
		if cnt >= 2 && len(sh) < 2 {
			return // avoided region: 1-element tree (see header)
		}
		d := g.id()
		g.emit("%s %d%s", hx.Pick(r, []string{"mdecj", "mdecy"}), d, ps)
		g.shM[d] = sh
		g.maps = append(g.maps, d)
	case c < 69:
		n := hx.Pick(r, []int{0, 1, 2, 3, 4})
		ps, sh, _ := g.pairs(n, false)
		d := g.id()
		g.emit("snew %d%s", d, ps)
		g.newS(d, sh)
	case c < 76:
		s := g.srcS()
		d := g.id()
		k := g.keyOf(g.shS[s])
		v := g.v()
		g.emit("sset %d %d %s %d", d, s, k, v)
		sh := cpS(g.shS[s])
		sh[k] = v
		g.newS(d, sh)
	case c < 83:
		s := g.srcS()
		d := g.id()
		k := g.keyOf(g.shS[s])
		g.emit("sdel %d %d %s", d, s, k)
		sh := cpS(g.shS[s])
		delete(sh, k)
		g.newS(d, sh)
	case c < 88:
		a, b := g.srcS(), g.srcS()
		d := g.id()
		g.emit("sunion %d %d %d", d, a, b)
		sh := cpS(g.shS[a])
		for k, v := range g.shS[b] {
			sh[k] = v
		}
		g.newS(d, sh)
	case c < 93:
		a, b := g.srcS(), g.srcS()
		d := g.id()
		g.emit("sdiff %d %d %d", d, a, b)
		sh := cpS(g.shS[a])
		for k := range g.shS[b] {
			delete(sh, k)
		}
		g.newS(d, sh)
	case c < 96:
		s := g.srcS()
		d := g.id()
		g.emit("%s %d %d", hx.Pick(r, []string{"sjson", "syaml"}), d, s)
		g.newS(d, cpS(g.shS[s]))
	case c < 97:
		n := hx.Pick(r, []int{0, 1, 2, 3})
		ps, sh, _ := g.pairs(n, false)
		d := g.id()
		g.emit("%s %d%s", hx.Pick(r, []string{"sdecj", "sdecy"}), d, ps)
		g.newS(d, sh)
	case c < 98:
		g.emit("sall %d %d", g.srcS(), g.lim())
	case c < 99:
		g.vrt()
	default:
		g.emit("stbf %d", g.srcS())
	}
}

// codec round trip of a fresh map with non-scalar values (slices / struct with omitempty / nested map)
func (g *gcase) vrt() {
	ps, _, _ := g.pairs(hx.Pick(g.r, []int{0, 1, 2, 3, 4, 5}), false)
	g.emit("vrt %s %s%s", hx.Pick(g.r, []string{"j", "y"}), hx.Pick(g.r, []string{"s", "o", "m"}), ps)
}

// preludes: fixed shapes that every run must contain
func (g *gcase) prelude(kind int) {
	k := g.keys
	switch kind {
	case 0: // empty -> singleton -> tree -> singleton -> empty, observed at every step
		a := g.mset(0, k[0])
		b := g.mset(a, k[1%len(k)])
		c := g.mset(b, k[2%len(k)])
		d := g.mdel(c, k[0])
		e := g.mdel(d, k[1%len(k)])
		g.mdel(e, k[2%len(k)])
		g.mset(a, k[0]) // overwrite the singleton
		g.mdel(b, k[3%len(k)])
	case 1: // FromMap on empty / singleton / tree with overlapping keys (seeded/D5 shape)
		a := g.mset(0, k[0])
		d := g.id()
		v1, v2 := g.v(), g.v()
		g.emit("mfrom %d %d %s %d %s %d", d, a, k[0], v1, k[1%len(k)], v2)
		g.shM[d] = map[string]int{k[0]: v1, k[1%len(k)]: v2}
		g.maps = append(g.maps, d)
		g.mfrom(d, 2)
		g.mfrom(0, 3)
		g.mfrom(a, 1)
	case 2: // MapTxn reused after Commit, interleaved with writes to the committed map (seeded/D6 shape)
		a := g.mfrom(0, 3)
		t := g.mtxn(a)
		g.tset(t, g.key())
		m1 := g.tcommit(t)
		g.mset(m1, g.key())
		g.tset(t, g.key())
		m2 := g.tcommit(t)
		g.mdel(m2, g.keyOf(g.shM[m2]))
		g.tdel(t, g.keyOf(g.shT[t]))
		g.tcommit(t)
	case 3: // early break out of every iterator (seeded/D10 shape)
		ps, sh, _ := g.pairs(4, false)
		d := g.id()
		g.emit("snew %d%s", d, ps)
		g.newS(d, sh)
		g.emit("sall %d 1", d)
		g.emit("sall %d 2", d)
		m := g.mfrom(0, 4)
		g.emit("mall %d 1", m)
		g.emit("mpre %d - 1", m)
		g.emit("mlb %d - 2", m)
		t := g.mtxn(m)
		g.emit("tall %d 1", t)
	case 4: // Union / Difference over all representation combinations: none, empty tree, tree
		ps, sh, _ := g.pairs(3, false)
		a := g.id()
		g.emit("snew %d%s", a, ps)
		g.newS(a, sh)
		ps, sh, _ = g.pairs(2, false)
		b := g.id()
		g.emit("snew %d%s", b, ps)
		g.newS(b, sh)
		e := g.id() // empty tree: a \ a
		g.emit("sdiff %d %d %d", e, a, a)
		g.newS(e, map[string]int{})
		for _, x := range []int{0, e, a} {
			for _, y := range []int{0, e, b} {
				d := g.id()
				g.emit("sunion %d %d %d", d, x, y)
				sh := cpS(g.shS[x])
				for kk, v := range g.shS[y] {
					sh[kk] = v
				}
				g.newS(d, sh)
				d = g.id()
				g.emit("sdiff %d %d %d", d, x, y)
				sh = cpS(g.shS[x])
				for kk := range g.shS[y] {
					delete(sh, kk)
				}
				g.newS(d, sh)
			}
		}
		g.emit("stbf %d", e)
		g.emit("stbf 0")
	case 5: // codecs on every representation
		a := g.mset(0, k[0])
		b := g.mfrom(a, 2)
		for _, s := range []int{0, a, b} {
			for _, c := range []string{"mjson", "myaml"} {
				d := g.id()
				g.emit("%s %d %d", c, d, s)
				g.shM[d] = cpS(g.shM[s])
				g.maps = append(g.maps, d)
			}
		}
		for _, vt := range []string{"s", "o", "m"} {
			for _, c := range []string{"j", "y"} {
				ps, _, _ := g.pairs(4, true)
				g.emit("vrt %s %s%s", c, vt, ps)
			}
		}
		for _, c := range []string{"sdecj", "sdecy", "sjson", "syaml"} {
			d := g.id()
			if strings.HasPrefix(c, "sdec") {
				g.emit("%s %d", c, d)
				g.newS(d, map[string]int{})
			} else {
				g.emit("%s %d 0", c, d)
				g.newS(d, map[string]int{})
			}
		}
	}
}

// fanCase: a key that is a prefix of N others that differ in the next byte, N at a node-size threshold of the
// radix tree (4/5, 16/17, 48/49); then entries are removed across the threshold (Map.Delete, Set.Delete,
// Set.Difference) and added again: the prefix key's own entry lives on the inner node that changes its kind
func fanCase(r *hx.Rand, N int, out *hx.Out) {
	out.P("#case hfan%d", N)
	perm := r.Perm(256)
	base := fmt.Sprintf("%02x", perm[N+1])
	keys := []string{base}
	for i := 0; i < N; i++ {
		keys = append(keys, base+fmt.Sprintf("%02x", perm[i]))
	}
	g := &gcase{r: r, out: out, keys: keys,
		shM: map[int]map[string]int{}, shS: map[int]map[string]int{}, shT: map[int]map[string]int{}}
	// a map and a set holding all of them
	var sb strings.Builder
	shm, shs := map[string]int{}, map[string]int{}
	for _, k := range keys {
		v := g.v()
		shm[k] = v
		fmt.Fprintf(&sb, " %s %d", k, v)
	}
	m := g.id()
	g.emit("mfrom %d 0%s", m, sb.String())
	g.shM[m] = shm
	g.maps = append(g.maps, m)
	sb.Reset()
	for _, k := range keys {
		v := g.v()
		shs[k] = v
		fmt.Fprintf(&sb, " %s %d", k, v)
	}
	st := g.id()
	g.emit("snew %d%s", st, sb.String())
	g.newS(st, shs)
	// across the threshold and back
	m1 := g.mdel(m, keys[1+r.Intn(N)])
	m2 := g.mdel(m1, g.keyOf(g.shM[m1]))
	g.mset(m2, base+fmt.Sprintf("%02x", perm[N+2]))
	g.mset(m1, base)
	d := g.id()
	k := keys[1+r.Intn(N)]
	g.emit("sdel %d %d %s", d, st, k)
	sh := cpS(g.shS[st])
	delete(sh, k)
	g.newS(d, sh)
	one := g.id()
	v := g.v()
	k2 := keys[1+r.Intn(N)]
	g.emit("snew %d %s %d", one, k2, v)
	g.newS(one, map[string]int{k2: v})
	df := g.id()
	g.emit("sdiff %d %d %d", df, st, one)
	sh = cpS(g.shS[st])
	delete(sh, k2)
	g.newS(df, sh)
	g.emit("eqall")
}

func (*eng) Gen(r *hx.Rand, n int, tier string, prop string, out *hx.Out) {
	for _, N := range []int{5, 17, 49} {
		fanCase(r.Fork(), N, out)
	}
	for c := 0; c < n; c++ {
		cr := r.Fork()
		mode := "h"
		univ := keysH
		if c%3 == 1 {
			mode, univ = "s", keysS
		}
		if c%7 == 3 {
			mode, univ = "i", keysI
		}
		out.P("#case %s%d", mode, c)
		// a small key universe per case forces collisions; always allow the empty key
		nk := 3 + cr.Intn(4)
		keys := []string{}
		if cr.Chance(60) && mode != "i" {
			keys = append(keys, "-")
		}
		for len(keys) < nk {
			k := hx.Pick(cr, univ)
			dup := false
			for _, x := range keys {
				dup = dup || x == k
			}
			if !dup {
				keys = append(keys, k)
			}
		}
		g := &gcase{r: cr, out: out, keys: keys,
			shM: map[int]map[string]int{}, shS: map[int]map[string]int{}, shT: map[int]map[string]int{}}
		if cr.Chance(70) && mode != "i" { // the preludes use the empty key, which int32 keys do not have
			g.prelude(c % 6)
		}
		target := 22 + cr.Intn(14)
		if tier == "thorough" {
			target += 10
		}
		lastEq := 0
		for g.nops < target {
			g.step()
			if g.nops-lastEq >= 12 {
				g.emit("eqall")
				lastEq = g.nops
			}
		}
		g.emit("eqall")
	}
}
