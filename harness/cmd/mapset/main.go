// mapset engine (C17): part.Map, part.MapTxn and part.Set over a register file of values.
//
// Every op names its inputs by register id and writes a new register (write-once). After every op
// every register created so far is observed again (Len, full ordered contents, one Get/Has), so a
// value changing after it was obtained shows up on the next line. The same lines are produced by
// the extracted Coq model (ocaml/mapset_drv.ml). Independent oracles (!BAD) compare against plain
// Go maps maintained next to the registers.
//
// Key types: case ids starting with "s" use part.Map[string,int] (built-in registration), all others
// part.Map[hexKey,int] where hexKey is a string holding the hex text of arbitrary key bytes
// (registered through part.RegisterKeyType) — so the empty key, 0x00/0xff bytes and keys that are
// prefixes of each other all round-trip through JSON/YAML untouched. Set elements are (key, tag)
// structs whose key function ignores the tag: which of two elements with the same key survives is
// therefore visible.
package main

import (
	"bytes"
	"encoding/hex"
	"encoding/json"
	"fmt"
	"iter"
	"reflect"
	"sort"
	"strconv"
	"strings"

	"github.com/cilium/statedb/part"
	"go.yaml.in/yaml/v3"

	"verif/harness/hx"
)

type hexKey string

type elem[K any] struct {
	K K   `json:"k" yaml:"k"`
	T int `json:"t" yaml:"t"`
}

// wire form of a map entry as written by Map.MarshalJSON / MarshalYAML
type wpair[K any] struct {
	K K   `json:"k" yaml:"k"`
	V int `json:"v" yaml:"v"`
}

func be32(x int32) []byte {
	return []byte{byte(uint32(x) >> 24), byte(uint32(x) >> 16), byte(uint32(x) >> 8), byte(uint32(x))}
}

func unhexKey(k hexKey) []byte {
	b, err := hex.DecodeString(string(k))
	if err != nil {
		panic("bad hexKey")
	}
	return b
}

func init() {
	part.RegisterKeyType[hexKey](unhexKey)
	part.RegisterKeyType[elem[hexKey]](func(e elem[hexKey]) []byte { return unhexKey(e.K) })
	part.RegisterKeyType[elem[string]](func(e elem[string]) []byte { return []byte(e.K) })
	part.RegisterKeyType[elem[int32]](func(e elem[int32]) []byte { return be32(e.K) })
}

type kvp struct {
	k string // key bytes
	v int
}

type runner interface {
	op(f []string) string
}

type world[K comparable] struct {
	toK   func([]byte) K
	fromK func(K) []byte
	valid func([]byte) bool // nil: every byte string is a key; else which ones are (fixed-width key types)
	maps  map[int]part.Map[K, int]
	sets  map[int]part.Set[elem[K]]
	txns  map[int]part.MapTxn[K, int]
	// plain Go shadows (oracle)
	shM, shS, shT map[int]map[string]int
	bad           []string
}

func newWorld[K comparable](toK func([]byte) K, fromK func(K) []byte) *world[K] {
	return &world[K]{toK: toK, fromK: fromK,
		maps: map[int]part.Map[K, int]{}, sets: map[int]part.Set[elem[K]]{}, txns: map[int]part.MapTxn[K, int]{},
		shM: map[int]map[string]int{}, shS: map[int]map[string]int{}, shT: map[int]map[string]int{}}
}

func cp(m map[string]int) map[string]int {
	o := make(map[string]int, len(m))
	for k, v := range m {
		o[k] = v
	}
	return o
}

func sortedKV(m map[string]int) []kvp {
	out := make([]kvp, 0, len(m))
	for k, v := range m {
		out = append(out, kvp{k, v})
	}
	sort.Slice(out, func(i, j int) bool { return bytes.Compare([]byte(out[i].k), []byte(out[j].k)) < 0 })
	return out
}

func sameKV(a, b []kvp) bool {
	if len(a) != len(b) {
		return false
	}
	for i := range a {
		if a[i] != b[i] {
			return false
		}
	}
	return true
}

func sameKeys(a, b map[string]int) bool {
	if len(a) != len(b) {
		return false
	}
	for k := range a {
		if _, ok := b[k]; !ok {
			return false
		}
	}
	return true
}

func sameMap(a, b map[string]int) bool {
	if len(a) != len(b) {
		return false
	}
	for k, v := range a {
		if w, ok := b[k]; !ok || w != v {
			return false
		}
	}
	return true
}

func fmtKV(l []kvp) string {
	var sb strings.Builder
	for i, p := range l {
		if i > 0 {
			sb.WriteByte(',')
		}
		sb.WriteString(hx.Hex([]byte(p.k)))
		sb.WriteByte(':')
		sb.WriteString(strconv.Itoa(p.v))
	}
	return sb.String()
}

func ascending(l []kvp) bool {
	for i := 1; i < len(l); i++ {
		if bytes.Compare([]byte(l[i-1].k), []byte(l[i].k)) >= 0 {
			return false
		}
	}
	return true
}

func (w *world[K]) flag(clause string) {
	for _, b := range w.bad {
		if b == clause {
			return
		}
	}
	w.bad = append(w.bad, clause)
}

// take consumes a Seq2, breaking out of the loop after lim elements (lim <= 0: never breaks).
func take2[K comparable](w *world[K], seq iter.Seq2[K, int], lim int) []kvp {
	var out []kvp
	n := 0
	for k, v := range seq {
		out = append(out, kvp{string(w.fromK(k)), v})
		n++
		if n == lim {
			break
		}
	}
	return out
}

func take1[K comparable](w *world[K], seq iter.Seq[elem[K]], lim int) []kvp {
	var out []kvp
	n := 0
	for e := range seq {
		out = append(out, kvp{string(w.fromK(e.K)), e.T})
		n++
		if n == lim {
			break
		}
	}
	return out
}

func ids[T any](m map[int]T) []int {
	out := make([]int, 0, len(m))
	for i := range m {
		out = append(out, i)
	}
	sort.Ints(out)
	return out
}

func optv(v int, ok bool) string {
	if !ok {
		return "-"
	}
	return strconv.Itoa(v)
}

func b2s(b bool) string {
	if b {
		return "1"
	}
	return "0"
}

// dump observes every register; fresh = register written by the current op ("m3"/"s2"/"t1" or "").
func (w *world[K]) dump(probe []byte, fresh string) string {
	var sb strings.Builder
	// a probe that is not a key of this key type (the empty key for int32) is absent everywhere
	pkOK := w.valid == nil || w.valid(probe)
	var pk K
	if pkOK {
		pk = w.toK(probe)
	}
	check := func(name string, got []kvp, n int, sh map[string]int) {
		clause := "persist"
		if name == fresh {
			clause = "result"
		}
		if !sameKV(got, sortedKV(sh)) {
			w.flag(clause)
		}
		if !ascending(got) {
			w.flag("order")
		}
		if n != len(got) {
			w.flag("len")
		}
	}
	for _, i := range ids(w.maps) {
		m := w.maps[i]
		all := take2(w, m.All(), 0)
		var v int
		var ok bool
		if pkOK {
			v, ok = m.Get(pk)
		}
		fmt.Fprintf(&sb, " m%d=%d[%s]g%s", i, m.Len(), fmtKV(all), optv(v, ok))
		check("m"+strconv.Itoa(i), all, m.Len(), w.shM[i])
		if sv, sok := w.shM[i][string(probe)]; sok != ok || (ok && sv != v) {
			w.flag("get")
		}
	}
	for _, i := range ids(w.sets) {
		s := w.sets[i]
		all := take1(w, s.All(), 0)
		has := pkOK && s.Has(elem[K]{K: pk})
		fmt.Fprintf(&sb, " s%d=%d[%s]h%s", i, s.Len(), fmtKV(all), b2s(has))
		check("s"+strconv.Itoa(i), all, s.Len(), w.shS[i])
		if _, sok := w.shS[i][string(probe)]; sok != has {
			w.flag("has")
		}
	}
	for _, i := range ids(w.txns) {
		t := w.txns[i]
		all := take2(w, t.All(), 0)
		var v int
		var ok bool
		if pkOK {
			v, ok = t.Get(pk)
		}
		fmt.Fprintf(&sb, " t%d=%d[%s]g%s", i, t.Len(), fmtKV(all), optv(v, ok))
		check("t"+strconv.Itoa(i), all, t.Len(), w.shT[i])
		if sv, sok := w.shT[i][string(probe)]; sok != ok || (ok && sv != v) {
			w.flag("get")
		}
	}
	return sb.String()
}

func (w *world[K]) line(tag, res string, probe []byte, fresh string) string {
	d := w.dump(probe, fresh)
	s := tag + ":C17 " + res + " |" + d
	for _, b := range w.bad {
		s += " !BAD:C17:" + b
	}
	w.bad = nil
	return s
}

func atoi(s string) int {
	n, err := strconv.Atoi(s)
	if err != nil {
		panic("bad int " + s)
	}
	return n
}

func parsePairs(r []string) []kvp {
	var out []kvp
	for i := 0; i+1 < len(r); i += 2 {
		out = append(out, kvp{string(hx.UnHex(r[i])), atoi(r[i+1])})
	}
	return out
}

func firstKey(r []string) []byte {
	if len(r) > 0 {
		return hx.UnHex(r[0])
	}
	return nil
}

// expected iteration result from a shadow
func expectIter(sh map[string]int, keep func(k []byte) bool, lim int) []kvp {
	var out []kvp
	for _, p := range sortedKV(sh) {
		if keep([]byte(p.k)) {
			out = append(out, p)
		}
	}
	if lim > 0 && len(out) > lim {
		out = out[:lim]
	}
	return out
}

func (w *world[K]) iterRes(got []kvp, sh map[string]int, keep func(k []byte) bool, lim int, probe []byte) string {
	if !sameKV(got, expectIter(sh, keep, lim)) {
		w.flag("iter")
	}
	return w.line("P", "it["+fmtKV(got)+"]", probe, "")
}

func (w *world[K]) putM(d int, m part.Map[K, int], sh map[string]int, probe []byte) string {
	w.maps[d] = m
	w.shM[d] = sh
	return w.line("P", "ok", probe, "m"+strconv.Itoa(d))
}

func (w *world[K]) putS(d int, s part.Set[elem[K]], sh map[string]int, probe []byte) string {
	w.sets[d] = s
	w.shS[d] = sh
	return w.line("P", "ok", probe, "s"+strconv.Itoa(d))
}

func (w *world[K]) roundtripM(src, dst part.Map[K, int]) {
	a, b := take2(w, src.All(), 0), take2(w, dst.All(), 0)
	if !sameKV(a, b) || !src.SlowEqual(dst) || !dst.SlowEqual(src) || !src.EqualKeys(dst) {
		w.flag("roundtrip")
	}
}

func (w *world[K]) roundtripS(src, dst part.Set[elem[K]]) {
	a, b := take1(w, src.All(), 0), take1(w, dst.All(), 0)
	if !sameKV(a, b) || !src.Equal(dst) || !dst.Equal(src) {
		w.flag("roundtrip")
	}
}

func (w *world[K]) wpairs(l []kvp) []wpair[K] {
	out := make([]wpair[K], 0, len(l))
	for _, p := range l {
		out = append(out, wpair[K]{w.toK([]byte(p.k)), p.v})
	}
	return out
}

func (w *world[K]) elems(l []kvp) []elem[K] {
	out := make([]elem[K], 0, len(l))
	for _, p := range l {
		out = append(out, elem[K]{w.toK([]byte(p.k)), p.v})
	}
	return out
}

// ---- non-scalar value types for the codec round trip (op vrt). Each value is derived from an integer
// seed; after decoding, the value found under a key must be reflect.DeepEqual to the one stored, else
// the entry prints as "?" (diverging from the model, which treats values as opaque items).
type ov struct {
	ID int    `json:"id" yaml:"id"`
	A  int    `json:"a,omitempty" yaml:"a,omitempty"`
	B  string `json:"b,omitempty" yaml:"b,omitempty"`
	C  []int  `json:"c,omitempty" yaml:"c,omitempty"`
	D  *int   `json:"d,omitempty" yaml:"d,omitempty"`
}

func deriveSlice(v int) []int {
	out := make([]int, v%3+1)
	for i := range out {
		out[i] = v*10 + i
	}
	return out
}

func deriveStruct(v int) ov {
	o := ov{ID: v}
	if v%2 == 1 {
		o.A = v
	}
	if v%3 != 0 {
		o.B = "s" + strconv.Itoa(v)
	}
	if v%4 >= 2 {
		o.C = []int{v, v + 1}
	}
	if v%5 == 0 {
		d := v
		o.D = &d
	}
	return o
}

func deriveNested(v int) map[string][]int {
	return map[string][]int{"x": {v, v + 1}, "n" + strconv.Itoa(v): {v}}
}

func vrt[K comparable, V any](w *world[K], codec string, ps []kvp, derive func(int) V, probe []byte) string {
	var m part.Map[K, V]
	sh := map[string]int{}
	for _, p := range ps {
		m = m.Set(w.toK([]byte(p.k)), derive(p.v))
		sh[p.k] = p.v
	}
	var dst part.Map[K, V]
	var err error
	var bs []byte
	if codec == "j" {
		if bs, err = json.Marshal(m); err == nil {
			err = json.Unmarshal(bs, &dst)
		}
	} else {
		if bs, err = yaml.Marshal(m); err == nil {
			err = yaml.Unmarshal(bs, &dst)
		}
	}
	if err != nil {
		w.flag("roundtrip")
		return w.line("P", "err", probe, "")
	}
	var sb strings.Builder
	n := 0
	for k, v := range dst.All() {
		kb := string(w.fromK(k))
		if n > 0 {
			sb.WriteByte(',')
		}
		n++
		sb.WriteString(hx.Hex([]byte(kb)))
		sb.WriteByte(':')
		if seed, ok := sh[kb]; ok && reflect.DeepEqual(v, derive(seed)) {
			sb.WriteString(strconv.Itoa(seed))
		} else {
			sb.WriteByte('?')
			w.flag("roundtrip")
		}
	}
	if n != len(sh) || dst.Len() != len(sh) || !m.SlowEqual(dst) || !dst.SlowEqual(m) {
		w.flag("roundtrip")
	}
	// the source must be untouched by encoding/decoding
	for k, v := range m.All() {
		if !reflect.DeepEqual(v, derive(sh[string(w.fromK(k))])) {
			w.flag("persist")
		}
	}
	return w.line("P", "rt["+sb.String()+"]", probe, "")
}

func seqAssign(l []kvp) map[string]int {
	sh := map[string]int{}
	for _, p := range l {
		sh[p.k] = p.v
	}
	return sh
}

func (w *world[K]) op(f []string) string {
	existsM := func(d int) bool { _, ok := w.maps[d]; return ok }
	existsS := func(d int) bool { _, ok := w.sets[d]; return ok }
	all := func([]byte) bool { return true }
	switch f[0] {
	case "mset":
		d, s, k, v := atoi(f[1]), atoi(f[2]), hx.UnHex(f[3]), atoi(f[4])
		if existsM(d) {
			return w.line("P", "dup", k, "")
		}
		sh := cp(w.shM[s])
		sh[string(k)] = v
		return w.putM(d, w.maps[s].Set(w.toK(k), v), sh, k)
	case "mdel":
		d, s, k := atoi(f[1]), atoi(f[2]), hx.UnHex(f[3])
		if existsM(d) {
			return w.line("P", "dup", k, "")
		}
		sh := cp(w.shM[s])
		delete(sh, string(k))
		return w.putM(d, w.maps[s].Delete(w.toK(k)), sh, k)
	case "mfrom":
		d, s, ps := atoi(f[1]), atoi(f[2]), parsePairs(f[3:])
		probe := firstKey(f[3:])
		if existsM(d) {
			return w.line("P", "dup", probe, "")
		}
		hm := map[K]int{}
		sh := cp(w.shM[s])
		for _, p := range ps {
			hm[w.toK([]byte(p.k))] = p.v
			sh[p.k] = p.v
		}
		return w.putM(d, part.FromMap(w.maps[s], hm), sh, probe)
	case "mtxn":
		t, s := atoi(f[1]), atoi(f[2])
		if _, ok := w.txns[t]; ok {
			return w.line("P", "dup", nil, "")
		}
		w.txns[t] = w.maps[s].Txn()
		w.shT[t] = cp(w.shM[s])
		return w.line("P", "ok", nil, "t"+f[1])
	case "tset", "tdel", "tcommit", "tall", "tpre", "tlb":
		t := atoi(f[1])
		if f[0] == "tcommit" {
			t = atoi(f[2])
		}
		var probe []byte
		if f[0] == "tset" || f[0] == "tdel" || f[0] == "tpre" || f[0] == "tlb" {
			probe = hx.UnHex(f[2])
		}
		txn, ok := w.txns[t]
		if !ok {
			return w.line("P", "notxn", probe, "")
		}
		switch f[0] {
		case "tset":
			txn.Set(w.toK(probe), atoi(f[3]))
			w.shT[t][string(probe)] = atoi(f[3])
			return w.line("P", "ok", probe, "t"+f[1])
		case "tdel":
			found := txn.Delete(w.toK(probe))
			if _, had := w.shT[t][string(probe)]; had != found {
				w.flag("txndelete")
			}
			delete(w.shT[t], string(probe))
			return w.line("P", "found="+b2s(found), probe, "t"+f[1])
		case "tcommit":
			d := atoi(f[1])
			if existsM(d) {
				return w.line("P", "dup", nil, "")
			}
			return w.putM(d, txn.Commit(), cp(w.shT[t]), nil)
		case "tall":
			return w.iterRes(take2(w, txn.All(), atoi(f[2])), w.shT[t], all, atoi(f[2]), nil)
		case "tpre":
			return w.iterRes(take2(w, txn.Prefix(w.toK(probe)), atoi(f[3])), w.shT[t],
				func(k []byte) bool { return bytes.HasPrefix(k, probe) }, atoi(f[3]), probe)
		default: // tlb
			return w.iterRes(take2(w, txn.LowerBound(w.toK(probe)), atoi(f[3])), w.shT[t],
				func(k []byte) bool { return bytes.Compare(k, probe) >= 0 }, atoi(f[3]), probe)
		}
	case "mall":
		s := atoi(f[1])
		return w.iterRes(take2(w, w.maps[s].All(), atoi(f[2])), w.shM[s], all, atoi(f[2]), nil)
	case "mpre":
		s, k := atoi(f[1]), hx.UnHex(f[2])
		return w.iterRes(take2(w, w.maps[s].Prefix(w.toK(k)), atoi(f[3])), w.shM[s],
			func(x []byte) bool { return bytes.HasPrefix(x, k) }, atoi(f[3]), k)
	case "mlb":
		s, k := atoi(f[1]), hx.UnHex(f[2])
		return w.iterRes(take2(w, w.maps[s].LowerBound(w.toK(k)), atoi(f[3])), w.shM[s],
			func(x []byte) bool { return bytes.Compare(x, k) >= 0 }, atoi(f[3]), k)
	case "mjson", "myaml":
		d, s := atoi(f[1]), atoi(f[2])
		if existsM(d) {
			return w.line("P", "dup", nil, "")
		}
		src := w.maps[s]
		var dst part.Map[K, int]
		var err error
		var bs []byte
		if f[0] == "mjson" {
			if bs, err = json.Marshal(src); err == nil {
				err = json.Unmarshal(bs, &dst)
			}
		} else {
			if bs, err = yaml.Marshal(src); err == nil {
				err = yaml.Unmarshal(bs, &dst)
			}
		}
		if err != nil {
			w.flag("roundtrip")
			return w.line("P", "err", nil, "")
		}
		w.roundtripM(src, dst)
		return w.putM(d, dst, cp(w.shM[s]), nil)
	case "mdecj", "mdecy":
		d, ps := atoi(f[1]), parsePairs(f[2:])
		probe := firstKey(f[2:])
		if existsM(d) {
			return w.line("P", "dup", probe, "")
		}
		var dst part.Map[K, int]
		var err error
		var bs []byte
		if f[0] == "mdecj" {
			if bs, err = json.Marshal(w.wpairs(ps)); err == nil {
				err = json.Unmarshal(bs, &dst)
			}
		} else {
			if bs, err = yaml.Marshal(w.wpairs(ps)); err == nil {
				err = yaml.Unmarshal(bs, &dst)
			}
		}
		if err != nil {
			w.flag("decode")
			return w.line("P", "err", probe, "")
		}
		return w.putM(d, dst, seqAssign(ps), probe)
	case "snew":
		d, ps := atoi(f[1]), parsePairs(f[2:])
		probe := firstKey(f[2:])
		if existsS(d) {
			return w.line("P", "dup", probe, "")
		}
		return w.putS(d, part.NewSet(w.elems(ps)...), seqAssign(ps), probe)
	case "sset":
		d, s, k, v := atoi(f[1]), atoi(f[2]), hx.UnHex(f[3]), atoi(f[4])
		if existsS(d) {
			return w.line("P", "dup", k, "")
		}
		sh := cp(w.shS[s])
		sh[string(k)] = v
		return w.putS(d, w.sets[s].Set(elem[K]{w.toK(k), v}), sh, k)
	case "sdel":
		d, s, k := atoi(f[1]), atoi(f[2]), hx.UnHex(f[3])
		if existsS(d) {
			return w.line("P", "dup", k, "")
		}
		sh := cp(w.shS[s])
		delete(sh, string(k))
		return w.putS(d, w.sets[s].Delete(elem[K]{K: w.toK(k)}), sh, k)
	case "sunion", "sdiff":
		d, a, b := atoi(f[1]), atoi(f[2]), atoi(f[3])
		if existsS(d) {
			return w.line("P", "dup", nil, "")
		}
		sh := cp(w.shS[a])
		if f[0] == "sunion" {
			for k, v := range w.shS[b] {
				sh[k] = v
			}
			return w.putS(d, w.sets[a].Union(w.sets[b]), sh, nil)
		}
		for k := range w.shS[b] {
			delete(sh, k)
		}
		return w.putS(d, w.sets[a].Difference(w.sets[b]), sh, nil)
	case "sjson", "syaml":
		d, s := atoi(f[1]), atoi(f[2])
		if existsS(d) {
			return w.line("P", "dup", nil, "")
		}
		src := w.sets[s]
		var dst part.Set[elem[K]]
		var err error
		var bs []byte
		if f[0] == "sjson" {
			if bs, err = json.Marshal(src); err == nil {
				err = json.Unmarshal(bs, &dst)
			}
		} else {
			if bs, err = yaml.Marshal(src); err == nil {
				err = yaml.Unmarshal(bs, &dst)
			}
		}
		if err != nil {
			w.flag("roundtrip")
			return w.line("P", "err", nil, "")
		}
		w.roundtripS(src, dst)
		return w.putS(d, dst, cp(w.shS[s]), nil)
	case "sdecj", "sdecy":
		d, ps := atoi(f[1]), parsePairs(f[2:])
		probe := firstKey(f[2:])
		if existsS(d) {
			return w.line("P", "dup", probe, "")
		}
		var dst part.Set[elem[K]]
		var err error
		var bs []byte
		if f[0] == "sdecj" {
			if bs, err = json.Marshal(w.elems(ps)); err == nil {
				err = json.Unmarshal(bs, &dst)
			}
		} else {
			if bs, err = yaml.Marshal(w.elems(ps)); err == nil {
				err = yaml.Unmarshal(bs, &dst)
			}
		}
		if err != nil {
			w.flag("decode")
			return w.line("P", "err", probe, "")
		}
		return w.putS(d, dst, seqAssign(ps), probe)
	case "sall":
		s := atoi(f[1])
		return w.iterRes(take1(w, w.sets[s].All(), atoi(f[2])), w.shS[s], all, atoi(f[2]), nil)
	case "stbf":
		// mechanism-level: whether ToBytesFunc() is set (nil for a never-touched zero Set)
		fn := w.sets[atoi(f[1])].ToBytesFunc()
		if fn != nil {
			probe := []byte("a")
			if w.valid != nil && !w.valid(probe) {
				probe = []byte("abcd")
			}
			e := elem[K]{K: w.toK(probe), T: 7}
			if !bytes.Equal(fn(e), probe) {
				w.flag("tobytes")
			}
		}
		return w.line("M", "tbf="+b2s(fn != nil), nil, "")
	case "vrt":
		ps, probe := parsePairs(f[3:]), firstKey(f[3:])
		switch f[2] {
		case "s":
			return vrt(w, f[1], ps, deriveSlice, probe)
		case "o":
			return vrt(w, f[1], ps, deriveStruct, probe)
		default:
			return vrt(w, f[1], ps, deriveNested, probe)
		}
	case "eqall":
		var sb strings.Builder
		sb.WriteString("eq")
		mi, si := ids(w.maps), ids(w.sets)
		for _, i := range mi {
			for _, j := range mi {
				ek, se := w.maps[i].EqualKeys(w.maps[j]), w.maps[i].SlowEqual(w.maps[j])
				fmt.Fprintf(&sb, " m%d~m%d:%s%s", i, j, b2s(ek), b2s(se))
				if ek != sameKeys(w.shM[i], w.shM[j]) {
					w.flag("equalkeys")
				}
				if se != sameMap(w.shM[i], w.shM[j]) {
					w.flag("slowequal")
				}
			}
		}
		for _, i := range si {
			for _, j := range si {
				e := w.sets[i].Equal(w.sets[j])
				fmt.Fprintf(&sb, " s%d~s%d:%s", i, j, b2s(e))
				if e != sameKeys(w.shS[i], w.shS[j]) {
					w.flag("setequal")
				}
			}
		}
		return w.line("P", sb.String(), nil, "")
	}
	return "E unknown op: " + strings.Join(f, " ")
}

type eng struct{ w runner }

func (e *eng) Case(id string) {
	if strings.HasPrefix(id, "i") {
		// part.Map[int32,int] through the built-in key type registration (4-byte keys only)
		e.w = newWorld[int32](func(b []byte) int32 {
			if len(b) != 4 {
				panic("int32 key must have 4 bytes")
			}
			return int32(uint32(b[0])<<24 | uint32(b[1])<<16 | uint32(b[2])<<8 | uint32(b[3]))
		}, be32)
		e.w.(*world[int32]).valid = func(b []byte) bool { return len(b) == 4 }
	} else if strings.HasPrefix(id, "s") {
		e.w = newWorld[string](func(b []byte) string { return string(b) }, func(s string) []byte { return []byte(s) })
	} else {
		e.w = newWorld[hexKey](func(b []byte) hexKey { return hexKey(hex.EncodeToString(b)) }, unhexKey)
	}
}

func (e *eng) Op(f []string, line string, out *hx.Out) {
	if e.w == nil {
		e.Case("")
	}
	out.P("%s", e.w.op(f))
}

func main() { hx.Main(&eng{}) }
