// lpm engine (C13): lpm.Trie / lpm.Txn / lpm.Iterator against the extracted Coq model
// (Lpm/Model.v) and against a plain map-of-prefixes reference (the !BAD oracles).
//
// Objects of a case: committed tries t<i> (t0 = lpm.New()), transactions x<i>,
// iterators i<i>. Keys are hex of the undecoded index.Key (data ++ be16(prefixLen)).
//
//	txn x t | reuse x t | clear x | commit x t      transaction life cycle
//	ins x key val | del x key                       mutations of a live transaction
//	get|getx tgt key | len tgt                      Lookup, LookupExact, Len on t<i> or x<i>
//	all tgt it | pfx tgt key it | lb tgt key it     All / Prefix / LowerBound -> iterator i<it>, drained with All
//	it i | next i                                   Iterator.All again / one Iterator.Next
//	snap                                            All() of every committed trie and every iterator
//	dump tgt                                        node structure incl. imaginary flags and txnIDs (reflection) + invariant oracle
package main

import (
	"fmt"
	"reflect"
	"sort"
	"strconv"
	"strings"

	"github.com/cilium/statedb/index"
	"github.com/cilium/statedb/lpm"

	"verif/harness/hx"
)

const maxLen = 32

// ---------------------------------------------------------------- reference: a map of prefixes

type pfx struct {
	addr uint32 // bits beyond plen are zero
	plen int
}

func mask(addr uint32, plen int) uint32 {
	if plen == 0 {
		return 0
	}
	return addr &^ (uint32(0xffffffff) >> uint(plen))
}
func mk(addr uint32, plen int) pfx { return pfx{mask(addr, plen), plen} }
func (p pfx) key() []byte {
	return lpm.EncodeLPMKey([]byte{byte(p.addr >> 24), byte(p.addr >> 16), byte(p.addr >> 8), byte(p.addr)}, lpm.PrefixLen(p.plen))
}
func unkey(k []byte) pfx {
	d, pl := lpm.DecodeLPMKey(k)
	var a uint32
	for i := 0; i < 4; i++ {
		a <<= 8
		if i < len(d) {
			a |= uint32(d[i])
		}
	}
	return pfx{a, int(pl)}
}

// covers: q's bits are a prefix of p's bits
func covers(q, p pfx) bool { return q.plen <= p.plen && mask(p.addr, q.plen) == q.addr }

// less: ascending (bits padded with zeros, length)
func less(a, b pfx) bool {
	if a.addr != b.addr {
		return a.addr < b.addr
	}
	return a.plen < b.plen
}

type ref map[pfx]uint64

func (r ref) clone() ref {
	c := ref{}
	for k, v := range r {
		c[k] = v
	}
	return c
}

type entry struct {
	p pfx
	v uint64
}

func (r ref) sorted(keep func(pfx) bool) []entry {
	var out []entry
	for k, v := range r {
		if keep == nil || keep(k) {
			out = append(out, entry{k, v})
		}
	}
	sort.Slice(out, func(i, j int) bool { return less(out[i].p, out[j].p) })
	return out
}
func (r ref) longest(q pfx) (uint64, bool) {
	best, bv, ok := -1, uint64(0), false
	for k, v := range r {
		if covers(k, q) && k.plen > best {
			best, bv, ok = k.plen, v, true
		}
	}
	return bv, ok
}

func strEntries(es []entry) string {
	if len(es) == 0 {
		return "-"
	}
	s := make([]string, len(es))
	for i, e := range es {
		s[i] = fmt.Sprintf("%s=%d", hx.Hex(e.p.key()), e.v)
	}
	return strings.Join(s, " ")
}
func sameEntries(a, b []entry) bool {
	if len(a) != len(b) {
		return false
	}
	for i := range a {
		if a[i] != b[i] {
			return false
		}
	}
	return true
}

// ---------------------------------------------------------------- engine state

type trieS struct {
	t   lpm.Trie[uint64]
	ref ref
}
type txnS struct {
	x         *lpm.Txn[uint64]
	ref       ref
	committed bool
}
type iterS struct {
	it     *lpm.Iterator[uint64]
	expect []entry // what remains to be yielded, by the reference at creation time
}
type eng struct {
	tries map[int]*trieS
	txns  map[int]*txnS
	iters map[int]*iterS
}

func (e *eng) Case(string) {
	e.tries = map[int]*trieS{0: {lpm.New[uint64](), ref{}}}
	e.txns = map[int]*txnS{}
	e.iters = map[int]*iterS{}
}

func num(s string) int { n, _ := strconv.Atoi(s[1:]); return n }

func drain(it *lpm.Iterator[uint64]) []entry {
	var out []entry
	it.All(func(k []byte, v uint64) bool {
		out = append(out, entry{unkey(k), v})
		return true
	})
	return out
}

// dumpNode prints the node structure through reflection (read-only, unexported fields) and
// evaluates the trie invariant on it: imaginary nodes have two children, a child's prefix
// extends its parent's prefix by the branching bit. Returns the number of real nodes.
func dumpNode(v reflect.Value, w *strings.Builder, parent *pfx, idx int, bad *string) int {
	if v.IsNil() {
		w.WriteString(".")
		return 0
	}
	n := v.Elem()
	img := ""
	count := 1
	key := n.FieldByName("key").Bytes()
	ch := n.FieldByName("children")
	me := unkey(key)
	if n.FieldByName("imaginary").Bool() {
		img = "*"
		count = 0
		if (ch.Index(0).IsNil() || ch.Index(1).IsNil()) && *bad == "" {
			*bad = " !BAD:C13:invariant(imaginary-children)"
		}
	}
	if parent != nil && *bad == "" {
		if !(me.plen > parent.plen && covers(*parent, me) && int(me.addr>>uint(31-parent.plen))&1 == idx) {
			*bad = " !BAD:C13:invariant(child-extends-parent)"
		}
	}
	fmt.Fprintf(w, "(%s%s=%d@%d ", hx.Hex(key), img, n.FieldByName("value").Uint(), n.FieldByName("txnID").Uint())
	count += dumpNode(ch.Index(0), w, &me, 0, bad)
	w.WriteString(" ")
	count += dumpNode(ch.Index(1), w, &me, 1, bad)
	w.WriteString(")")
	return count
}

func dumpRoot(id uint64, root reflect.Value, size int) string {
	var w strings.Builder
	bad := ""
	fmt.Fprintf(&w, "id=%d ", id)
	if c := dumpNode(root, &w, nil, 0, &bad); c != size && bad == "" {
		bad = " !BAD:C13:invariant(size)"
	}
	return w.String() + bad
}

type target struct {
	lookup, lookupExact func(index.Key) (uint64, bool)
	length              func() int
	all                 func() *lpm.Iterator[uint64]
	prefix, lowerBound  func(index.Key) *lpm.Iterator[uint64]
	ref                 ref
	dump                func() string
}

func (e *eng) target(s string) (*target, string) {
	if s[0] == 't' {
		t, ok := e.tries[num(s)]
		if !ok {
			return nil, "noobj"
		}
		return &target{t.t.Lookup, t.t.LookupExact, t.t.Len, t.t.All, t.t.Prefix, t.t.LowerBound, t.ref, func() string {
			v := reflect.ValueOf(t.t)
			return dumpRoot(v.FieldByName("prevTxnID").Uint(), v.FieldByName("root"), t.t.Len())
		}}, ""
	}
	x, ok := e.txns[num(s)]
	if !ok {
		return nil, "noobj"
	}
	if x.committed {
		return nil, "committed"
	}
	return &target{x.x.Lookup, x.x.LookupExact, x.x.Len, x.x.All, x.x.Prefix, x.x.LowerBound, x.ref, func() string {
		v := reflect.ValueOf(x.x).Elem()
		return dumpRoot(v.FieldByName("txnID").Uint(), v.FieldByName("root"), x.x.Len())
	}}, ""
}

func b2s(b bool) string {
	if b {
		return "1"
	}
	return "0"
}

// ascending reports whether es is strictly ascending in (padded bits, length) order
func ascending(es []entry) bool {
	for i := 1; i < len(es); i++ {
		if !less(es[i-1].p, es[i].p) {
			return false
		}
	}
	return true
}

func (e *eng) newIter(f []string, itName string, it *lpm.Iterator[uint64], expect []entry, clause string, out *hx.Out) {
	got := drain(it)
	e.iters[num(itName)] = &iterS{it, expect}
	bad := ""
	if !ascending(got) {
		bad = " !BAD:C13:order"
	} else if !sameEntries(got, expect) {
		bad = " !BAD:C13:" + clause
	}
	out.P("P:C13 %s%s", strEntries(got), bad)
}

func (e *eng) Op(f []string, line string, out *hx.Out) {
	switch f[0] {
	case "txn":
		t, ok := e.tries[num(f[2])]
		if !ok {
			out.P("P:C13 noobj")
			return
		}
		e.txns[num(f[1])] = &txnS{t.t.Txn(), t.ref.clone(), false}
		out.P("P:C13 ok")
	case "reuse":
		t, ok := e.tries[num(f[2])]
		x, ok2 := e.txns[num(f[1])]
		if !ok || !ok2 {
			out.P("P:C13 noobj")
			return
		}
		x.x = x.x.Reuse(t.t)
		x.ref, x.committed = t.ref.clone(), false
		out.P("P:C13 ok")
	case "clear":
		x, ok := e.txns[num(f[1])]
		if !ok {
			out.P("P:C13 noobj")
			return
		}
		x.x.Clear()
		x.ref, x.committed = ref{}, false
		out.P("P:C13 ok")
	case "commit":
		x, ok := e.txns[num(f[1])]
		if !ok {
			out.P("P:C13 noobj")
			return
		}
		if x.committed {
			out.P("P:C13 committed")
			return
		}
		e.tries[num(f[2])] = &trieS{x.x.Commit(), x.ref.clone()}
		x.committed = true
		out.P("P:C13 ok")
	case "ins", "del":
		x, ok := e.txns[num(f[1])]
		if !ok {
			out.P("P:C13 noobj")
			return
		}
		if x.committed {
			out.P("P:C13 committed")
			return
		}
		k := hx.UnHex(f[2])
		p := unkey(k)
		bad := ""
		if f[0] == "ins" {
			v, _ := strconv.ParseUint(f[3], 10, 64)
			err := x.x.Insert(k, v)
			x.ref[p] = v
			if err != nil {
				bad = " !BAD:C13:insert-err"
			} else if x.x.Len() != len(x.ref) {
				bad = " !BAD:C13:len"
			}
			out.P("P:C13 ok len=%d%s", x.x.Len(), bad)
		} else {
			v, found := x.x.Delete(k)
			rv, rfound := x.ref[p]
			delete(x.ref, p)
			if found != rfound || v != rv {
				bad = " !BAD:C13:delete"
			} else if x.x.Len() != len(x.ref) {
				bad = " !BAD:C13:len"
			}
			out.P("P:C13 %s %d len=%d%s", b2s(found), v, x.x.Len(), bad)
		}
	case "get", "getx", "len", "all", "pfx", "lb", "dump":
		t, msg := e.target(f[1])
		if t == nil {
			out.P("P:C13 %s", msg)
			return
		}
		switch f[0] {
		case "get":
			k := hx.UnHex(f[2])
			q := unkey(k)
			v, found := t.lookup(k)
			_, stored := t.ref[q]
			if q.plen == maxLen || stored {
				// specified: value of the longest stored prefix covering q
				rv, rfound := t.ref.longest(q)
				bad := ""
				if found != rfound || v != rv {
					bad = " !BAD:C13:lookup"
				}
				out.P("P:C13 %s %d%s", b2s(found), v, bad)
			} else {
				// neither full-length nor stored: the result is a mechanism-level observable
				out.P("M:C13 %s %d", b2s(found), v)
			}
		case "getx":
			k := hx.UnHex(f[2])
			v, found := t.lookupExact(k)
			rv, rfound := t.ref[unkey(k)]
			bad := ""
			if found != rfound || v != rv {
				bad = " !BAD:C13:lookupexact"
			}
			out.P("P:C13 %s %d%s", b2s(found), v, bad)
		case "len":
			bad := ""
			if t.length() != len(t.ref) {
				bad = " !BAD:C13:len"
			}
			out.P("P:C13 len=%d%s", t.length(), bad)
		case "all":
			e.newIter(f, f[2], t.all(), t.ref.sorted(nil), "all", out)
		case "pfx":
			k := hx.UnHex(f[2])
			q := unkey(k)
			e.newIter(f, f[3], t.prefix(k), t.ref.sorted(func(p pfx) bool { return covers(q, p) }), "prefix", out)
		case "lb":
			k := hx.UnHex(f[2])
			q := unkey(k)
			e.newIter(f, f[3], t.lowerBound(k), t.ref.sorted(func(p pfx) bool { return !less(p, q) }), "lowerbound", out)
		case "dump":
			out.P("M:C13 %s", t.dump())
		}
	case "it":
		it, ok := e.iters[num(f[1])]
		if !ok {
			out.P("P:C13 noobj")
			return
		}
		got := drain(it.it)
		bad := ""
		if !sameEntries(got, it.expect) {
			bad = " !BAD:C13:persist-iter"
		}
		out.P("P:C13 %s%s", strEntries(got), bad)
	case "next":
		it, ok := e.iters[num(f[1])]
		if !ok {
			out.P("P:C13 noobj")
			return
		}
		k, v, found := it.it.Next()
		bad := ""
		if !found {
			if len(it.expect) != 0 {
				bad = " !BAD:C13:persist-iter"
			}
			out.P("P:C13 end%s", bad)
			return
		}
		if len(it.expect) == 0 || it.expect[0] != (entry{unkey(k), v}) {
			bad = " !BAD:C13:persist-iter"
		}
		if len(it.expect) > 0 {
			it.expect = it.expect[1:]
		}
		out.P("P:C13 %s=%d%s", hx.Hex(k), v, bad)
	case "snap":
		var parts []string
		bad := ""
		var ids []int
		for i := range e.tries {
			ids = append(ids, i)
		}
		sort.Ints(ids)
		for _, i := range ids {
			t := e.tries[i]
			got := drain(t.t.All())
			if (!sameEntries(got, t.ref.sorted(nil)) || t.t.Len() != len(t.ref)) && bad == "" {
				bad = fmt.Sprintf(" !BAD:C13:persist-trie(t%d)", i)
			}
			parts = append(parts, fmt.Sprintf("t%d=%d[%s]", i, t.t.Len(), strEntries(got)))
		}
		ids = ids[:0]
		for i := range e.iters {
			ids = append(ids, i)
		}
		sort.Ints(ids)
		for _, i := range ids {
			it := e.iters[i]
			got := drain(it.it)
			if !sameEntries(got, it.expect) && bad == "" {
				bad = fmt.Sprintf(" !BAD:C13:persist-iter(i%d)", i)
			}
			parts = append(parts, fmt.Sprintf("i%d[%s]", i, strEntries(got)))
		}
		out.P("P:C13 %s%s", strings.Join(parts, " "), bad)
	default:
		out.P("E unknown op: %s", line)
	}
}

// ---------------------------------------------------------------- generator

var lens = []int{0, 1, 2, 3, 4, 7, 8, 9, 12, 15, 16, 17, 24, 31, 32}
var bitPos = []int{0, 1, 2, 3, 6, 7, 8, 9, 11, 14, 15, 16, 17, 23, 24, 30, 31}

type gtxn struct {
	ref       ref
	committed bool
	dead      bool
}

func (*eng) Gen(r *hx.Rand, n int, tier string, prop string, out *hx.Out) {
	// fixed witnesses first: D2 (Prefix with a diverging query) and byte-boundary forks
	out.P("#case fixed-prefix-diverge")
	out.P("txn x0 t0")
	out.P("ins x0 %s 1", hx.Hex(mk(0x0a000000, 8).key()))
	out.P("pfx x0 %s i0", hx.Hex(mk(0x0b000000, 8).key()))
	out.P("commit x0 t1")
	out.P("pfx t1 %s i1", hx.Hex(mk(0x0b000000, 8).key()))
	out.P("pfx t1 %s i2", hx.Hex(mk(0x0a000000, 7).key()))
	out.P("pfx t1 %s i3", hx.Hex(mk(0x0a800000, 9).key()))
	out.P("snap")
	// the deepest trie 32-bit keys allow: the prefixes 0^i 1 (i = 0..31). LowerBound(0.0.0.0/32) leaves 32 larger
	// siblings pending; the iterator is read several times (its start stack must survive a pass), also while the
	// transaction that handed it out goes on writing
	out.P("#case fixed-deep-lowerbound")
	out.P("txn x0 t0")
	for i := 0; i < 32; i++ {
		out.P("ins x0 %s %d", hx.Hex(mk(uint32(1)<<uint(31-i), i+1).key()), i+1)
	}
	out.P("lb x0 %s i0", hx.Hex(mk(0, 32).key()))
	out.P("it i0")
	out.P("it i0")
	out.P("ins x0 %s 99", hx.Hex(mk(0x00000003, 32).key()))
	out.P("it i0")
	out.P("commit x0 t1")
	out.P("lb t1 %s i1", hx.Hex(mk(0, 32).key()))
	out.P("it i1")
	out.P("next i1")
	out.P("it i1")
	out.P("it i1")
	out.P("lb t1 %s i2", hx.Hex(mk(0x00000001, 32).key()))
	out.P("it i2")
	out.P("it i2")
	out.P("snap")
	for c := 0; c < n; c++ {
		out.P("#case g%d", c)
		genCase(r.Fork(), tier, out)
	}
}

func genCase(r *hx.Rand, tier string, out *hx.Out) {
	// dense universe: a base address with a few variable bit positions
	base := uint32(0)
	if r.Chance(50) {
		base = uint32(r.U64())
	}
	nvar := 3 + r.Intn(4)
	var vars []int
	for len(vars) < nvar {
		vars = append(vars, hx.Pick(r, bitPos))
	}
	addr := func() uint32 {
		a := base
		for _, b := range vars {
			if r.Chance(50) {
				a ^= 1 << uint(31-b)
			}
		}
		return a
	}
	var pool []pfx
	np := 6 + r.Intn(12)
	for i := 0; i < np; i++ {
		pool = append(pool, mk(addr(), hx.Pick(r, lens)))
	}
	tries := map[int]ref{0: {}}
	ntries := 1
	txns := map[int]*gtxn{}
	nit := 0
	val := 0
	var live func() []int
	live = func() []int {
		var l []int
		for i := 0; i < 8; i++ {
			if x, ok := txns[i]; ok && !x.committed && !x.dead {
				l = append(l, i)
			}
		}
		return l
	}
	stored := func(rf ref) (pfx, bool) {
		es := rf.sorted(nil)
		if len(es) == 0 {
			return pfx{}, false
		}
		return es[r.Intn(len(es))].p, true
	}
	// query keys: stored / ancestor / descendant / diverging at a bit / pool / random
	query := func(rf ref, full bool) pfx {
		p, ok := stored(rf)
		if !ok || r.Chance(15) {
			p = hx.Pick(r, pool)
		}
		q := p
		switch r.Intn(6) {
		case 0: // stored (or pool) itself
		case 1: // ancestor
			if p.plen > 0 {
				q = mk(p.addr, r.Intn(p.plen))
			}
		case 2: // descendant with extra bits
			l := p.plen + r.Intn(maxLen-p.plen+1)
			src := addr()
			if r.Chance(40) {
				src = uint32(r.U64())
			}
			q = mk(p.addr|(src&(uint32(0xffffffff)>>uint(p.plen))), l)
		case 3, 4: // diverge at one bit position (inside or at the end of p)
			if p.plen > 0 {
				b := r.Intn(p.plen)
				l := hx.Pick(r, []int{b + 1, p.plen, p.plen, hx.Pick(r, lens)})
				if l <= b {
					l = b + 1
				}
				q = mk(p.addr^(1<<uint(31-b)), l)
			}
		default:
			q = mk(addr(), hx.Pick(r, lens))
		}
		if full {
			src := addr()
			if r.Chance(30) {
				src = 0
			}
			q = mk(q.addr|(src&(uint32(0xffffffff)>>uint(q.plen))), maxLen)
		}
		return q
	}
	steps := 25 + r.Intn(40)
	if tier == "thorough" && r.Chance(10) {
		steps = 150
	}
	for s := 0; s < steps; s++ {
		lv := live()
		if len(lv) == 0 || (len(lv) < 3 && r.Chance(8)) {
			// start (or reuse) a transaction from any committed trie
			t := r.Intn(ntries)
			var reusable []int
			for i, x := range txns {
				if x.committed && !x.dead {
					reusable = append(reusable, i)
				}
			}
			sort.Ints(reusable)
			if len(reusable) > 0 && r.Chance(60) {
				x := hx.Pick(r, reusable)
				if r.Chance(50) {
					out.P("clear x%d", x)
				}
				out.P("reuse x%d t%d", x, t)
				txns[x] = &gtxn{ref: tries[t].clone()}
			} else {
				x := len(txns)
				out.P("txn x%d t%d", x, t)
				txns[x] = &gtxn{ref: tries[t].clone()}
			}
			continue
		}
		x := hx.Pick(r, lv)
		gx := txns[x]
		mut := false
		switch c := r.Intn(100); {
		case c < 30: // insert
			p := hx.Pick(r, pool)
			if r.Chance(15) {
				p = query(gx.ref, false)
			}
			val++
			out.P("ins x%d %s %d", x, hx.Hex(p.key()), val)
			gx.ref[p] = uint64(val)
			mut = true
		case c < 48: // delete (mostly stored)
			p, ok := stored(gx.ref)
			if !ok || r.Chance(25) {
				p = query(gx.ref, false)
			}
			out.P("del x%d %s", x, hx.Hex(p.key()))
			delete(gx.ref, p)
			mut = true
		case c < 54: // commit
			out.P("commit x%d t%d", x, ntries)
			tries[ntries] = gx.ref.clone()
			ntries++
			gx.committed = true
			mut = true
		case c < 56: // abandon
			gx.dead = true
		case c < 62: // re-read an earlier iterator
			if nit > 0 {
				if r.Chance(60) {
					out.P("it i%d", r.Intn(nit))
				} else {
					out.P("next i%d", r.Intn(nit))
				}
			}
		default: // queries on the live txn or on any committed trie
			tgt, rf := fmt.Sprintf("x%d", x), gx.ref
			if r.Chance(40) {
				t := r.Intn(ntries)
				tgt, rf = fmt.Sprintf("t%d", t), tries[t]
			}
			switch r.Intn(10) {
			case 0, 1:
				out.P("get %s %s", tgt, hx.Hex(query(rf, true).key()))
			case 2:
				out.P("get %s %s", tgt, hx.Hex(query(rf, false).key()))
			case 3:
				out.P("getx %s %s", tgt, hx.Hex(query(rf, false).key()))
			case 4, 5:
				out.P("pfx %s %s i%d", tgt, hx.Hex(query(rf, false).key()), nit)
				nit++
			case 6, 7:
				out.P("lb %s %s i%d", tgt, hx.Hex(query(rf, r.Chance(10)).key()), nit)
				nit++
			case 8:
				out.P("all %s i%d", tgt, nit)
				nit++
			default:
				out.P("len %s", tgt)
			}
		}
		if mut {
			if r.Chance(40) && !gx.committed {
				out.P("dump x%d", x)
			}
			out.P("snap")
		}
	}
	out.P("snap")
}

func main() { hx.Main(&eng{}) }
