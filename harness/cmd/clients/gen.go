package main

import (
	"fmt"
	"strings"

	"verif/harness/hx"
)

// Generator (pure): histories of harness transactions on the input table (and, rarely, rogue writes to the
// output table) interleaved with legs of the Derive loop and of an observer. Client legs are only issued
// while the harness holds no transaction (the loop's own WriteTxn would block on a table lock, which
// virtual time cannot represent).
type gen struct {
	r        *hx.Rand
	out      *hx.Out
	open     bool
	locked   map[int]bool
	dStarted bool
	oStarted bool
	oDone    bool
	regd     map[string]bool // initializers registered (committed or not) "t/name"
	nextName int
}

var ids = []string{"61", "62", "63", "6161", "-", "00", "6100"}

func (g *gen) p(format string, a ...any) { g.out.P(format, a...) }

func (g *gen) userTxn(rogue bool) {
	tabs := "0"
	g.locked = map[int]bool{0: true}
	switch {
	case rogue:
		tabs = "1"
		g.locked = map[int]bool{1: true}
	case g.r.Chance(15):
		tabs = "0,1"
		g.locked = map[int]bool{0: true, 1: true}
	}
	g.p("begin %s", tabs)
	n := 1 + g.r.Intn(4)
	var pendingReg []string
	for i := 0; i < n; i++ {
		t := 0
		if rogue || (g.locked[1] && g.r.Chance(30)) {
			t = 1
		}
		switch x := g.r.Intn(100); {
		case x < 55:
			g.p("insert %d %s %d", t, hx.Pick(g.r, ids), g.r.Intn(16))
		case x < 85:
			g.p("delete %d %s", t, hx.Pick(g.r, ids))
		case x < 92:
			g.nextName++
			name := fmt.Sprintf("%d/%d", t, g.nextName)
			g.p("reginit %d %d", t, g.nextName)
			pendingReg = append(pendingReg, name)
		default:
			// complete some initializer registered earlier (possibly in this transaction)
			var cands []string
			for k := range g.regd {
				if strings.HasPrefix(k, fmt.Sprintf("%d/", t)) {
					cands = append(cands, k)
				}
			}
			for _, k := range pendingReg {
				if strings.HasPrefix(k, fmt.Sprintf("%d/", t)) {
					cands = append(cands, k)
				}
			}
			if len(cands) > 0 {
				// deterministic choice: smallest name
				best := cands[0]
				for _, c := range cands {
					if c < best {
						best = c
					}
				}
				g.p("initdone %d %s", t, strings.SplitN(best, "/", 2)[1])
			} else {
				g.p("insert %d %s %d", t, hx.Pick(g.r, ids), g.r.Intn(16))
			}
		}
	}
	if g.r.Chance(85) {
		g.p("commit")
		for _, k := range pendingReg {
			g.regd[k] = true
		}
	} else {
		g.p("abort")
	}
}

func (g *gen) clientOps() {
	switch x := g.r.Intn(100); {
	case x < 8 && !g.dStarted:
		g.p("dstart")
		g.dStarted = true
	case x < 12 && g.dStarted:
		g.injected(1 + g.r.Intn(2))
	case x < 45 && g.dStarted:
		k := 1 + g.r.Intn(3)
		for i := 0; i < k; i++ {
			g.p("dgo")
		}
	case x < 50:
		g.p("dstat")
	case x < 56 && !g.oStarted:
		g.p("ostart %d", g.r.Intn(10)/8) // mostly the input table
		g.oStarted = true
	case x < 85 && g.oStarted:
		k := 1 + g.r.Intn(4)
		for i := 0; i < k; i++ {
			g.p("ogo")
		}
	case x < 88:
		g.p("ostat")
	case x < 91 && g.oStarted && !g.oDone:
		g.p("ocancel")
		g.oDone = true
	default:
		g.p("q %d %s", g.r.Intn(2), hx.Pick(g.r, []string{"all", "init", "rev"}))
	}
}

// a leg of the loop with a harness transaction on the input table committing inside its k-th transform call
func (g *gen) injected(k int) {
	var lines []string
	lines = append(lines, "begin 0")
	n := 1 + g.r.Intn(2)
	for i := 0; i < n; i++ {
		switch x := g.r.Intn(100); {
		case x < 50:
			lines = append(lines, fmt.Sprintf("insert 0 %s %d", hx.Pick(g.r, ids), g.r.Intn(16)))
		case x < 70:
			lines = append(lines, fmt.Sprintf("delete 0 %s", hx.Pick(g.r, ids)))
		default:
			best := ""
			for k := range g.regd {
				if strings.HasPrefix(k, "0/") && (best == "" || k < best) {
					best = k
				}
			}
			if best != "" {
				lines = append(lines, "initdone 0 "+strings.SplitN(best, "/", 2)[1])
			} else {
				lines = append(lines, fmt.Sprintf("insert 0 %s %d", hx.Pick(g.r, ids), g.r.Intn(16)))
			}
		}
	}
	lines = append(lines, "commit")
	g.p("dgoinj %d %d", k, len(lines))
	for _, l := range lines {
		g.p("%s", l)
	}
	g.p("dstat")
}

// directed: the input table's last initializer is completed, together with a new object, by a transaction that
// commits while the loop's transaction is open (after its snapshot, before its initialization check)
func (g *gen) directedSkew(id string, mode int) {
	g.p("#case %s", id)
	g.p("mode %d", mode)
	g.p("begin 0")
	g.p("reginit 0 1")
	g.p("insert 0 61 4")
	g.p("commit")
	g.p("dstart")
	g.p("dgo")
	g.p("dgoinj 1 4")
	g.p("begin 0")
	g.p("insert 0 62 8")
	g.p("initdone 0 1")
	g.p("commit")
	g.p("dstat")
	g.p("q 1 init")
	g.p("q 1 all")
	g.p("dgo")
	g.p("q 1 init")
	g.p("q 1 all")
	g.p("dgo")
	g.p("dgo")
	g.p("dstat")
}

// directed: more changes in one round than any plausible batch size, in the round that first sees the input
// initialized
func (g *gen) directedBulk(id string, n int) {
	g.p("#case %s", id)
	g.p("mode 0")
	g.p("begin 0")
	g.p("reginit 0 1")
	g.p("commit")
	g.p("dstart")
	g.p("dgo")
	g.p("dgo")
	g.p("dgo")
	g.p("begin 0")
	for i := 0; i < n; i++ {
		g.p("insert 0 %04x %d", i, i%16)
	}
	g.p("initdone 0 1")
	g.p("commit")
	g.p("dgo")
	g.p("q 1 init")
	g.p("q 1 rev")
	g.p("dgo")
	g.p("dgo")
	g.p("q 1 init")
	g.p("q 1 rev")
	g.p("dstat")
}

func (g *gen) randomCase(id string) {
	g.p("#case %s", id)
	g.p("mode %d", g.r.Intn(2))
	g.regd = map[string]bool{}
	// often: the input table starts with a pending initializer, so that the loop has to wait for it
	if g.r.Chance(50) {
		g.nextName++
		g.p("begin 0")
		g.p("reginit 0 %d", g.nextName)
		if g.r.Chance(50) {
			g.p("insert 0 %s %d", hx.Pick(g.r, ids), g.r.Intn(16))
		}
		g.p("commit")
		g.regd[fmt.Sprintf("0/%d", g.nextName)] = true
	}
	if g.r.Chance(60) {
		g.p("dstart")
		g.dStarted = true
	}
	n := 8 + g.r.Intn(25)
	for i := 0; i < n; i++ {
		switch x := g.r.Intn(100); {
		case x < 38:
			g.userTxn(false)
		case x < 42:
			g.userTxn(true)
		default:
			g.clientOps()
		}
	}
	// drain: let both clients run dry, then look at everything
	if g.dStarted {
		for i := 0; i < 4; i++ {
			g.p("dgo")
		}
	}
	if g.oStarted && !g.oDone {
		for i := 0; i < 6; i++ {
			g.p("ogo")
		}
	}
	g.p("q 0 all")
	g.p("q 1 all")
	g.p("q 0 init")
	g.p("q 1 init")
	g.p("dstat")
	g.p("ostat")
}

// directed: the loop waits for the input table's initialization (woken by the init channel alone)
func (g *gen) directedInit(id string, mode int, contentFirst bool) {
	g.p("#case %s", id)
	g.p("mode %d", mode)
	g.p("begin 0")
	g.p("reginit 0 1")
	g.p("reginit 0 2")
	if contentFirst {
		g.p("insert 0 61 4")
		g.p("insert 0 62 8")
	}
	g.p("commit")
	g.p("dstart")
	g.p("q 1 init")
	g.p("dgo")
	g.p("dgo")
	g.p("dgo")
	g.p("dstat")
	g.p("q 1 init")
	g.p("begin 0")
	g.p("initdone 0 1")
	g.p("insert 0 63 0")
	g.p("commit")
	g.p("dstat")
	g.p("dgo")
	g.p("q 1 init")
	g.p("q 1 all")
	g.p("dgo")
	g.p("dstat")
	g.p("begin 0")
	g.p("initdone 0 2")
	g.p("commit")
	g.p("dstat")
	g.p("dgo")
	g.p("q 1 init")
	g.p("q 1 all")
	g.p("dgo")
	g.p("dgo")
	g.p("dstat")
	g.p("begin 0")
	g.p("delete 0 61")
	g.p("insert 0 6161 12")
	g.p("commit")
	g.p("dgo")
	g.p("dgo")
	g.p("q 1 all")
	g.p("q 1 init")
	g.p("dstat")
}

// directed: observer with changes arriving while it is parked inside the callback, then cancelled
func (g *gen) directedObserve(id string, cancelParked bool) {
	g.p("#case %s", id)
	g.p("mode 0")
	g.p("begin 0")
	g.p("insert 0 61 1")
	g.p("insert 0 62 2")
	g.p("commit")
	g.p("ostart 0")
	g.p("ogo")
	g.p("begin 0")
	g.p("delete 0 61")
	g.p("insert 0 63 3")
	g.p("commit")
	g.p("ogo")
	g.p("ogo")
	g.p("ogo")
	g.p("ostat")
	g.p("ogo")
	g.p("ogo")
	g.p("begin 0")
	g.p("delete 0 62")
	g.p("insert 0 61 5")
	g.p("commit")
	g.p("ostat")
	g.p("ogo")
	if !cancelParked {
		g.p("ogo")
		g.p("ogo")
		g.p("ostat")
	}
	g.p("ocancel")
	g.p("ogo")
	g.p("begin 0")
	g.p("insert 0 62 7")
	g.p("commit")
	g.p("ostat")
	g.p("q 0 all")
}

func (e *eng) Gen(r *hx.Rand, n int, tier string, prop string, out *hx.Out) {
	k := 0
	for _, mode := range []int{0, 1} {
		for _, cf := range []bool{false, true} {
			(&gen{r: r.Fork(), out: out}).directedInit(fmt.Sprintf("%s-dinit-%d", prop, k), mode, cf)
			k++
		}
	}
	(&gen{r: r.Fork(), out: out}).directedSkew(prop+"-dskew-0", 0)
	(&gen{r: r.Fork(), out: out}).directedSkew(prop+"-dskew-1", 1)
	(&gen{r: r.Fork(), out: out}).directedBulk(prop+"-dbulk-0", 300)
	if tier == "thorough" {
		(&gen{r: r.Fork(), out: out}).directedBulk(prop+"-dbulk-1", 1100)
	}
	(&gen{r: r.Fork(), out: out}).directedObserve(prop+"-dobs-0", false)
	(&gen{r: r.Fork(), out: out}).directedObserve(prop+"-dobs-1", true)
	for c := 0; c < n; c++ {
		(&gen{r: r.Fork(), out: out}).randomCase(fmt.Sprintf("%s-%d", prop, c))
	}
}
