// clients engine: the two in-tree clients of change iterators, driven for real:
//
//	statedb.Derive      (derive.go)      through hive + job, exactly as an application wires it
//	statedb.Observable  (observable.go)  through Observe()
//
// One case = one testing/synctest bubble. The harness goroutine performs user transactions on the
// input / output tables; the Derive loop goroutine and the observer goroutine are parked at the verif
// hook `wtxn-before-lock` (their DB handles are named "derive" / "observer") and inside the observer's
// callback, and are released for exactly one leg at a time (`dgo`, `ogo`). After every release
// synctest.Wait() lets the goroutine run to its next park point or into its select, so every case is
// deterministic and the model (Table/Clients.v: the same legs as lists of Table/Model.v operations)
// predicts every output.
//
// ops (t = 0: input table, 1: output table)
//
//	mode <n>                          transform of the case (0 = mirror), first line of a case
//	begin <t,t..> | commit | abort    harness write transaction
//	insert <t> <id> <val> | delete <t> <id>
//	reginit <t> <name> | initdone <t> <name>
//	q <t> all|init|rev                on a fresh read transaction
//	dstart | dgo | dstat              Derive: construct+start the hive / one leg of the loop / runnable?
//	ostart <t> | ogo | ocancel | ostat
package main

import (
	"context"
	"fmt"
	"io"
	"log/slog"
	"sort"
	"strconv"
	"strings"
	"sync/atomic"
	"testing/synctest"
	"time"

	"github.com/cilium/hive"
	"github.com/cilium/hive/cell"
	"github.com/cilium/hive/job"
	"github.com/cilium/statedb"
	"github.com/cilium/statedb/index"

	"verif/harness/hx"
)

type In struct {
	ID  []byte
	Val int
}
type Out struct {
	ID  []byte
	Val int
}

func (o *In) TableHeader() []string  { return []string{"ID", "Val"} }
func (o *In) TableRow() []string     { return []string{hx.Hex(o.ID), strconv.Itoa(o.Val)} }
func (o *Out) TableHeader() []string { return []string{"ID", "Val"} }
func (o *Out) TableRow() []string    { return []string{hx.Hex(o.ID), strconv.Itoa(o.Val)} }

var (
	inIndex = statedb.Index[*In, []byte]{
		Name:       "id",
		FromObject: func(o *In) index.KeySet { return index.NewKeySet(index.String(string(o.ID))) },
		FromKey:    func(k []byte) index.Key { return index.String(string(k)) },
		Unique:     true,
	}
	outIndex = statedb.Index[*Out, []byte]{
		Name:       "id",
		FromObject: func(o *Out) index.KeySet { return index.NewKeySet(index.String(string(o.ID))) },
		FromKey:    func(k []byte) index.Key { return index.String(string(k)) },
		Unique:     true,
	}
)

// a goroutine parked by the harness
type gate struct {
	parked  atomic.Bool
	release chan struct{}
}

func (g *gate) park() {
	g.parked.Store(true)
	<-g.release
}
func (g *gate) let() {
	g.parked.Store(false)
	g.release <- struct{}{}
}

type nopHealth struct{}

func (nopHealth) OK(string)                   {}
func (nopHealth) Stopped(string)              {}
func (nopHealth) Degraded(string, error)      {}
func (nopHealth) NewScope(string) cell.Health { return nopHealth{} }
func (nopHealth) Close()                      {}

type eng struct {
	db    *statedb.DB
	in    statedb.RWTable[*In]
	out   statedb.RWTable[*Out]
	wtxn  statedb.WriteTxn
	inits map[string]func(statedb.WriteTxn)
	mode  int

	hive     *hive.Hive
	log      *slog.Logger
	dGate    *gate
	dStarted bool
	dLegs    int

	oGate      *gate
	oLegs      int
	oTab       int
	oStarted   bool
	oCancel    context.CancelFunc
	oCompleted atomic.Int32
	oHeld      atomic.Value // string: the change whose callback is being held ("" none)
	oAfter     atomic.Bool  // a callback was entered after the context had been cancelled
	oCancelled atomic.Bool
	oReplay    map[string]string
	oLastRev   uint64
	oBad       string

	ending atomic.Bool

	// `dgoinj <k> <n>`: the next n op lines run inside the k-th transform call of the leg (a harness transaction
	// on the input table committing while the loop's transaction is open); their output follows the leg's line
	injLines  []string
	injAt     int
	injecting bool
	trCalls   int
	injOut    []string
	collect   int

	// oracle state
	rogueOut bool // the harness wrote the output table itself
}

var cur atomic.Pointer[eng]

func init() {
	statedb.VerifHook = func(point, who string) {
		e := cur.Load()
		if e == nil || e.ending.Load() || point != "wtxn-before-lock" {
			return
		}
		switch who {
		case "derive":
			if e.dStarted {
				e.dGate.park()
			}
		case "observer":
			e.oGate.park()
		}
	}
}

func (e *eng) Case(id string) {
	*e = eng{}
	e.db = statedb.New()
	var err error
	if e.in, err = statedb.NewTable(e.db, "t0", inIndex); err != nil {
		panic(err)
	}
	if e.out, err = statedb.NewTable(e.db, "t1", outIndex); err != nil {
		panic(err)
	}
	e.inits = map[string]func(statedb.WriteTxn){}
	e.dGate = &gate{release: make(chan struct{})}
	e.oGate = &gate{release: make(chan struct{})}
	e.oHeld.Store("")
	e.oReplay = map[string]string{}
	e.log = slog.New(slog.NewTextHandler(io.Discard, &slog.HandlerOptions{Level: slog.LevelError + 8}))
	cur.Store(e)
	e.db.Start()
}

func (e *eng) CaseEnd() {
	e.ending.Store(true)
	if e.wtxn != nil {
		e.wtxn.Abort()
		e.wtxn = nil
	}
	if e.oCancel != nil {
		e.oCancel()
	}
	// parked goroutines continue (the hook no longer parks once `ending` is set)
	close(e.dGate.release)
	close(e.oGate.release)
	if e.hive != nil {
		e.hive.Stop(e.log, context.Background())
	}
	synctest.Wait()
	e.db.Stop()
	cur.Store(nil)
}

func atoi(s string) int { n, _ := strconv.Atoi(s); return n }

func errS(err error) string {
	switch {
	case err == nil:
		return "ok"
	case strings.Contains(err.Error(), statedb.ErrTableNotLockedForWriting.Error()):
		return "notlocked"
	case strings.Contains(err.Error(), statedb.ErrTransactionClosed.Error()):
		return "closed"
	}
	return "other:" + hx.PanicClass(err.Error())
}

func objS(id []byte, val int, rev uint64) string { return fmt.Sprintf("%s/%d@%d", hx.Hex(id), val, rev) }

// transform: see tr_std in Table/Clients.v
func (e *eng) transform(o *In, deleted bool) (*Out, statedb.DeriveResult) {
	e.trCalls++
	if e.injAt > 0 && e.trCalls == e.injAt && !e.ending.Load() {
		e.runInjected()
	}
	p := &Out{ID: o.ID, Val: o.Val}
	if e.mode == 0 {
		if deleted {
			return p, statedb.DeriveDelete
		}
		return p, statedb.DeriveInsert
	}
	if deleted {
		switch (o.Val / 4) % 4 {
		case 0:
			return p, statedb.DeriveDelete
		case 1:
			return p, statedb.DeriveUpdate
		case 2:
			return p, statedb.DeriveSkip
		}
		return p, statedb.DeriveInsert
	}
	switch o.Val % 4 {
	case 0:
		return p, statedb.DeriveInsert
	case 1:
		return p, statedb.DeriveUpdate
	case 2:
		return p, statedb.DeriveDelete
	}
	return p, statedb.DeriveSkip
}

func (e *eng) contents(txn statedb.ReadTxn, t int, withRev bool) string {
	var parts []string
	if t == 0 {
		for o, rev := range e.in.All(txn) {
			if !withRev {
				rev = 0
			}
			parts = append(parts, objS(o.ID, o.Val, rev))
		}
	} else {
		for o, rev := range e.out.All(txn) {
			if !withRev {
				rev = 0
			}
			parts = append(parts, objS(o.ID, o.Val, rev))
		}
	}
	return "[" + strings.Join(parts, " ") + "]"
}

func (e *eng) tab(t int) statedb.TableMeta {
	if t == 0 {
		return e.in
	}
	return e.out
}

func (e *eng) initialized(txn statedb.ReadTxn, t int) (bool, []string, <-chan struct{}) {
	var ok bool
	var ch <-chan struct{}
	var pend []string
	if t == 0 {
		ok, ch = e.in.Initialized(txn)
		pend = e.in.PendingInitializers(txn)
	} else {
		ok, ch = e.out.Initialized(txn)
		pend = e.out.PendingInitializers(txn)
	}
	return ok, pend, ch
}

// oracles evaluated whenever the Derive loop has just run a leg or is asked for its state
func (e *eng) deriveOracles(ready bool) string {
	bad := ""
	rtxn := e.db.ReadTxn()
	if e.dStarted && !ready && e.dLegs > 0 && e.mode == 0 && !e.rogueOut && e.wtxn == nil {
		// C07 through its client: a loop that waits for the next change has transformed every committed one
		if a, b := e.contents(rtxn, 0, false), e.contents(rtxn, 1, false); a != b {
			bad += " !BAD:C07:derive-waits-but-output-differs-from-input"
		}
	}
	return bad
}

// C19 (through its client): a leg of the Derive loop that makes the derived table initialized started from a
// root in which the input table was initialized, and has transformed everything the input table held in that
// root (legState is taken just before the leg is released; a transaction injected into the leg commits after
// the leg has taken its snapshot)
type legState struct {
	outInit, inInit bool
	inContents      string
}

func (e *eng) beforeLeg() legState {
	rtxn := e.db.ReadTxn()
	o, _, _ := e.initialized(rtxn, 1)
	i, _, _ := e.initialized(rtxn, 0)
	return legState{o, i, e.contents(rtxn, 0, false)}
}

func (e *eng) flipOracle(before legState) string {
	rtxn := e.db.ReadTxn()
	outAfter, _, _ := e.initialized(rtxn, 1)
	if before.outInit || !outAfter {
		return ""
	}
	bad := ""
	if !before.inInit {
		bad += " !BAD:C19:derived-table-initialized-before-its-input"
	}
	if e.mode == 0 && !e.rogueOut && before.inContents != e.contents(rtxn, 1, false) {
		bad += " !BAD:C19:derived-table-initialized-before-input-was-transformed"
	}
	return bad
}

// runInjected executes the deferred op lines (on whichever goroutine calls it), buffering their output
func (e *eng) runInjected() {
	lines := e.injLines
	e.injLines, e.injAt = nil, 0
	e.injecting = true
	buf := &lineBuf{}
	for _, l := range lines {
		// only plain transaction ops may run inside a leg (a shrunk case can shift other lines into the block)
		switch f := strings.Fields(l); f[0] {
		case "begin", "insert", "delete", "reginit", "initdone", "commit", "abort":
			e.op(f, l, buf)
		default:
			buf.P("M:C07,C19 n/a")
		}
	}
	e.injecting = false
	e.injOut = append(e.injOut, buf.lines...)
}

type printer interface{ P(format string, a ...any) }
type lineBuf struct{ lines []string }

func (b *lineBuf) P(format string, a ...any) { b.lines = append(b.lines, fmt.Sprintf(format, a...)) }

func (e *eng) wait() {
	if !e.injecting {
		synctest.Wait()
	}
}

func (e *eng) Op(f []string, line string, out *hx.Out) {
	if e.collect > 0 {
		// an op line belonging to a preceding dgoinj: run when the leg reaches its transform call
		e.collect--
		e.injLines = append(e.injLines, line)
		if e.collect == 0 {
			e.dgoInjected(out)
		}
		return
	}
	e.op(f, line, out)
}

// dgoInjected: the leg of `dgoinj`, once its op lines have been collected
func (e *eng) dgoInjected(out printer) {
	n := len(e.injLines)
	if !e.dStarted || e.wtxn != nil {
		out.P("P:C07,C19 ran=false")
		e.runInjected()
	} else {
		synctest.Wait()
		if !e.dGate.parked.Load() {
			out.P("P:C07,C19 ran=false")
			e.runInjected()
		} else {
			outBefore := e.beforeLeg()
			e.trCalls = 0
			e.dGate.let()
			synctest.Wait()
			e.dLegs++
			if e.injLines != nil {
				// the leg had fewer transform calls: the transaction runs after it
				e.runInjected()
				synctest.Wait()
			}
			out.P("P:C07,C19 ran=true%s", e.flipOracle(outBefore))
		}
	}
	for _, l := range e.injOut {
		out.P("%s", l)
	}
	for i := len(e.injOut); i < n; i++ {
		out.P("E missing injected output")
	}
	e.injOut = nil
}

func (e *eng) op(f []string, line string, out printer) {
	switch f[0] {
	case "dgoinj":
		e.injAt, e.collect = atoi(f[1]), atoi(f[2])
		e.injLines = nil
		if e.collect == 0 {
			e.injLines = []string{}
			e.dgoInjected(out)
		}
	case "mode":
		e.mode = atoi(f[1])
		out.P("M:C07,C19 ok")
	case "begin":
		if e.wtxn != nil {
			out.P("M:C07,C19 n/a")
			return
		}
		var tabs []statedb.TableMeta
		if f[1] != "-" {
			for _, s := range strings.Split(f[1], ",") {
				tabs = append(tabs, e.tab(atoi(s)))
			}
		}
		if len(tabs) == 0 {
			out.P("M:C07,C19 n/a")
			return
		}
		e.wtxn = e.db.WriteTxn(tabs...)
		out.P("M:C07,C19 ok")
	case "commit", "abort":
		if e.wtxn == nil {
			out.P("M:C07,C19 n/a")
			return
		}
		if f[0] == "commit" {
			e.wtxn.Commit()
		} else {
			e.wtxn.Abort()
		}
		e.wtxn = nil
		e.wait()
		out.P("M:C07,C19 ok")
	case "insert":
		if e.wtxn == nil {
			out.P("P:C07,C19 old=none err=closed")
			return
		}
		t, id, val := atoi(f[1]), hx.UnHex(f[2]), atoi(f[3])
		var err error
		var hadOld bool
		var oldS string
		if t == 0 {
			var old *In
			old, hadOld, err = e.in.Insert(e.wtxn, &In{ID: id, Val: val})
			if hadOld {
				oldS = fmt.Sprintf("%s/%d", hx.Hex(old.ID), old.Val)
			}
		} else {
			var old *Out
			old, hadOld, err = e.out.Insert(e.wtxn, &Out{ID: id, Val: val})
			if hadOld {
				oldS = fmt.Sprintf("%s/%d", hx.Hex(old.ID), old.Val)
			}
			if err == nil {
				e.rogueOut = true
			}
		}
		if !hadOld {
			oldS = "none"
		}
		out.P("P:C07,C19 old=%s err=%s", oldS, errS(err))
	case "delete":
		if e.wtxn == nil {
			out.P("P:C07,C19 old=none err=closed")
			return
		}
		t, id := atoi(f[1]), hx.UnHex(f[2])
		var err error
		var hadOld bool
		oldS := "none"
		if t == 0 {
			var old *In
			old, hadOld, err = e.in.Delete(e.wtxn, &In{ID: id})
			if hadOld {
				oldS = fmt.Sprintf("%s/%d", hx.Hex(old.ID), old.Val)
			}
		} else {
			var old *Out
			old, hadOld, err = e.out.Delete(e.wtxn, &Out{ID: id})
			if hadOld {
				oldS = fmt.Sprintf("%s/%d", hx.Hex(old.ID), old.Val)
			}
			if err == nil {
				e.rogueOut = true
			}
		}
		out.P("P:C07,C19 old=%s err=%s", oldS, errS(err))
	case "reginit":
		t, name := atoi(f[1]), f[2]
		if e.wtxn == nil {
			out.P("M:C19 n/a")
			return
		}
		res := "ok"
		func() {
			defer func() {
				if r := recover(); r != nil {
					res = "panic"
				}
			}()
			var done func(statedb.WriteTxn)
			if t == 0 {
				done = e.in.RegisterInitializer(e.wtxn, name)
			} else {
				done = e.out.RegisterInitializer(e.wtxn, name)
			}
			e.inits[f[1]+"/"+name] = done
		}()
		out.P("P:C19 %s", res)
	case "initdone":
		if e.wtxn == nil {
			out.P("M:C19 n/a")
			return
		}
		done, ok := e.inits[f[1]+"/"+f[2]]
		if !ok {
			out.P("M:C19 n/a")
			return
		}
		res := "ok"
		func() {
			defer func() {
				if r := recover(); r != nil {
					res = "panic"
				}
			}()
			done(e.wtxn)
		}()
		out.P("P:C19 %s", res)
	case "q":
		t := atoi(f[1])
		rtxn := e.db.ReadTxn()
		switch f[2] {
		case "all":
			out.P("P:C07,C19 %s", e.contents(rtxn, t, true))
		case "rev":
			out.P("P:C07,C19 %d", e.tab(t).Revision(rtxn))
		case "init":
			ok, pend, ch := e.initialized(rtxn, t)
			closed := false
			select {
			case <-ch:
				closed = true
			default:
			}
			out.P("P:C19 init=%v pending=[%s] wclosed=%v", ok, strings.Join(pend, ","), closed)
		}
	case "dstart":
		if e.dStarted || e.wtxn != nil {
			out.P("P:C07,C19 ran=false ready=false")
			return
		}
		e.hive = hive.New(
			job.Cell,
			cell.Provide(
				func() cell.Health { return nopHealth{} },
				func(r job.Registry, h cell.Health) job.Group { return r.NewGroup(h) },
				func() *statedb.DB { return e.db.NewHandle("derive") },
				func() statedb.Table[*In] { return e.in },
				func() statedb.RWTable[*Out] { return e.out },
			),
			cell.Invoke(statedb.Derive[*In, *Out]("9002", e.transform)),
		)
		// Derive's own transaction (initializer registration) runs inside Populate, on this goroutine
		if err := e.hive.Populate(e.log); err != nil {
			panic("hive populate: " + err.Error())
		}
		e.dStarted = true
		if err := e.hive.Start(e.log, context.Background()); err != nil {
			panic("hive start: " + err.Error())
		}
		synctest.Wait()
		out.P("P:C07,C19 ran=true ready=%v%s", e.dGate.parked.Load(), e.deriveOracles(e.dGate.parked.Load()))
	case "dgo":
		if !e.dStarted {
			out.P("P:C07,C19 ran=false ready=false")
			return
		}
		if e.wtxn != nil {
			// never generated (the loop's WriteTxn could block on the harness' lock); a shrunk case may contain it
			e.wait()
			out.P("P:C07,C19 ran=false ready=%v", e.dGate.parked.Load())
			return
		}
		synctest.Wait()
		if !e.dGate.parked.Load() {
			out.P("P:C07,C19 ran=false ready=false%s", e.deriveOracles(false))
			return
		}
		outBefore := e.beforeLeg()
		e.trCalls = 0
		e.dGate.let()
		synctest.Wait()
		e.dLegs++
		ready := e.dGate.parked.Load()
		out.P("P:C07,C19 ran=true ready=%v%s%s", ready, e.flipOracle(outBefore), e.deriveOracles(ready))
	case "dstat":
		synctest.Wait()
		ready := e.dStarted && e.dGate.parked.Load()
		out.P("P:C07,C19 ready=%v%s", ready, e.deriveOracles(ready))
	case "ostart":
		if e.oStarted {
			out.P("P:C07 ran=false ready=false")
			return
		}
		e.oStarted = true
		e.oTab = atoi(f[1])
		ctx, cancel := context.WithCancel(context.Background())
		e.oCancel = cancel
		complete := func(err error) { e.oCompleted.Add(1) }
		h := e.db.NewHandle("observer")
		if e.oTab == 0 {
			statedb.Observable[*In](h, e.in).Observe(ctx, func(c statedb.Change[*In]) {
				e.delivered(c.Object.ID, c.Object.Val, c.Revision, c.Deleted)
			}, complete)
		} else {
			statedb.Observable[*Out](h, e.out).Observe(ctx, func(c statedb.Change[*Out]) {
				e.delivered(c.Object.ID, c.Object.Val, c.Revision, c.Deleted)
			}, complete)
		}
		synctest.Wait()
		out.P("P:C07 ran=true ready=%v", e.oGate.parked.Load())
	case "ogo":
		if !e.oStarted {
			out.P("P:C07 ran=false got=none ready=false")
			return
		}
		if e.wtxn != nil {
			e.wait()
			out.P("P:C07 ran=false got=none ready=%v", e.oGate.parked.Load() && e.oCompleted.Load() == 0)
			return
		}
		synctest.Wait()
		if !e.oGate.parked.Load() || e.oCompleted.Load() > 0 {
			out.P("P:C07 ran=false got=none ready=false%s", e.observeOracles(false))
			return
		}
		got := e.oHeld.Load().(string)
		e.oHeld.Store("")
		if got == "" {
			got = "none"
		}
		e.oLegs++
		e.oGate.let()
		synctest.Wait()
		ready := e.oGate.parked.Load()
		out.P("P:C07 ran=true got=%s ready=%v%s", got, ready, e.observeOracles(ready))
	case "ostat":
		synctest.Wait()
		ready := e.oStarted && e.oGate.parked.Load() && e.oCompleted.Load() == 0
		out.P("P:C07 ready=%v%s", ready, e.observeOracles(ready))
	case "ocancel":
		if !e.oStarted || e.wtxn != nil || e.oCompleted.Load() > 0 || e.oCancelled.Load() {
			out.P("P:C07 ran=false ready=false")
			return
		}
		synctest.Wait()
		if !e.oRegistered() {
			out.P("P:C07 ran=false ready=false")
			return
		}
		e.oHeld.Store("")
		e.oCancelled.Store(true)
		e.oCancel()
		// the goroutine leaves through ctx.Done() and closes its iterator (a write transaction of its own):
		// release it from wherever it is parked until it has completed
		for i := 0; i < 8; i++ {
			synctest.Wait()
			if e.oGate.parked.Load() {
				e.oGate.let()
			} else if e.oCompleted.Load() > 0 {
				break
			}
		}
		synctest.Wait()
		bad := ""
		if e.oAfter.Load() {
			bad += " !BAD:C07:observable-delivered-after-cancel"
		}
		if n := e.oCompleted.Load(); n != 1 {
			bad += fmt.Sprintf(" !BAD:C07:observable-complete-called-%d-times", n)
		}
		e.oCancel = nil
		out.P("P:C07 ran=true ready=false%s", bad)
	default:
		out.P("E unknown op %s", f[0])
	}
}


// the observer has registered its iterator once it has been released from its first park (OReg)
func (e *eng) oRegistered() bool { return e.oLegs > 0 }

// called on the observer goroutine for every change handed to `next`
func (e *eng) delivered(id []byte, val int, rev uint64, deleted bool) {
	if e.ending.Load() {
		return
	}
	sign := "+"
	if deleted {
		sign = "-"
	}
	if e.oCancelled.Load() {
		e.oAfter.Store(true)
	}
	e.oHeld.Store(objS(id, val, rev) + sign)
	if rev <= e.oLastRev {
		e.oBad = " !BAD:C07:observable-revisions-not-increasing"
	}
	e.oLastRev = rev
	if deleted {
		delete(e.oReplay, string(id))
	} else {
		e.oReplay[string(id)] = objS(id, val, rev)
	}
	e.oGate.park()
}

func (e *eng) observeOracles(ready bool) string {
	bad := e.oBad
	if e.oStarted && !ready && e.oRegistered() && e.oCompleted.Load() == 0 && e.wtxn == nil && !e.oGate.parked.Load() {
		// the observer waits for the next change: replaying what it was handed gives the committed table
		var keys []string
		for k := range e.oReplay {
			keys = append(keys, k)
		}
		sort.Strings(keys)
		var parts []string
		for _, k := range keys {
			parts = append(parts, e.oReplay[k])
		}
		if got, want := "["+strings.Join(parts, " ")+"]", e.contents(e.db.ReadTxn(), e.oTab, true); got != want {
			bad += " !BAD:C07:observable-replay-differs-from-table"
		}
	}
	return bad
}

func main() {
	_ = time.Now
	hx.MainBubble(&eng{})
}
