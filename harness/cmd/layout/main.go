// layout engine (C11): the physical child layouts of part's node4/node16/node48/node256.
//
// The tree holds only the empty key and 1-byte keys, so its root is the inner node under
// test (or nil / a single leaf). Every op prints the raw layout of the root (keys array
// with stale slots, children slots, node48 index) obtained through part.VerifTxnLayout /
// VerifTreeLayout, or the result of the node-level lookups find / findIndex on the root.
// The model side is Part/Layout.v (ocaml/layout_drv.ml).
//
// Ops:
//
//	new w|ro      fresh tree (RootOnlyWatch for ro) and a transaction on it
//	txn           abandon the live transaction, begin a new one on the committed tree
//	commit        Commit, then begin a new transaction (next write clones the root)
//	add k / del k Insert / Delete of []byte{k}
//	addleaf / delleaf   Insert / Delete of the empty key (the root node's leaf)
//	find k / fidx k     header.find / header.findIndex on the root of the transaction
//	layout / tlayout    layout of the transaction's root / of the committed tree's root
package main

import (
	"fmt"
	"sort"
	"strconv"
	"strings"

	"github.com/cilium/statedb/part"

	"verif/harness/hx"
)

const tag = "C11"

type refSet struct {
	keys [256]bool
	leaf bool
}

func (s *refSet) sorted() []int {
	var out []int
	for k, p := range s.keys {
		if p {
			out = append(out, k)
		}
	}
	return out
}
func (s *refSet) smaller(k int) int {
	n := 0
	for j := 0; j < k; j++ {
		if s.keys[j] {
			n++
		}
	}
	return n
}
func (s *refSet) count() int { return len(s.sorted()) }

type eng struct {
	tree part.Tree[int]
	txn  *part.Txn[int]
	ro   bool
	ref  refSet // contents of the live transaction
	cref refSet // contents of the committed tree
	val  int
}

func (e *eng) reset(ro bool) {
	e.ro = ro
	if ro {
		e.tree = part.New[int](part.RootOnlyWatch)
	} else {
		e.tree = part.New[int]()
	}
	e.txn = e.tree.Txn()
	e.ref = refSet{}
	e.cref = refSet{}
	e.val = 0
}

func (e *eng) Case(string) { e.reset(false) }

// canon turns the export's line for the root into the text the model driver prints.
func canon(ls []string, get func([]byte) bool, n int) string {
	if len(ls) == 0 {
		if n == 0 {
			return "nil"
		}
		if get([]byte{}) {
			return "leaf -"
		}
		for k := 0; k < 256; k++ {
			if get([]byte{byte(k)}) {
				return fmt.Sprintf("leaf %02x", k)
			}
		}
		return "leaf ?"
	}
	s := ls[0]
	i := strings.Index(s, " ")
	if i < 0 {
		return "node? " + s
	}
	out := "node" + s[i:]
	if i > 0 { // the root of these trees has an empty prefix
		out += " path=" + s[:i]
	}
	if len(ls) > 1 {
		out += fmt.Sprintf(" inner-nodes=%d", len(ls))
	}
	return out
}

type parsed struct {
	ok   bool
	kind int
	size int
	leaf bool
	ch   []int // per slot: key or -1
}

func parse(s string) parsed {
	var p parsed
	f := strings.Fields(s)
	if len(f) < 6 || f[0] != "node" {
		return p
	}
	var err error
	if p.kind, err = strconv.Atoi(strings.TrimPrefix(f[1], "k")); err != nil {
		return p
	}
	if p.size, err = strconv.Atoi(strings.TrimPrefix(f[2], "s")); err != nil {
		return p
	}
	p.leaf = f[3] == "l1"
	var chs string
	for _, x := range f {
		if strings.HasPrefix(x, "ch=") {
			chs = x[3:]
		}
	}
	for i := 0; i+1 < len(chs); i += 2 {
		if chs[i:i+2] == "--" {
			p.ch = append(p.ch, -1)
		} else {
			v, err := strconv.ParseUint(chs[i:i+2], 16, 8)
			if err != nil {
				return p
			}
			p.ch = append(p.ch, int(v))
		}
	}
	p.ok = true
	return p
}

// absOracle: what iteration over header.children() sees must be the sorted reference set;
// size, the leaf flag and the kind's capacity class must fit it.
func absOracle(s string, ref *refSet, clause string) string {
	want := ref.sorted()
	switch {
	case s == "nil":
		if len(want) != 0 || ref.leaf {
			return " !BAD:" + tag + ":" + clause
		}
		return ""
	case strings.HasPrefix(s, "leaf "):
		if s == "leaf -" {
			if len(want) != 0 || !ref.leaf {
				return " !BAD:" + tag + ":" + clause
			}
		} else if len(want) != 1 || ref.leaf || s != fmt.Sprintf("leaf %02x", want[0]) {
			return " !BAD:" + tag + ":" + clause
		}
		return ""
	}
	p := parse(s)
	if !p.ok {
		return " !BAD:" + tag + ":" + clause
	}
	slots := p.ch
	if p.kind != 256 {
		if p.size > len(slots) {
			return " !BAD:" + tag + ":" + clause
		}
		slots = slots[:p.size]
	}
	var got []int
	for _, c := range slots {
		if c >= 0 {
			got = append(got, c)
		}
	}
	if len(got) != len(want) || p.size != len(want) || p.leaf != ref.leaf || p.size > p.kind {
		return " !BAD:" + tag + ":" + clause
	}
	// the occupancy bounds txn.go validateTree asserts
	if (p.kind == 16 && p.size <= 4) || (p.kind == 48 && p.size <= 16) || (p.kind == 256 && p.size <= 48) ||
		(!p.leaf && p.size < 2) {
		return " !BAD:" + tag + ":layout-occupancy"
	}
	for i := range got {
		if got[i] != want[i] {
			return " !BAD:" + tag + ":" + clause
		}
	}
	return ""
}

func (e *eng) cur() string {
	return canon(part.VerifTxnLayout(e.txn), func(k []byte) bool { _, _, ok := e.txn.Get(k); return ok }, e.txn.Len())
}
func (e *eng) committed() string {
	return canon(part.VerifTreeLayout(&e.tree), func(k []byte) bool { _, _, ok := e.tree.Get(k); return ok }, e.tree.Len())
}

func (e *eng) Op(f []string, line string, out *hx.Out) {
	arg := func() int {
		if len(f) < 2 {
			return 0
		}
		v, _ := strconv.Atoi(f[1])
		return v & 255
	}
	mut := func() {
		s := e.cur()
		out.P("M:%s %s%s", tag, s, absOracle(s, &e.ref, "layout-abs"))
	}
	switch f[0] {
	case "new":
		e.reset(len(f) > 1 && f[1] == "ro")
		mut()
	case "txn":
		e.txn = e.tree.Txn()
		e.ref = e.cref
		mut()
	case "commit":
		e.tree = e.txn.Commit()
		e.cref = e.ref
		e.txn = e.tree.Txn()
		mut()
	case "add":
		k := arg()
		e.val++
		_, had := e.txn.Insert([]byte{byte(k)}, e.val)
		bad := ""
		if had != e.ref.keys[k] {
			bad = " !BAD:" + tag + ":layout-hadold"
		}
		e.ref.keys[k] = true
		s := e.cur()
		if bad == "" {
			bad = absOracle(s, &e.ref, "layout-abs")
		}
		out.P("M:%s %s%s", tag, s, bad)
	case "del":
		k := arg()
		_, had := e.txn.Delete([]byte{byte(k)})
		bad := ""
		if had != e.ref.keys[k] {
			bad = " !BAD:" + tag + ":layout-hadold"
		}
		e.ref.keys[k] = false
		s := e.cur()
		if bad == "" {
			bad = absOracle(s, &e.ref, "layout-abs")
		}
		out.P("M:%s %s%s", tag, s, bad)
	case "addleaf":
		e.val++
		e.txn.Insert([]byte{}, e.val)
		e.ref.leaf = true
		mut()
	case "delleaf":
		e.txn.Delete([]byte{})
		e.ref.leaf = false
		mut()
	case "find":
		k := arg()
		got := part.VerifFind(e.txn, byte(k))
		bad := ""
		inner := len(part.VerifTxnLayout(e.txn)) > 0
		if inner && got != e.ref.keys[k] {
			bad = " !BAD:" + tag + ":layout-find"
		}
		if _, _, ok := e.txn.Get([]byte{byte(k)}); ok != e.ref.keys[k] && bad == "" {
			bad = " !BAD:" + tag + ":layout-get"
		}
		out.P("P:%s find=%s%s", tag, b2s(got), bad)
	case "fidx":
		k := arg()
		found, idx := part.VerifFindIndex(e.txn, byte(k))
		bad := ""
		if ls := part.VerifTxnLayout(e.txn); len(ls) > 0 {
			p := parse(canon(ls, nil, 1))
			want := e.ref.smaller(k)
			if p.ok && p.kind == 256 {
				want = k
			}
			if !p.ok || found != e.ref.keys[k] || idx != want {
				bad = " !BAD:" + tag + ":layout-findindex"
			}
		}
		out.P("P:%s fidx=%s,%d%s", tag, b2s(found), idx, bad)
	case "layout":
		mut()
	case "tlayout":
		s := e.committed()
		out.P("M:%s %s%s", tag, s, absOracle(s, &e.cref, "layout-persist"))
	default:
		out.P("E unknown op: %s", line)
	}
}

func b2s(b bool) string {
	if b {
		return "1"
	}
	return "0"
}

// ---- generator ----

type gen struct {
	r       *hx.Rand
	out     *hx.Out
	present [256]bool
	leaf    bool
	n       int // ops emitted in this case
	pCommit int // % chance of a commit after a mutation
	pProbe  int // % chance of probes after a mutation
}

func (g *gen) emit(format string, a ...any) { g.out.P(format, a...); g.n++ }

func (g *gen) presentKeys() []int {
	var ks []int
	for k, p := range g.present {
		if p {
			ks = append(ks, k)
		}
	}
	return ks
}

// probeKey: keys where the layouts can go wrong: 0 and 255 (the values of stale key slots),
// present keys, neighbours of present keys, the gaps, anything.
func (g *gen) probeKey() int {
	ks := g.presentKeys()
	switch g.r.Intn(8) {
	case 0:
		return 0
	case 1:
		return 255
	case 2, 3:
		if len(ks) > 0 {
			return hx.Pick(g.r, ks)
		}
	case 4:
		if len(ks) > 0 {
			return (hx.Pick(g.r, ks) + 1) & 255
		}
	case 5:
		if len(ks) > 0 {
			return (hx.Pick(g.r, ks) + 255) & 255
		}
	case 6:
		return hx.Pick(g.r, []int{1, 2, 127, 128, 253, 254})
	}
	return g.r.Intn(256)
}

func (g *gen) probes(max int) {
	for i := g.r.Intn(max + 1); i > 0; i-- {
		k := g.probeKey()
		switch g.r.Intn(3) {
		case 0:
			g.emit("find %d", k)
		case 1:
			g.emit("fidx %d", k)
		default:
			g.emit("find %d", k)
			g.emit("fidx %d", k)
		}
	}
}

func (g *gen) after(k int) {
	if g.r.Chance(g.pProbe) {
		if g.r.Chance(60) { // the key just written, or a neighbour
			j := (k + hx.Pick(g.r, []int{0, 0, 0, 1, 255})) & 255
			if g.r.Chance(50) {
				g.emit("find %d", j)
			} else {
				g.emit("fidx %d", j)
			}
		} else {
			g.probes(2)
		}
	}
	if g.r.Chance(g.pCommit) {
		g.emit("commit")
		if g.r.Chance(30) {
			g.emit("tlayout")
		}
	}
}

func (g *gen) add(k int) { g.emit("add %d", k); g.present[k] = true; g.after(k) }
func (g *gen) del(k int) { g.emit("del %d", k); g.present[k] = false; g.after(k) }

// pool returns n distinct keys: dense low, dense high, spread, random; 0 and 255 forced in or out.
func (g *gen) pool(n int) []int {
	var ks []int
	switch g.r.Intn(5) {
	case 0: // 0..n-1
		for i := 0; i < n; i++ {
			ks = append(ks, i)
		}
	case 1: // 256-n..255
		for i := 0; i < n; i++ {
			ks = append(ks, 256-n+i)
		}
	case 2: // evenly spread
		for i := 0; i < n; i++ {
			ks = append(ks, i*256/n)
		}
	default:
		ks = g.r.Perm(256)[:n]
	}
	has := func(x int) int {
		for i, k := range ks {
			if k == x {
				return i
			}
		}
		return -1
	}
	force := func(x int, in bool) {
		i := has(x)
		if in && i < 0 && len(ks) > 0 {
			j := g.r.Intn(len(ks))
			if ks[j] != 0 && ks[j] != 255 {
				ks[j] = x
			}
		} else if !in && i >= 0 && n < 255 {
			for {
				y := 1 + g.r.Intn(254)
				if has(y) < 0 {
					ks[i] = y
					break
				}
			}
		}
	}
	if n < 256 {
		switch g.r.Intn(4) {
		case 0:
			force(0, true)
			force(255, true)
		case 1:
			force(0, false)
			force(255, false)
		case 2:
			force(255, true)
			force(0, false)
		}
	}
	return ks
}

// order: ascending, descending or shuffled copy
func (g *gen) order(ks []int) []int {
	out := append([]int{}, ks...)
	switch g.r.Intn(3) {
	case 0:
		sort.Ints(out)
	case 1:
		sort.Sort(sort.Reverse(sort.IntSlice(out)))
	default:
		p := g.r.Perm(len(out))
		for i, j := range p {
			out[i] = ks[j]
		}
	}
	return out
}

var tops = []int{2, 3, 4, 5, 6, 16, 17, 18, 48, 49, 50}

func (g *gen) start() {
	if g.r.Chance(25) {
		g.emit("new ro")
	} else if g.r.Chance(20) {
		g.emit("new w")
	}
	if g.r.Chance(30) {
		g.emit("txn")
	}
	if g.r.Chance(30) {
		g.emit("addleaf")
		g.leaf = true
	}
}

// updown: grow to a size just around a promotion threshold, then shrink to nothing
func (g *gen) updown(long bool) {
	top := hx.Pick(g.r, tops)
	if long {
		top = hx.Pick(g.r, []int{64, 128, 200, 255, 256})
	}
	ks := g.pool(top)
	for _, k := range g.order(ks) {
		g.add(k)
	}
	if g.r.Chance(40) {
		g.emit("commit")
	}
	g.probes(4)
	if g.r.Chance(30) && !g.leaf {
		g.emit("addleaf")
		g.leaf = true
	}
	down := g.order(ks)
	keep := 0
	if g.r.Chance(30) {
		keep = g.r.Intn(3)
	}
	for _, k := range down[:len(down)-keep] {
		g.del(k)
	}
	g.probes(3)
	if g.leaf && g.r.Chance(60) {
		g.emit("delleaf")
		g.leaf = false
	}
	// grow again on top of whatever is left (stale slots, collapsed root)
	for _, k := range g.order(g.pool(1 + g.r.Intn(6))) {
		if g.n > 125 && !long {
			break
		}
		g.add(k)
	}
	g.probes(3)
}

// thresh: sit on a threshold and cross it repeatedly in both directions
func (g *gen) thresh() {
	t := hx.Pick(g.r, []int{2, 4, 16, 48})
	ks := g.pool(t + 2)
	base, extra := ks[:t], ks[t:]
	save := g.pProbe
	g.pProbe = 0
	for _, k := range g.order(base) {
		g.add(k)
	}
	g.pProbe = save
	for i := 0; i < 3+g.r.Intn(8) && g.n < 118; i++ {
		switch g.r.Intn(4) {
		case 0: // up and down by the same key
			k := hx.Pick(g.r, extra)
			if !g.present[k] {
				g.add(k)
				g.del(k)
			}
		case 1: // up by a new key, down by an old one
			k := hx.Pick(g.r, extra)
			if !g.present[k] {
				g.add(k)
			}
			if pk := g.presentKeys(); len(pk) > 0 {
				g.del(hx.Pick(g.r, pk))
			}
		case 2: // down, then up
			if pk := g.presentKeys(); len(pk) > 0 {
				k := hx.Pick(g.r, pk)
				g.del(k)
				if g.r.Chance(70) {
					g.add(k)
				} else {
					g.add(g.probeKey())
				}
			}
		default:
			if g.r.Chance(50) {
				g.emit("commit")
			} else {
				g.probes(3)
			}
		}
	}
}

// stale: small nodes, deletes that leave 255 in the vacated key slots, lookups of 255 and 0,
// then inserts of 255 / 0 / small keys on top of the stale slots
func (g *gen) stale() {
	special := []int{0, 1, 2, 127, 128, 253, 254, 255}
	pick := func() int {
		if g.r.Chance(70) {
			return hx.Pick(g.r, special)
		}
		return g.r.Intn(256)
	}
	n := 2 + g.r.Intn(5)
	if g.r.Chance(20) {
		n = 14 + g.r.Intn(5)
	}
	for i := 0; i < n; i++ {
		k := pick()
		if g.r.Chance(40) {
			k = g.r.Intn(256)
		}
		if !g.present[k] {
			g.add(k)
		}
	}
	for round := 0; round < 2+g.r.Intn(4) && g.n < 110; round++ {
		pk := g.presentKeys()
		if len(pk) > 1 || (len(pk) == 1 && g.leaf) {
			g.del(hx.Pick(g.r, pk))
		}
		for _, k := range []int{255, 0} {
			if g.r.Chance(70) {
				g.emit("find %d", k)
			}
			if g.r.Chance(70) {
				g.emit("fidx %d", k)
			}
		}
		if g.r.Chance(60) {
			k := pick()
			g.emit("fidx %d", k)
			if !g.present[k] {
				g.add(k)
			}
		}
		if g.r.Chance(20) {
			g.emit("txn") // contents revert to the committed ones; the generator's view is only a hint
		}
	}
}

// leafy: the leaf on the root node with 0, 1, 2 children: collapse or not
func (g *gen) leafy() {
	ks := g.pool(1 + g.r.Intn(4))
	for i := 0; i < 6+g.r.Intn(20); i++ {
		switch g.r.Intn(6) {
		case 0:
			g.emit("addleaf")
			g.leaf = true
		case 1:
			g.emit("delleaf")
			g.leaf = false
		case 2, 3:
			g.add(hx.Pick(g.r, ks))
		case 4:
			g.del(hx.Pick(g.r, ks))
		default:
			g.probes(2)
		}
	}
}

// random: any op on a key pool of random size
func (g *gen) random() {
	ps := hx.Pick(g.r, []int{3, 6, 8, 20, 24, 60, 256})
	ks := g.pool(ps)
	nops := 1 + g.r.Intn(120)
	bias := 30 + g.r.Intn(50) // % adds among mutations
	for g.n < nops {
		switch x := g.r.Intn(100); {
		case x < 60:
			k := hx.Pick(g.r, ks)
			if g.r.Chance(bias) {
				g.add(k)
			} else {
				g.del(k)
			}
		case x < 80:
			g.probes(2)
		case x < 85:
			g.emit("commit")
		case x < 88:
			g.emit("txn")
		case x < 91:
			g.emit("addleaf")
			g.leaf = true
		case x < 94:
			g.emit("delleaf")
			g.leaf = false
		case x < 97:
			g.emit("layout")
		default:
			g.emit("tlayout")
		}
	}
}

func (*eng) Gen(r *hx.Rand, n int, tier string, prop string, out *hx.Out) {
	// deterministic part: every size 0..256 ascending and back, with lookups of 0/255 on the way
	out.P("#case full-asc")
	for k := 0; k < 256; k++ {
		out.P("add %d", k)
		if k%16 == 3 || k == 4 || k == 48 {
			out.P("fidx 255")
			out.P("find 255")
			out.P("fidx 0")
		}
	}
	for k := 0; k < 256; k++ {
		out.P("del %d", k)
		if k%16 == 3 || k == 207 || k == 239 || k == 251 {
			out.P("fidx 255")
			out.P("find 255")
			out.P("find 0")
			out.P("fidx 0")
		}
	}
	out.P("#case full-desc")
	for k := 255; k >= 0; k-- {
		out.P("add %d", k)
	}
	out.P("commit")
	for k := 255; k >= 0; k-- {
		out.P("del %d", k)
		if k%32 == 0 {
			out.P("tlayout")
		}
	}
	for c := 0; c < n; c++ {
		g := &gen{r: r.Fork(), out: out}
		g.pCommit = hx.Pick(g.r, []int{0, 0, 5, 15, 40})
		g.pProbe = hx.Pick(g.r, []int{0, 10, 25, 50})
		fam := c % 8
		name := [...]string{"updown", "thresh", "stale", "random", "updown", "leafy", "thresh", "random"}[fam]
		long := name == "updown" && g.r.Intn(25) == 0
		if long {
			g.pProbe = 5
			g.pCommit = 2
		}
		out.P("#case %s-%d", name, c)
		g.start()
		switch name {
		case "updown":
			g.updown(long)
		case "thresh":
			g.thresh()
		case "stale":
			g.stale()
		case "leafy":
			g.leafy()
		default:
			g.random()
		}
		if g.r.Chance(50) {
			g.emit("layout")
		}
		if g.r.Chance(30) {
			g.emit("tlayout")
		}
	}
}

func main() { hx.Main(&eng{}) }
