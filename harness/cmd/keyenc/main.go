// keyenc engine (C18): key encodings of part_index.go, index/*.go, lpm/key.go.
package main

import (
	"bytes"
	"fmt"
	"net"
	"net/netip"
	"sort"
	"strconv"
	"strings"

	"github.com/cilium/statedb"
	"github.com/cilium/statedb/index"
	"github.com/cilium/statedb/lpm"
	"github.com/cilium/statedb/part"

	"verif/harness/hx"
)

var alphabet = []byte{0x00, 0x01, 0x02, 0xff}

func allKeys(maxLen int) [][]byte {
	out := [][]byte{{}}
	prev := [][]byte{{}}
	for l := 1; l <= maxLen; l++ {
		var next [][]byte
		for _, p := range prev {
			for _, b := range alphabet {
				k := append(append([]byte{}, p...), b)
				next = append(next, k)
			}
		}
		out = append(out, next...)
		prev = next
	}
	return out
}

func (*eng) Gen(r *hx.Rand, n int, tier string, prop string, out *hx.Out) {
	// exhaustive part: alphabet {00,01,02,ff}, length <= 2 (quick) / 3 (thorough)
	ml := 2
	if tier == "thorough" {
		ml = 3
	}
	keys := allKeys(ml)
	out.P("#case keyset-adapters")
	out.P("adapters -")
	out.P("adapters 61")
	out.P("adapters -,61")
	out.P("adapters 62,61,6161,00,0100,ff")
	{
		g := r.Fork()
		for i := 0; i < 40; i++ {
			seen := map[string]bool{}
			var hs []string
			for j := g.Intn(7); j >= 0; j-- {
				k := hx.Hex(keys[g.Intn(len(keys))])
				if !seen[k] {
					seen[k] = true
					hs = append(hs, k)
				}
			}
			out.P("adapters %s", strings.Join(hs, ","))
		}
	}
	out.P("#case exh-nuk")
	for _, p := range keys {
		for _, s := range keys {
			out.P("nuk %s %s", hx.Hex(p), hx.Hex(s))
		}
	}
	out.P("#case exh-cmp")
	small := allKeys(2)
	if tier != "thorough" {
		small = allKeys(1)
	}
	for _, p1 := range small {
		for _, s1 := range small {
			for _, p2 := range small {
				for _, s2 := range small {
					out.P("cmp %s %s %s %s", hx.Hex(p1), hx.Hex(s1), hx.Hex(p2), hx.Hex(s2))
				}
			}
		}
	}
	out.P("#case netip-prefixes")
	{
		g := r.Fork()
		for i := 0; i < 400; i++ {
			var a []byte
			fam := "v6"
			switch g.Intn(3) {
			case 0:
				fam = "v4"
				a = []byte{byte(g.Intn(256)), byte(g.Intn(256)), byte(g.Intn(256)), byte(g.Intn(256))}
			case 1:
				a = make([]byte, 16)
				for j := range a {
					a[j] = byte(g.Intn(256))
				}
			default: // IPv4-mapped IPv6
				a = []byte{0, 0, 0, 0, 0, 0, 0, 0, 0, 0, 0xff, 0xff, byte(g.Intn(256)), byte(g.Intn(256)), byte(g.Intn(256)), byte(g.Intn(256))}
			}
			if g.Chance(30) { // host bits set right after the prefix boundary / all ones
				for j := range a {
					if fam == "v4" || j >= 12 || g.Chance(50) {
						a[j] |= byte(0xff >> uint(g.Intn(8)))
					}
				}
				if fam == "v6" && len(a) == 16 && g.Chance(50) {
					a[10], a[11] = 0xff, 0xff
				}
			}
			w := 8 * len(a)
			bits := g.Intn(w + 1)
			if g.Chance(25) {
				bits = hx.Pick(g, []int{0, 1, 7, 8, 9, 23, 24, 25, 30, 31, 32})
			}
			if bits > w {
				bits = w
			}
			out.P("nipp %s %s %d", fam, hx.Hex(a), bits)
		}
		// sibling prefixes that differ only in the bit just inside a non-byte-aligned length
		for _, c := range [][2]string{{"0a000000", "0a800000"}, {"c0a80000", "c0a80200"}, {"0a010204", "0a010208"}} {
			for _, b := range []int{9, 23, 30} {
				out.P("nipp v4 %s %d", c[0], b)
				out.P("nipp v4 %s %d", c[1], b)
			}
		}
	}
	{
		// the query-string variants of the integer encoders: canonical decimals, leading zeros (not octal), signs,
		// range boundaries, junk; NetIP in both forms; the IPv4-only LPM key with host bits set inside the last byte
		g := r.Fork()
		out.P("#case int-strings")
		strs := []string{"0", "00", "7", "8", "9", "010", "08", "0010", "0x10", "0b1", "0o7", "1_0", "+5", "-5", "-0", "+0", "", " 1", "1 ", "12a",
			"255", "256", "32767", "32768", "-32768", "-32769", "65535", "65536", "065535", "2147483647", "2147483648", "-2147483648", "-2147483649",
			"4294967295", "4294967296", "9223372036854775807", "9223372036854775808", "-9223372036854775808", "-9223372036854775809",
			"18446744073709551615", "18446744073709551616", "000000000000000000000000000000017", "99999999999999999999999999"}
		for i := 0; i < 60; i++ {
			s := strconv.FormatUint(g.U64()>>uint(g.Intn(64)), 10)
			if g.Chance(40) {
				s = strings.Repeat("0", 1+g.Intn(3)) + s
			}
			if g.Chance(25) {
				s = "-" + s
			}
			strs = append(strs, s)
		}
		for _, s := range strs {
			for _, op := range []string{"u16s", "u32s", "u64s", "i16s", "i32s", "i64s"} {
				out.P("%s %s", op, hx.Hex([]byte(s)))
			}
		}
		out.P("#case netip-forms")
		for i := 0; i < 40; i++ {
			a := make([]byte, 4)
			for j := range a {
				a[j] = byte(g.Intn(256))
			}
			out.P("nip %s", hx.Hex(a))
			out.P("nip %s", hx.Hex(append(append(make([]byte, 10), 0xff, 0xff), a...)))
			b := make([]byte, 16)
			for j := range b {
				b[j] = byte(g.Intn(256))
			}
			out.P("nip %s", hx.Hex(b))
			bits := g.Intn(33)
			if g.Chance(50) {
				bits = hx.Pick(g, []int{1, 7, 9, 12, 15, 17, 23, 25, 30, 31})
			}
			if g.Chance(60) {
				a[(bits+7)/8%4] |= 0x7f >> uint(g.Intn(7)) // host bits inside / after the partially covered byte
			}
			out.P("nipp4 %s %d", hx.Hex(a), bits)
		}
		for _, c := range []string{"0aff0000", "0a800000", "c0a8ffff", "ffffffff"} {
			for _, b := range []int{0, 1, 7, 8, 9, 15, 23, 30, 31, 32} {
				out.P("nipp4 %s %d", c, b)
			}
		}
		out.P("nip -")
		out.P("nip 0a0000")
	}
	out.P("#case exh-u16")
	for v := 0; v < 65536; v++ {
		out.P("u16 %d", v)
	}
	for v := -32768; v < 32768; v += 1 {
		out.P("i16 %d", v)
	}
	out.P("#case bounds-int")
	for sh := 0; sh <= 64; sh++ {
		for _, d := range []int{-1, 0, 1} {
			// 2^sh + d as decimal strings via big shifts
			var v uint64
			if sh == 64 {
				if d != -1 {
					continue
				}
				v = ^uint64(0)
			} else {
				v = uint64(1)<<uint(sh) + uint64(d)
			}
			out.P("u64 %d", v)
			if v <= 0xffffffff {
				out.P("u32 %d", v)
			}
			out.P("i64 %d", int64(v))
			out.P("i32 %d", int32(v))
		}
	}
	out.P("bool 0")
	out.P("bool 1")
	out.P("#case exh-lpm")
	for plen := 0; plen <= 33; plen++ {
		for _, d := range [][]byte{{0xff, 0xff, 0xff, 0xff}, {0xaa, 0x55, 0x81, 0x7e}, {0x01, 0x80, 0x00, 0xff}, {0xff, 0xff}, {}} {
			out.P("lpmenc %s %d", hx.Hex(d), plen)
		}
	}
	for _, k := range [][]byte{{}, {1}, {0, 0}, {0, 8}, {0xff, 0, 8}, {0xff, 0, 9}, {0xff, 0xf0, 0, 12}, {1, 2, 3, 0xff, 0xff}, {0, 0, 0, 1}} {
		out.P("lpmdec %s", hx.Hex(k))
	}
	// random part: long keys around the length boundaries, random bytes
	for c := 0; c < n; c++ {
		out.P("#case rnd-%d", c)
		rk := func() []byte {
			l := hx.Pick(r, []int{0, 1, 2, 3, 5, 8, 17, 60, 120, 126, 127, 128, 200, 254})
			if r.Chance(30) {
				l = r.Intn(250)
			}
			b := make([]byte, l)
			mode := r.Intn(3)
			for i := range b {
				switch mode {
				case 0:
					b[i] = hx.Pick(r, alphabet)
				case 1:
					b[i] = byte(r.Intn(256))
				default:
					b[i] = byte(2 + r.Intn(254)) // no escapes: escaped length = length
				}
			}
			for escLen(b) >= 256 { // stay inside the guard of the order theorem (K1 is a known finding)
				b = b[:len(b)-1]
			}
			return b
		}
		p1, s1 := rk(), rk()
		p2, s2 := rk(), rk()
		switch r.Intn(4) {
		case 0:
			s2 = s1
		case 1:
			s2 = s1
			p2 = append(append([]byte{}, p1...), hx.Pick(r, alphabet))
			if escLen(p2) >= 256 {
				p2 = p1
			}
		case 2:
			s2 = append(append([]byte{}, s1...), hx.Pick(r, alphabet))
		}
		out.P("nuk %s %s", hx.Hex(p1), hx.Hex(s1))
		out.P("nuk %s %s", hx.Hex(p2), hx.Hex(s2))
		out.P("cmp %s %s %s %s", hx.Hex(p1), hx.Hex(s1), hx.Hex(p2), hx.Hex(s2))
		out.P("u64 %d", r.U64())
		out.P("i64 %d", int64(r.U64()))
		out.P("u32 %d", uint32(r.U64()))
		out.P("i32 %d", int32(r.U64()))
		out.P("str %s", hx.Hex(rk()))
		d := make([]byte, r.Intn(18))
		for i := range d {
			d[i] = byte(r.Intn(256))
		}
		out.P("lpmenc %s %d", hx.Hex(d), r.Intn(len(d)*8+3))
	}
}

type eng struct {
	prevU map[string][2]string // kind -> (value, key) of the previous unsigned op in this case
	seen  map[string]string    // kind+key -> value (injectivity within a case)
}

func (e *eng) Case(string) {
	e.prevU = map[string][2]string{}
	e.seen = map[string]string{}
}

// fn records that part `out` was produced for input `in` and reports whether in <-> out is
// still a one-to-one correspondence within this case.
func (e *eng) fn(kind string, in, out []byte) bool {
	a, b := kind+">"+string(in), kind+"<"+string(out)
	if prev, ok := e.seen[a]; ok && prev != string(out) {
		return false
	}
	if prev, ok := e.seen[b]; ok && prev != string(in) {
		return false
	}
	e.seen[a], e.seen[b] = string(out), string(in)
	return true
}

func sign(x int) int {
	if x < 0 {
		return -1
	}
	if x > 0 {
		return 1
	}
	return 0
}

// specCmp: secondary first, then primary, bytewise
func specCmp(p1, s1, p2, s2 []byte) int {
	if c := bytes.Compare(s1, s2); c != 0 {
		return sign(c)
	}
	return sign(bytes.Compare(p1, p2))
}

func parts(k []byte) (string, []byte, []byte, bool) {
	pl, sl, ep, es, pp, sp := statedb.VerifNonUniqueKeyParts(k)
	eps, ess := hx.Hex(ep), hx.Hex(es)
	if pp {
		eps = "panic"
	}
	if sp {
		ess = "panic"
	}
	return fmt.Sprintf("plen=%d slen=%d ep=%s es=%s", pl, sl, eps, ess), ep, es, pp || sp
}

// fixed handles the fixed-width encoders: prints the key, checks injectivity within the
// case and (unsigned) numeric order against the previous value of the same kind.
func (e *eng) fixed(kind, val string, key []byte, unsigned bool, out *hx.Out) {
	bad := ""
	kk := kind + hx.Hex(key)
	if prev, ok := e.seen[kk]; ok && prev != val {
		bad = fmt.Sprintf(" !BAD:C18:injective(%s,%s)", prev, val)
	}
	e.seen[kk] = val
	if unsigned {
		if prev, ok := e.prevU[kind]; ok {
			a, _ := strconv.ParseUint(prev[0], 10, 64)
			b, _ := strconv.ParseUint(val, 10, 64)
			pk := hx.UnHex(prev[1])
			if sign(bytes.Compare(pk, key)) != sign(cmpU(a, b)) {
				bad = fmt.Sprintf(" !BAD:C18:order(%s,%s)", prev[0], val)
			}
		}
		e.prevU[kind] = [2]string{val, hx.Hex(key)}
	}
	out.P("M:C18 %s%s", hx.Hex(key), bad)
}

func cmpU(a, b uint64) int {
	if a < b {
		return -1
	}
	if a > b {
		return 1
	}
	return 0
}

type strT string

func (s strT) String() string { return string(s) }

// keySetS: what a KeySet yields, in order, and whether Exists agrees with it
func keySetS(ks index.KeySet) string {
	var parts []string
	ks.Foreach(func(k index.Key) {
		parts = append(parts, hx.Hex(k))
		if !ks.Exists(k) {
			parts = append(parts, "!exists")
		}
	})
	return strings.Join(parts, ",")
}

func (e *eng) Op(f []string, line string, out *hx.Out) {
	switch f[0] {
	case "adapters":
		// adapters <hex,hex,...|->: the KeySet builders of the index package (StringSlice, StringerSlice, StringerSeq,
		// StringerSeq2, Seq, Seq2, Set, StringMap) on distinct strings yield exactly the keys NewKeySet(String(s)...)
		// yields (a map and a part.Set have their own order: compared as sets)
		var ss []string
		if f[1] != "-" {
			for _, h := range strings.Split(f[1], ",") {
				ss = append(ss, string(hx.UnHex(h)))
			}
		}
		keys := make([]index.Key, len(ss))
		st := make([]strT, len(ss))
		m := map[string]int{}
		set := part.NewSet[string]()
		for i, x := range ss {
			keys[i] = index.String(x)
			st[i] = strT(x)
			m[x] = i
			set = set.Set(x)
		}
		want := keySetS(index.NewKeySet(keys...))
		seq := func(yield func(strT) bool) {
			for _, x := range st {
				if !yield(x) {
					return
				}
			}
		}
		seq2 := func(yield func(strT, int) bool) {
			for i, x := range st {
				if !yield(x, i) {
					return
				}
			}
		}
		sorted := func(x string) string {
			p := strings.Split(x, ",")
			sort.Strings(p)
			return strings.Join(p, ",")
		}
		bad := ""
		for name, got := range map[string]string{
			"StringSlice":   keySetS(index.StringSlice(ss)),
			"StringerSlice": keySetS(index.StringerSlice(st)),
			"StringerSeq":   keySetS(index.StringerSeq[strT](seq)),
			"StringerSeq2":  keySetS(index.StringerSeq2[strT, int](seq2)),
			"Seq":           keySetS(index.Seq(func(x strT) index.Key { return index.Stringer(x) }, seq)),
			"Seq2":          keySetS(index.Seq2(func(x strT) index.Key { return index.Stringer(x) }, seq2)),
		} {
			if got != want {
				bad += " !BAD:C18:keyset-adapter-" + name
			}
		}
		if sorted(keySetS(index.StringMap(m))) != sorted(want) {
			bad += " !BAD:C18:keyset-adapter-StringMap"
		}
		if sorted(keySetS(index.Set(set))) != sorted(want) {
			bad += " !BAD:C18:keyset-adapter-Set"
		}
		if k, err := index.FromString(strings.Join(ss, "")); err != nil || !bytes.Equal(k, index.String(strings.Join(ss, ""))) {
			bad += " !BAD:C18:FromString"
		}
		out.P("P:C18 ok%s", bad)
	case "nuk":
		// the inputs live in buffers with spare capacity filled with a sentinel: an encoder must neither write
		// into its caller's memory nor return a key that aliases it
		p, pbuf := spare(hx.UnHex(f[1]))
		s, sbuf := spare(hx.UnHex(f[2]))
		k := statedb.VerifEncodeNonUniqueKey(p, s)
		k0 := append([]byte{}, k...)
		clobber := !intact(pbuf, len(p)) || !intact(sbuf, len(s))
		scribble(pbuf)
		scribble(sbuf)
		aliased := !bytes.Equal(k, k0)
		k = k0
		p, s = hx.UnHex(f[1]), hx.UnHex(f[2])
		ps, ep, es, pan := parts(k)
		bad := ""
		if clobber {
			bad = " !BAD:C18:encoder-wrote-into-input"
		} else if aliased {
			bad = " !BAD:C18:key-aliases-input"
		}
		// separable: the accessors split the key into a part that is an injective function of the
		// secondary alone, the separator, a part that is an injective function of the primary alone,
		// and the 2-byte suffix (checked semantically, not against a particular escape scheme)
		if bad != "" {
			// already flagged
		} else if pan || len(es)+1+len(ep)+2 != len(k) || !bytes.HasPrefix(k, es) || !bytes.Equal(k[len(k)-2-len(ep):len(k)-2], ep) ||
			!e.fn("es", s, es) || !e.fn("ep", p, ep) {
			bad = " !BAD:C18:separable"
		}
		out.P("M:C18 nuk=%s %s%s", hx.Hex(k), ps, bad)
	case "cmp":
		p1, s1, p2, s2 := hx.UnHex(f[1]), hx.UnHex(f[2]), hx.UnHex(f[3]), hx.UnHex(f[4])
		k1 := statedb.VerifEncodeNonUniqueKey(p1, s1)
		k2 := statedb.VerifEncodeNonUniqueKey(p2, s2)
		c := sign(bytes.Compare(k1, k2))
		bad := ""
		if c != specCmp(p1, s1, p2, s2) {
			if c == 0 {
				bad = " !BAD:C18:injective"
			} else {
				bad = " !BAD:C18:order"
			}
		}
		out.P("P:C18 cmp=%d%s", c, bad)
	case "acc":
		ps, _, _, _ := parts(hx.UnHex(f[1]))
		out.P("M:C18 %s", ps)
	case "u16":
		v, _ := strconv.ParseUint(f[1], 10, 64)
		e.fixed("u16", f[1], index.Uint16(uint16(v)), true, out)
	case "u32":
		v, _ := strconv.ParseUint(f[1], 10, 64)
		e.fixed("u32", f[1], index.Uint32(uint32(v)), true, out)
	case "u64":
		v, _ := strconv.ParseUint(f[1], 10, 64)
		e.fixed("u64", f[1], index.Uint64(v), true, out)
	case "i16":
		v, _ := strconv.ParseInt(f[1], 10, 64)
		e.fixed("i16", f[1], index.Int16(int16(v)), false, out)
	case "i32":
		v, _ := strconv.ParseInt(f[1], 10, 64)
		e.fixed("i32", f[1], index.Int32(int32(v)), false, out)
	case "i64":
		v, _ := strconv.ParseInt(f[1], 10, 64)
		e.fixed("i64", f[1], index.Int64(v), false, out)
	case "bool":
		e.fixed("bool", f[1], index.Bool(f[1] == "1"), false, out)
	case "str":
		b := hx.UnHex(f[1])
		k := index.String(string(b))
		bad := ""
		if !bytes.Equal(k, b) {
			bad = " !BAD:C18:string"
		}
		out.P("P:C18 %s%s", hx.Hex(k), bad)
	case "lpmenc":
		pl, _ := strconv.Atoi(f[2])
		d := hx.UnHex(f[1])
		func() {
			defer func() {
				if recover() != nil {
					bad := ""
					if (pl+7)/8 <= len(d) && pl+7 < 65536 {
						bad = " !BAD:C18:lpm-roundtrip(panic)"
					}
					out.P("P:C18 panic%s", bad)
				}
			}()
			din, dbuf := spare(d)
			k := lpm.EncodeLPMKey(din, lpm.PrefixLen(pl))
			k0 := append([]byte{}, k...)
			clobber := !intact(dbuf, len(din))
			scribble(dbuf)
			aliased := !bytes.Equal(k, k0)
			k = k0
			d2, pl2 := lpm.DecodeLPMKey(k)
			bad := ""
			if clobber {
				bad = " !BAD:C18:encoder-wrote-into-input"
			} else if aliased {
				bad = " !BAD:C18:key-aliases-input"
			}
			if bad == "" && (int(pl2) != pl || !bytes.Equal(d2, refMask(d, pl))) {
				bad = " !BAD:C18:lpm-roundtrip"
			}
			out.P("M:C18 %s%s", hx.Hex(k), bad)
		}()
	case "nipp":
		// nipp v4|v6 <addr hex> <bits>: index.NetIPPrefix and lpm.NetIPPrefixToIndexKey of the prefix; v6 with an
		// address ::ffff:a.b.c.d is an IPv4-mapped IPv6 prefix (not unmapped: its length counts in the 128-bit space)
		a := hx.UnHex(f[2])
		bits, _ := strconv.Atoi(f[3])
		var addr netip.Addr
		if f[1] == "v4" && len(a) == 4 {
			addr = netip.AddrFrom4([4]byte(a))
		} else if f[1] == "v6" && len(a) == 16 {
			addr = netip.AddrFrom16([16]byte(a))
		} else {
			out.P("E nipp")
			return
		}
		pfx := netip.PrefixFrom(addr, bits)
		if !pfx.IsValid() {
			out.P("E nipp invalid")
			return
		}
		func() {
			defer func() {
				if recover() != nil {
					out.P("P:C18 panic")
				}
			}()
			ik := index.NetIPPrefix(pfx)
			lk := lpm.NetIPPrefixToIndexKey(pfx)
			bad := ""
			// semantic oracles: the index key identifies the masked prefix (17 bytes: 16-byte form + length); the LPM
			// key decodes to the masked 16-byte form with the length in the 128-bit space
			m16 := pfx.Masked().Addr().As16()
			if len(ik) != 17 || !bytes.Equal(ik[:16], m16[:]) || int(ik[16]) != bits {
				bad += " !BAD:C18:netip-prefix-index-key"
			}
			want := bits
			if addr.Is4() {
				want += 96
			}
			if d, pl := lpm.DecodeLPMKey(lk); int(pl) != want || !bytes.Equal(d, m16[:(want+7)/8]) {
				bad += " !BAD:C18:netip-prefix-lpm-key"
			}
			out.P("P:C18 idx=%s lpm=%s%s", hx.Hex(ik), hx.Hex(lk), bad)
		}()
	case "u16s", "u32s", "u64s", "i16s", "i32s", "i64s":
		// the query-string variants (index/int.go XString): the decimal string given as hex of its bytes
		str := string(hx.UnHex(f[1]))
		var k index.Key
		var err error
		var viaValue index.Key // the key of the value variant for the number the string denotes (plain reference)
		switch f[0] {
		case "u16s":
			k, err = index.Uint16String(str)
			if v, e := strconv.ParseUint(strings.TrimLeft(str, "0")+"", 10, 16); e == nil {
				viaValue = index.Uint16(uint16(v))
			}
		case "u32s":
			k, err = index.Uint32String(str)
			if v, e := strconv.ParseUint(strings.TrimLeft(str, "0"), 10, 32); e == nil {
				viaValue = index.Uint32(uint32(v))
			}
		case "u64s":
			k, err = index.Uint64String(str)
			if v, e := strconv.ParseUint(strings.TrimLeft(str, "0"), 10, 64); e == nil {
				viaValue = index.Uint64(v)
			}
		case "i16s":
			k, err = index.Int16String(str)
		case "i32s":
			k, err = index.IntString(str)
			if k2, err2 := index.Int32String(str); (err == nil) != (err2 == nil) || !bytes.Equal(k, k2) {
				out.P("P:C18 - !BAD:C18:intstring-differs-from-int32string")
				return
			}
		case "i64s":
			k, err = index.Int64String(str)
		}
		if err != nil {
			out.P("P:C18 err")
			return
		}
		bad := ""
		// a string of decimal digits with leading zeros denotes the number without them: equal values, equal keys
		if viaValue != nil && !bytes.Equal(k, viaValue) {
			bad = " !BAD:C18:string-key-differs-from-value-key"
		}
		out.P("P:C18 %s%s", hx.Hex(k), bad)
	case "nip":
		// index.NetIP of a net.IP in its 4- or 16-byte form (and index.NetIPAddr for the same address)
		a := hx.UnHex(f[1])
		k := index.NetIP(net.IP(a))
		bad := ""
		if addr, ok := netip.AddrFromSlice(a); ok {
			if !bytes.Equal(k, index.NetIPAddr(addr)) {
				bad += " !BAD:C18:netip-differs-from-netipaddr"
			}
			if len(k) != 16 {
				bad += " !BAD:C18:netip-key-not-16-bytes"
			}
			if len(a) == 4 {
				m := addr.As16()
				if !bytes.Equal(k, index.NetIP(net.IP(m[:]))) {
					bad += " !BAD:C18:netip-4-and-16-byte-forms-differ"
				}
			}
		}
		out.P("P:C18 %s%s", hx.Hex(k), bad)
	case "nipp4":
		// lpm.NetIPPrefix4ToIndexKey
		a := hx.UnHex(f[1])
		bits, _ := strconv.Atoi(f[2])
		if len(a) != 4 {
			out.P("E nipp4")
			return
		}
		pfx := netip.PrefixFrom(netip.AddrFrom4([4]byte(a)), bits)
		if !pfx.IsValid() {
			out.P("E nipp4 invalid")
			return
		}
		func() {
			defer func() {
				if recover() != nil {
					out.P("P:C18 panic")
				}
			}()
			lk := lpm.NetIPPrefix4ToIndexKey(pfx)
			bad := ""
			m4 := pfx.Masked().Addr().As4()
			if d, pl := lpm.DecodeLPMKey(lk); int(pl) != bits || !bytes.Equal(d, m4[:(bits+7)/8]) {
				bad = " !BAD:C18:netip-prefix4-lpm-key"
			}
			out.P("P:C18 %s%s", hx.Hex(lk), bad)
		}()
	case "lpmdec":
		func() {
			defer func() {
				if recover() != nil {
					out.P("M:C18 panic")
				}
			}()
			d, pl := lpm.DecodeLPMKey(hx.UnHex(f[1]))
			out.P("M:C18 %s %d", hx.Hex(d), pl)
		}()
	default:
		out.P("E unknown op: %s", line)
	}
}

// refMask: the first ceil(plen/8) bytes of d with the bits beyond plen cleared
func refMask(d []byte, plen int) []byte {
	n := (plen + 7) / 8
	o := append([]byte{}, d[:n]...)
	for bit := plen; bit < n*8; bit++ {
		o[bit/8] &^= 1 << uint(7-bit%8)
	}
	return o
}

func main() { hx.Main(&eng{}) }

// escLen = escaped length of a key as the guards of the C18 theorems see it
func escLen(b []byte) int {
	n := len(b)
	for _, c := range b {
		if c <= 1 {
			n++
		}
	}
	return n
}

// spare returns a copy of b that lives at the start of a larger buffer whose remaining capacity is filled
// with a sentinel, together with that buffer.
func spare(b []byte) (in []byte, buf []byte) {
	buf = make([]byte, len(b)+24)
	copy(buf, b)
	for i := len(b); i < len(buf); i++ {
		buf[i] = 0xa5
	}
	return buf[:len(b)], buf
}
func intact(buf []byte, n int) bool {
	for i := n; i < len(buf); i++ {
		if buf[i] != 0xa5 {
			return false
		}
	}
	return true
}
func scribble(buf []byte) {
	for i := range buf {
		buf[i] ^= 0x5a
	}
}
