// table engine: drives the public DB/RWTable API from one goroutine (inside a
// testing/synctest bubble per case, with the graveyard worker gated by the verif hooks).
// Serves C01, C03, C04, C07, C08, C09, C19 (and the sequential parts of C02, C06).
package main

import (
	"bytes"
	"encoding/binary"
	"fmt"
	"iter"
	"net/netip"
	"runtime"
	"sort"
	"strconv"
	"strings"
	"sync"
	"sync/atomic"
	"testing/synctest"
	"time"

	"github.com/cilium/statedb"
	"github.com/cilium/statedb/index"

	"verif/harness/hx"
)

// ---------------------------------------------------------------- test object and schema
type LKey struct {
	Data []byte
	Len  int
}

type Obj struct {
	ID  []byte
	Val int
	U   [][]byte
	N   [][]byte
	LU  []LKey // unique LPM index keys
	LN  []LKey // non-unique LPM index keys
}

func lkeySeq(ks []LKey) iter.Seq2[[]byte, statedb.PrefixLen] {
	return func(yield func([]byte, statedb.PrefixLen) bool) {
		for _, k := range ks {
			if !yield(k.Data, statedb.PrefixLen(k.Len)) {
				return
			}
		}
	}
}

func (o *Obj) TableHeader() []string { return []string{"ID", "Val"} }
func (o *Obj) TableRow() []string    { return []string{hx.Hex(o.ID), strconv.Itoa(o.Val)} }

// keySet builds the key set the way applications do for string-valued fields: index.String, which yields a NIL key
// for the empty string (D17: a nil first key used to turn the whole set into the empty set)
func keySet(ks [][]byte) index.KeySet {
	keys := make([]index.Key, len(ks))
	for i, k := range ks {
		keys[i] = index.String(string(k))
	}
	return index.NewKeySet(keys...)
}

var (
	idIndex = statedb.Index[*Obj, []byte]{
		Name:       "id",
		FromObject: func(o *Obj) index.KeySet { return index.NewKeySet(index.String(string(o.ID))) },
		FromKey:    func(k []byte) index.Key { return index.String(string(k)) },
		FromString: hexKey,
		Unique:     true,
	}
	uIndex = statedb.Index[*Obj, []byte]{
		Name:       "u",
		FromObject: func(o *Obj) index.KeySet { return keySet(o.U) },
		FromKey:    func(k []byte) index.Key { return index.String(string(k)) },
		FromString: hexKey,
		Unique:     true,
	}
	nIndex = statedb.Index[*Obj, []byte]{
		Name:       "n",
		FromObject: func(o *Obj) index.KeySet { return keySet(o.N) },
		FromKey:    func(k []byte) index.Key { return index.String(string(k)) },
		FromString: hexKey,
		Unique:     false,
	}
	luIndex = statedb.LPMIndex[*Obj]{
		Name:       "lu",
		FromObject: func(o *Obj) iter.Seq2[[]byte, statedb.PrefixLen] { return lkeySeq(o.LU) },
		FromString: lkeyFromString,
		Unique:     true,
	}
	lnIndex = statedb.LPMIndex[*Obj]{
		Name:       "ln",
		FromObject: func(o *Obj) iter.Seq2[[]byte, statedb.PrefixLen] { return lkeySeq(o.LN) },
		FromString: lkeyFromString,
		Unique:     false,
	}
)

// Table t1 declares its two LPM indexes as statedb.NetIPPrefixIndex (the IP-prefix front end of the same
// lpmIndex): the harness key (data, len <= 16 bits) becomes the IPv6 prefix data::/len. All stored prefixes are
// at most 16 bits long, so a full-length (128-bit) address lookup is decided by its first 16 bits.
func lkeyAddr(k LKey) netip.Addr {
	var a [16]byte
	copy(a[:], k.Data)
	return netip.AddrFrom16(a)
}
func lkeyPrefixSeq(ks []LKey) iter.Seq[netip.Prefix] {
	return func(yield func(netip.Prefix) bool) {
		for _, k := range ks {
			if !yield(netip.PrefixFrom(lkeyAddr(k), k.Len)) {
				return
			}
		}
	}
}

var (
	luIndexIP = statedb.NetIPPrefixIndex[*Obj]{
		Name:       "lu",
		FromObject: func(o *Obj) iter.Seq[netip.Prefix] { return lkeyPrefixSeq(o.LU) },
		Unique:     true,
	}
	lnIndexIP = statedb.NetIPPrefixIndex[*Obj]{
		Name:       "ln",
		FromObject: func(o *Obj) iter.Seq[netip.Prefix] { return lkeyPrefixSeq(o.LN) },
		Unique:     false,
	}
)

// lq: the query for LPM key k through index `which` ("lu" | "ln") of table tab
func lq(tab int, which string, k LKey, lookup bool) statedb.Query[*Obj] {
	if tab == 1 {
		ix := lnIndexIP
		if which == "lu" {
			ix = luIndexIP
		}
		if k.Len == 16 && lookup {
			return ix.Query(lkeyAddr(k))
		}
		return ix.QueryPrefix(netip.PrefixFrom(lkeyAddr(k), k.Len))
	}
	if which == "lu" {
		return luIndex.Query(k.Data, statedb.PrefixLen(k.Len))
	}
	return lnIndex.Query(k.Data, statedb.PrefixLen(k.Len))
}

// string forms of keys for the untyped API: hex ("-" = empty) for the radix indexes, "<hex>:<len>" for LPMIndex,
// netip syntax for NetIPPrefixIndex
func hexKey(s string) (index.Key, error) { return index.Key(hx.UnHex(s)), nil }
func lkeyFromString(s string) ([]byte, statedb.PrefixLen, error) {
	k := parseLKey(s)
	return k.Data, statedb.PrefixLen(k.Len), nil
}
func lkeyString(tab int, k LKey, lookup bool) string {
	if tab == 1 {
		if k.Len == 16 && lookup {
			return lkeyAddr(k).String()
		}
		return netip.PrefixFrom(lkeyAddr(k), k.Len).String()
	}
	return fmt.Sprintf("%s:%d", hx.Hex(k.Data), k.Len)
}

func parseLKey(s string) LKey {
	p := strings.Split(s, ":")
	return LKey{Data: hx.UnHex(p[0]), Len: atoi(p[1])}
}
func parseLKeys(s string) []LKey {
	inner := s[1 : len(s)-1]
	out := []LKey{}
	if inner == "" {
		return out
	}
	for _, p := range strings.Split(inner, ",") {
		out = append(out, parseLKey(p))
	}
	return out
}

// ---------------------------------------------------------------- engine state (per case)
type iterState struct {
	it   statedb.ChangeIterator[*Obj]
	id   int
	tab  int
	next func() (statedb.Change[*Obj], statedb.Revision, bool)
	stop func()
	// oracle state (C07)
	replay         map[string]string // pk -> "val@rev"
	lastRev        uint64
	created        uint64          // table revision in the creating txn
	complete       bool            // last sequence ran to completion
	lastSnap       string          // dump of the snapshot passed to the last refreshing Next
	registered     bool            // the creating transaction has committed
	void           bool            // the creating transaction aborted: never registered, awaits nothing
	caughtUpSeq    int             // commitSeq at which a Next on a fresh snapshot last ran to completion (-1: never)
	liveAtCreation map[string]bool // primary keys live (in the creating transaction's view) when Changes() was called
}

// a retained watch channel of a query (C06 oracle)
type watchRec struct {
	ch      <-chan struct{}
	tab     int
	q       []string // query words as in the op (kind idx key | all), nil for InsertWatch
	pk      []byte   // InsertWatch: the object's primary key
	result  string   // result when handed out (on the committed state it was asked of)
	fromTxn bool     // asked inside the open write transaction (or stale when handed out): no missed-change claim
	inTxn   int      // serial of the open write transaction it was asked in (0: not inside a transaction / settled)
	dead    bool     // asked inside a transaction that aborted: the channel may belong to nodes that were never published
	closed  bool     // last observed
}

type snapRec struct {
	txn  statedb.ReadTxn
	dump string
}

type eng struct {
	db        *statedb.DB
	tabs      []statedb.RWTable[*Obj]
	wtxn      statedb.WriteTxn
	atBegin   string // leftovers() when the open transaction began
	txnSerial int
	txnMissed int
	finished  []statedb.WriteTxn // handles of finished transactions (the last few)
	locked    map[int]bool
	snaps     map[int]*snapRec
	order     []int // snapshot ids in creation order
	iters     map[int]*iterState
	inits     map[string]func(statedb.WriteTxn)
	initW     map[int]<-chan struct{} // last observed init watch per table (oracle)

	gcAt   atomic.Value // "idle" | "gate1" | "gate2"
	gate1  chan struct{}
	gate2  chan struct{}
	ending atomic.Bool

	ref *refDB // independent reference (spec-level oracle)

	watches   []*watchRec
	pendingIW []*watchRec // InsertWatch channels handed out in the open transaction

	gcMu        sync.Mutex
	gcGoid      uint64
	graveAtScan []int
	gcLockBad   string

	// `at <point> <k>`: the next k op lines are executed when the following operation reaches <point>
	inject    []string
	injectAt  string
	injectN   int
	injecting bool
	out       *hx.Out

	// C08 oracles (independent of the model)
	tombs     []*tomb           // deletions committed while iterators were open and not yet handed to all of them
	gcScanSeq int               // event counter value at the last gcscan that found the collector at its gate
	events    int               // counts commits, marks and closes (anything that can change what is collectable)
	gcCleanAt int               // events value for which a complete scan+apply has run (-1: none)
	gcIdleAt  int               // events value at which the collector was observed idle with no pending trigger (-1: none)
	commitSeq int               // number of user commits so far
	lastLive  []map[string]bool // live primary keys per table at the last commit
}

// tomb: a committed deletion that some open iterators have not been handed yet
type tomb struct {
	tab     int
	pk      string
	waiting map[int]bool // iterator ids
}

var cur atomic.Pointer[eng]

func goid() uint64 {
	var buf [64]byte
	n := runtime.Stack(buf[:], false)
	f := bytes.Fields(buf[:n])
	id, _ := strconv.ParseUint(string(f[1]), 10, 64)
	return id
}

func init() {
	// C10 oracle: the collector may only take the locks of tables it has something to collect from
	statedb.VerifSetLockHook(func(event string, seq uint64) {
		e := cur.Load()
		if e == nil || e.ending.Load() || event != "locking" {
			return
		}
		e.gcMu.Lock()
		defer e.gcMu.Unlock()
		if e.gcGoid != 0 && goid() == e.gcGoid {
			for i, t := range e.tabs {
				if statedb.VerifTableSeq(t) == seq && i < len(e.graveAtScan) && e.graveAtScan[i] == 0 {
					e.gcLockBad = fmt.Sprintf(" !BAD:C10:collector-locks-table-without-garbage(t%d)", i)
				}
			}
		}
	})
	statedb.VerifHook = func(point, who string) {
		e := cur.Load()
		if e == nil || e.ending.Load() {
			return
		}
		if who != "gc" {
			// deterministic interleaving: operations deferred by an `at <point> <k>` op run here, inside the
			// operation that reaches the hook point (same goroutine)
			if e.injectAt == point && len(e.inject) > 0 && !e.injecting {
				e.injecting = true
				lines := e.inject
				e.inject, e.injectAt = nil, ""
				for _, l := range lines {
					e.Op(strings.Fields(l), l, e.out)
				}
				e.injecting = false
			}
			return
		}
		switch point {
		case "gc-scanned":
			e.gcMu.Lock()
			e.gcGoid = goid()
			e.graveAtScan = nil
			rtxn := e.db.ReadTxn()
			for _, t := range e.tabs {
				e.graveAtScan = append(e.graveAtScan, statedb.VerifGraveyardLen(rtxn, t))
			}
			e.gcMu.Unlock()
		}
		switch point {
		case "gc-triggered":
			e.gcAt.Store("gate1")
			<-e.gate1
			e.gcAt.Store("idle")
		case "gc-scanned":
			e.gcAt.Store("gate2")
			<-e.gate2
			e.gcAt.Store("idle")
		}
	}
}

func (e *eng) Case(id string) {
	*e = eng{}
	e.db = statedb.New()
	statedb.VerifSetGCRateLimitInterval(e.db, time.Millisecond)
	e.locked = map[int]bool{}
	e.snaps = map[int]*snapRec{}
	e.iters = map[int]*iterState{}
	e.inits = map[string]func(statedb.WriteTxn){}
	e.initW = map[int]<-chan struct{}{}
	e.gate1 = make(chan struct{})
	e.gate2 = make(chan struct{})
	e.gcCleanAt = -1
	e.gcIdleAt = -1
	e.lastLive = []map[string]bool{{}, {}}
	e.gcAt.Store("idle")
	for i := 0; i < 2; i++ {
		var t statedb.RWTable[*Obj]
		var err error
		if i == 1 {
			t, err = statedb.NewTable(e.db, fmt.Sprintf("t%d", i), idIndex, uIndex, nIndex, luIndexIP, lnIndexIP)
		} else {
			t, err = statedb.NewTable(e.db, fmt.Sprintf("t%d", i), idIndex, uIndex, nIndex, luIndex, lnIndex)
		}
		if err != nil {
			panic(err)
		}
		e.tabs = append(e.tabs, t)
	}
	e.ref = newRefDB(2)
	cur.Store(e)
	e.db.Start()
}

func (e *eng) CaseEnd() {
	e.ending.Store(true)
	for _, is := range e.iters {
		if is.stop != nil {
			is.stop()
		}
	}
	if e.wtxn != nil {
		e.wtxn.Abort()
		e.wtxn = nil
	}
	close(e.gate1)
	close(e.gate2)
	for _, is := range e.iters {
		is.it.Close()
	}
	e.db.Stop()
	cur.Store(nil)
}

// ---------------------------------------------------------------- parsing helpers
func parseList(s string) [][]byte {
	inner := s[1 : len(s)-1]
	if inner == "" {
		return [][]byte{}
	}
	var out [][]byte
	for _, p := range strings.Split(inner, ",") {
		out = append(out, hx.UnHex(p))
	}
	return out
}
func atoi(s string) int { n, _ := strconv.Atoi(s); return n }

func objS(o *Obj, rev uint64) string { return fmt.Sprintf("%s/%d@%d", hx.Hex(o.ID), o.Val, rev) }

func errS(err error) string {
	switch {
	case err == nil:
		return "ok"
	case strings.Contains(err.Error(), statedb.ErrObjectNotFound.Error()):
		return "notfound"
	case strings.Contains(err.Error(), statedb.ErrRevisionNotEqual.Error()):
		return "revmismatch"
	case strings.Contains(err.Error(), statedb.ErrTableNotLockedForWriting.Error()):
		return "notlocked"
	case strings.Contains(err.Error(), statedb.ErrTransactionClosed.Error()):
		return "closed"
	}
	return "other:" + hx.PanicClass(err.Error())
}

func seqS(seq iter.Seq2[*Obj, statedb.Revision]) string {
	var parts []string
	for o, rev := range seq {
		parts = append(parts, objS(o, rev))
	}
	return "[" + strings.Join(parts, " ") + "]"
}

func (e *eng) source(s string) (statedb.ReadTxn, bool) {
	switch {
	case s == "txn":
		if e.wtxn == nil {
			return nil, false
		}
		return e.wtxn, true
	case s == "fresh":
		return e.db.ReadTxn(), true
	default:
		r, ok := e.snaps[atoi(s[1:])]
		if !ok {
			return nil, false
		}
		return r.txn, true
	}
}

func (e *eng) query(kind string, key []byte) statedb.Query[*Obj] {
	switch kind {
	case "lu", "ln":
		panic("lpm query through query()")
	case "id":
		return idIndex.Query(key)
	case "u":
		return uIndex.Query(key)
	case "n":
		return nIndex.Query(key)
	case "rev":
		var r uint64
		if len(key) == 8 {
			r = binary.BigEndian.Uint64(key)
		}
		return statedb.ByRevision[*Obj](r)
	}
	panic("bad index kind " + kind)
}

// leftovers: per table, the number of registered delete trackers and of retained deletions, the initialization
// state and the revision in the committed state
func (e *eng) leftovers() string {
	rtxn := e.db.ReadTxn()
	var parts []string
	for _, t := range e.tabs {
		ini, _ := t.Initialized(rtxn)
		parts = append(parts, fmt.Sprintf("%d/%d/%v%v/r%d", statedb.VerifDeleteTrackerCount(rtxn, t), statedb.VerifGraveyardLen(rtxn, t),
			ini, t.PendingInitializers(rtxn), t.Revision(rtxn)))
	}
	return strings.Join(parts, ",")
}

// dump: everything a snapshot can be asked, through every index (C01 oracle)
func (e *eng) dump(txn statedb.ReadTxn) string {
	var sb strings.Builder
	for i, t := range e.tabs {
		fmt.Fprintf(&sb, "t%d rev=%d num=%d all=%s", i, t.Revision(txn), t.NumObjects(txn), seqS(t.All(txn)))
		fmt.Fprintf(&sb, " u=%s n=%s nlb=%s rev=%s", seqS(t.Prefix(txn, uIndex.Query([]byte{}))), seqS(t.Prefix(txn, nIndex.Query([]byte{}))),
			seqS(t.LowerBound(txn, nIndex.Query([]byte{}))), seqS(t.LowerBound(txn, statedb.ByRevision[*Obj](0))))
		fmt.Fprintf(&sb, " lu=%s ln=%s", seqS(t.Prefix(txn, lq(i, "lu", LKey{}, false))), seqS(t.Prefix(txn, lq(i, "ln", LKey{}, false))))
		// point lookups: every object the snapshot lists is found under its primary key, under each of its
		// unique keys and among the objects of each of its non-unique keys (descents that compare node prefixes,
		// not only full iteration)
		var miss []string
		for o, rev := range t.All(txn) {
			if g, grev, ok := t.Get(txn, idIndex.Query(o.ID)); !ok || g != o || grev != rev {
				miss = append(miss, "id:"+hx.Hex(o.ID))
			}
			first := true
			for p := range t.Prefix(txn, idIndex.Query(o.ID)) {
				if first && p != o {
					miss = append(miss, "pfx:"+hx.Hex(o.ID))
				}
				first = false
			}
			if first {
				miss = append(miss, "pfx0:"+hx.Hex(o.ID))
			}
			for _, k := range o.U {
				if g, _, ok := t.Get(txn, uIndex.Query(k)); !ok || g != o {
					miss = append(miss, "u:"+hx.Hex(k))
				}
			}
			for _, k := range o.N {
				in := false
				for g := range t.List(txn, nIndex.Query(k)) {
					in = in || g == o
				}
				if !in {
					miss = append(miss, "n:"+hx.Hex(k))
				}
			}
		}
		fmt.Fprintf(&sb, " miss=%v", miss)
		ini, _ := t.Initialized(txn)
		fmt.Fprintf(&sb, " init=%v pend=%v;", ini, t.PendingInitializers(txn))
	}
	return sb.String()
}

// interfere: another reader (its own ReadTxn) asks point and list queries through every index of the table and
// consumes them; nothing it does may change what a sequence held by someone else yields
func (e *eng) interfere(tab int) {
	defer func() { recover() }()
	t := e.tabs[tab]
	txn := e.db.ReadTxn()
	n := 0
	for o := range t.All(txn) {
		for range t.List(txn, idIndex.Query(o.ID)) {
		}
		for _, k := range o.U {
			for range t.List(txn, uIndex.Query(k)) {
			}
		}
		for _, k := range o.N {
			for range t.List(txn, nIndex.Query(k)) {
			}
		}
		for _, k := range o.LU {
			for range t.List(txn, lq(tab, "lu", k, true)) {
			}
		}
		for range t.LowerBound(txn, idIndex.Query(o.ID)) {
			break
		}
		if n++; n >= 3 {
			break
		}
	}
}

func isClosed(ch <-chan struct{}) bool {
	select {
	case <-ch:
		return true
	default:
		return false
	}
}

// snapshotsFrozen re-queries every retained snapshot (C01 oracle)
func (e *eng) snapshotsFrozen() string {
	n := 0
	for i := len(e.order) - 1; i >= 0 && n < 4; i-- {
		r := e.snaps[e.order[i]]
		n++
		if d := e.dump(r.txn); d != r.dump {
			return fmt.Sprintf(" !BAD:C01:snapshot-s%d-changed", e.order[i])
		}
	}
	return ""
}

func (e *eng) settleGC() { synctest.Wait() }

// livePKs of table tab in a fresh snapshot
func (e *eng) livePKs(tab int) map[string]bool {
	m := map[string]bool{}
	for o := range e.tabs[tab].All(e.db.ReadTxn()) {
		m[string(o.ID)] = true
	}
	return m
}

// afterCommit maintains the tombstone bookkeeping: objects that disappeared while iterators are registered
// must be retained until each of those iterators has been handed the deletion; a key that is live again
// supersedes its tombstone.
func (e *eng) afterCommit() {
	e.events++
	e.commitSeq++
	for tab := range e.tabs {
		now := e.livePKs(tab)
		for pk := range e.lastLive[tab] {
			if !now[pk] {
				w := map[int]bool{}
				for iid, is := range e.iters {
					// registered before this transaction, or created in it while the object was still live
					if is.tab == tab && !is.void && (is.registered || is.liveAtCreation[pk]) {
						w[iid] = true
					}
				}
				if len(w) > 0 {
					e.tombs = append(e.tombs, &tomb{tab: tab, pk: pk, waiting: w})
				}
			}
		}
		var keep []*tomb
		for _, t := range e.tombs {
			if t.tab == tab && now[t.pk] {
				continue // re-inserted
			}
			keep = append(keep, t)
		}
		e.tombs = keep
		e.lastLive[tab] = now
	}
	for _, is := range e.iters {
		if !is.void {
			is.registered = true // iterators created in the transaction that just committed are registered now
		}
	}
}

// c08Oracle: (lower bound) every tombstone still awaited by an open iterator is in the graveyard;
// (upper bound) when a complete collection ran after the last event and nobody awaits anything, it is empty.
func (e *eng) c08Oracle() string {
	for tab, t := range e.tabs {
		n := statedb.VerifGraveyardLen(e.db.ReadTxn(), t)
		need := 0
		for _, tb := range e.tombs {
			if tb.tab == tab && len(tb.waiting) > 0 {
				need++
			}
		}
		if n < need {
			return fmt.Sprintf(" !BAD:C08:dropped-before-handed(t%d:have%d,need%d)", tab, n, need)
		}
		// every open iterator on the table has consumed a fresh snapshot of the current state to completion
		// (or there is none), and the collector has completed a run or is idle with nothing pending since:
		// nothing may be retained
		allCaughtUp := true
		for _, is := range e.iters {
			if is.tab == tab && !is.void && is.caughtUpSeq != e.commitSeq {
				allCaughtUp = false
			}
		}
		if allCaughtUp && (e.gcCleanAt == e.events || e.gcIdleAt == e.events) && n != 0 {
			return fmt.Sprintf(" !BAD:C08:not-collected-although-all-caught-up(t%d:%d)", tab, n)
		}
	}
	return ""
}

// runQuery evaluates the query words q (as in a `q` op, without source and table) on txn
func (e *eng) runQuery(txn statedb.ReadTxn, tab int, q []string) (res string, watch <-chan struct{}) {
	t := e.tabs[tab]
	mkq := func() statedb.Query[*Obj] {
		switch q[1] {
		case "lu", "ln":
			return lq(tab, q[1], parseLKey(q[2]), q[0] == "get" || q[0] == "list")
		}
		return e.query(q[1], hx.UnHex(q[2]))
	}
	switch q[0] {
	case "get":
		o, rev, w, found := t.GetWatch(txn, mkq())
		if found {
			return objS(o, rev), w
		}
		return "none", w
	case "list":
		seq, w := t.ListWatch(txn, mkq())
		return seqS(seq), w
	case "prefix":
		seq, w := t.PrefixWatch(txn, mkq())
		return seqS(seq), w
	case "lb":
		seq, w := t.LowerBoundWatch(txn, mkq())
		return seqS(seq), w
	case "all":
		seq, w := t.AllWatch(txn)
		return seqS(seq), w
	}
	return "?", nil
}

// watchOracle checks the retained watch channels after `event` (C06):
// commit: a channel whose query result on a fresh snapshot differs from the result it was handed
// out with must be closed by now (no missed change); abort/other: no channel may have closed.
func (e *eng) watchOracle(event string) string {
	bad := ""
	fresh := e.db.ReadTxn()
	for i, w := range e.watches {
		if w.dead {
			continue
		}
		nowClosed := isClosed(w.ch)
		if nowClosed && !w.closed && event != "commit" {
			bad = fmt.Sprintf(" !BAD:C06:closed-by-%s(w%d)", event, i)
		}
		w.closed = nowClosed
		if w.inTxn != 0 && w.inTxn == e.txnSerial {
			switch event {
			case "abort":
				w.dead = true
				continue
			case "commit":
				// a handle taken inside the transaction that has just committed. What the transaction's own later
				// writes do to it is mechanism level (9.3): every query kind except Get through a unique index
				// freezes the index transaction first, so the channel is closed by this commit if the answer changed;
				// reported through the payload of the commit line (the model prints none). From now on it is a handle
				// on committed state: every LATER transaction that changes the answer must close it.
				cur, _ := e.runQuery(fresh, w.tab, w.q)
				getUnique := w.q[0] == "get" && (w.q[1] == "id" || w.q[1] == "u" || w.q[1] == "rev")
				if !nowClosed && cur != w.result && !getUnique {
					e.txnMissed++
				}
				w.result, w.fromTxn, w.inTxn = cur, false, 0
				continue
			}
		}
		if event == "commit" && !nowClosed && !w.fromTxn {
			var cur string
			if w.q != nil {
				cur, _ = e.runQuery(fresh, w.tab, w.q)
			} else {
				o, rev, found := e.tabs[w.tab].Get(fresh, idIndex.Query(w.pk))
				cur = "none"
				if found {
					cur = objS(o, rev)
				}
			}
			if cur != w.result {
				bad = fmt.Sprintf(" !BAD:C06:missed-change(w%d:%s->%s)", i, strings.ReplaceAll(w.result, " ", "_"), strings.ReplaceAll(cur, " ", "_"))
			}
		}
	}
	return bad
}

// ---------------------------------------------------------------- ops
func (e *eng) Op(f []string, line string, out *hx.Out) {
	e.out = out
	if f[0] == "at" {
		e.injectAt, e.injectN, e.inject = f[1], atoi(f[2]), nil
		out.P("M:* ok")
		return
	}
	if e.injectN > 0 && !e.injecting {
		e.injectN--
		e.inject = append(e.inject, line) // printed when executed inside the next operation
		return
	}
	if !e.injecting && len(e.inject) > 0 {
		defer func() {
			// the hook point was not reached by this operation: run the deferred ops now (keeps the line count)
			if len(e.inject) > 0 {
				lines := e.inject
				e.inject, e.injectAt = nil, ""
				e.injecting = true
				for _, l := range lines {
					e.Op(strings.Fields(l), l, out)
				}
				e.injecting = false
			}
		}()
	}
	bad := ""
	emit := func(tag, format string, a ...any) {
		if bad == "" && e.wtxn == nil {
			bad = e.c08Oracle()
		}
		e.gcMu.Lock()
		if bad == "" && e.gcLockBad != "" {
			bad, e.gcLockBad = e.gcLockBad, ""
		}
		e.gcMu.Unlock()
		out.P("%s %s%s%s", tag, fmt.Sprintf(format, a...), bad, e.snapshotsFrozen())
	}
	switch f[0] {
	case "begin":
		if e.wtxn != nil {
			emit("M:*", "n/a")
			return
		}
		var metas []statedb.TableMeta
		e.locked = map[int]bool{}
		if f[1] != "-" {
			for _, s := range strings.Split(f[1], ",") {
				metas = append(metas, e.tabs[atoi(s)])
				e.locked[atoi(s)] = true
			}
		}
		e.wtxn = e.db.WriteTxn(metas...)
		e.txnSerial++
		e.atBegin = e.leftovers()
		e.ref.begin(e.locked)
		emit("M:*", "ok")
	case "insert", "insertw", "modify", "cas", "ainsert":
		i := 1
		tab := atoi(f[i])
		i++
		guard := uint64(0)
		if f[0] == "cas" {
			g, _ := strconv.ParseUint(f[i], 10, 64)
			guard = g
			i++
		}
		o := &Obj{ID: hx.UnHex(f[i]), Val: atoi(f[i+1]), U: parseList(f[i+2]), N: parseList(f[i+3]),
			LU: parseLKeys(f[i+4]), LN: parseLKeys(f[i+5])}
		w := e.handle()
		var (
			old    *Obj
			hadOld bool
			err    error
			oldRev uint64
		)
		if hadCur, rev := e.curRev(w, tab, o.ID); hadCur {
			oldRev = rev
		}
		switch f[0] {
		case "insert":
			old, hadOld, err = e.tabs[tab].Insert(w, o)
		case "ainsert":
			// the untyped API (any_table.go)
			var a any
			a, hadOld, err = statedb.AnyTable{Meta: e.tabs[tab]}.Insert(w, o)
			if hadOld {
				old = a.(*Obj)
			}
		case "insertw":
			var wch <-chan struct{}
			old, hadOld, wch, err = e.tabs[tab].InsertWatch(w, o)
			if err == nil && e.wtxn != nil {
				_, rev, _ := e.tabs[tab].Get(e.wtxn, idIndex.Query(o.ID))
				if isClosed(wch) {
					bad = " !BAD:C06:insertwatch-closed-when-handed-out"
				}
				e.pendingIW = append(e.pendingIW, &watchRec{ch: wch, tab: tab, pk: o.ID, result: objS(o, rev)})
			}
		case "modify":
			old, hadOld, err = e.tabs[tab].Modify(w, o, func(old, new *Obj) *Obj {
				return &Obj{ID: new.ID, Val: old.Val + new.Val, U: new.U, N: new.N, LU: new.LU, LN: new.LN}
			})
		case "cas":
			old, hadOld, err = e.tabs[tab].CompareAndSwap(w, guard, o)
		}
		res := e.writeS(old, hadOld, oldRev, err)
		refKind := f[0]
		if refKind == "insertw" || refKind == "ainsert" {
			refKind = "insert"
		}
		if want := e.ref.modify(tab, refKind, guard, o, e.wtxn != nil); want != res {
			bad = fmt.Sprintf(" !BAD:C03:write-result(want:%s)", strings.ReplaceAll(want, " ", "_"))
		}
		emit("P:C03,C09,C04", "%s", res)
	case "delete", "cad", "adelete":
		tab := atoi(f[1])
		i := 2
		guard := uint64(0)
		if f[0] == "cad" {
			g, _ := strconv.ParseUint(f[i], 10, 64)
			guard = g
			i++
		}
		o := &Obj{ID: hx.UnHex(f[i])}
		w := e.handle()
		var oldRev uint64
		if hadCur, rev := e.curRev(w, tab, o.ID); hadCur {
			oldRev = rev
		}
		var (
			old    *Obj
			hadOld bool
			err    error
		)
		if f[0] == "delete" {
			old, hadOld, err = e.tabs[tab].Delete(w, o)
		} else if f[0] == "adelete" {
			var a any
			a, hadOld, err = statedb.AnyTable{Meta: e.tabs[tab]}.Delete(w, o)
			if hadOld {
				old = a.(*Obj)
			}
		} else {
			old, hadOld, err = e.tabs[tab].CompareAndDelete(w, guard, o)
		}
		res := e.writeS(old, hadOld, oldRev, err)
		if want := e.ref.delete(tab, f[0] == "cad", guard, o.ID, e.wtxn != nil); want != res {
			bad = fmt.Sprintf(" !BAD:C03:write-result(want:%s)", strings.ReplaceAll(want, " ", "_"))
		}
		emit("P:C03,C09,C04", "%s", res)
	case "deleteall":
		tab := atoi(f[1])
		if e.wtxn == nil {
			emit("M:*", "n/a")
			return
		}
		err := e.tabs[tab].DeleteAll(e.wtxn)
		e.ref.deleteAll(tab)
		emit("P:C03,C09,C04", "err=%s", errS(err))
	case "commit":
		if e.wtxn == nil {
			emit("M:*", "n/a")
			return
		}
		rtxn := e.wtxn.Commit()
		e.finished = append(e.finished, e.wtxn)
		e.wtxn = nil
		e.ref.commit()
		sid := atoi(f[1])
		e.snaps[sid] = &snapRec{txn: rtxn, dump: e.dump(rtxn)}
		e.order = append(e.order, sid)
		// C02 oracle: the snapshot returned by Commit shows exactly the committed state
		if d := e.dump(e.db.ReadTxn()); d != e.snaps[sid].dump {
			bad = " !BAD:C02:commit-snapshot-differs-from-fresh"
		}
		if b := e.refCheckAll(rtxn, "C02:commit-state"); b != "" {
			bad = b
		}
		e.afterCommit()
		e.settleGC()
		// InsertWatch channels of the committed transaction guard the object version they were handed out for
		e.watches = append(e.watches, e.pendingIW...)
		e.pendingIW = nil
		e.txnMissed = 0
		if b := e.watchOracle("commit"); b != "" {
			bad = b
		}
		if e.txnMissed > 0 {
			emit("M:*", "ok handles-taken-inside-the-transaction-not-closed-by-its-commit=%d", e.txnMissed)
		} else {
			emit("M:*", "ok")
		}
	case "abort":
		if e.wtxn == nil {
			emit("M:*", "n/a")
			return
		}
		before := e.dump(e.db.ReadTxn())
		e.wtxn.Abort()
		e.finished = append(e.finished, e.wtxn)
		e.wtxn = nil
		for _, is := range e.iters {
			if !is.registered {
				is.void = true
			}
		}
		e.ref.abort()
		if d := e.dump(e.db.ReadTxn()); d != before {
			bad = " !BAD:C02:abort-changed-committed-state"
		}
		// nothing else can have committed since this transaction began (single goroutine, the collector is gated):
		// the registered change iterators and the retained deletions of the committed state are those of its begin
		if l := e.leftovers(); l != e.atBegin {
			bad = " !BAD:C02:aborted-transaction-left-a-trace(" + e.atBegin + "->" + l + ")"
		}
		e.pendingIW = nil
		if b := e.watchOracle("abort"); b != "" {
			bad = b
		}
		emit("M:*", "ok")
	case "late":
		// Abort / Commit on the handles of transactions that have already finished (a deferred Abort after a
		// Commit is the documented idiom): no effect on anything, in particular not on the transaction open now
		for _, w := range e.finished {
			if f[1] == "commit" {
				w.Commit()
			} else {
				w.Abort()
			}
		}
		emit("M:*", "ok")
	case "snap":
		sid := atoi(f[1])
		rtxn := e.db.ReadTxn()
		e.snaps[sid] = &snapRec{txn: rtxn, dump: e.dump(rtxn)}
		e.order = append(e.order, sid)
		emit("M:*", "ok")
	case "wq":
		// wq <src> <tab> <query...>: like q, but through the *Watch variant; the channel is retained
		txn, ok := e.source(f[1])
		if !ok || (len(f) > 5 && (f[4] == "lu" || f[4] == "ln") && (f[3] == "get" || f[3] == "list") && parseLKey(f[5]).Len != 16) {
			emit("M:*", "n/a")
			return
		}
		tab := atoi(f[2])
		res, ch := e.runQuery(txn, tab, f[3:])
		if f[1] == "fresh" && isClosed(ch) {
			bad = " !BAD:C06:closed-when-handed-out"
		}
		// the result the channel guards: that of the committed state the snapshot shows; for queries
		// inside the open write transaction nothing is claimed about missed changes
		e.watches = append(e.watches, &watchRec{ch: ch, tab: tab, q: f[3:], result: res, fromTxn: f[1] == "txn", closed: isClosed(ch)})
		if f[1] == "txn" && e.wtxn != nil {
			e.watches[len(e.watches)-1].inTxn = e.txnSerial
		}
		if f[1] != "txn" && f[1] != "fresh" {
			// an old snapshot: the result may already be stale; remember what a fresh one says only if equal
			if cur, _ := e.runQuery(e.db.ReadTxn(), tab, f[3:]); cur != res {
				e.watches[len(e.watches)-1].fromTxn = true // no missed-change claim
			}
		}
		emit("P:C04,C06,C01,C05", "%s", res)
	case "q":
		txn, ok := e.source(f[1])
		if !ok {
			emit("M:*", "n/a")
			return
		}
		tab := atoi(f[2])
		t := e.tabs[tab]
		tag := "P:C04,C03,C09,C01,C02"
		var res string
		mkq := func() statedb.Query[*Obj] {
			switch f[4] {
			case "lu", "ln":
				return lq(tab, f[4], parseLKey(f[5]), f[3] == "get" || f[3] == "list")
			}
			return e.query(f[4], hx.UnHex(f[5]))
		}
		if len(f) > 5 && (f[4] == "lu" || f[4] == "ln") && (f[3] == "get" || f[3] == "list") && parseLKey(f[5]).Len != 16 {
			// Get/List through an LPM index are specified for full-length keys only
			emit("M:*", "n/a")
			return
		}
		switch f[3] {
		case "get":
			o, rev, found := t.Get(txn, mkq())
			if found {
				res = objS(o, rev)
			} else {
				res = "none"
			}
		case "list", "prefix", "lb", "all":
			mk := func() iter.Seq2[*Obj, statedb.Revision] {
				switch f[3] {
				case "list":
					return t.List(txn, mkq())
				case "prefix":
					return t.Prefix(txn, mkq())
				case "lb":
					return t.LowerBound(txn, mkq())
				}
				return t.All(txn)
			}
			// the sequence is taken, another reader queries the same indexes, and only then is it consumed (twice):
			// it must yield what an immediately consumed one yields
			held := mk()
			e.interfere(tab)
			// a consumer may stop early (break) and range over the sequence again: it starts from the beginning
			first := ""
			for o, rev := range held {
				first = objS(o, rev)
				break
			}
			res = seqS(held)
			if (first == "") != (res == "[]") || (first != "" && !strings.HasPrefix(res, "["+first)) {
				bad += " !BAD:C04:sequence-after-early-break-differs"
			}
			again, fresh := seqS(held), seqS(mk())
			if res != fresh || again != fresh {
				bad = " !BAD:C01:held-sequence-changed-by-other-reader-or-by-consuming-it"
			}
			if again != res {
				// the answer of a query is a sequence: ranging over it a second time yields the same objects
				bad += " !BAD:C04:result-sequence-not-repeatable"
			}
		case "num":
			res = strconv.Itoa(t.NumObjects(txn))
		case "rev":
			res = strconv.FormatUint(t.Revision(txn), 10)
			tag = "P:C09,C01,C02"
		case "gnum":
			res = strconv.Itoa(statedb.VerifGraveyardLen(txn, t))
			tag = "M:C08"
		case "init":
			ini, w := t.Initialized(txn)
			pend := t.PendingInitializers(txn)
			ps := make([]string, len(pend))
			copy(ps, pend)
			res = fmt.Sprintf("init=%s pending=[%s] wclosed=%s", b2s(ini), strings.Join(ps, ","), b2s(isClosed(w)))
			tag = "P:C19"
			// C19 oracle: the watch is closed iff initialized (for a committed snapshot)
			if f[1] == "fresh" && ini != isClosed(w) {
				bad = " !BAD:C19:watch-closed-iff-initialized"
			}
			if ini != (len(pend) == 0) {
				bad = " !BAD:C19:initialized-iff-no-pending"
			}
		}
		if tag == "P:C04,C03,C09,C01,C02" {
			tag += ",C05" // what fresh readers and the writer see after commits: no committed write lost
			if len(f) > 4 && (f[4] == "lu" || f[4] == "ln") {
				tag += ",C13" // answered by the table's LPM index (lpm_index.go over lpm/trie.go), old snapshots included
			}
		}
		// spec-level oracle (independent Go reference) for queries on the live state
		if f[1] == "txn" || f[1] == "fresh" {
			if want, ok := e.ref.query(f[1] == "txn", tab, f[3:]); ok && want != res {
				bad += fmt.Sprintf(" !BAD:C04:query(want:%s)", strings.ReplaceAll(want, " ", "_"))
			}
		}
		emit(tag, "%s", res)
	case "aq":
		// the query of a `q` op through statedb.AnyTable (index and key given as strings) and the sequence helpers
		// Map / Filter / Collect / ToSeq / Values of iterator.go
		txn, ok := e.source(f[1])
		if !ok {
			emit("M:*", "n/a")
			return
		}
		tab := atoi(f[2])
		at := statedb.AnyTable{Meta: e.tabs[tab]}
		lpmIdx := len(f) > 5 && (f[4] == "lu" || f[4] == "ln")
		if lpmIdx && (f[3] == "get" || f[3] == "list") && parseLKey(f[5]).Len != 16 {
			emit("M:*", "n/a")
			return
		}
		key := ""
		if len(f) > 5 {
			key = f[5]
			if lpmIdx {
				key = lkeyString(tab, parseLKey(f[5]), f[3] == "get" || f[3] == "list")
			}
		}
		typed := func(seq iter.Seq2[any, statedb.Revision]) iter.Seq2[*Obj, statedb.Revision] {
			return statedb.Filter(statedb.Map(seq, func(a any) *Obj { return a.(*Obj) }), func(o *Obj) bool { return o != nil })
		}
		var res string
		var err error
		switch f[3] {
		case "get":
			var a any
			var rev statedb.Revision
			var found bool
			a, rev, found, err = at.Get(txn, f[4], key)
			if found {
				res = objS(a.(*Obj), rev)
			} else {
				res = "none"
			}
		case "num":
			res = strconv.Itoa(at.NumObjects(txn))
		default:
			var seq iter.Seq2[any, statedb.Revision]
			switch f[3] {
			case "list":
				seq, err = at.List(txn, f[4], key)
			case "prefix":
				seq, err = at.Prefix(txn, f[4], key)
			case "lb":
				seq, err = at.LowerBound(txn, f[4], key)
			default:
				seq = at.All(txn)
			}
			if err == nil {
				res = seqS(typed(seq))
				// Collect / ToSeq / Values see the same sequence
				objs := statedb.Collect(typed(seq))
				n, m := 0, 0
				for range statedb.ToSeq(typed(seq)) {
					n++
				}
				for range statedb.Values(typed(seq)) {
					m++
				}
				if len(objs) != n || n != m || (len(objs) == 0) != (res == "[]") {
					bad = " !BAD:C04:sequence-helpers-disagree"
				}
			}
		}
		if err != nil {
			res = "err:" + hx.PanicClass(err.Error())
		}
		tag := "P:C04,C03,C09,C01,C02,C05"
		if lpmIdx {
			tag += ",C13"
		}
		if f[1] == "txn" || f[1] == "fresh" {
			if want, ok := e.ref.query(f[1] == "txn", tab, f[3:]); ok && want != res {
				bad += fmt.Sprintf(" !BAD:C04:query(want:%s)", strings.ReplaceAll(want, " ", "_"))
			}
		}
		emit(tag, "%s", res)
	case "changes":
		iid, tab := atoi(f[1]), atoi(f[2])
		if e.wtxn == nil {
			emit("M:C07", "err=closed")
			return
		}
		it, err := e.tabs[tab].Changes(e.wtxn)
		if err == nil {
			lac := map[string]bool{}
			for o := range e.tabs[tab].All(e.wtxn) {
				lac[string(o.ID)] = true
			}
			e.iters[iid] = &iterState{it: it, id: iid, tab: tab, caughtUpSeq: -1, liveAtCreation: lac, replay: map[string]string{}, created: e.tabs[tab].Revision(e.wtxn)}
			// the iterator observes the objects existing at creation through its first Next
		}
		emit("M:C07,C08", "err=%s", errS(err))
	case "next":
		iid := atoi(f[1])
		is, ok := e.iters[iid]
		txn, ok2 := e.source(f[2])
		if !ok || !ok2 {
			emit("M:C07", "n/a")
			return
		}
		if is.stop != nil {
			is.stop() // the previous sequence is abandoned (break)
			is.stop, is.next = nil, nil
		}
		seq, watch := is.it.Next(txn)
		closed := isClosed(watch)
		is.next, is.stop = iter.Pull2(seq)
		delivered, done := e.consume(is, f[3], &bad)
		if !closed && len(delivered) > 0 {
			bad = " !BAD:C07:open-watch-but-delivered"
		}
		if closed {
			is.lastSnap = e.tableContents(txn, is.tab)
		}
		if closed && done {
			e.checkConverged(is, &bad)
		}
		if done && f[2] == "fresh" && e.wtxn == nil {
			is.caughtUpSeq = e.commitSeq
		}
		if !closed && f[2] == "fresh" && e.wtxn == nil && is.complete {
			is.caughtUpSeq = e.commitSeq // idle: nothing new since the last complete consumption
		}
		emit("M:C07,C08", "[%s] wclosed=%s", strings.Join(delivered, " "), b2s(closed))
	case "resume":
		iid := atoi(f[1])
		is, ok := e.iters[iid]
		if !ok {
			emit("M:C07", "n/a")
			return
		}
		if is.next == nil {
			emit("M:C07,C08", "[] wclosed=1")
			return
		}
		delivered, done := e.consume(is, f[2], &bad)
		if done {
			e.checkConverged(is, &bad)
		}
		emit("M:C07,C08", "[%s] wclosed=1", strings.Join(delivered, " "))
	case "close":
		iid := atoi(f[1])
		is, ok := e.iters[iid]
		if !ok || e.wtxn != nil {
			emit("M:C07", "n/a")
			return
		}
		if is.stop != nil {
			is.stop()
		}
		is.it.Close()
		delete(e.iters, iid)
		e.events++
		for _, tb := range e.tombs {
			delete(tb.waiting, iid)
		}
		e.ref.closeIter(is.tab)
		e.settleGC()
		emit("M:C07,C08", "ok")
	case "gcscan":
		time.Sleep(10 * time.Millisecond)
		synctest.Wait()
		if e.gcAt.Load() == "gate1" {
			e.gcScanSeq = e.events
			e.gate1 <- struct{}{}
			synctest.Wait()
			emit("M:C08", "1")
		} else {
			if e.gcAt.Load() == "idle" {
				e.gcIdleAt = e.events
			}
			emit("M:C08", "0")
		}
	case "gcapply":
		if e.gcAt.Load() == "gate2" && e.wtxn == nil {
			e.gate2 <- struct{}{}
			time.Sleep(10 * time.Millisecond)
			synctest.Wait()
			if e.gcScanSeq == e.events {
				e.gcCleanAt = e.events // a complete run whose scan saw everything that has happened so far
			}
			emit("M:C08", "1")
		} else {
			emit("M:C08", "0")
		}
	case "probe":
		// directed scenarios with implementation-only oracles (probe.go); first op of a case of their own
		bad := ""
		switch f[1] {
		case "sidewriter":
			for _, b := range e.probeSideWriter() {
				bad += " !BAD:C07:" + b
			}
		}
		emit("P:C07,C02,C01", "probe ok%s", bad)
	case "regdup":
		// registering a table under a name that is taken is rejected with the documented error and must leave
		// the database usable (no lock may stay held)
		dup, err := statedb.NewTable(e.db, "t0", idIndex)
		res := "other"
		if err != nil && strings.Contains(err.Error(), statedb.ErrDuplicateTable.Error()) {
			res = "duplicate"
		} else if err == nil {
			res = "accepted"
		}
		// the table value whose registration failed is not part of the database: it cannot be write-locked
		// (WriteTxn panics with ErrTableNotRegistered)
		bad := ""
		if dup != nil && res == "duplicate" {
			func() {
				defer func() { recover() }()
				w := e.db.WriteTxn(dup)
				bad = " !BAD:C05:unregistered-table-write-locked"
				w.Abort()
			}()
			// ... nor may a request that names it together with registered tables leave THEIR locks held when it is
			// rejected (the caller gets no handle to abort): the following transactions of the case would hang
			// (S4-C10-2: the registration check moved behind the lock acquisition)
			if e.wtxn == nil {
				func() {
					defer func() { recover() }()
					w := e.db.WriteTxn(e.tabs[1], dup, e.tabs[0])
					bad = " !BAD:C05:unregistered-table-write-locked"
					w.Abort()
				}()
			}
		}
		emit("P:C10,C05", "err=%s%s", res, bad)
	case "reginit":
		tab, name := atoi(f[1]), f[2]
		if e.wtxn == nil {
			emit("M:C19", "n/a")
			return
		}
		func() {
			defer func() {
				if r := recover(); r != nil {
					emit("P:C19", "panic")
				}
			}()
			done := e.tabs[tab].RegisterInitializer(e.wtxn, name)
			e.inits[f[1]+"/"+name] = done
			emit("P:C19", "ok")
		}()
	case "initdone":
		tab, name := atoi(f[1]), f[2]
		done, ok := e.inits[f[1]+"/"+name]
		if e.wtxn == nil {
			emit("M:C19", "n/a")
			return
		}
		if !ok {
			// never registered (e.g. the registration was removed by the shrinker): nothing to call;
			// report what calling a done function would do so that the case stays meaningful
			if e.locked[tab] {
				emit("P:C19", "ok")
			} else {
				emit("P:C19", "panic")
			}
			return
		}
		func() {
			defer func() {
				if r := recover(); r != nil {
					emit("P:C19", "panic")
				}
			}()
			done(e.wtxn)
			emit("P:C19", "ok")
		}()
	default:
		out.P("E unknown op: %s", line)
	}
}

func b2s(b bool) string {
	if b {
		return "1"
	}
	return "0"
}

// handle returns the write transaction handle to use; a finished transaction's handle is kept
// so that writes through it exercise ErrTransactionClosed.
var lastHandle statedb.WriteTxn

func (e *eng) handle() statedb.WriteTxn {
	if e.wtxn != nil {
		lastHandle = e.wtxn
		return e.wtxn
	}
	if lastHandle == nil {
		w := e.db.WriteTxn()
		w.Abort()
		lastHandle = w
	}
	return lastHandle
}

func (e *eng) curRev(w statedb.WriteTxn, tab int, id []byte) (bool, uint64) {
	if e.wtxn == nil {
		return false, 0
	}
	_, rev, ok := e.tabs[tab].Get(e.wtxn, idIndex.Query(id))
	return ok, rev
}

func (e *eng) writeS(old *Obj, hadOld bool, oldRev uint64, err error) string {
	o := "none"
	if hadOld {
		o = objS(old, oldRev)
	}
	return fmt.Sprintf("old=%s err=%s", o, errS(err))
}

func (e *eng) itersOn(tab int) []*iterState {
	var r []*iterState
	for _, is := range e.iters {
		if is.tab == tab {
			r = append(r, is)
		}
	}
	return r
}

// consume takes `take` elements ("all" = run to completion) from the iterator's pulled sequence.
func (e *eng) consume(is *iterState, take string, bad *string) (delivered []string, done bool) {
	n := -1
	if take != "all" {
		n = atoi(take)
	}
	for n != 0 {
		ch, rev, ok := is.next()
		if !ok {
			is.next, is.stop = nil, nil
			is.complete = true
			return delivered, true
		}
		is.complete = false
		if rev <= is.lastRev {
			*bad = fmt.Sprintf(" !BAD:C07:revision-not-strictly-increasing(%d<=%d)", rev, is.lastRev)
		}
		is.lastRev = rev
		if ch.Revision != rev {
			*bad = " !BAD:C07:change-revision-mismatch"
		}
		pk := string(ch.Object.ID)
		if ch.Deleted {
			e.events++
			for _, tb := range e.tombs {
				if tb.tab == is.tab && tb.pk == pk {
					delete(tb.waiting, is.id)
				}
			}
			delete(is.replay, pk)
			delivered = append(delivered, objS(ch.Object, rev)+"-")
			e.settleGC() // dt.mark ran just before this element was yielded
		} else {
			is.replay[pk] = fmt.Sprintf("%d@%d", ch.Object.Val, rev)
			delivered = append(delivered, objS(ch.Object, rev)+"+")
		}
		if n > 0 {
			n--
		}
	}
	return delivered, false
}

// tableContents: pk -> val@rev of the committed state a transaction sees for Next
func (e *eng) tableContents(txn statedb.ReadTxn, tab int) string {
	// Next reads the committed root: for a WriteTxn that is the state at WriteTxn time.
	var parts []string
	if w, ok := txn.(statedb.WriteTxn); ok && e.wtxn != nil && w == e.wtxn {
		return e.ref.committedContents(tab)
	}
	for o, rev := range e.tabs[tab].All(txn) {
		parts = append(parts, fmt.Sprintf("%s=%d@%d", hx.Hex(o.ID), o.Val, rev))
	}
	sort.Strings(parts)
	return strings.Join(parts, ",")
}

// checkConverged: replaying everything delivered so far yields exactly the snapshot (C07)
func (e *eng) checkConverged(is *iterState, bad *string) {
	var parts []string
	for pk, v := range is.replay {
		parts = append(parts, fmt.Sprintf("%s=%s", hx.Hex([]byte(pk)), v))
	}
	sort.Strings(parts)
	got := strings.Join(parts, ",")
	if got != is.lastSnap {
		*bad = fmt.Sprintf(" !BAD:C07:replay-does-not-converge(replay:%s;snapshot:%s)", got, is.lastSnap)
	}
}

// refCheckAll compares the full contents of both tables with the reference (used at commit)
func (e *eng) refCheckAll(txn statedb.ReadTxn, clause string) string {
	for i, t := range e.tabs {
		want, _ := e.ref.query(false, i, []string{"all"})
		if got := seqS(t.All(txn)); got != want {
			return fmt.Sprintf(" !BAD:%s(t%d)", clause, i)
		}
	}
	return ""
}

var _ = bytes.Compare

func main() { hx.MainBubble(&eng{}) }
