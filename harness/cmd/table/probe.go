package main

// Directed scenarios the model's operation language cannot express (it has ONE open write transaction at a time),
// run on the case's fresh database and judged by implementation-only oracles; the model answers the constant
// "probe ok" (a search for a failing history, not part of the proof).

import (
	"fmt"
	"sort"
	"strings"

	"github.com/cilium/statedb"
)

func (e *eng) probeContents(txn statedb.ReadTxn, tab int) string {
	var parts []string
	for o, rev := range e.tabs[tab].All(txn) {
		parts = append(parts, fmt.Sprintf("%x/%d@%d", o.ID, o.Val, rev))
	}
	sort.Strings(parts)
	return strings.Join(parts, " ")
}

func replayS(m map[string]string) string {
	parts := make([]string, 0, len(m))
	for _, v := range m {
		parts = append(parts, v)
	}
	sort.Strings(parts)
	return strings.Join(parts, " ")
}

// probeSideWriter: C07 "replaying everything delivered so far yields exactly the objects and revisions of that
// snapshot ... whatever kind of transaction is passed to Next". The transaction passed is a WriteTxn that does NOT
// lock the observed table (statedb.Derive does this), and ANOTHER writer commits to the observed table while it
// is open: the write transaction's view of that table is the one from its start, and that is what Next must
// converge to (S4-C07-3: committedRoot() read the database's current root).
func (e *eng) probeSideWriter() (bad []string) {
	t0, t1 := e.tabs[0], e.tabs[1]
	mk := func(id byte, v int) *Obj {
		return &Obj{ID: []byte{id}, Val: v, U: [][]byte{}, N: [][]byte{}, LU: []LKey{}, LN: []LKey{}}
	}
	w := e.db.WriteTxn(t0)
	for i := byte(1); i <= 3; i++ {
		t0.Insert(w, mk(i, 1))
	}
	it, err := t0.Changes(w)
	if err != nil {
		return []string{"changes-failed"}
	}
	w.Commit()
	replay := map[string]string{}
	feed := func(txn statedb.ReadTxn) {
		changes, _ := it.Next(txn)
		for ch, rev := range changes {
			if ch.Deleted {
				delete(replay, string(ch.Object.ID))
			} else {
				replay[string(ch.Object.ID)] = fmt.Sprintf("%x/%d@%d", ch.Object.ID, ch.Object.Val, rev)
			}
		}
	}
	feed(e.db.ReadTxn())
	if got, want := replayS(replay), e.probeContents(e.db.ReadTxn(), 0); got != want {
		bad = append(bad, "initial-replay-differs")
	}
	for round := 0; round < 2; round++ {
		outer := e.db.WriteTxn(t1) // does not lock t0
		if round == 1 {
			t1.Insert(outer, mk(9, 9))
		}
		mid := e.db.ReadTxn()
		side := e.db.WriteTxn(t0)
		t0.Insert(side, mk(1, 10+round))      // update
		t0.Insert(side, mk(byte(4+round), 1)) // insert
		if o, _, ok := t0.Get(side, idIndex.Query([]byte{byte(3 - round)})); ok {
			t0.Delete(side, o) // delete
		}
		side.Commit()
		feed(outer) // the snapshot passed is the open write transaction: its view of t0 predates the side writer
		if got, want := replayS(replay), e.probeContents(outer, 0); got != want {
			bad = append(bad, fmt.Sprintf("next-with-wtxn-of-another-table-runs-ahead-of-its-snapshot(round%d)", round))
		}
		feed(mid) // a read snapshot taken before the side writer committed, not older than the previous one
		if got, want := replayS(replay), e.probeContents(mid, 0); got != want && len(bad) == 0 {
			bad = append(bad, fmt.Sprintf("next-with-older-read-snapshot-differs(round%d)", round))
		}
		if round == 0 {
			outer.Commit()
		} else {
			outer.Abort()
		}
		feed(e.db.ReadTxn())
		if got, want := replayS(replay), e.probeContents(e.db.ReadTxn(), 0); got != want {
			bad = append(bad, fmt.Sprintf("replay-after-side-writer-differs(round%d)", round))
		}
	}
	it.Close()
	return bad
}
