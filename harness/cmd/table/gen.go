package main

// Pure generator of table-engine cases. All choices derive from the hx.Rand passed in.
// A shadow copy of the reference (refDB) is only used to pick interesting arguments
// (existing keys, exact / stale guard revisions); it never decides verdicts.

import (
	"fmt"
	"sort"
	"strings"

	"verif/harness/hx"
)

var idAlphabet = []byte{0x00, 0x01, 0x02, 0x61, 0xff}

type genState struct {
	r        *hx.Rand
	out      *hx.Out
	prop     string
	sh       *refDB
	open     bool
	locked   map[int]bool
	ids      [][]byte // pool of primary keys of this case
	nkeys    [][]byte // pool of non-unique keys
	lkeys    []LKey   // pool of LPM prefixes (<= 16 bits)
	snaps    []int
	nextSnap int
	nextIter int
	iters    map[int]int  // iid -> tab
	fresh    map[int]bool // created in the currently open txn
	itSnap   map[int]int  // iid -> index into snaps of the last snapshot passed to Next (monotone)
	gcPhase  int          // rough: 0 idle, 1 scanned
	inits    map[string]bool
	inits2   map[string]bool // names 4..7 of the aborted-registration pattern
	nextInit int
	qword    string
}

func randKey(r *hx.Rand, maxLen int) []byte {
	l := r.Intn(maxLen + 1)
	b := make([]byte, l)
	for i := range b {
		b[i] = hx.Pick(r, idAlphabet)
	}
	return b
}

func listS2(ks [][]byte) string {
	parts := make([]string, len(ks))
	for i, k := range ks {
		parts[i] = hx.Hex(k)
	}
	return "[" + strings.Join(parts, ",") + "]"
}

func (g *genState) emit(format string, a ...any) { g.out.P(format, a...) }

func (g *genState) weight(base int, props string, boost int) int {
	if g.prop != "" && strings.Contains(props, g.prop) {
		return base * boost
	}
	return base
}

func (g *genState) pickID() []byte {
	if g.r.Chance(85) {
		return hx.Pick(g.r, g.ids)
	}
	return randKey(g.r, 3)
}

func (g *genState) newObj() *Obj {
	id := g.pickID()
	o := &Obj{ID: id, Val: 1 + g.r.Intn(9)}
	// unique keys: derived from the primary key so that no two live objects share one
	// ('/' = 0x2f never occurs in ids): id itself and id/<suffix>
	nu := hx.Pick(g.r, []int{0, 0, 1, 1, 2, 3})
	sufs := [][]byte{nil, {0x2f}, {0x2f, 0x00}, {0x2f, 0x01}, {0x2f, 0xff}, {0x2f, 0x62}}
	o.U = [][]byte{}
	for i := 0; i < nu; i++ {
		s := hx.Pick(g.r, sufs)
		o.U = append(o.U, append(append([]byte{}, id...), s...))
	}
	nn := hx.Pick(g.r, []int{0, 1, 1, 1, 2, 3})
	o.N = [][]byte{}
	for i := 0; i < nn; i++ {
		o.N = append(o.N, hx.Pick(g.r, g.nkeys))
	}
	// unique LPM keys: the 16-bit prefix derived from the id (unique per object) and nothing else;
	// non-unique LPM keys: shared pool
	o.LU, o.LN = []LKey{}, []LKey{}
	if g.r.Chance(40) {
		o.LU = append(o.LU, uniqueLKey(id))
	}
	for i := hx.Pick(g.r, []int{0, 0, 1, 1, 2, 3}); i > 0; i-- {
		o.LN = append(o.LN, hx.Pick(g.r, g.lkeys))
	}
	return o
}

// uniqueLKey maps a primary key (length <= 3 over the 5-letter alphabet) injectively to a 16-bit prefix
func uniqueLKey(id []byte) LKey {
	v := len(id)                                             // 0..3
	letters := append(append([]byte{}, idAlphabet...), 0x62) // every byte that can occur in a generated id
	for _, b := range id {
		d := 0
		for i, a := range letters {
			if a == b {
				d = i
			}
		}
		v = v*len(letters) + d
	}
	v = v*4 + len(id)
	return LKey{Data: []byte{byte(v >> 8), byte(v)}, Len: 16}
}

func lkeyS(k LKey) string { return fmt.Sprintf("%s:%d", hx.Hex(k.Data), k.Len) }
func lkeysS(ks []LKey) string {
	parts := make([]string, len(ks))
	for i, k := range ks {
		parts[i] = lkeyS(k)
	}
	return "[" + strings.Join(parts, ",") + "]"
}

func (g *genState) randLKey() LKey {
	l := hx.Pick(g.r, []int{0, 1, 2, 3, 7, 8, 9, 12, 15, 16})
	hi := hx.Pick(g.r, []byte{0x00, 0x80, 0xc0, 0xa0, 0x0a, 0xff})
	lo := hx.Pick(g.r, []byte{0x00, 0x80, 0x01, 0xff})
	data := []byte{hi, lo}
	// mask to the prefix length so that equal prefixes have equal text
	for bit := l; bit < 16; bit++ {
		data[bit/8] &^= 0x80 >> uint(bit%8)
	}
	return LKey{Data: data, Len: l}
}

func (g *genState) objArgs(o *Obj) string {
	return fmt.Sprintf("%s %d %s %s %s %s", hx.Hex(o.ID), o.Val, listS2(o.U), listS2(o.N), lkeysS(o.LU), lkeysS(o.LN))
}

func (g *genState) guardFor(tab int, id []byte) uint64 {
	var cur uint64
	if g.sh.txn != nil {
		if ro, ok := g.sh.txn[tab].live[string(id)]; ok {
			cur = ro.rev
		}
	}
	switch g.r.Intn(10) {
	case 0, 1, 2, 3, 4:
		if cur != 0 {
			return cur
		}
		return uint64(1 + g.r.Intn(5))
	case 5:
		if cur > 1 {
			return cur - 1
		}
		return cur + 1
	case 6:
		return cur + 1
	default:
		return uint64(1 + g.r.Intn(12))
	}
}

func (g *genState) queryOp(src string, tab int) {
	kinds := []string{"get", "list", "prefix", "lb", "all", "num", "rev"}
	k := hx.Pick(g.r, kinds)
	g.qword = "q"
	if k != "num" && k != "rev" && g.r.Chance(g.weight(12, "C06", 6)) {
		g.qword = "wq" // keep the watch channel of this query (C06)
	} else if k != "rev" && g.r.Chance(12) {
		g.qword = "aq" // the same query through the untyped, string-keyed API (any_table.go) and the sequence helpers
	}
	switch k {
	case "all", "num", "rev":
		g.emit("%s %s %d %s", g.qword, src, tab, k)
		return
	}
	idx := hx.Pick(g.r, []string{"id", "u", "n", "n", "n", "rev", "lu", "ln", "ln"})
	if g.qword == "aq" && idx == "rev" {
		g.qword = "q" // the revision index has no string form
	}
	if idx == "lu" || idx == "ln" {
		var lk LKey
		switch {
		case k == "get" || k == "list":
			// full-length query: extend a pool prefix (or a random one) to 16 bits
			lk = hx.Pick(g.r, g.lkeys)
			if g.r.Chance(30) {
				lk = g.randLKey()
			}
			d := []byte{lk.Data[0], lk.Data[1]}
			if g.r.Chance(60) {
				for bit := lk.Len; bit < 16; bit++ {
					if g.r.Chance(50) {
						d[bit/8] |= 0x80 >> uint(bit%8)
					}
				}
			}
			lk = LKey{Data: d, Len: 16}
		case g.r.Chance(70):
			lk = hx.Pick(g.r, g.lkeys)
			if lk.Len > 0 && g.r.Chance(40) { // an ancestor
				nl := g.r.Intn(lk.Len)
				d := []byte{lk.Data[0], lk.Data[1]}
				for bit := nl; bit < 16; bit++ {
					d[bit/8] &^= 0x80 >> uint(bit%8)
				}
				lk = LKey{Data: d, Len: nl}
			}
		default:
			lk = g.randLKey()
		}
		g.emit("%s %s %d %s %s %s", g.qword, src, tab, k, idx, lkeyS(lk))
		return
	}
	var key []byte
	switch idx {
	case "id":
		key = g.pickID()
		if k == "prefix" && len(key) > 0 && g.r.Chance(60) {
			key = key[:g.r.Intn(len(key))]
		}
	case "u":
		key = g.pickID()
		if g.r.Chance(60) {
			key = append(append([]byte{}, key...), hx.Pick(g.r, [][]byte{{0x2f}, {0x2f, 0x00}, {0x2f, 0x01}, {0x2f, 0xff}})...)
		}
		if k == "prefix" && len(key) > 0 && g.r.Chance(50) {
			key = key[:g.r.Intn(len(key))]
		}
	case "n":
		key = hx.Pick(g.r, g.nkeys)
		if g.r.Chance(15) {
			key = randKey(g.r, 3)
		}
		if (k == "prefix" || k == "lb") && len(key) > 0 && g.r.Chance(50) {
			key = key[:g.r.Intn(len(key))]
		}
	case "rev":
		if k == "prefix" {
			k = "lb"
		}
		rv := uint64(g.r.Intn(14))
		key = make([]byte, 8)
		key[7] = byte(rv)
	}
	g.emit("%s %s %d %s %s %s", g.qword, src, tab, k, idx, hx.Hex(key))
}

func (g *genState) writeOp() {
	tab := g.r.Intn(2)
	if g.r.Chance(90) {
		// prefer a locked table
		for t := range g.locked {
			if g.r.Chance(60) {
				tab = t
			}
		}
	}
	total := 0
	w := func(n int) int { total += n; return total }
	wIns := w(35)
	wMod := w(10)
	wCas := w(g.weight(12, "C03 C09", 2))
	wDel := w(g.weight(15, "C07 C08", 2))
	wCad := w(g.weight(8, "C03 C09", 2))
	wAll := w(2)
	x := g.r.Intn(total)
	switch {
	case x < wIns:
		o := g.newObj()
		word := "insert"
		if g.r.Chance(g.weight(8, "C06", 5)) {
			word = "insertw" // InsertWatch: the channel closes when that object is next changed
		} else if g.r.Chance(6) {
			word = "ainsert" // through statedb.AnyTable
		}
		g.emit("%s %d %s", word, tab, g.objArgs(o))
		g.sh.modify(tab, "insert", 0, o, g.open)
	case x < wMod:
		o := g.newObj()
		g.emit("modify %d %s", tab, g.objArgs(o))
		g.sh.modify(tab, "modify", 0, o, g.open)
	case x < wCas:
		o := g.newObj()
		gd := g.guardFor(tab, o.ID)
		g.emit("cas %d %d %s", tab, gd, g.objArgs(o))
		g.sh.modify(tab, "cas", gd, o, g.open)
	case x < wDel:
		id := g.pickID()
		word := "delete"
		if g.r.Chance(6) {
			word = "adelete" // through statedb.AnyTable
		}
		g.emit("%s %d %s", word, tab, hx.Hex(id))
		g.sh.delete(tab, false, 0, id, g.open)
	case x < wCad:
		id := g.pickID()
		gd := g.guardFor(tab, id)
		g.emit("cad %d %d %s", tab, gd, hx.Hex(id))
		g.sh.delete(tab, true, gd, id, g.open)
	case x < wAll:
		if g.open {
			g.emit("deleteall %d", tab)
			g.sh.deleteAll(tab)
		}
	}
}

func (g *genState) snapSrc() string {
	if len(g.snaps) == 0 || g.r.Chance(30) {
		return "fresh"
	}
	return fmt.Sprintf("s%d", hx.Pick(g.r, g.snaps))
}

func (g *genState) iterOp() {
	if len(g.iters) == 0 {
		return
	}
	var ids []int
	for id := 0; id < g.nextIter; id++ {
		if _, ok := g.iters[id]; ok && !g.fresh[id] {
			ids = append(ids, id)
		}
	}
	if len(ids) == 0 {
		return
	}
	iid := hx.Pick(g.r, ids)
	take := "all"
	if g.r.Chance(35) {
		take = fmt.Sprint(1 + g.r.Intn(3))
	}
	switch x := g.r.Intn(100); {
	case x < 55:
		// monotone choice of snapshots: fresh, or a snapshot not older than the last one used
		src := "fresh"
		if g.r.Chance(25) {
			last := g.itSnap[iid]
			if last < len(g.snaps) {
				k := last + g.r.Intn(len(g.snaps)-last)
				src = fmt.Sprintf("s%d", g.snaps[k])
				g.itSnap[iid] = k
			}
		} else if g.open && g.r.Chance(30) {
			src = "txn"
		}
		if src == "fresh" || src == "txn" {
			g.itSnap[iid] = len(g.snaps)
		}
		g.emit("next %d %s %s", iid, src, take)
	case x < 75:
		g.emit("resume %d %s", iid, take)
	case x < 85:
		if !g.open {
			if g.r.Chance(40) {
				// another iterator is created (its transaction commits) while Close is on its way to the table
				// lock: the ops run inside Close at its first hook point, which precedes all of its effects
				tab := g.iters[iid]
				g.emit("at wtxn-before-lock 3")
				g.emit("begin %d", tab)
				g.emit("changes %d %d", g.nextIter, tab)
				g.emit("commit %d", g.nextSnap)
				g.iters[g.nextIter] = tab
				g.itSnap[g.nextIter] = len(g.snaps)
				g.nextIter++
				g.snaps = append(g.snaps, g.nextSnap)
				g.nextSnap++
			}
			g.emit("close %d", iid)
			delete(g.iters, iid)
		}
	default:
		g.emit("q fresh %d gnum", g.iters[iid])
	}
}

func (g *genState) gcOp() {
	// scan and apply are often separated by other operations (iterator progress, closes, writes):
	// the collector paused between its lock-free scan and its write transaction
	switch x := g.r.Intn(100); {
	case x < 40:
		g.emit("gcscan")
		if !g.open {
			g.emit("gcapply")
			g.emit("q fresh %d gnum", g.r.Intn(2))
		}
	case x < 70:
		g.emit("gcscan")
	default:
		if !g.open || g.r.Chance(10) {
			g.emit("gcapply")
			g.emit("q fresh %d gnum", g.r.Intn(2))
		}
	}
}

func (g *genState) initOp() {
	tab := g.r.Intn(2)
	if g.r.Chance(50) || len(g.inits) == 0 {
		name := fmt.Sprint(1 + g.r.Intn(3))
		g.emit("reginit %d %s", tab, name)
		g.inits[fmt.Sprintf("%d/%s", tab, name)] = true
	} else {
		var keys []string
		for i := 0; i < 2; i++ {
			for n := 1; n <= 3; n++ {
				k := fmt.Sprintf("%d/%d", i, n)
				if g.inits[k] {
					keys = append(keys, k)
				}
			}
		}
		k := hx.Pick(g.r, keys)
		parts := strings.Split(k, "/")
		g.emit("initdone %s %s", parts[0], parts[1])
	}
}

func (g *genState) observe() {
	for n := g.r.Intn(3); n >= 0; n-- {
		src := g.snapSrc()
		if g.open && g.r.Chance(50) {
			src = "txn"
		}
		g.queryOp(src, g.r.Intn(2))
	}
	if g.weight(1, "C19", 5) > 1 || g.r.Chance(10) {
		g.emit("q %s %d init", g.snapSrc(), g.r.Intn(2))
	}
}

func (g *genState) genCase(id string) {
	r := g.r
	g.emit("#case %s", id)
	g.sh = newRefDB(2)
	g.open = false
	g.ids, g.nkeys = nil, nil
	for i := 0; i < 3+r.Intn(5); i++ {
		g.ids = append(g.ids, randKey(r, 2))
	}
	if r.Chance(30) { // keys that are prefixes of one another
		base := randKey(r, 2)
		g.ids = append(g.ids, base, append(append([]byte{}, base...), hx.Pick(r, idAlphabet)))
	}
	if r.Chance(35) { // a key that is a proper prefix of several keys sharing the next byte (single-child inner node)
		base := randKey(r, 1)
		x := hx.Pick(r, idAlphabet)
		k1 := append(append([]byte{}, base...), x, 0x61)
		k2 := append(append([]byte{}, base...), x, 0xff)
		g.ids = append(g.ids, base, k1, k2)
		if r.Chance(50) {
			g.ids = append(g.ids, append(append([]byte{}, base...), x, 0x62))
		}
	}
	for i := 0; i < 2+r.Intn(4); i++ {
		g.nkeys = append(g.nkeys, randKey(r, 2))
	}
	if r.Chance(50) {
		g.nkeys = append(g.nkeys, []byte{})
	}
	if r.Chance(60) { // keys whose escaped form differs from the raw form in the first bytes
		g.nkeys = append(g.nkeys, []byte{0x01, hx.Pick(r, []byte{0x61, 0xff, 0x02})})
		if r.Chance(50) {
			g.nkeys = append(g.nkeys, []byte{0x61, 0x01, 0x61}, []byte{0x00, 0xff})
		}
	}
	g.lkeys = nil
	for i := 0; i < 2+r.Intn(4); i++ {
		g.lkeys = append(g.lkeys, g.randLKey())
	}
	g.snaps, g.nextSnap, g.nextIter = nil, 0, 0
	g.iters, g.fresh, g.itSnap = map[int]int{}, map[int]bool{}, map[int]int{}
	g.inits = map[string]bool{}
	g.inits2 = map[string]bool{}
	wantIters := g.weight(30, "C07 C08 C01 C02 C05", 3)
	wantInit := g.weight(6, "C19", 10)
	if r.Chance(g.weight(5, "C19 C06", 5)) {
		// a waiter holds the initialization channel while one initializer is pending; ONE transaction marks it done
		// and registers another (the table is not initialized at its commit: the channel stays open); when the
		// second one is marked done the table is initialized and the waiter's channel must be closed
		tb := r.Intn(2)
		g.locked = map[int]bool{tb: true}
		step := func(ops ...string) {
			g.emit("begin %d", tb)
			g.sh.begin(g.locked)
			for _, o := range ops {
				g.emit("%s", o)
			}
			g.emit("commit %d", g.nextSnap)
			g.sh.commit()
			g.snaps = append(g.snaps, g.nextSnap)
			g.nextSnap++
		}
		step(fmt.Sprintf("reginit %d 7", tb))
		waiter := g.snaps[len(g.snaps)-1]
		g.emit("q s%d %d init", waiter, tb)
		if r.Chance(50) {
			step(fmt.Sprintf("initdone %d 7", tb), fmt.Sprintf("reginit %d 8", tb))
		} else {
			step(fmt.Sprintf("initdone %d 7", tb), fmt.Sprintf("q txn %d init", tb), fmt.Sprintf("reginit %d 8", tb), fmt.Sprintf("reginit %d 9", tb), fmt.Sprintf("initdone %d 9", tb))
		}
		g.emit("q s%d %d init", waiter, tb)
		g.emit("q fresh %d init", tb)
		step(fmt.Sprintf("initdone %d 8", tb))
		g.emit("q s%d %d init", waiter, tb)
		g.emit("q fresh %d init", tb)
	}
	if r.Chance(g.weight(12, "C07 C08", 3)) {
		// change iterators created on never-written tables (revision 0), kept behind the others
		g.emit("begin 0,1")
		g.open = true
		g.locked = map[int]bool{0: true, 1: true}
		g.sh.begin(g.locked)
		for tb := 0; tb < 2; tb++ {
			if r.Chance(70) {
				g.emit("changes %d %d", g.nextIter, tb)
				g.iters[g.nextIter] = tb
				g.itSnap[g.nextIter] = 0
				g.nextIter++
			}
		}
		g.emit("commit %d", g.nextSnap)
		g.snaps = append(g.snaps, g.nextSnap)
		g.nextSnap++
		g.sh.commit()
		g.open = false
	}
	ntxn := 3 + r.Intn(8)
	for t := 0; t < ntxn; t++ {
		// ---- a write transaction
		var tabs []string
		g.locked = map[int]bool{}
		switch r.Intn(10) {
		case 0, 1, 2, 3:
			tabs = []string{"0"}
		case 4, 5:
			tabs = []string{"1"}
		case 6, 7:
			tabs = []string{"1", "0"}
		case 8:
			tabs = []string{"0", "0", "1", "0"}
		default:
			tabs = nil
		}
		for _, s := range tabs {
			g.locked[atoi(s)] = true
		}
		if len(tabs) == 0 {
			g.emit("begin -")
		} else {
			g.emit("begin %s", strings.Join(tabs, ","))
		}
		g.open = true
		g.sh.begin(g.locked)
		if r.Chance(8) {
			g.emit("late %s", hx.Pick(r, []string{"abort", "abort", "commit"}))
		}
		nops := 1 + r.Intn(8)
		for i := 0; i < nops; i++ {
			// Next with the open write transaction right after it deleted/changed something
			// (only committed changes may be delivered)
			if len(g.iters) > 0 && r.Chance(g.weight(4, "C07 C08 C02", 4)) {
				for id := 0; id < g.nextIter; id++ {
					tab, ok := g.iters[id]
					if !ok || g.fresh[id] || !g.locked[tab] {
						continue
					}
					if r.Chance(60) {
						did := g.pickID()
						g.emit("delete %d %s", tab, hx.Hex(did))
						g.sh.delete(tab, false, 0, did, g.open)
					} else {
						o := g.newObj()
						g.emit("insert %d %s", tab, g.objArgs(o))
						g.sh.modify(tab, "insert", 0, o, g.open)
					}
					take := "all"
					if r.Chance(30) {
						take = "1"
					}
					g.emit("next %d txn %s", id, take)
					g.itSnap[id] = len(g.snaps)
					break
				}
			}
			// read - write - read inside ONE transaction: the same iterating query on the transaction before and
			// after a single write of any kind on that table (a transaction reads its own writes through every
			// index; S4-C03-1: a cached iterator snapshot that Modify forgot to drop), sometimes followed by
			// DeleteAll, which deletes what such an iteration yields
			if len(g.locked) > 0 && r.Chance(g.weight(5, "C03 C04 C01 C09", 3)) {
				var lt []int
				for tb := range g.locked {
					lt = append(lt, tb)
				}
				tab := lt[r.Intn(len(lt))]
				var q string
				switch r.Intn(7) {
				case 0, 1:
					q = "all"
				case 2:
					k := g.pickID()
					if len(k) > 0 {
						k = k[:r.Intn(len(k))]
					}
					q = "prefix id " + hx.Hex(k)
				case 3:
					q = "lb id " + hx.Hex(g.pickID())
				case 4:
					q = "prefix n " + hx.Hex(hx.Pick(r, g.nkeys))
				case 5:
					q = "lb rev 0000000000000000"
				default:
					q = "list n " + hx.Hex(hx.Pick(r, g.nkeys))
				}
				g.emit("q txn %d %s", tab, q)
				saved := g.locked
				g.locked = map[int]bool{tab: true} // writeOp prefers a locked table: make it this one
				if r.Chance(55) {
					o := g.newObj()
					g.emit("modify %d %s", tab, g.objArgs(o))
					g.sh.modify(tab, "modify", 0, o, g.open)
				} else {
					g.writeOp()
				}
				g.locked = saved
				g.emit("q txn %d %s", tab, q)
				if r.Chance(25) {
					g.emit("deleteall %d", tab)
					g.sh.deleteAll(tab)
					g.emit("q txn %d all", tab)
				}
			}
			switch x := r.Intn(100); {
			case x < 60:
				g.writeOp()
			case x < 75:
				g.observe()
			case x < 75+wantIters/6 && len(g.locked) > 0:
				var lt []int
				for tb := range g.locked {
					lt = append(lt, tb)
				}
				tab := lt[0]
				if len(lt) > 1 && r.Chance(50) {
					tab = lt[1]
				}
				g.emit("changes %d %d", g.nextIter, tab)
				g.iters[g.nextIter] = tab
				g.fresh[g.nextIter] = true
				g.itSnap[g.nextIter] = 0
				g.nextIter++
			case x < 92:
				g.iterOp()
			case x < 92+wantInit/6:
				g.initOp()
			default:
				g.writeOp()
			}
		}
		if r.Chance(75) {
			g.emit("commit %d", g.nextSnap)
			for id := range g.fresh {
				// snapshots older than the iterator's creation must not be passed to its Next
				g.itSnap[id] = len(g.snaps)
			}
			g.snaps = append(g.snaps, g.nextSnap)
			g.nextSnap++
			g.sh.commit()
			g.fresh = map[int]bool{}
		} else {
			g.emit("abort")
			g.sh.abort()
			// iterators created in the aborted transaction are not registered: drop them (closed, or just kept
			// reachable and never used again: nothing of them may remain in the committed state either way)
			var fr []int
			for id := range g.fresh {
				fr = append(fr, id)
			}
			sort.Ints(fr)
			for _, id := range fr {
				if r.Chance(50) {
					g.emit("close %d", id)
				}
				delete(g.iters, id)
			}
			g.fresh = map[int]bool{}
		}
		g.open = false
		// ---- between transactions
		if len(g.inits) > 0 && r.Chance(g.weight(4, "C19 C02", 8)) {
			// an initializer marked done in a transaction that aborts, then again in one that commits
			var keys []string
			for i := 0; i < 2; i++ {
				for n := 1; n <= 3; n++ {
					if k := fmt.Sprintf("%d/%d", i, n); g.inits[k] {
						keys = append(keys, k)
					}
				}
			}
			k := strings.Split(hx.Pick(r, keys), "/")
			g.emit("begin %s", k[0])
			g.emit("initdone %s %s", k[0], k[1])
			g.emit("q txn %s init", k[0])
			g.emit("abort")
			g.emit("q fresh %s init", k[0])
			g.emit("begin %s", k[0])
			g.emit("initdone %s %s", k[0], k[1])
			g.emit("commit %d", g.nextSnap)
			g.snaps = append(g.snaps, g.nextSnap)
			g.nextSnap++
			g.emit("q fresh %s init", k[0])
		}
		if r.Chance(g.weight(3, "C19 C02 C01", 5)) {
			// a table gets a pending initializer (committed), then a further one is registered in a multi-table
			// transaction that aborts: the committed state, old snapshots and a later registration of the same name
			// are as if it had never run
			tb := r.Intn(2)
			n1, n2 := fmt.Sprint(4+r.Intn(2)), fmt.Sprint(6+r.Intn(2))
			if !g.inits2[fmt.Sprintf("%d/%s", tb, n1)] && !g.inits2[fmt.Sprintf("%d/%s", tb, n2)] {
				g.emit("begin %d", tb)
				g.emit("reginit %d %s", tb, n1)
				g.emit("commit %d", g.nextSnap)
				g.snaps = append(g.snaps, g.nextSnap)
				g.nextSnap++
				g.inits2[fmt.Sprintf("%d/%s", tb, n1)] = true
				g.inits2[fmt.Sprintf("%d/%s", tb, n2)] = true
				g.emit("begin 0,1")
				g.emit("reginit %d %s", tb, n2)
				g.emit("q txn %d init", tb)
				g.emit("abort")
				g.emit("q fresh %d init", tb)
				if r.Chance(50) {
					g.emit("begin %d", tb)
					g.emit("reginit %d %s", tb, n2)
					g.emit("initdone %d %s", tb, n2)
					g.emit("initdone %d %s", tb, n1)
					g.emit("commit %d", g.nextSnap)
					g.snaps = append(g.snaps, g.nextSnap)
					g.nextSnap++
					g.emit("q fresh %d init", tb)
				}
			}
		}
		if r.Chance(g.weight(4, "C01 C02 C11", 4)) {
			// a key that is a prefix of two others (plus a sibling, so that its node is not the root); a snapshot; then ONE
			// transaction deletes a longer key and then the prefix key itself (the node it sits on was cloned by the
			// first delete and is merged with its last child by the second), committed or aborted; the snapshot and
			// the committed state are then asked for the remaining longer key by point lookup
			tb := r.Intn(2)
			a := hx.Pick(r, idAlphabet)
			var rest []byte
			for _, c := range idAlphabet {
				if c != a {
					rest = append(rest, c)
				}
			}
			x, y, sib := rest[0], rest[1], rest[2]
			if r.Chance(50) {
				x, y = y, x
			}
			ids := [][]byte{{a}, {a, x}, {a, y}, {sib}}
			g.emit("begin %d", tb)
			g.locked = map[int]bool{tb: true}
			g.sh.begin(g.locked)
			for _, id := range ids {
				o := &Obj{ID: id, Val: 1 + r.Intn(9), U: [][]byte{}, N: [][]byte{}, LU: []LKey{}, LN: []LKey{}}
				g.emit("insert %d %s", tb, g.objArgs(o))
				g.sh.modify(tb, "insert", 0, o, true)
			}
			g.emit("commit %d", g.nextSnap)
			g.sh.commit()
			g.snaps = append(g.snaps, g.nextSnap)
			keep := g.nextSnap
			g.nextSnap++
			g.emit("begin %d", tb)
			g.sh.begin(g.locked)
			g.emit("delete %d %s", tb, hx.Hex(ids[1]))
			g.sh.delete(tb, false, 0, ids[1], true)
			g.emit("delete %d %s", tb, hx.Hex(ids[0]))
			g.sh.delete(tb, false, 0, ids[0], true)
			g.emit("q txn %d get id %s", tb, hx.Hex(ids[2]))
			if r.Chance(60) {
				g.emit("commit %d", g.nextSnap)
				g.sh.commit()
				g.snaps = append(g.snaps, g.nextSnap)
				g.nextSnap++
			} else {
				g.emit("abort")
				g.sh.abort()
			}
			g.emit("q s%d %d get id %s", keep, tb, hx.Hex(ids[2]))
			g.emit("q s%d %d prefix id %s", keep, tb, hx.Hex(ids[2]))
			g.emit("q fresh %d get id %s", tb, hx.Hex(ids[2]))
			g.emit("q fresh %d all", tb)
		}
		if r.Chance(g.weight(3, "C06 C12", 5)) {
			// ONE transaction inserts two keys sharing a prefix (it creates and owns the radix node they hang from),
			// takes a watch handle for an absent sibling key through some query kind, and inserts that key: whether its
			// own commit closes the handle is mechanism level (every kind except Get on a unique index freezes the index
			// transaction first); a LATER transaction that deletes the key again must close it in any case
			tb := r.Intn(2)
			a, b := hx.Pick(r, idAlphabet), hx.Pick(r, idAlphabet)
			x, y, z := idAlphabet[0], idAlphabet[1], idAlphabet[2]
			ids := [][]byte{{a, b, x}, {a, b, y}, {a, b, z}}
			mk := func(id []byte) *Obj {
				return &Obj{ID: id, Val: 1 + r.Intn(9), U: [][]byte{}, N: [][]byte{}, LU: []LKey{}, LN: []LKey{}}
			}
			g.emit("begin %d", tb)
			g.locked = map[int]bool{tb: true}
			g.sh.begin(g.locked)
			for _, id := range ids[:2] {
				o := mk(id)
				g.emit("insert %d %s", tb, g.objArgs(o))
				g.sh.modify(tb, "insert", 0, o, true)
			}
			kind := hx.Pick(r, []string{"list", "list", "prefix", "lb", "get"})
			g.emit("wq txn %d %s id %s", tb, kind, hx.Hex(ids[2]))
			o := mk(ids[2])
			g.emit("insert %d %s", tb, g.objArgs(o))
			g.sh.modify(tb, "insert", 0, o, true)
			g.emit("commit %d", g.nextSnap)
			g.sh.commit()
			g.snaps = append(g.snaps, g.nextSnap)
			g.nextSnap++
			g.emit("begin %d", tb)
			g.sh.begin(g.locked)
			g.emit("delete %d %s", tb, hx.Hex(ids[2]))
			g.sh.delete(tb, false, 0, ids[2], true)
			g.emit("commit %d", g.nextSnap)
			g.sh.commit()
			g.snaps = append(g.snaps, g.nextSnap)
			g.nextSnap++
		}
		if r.Chance(g.weight(4, "C07 C08", 4)) {
			// an iterator is created in a write transaction, advanced with that transaction (it observes the
			// committed objects), and only then does the transaction delete one of them: the deletion is made
			// under a tracker that exists only in the transaction's own table entry, and must be retained
			tb := r.Intn(2)
			did := g.pickID()
			id := g.nextIter
			g.nextIter++
			g.emit("begin %d", tb)
			g.emit("changes %d %d", id, tb)
			g.emit("next %d txn all", id)
			g.emit("delete %d %s", tb, hx.Hex(did))
			g.emit("commit %d", g.nextSnap)
			g.locked = map[int]bool{tb: true}
			g.sh.begin(g.locked)
			g.sh.delete(tb, false, 0, did, true)
			g.sh.commit()
			g.snaps = append(g.snaps, g.nextSnap)
			g.nextSnap++
			g.iters[id] = tb
			g.emit("next %d fresh all", id)
			g.itSnap[id] = len(g.snaps)
		}
		if len(g.iters) > 0 && r.Chance(g.weight(5, "C07 C08", 4)) {
			// an iterator is advanced with a write transaction that has deleted an observed object, the transaction
			// commits, a complete collection runs, and only then is the iterator advanced again
			for id := 0; id < g.nextIter; id++ {
				if tb, ok := g.iters[id]; ok && !g.fresh[id] {
					did := g.pickID()
					g.emit("next %d fresh all", id)
					g.emit("begin %d", tb)
					g.emit("delete %d %s", tb, hx.Hex(did))
					g.emit("next %d txn all", id)
					g.emit("commit %d", g.nextSnap)
					g.locked = map[int]bool{tb: true}
					g.sh.begin(g.locked)
					g.sh.delete(tb, false, 0, did, true)
					g.sh.commit()
					g.snaps = append(g.snaps, g.nextSnap)
					g.nextSnap++
					g.emit("gcscan")
					g.emit("gcapply")
					g.emit("next %d fresh all", id)
					g.itSnap[id] = len(g.snaps)
					break
				}
			}
		}
		if len(g.iters) > 0 && r.Chance(g.weight(8, "C08", 5)) {
			// an iterator advances while the collector sits between its scan and its write transaction
			for id := 0; id < g.nextIter; id++ {
				if tb, ok := g.iters[id]; ok && !g.fresh[id] {
					g.emit("next %d fresh 1", id)
					g.emit("gcscan")
					g.emit("next %d fresh all", id)
					g.itSnap[id] = len(g.snaps)
					g.emit("gcapply")
					g.emit("gcscan")
					g.emit("q fresh %d gnum", tb)
					g.emit("gcapply")
					break
				}
			}
		}
		if len(g.iters) > 0 && r.Chance(g.weight(4, "C10 C08", 4)) {
			// the collector scans a tombstone, the object is re-created before the collector's write transaction
			// (nothing is left for it to delete): it must still finish its transaction - the next writer of the table
			// would hang on a table lock that is never released
			var tb, any int = 0, -1
			for id := 0; id < g.nextIter; id++ {
				if t, ok := g.iters[id]; ok && !g.fresh[id] {
					tb, any = t, id
					break
				}
			}
			if any >= 0 {
				catchUp := func() {
					for id := 0; id < g.nextIter; id++ {
						if t, ok := g.iters[id]; ok && t == tb && !g.fresh[id] {
							g.emit("next %d fresh all", id)
							g.itSnap[id] = len(g.snaps)
						}
					}
				}
				txn := func(op string, o *Obj, id []byte) {
					g.emit("begin %d", tb)
					g.locked = map[int]bool{tb: true}
					g.sh.begin(g.locked)
					if op == "insert" {
						g.emit("insert %d %s", tb, g.objArgs(o))
						g.sh.modify(tb, "insert", 0, o, true)
					} else {
						g.emit("delete %d %s", tb, hx.Hex(id))
						g.sh.delete(tb, false, 0, id, true)
					}
					g.emit("commit %d", g.nextSnap)
					g.sh.commit()
					g.snaps = append(g.snaps, g.nextSnap)
					g.nextSnap++
				}
				catchUp()
				g.emit("gcscan")
				g.emit("gcapply") // the graveyard of the table is empty now
				o := g.newObj()
				txn("insert", o, nil)
				txn("delete", nil, o.ID)
				catchUp()
				g.emit("gcscan")
				txn("insert", o, nil)
				g.emit("gcapply")
				o2 := g.newObj()
				txn("insert", o2, nil)
				g.emit("q fresh %d gnum", tb)
			}
		}
		if r.Chance(g.weight(3, "C03 C08 C07", 4)) {
			// a tombstone outlives its last iterator: an object is deleted while an iterator exists, the iterator is
			// closed before the collector runs, the object is re-created while the table has NO iterator (the stale
			// tombstone must go then), a new iterator is registered and the object is deleted again - the deletion
			// must be retained for the new iterator and Delete must return the object (S4-C03-2 / S4-C08-3: the
			// clean-up of the old tombstone on re-insert was tied to the existence of an iterator)
			tb := r.Intn(2)
			for id := 0; id < g.nextIter; id++ {
				if t, ok := g.iters[id]; ok && t == tb {
					g.emit("close %d", id)
					delete(g.iters, id)
					delete(g.fresh, id)
				}
			}
			txn := func(f func()) {
				g.emit("begin %d", tb)
				g.locked = map[int]bool{tb: true}
				g.sh.begin(g.locked)
				f()
				g.emit("commit %d", g.nextSnap)
				g.sh.commit()
				g.snaps = append(g.snaps, g.nextSnap)
				g.nextSnap++
			}
			ins := func(o *Obj, word string) func() {
				return func() {
					g.emit("%s %d %s", word, tb, g.objArgs(o))
					g.sh.modify(tb, word, 0, o, true)
				}
			}
			del := func(id []byte) func() {
				return func() {
					g.emit("delete %d %s", tb, hx.Hex(id))
					g.sh.delete(tb, false, 0, id, true)
				}
			}
			a := g.nextIter
			g.nextIter++
			txn(func() { g.emit("changes %d %d", a, tb) })
			o := g.newObj()
			txn(ins(o, "insert"))
			txn(del(o.ID))
			g.emit("close %d", a)
			// sometimes the collector scans right now - no iterator, a non-empty graveyard - and applies only after
			// the new iterator has been handed its first deletion (S4-C07-2: "no iterators" remembered from the scan)
			scanned := r.Chance(50)
			if scanned {
				g.emit("gcscan")
			}
			oc := *o // the same keys (unique keys are derived from the id), another value
			oc.Val = o.Val%9 + 1
			o2 := &oc
			txn(ins(o2, hx.Pick(r, []string{"insert", "modify"})))
			b := g.nextIter
			g.nextIter++
			if r.Chance(50) {
				txn(func() { g.emit("changes %d %d", b, tb) })
				g.iters[b] = tb
				g.emit("next %d fresh all", b)
				g.itSnap[b] = len(g.snaps)
				txn(del(o.ID))
			} else {
				txn(func() { g.emit("changes %d %d", b, tb); del(o.ID)() })
				g.iters[b] = tb
			}
			if scanned {
				g.emit("gcapply")
			}
			g.emit("next %d fresh all", b)
			g.itSnap[b] = len(g.snaps)
			g.emit("gcscan")
			g.emit("gcapply")
			g.emit("q fresh %d gnum", tb)
		}
		if r.Chance(g.weight(3, "C10 C05", 5)) {
			g.emit("regdup")
		}
		for n := r.Intn(5); n > 0; n-- {
			switch x := r.Intn(100); {
			case x < 25:
				g.emit("snap %d", g.nextSnap)
				g.snaps = append(g.snaps, g.nextSnap)
				g.nextSnap++
			case x < 55:
				g.observe()
			case x < 55+wantIters/2:
				g.iterOp()
			case x < 95:
				g.gcOp()
			default:
				g.writeOp() // through the finished transaction: ErrTransactionClosed
			}
		}
	}
	// final: catch up all iterators, collect, observe everything
	for id := 0; id < g.nextIter; id++ {
		if _, ok := g.iters[id]; ok {
			g.emit("next %d fresh all", id)
		}
	}
	g.emit("gcscan")
	g.emit("gcapply")
	g.emit("gcscan")
	g.emit("gcapply")
	for tb := 0; tb < 2; tb++ {
		g.emit("q fresh %d gnum", tb)
		g.emit("q fresh %d all", tb)
		g.emit("q fresh %d prefix n -", tb)
		g.emit("q fresh %d prefix ln -:0", tb)
		g.emit("q fresh %d lb lu -:0", tb)
		g.emit("q fresh %d lb rev 0000000000000000", tb)
		g.emit("q fresh %d init", tb)
	}
}

func (e *eng) Gen(r *hx.Rand, n int, tier string, prop string, out *hx.Out) {
	out.P("#case probe-sidewriter")
	out.P("probe sidewriter")
	for c := 0; c < n; c++ {
		g := &genState{r: r.Fork(), out: out, prop: prop}
		g.genCase(fmt.Sprintf("%s-%d", prop, c))
	}
}
