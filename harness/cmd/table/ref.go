package main

// Independent, specification-level reference of a table (plain Go maps, brute-force queries):
// the property oracle (!BAD) the implementation's answers are compared with. It knows nothing
// about radix trees, composite keys or reindexing; it states what C03/C04/C09 ask for.

import (
	"bytes"
	"fmt"
	"sort"
	"strconv"
	"strings"

	"verif/harness/hx"
)

type refObj struct {
	o   *Obj
	rev uint64
}

type refTable struct {
	rev  uint64
	live map[string]refObj
}

func (t *refTable) clone() *refTable {
	c := &refTable{rev: t.rev, live: map[string]refObj{}}
	for k, v := range t.live {
		c.live[k] = v
	}
	return c
}

type refDB struct {
	committed []*refTable
	txn       []*refTable
	locked    map[int]bool
}

func newRefDB(n int) *refDB {
	r := &refDB{}
	for i := 0; i < n; i++ {
		r.committed = append(r.committed, &refTable{live: map[string]refObj{}})
	}
	return r
}

func (r *refDB) begin(locked map[int]bool) {
	r.txn = nil
	for _, t := range r.committed {
		r.txn = append(r.txn, t.clone())
	}
	r.locked = locked
}
func (r *refDB) commit() {
	for i := range r.committed {
		if r.locked[i] {
			r.committed[i] = r.txn[i]
		}
	}
	r.txn = nil
}
func (r *refDB) abort()            { r.txn = nil }
func (r *refDB) closeIter(tab int) {}

func refS(ro refObj) string { return objS(ro.o, ro.rev) }

func (r *refDB) modify(tab int, kind string, guard uint64, o *Obj, open bool) string {
	if !open {
		return "old=none err=closed"
	}
	if !r.locked[tab] {
		return "old=none err=notlocked"
	}
	t := r.txn[tab]
	old, had := t.live[string(o.ID)]
	if kind == "cas" {
		// strict map semantics: the guard is compared with the existing object's revision
		if !had {
			return "old=none err=notfound"
		}
		if old.rev != guard {
			return "old=" + refS(old) + " err=revmismatch"
		}
	}
	n := &Obj{ID: o.ID, Val: o.Val, U: o.U, N: o.N, LU: o.LU, LN: o.LN}
	if kind == "modify" && had {
		n.Val = old.o.Val + o.Val
	}
	t.rev++
	t.live[string(o.ID)] = refObj{n, t.rev}
	if had {
		return "old=" + refS(old) + " err=ok"
	}
	return "old=none err=ok"
}

func (r *refDB) delete(tab int, kindCad bool, guard uint64, id []byte, open bool) string {
	if !open {
		return "old=none err=closed"
	}
	if !r.locked[tab] {
		return "old=none err=notlocked"
	}
	t := r.txn[tab]
	old, had := t.live[string(id)]
	if !had {
		return "old=none err=ok"
	}
	if kindCad && old.rev != guard {
		return "old=" + refS(old) + " err=revmismatch"
	}
	t.rev++
	delete(t.live, string(id))
	return "old=" + refS(old) + " err=ok"
}

func (r *refDB) deleteAll(tab int) {
	if r.txn == nil || !r.locked[tab] {
		return
	}
	t := r.txn[tab]
	var ids []string
	for k := range t.live {
		ids = append(ids, k)
	}
	sort.Strings(ids)
	for _, k := range ids {
		t.rev++
		delete(t.live, k)
	}
}

func (r *refDB) committedContents(tab int) string {
	var parts []string
	for _, ro := range r.committed[tab].live {
		parts = append(parts, fmt.Sprintf("%s=%d@%d", hx.Hex(ro.o.ID), ro.o.Val, ro.rev))
	}
	sort.Strings(parts)
	return strings.Join(parts, ",")
}

type entry struct {
	key []byte
	ro  refObj
}

func listS(l []refObj) string {
	parts := make([]string, len(l))
	for i, ro := range l {
		parts[i] = refS(ro)
	}
	return "[" + strings.Join(parts, " ") + "]"
}

// query answers q = {get|list|prefix|lb idx key | all | num | rev}; ok=false: no opinion
func (r *refDB) query(inTxn bool, tab int, q []string) (string, bool) {
	var t *refTable
	if inTxn {
		if r.txn == nil {
			return "", false
		}
		t = r.txn[tab]
	} else {
		t = r.committed[tab]
	}
	var objs []refObj
	for _, ro := range t.live {
		objs = append(objs, ro)
	}
	sort.Slice(objs, func(i, j int) bool { return bytes.Compare(objs[i].o.ID, objs[j].o.ID) < 0 })
	switch q[0] {
	case "all":
		return listS(objs), true
	case "num":
		return strconv.Itoa(len(objs)), true
	case "rev":
		return strconv.FormatUint(t.rev, 10), true
	case "get", "list", "prefix", "lb":
	default:
		return "", false
	}
	if q[1] == "lu" || q[1] == "ln" {
		return lpmQuery(objs, q)
	}
	idx, key := q[1], hx.UnHex(q[2])
	match := func(k []byte) bool {
		switch q[0] {
		case "get", "list":
			return bytes.Equal(k, key)
		case "prefix":
			return bytes.HasPrefix(k, key)
		default:
			return bytes.Compare(k, key) >= 0
		}
	}
	var res []refObj
	switch idx {
	case "id", "u", "rev":
		// unique indexes: one result per (key, object), ascending key order
		var es []entry
		for _, ro := range objs {
			var keys [][]byte
			switch idx {
			case "id":
				keys = [][]byte{ro.o.ID}
			case "u":
				keys = ro.o.U
			case "rev":
				b := make([]byte, 8)
				for i := 0; i < 8; i++ {
					b[i] = byte(ro.rev >> uint(56-8*i))
				}
				keys = [][]byte{b}
			}
			seen := map[string]bool{}
			for _, k := range keys {
				if !seen[string(k)] && match(k) {
					seen[string(k)] = true
					es = append(es, entry{k, ro})
				}
			}
		}
		sort.SliceStable(es, func(i, j int) bool { return bytes.Compare(es[i].key, es[j].key) < 0 })
		for _, e := range es {
			res = append(res, e.ro)
		}
	case "n":
		// non-unique: each object once, ordered by (smallest qualifying key, primary key)
		var es []entry
		for _, ro := range objs {
			var best []byte
			found := false
			for _, k := range ro.o.N {
				if match(k) && (!found || bytes.Compare(k, best) < 0) {
					best, found = k, true
				}
			}
			if found {
				es = append(es, entry{best, ro})
			}
		}
		sort.SliceStable(es, func(i, j int) bool {
			if c := bytes.Compare(es[i].key, es[j].key); c != 0 {
				return c < 0
			}
			return bytes.Compare(es[i].ro.o.ID, es[j].ro.o.ID) < 0
		})
		for _, e := range es {
			res = append(res, e.ro)
		}
	}
	if q[0] == "get" {
		if len(res) == 0 {
			return "none", true
		}
		return refS(res[0]), true
	}
	return listS(res), true
}

// ---- LPM indexes: prefixes as bit strings ------------------------------------------------
func bitsOf(k LKey) string {
	var sb strings.Builder
	for i := 0; i < k.Len; i++ {
		if k.Data[i/8]&(0x80>>uint(i%8)) != 0 {
			sb.WriteByte('1')
		} else {
			sb.WriteByte('0')
		}
	}
	return sb.String()
}

type lentryRef struct {
	bits string
	ro   refObj
}

// lpmQuery: get/list = objects at the longest stored prefix covering the (full-length) query,
// ordered by primary key; prefix = stored prefixes covered by the query; lb = stored prefixes not
// below the query; both in ascending (prefix bits, primary key) order ("0" < "1", a prefix first).
func lpmQuery(objs []refObj, q []string) (string, bool) {
	qk := parseLKey(q[2])
	qb := bitsOf(qk)
	var es []lentryRef
	for _, ro := range objs {
		keys := ro.o.LU
		if q[1] == "ln" {
			keys = ro.o.LN
		}
		seen := map[string]bool{}
		for _, k := range keys {
			b := bitsOf(k)
			if !seen[b] {
				seen[b] = true
				es = append(es, lentryRef{b, ro})
			}
		}
	}
	sort.SliceStable(es, func(i, j int) bool {
		if es[i].bits != es[j].bits {
			return es[i].bits < es[j].bits // byte order of '0'/'1' strings = lexicographic bit order, prefix first
		}
		return bytes.Compare(es[i].ro.o.ID, es[j].ro.o.ID) < 0
	})
	var res []refObj
	switch q[0] {
	case "get", "list":
		if qk.Len != 16 {
			return "", false
		}
		best := ""
		found := false
		for _, e := range es {
			if strings.HasPrefix(qb, e.bits) && (!found || len(e.bits) > len(best)) {
				best, found = e.bits, true
			}
		}
		for _, e := range es {
			if found && e.bits == best {
				res = append(res, e.ro)
			}
		}
		if q[0] == "get" {
			if len(res) == 0 {
				return "none", true
			}
			return refS(res[0]), true
		}
	case "prefix":
		for _, e := range es {
			if strings.HasPrefix(e.bits, qb) {
				res = append(res, e.ro)
			}
		}
	case "lb":
		for _, e := range es {
			if e.bits >= qb {
				res = append(res, e.ro)
			}
		}
	}
	return listS(res), true
}
