package main

import (
	"fmt"
	"math"
	"strings"

	"verif/harness/hx"
)

// Pure scenario generator. Restrictions that keep the implementation's observable behaviour
// deterministic (Go map iteration order in commitStatus and heap order among equal retryAt leak
// otherwise) and away from the reported defect:
//   - all durations are multiples of 10 ms; the prune ticker (2005 ms) never coincides with anything;
//   - hooks indexed by attempt (`hook`, may fire inside a retry) only when at most one key ever fails
//     (no two retry items can tie); otherwise only hooks indexed by fresh attempt (`hookf`);
//   - status-only writes: both the guarded `stat` (skipped while our status is Error) and the unguarded
//     `statx` (a second reconciler re-stamping an object whose own status is Error; fixed by 8844901).
func gen(r *hx.Rand, n int, tier string, prop string, out *hx.Out) {
	// fixed regression shapes first
	fixed(out)
	out.P("#case probe-unset-status")
	out.P("probe unset")
	out.P("#case probe-refresher-vs-open-transaction")
	out.P("probe refresh")
	out.P("#case probe-refresher-vs-failing-update-in-backoff")
	out.P("probe refreshbackoff")
	out.P("#case probe-configuration-validation")
	out.P("probe validate")
	// the backoff computation on bounds and attempt counts no run reaches: seconds to hours, up to 70 attempts
	{
		g := r.Fork()
		out.P("#case backoff-grid")
		ms, sec := int64(1000000), int64(1000000000)
		mins := []int64{1, 1000, ms, 10 * ms, 50 * ms, sec, 5 * sec, 10 * sec, 60 * sec, 3600 * sec}
		maxs := []int64{ms, 40 * ms, sec, 60 * sec, 600 * sec, 3600 * sec, 24 * 3600 * sec, 90 * 24 * 3600 * sec}
		for i := 0; i < 120; i++ {
			mn, mx := hx.Pick(g, mins), hx.Pick(g, maxs)
			if mn > mx {
				mn, mx = mx, mn
			}
			att := g.Intn(71)
			if g.Chance(40) {
				att = 25 + g.Intn(12) // where min << attempt crosses 2^31..2^36 ns
			}
			out.P("backoff %d %d %d", mn, mx, att)
		}
		// maxima that float64 rounds up (MaxInt64 -> 2^63, 2^54-1 -> 2^54) with power-of-two minima whose product
		// with 2^attempt hits the rounded value exactly (fix d120bcc: max+1 / negative durations), and around them
		for _, mx := range []int64{math.MaxInt64, math.MaxInt64 - 1023, 1<<54 - 1, 1<<55 - 3, 1 << 62} { // float64(max) >= max: the integer model is exact there (C16_backoff_float_*)
			for _, sh := range []int{0, 1, 30, 53, 62} {
				mn := int64(1) << uint(sh)
				if mn > mx {
					continue
				}
				for _, att := range []int{53 - sh, 54 - sh, 62 - sh, 63 - sh, 64 - sh, 1100} {
					if att >= 0 {
						out.P("backoff %d %d %d", mn, mx, att)
					}
				}
			}
		}
	}
	for c := 0; c < n; c++ {
		out.P("#case rnd-%d", c)
		genCase(r.Fork(), prop, out)
	}
}

func fixed(out *hx.Out) {
	// a bulk delete larger than the round size while the reconciler is idle and nothing touches the table afterwards
	// (successful deletions write nothing back): every removed object must still be deleted from the target
	for _, mode := range []string{"s", "b"} {
		for _, rs := range []int{1, 2} {
			out.P("#case fix-bulk-delete-larger-than-round-%s%d", mode, rs)
			out.P("cfg %s %d 10 40 0 0", mode, rs)
			out.P("wmany put:1 put:2 put:3 put:4 put:5")
			out.P("sleep 10")
			out.P("wmany del:1 del:2 del:3 del:4 del:5")
			out.P("sleep 100")
			out.P("dump")
			out.P("final")
		}
	}
	// a round holding a deletion that fails together with updates (batch: DeleteBatch before UpdateBatch)
	for _, mode := range []string{"s", "b"} {
		out.P("#case fix-failed-delete-with-updates-%s", mode)
		out.P("cfg %s 5 10 40 0 0", mode)
		out.P("fail 1 1")
		out.P("fail 1 2")
		out.P("wmany put:1 put:2 put:3")
		out.P("sleep 10")
		out.P("wmany del:1 put:2 put:3 put:4")
		out.P("sleep 10")
		out.P("dump")
		out.P("sleep 100")
		out.P("dump")
		out.P("final")
	}
	// an object deleted (by a hook inside another object's Update) while the round that holds both is in flight
	for _, mode := range []string{"s", "b"} {
		for _, victim := range []int{1, 2, 3, 4, 5, 6} {
			out.P("#case fix-deleted-during-round-%s%d", mode, victim)
			out.P("cfg %s 10 10 40 0 0", mode)
			for k := 1; k <= 6; k++ {
				if k != victim {
					out.P("hookf %d 0 del %d", k, victim)
					break
				}
			}
			out.P("wmany put:1 put:2 put:3 put:4 put:5 put:6")
			out.P("sleep 10")
			out.P("dump")
			out.P("sleep 100")
			out.P("dump")
			out.P("final")
		}
	}
	// D7 shape: an object that fails repeatedly; the low watermark must stay at the user's change
	out.P("#case fix-lwm-stays")
	out.P("cfg s 2 10 80 0 0")
	for i := 0; i < 6; i++ {
		out.P("fail 1 %d", i)
	}
	out.P("w put 1")
	out.P("wur cur")
	for i := 0; i < 6; i++ {
		out.P("sleep %d", 20<<uint(min(i, 2)))
		out.P("wur 1")
	}
	out.P("sleep 100")
	out.P("wur 1")
	out.P("final")
	// same in batch mode with a second healthy key and round size 1
	out.P("#case fix-lwm-stays-batch")
	out.P("cfg b 1 10 40 0 0")
	for i := 0; i < 5; i++ {
		out.P("fail 2 %d", i)
	}
	out.P("w put 1")
	out.P("w put 2")
	out.P("w put 3")
	for i := 0; i < 5; i++ {
		out.P("sleep 40")
		out.P("wur 3")
		out.P("dump")
	}
	out.P("final")
	// concurrent writes from inside the in-flight Update: update, delete, delete+reinsert, status-only
	for i, wk := range []string{"put", "del", "reins", "stat", "statx", "ref", "pend"} {
		for _, mode := range []string{"s", "b"} {
			for _, fail := range []bool{false, true} {
				out.P("#case fix-inflight-%s-%s-%v-%d", wk, mode, fail, i)
				out.P("cfg %s 2 10 40 0 0", mode)
				if fail {
					out.P("fail 1 0")
				}
				out.P("hook 1 0 %s 1", wk)
				out.P("w put 1")
				out.P("dump")
				out.P("wur cur")
				out.P("sleep 20")
				out.P("dump")
				out.P("final")
			}
		}
	}
	// StatusSet objects (multi-reconciler shape): the user changes the data / re-marks Pending() while the
	// FIRST Update of the object is in flight (our reconciler has not reported into the set yet)
	for _, wk := range []string{"put", "pend", "stat", "reins"} {
		for _, mode := range []string{"s", "b"} {
			for _, fail := range []bool{false, true} {
				out.P("#case fix-sset-inflight-%s-%s-%v", wk, mode, fail)
				out.P("cfg %s 2 10 40 0 0 1", mode)
				if fail {
					out.P("fail 1 0")
				}
				out.P("hook 1 0 %s 1", wk)
				out.P("hookf 1 2 %s 1", wk)
				out.P("w put 1")
				out.P("dump")
				out.P("w put 1")
				out.P("sleep 20")
				out.P("w pend 1")
				out.P("dump")
				out.P("final")
			}
		}
	}
	// two (three) objects failing concurrently with staggered retries: the older change's error status is
	// re-committed after the younger one's; the low watermark must stay at the OLDEST failing change
	for _, mode := range []string{"s", "b"} {
		for _, sset := range []int{0, 1} {
			out.P("#case fix-staggered-lwm-%s-%d", mode, sset)
			out.P("cfg %s 2 10 160 0 0 %d", mode, sset)
			for i := 0; i < 5; i++ {
				out.P("fail 1 %d", i)
			}
			for i := 0; i < 3; i++ {
				out.P("fail 2 %d", i)
			}
			out.P("fail 3 0")
			out.P("w put 1") // t=0, fails, retry at 20
			out.P("wur cur")
			out.P("sleep 10")
			out.P("w put 2") // t=10, fails, retry at 30
			out.P("wur cur")
			out.P("sleep 10") // t=20: 1 retried, fails again
			out.P("wur cur")
			out.P("w put 3") // t=20 fails, retry at 40
			out.P("wur cur")
			out.P("sleep 10") // t=30: 2 retried
			out.P("wur cur")
			out.P("sleep 10")
			out.P("wur cur")
			out.P("sleep 20")
			out.P("wur cur")
			out.P("sleep 40")
			out.P("wur 1")
			out.P("dump")
			out.P("final")
		}
	}
	// foreign status-only write over an Error status while a retry is queued (defect fixed by 8844901):
	// the retry must still be committed / re-queued
	for _, mode := range []string{"s", "b"} {
		for nf := 1; nf <= 3; nf++ {
			out.P("#case fix-foreign-status-%s-%d", mode, nf)
			out.P("cfg %s 2 10 40 0 0", mode)
			for i := 0; i < nf; i++ {
				out.P("fail 1 %d", i)
			}
			out.P("w put 1")
			out.P("w statx 1")
			out.P("sleep 20")
			out.P("w statx 1")
			out.P("wur cur")
			out.P("sleep 100")
			out.P("dump")
			out.P("wur cur")
			out.P("final")
		}
	}
	// failed delete followed by re-insert; failed update followed by delete
	out.P("#case fix-faildel-reinsert")
	out.P("cfg s 1 10 40 0 0")
	out.P("w put 1")
	out.P("fail 1 1")
	out.P("w del 1")
	out.P("wur cur")
	out.P("w put 1")
	out.P("sleep 20")
	out.P("dump")
	out.P("final")
	out.P("#case fix-failupd-delete")
	out.P("cfg b 2 10 40 0 0")
	out.P("fail 1 0")
	out.P("fail 1 1")
	out.P("w put 1")
	out.P("w del 1")
	out.P("sleep 40")
	out.P("wur cur")
	out.P("final")
	// a burst of changes larger than the round size (written from inside the first operation): the
	// progress revision must not run ahead of what was attempted
	for _, mode := range []string{"s", "b"} {
		for rs := 1; rs <= 2; rs++ {
			out.P("#case fix-burst-%s-%d", mode, rs)
			out.P("cfg %s %d 10 40 0 0", mode, rs)
			for k := 2; k <= 6; k++ {
				out.P("hookf 1 0 put %d", k)
			}
			out.P("fail 3 0")
			out.P("hookf 4 0 del 5")
			out.P("w put 1")
			out.P("wur cur")
			out.P("dump")
			out.P("final")
		}
	}
	// prune gating
	out.P("#case fix-prune-gating")
	out.P("cfg s 2 10 40 2005 1")
	out.P("w put 1")
	out.P("prune")
	out.P("w put 2")
	out.P("initdone")
	out.P("w del 1")
	out.P("prune")
	out.P("sleep 2010")
	out.P("final")
	// the prune ticker fires (twice) while the table still has a pending initializer: no Prune call until
	// the initializer is done, then one with the complete contents
	for _, mode := range []string{"s", "b"} {
		out.P("#case fix-prune-ticker-before-init-%s", mode)
		out.P("cfg %s 2 10 40 2005 1 0", mode)
		out.P("w put 1")
		out.P("sleep 2100")
		out.P("dump")
		out.P("w put 2")
		out.P("sleep 2560")
		out.P("dump")
		out.P("initdone")
		out.P("sleep 100")
		out.P("final")
	}
	out.P("#case fix-prune-noinit")
	out.P("cfg b 3 10 40 2005 0")
	out.P("w put 1")
	out.P("prune")
	out.P("final")
}

var wkinds = []string{"put", "put", "put", "del", "reins", "stat", "statx", "statx", "ref", "pend"}

func genCase(r *hx.Rand, prop string, out *hx.Out) {
	mode := hx.Pick(r, []string{"s", "b"})
	rs := 1 + r.Intn(3)
	minb := hx.Pick(r, []int{10, 20, 30})
	maxb := minb * hx.Pick(r, []int{1, 2, 4, 8, 16})
	prunei, init := 0, 0
	if r.Chance(25) {
		prunei = 2005
	}
	if r.Chance(25) {
		init = 1
	}
	nk := 1 + r.Intn(4)
	sset := 0
	if r.Chance(50) {
		sset = 1
	}
	out.P("cfg %s %d %d %d %d %d %d", mode, rs, minb, maxb, prunei, init, sset)
	if r.Chance(20) {
		genStaggered(r, minb, out)
		return
	}

	// failure patterns. Class S: at most one failing key (no two retry items can tie, every hook
	// placement is deterministic). Class M: several failing keys, hooks only on fresh attempts.
	failing := map[int]bool{}
	failPct := 45
	if prop == "C16" {
		failPct = 70
	}
	classS := r.Chance(50)
	for k := 1; k <= nk; k++ {
		if !r.Chance(failPct) || (classS && len(failing) >= 1) {
			continue
		}
		failing[k] = true
		switch r.Intn(3) {
		case 0: // a run of consecutive failures
			start := r.Intn(3)
			l := 1 + r.Intn(6)
			for i := start; i < start+l; i++ {
				out.P("fail %d %d", k, i)
			}
		case 1: // scattered
			for i := 0; i < 10; i++ {
				if r.Chance(40) {
					out.P("fail %d %d", k, i)
				}
			}
		default: // alternating runs
			i := 0
			for j := 0; j < 3; j++ {
				l := 1 + r.Intn(3)
				for x := 0; x < l; x++ {
					out.P("fail %d %d", k, i)
					i++
				}
				i += 1 + r.Intn(2)
			}
		}
	}
	if len(failing) <= 1 {
		classS = true
	}
	// hooks
	nh := r.Intn(4)
	if prop == "C15" {
		nh = 1 + r.Intn(5)
	}
	for i := 0; i < nh; i++ {
		k := 1 + r.Intn(nk)
		at := r.Intn(4)
		wk := hx.Pick(r, wkinds)
		k2 := k
		if r.Chance(35) {
			k2 = 1 + r.Intn(nk+1) // may be a key never written by the driver
		}
		if classS && r.Chance(60) {
			out.P("hook %d %d %s %d", k, at, wk, k2)
		} else {
			out.P("hookf %d %d %s %d", k, at, wk, k2)
		}
	}
	// script
	steps := 4 + r.Intn(12)
	total := 0
	initDone := init == 0
	longAt := -1
	if prunei > 0 && r.Chance(60) {
		longAt = r.Intn(steps) // one sleep longer than the prune interval (often before initdone)
	}
	for i := 0; i < steps; i++ {
		if i == longAt {
			out.P("sleep %d", 2100+10*r.Intn(50))
		}
		x := r.Intn(100)
		switch {
		case x < 12 && classS:
			// several writes in one transaction: the reconciler sees them in one round (round size permitting):
			// bulk deletes larger than the round, deletions and updates in one batch, objects deleted by a hook
			// while their round is in flight (S4-C14-1..3). Only with at most one failing key (no retry ties).
			n := 2 + r.Intn(nk+1)
			var ws []string
			kind := hx.Pick(r, []string{"put", "put", "del", "mixed", "mixed"})
			for _, k := range r.Perm(nk + 1)[:min(n, nk+1)] {
				wk := kind
				if kind == "mixed" {
					wk = hx.Pick(r, []string{"put", "put", "del", "reins", "pend"})
				}
				ws = append(ws, fmt.Sprintf("%s:%d", wk, 1+k))
			}
			out.P("wmany %s", strings.Join(ws, " "))
		case x < 40:
			out.P("w %s %d", hx.Pick(r, wkinds), 1+r.Intn(nk))
		case x < 62:
			d := minb * hx.Pick(r, []int{1, 2, 2, 4, 4, 8, 16, 32})
			if total+d > 1500 {
				continue
			}
			total += d
			out.P("sleep %d", d)
		case x < 80:
			switch r.Intn(5) {
			case 0:
				out.P("wur cur")
			case 1:
				out.P("wur cur-%d", 1+r.Intn(3))
			case 2:
				out.P("wur cur+%d", 1+r.Intn(2))
			case 3:
				out.P("wur %d", r.Intn(8))
			default:
				out.P("wur 1")
			}
		case x < 90:
			out.P("dump")
		case x < 95:
			out.P("prune")
		default:
			if !initDone {
				initDone = true
				out.P("initdone")
			} else {
				out.P("dump")
			}
		}
	}
	if r.Chance(80) {
		out.P("wur cur")
	}
	out.P("final")
	if r.Chance(30) {
		out.P("dump")
		out.P(fmt.Sprintf("wur cur"))
	}
}

// genStaggered: 2-4 keys that all fail for a while, written at staggered times (multiples of the minimum
// backoff apart) so that their retries interleave; WaitUntilReconciled probes after every step. Only
// fresh-attempt hooks (several failing keys).
func genStaggered(r *hx.Rand, minb int, out *hx.Out) {
	nk := 2 + r.Intn(3)
	for k := 1; k <= nk; k++ {
		l := 1 + r.Intn(5)
		for i := 0; i < l; i++ {
			out.P("fail %d %d", k, i)
		}
	}
	if r.Chance(30) {
		out.P("hookf %d 0 %s %d", 1+r.Intn(nk), hx.Pick(r, []string{"put", "pend", "statx"}), 1+r.Intn(nk))
	}
	total := 0
	order := make([]int, nk)
	for i := range order {
		order[i] = i + 1
	}
	for i := range order { // shuffle
		j := i + r.Intn(nk-i)
		order[i], order[j] = order[j], order[i]
	}
	for _, k := range order {
		out.P("w put %d", k)
		out.P("wur cur")
		d := minb * (1 + r.Intn(3))
		total += d
		out.P("sleep %d", d)
		out.P("wur cur")
	}
	steps := 3 + r.Intn(6)
	for i := 0; i < steps && total < 1200; i++ {
		d := minb * hx.Pick(r, []int{1, 1, 2, 2, 3, 4, 8})
		total += d
		out.P("sleep %d", d)
		out.P("wur %s", hx.Pick(r, []string{"cur", "cur", "1", "cur-1"}))
		if r.Chance(20) {
			out.P("w %s %d", hx.Pick(r, []string{"put", "statx", "pend", "del"}), 1+r.Intn(nk))
		}
	}
	out.P("dump")
	out.P("final")
}
