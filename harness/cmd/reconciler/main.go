// reconciler engine (C14, C15, C16): drives the REAL reconciler (reconciler.Register with
// hive + job + statedb) under testing/synctest virtual time (hx.MainBubble) with scripted
// Operations, user writes placed at the driver and from INSIDE in-flight operations,
// per-(key, attempt) fault oracle, virtual sleeps and WaitUntilReconciled probes.
//
// Ops (one output line each):
//
//	cfg <s|b> <roundsize> <minb> <maxb> <prunei> <init 0|1> [<sset 0|1>]   start hive+reconciler (ms);
//	                             sset=1: objects carry a reconciler.StatusSet (entry "r") instead of a Status
//	fail <k> <n>                 attempt n (0-based, per key) of an Update/Delete on key k fails
//	hook <k> <n> <wkind> <k2>    during attempt n on key k perform user write <wkind> on k2
//	hookf <k> <n> <wkind> <k2>   same, n counts only fresh attempts (from the change stream, not retries)
//	w <wkind> <k>                user write from the driver, then quiesce
//	sleep <d>                    advance virtual time by d ms, then quiesce
//	wur <N|cur|cur+N|cur-N>      WaitUntilReconciled(rev) (cancelled if it would block)
//	dump                         table contents
//	prune | initdone             external prune trigger | mark table initializer done
//	final                        faults off, sleep 3*maxb, report convergence
//
// wkind: put (insert/update, new payload version, StatusPending) | del | reins (delete+insert in
//
//	one txn) | stat (status-only change as a second reconciler would do; skipped while our status
//	is Error) | statx (same, unguarded: exercises the Error-status fallback of fix 8844901) |
//	ref (Done -> StatusRefreshing) | pend (re-mark pending, same payload: StatusPending()/Statuses.Pending()).
package main

import (
	"context"
	"errors"
	"fmt"
	"io"
	"iter"
	"log/slog"
	"sort"
	"strconv"
	"strings"
	"testing/synctest"
	"time"

	"github.com/cilium/hive"
	"github.com/cilium/hive/cell"
	"github.com/cilium/hive/job"
	"github.com/cilium/statedb"
	"github.com/cilium/statedb/index"
	"github.com/cilium/statedb/reconciler"
	"golang.org/x/time/rate"

	"verif/harness/hx"
)

const tags = "C14,C15,C16"

type obj struct {
	K      uint64
	Ver    int                  // payload version (the "contents")
	Gen    int                  // harness-only: generation of the user write that made it pending (not payload)
	Other  int                  // status of a second (imaginary) reconciler
	Status reconciler.Status    // plain single-reconciler status (cfg sset=0)
	Set    reconciler.StatusSet // multi-reconciler status set, our entry is "r" (cfg sset=1)
	UseSet bool
}

func (o *obj) TableHeader() []string { return []string{"K", "Ver", "Status"} }
func (o *obj) TableRow() []string {
	return []string{fmt.Sprint(o.K), fmt.Sprint(o.Ver), o.GetStatus().String()}
}
func (o *obj) Clone() *obj { o2 := *o; return &o2 }
func (o *obj) GetStatus() reconciler.Status {
	if o.UseSet {
		return o.Set.Get(rname)
	}
	return o.Status
}
func (o *obj) SetStatus(s reconciler.Status) *obj {
	if o.UseSet {
		o.Set = o.Set.Set(rname, s)
	} else {
		o.Status = s
	}
	return o
}

const rname = "r"

var keyIndex = statedb.Index[*obj, uint64]{
	Name:       "k",
	FromObject: func(o *obj) index.KeySet { return index.NewKeySet(index.Uint64(o.K)) },
	FromKey:    index.Uint64,
	Unique:     true,
}

type config struct {
	batch      bool
	rs         int
	minb, maxb int
	prunei     int
	init       bool
	sset       bool // objects carry a reconciler.StatusSet instead of a single Status
}

type wr struct {
	kind string
	k    uint64
}

type call struct {
	t     int64
	op    string // U D UB DB P
	k     uint64
	ver   int
	gen   int
	rev   uint64
	revs  string
	ok    bool
	prune string
	fresh bool
	wait  int64
}

type change struct {
	k    uint64
	gen  int
	rev  uint64 // revision of the user write
	kind string // put ref del
	hi   uint64 // revision after later status-only re-stamps of the same object version
}

type eng struct {
	started  bool
	cfg      config
	db       *statedb.DB
	table    statedb.RWTable[*obj]
	r        reconciler.Reconciler[*obj]
	hive     *hive.Hive
	log      *slog.Logger
	t0       time.Time
	markInit func(statedb.WriteTxn)
	initDone bool

	faults    map[uint64]map[int]bool
	hooks     map[uint64]map[int][]wr // keyed by 2*k (attempt index) / 2*k+1 (fresh-attempt index)
	attempts  map[uint64]int
	faultsOff bool
	ncalls    int
	rounds    int
	roundsAt  int64
	runaway   bool
	block     chan struct{}

	calls     []call           // since last print
	hist      []call           // all op calls
	target    map[uint64]int   // simulated target: k -> ver
	want      map[uint64]int   // mirror of user-intended table contents: k -> ver
	wantGen   map[uint64]int   // k -> gen of latest user write (live objects)
	wantOther map[uint64]int   // k -> the second reconciler's status field as its writes left it (live objects)
	history   []map[uint64]int // table contents (k->ver) after each user write since last quiescence
	userRevs  map[uint64]bool
	changes   []change
	ver, gen  int
	firstWait int64
	bad       []string
}

func (e *eng) flag(prop, clause string) {
	s := " !BAD:" + prop + ":" + clause
	for _, b := range e.bad {
		if b == s {
			return
		}
	}
	e.bad = append(e.bad, s)
}

func (e *eng) takeBad() string {
	s := strings.Join(e.bad, "")
	e.bad = nil
	return s
}

func (e *eng) Gen(r *hx.Rand, n int, tier string, prop string, out *hx.Out) {
	gen(r, n, tier, prop, out)
}

func (e *eng) Case(id string) {
	*e = eng{
		cfg:       config{rs: 2, minb: 10, maxb: 40},
		faults:    map[uint64]map[int]bool{},
		hooks:     map[uint64]map[int][]wr{},
		attempts:  map[uint64]int{},
		target:    map[uint64]int{},
		want:      map[uint64]int{},
		wantGen:   map[uint64]int{},
		wantOther: map[uint64]int{},
		userRevs:  map[uint64]bool{},
		block:     make(chan struct{}),
	}
}

func (e *eng) CaseEnd() {
	if e.started {
		if e.runaway {
			close(e.block)
		}
		e.hive.Stop(e.log, context.Background())
		e.started = false
	}
}

func (e *eng) now() int64 { return int64(time.Since(e.t0) / time.Millisecond) }

// ---------------------------------------------------------------- livelock guard
// The reconciler reports ReconciliationErrors once per round. Thousands of rounds at one virtual
// instant mean the loop spins (e.g. a fired retry timer that is never re-armed): park it and flag.
type roundMetrics struct{ e *eng }

func (m roundMetrics) ReconciliationDuration(cell.FullModuleID, string, string, time.Duration) {}
func (m roundMetrics) PruneError(cell.FullModuleID, string, error)                             {}
func (m roundMetrics) PruneDuration(cell.FullModuleID, string, time.Duration)                  {}
func (m roundMetrics) ReconciliationErrors(cell.FullModuleID, string, int, int) {
	e := m.e
	if t := e.now(); t != e.roundsAt {
		e.roundsAt, e.rounds = t, 0
	}
	e.rounds++
	if e.rounds > 20000 {
		e.runaway = true
		e.flag("C14", "livelock-rounds-never-stop")
		e.flag("C15", "livelock-rounds-never-stop")
		e.flag("C16", "livelock-rounds-never-stop")
		<-e.block
	}
}

// ---------------------------------------------------------------- scripted operations
type ops struct{ e *eng }

func (o ops) Update(ctx context.Context, txn statedb.ReadTxn, rev statedb.Revision, ob *obj) error {
	return o.e.call("U", txn, rev, ob)
}
func (o ops) Delete(ctx context.Context, txn statedb.ReadTxn, rev statedb.Revision, ob *obj) error {
	return o.e.call("D", txn, rev, ob)
}
func (o ops) Prune(ctx context.Context, txn statedb.ReadTxn, objs iter.Seq2[*obj, statedb.Revision]) error {
	e := o.e
	got := map[uint64]int{}
	var parts []string
	for ob := range objs {
		got[ob.K] = ob.Ver
	}
	ks := sortedKeys(got)
	for _, k := range ks {
		parts = append(parts, fmt.Sprintf("%d=%d", k, got[k]))
	}
	// C15: Prune only once the table is initialized, with the table's complete contents
	if e.cfg.init && !e.initDone {
		e.flag("C15", "prune-before-init")
	}
	match := false
	for _, h := range e.history {
		if mapsEq(h, got) {
			match = true
		}
	}
	if !match {
		e.flag("C15", "prune-incomplete")
	}
	e.calls = append(e.calls, call{t: e.now(), op: "P", k: 1 << 62, prune: strings.Join(parts, ",")})
	return nil
}

type bops struct{ e *eng }

func (o bops) UpdateBatch(ctx context.Context, txn statedb.ReadTxn, batch []reconciler.BatchEntry[*obj]) {
	for i := range batch {
		batch[i].Result = o.e.call("UB", txn, batch[i].Revision, batch[i].Object)
	}
}
func (o bops) DeleteBatch(ctx context.Context, txn statedb.ReadTxn, batch []reconciler.BatchEntry[*obj]) {
	for i := range batch {
		batch[i].Result = o.e.call("DB", txn, batch[i].Revision, batch[i].Object)
	}
}

func (e *eng) call(op string, txn statedb.ReadTxn, rev statedb.Revision, ob *obj) error {
	e.ncalls++
	if e.ncalls > 500 {
		// runaway reconciler (e.g. reconciling its own status writes forever): park it
		e.runaway = true
		e.flag("C15", "runaway")
		<-e.block
		return errors.New("runaway")
	}
	k := ob.K
	n := e.attempts[2*k]
	e.attempts[2*k] = n + 1
	isUpd := op == "U" || op == "UB"
	// fresh = the call comes from the change stream, not from the retry queue
	fresh := true
	if e.cfg.batch {
		fresh = op == "UB" || op == "DB"
	} else if isUpd {
		fresh = e.userRevs[uint64(rev)]
	} else {
		for _, h := range e.hist {
			if h.k == k && isDel(h.op) && h.rev == uint64(rev) {
				fresh = false
			}
		}
	}
	fn := e.attempts[2*k+1]
	if fresh {
		e.attempts[2*k+1] = fn + 1
	}

	// revision info: exact when it is the revision of a user write, "s" for a reconciler status write
	revs := "s"
	if e.userRevs[uint64(rev)] {
		revs = strconv.FormatUint(uint64(rev), 10)
	}
	cur, crev, found := e.table.Get(txn, keyIndex.Query(k))
	if found && crev == rev {
		revs += ":c"
	} else {
		revs += ":o"
	}
	if isUpd {
		// C15: objects that are not pending/refreshing are not updated, except as retries
		if found && cur.Gen == ob.Gen {
			switch cur.GetStatus().Kind {
			case reconciler.StatusKindDone:
				e.flag("C15", "update-of-done-object")
			case reconciler.StatusKindError:
				prevFail := false
				for _, c := range e.hist {
					if c.k == k && c.gen == ob.Gen && !c.ok && (c.op == "U" || c.op == "UB") {
						prevFail = true
					}
				}
				if !prevFail {
					e.flag("C15", "update-of-error-object-not-a-retry")
				}
			}
		}
		if !ob.GetStatus().IsPendingOrRefreshing() {
			// the object handed to Update carries a status that does not ask for reconciliation: allowed only
			// for a retry (an Error status after a failed Update of this very version)
			retry := false
			if ob.GetStatus().Kind == reconciler.StatusKindError {
				for _, c := range e.hist {
					if c.k == k && c.gen == ob.Gen && !c.ok && (c.op == "U" || c.op == "UB") {
						retry = true
					}
				}
			}
			if !retry {
				e.flag("C15", "update-given-non-pending-object")
			}
		}
	}

	// C16: probe the progress tracker from inside the in-flight operation (WaitUntilReconciled(0) never
	// blocks): the reported revision must only cover changes that have been attempted already
	{
		cur, _, _ := e.r.WaitUntilReconciled(context.Background(), 0)
		if !e.attemptedUpTo(uint64(cur), k) {
			e.flag("C16", "progress-revision-ahead-of-attempts")
		}
	}
	for _, w := range e.hooks[2*k][n] {
		e.doWrite(w.kind, w.k)
	}
	if fresh {
		for _, w := range e.hooks[2*k+1][fn] {
			e.doWrite(w.kind, w.k)
		}
	}
	ok := !(e.faults[k][n] && !e.faultsOff)
	if ok {
		if isUpd {
			e.target[k] = ob.Ver
		} else {
			delete(e.target, k)
		}
	}
	c := call{t: e.now(), op: op, k: k, ver: ob.Ver, gen: ob.Gen, rev: uint64(rev), revs: revs, ok: ok}
	e.timingOracle(&c)
	e.calls = append(e.calls, c)
	e.hist = append(e.hist, c)
	if !ok {
		return errors.New("fail")
	}
	return nil
}

// probeHealth: the reconcile loop reports its health at the end of every round, right after it has published
// its progress (revision, retry low watermark) - the one moment between two rounds. The probe reads the
// published progress there (C16): a zero low watermark while a failed object is waiting for its retry would let
// WaitUntilReconciled report "nothing awaits retry" until the next round corrects it.
type probeHealth struct{ e *eng }

func (h probeHealth) OK(string)              { h.e.roundEndProbe() }
func (h probeHealth) Degraded(string, error) { h.e.roundEndProbe() }
func (h probeHealth) Stopped(string)         {}
func (h probeHealth) Close()                 {}
func (h probeHealth) NewScope(string) cell.Health {
	return h
}

func (e *eng) roundEndProbe() {
	if e.r == nil || e.table == nil {
		return
	}
	_, lwm, _ := e.r.WaitUntilReconciled(context.Background(), 0)
	if lwm != 0 {
		return
	}
	// an object whose last Update (of its current version) failed is waiting for a retry
	for o := range e.table.All(e.db.ReadTxn()) {
		if o.GetStatus().Kind != reconciler.StatusKindError {
			continue
		}
		var last *call
		for j := range e.hist {
			if c := &e.hist[j]; c.k == o.K && c.gen == o.Gen && (c.op == "U" || c.op == "UB") {
				last = c
			}
		}
		if last != nil && !last.ok {
			e.flag("C16", "low-watermark-zero-at-round-end-while-object-awaits-retry")
		}
	}
}

// C16 timing oracle, evaluated on the implementation's call log only. A "sequence" is a run of
// attempts of one (key, generation, op class) that starts with a fresh attempt (first one, or one
// whose revision is a new user-write revision: the object was changed/re-stamped) .
func (e *eng) timingOracle(c *call) {
	var seq []call
	for _, h := range e.hist {
		if h.k == c.k && h.gen == c.gen && isDel(h.op) == isDel(c.op) {
			if h.fresh {
				seq = seq[:0]
			}
			seq = append(seq, h)
		}
	}
	if len(seq) == 0 || (e.userRevs[c.rev] && c.rev != seq[len(seq)-1].rev) {
		c.fresh = true
		return
	}
	last := seq[len(seq)-1]
	if last.ok {
		if !isDel(c.op) {
			e.flag("C15", "update-repeated-after-success-without-change")
		}
		return
	}
	wait := c.t - last.t
	c.wait = wait
	if wait < int64(e.cfg.minb) {
		e.flag("C16", "retry-sooner-than-min-backoff")
	}
	if wait > int64(e.cfg.maxb) {
		e.flag("C16", "retry-later-than-max-backoff")
	}
	// waits do not shrink over consecutive failures
	if len(seq) >= 2 && wait < last.wait {
		e.flag("C16", "backoff-shrinks")
	}
	// the first wait after a change/success is the same for every object: backoff starts over
	if len(seq) == 1 {
		if e.firstWait == 0 {
			e.firstWait = wait
		} else if e.firstWait != wait {
			e.flag("C16", "backoff-not-reset")
		}
	}
}

func isDel(op string) bool { return op == "D" || op == "DB" }

// attemptedUpTo: every user change with revision <= rev that is still the latest write of its key has
// been handed to Update/Delete at least once (the key inFlight is being attempted right now).
func (e *eng) attemptedUpTo(rev uint64, inFlight uint64) bool {
	for i, c := range e.changes {
		if c.hi > rev || c.k == inFlight {
			continue
		}
		superseded := false
		for _, d := range e.changes[i+1:] {
			if d.k == c.k {
				superseded = true
			}
		}
		if superseded {
			continue
		}
		att := false
		for _, h := range e.hist {
			if h.k == c.k && (h.gen == c.gen || (c.kind == "del" && isDel(h.op) && h.rev == c.rev)) {
				att = true
			}
		}
		if !att {
			return false
		}
	}
	return true
}

// ---------------------------------------------------------------- user writes
func (e *eng) doWrite(kind string, k uint64) {
	wtxn := e.db.WriteTxn(e.table)
	if e.doWriteIn(wtxn, kind, k) {
		wtxn.Commit()
		e.history = append(e.history, cloneMap(e.want))
	} else {
		wtxn.Abort()
	}
}

// doWriteIn performs one user write inside the given transaction; reports whether it wrote anything
func (e *eng) doWriteIn(wtxn statedb.WriteTxn, kind string, k uint64) bool {
	old, _, found := e.table.Get(wtxn, keyIndex.Query(k))
	commit := false
	switch kind {
	case "put":
		e.ver++
		e.gen++
		o := e.newObj(k)
		if found {
			o.Other = old.Other
			if e.cfg.sset {
				// as a user of StatusSet does: keep the set, mark everything pending again
				o.Set = old.Set.Pending()
			}
		}
		e.table.Insert(wtxn, o)
		rev := e.table.Revision(wtxn)
		e.userRevs[rev] = true
		e.changes = append(e.changes, change{k, e.gen, rev, "put", rev})
		e.want[k], e.wantGen[k] = e.ver, e.gen
		e.wantOther[k] = o.Other
		commit = true
	case "del":
		if found {
			e.gen++
			e.table.Delete(wtxn, old)
			rev := e.table.Revision(wtxn)
			e.userRevs[rev] = true
			e.changes = append(e.changes, change{k, e.gen, rev, "del", rev})
			delete(e.want, k)
			delete(e.wantGen, k)
			delete(e.wantOther, k)
			commit = true
		}
	case "reins":
		if found {
			e.table.Delete(wtxn, old)
			e.userRevs[e.table.Revision(wtxn)] = true
		}
		e.ver++
		e.gen++
		e.table.Insert(wtxn, e.newObj(k))
		rev := e.table.Revision(wtxn)
		e.userRevs[rev] = true
		e.changes = append(e.changes, change{k, e.gen, rev, "put", rev})
		e.want[k], e.wantGen[k] = e.ver, e.gen
		e.wantOther[k] = 0
		commit = true
	case "stat", "statx":
		if found && (kind == "statx" || old.GetStatus().Kind != reconciler.StatusKindError) {
			o := old.Clone()
			o.Other++
			e.wantOther[k] = o.Other
			e.table.Insert(wtxn, o)
			e.userRevs[e.table.Revision(wtxn)] = true
			for i := len(e.changes) - 1; i >= 0; i-- {
				if e.changes[i].k == k {
					e.changes[i].hi = e.table.Revision(wtxn)
					break
				}
			}
			commit = true
		}
	case "ref":
		if found && old.GetStatus().Kind == reconciler.StatusKindDone {
			e.gen++
			o := old.Clone()
			o.Gen = e.gen
			o.SetStatus(reconciler.StatusRefreshing())
			e.table.Insert(wtxn, o)
			rev := e.table.Revision(wtxn)
			e.userRevs[rev] = true
			e.changes = append(e.changes, change{k, e.gen, rev, "ref", rev})
			e.wantGen[k] = e.gen
			commit = true
		}
	case "pend":
		// the user re-marks the object pending without changing the payload
		if found {
			e.gen++
			o := old.Clone()
			o.Gen = e.gen
			if e.cfg.sset {
				o.Set = o.Set.Pending()
			} else {
				o.Status = reconciler.StatusPending()
			}
			e.table.Insert(wtxn, o)
			rev := e.table.Revision(wtxn)
			e.userRevs[rev] = true
			e.changes = append(e.changes, change{k, e.gen, rev, "ref", rev})
			e.wantGen[k] = e.gen
			commit = true
		}
	default:
		wtxn.Abort()
		panic("bad write kind " + kind)
	}
	return commit
}

// newObj: a fresh object for key k with the next payload version, pending
func (e *eng) newObj(k uint64) *obj {
	o := &obj{K: k, Ver: e.ver, Gen: e.gen}
	if e.cfg.sset {
		o.UseSet = true
		o.Set = reconciler.NewStatusSet()
	} else {
		o.Status = reconciler.StatusPending()
	}
	return o
}

// ---------------------------------------------------------------- lifecycle
func (e *eng) start() {
	if e.started {
		return
	}
	e.started = true
	e.t0 = time.Now()
	e.log = slog.New(slog.NewTextHandler(io.Discard, &slog.HandlerOptions{Level: slog.LevelError + 8}))
	c := e.cfg
	var regErr error
	e.hive = hive.New(
		statedb.Cell,
		job.Cell,
		cell.Provide(
			func() cell.Health { return probeHealth{e} },
			func() reconciler.Metrics { return roundMetrics{e} },
			func(r job.Registry, h cell.Health) job.Group { return r.NewGroup(h) },
		),
		cell.Invoke(func(db *statedb.DB) (err error) {
			e.db = db
			e.table, err = statedb.NewTable(db, "objs", keyIndex)
			if err == nil && c.init {
				wtxn := db.WriteTxn(e.table)
				e.markInit = e.table.RegisterInitializer(wtxn, "harness")
				wtxn.Commit()
			}
			return err
		}),
		cell.Module("verif", "verif",
			cell.Invoke(func(p reconciler.Params) error {
				opts := []reconciler.Option{
					reconciler.WithRetry(time.Duration(c.minb)*time.Millisecond, time.Duration(c.maxb)*time.Millisecond),
					reconciler.WithRoundLimits(c.rs, rate.NewLimiter(rate.Inf, 1)),
					reconciler.WithRefreshing(0, nil),
				}
				if c.prunei > 0 {
					opts = append(opts, reconciler.WithPruning(time.Duration(c.prunei)*time.Millisecond))
				} else {
					opts = append(opts, reconciler.WithoutPruning())
				}
				var b reconciler.BatchOperations[*obj]
				if c.batch {
					b = bops{e}
				}
				e.r, regErr = reconciler.Register(p, e.table, (*obj).Clone, (*obj).SetStatus, (*obj).GetStatus,
					ops{e}, b, opts...)
				return regErr
			}),
		),
	)
	e.history = []map[uint64]int{{}}
	if err := e.hive.Start(e.log, context.Background()); err != nil {
		panic("hive start: " + err.Error())
	}
	synctest.Wait()
}

// quiesce lets the reconciler run until it is idle, then evaluates the continuous C15 oracles.
func (e *eng) quiesce() {
	synctest.Wait()
	e.tableOracle()
	e.history = []map[uint64]int{cloneMap(e.want)}
}

// C15 oracle on the table: payloads are exactly what the user wrote (no clobbering, no resurrection,
// nothing lost) and Done/Error only for a version that was passed to Update with that outcome.
func (e *eng) tableOracle() {
	got := map[uint64]int{}
	for o := range e.table.All(e.db.ReadTxn()) {
		got[o.K] = o.Ver
		if g, ok := e.wantGen[o.K]; ok && g != o.Gen {
			e.flag("C15", "payload-or-generation-clobbered")
		}
		if w, ok := e.wantOther[o.K]; ok && w != o.Other {
			// the field only the second reconciler writes (its status) is not what its last write left
			e.flag("C15", "other-reconcilers-status-clobbered")
		}
		switch o.GetStatus().Kind {
		case reconciler.StatusKindDone, reconciler.StatusKindError:
			wantOK := o.GetStatus().Kind == reconciler.StatusKindDone
			seen := false
			for _, c := range e.hist {
				if (c.op == "U" || c.op == "UB") && c.k == o.K && c.gen == o.Gen && c.ver == o.Ver && c.ok == wantOK {
					seen = true
				}
			}
			if !seen {
				e.flag("C15", "status-for-version-not-passed-to-update")
			}
			// at a quiescence point the status reports the outcome of the LAST Update of this version
			var last *call
			for j := range e.hist {
				if c := &e.hist[j]; (c.op == "U" || c.op == "UB") && c.k == o.K && c.gen == o.Gen {
					last = c
				}
			}
			if last != nil && last.ok != wantOK {
				e.flag("C15", "status-misreports-last-update-outcome")
			}
		}
	}
	if !mapsEq(got, e.want) {
		for k := range got {
			if _, ok := e.want[k]; !ok {
				e.flag("C15", "deleted-object-resurrected")
			}
		}
		e.flag("C15", "payload-clobbered")
	}
}

func (e *eng) tableRev() uint64 { return e.table.Revision(e.db.ReadTxn()) }

func (e *eng) callsStr() string {
	cs := e.calls
	e.calls = nil
	sort.SliceStable(cs, func(i, j int) bool {
		if cs[i].t != cs[j].t {
			return cs[i].t < cs[j].t
		}
		return cs[i].k < cs[j].k
	})
	var parts []string
	for _, c := range cs {
		if c.op == "P" {
			parts = append(parts, fmt.Sprintf("%d:P:%s", c.t, orDash(c.prune)))
			continue
		}
		parts = append(parts, fmt.Sprintf("%d:%s:k%d:v%d:%s:%s", c.t, c.op, c.k, c.ver, c.revs, okStr(c.ok)))
	}
	return "[" + strings.Join(parts, " ") + "]"
}

func orDash(s string) string {
	if s == "" {
		return "-"
	}
	return s
}
func okStr(b bool) string {
	if b {
		return "ok"
	}
	return "fail"
}

func (e *eng) Op(f []string, line string, out *hx.Out) {
	atoi := func(s string) int {
		v, err := strconv.Atoi(s)
		if err != nil {
			panic("bad int " + s)
		}
		return v
	}
	switch f[0] {
	case "probe":
		// probe unset|refresh: see probe.go (implementation-only oracles; the model answers "ok")
		s, pr := "", "C15"
		if f[1] == "refreshbackoff" {
			pr = "C16" // retry pacing: the refresher must not restart a failing object's backoff
		}
		if f[1] == "validate" {
			pr = "C14" // the configurations the convergence theorems exclude are rejected at registration
		}
		for _, b := range runProbe(f[1], false) {
			s += " !BAD:" + pr + ":" + b
		}
		out.P("P:C15,C16 probe ok%s", s)
	case "backoff":
		// backoff <min ns> <max ns> <attempt>: the retry backoff computation itself, on any bounds (the runs
		// only reach a handful of attempts with millisecond bounds)
		if len(f) != 4 {
			out.P("E backoff")
			return
		}
		mn, mx, n := atoi(f[1]), atoi(f[2]), atoi(f[3])
		d := reconciler.VerifBackoffDuration(time.Duration(mn), time.Duration(mx), n)
		bad := ""
		if mn <= mx && (int64(d) < int64(mn) || int64(d) > int64(mx)) {
			bad = " !BAD:C16:backoff-outside-bounds"
		}
		out.P("P:C16 backoff=%d%s", int64(d), bad)
	case "cfg":
		if e.started || (len(f) != 7 && len(f) != 8) {
			out.P("M:%s E cfg", tags)
			return
		}
		e.cfg = config{batch: f[1] == "b", rs: atoi(f[2]), minb: atoi(f[3]), maxb: atoi(f[4]), prunei: atoi(f[5]), init: f[6] == "1", sset: len(f) == 8 && f[7] == "1"}
		e.start()
		e.quiesce()
		out.P("M:%s cfg rev=%d calls=%s%s", tags, e.tableRev(), e.callsStr(), e.takeBad())
	case "fail":
		k, n := uint64(atoi(f[1])), atoi(f[2])
		if e.faults[k] == nil {
			e.faults[k] = map[int]bool{}
		}
		e.faults[k][n] = true
		out.P("M:%s ok", tags)
	case "hook", "hookf":
		k, n := 2*uint64(atoi(f[1])), atoi(f[2])
		if f[0] == "hookf" {
			k++
		}
		if e.hooks[k] == nil {
			e.hooks[k] = map[int][]wr{}
		}
		e.hooks[k][n] = append(e.hooks[k][n], wr{f[3], uint64(atoi(f[4]))})
		out.P("M:%s ok", tags)
	case "w":
		e.start()
		e.doWrite(f[1], uint64(atoi(f[2])))
		e.quiesce()
		out.P("M:%s rev=%d calls=%s%s", tags, e.tableRev(), e.callsStr(), e.takeBad())
	case "wmany":
		// wmany <wkind>:<k> ...   several user writes in ONE write transaction (one commit, one wake-up of the
		// reconciler: the changes reach it in one round, round size permitting), then quiesce
		e.start()
		wtxn := e.db.WriteTxn(e.table)
		wrote := false
		for _, a := range f[1:] {
			kk := strings.SplitN(a, ":", 2)
			if e.doWriteIn(wtxn, kk[0], uint64(atoi(kk[1]))) {
				wrote = true
			}
		}
		if wrote {
			wtxn.Commit()
			e.history = append(e.history, cloneMap(e.want))
		} else {
			wtxn.Abort()
		}
		e.quiesce()
		out.P("M:%s rev=%d calls=%s%s", tags, e.tableRev(), e.callsStr(), e.takeBad())
	case "sleep":
		e.start()
		time.Sleep(time.Duration(atoi(f[1])) * time.Millisecond)
		e.quiesce()
		out.P("M:%s t=%d calls=%s%s", tags, e.now(), e.callsStr(), e.takeBad())
	case "prune":
		e.start()
		e.r.Prune()
		e.quiesce()
		out.P("M:%s calls=%s%s", tags, e.callsStr(), e.takeBad())
	case "initdone":
		e.start()
		if e.markInit != nil && !e.initDone {
			e.initDone = true
			wtxn := e.db.WriteTxn(e.table)
			e.markInit(wtxn)
			wtxn.Commit()
		}
		e.quiesce()
		out.P("M:%s calls=%s%s", tags, e.callsStr(), e.takeBad())
	case "dump":
		e.start()
		e.quiesce()
		var parts []string
		for o := range e.table.All(e.db.ReadTxn()) {
			// a<n>: the field only the second (imaginary) reconciler writes
			parts = append(parts, fmt.Sprintf("k%d:v%d:%s:a%d", o.K, o.Ver, kindStr(o.GetStatus()), o.Other))
		}
		out.P("M:C14,C15 rev=%d [%s]%s", e.tableRev(), strings.Join(parts, " "), e.takeBad())
	case "wur":
		e.start()
		e.wur(f[1], out)
	case "final":
		e.start()
		e.faultsOff = true
		for i := 0; i < 3; i++ {
			time.Sleep(time.Duration(e.cfg.maxb) * time.Millisecond)
			e.quiesce()
		}
		e.calls = nil
		e.final(out)
	default:
		out.P("M:%s E unknown op", tags)
	}
}

func kindStr(s reconciler.Status) string {
	switch s.Kind {
	case reconciler.StatusKindPending:
		return "P"
	case reconciler.StatusKindRefreshing:
		return "R"
	case reconciler.StatusKindDone:
		return "D"
	case reconciler.StatusKindError:
		if s.Error == nil {
			return "E?"
		}
		return "E"
	}
	return "?"
}

func (e *eng) wur(expr string, out *hx.Out) {
	cur := e.tableRev()
	var rev uint64
	switch {
	case expr == "cur":
		rev = cur
	case strings.HasPrefix(expr, "cur+"):
		v, _ := strconv.Atoi(expr[4:])
		rev = cur + uint64(v)
	case strings.HasPrefix(expr, "cur-"):
		v, _ := strconv.Atoi(expr[4:])
		if uint64(v) > cur {
			rev = 0
		} else {
			rev = cur - uint64(v)
		}
	default:
		v, _ := strconv.Atoi(expr)
		rev = uint64(v)
	}
	type res struct {
		rev, lwm uint64
		err      error
	}
	ctx, cancel := context.WithCancel(context.Background())
	done := make(chan res, 1)
	go func() {
		r, l, err := e.r.WaitUntilReconciled(ctx, rev)
		done <- res{r, l, err}
	}()
	synctest.Wait()
	var rs res
	select {
	case rs = <-done:
	default:
		cancel()
		rs = <-done
	}
	cancel()
	es := "ok"
	if rs.err != nil {
		es = "canceled"
	}
	// C16 oracles (independent of the model)
	if rs.err == nil {
		if rs.rev < rev {
			e.flag("C16", "wur-returned-below-requested")
		}
		// every change <= rev that is still the latest write of its key was attempted
		for i, c := range e.changes {
			if c.hi > rev {
				continue
			}
			superseded := false
			for _, d := range e.changes[i+1:] {
				if d.k == c.k {
					superseded = true
				}
			}
			if superseded {
				continue
			}
			att := false
			for _, h := range e.hist {
				if h.k == c.k && h.gen == c.gen || (c.kind == "del" && h.k == c.k && isDel(h.op) && h.rev == c.rev) {
					att = true
				}
			}
			if !att {
				e.flag("C16", "wur-ok-before-change-attempted")
			}
		}
	}
	// low watermark: 0 iff no failed object awaits retry, else the revision of the oldest failing change
	// (a change's revision is the revision of the user write, or of a later status-only re-stamp of it)
	var lo, hi uint64
	for i, c := range e.changes {
		superseded := false
		for _, d := range e.changes[i+1:] {
			if d.k == c.k {
				superseded = true
			}
		}
		if superseded {
			continue
		}
		var last *call
		for j := range e.hist {
			h := &e.hist[j]
			if h.k == c.k && (h.gen == c.gen || (c.kind == "del" && isDel(h.op) && h.rev == c.rev)) {
				last = h
			}
		}
		if last != nil && !last.ok {
			if lo == 0 || c.rev < lo {
				lo = c.rev
			}
			if hi == 0 || c.hi < hi {
				hi = c.hi
			}
		}
	}
	if (rs.lwm == 0) != (lo == 0) {
		e.flag("C16", "lwm-zero-iff-no-failed-object")
	} else if rs.lwm < lo || rs.lwm > hi || !e.userRevs[rs.lwm] {
		if lo != 0 {
			e.flag("C16", "lwm-not-oldest-failing-change")
		}
	}
	out.P("P:C16 wur req=%d rev=%d lwm=%d %s%s", rev, rs.rev, rs.lwm, es, e.takeBad())
}

func (e *eng) final(out *hx.Out) {
	conv := true
	var live []string
	got := map[uint64]int{}
	for o := range e.table.All(e.db.ReadTxn()) {
		got[o.K] = o.Ver
		live = append(live, fmt.Sprintf("k%d:v%d", o.K, o.Ver))
		if o.GetStatus().Kind != reconciler.StatusKindDone {
			conv = false
			e.flag("C14", "live-object-not-done")
		}
		// last successful op is an Update with the latest contents
		var last *call
		for j := range e.hist {
			if h := &e.hist[j]; h.k == o.K && h.ok {
				last = h
			}
		}
		if last == nil || isDel(last.op) || last.ver != o.Ver {
			conv = false
			e.flag("C14", "last-successful-op-not-update-with-latest")
		}
		// C15: an object of which an earlier version had already been handed to the target (its result, if it
		// arrived after the change, was dropped) has been reconciled again: its current version was passed to Update
		older, again := false, false
		for j := range e.hist {
			if h := &e.hist[j]; h.k == o.K && !isDel(h.op) {
				if h.ver == o.Ver {
					again = true
				} else {
					older = true
				}
			}
		}
		if older && !again {
			e.flag("C15", "changed-object-not-reconciled-again")
		}
	}
	if !mapsEq(got, e.want) {
		conv = false
		e.flag("C14", "table-contents-lost")
	}
	if !mapsEq(e.target, got) {
		conv = false
		e.flag("C14", "target-differs-from-table")
	}
	// removed objects: last op is a successful Delete (if the target ever saw the key)
	seenKeys := map[uint64]bool{}
	for _, h := range e.hist {
		seenKeys[h.k] = true
	}
	for k := range seenKeys {
		if _, liveK := got[k]; liveK {
			continue
		}
		var last *call
		for j := range e.hist {
			if h := &e.hist[j]; h.k == k {
				last = h
			}
		}
		if !(isDel(last.op) && last.ok) {
			conv = false
			e.flag("C14", "removed-object-last-op-not-successful-delete")
		}
		// C15: an object deleted while or after one of its versions was handed to the target is reconciled again
		// (a Delete follows the last Update)
		if !isDel(last.op) {
			e.flag("C15", "deleted-object-not-reconciled-again")
		}
	}
	// nothing forgotten: every removed key that was ever written got a Delete
	for _, c := range e.changes {
		if _, liveK := got[c.k]; !liveK && c.kind == "del" && !seenKeys[c.k] {
			// deleted before the reconciler ever saw it: must still have been Delete()d
			conv = false
			e.flag("C14", "deletion-forgotten")
		}
	}
	s := "converged"
	if !conv {
		s = "NOT-converged"
	}
	out.P("P:C14 final %s live=[%s]%s", s, strings.Join(live, " "), e.takeBad())
}

func sortedKeys(m map[uint64]int) []uint64 {
	ks := make([]uint64, 0, len(m))
	for k := range m {
		ks = append(ks, k)
	}
	sort.Slice(ks, func(i, j int) bool { return ks[i] < ks[j] })
	return ks
}
func cloneMap(m map[uint64]int) map[uint64]int {
	c := make(map[uint64]int, len(m))
	for k, v := range m {
		c[k] = v
	}
	return c
}
func mapsEq(a, b map[uint64]int) bool {
	if len(a) != len(b) {
		return false
	}
	for k, v := range a {
		if w, ok := b[k]; !ok || w != v {
			return false
		}
	}
	return true
}

func main() { hx.MainBubble(&eng{}) }
