package main

// probe: directed scenarios on a reconciler of their own, judged by implementation-only oracles. They cover
// code the model does not contain - the refresh loop (reconciler.go refreshLoop; in the model a refresh is the
// atomic user write `ref`) and objects whose status was never set - so nothing here is compared with the
// model beyond the constant "ok" (this is a search for a failing history, not part of the proof).

import (
	"context"
	"fmt"
	"io"
	"iter"
	"log/slog"
	"sync"
	"sync/atomic"
	"testing/synctest"
	"time"

	"github.com/cilium/hive"
	"github.com/cilium/hive/cell"
	"github.com/cilium/hive/job"
	"github.com/cilium/statedb"
	"github.com/cilium/statedb/reconciler"
	"golang.org/x/time/rate"
)

type probeCall struct {
	at     time.Time
	ver    int
	failed bool
}

type probeOps struct {
	mu       sync.Mutex
	updates  map[uint64][]int       // key -> payload versions handed to Update
	calls    map[uint64][]probeCall // key -> every Update call with its virtual time and outcome
	failFrom int                    // Update of a payload version >= failFrom fails (0: nothing fails)
}

func (p *probeOps) Update(_ context.Context, _ statedb.ReadTxn, _ statedb.Revision, o *obj) error {
	p.mu.Lock()
	defer p.mu.Unlock()
	p.updates[o.K] = append(p.updates[o.K], o.Ver)
	failed := p.failFrom > 0 && o.Ver >= p.failFrom
	p.calls[o.K] = append(p.calls[o.K], probeCall{time.Now(), o.Ver, failed})
	if failed {
		return fmt.Errorf("probe: scripted failure")
	}
	return nil
}
func (p *probeOps) Delete(context.Context, statedb.ReadTxn, statedb.Revision, *obj) error { return nil }
func (p *probeOps) Prune(context.Context, statedb.ReadTxn, iter.Seq2[*obj, statedb.Revision]) error {
	return nil
}

// probeValidate: the configurations the convergence theorems exclude by hypothesis (round size >= 1, positive backoff
// bounds, C14_converges_needs_positive_round_size_refuted) are rejected by reconciler.Register, and the smallest
// configurations they admit are accepted (reconciler/config.go validate, reconciler/builder.go Register)
func probeValidate() (bad []string) {
	log := slog.New(slog.NewTextHandler(io.Discard, &slog.HandlerOptions{Level: slog.LevelError + 8}))
	type cfgT struct {
		name           string
		round          int
		minB, maxB     time.Duration
		refresh, prune time.Duration
		noClone, noOps bool
		noGet, noSet   bool
		wantErr        bool
	}
	ns := time.Nanosecond
	cases := []cfgT{
		{name: "roundsize=0", round: 0, minB: ns, maxB: ns, wantErr: true},
		{name: "roundsize=-1", round: -1, minB: ns, maxB: ns, wantErr: true},
		{name: "minbackoff=0", round: 1, minB: 0, maxB: ns, wantErr: true},
		{name: "maxbackoff=0", round: 1, minB: ns, maxB: 0, wantErr: true},
		{name: "minbackoff<0", round: 1, minB: -ns, maxB: ns, wantErr: true},
		{name: "maxbackoff<0", round: 1, minB: ns, maxB: -ns, wantErr: true},
		{name: "refresh<0", round: 1, minB: ns, maxB: ns, refresh: -ns, wantErr: true},
		{name: "prune<0", round: 1, minB: ns, maxB: ns, prune: -ns, wantErr: true},
		{name: "no-clone", round: 1, minB: ns, maxB: ns, noClone: true, wantErr: true},
		{name: "no-getstatus", round: 1, minB: ns, maxB: ns, noGet: true, wantErr: true},
		{name: "no-setstatus", round: 1, minB: ns, maxB: ns, noSet: true, wantErr: true},
		{name: "no-operations", round: 1, minB: ns, maxB: ns, noOps: true, wantErr: true},
		{name: "smallest-valid", round: 1, minB: ns, maxB: ns, wantErr: false},
		{name: "valid-with-refresh-and-prune", round: 3, minB: time.Millisecond, maxB: time.Second, refresh: time.Second, prune: time.Second, wantErr: false},
	}
	for _, c := range cases {
		var table statedb.RWTable[*obj]
		var regErr error
		po := &probeOps{updates: map[uint64][]int{}, calls: map[uint64][]probeCall{}}
		h := hive.New(
			statedb.Cell, job.Cell,
			cell.Provide(cell.NewSimpleHealth, reconciler.NewExpVarMetrics,
				func(r job.Registry, h cell.Health) job.Group { return r.NewGroup(h) }),
			cell.Invoke(func(d *statedb.DB) (err error) {
				table, err = statedb.NewTable(d, "probe", keyIndex)
				return err
			}),
			cell.Module("probe", "probe", cell.Invoke(func(p reconciler.Params) error {
				clone, set, get := (*obj).Clone, (*obj).SetStatus, (*obj).GetStatus
				if c.noClone {
					clone = nil
				}
				if c.noSet {
					set = nil
				}
				if c.noGet {
					get = nil
				}
				var ops reconciler.Operations[*obj] = po
				if c.noOps {
					ops = nil
				}
				opts := []reconciler.Option{
					reconciler.WithRetry(c.minB, c.maxB),
					reconciler.WithRoundLimits(c.round, rate.NewLimiter(rate.Inf, 1)),
					reconciler.WithRefreshing(c.refresh, nil),
				}
				if c.prune != 0 {
					opts = append(opts, reconciler.WithPruning(c.prune))
				} else {
					opts = append(opts, reconciler.WithoutPruning())
				}
				_, regErr = reconciler.Register(p, table, clone, set, get, ops, nil, opts...)
				return nil
			})),
		)
		func() {
			defer func() {
				if r := recover(); r != nil {
					regErr = fmt.Errorf("panic: %v", r)
				}
			}()
			if err := h.Populate(log); err != nil && regErr == nil {
				regErr = err
			}
		}()
		if c.wantErr && regErr == nil {
			bad = append(bad, "invalid-configuration-accepted("+c.name+")")
		}
		if !c.wantErr && regErr != nil {
			bad = append(bad, "valid-configuration-rejected("+c.name+")")
		}
	}
	return bad
}

// runProbe returns the clauses that failed
func runProbe(kind string, batch bool) (bad []string) {
	if kind == "validate" {
		return probeValidate()
	}
	var (
		db    *statedb.DB
		table statedb.RWTable[*obj]
	)
	po := &probeOps{updates: map[uint64][]int{}, calls: map[uint64][]probeCall{}}
	// refreshbackoff: hour-scale backoff, a refresh interval of a minute and a refresh rate limiter that makes
	// the refresher wait ten seconds between two objects of one sweep (the window in which it holds a stale view)
	retryMin, retryMax := 10*time.Millisecond, 40*time.Millisecond
	refreshEvery, refreshLimiter := 40*time.Millisecond, (*rate.Limiter)(nil)
	if kind == "refreshbackoff" {
		retryMin, retryMax = time.Hour, 24*time.Hour
		refreshEvery, refreshLimiter = time.Minute, rate.NewLimiter(rate.Every(10*time.Second), 1)
		po.failFrom = 2
	}
	log := slog.New(slog.NewTextHandler(io.Discard, &slog.HandlerOptions{Level: slog.LevelError + 8}))
	h := hive.New(
		statedb.Cell, job.Cell,
		cell.Provide(cell.NewSimpleHealth, reconciler.NewExpVarMetrics,
			func(r job.Registry, h cell.Health) job.Group { return r.NewGroup(h) }),
		cell.Invoke(func(d *statedb.DB) (err error) {
			db = d
			table, err = statedb.NewTable(db, "probe", keyIndex)
			return err
		}),
		cell.Module("probe", "probe", cell.Invoke(func(p reconciler.Params) error {
			_, err := reconciler.Register(p, table, (*obj).Clone, (*obj).SetStatus, (*obj).GetStatus, po, nil,
				reconciler.WithRetry(retryMin, retryMax),
				reconciler.WithRoundLimits(100, rate.NewLimiter(rate.Inf, 1)),
				reconciler.WithRefreshing(refreshEvery, refreshLimiter),
				reconciler.WithoutPruning())
			return err
		})),
	)
	if err := h.Start(log, context.Background()); err != nil {
		return []string{"probe-start:" + err.Error()}
	}
	defer h.Stop(log, context.Background())
	get := func(k uint64) (*obj, bool) {
		o, _, ok := table.Get(db.ReadTxn(), keyIndex.Query(k))
		return o, ok
	}
	switch kind {
	case "unset":
		// an object whose status was never set does not ask for reconciliation: it is not handed to Update and
		// stays as it is, while its pending neighbour is reconciled
		w := db.WriteTxn(table)
		table.Insert(w, &obj{K: 1, Ver: 1})
		table.Insert(w, &obj{K: 2, Ver: 1, Status: reconciler.StatusPending()})
		w.Commit()
		time.Sleep(500 * time.Millisecond)
		synctest.Wait()
		po.mu.Lock()
		n1, n2 := len(po.updates[1]), len(po.updates[2])
		po.mu.Unlock()
		if n1 != 0 {
			bad = append(bad, "object-with-unset-status-updated")
		}
		if n2 == 0 {
			bad = append(bad, "pending-object-not-updated")
		}
		if o, ok := get(1); !ok || o.Status.Kind != (reconciler.Status{}).Kind {
			bad = append(bad, "unset-status-overwritten")
		}
	case "refresh":
		// a user transaction holds the table lock; the refresher, having looked at a Done object outside any
		// transaction, runs into the lock (seen through the lock hook); the user then commits an update of that
		// object / a delete, and only then does the refresher get the lock: nothing the user wrote may be reverted
		// or re-created. (Virtual time cannot pass while a goroutine waits for a mutex, so the probe never sleeps
		// while it holds the lock.)
		var armed atomic.Bool
		sig := make(chan struct{}, 16)
		statedb.VerifSetLockHook(func(event string, _ uint64) {
			if event == "locking" && armed.Load() {
				select {
				case sig <- struct{}{}:
				default:
				}
			}
		})
		defer statedb.VerifSetLockHook(nil)
		w := db.WriteTxn(table)
		for k := uint64(1); k <= 3; k++ {
			table.Insert(w, &obj{K: k, Ver: 1, Status: reconciler.StatusPending()})
		}
		w.Commit()
		for round := 0; round < 3; round++ {
			time.Sleep(15 * time.Millisecond)
			synctest.Wait() // the reconciler is idle, every object Done; the next to want the lock is the refresher
			w := db.WriteTxn(table)
			armed.Store(true)
			select {
			case <-sig:
			case <-time.After(300 * time.Millisecond):
				bad = append(bad, "refresher-never-asked-for-the-lock")
			}
			armed.Store(false)
			for k := uint64(1); k <= 3; k++ { // whichever object the refresher is after
				if o, _, ok := table.Get(w, keyIndex.Query(k)); ok && (k != 2 || round == 0) {
					table.Insert(w, &obj{K: k, Ver: o.Ver + 10, Status: reconciler.StatusPending()})
				} else if ok {
					table.Delete(w, o)
				}
			}
			w.Commit()
			time.Sleep(15 * time.Millisecond)
			synctest.Wait()
			want := 1 + 10*(round+1)
			for _, k := range []uint64{1, 3} {
				if o, ok := get(k); !ok || o.Ver != want {
					bad = append(bad, fmt.Sprintf("user-update-reverted(k%d,round%d)", k, round))
				}
			}
			if _, ok := get(2); ok && round >= 1 {
				bad = append(bad, "deleted-object-re-created")
			}
		}
		time.Sleep(200 * time.Millisecond)
		synctest.Wait()
		po.mu.Lock()
		last := po.updates[1]
		po.mu.Unlock()
		if len(last) == 0 || last[len(last)-1] != 31 {
			bad = append(bad, "latest-version-not-the-last-update")
		}
	case "refreshbackoff":
		// C16 "the backoff starts over [only] after the object changes or succeeds": the refresher looks at a
		// snapshot, then waits for its rate limiter between two objects; meanwhile the user updates the objects it
		// has not reached yet and the update FAILS (status Error, retry queued an hour ahead). When the refresher
		// gets to them it must leave them alone (reconciler.go refreshLoop: `ok && rev == newRev`; theorem
		// C16_refresher_never_restarts_a_backoff): nobody but the library touches them after the failure, so the
		// next attempt may come no sooner than the minimum backoff after the failed one - and must come.
		w := db.WriteTxn(table)
		for k := uint64(1); k <= 3; k++ {
			table.Insert(w, &obj{K: k, Ver: 1, Status: reconciler.StatusPending()})
		}
		w.Commit()
		time.Sleep(65 * time.Second) // the sweep started at 60 s, took the first object and waits for the limiter
		synctest.Wait()
		po.mu.Lock()
		refreshed := map[uint64]bool{}
		for k, c := range po.calls {
			refreshed[k] = len(c) >= 2
		}
		po.mu.Unlock()
		nref := 0
		for _, r := range refreshed {
			if r {
				nref++
			}
		}
		if nref != 1 {
			bad = append(bad, fmt.Sprintf("refresher-swept-%d-objects-in-5s-at-1-per-10s", nref))
		}
		w = db.WriteTxn(table)
		for k := uint64(1); k <= 3; k++ {
			if !refreshed[k] {
				table.Insert(w, &obj{K: k, Ver: 2, Status: reconciler.StatusPending()})
			}
		}
		w.Commit()
		time.Sleep(4 * time.Hour)
		synctest.Wait()
		po.mu.Lock()
		for k := uint64(1); k <= 3; k++ {
			c := po.calls[k]
			retried := false
			for i := 1; i < len(c); i++ {
				if c[i-1].failed && c[i].ver == c[i-1].ver {
					retried = true
					if d := c[i].at.Sub(c[i-1].at); d < retryMin {
						bad = append(bad, fmt.Sprintf("re-attempt-%ds-after-failure-min-backoff-%ds(k%d)", int(d.Seconds()), int(retryMin.Seconds()), k))
						break
					}
				}
			}
			if !refreshed[k] && !retried {
				bad = append(bad, fmt.Sprintf("failed-update-never-retried(k%d)", k))
			}
		}
		po.mu.Unlock()
		for k := uint64(1); k <= 3; k++ {
			if o, ok := get(k); !ok || (!refreshed[k] && (o.Ver != 2 || o.Status.Kind != reconciler.StatusKindError)) {
				bad = append(bad, fmt.Sprintf("failing-object-not-in-error(k%d)", k))
			}
		}
	default:
		bad = append(bad, "unknown-probe")
	}
	return bad
}
