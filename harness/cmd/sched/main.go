// sched engine: forces interleavings of write transactions, commits, aborts and table
// registration at the granularity of the verif hook points, and observes after every
// micro-step what a fresh reader can see. Serves C02, C05, C06, C10, C19.
//
// ops:  tables <n>
//
//	actor <name> w <tabs> <writes> commit|abort <reg> <done>     writer transaction
//	actor <name> reg                                             NewTable (registers table <name>)
//	actor <name> close <tab>                                     ChangeIterator.Close() of an iterator on <tab> (WriteTxn(tab) + Commit inside)
//	actor <name> gc <tabs>                                       the real graveyard worker, with collectable tombstones in <tabs> (WriteTxn(tabs) + Commit)
//	watch <tab> | iwatch <tab>                                   keep a table-wide / initialization watch channel
//	step <name>                                                  release actor <name> for one micro-step
package main

import (
	"bytes"
	"fmt"
	"iter"
	"runtime"
	"sort"
	"strconv"
	"strings"
	"sync"
	"time"

	"github.com/cilium/statedb"
	"github.com/cilium/statedb/index"

	"verif/harness/hx"
)

type Obj struct {
	ID uint64
}

// every object also has one key in an LPM index (the 16-bit prefix of its id), so that a write changes both
// the radix primary index and the LPM index
func lpmKeys(o *Obj) iter.Seq2[[]byte, statedb.PrefixLen] {
	return func(yield func([]byte, statedb.PrefixLen) bool) {
		yield([]byte{byte(o.ID >> 8), byte(o.ID)}, 16)
	}
}

var lpmIndex = statedb.LPMIndex[*Obj]{
	Name:       "lpm",
	FromObject: lpmKeys,
	FromString: func(string) ([]byte, statedb.PrefixLen, error) { return nil, 0, fmt.Errorf("unsupported") },
	Unique:     true,
}

func (o *Obj) TableHeader() []string { return []string{"ID"} }
func (o *Obj) TableRow() []string    { return []string{fmt.Sprint(o.ID)} }

var idIndex = statedb.Index[*Obj, uint64]{
	Name:       "id",
	FromObject: func(o *Obj) index.KeySet { return index.NewKeySet(index.Uint64(o.ID)) },
	FromKey:    index.Uint64,
	Unique:     true,
}

type actorT struct {
	name    string
	id      uint64
	kind    string                       // "w" | "reg" | "close" | "gc"
	iter    statedb.ChangeIterator[*Obj] // close: the iterator to close
	bound   bool                         // gc: the worker goroutine has been attributed to this actor
	cycles  int                          // gc: collection cycles begun
	tabs    []int
	writes  []int
	commit  bool
	reg     [][2]int
	done    [][2]int
	started bool
	fin     bool
	point   string // where it is parked ("" = not started)
	seqWant uint64 // for locking:k the seq it is about to lock
	nlocks  int
	report  chan string
	resume  chan struct{}
	view    string
	ret     string
	eager   bool // released into a lock that is held: blocked inside the implementation's Lock()
	c       *eng // the case this actor belongs to (goroutines of finished cases never touch a later case)
}

// goid returns the id of the calling goroutine (harness-only: lock events are attributed to actors by goroutine)
func goid() uint64 {
	var buf [64]byte
	n := runtime.Stack(buf[:], false)
	f := bytes.Fields(buf[:n])
	id, _ := strconv.ParseUint(string(f[1]), 10, 64)
	return id
}

type eng struct {
	mu        sync.Mutex
	db        *statedb.DB
	tabs      []statedb.RWTable[*Obj]
	seqOf     []uint64
	actors    []*actorT
	byName    map[string]*actorT
	current   *actorT
	holder    map[uint64]*actorT
	rootHold  *actorT
	watches   []<-chan struct{}
	retained  []retained
	draining  bool
	inits     map[string]func(statedb.WriteTxn)
	ntab0     int // number of initial tables
	gcStarted bool
	keep      []statedb.ChangeIterator[*Obj] // iterators kept open (their trackers keep tombstones until handed)
	poisoned  bool                           // an actor got stuck: the rest of the case is not executed (each step would wait 5 s)
}

// goroutine id -> actor, over all cases: a hook call is attributed to the actor (and thereby to the case)
// whose goroutine makes it
var (
	goMu sync.Mutex
	byGo = map[uint64]*actorT{}
)

// the gc actor of the case being set up: its worker goroutine is attributed to it at its first hook call
var (
	gcMu  sync.Mutex
	curGC *actorT
)

func bindGC() *actorT {
	gcMu.Lock()
	a := curGC
	curGC = nil
	gcMu.Unlock()
	if a == nil {
		return nil
	}
	goMu.Lock()
	byGo[goid()] = a
	goMu.Unlock()
	a.c.mu.Lock()
	a.bound = true
	a.c.mu.Unlock()
	return a
}

func actorOfGoroutine() *actorT {
	goMu.Lock()
	defer goMu.Unlock()
	return byGo[goid()]
}

func init() {
	statedb.VerifHook = func(point, who string) {
		a := actorOfGoroutine()
		if a == nil && who == "gc" {
			a = bindGC()
		}
		if a == nil {
			return
		}
		e := a.c
		e.mu.Lock()
		dr := e.draining
		e.mu.Unlock()
		if dr {
			return
		}
		if a.kind == "gc" {
			// the graveyard worker as an actor: it waits (unreported) at gc-triggered until its first step,
			// runs its lock-free scan, then goes through WriteTxn/Commit like any writer; after its commit it
			// is done (a second cycle never starts)
			switch point {
			case "gc-triggered":
				e.mu.Lock()
				a.cycles++
				e.mu.Unlock()
				<-a.resume
				return
			case "gc-scanned":
				return
			case "gc-committed":
				a.report <- "done"
				<-a.resume
				return
			}
		}
		a.park(e, point)
	}
	statedb.VerifSetLockHook(func(event string, seq uint64) {
		a := actorOfGoroutine()
		if a == nil {
			return
		}
		e := a.c
		e.mu.Lock()
		dr := e.draining
		e.mu.Unlock()
		switch event {
		case "locking":
			e.mu.Lock()
			a.seqWant = seq
			k := a.nlocks
			e.mu.Unlock()
			if !dr {
				a.park(e, fmt.Sprintf("locking:%d", k))
			}
		case "locked":
			e.mu.Lock()
			e.holder[seq] = a
			k := a.nlocks
			a.nlocks++
			e.mu.Unlock()
			if !dr {
				a.park(e, fmt.Sprintf("locked:%d", k))
			}
		case "unlocked":
			// the event is raised after the real Unlock: a forced waiter may already have taken the lock (and
			// recorded itself as the holder) before this event arrives - only the unlocking actor's own entry goes
			e.mu.Lock()
			if e.holder[seq] == a {
				delete(e.holder, seq)
			}
			e.mu.Unlock()
		}
	})
}

func (a *actorT) park(e *eng, point string) {
	a.report <- point
	<-a.resume
}

// outer is what hx.Main drives: it owns one fresh *eng per case
type outer struct {
	cur   *eng
	stuck int // cases of this run in which an actor got stuck (each costs stuckTimeout)
}

func (o *outer) Case(id string) {
	if o.cur != nil {
		if o.cur.poisoned {
			o.stuck++
		}
		go o.cur.drain() // actors of the finished case run to completion on their own state
	}
	e := &eng{}
	e.db = statedb.New()
	e.byName = map[string]*actorT{}
	e.holder = map[uint64]*actorT{}
	e.inits = map[string]func(statedb.WriteTxn){}
	o.cur = e
}
func (o *outer) Op(f []string, line string, out *hx.Out) {
	if o.cur == nil {
		o.Case("anon")
	}
	if o.stuck >= 3 {
		// the first stuck cases are reported and shrunk; executing hundreds more would only burn timeouts
		out.P("X skipped: %d cases of this run already got stuck", o.stuck)
		return
	}
	o.cur.Op(f, line, out)
}
func (o *outer) Gen(r *hx.Rand, n int, tier string, prop string, out *hx.Out) {
	(&eng{}).Gen(r, n, tier, prop, out)
}

// drain lets every actor of a finished case run to completion (hooks become no-ops)
func (e *eng) drain() {
	e.mu.Lock()
	e.draining = true
	actors := e.actors
	e.mu.Unlock()
	for _, a := range actors {
		if (a.started && !a.fin) || a.kind == "gc" {
			select {
			case a.resume <- struct{}{}:
			default:
			}
		}
	}
	deadline := time.After(3 * time.Second)
	for _, a := range actors {
		for a.started && !a.fin {
			select {
			case p := <-a.report:
				if p == "done" {
					a.fin = true
				} else {
					select {
					case a.resume <- struct{}{}:
					case <-time.After(200 * time.Millisecond):
					}
				}
			case <-deadline:
				return
			}
		}
	}
}

func parseInts(s string) []int {
	if s == "-" {
		return nil
	}
	var out []int
	for _, p := range strings.Split(s, ",") {
		n := 0
		fmt.Sscan(p, &n)
		out = append(out, n)
	}
	return out
}
func parsePairs(s string) [][2]int {
	if s == "-" {
		return nil
	}
	var out [][2]int
	for _, p := range strings.Split(s, ",") {
		var a, b int
		fmt.Sscanf(p, "%d:%d", &a, &b)
		out = append(out, [2]int{a, b})
	}
	return out
}

func idsOf(seq func(func(any, statedb.Revision) bool)) string {
	var ids []uint64
	for o := range seq {
		ids = append(ids, o.(*Obj).ID)
	}
	sort.Slice(ids, func(i, j int) bool { return ids[i] < ids[j] })
	parts := make([]string, len(ids))
	for i, x := range ids {
		parts[i] = fmt.Sprint(x)
	}
	return "{" + strings.Join(parts, ",") + "}"
}

// dump: the ids in every table of the snapshot's root, in root order
func (e *eng) dump(txn statedb.ReadTxn) (s string) {
	defer func() {
		if r := recover(); r != nil {
			s = "panic:" + hx.PanicClass(r)
		}
	}()
	var parts []string
	for _, meta := range e.db.GetTables(txn) {
		parts = append(parts, idsOf(statedb.AnyTable{Meta: meta}.All(txn)))
	}
	return strings.Join(parts, ";")
}

// viewOf: what a write transaction reads from every table it knows
func (e *eng) viewOf(w statedb.WriteTxn, ntab int) (s string) {
	defer func() {
		if r := recover(); r != nil {
			s = "panic:" + hx.PanicClass(r)
		}
	}()
	var parts []string
	for i := 0; i < ntab; i++ {
		var ids []string
		for o := range e.tabs[i].All(w) {
			ids = append(ids, fmt.Sprint(o.ID))
		}
		sort.Slice(ids, func(a, b int) bool {
			return len(ids[a]) < len(ids[b]) || (len(ids[a]) == len(ids[b]) && ids[a] < ids[b])
		})
		// the initialization state the transaction sees (its own snapshot plus its own registrations / marks),
		// also for tables it has not locked: pending initializers in registration order
		ini := ""
		if pend := e.tabs[i].PendingInitializers(w); len(pend) > 0 {
			ini = "!" + strings.Join(pend, ",")
		}
		if done, _ := e.tabs[i].Initialized(w); done != (ini == "") {
			ini += "?initialized-disagrees-with-pending"
		}
		parts = append(parts, "{"+strings.Join(ids, ",")+"}"+ini)
	}
	return strings.Join(parts, ";")
}

func (e *eng) run(a *actorT) {
	goMu.Lock()
	byGo[goid()] = a
	goMu.Unlock()
	defer func() {
		goMu.Lock()
		delete(byGo, goid())
		goMu.Unlock()
	}()
	defer func() {
		if r := recover(); r != nil {
			a.ret = "panic:" + hx.PanicClass(r)
		}
		a.report <- "done"
	}()
	switch a.kind {
	case "close":
		a.iter.Close()
	case "reg":
		t, err := statedb.NewTable(e.db, a.name, idIndex, lpmIndex)
		if err != nil {
			a.ret = "err:" + hx.PanicClass(err.Error())
			return
		}
		e.mu.Lock()
		e.tabs = append(e.tabs, t)
		e.mu.Unlock()
	case "w":
		h := e.db.NewHandle(a.name)
		var metas []statedb.TableMeta
		ntab := 0
		func() {
			e.mu.Lock()
			defer e.mu.Unlock() // never leave the harness mutex locked on a panic (e.g. a table index a shrunk case no longer has)
			ntab = e.ntab0
			for _, t := range a.tabs {
				metas = append(metas, e.tabs[t])
			}
		}()
		w := h.WriteTxn(metas...)
		defer func() {
			// a panicking actor must not keep its table locks (the other actors would hang)
			if r := recover(); r != nil {
				func() { defer func() { recover() }(); w.Abort() }()
				panic(r)
			}
		}()
		for _, t := range a.writes {
			e.tabs[t].Insert(w, &Obj{ID: a.id})
		}
		for _, r := range a.reg {
			key := fmt.Sprintf("%d/%d", r[0], r[1])
			done := e.tabs[r[0]].RegisterInitializer(w, fmt.Sprint(r[1])) // may panic: not under the harness mutex
			e.mu.Lock()
			e.inits[key] = done
			e.mu.Unlock()
		}
		for _, r := range a.done {
			key := fmt.Sprintf("%d/%d", r[0], r[1])
			e.mu.Lock()
			f := e.inits[key]
			e.mu.Unlock()
			if f != nil {
				f(w)
			}
		}
		a.view = e.viewOf(w, ntab)
		if a.commit {
			rtxn := w.Commit()
			a.ret = e.dump(rtxn)
		} else {
			w.Abort()
		}
	}
}

func isClosed(ch <-chan struct{}) bool {
	select {
	case <-ch:
		return true
	default:
		return false
	}
}

// enabledLocked: can the actor's next micro-step proceed without blocking (harness' own lock table,
// built from the lock events of the implementation)?
func (e *eng) enabledLocked(a *actorT) bool {
	if a.fin {
		return false
	}
	switch {
	case strings.HasPrefix(a.point, "locking:"):
		return e.holder[a.seqWant] == nil
	case a.point == "commit-indexes" || a.point == "register-before-lock":
		return e.rootHold == nil
	}
	return true
}

// awaited: the resource the actor's next micro-step needs ("t<seq>", "root" or "")
func (a *actorT) awaited() string {
	switch {
	case strings.HasPrefix(a.point, "locking:"):
		return fmt.Sprintf("t%d", a.seqWant)
	case a.point == "commit-indexes" || a.point == "register-before-lock":
		return "root"
	}
	return ""
}

// settleEager: actors that were forced into a held lock proceed as soon as it is free; wait for them to
// reach their next hook point (in declaration order) and report what they did.
func (e *eng) settleEager() string {
	suffix := ""
	for {
		var next *actorT
		e.mu.Lock()
		for _, a := range e.actors {
			// the lock is free, or the forced actor has already taken it (its "locked" event may arrive first)
			if a.eager && (e.enabledLocked(a) || (strings.HasPrefix(a.point, "locking:") && e.holder[a.seqWant] == a)) {
				next = a
				break
			}
		}
		e.mu.Unlock()
		if next == nil {
			return suffix
		}
		var p string
		select {
		case p = <-next.report:
		case <-time.After(stuckTimeout):
			next.eager = false
			e.poisoned = true
			return suffix + fmt.Sprintf(" +%s:STUCK(lock is free but the forced actor does not proceed)", next.name)
		}
		e.mu.Lock()
		next.eager = false
		e.notePoint(next, p)
		e.mu.Unlock()
		suffix += fmt.Sprintf(" +%s:%s", next.name, p)
	}
}

// notePoint records the hook point an actor has reached (caller holds e.mu)
func (e *eng) notePoint(a *actorT, p string) {
	a.point = p
	switch p {
	case "commit-root-locked", "register-locked":
		e.rootHold = a
	case "commit-root-unlocked", "register-unlocked":
		e.rootHold = nil
	case "done":
		a.fin = true
	}
}

// retained snapshots (C01 oracle): every read transaction the observer takes is kept with what it showed; whatever
// happens later (commits, aborts, registrations, the collector), it must show the same for ever
type retained struct {
	txn  statedb.ReadTxn
	dump string
}

func (e *eng) fullDump(txn statedb.ReadTxn) (s string) {
	defer func() {
		if r := recover(); r != nil {
			s = "panic:" + hx.PanicClass(r)
		}
	}()
	var parts []string
	for _, meta := range e.db.GetTables(txn) {
		parts = append(parts, fmt.Sprintf("%s@%d#%d%s", meta.Name(), meta.Revision(txn), meta.NumObjects(txn),
			idsOf(statedb.AnyTable{Meta: meta}.All(txn))))
	}
	return strings.Join(parts, ";")
}

func (e *eng) checkRetained(now statedb.ReadTxn) string {
	bad := ""
	for _, r := range e.retained {
		if bad == "" && e.fullDump(r.txn) != r.dump {
			bad = " !BAD:C01:retained-snapshot-changed"
		}
	}
	if len(e.retained) < 96 {
		e.retained = append(e.retained, retained{now, e.fullDump(now)})
	}
	return bad
}

func (e *eng) obs() string {
	rtxn := e.db.ReadTxn()
	root := e.dump(rtxn)
	bad := e.checkRetained(rtxn)
	e.mu.Lock()
	defer e.mu.Unlock()
	var wb strings.Builder
	for _, w := range e.watches {
		if isClosed(w) {
			wb.WriteByte('1')
		} else {
			wb.WriteByte('0')
		}
	}
	var en []string
	for _, a := range e.actors {
		if e.enabledLocked(a) {
			en = append(en, a.name)
		}
	}
	return fmt.Sprintf("root=[%s] w=%s en=[%s]%s", root, wb.String(), strings.Join(en, ","), bad)
}

const tag = "P:C02,C05,C06,C09,C10,C19"

func (e *eng) Op(f []string, line string, out *hx.Out) {
	switch f[0] {
	case "tables":
		n := 0
		fmt.Sscan(f[1], &n)
		for i := 0; i < n; i++ {
			t, err := statedb.NewTable(e.db, fmt.Sprintf("t%d", i), idIndex, lpmIndex)
			if err != nil {
				panic(err)
			}
			e.tabs = append(e.tabs, t)
		}
		e.ntab0 = n
		out.P("M:* ok")
	case "actor":
		a := &actorT{name: f[1], id: uint64(len(e.actors) + 1), kind: f[2], report: make(chan string, 1), resume: make(chan struct{}), c: e}
		if a.kind == "w" {
			a.tabs, a.writes, a.commit = parseInts(f[3]), parseInts(f[4]), f[5] == "commit"
			a.reg, a.done = parsePairs(f[6]), parsePairs(f[7])
		}
		if a.kind == "close" || a.kind == "gc" {
			a.tabs = parseInts(f[3])
			for _, t := range a.tabs {
				if t < 0 || t >= len(e.tabs) {
					out.P("E bad table")
					return
				}
			}
		}
		switch a.kind {
		case "close":
			// set-up (not part of the schedule; no actor has started): an iterator on the table
			w := e.db.WriteTxn(e.tabs[a.tabs[0]])
			it, err := e.tabs[a.tabs[0]].Changes(w)
			w.Commit()
			if err != nil {
				out.P("E changes: %v", err)
				return
			}
			a.iter = it
		case "gc":
			// set-up: the worker is started and every table of <tabs> gets one tombstone that all iterators have
			// been handed (collectable); the worker is triggered by the iterator's mark and parks before its scan
			if !e.gcStarted {
				statedb.VerifSetGCRateLimitInterval(e.db, time.Microsecond)
				gcMu.Lock()
				curGC = a
				gcMu.Unlock()
				e.db.Start()
				e.gcStarted = true
			}
			for _, t := range a.tabs {
				tb := e.tabs[t]
				w := e.db.WriteTxn(tb)
				it, _ := tb.Changes(w)
				tb.Insert(w, &Obj{ID: uint64(60000 + t)})
				w.Commit()
				w = e.db.WriteTxn(tb)
				tb.Delete(w, &Obj{ID: uint64(60000 + t)})
				w.Commit()
				seq, _ := it.Next(e.db.ReadTxn())
				for range seq {
				}
				e.keep = append(e.keep, it)
			}
			deadline := time.Now().Add(stuckTimeout)
			for {
				e.mu.Lock()
				b := a.bound
				e.mu.Unlock()
				if b || time.Now().After(deadline) {
					break
				}
				time.Sleep(200 * time.Microsecond)
			}
			if !a.bound {
				e.poisoned = true
				out.P("X stuck the graveyard worker did not start a collection after deletions were marked")
				return
			}
		}
		e.mu.Lock()
		e.actors = append(e.actors, a)
		e.byName[a.name] = a
		e.mu.Unlock()
		out.P("M:* ok")
	case "watch", "iwatch", "lwatch":
		t := 0
		fmt.Sscan(f[1], &t)
		e.mu.Lock()
		ok := t < len(e.tabs)
		e.mu.Unlock()
		if !ok {
			out.P("%s n/a", tag)
			return
		}
		rtxn := e.db.ReadTxn()
		var ch <-chan struct{}
		func() {
			defer func() { recover() }()
			switch f[0] {
			case "watch":
				_, ch = e.tabs[t].AllWatch(rtxn)
			case "lwatch":
				// the watch channel of a query through the LPM index (index-wide channel)
				_, ch = e.tabs[t].PrefixWatch(rtxn, lpmIndex.Query([]byte{}, 0))
			default:
				_, ch = e.tabs[t].Initialized(rtxn)
			}
		}()
		if ch == nil {
			out.P("%s n/a", tag)
			return
		}
		bad := ""
		if f[0] != "iwatch" && isClosed(ch) {
			bad = " !BAD:C06:closed-when-handed-out"
		}
		e.mu.Lock()
		e.watches = append(e.watches, ch)
		e.mu.Unlock()
		out.P("%s %s%s", tag, e.obs(), bad)
	case "force":
		if e.poisoned {
			out.P("X not executed: an actor is stuck in this case")
			return
		}
		// release an actor into a lock that is currently held (it blocks inside the implementation); at most
		// one forced waiter per lock so that the wake-up order is determined
		e.mu.Lock()
		a := e.byName[f[1]]
		ok := a != nil && a.started && !a.fin && !a.eager && a.awaited() != "" && !e.enabledLocked(a)
		if ok {
			for _, b := range e.actors {
				if b != a && b.eager && b.awaited() == a.awaited() {
					ok = false
				}
			}
		}
		e.mu.Unlock()
		if !ok {
			out.P("%s n/a %s", tag, e.obs())
			return
		}
		a.eager = true
		select {
		case a.resume <- struct{}{}:
		case <-time.After(stuckTimeout):
			e.poisoned = true
			out.P("X stuck %s is not waiting at its hook point %s", a.name, a.point)
			return
		}
		// the forced actor must block inside the implementation's Lock(): the harness' lock table (built from
		// the implementation's own lock events, all other actors parked) says the lock is held by another
		// actor. If it reaches its next hook point instead, the lock did not exclude it.
		bad := ""
		select {
		case p := <-a.report:
			e.mu.Lock()
			held := a.awaited()
			a.eager = false
			e.notePoint(a, p)
			e.mu.Unlock()
			bad = fmt.Sprintf(" !BAD:C05:passed-a-held-lock:%s->%s", held, p)
		case <-time.After(8 * time.Millisecond):
		}
		out.P("%s forced:%s %s%s", tag, a.name, e.obs(), bad)
	case "step":
		if e.poisoned {
			out.P("X not executed: an actor is stuck in this case")
			return
		}
		e.mu.Lock()
		a := e.byName[f[1]]
		ok := a != nil && !a.eager && e.enabledLocked(a)
		if ok {
			e.current = a
		}
		e.mu.Unlock()
		if !ok {
			out.P("%s n/a %s", tag, e.obs())
			return
		}
		if !a.started && a.kind != "gc" {
			a.started = true
			go e.run(a)
		} else {
			a.started = true // gc: the worker goroutine already waits at gc-triggered
			select {
			case a.resume <- struct{}{}:
			case <-time.After(stuckTimeout):
				e.poisoned = true
				out.P("X stuck %s is not waiting at its hook point %s", a.name, a.point)
				return
			}
		}
		var p string
		select {
		case p = <-a.report:
		case <-time.After(stuckTimeout):
			out.P("X stuck %s after %s (blocked although its next step was enabled: deadlock or unexpected wait)", a.name, a.point)
			e.poisoned = true
			return
		}
		e.mu.Lock()
		e.notePoint(a, p)
		extra := ""
		switch {
		case (p == "commit-indexes" || p == "abort-before-unlock") && a.kind == "w":
			extra = " view=[" + a.view + "]"
		case p == "done" && a.kind == "w" && a.commit:
			extra = " ret=[" + a.ret + "]"
		case p == "done" && strings.HasPrefix(a.ret, "panic"):
			extra = " " + a.ret
		}
		e.current = nil
		e.mu.Unlock()
		eager := e.settleEager()
		out.P("%s %s:%s %s%s%s", tag, a.name, p, e.obs(), extra, eager)
	default:
		out.P("E unknown op: %s", line)
	}
}

func main() { hx.Main(&outer{}) }

// stuckTimeout: how long the scheduler waits for an actor whose step is enabled to reach its next hook
// point. Generous, because a false "stuck" on a heavily loaded machine would be a false alarm; a truly
// stuck actor costs this once per case (the rest of the case is skipped).
const stuckTimeout = 30 * time.Second
