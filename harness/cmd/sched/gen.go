package main

import (
	"fmt"
	"strings"

	"verif/harness/hx"
)

func joinInts(xs []int) string {
	if len(xs) == 0 {
		return "-"
	}
	parts := make([]string, len(xs))
	for i, x := range xs {
		parts[i] = fmt.Sprint(x)
	}
	return strings.Join(parts, ",")
}

// systematic: every schedule of two actors with at most two preemptions: actor x runs i steps, actor y
// runs j steps, x runs k more steps, then both are finished round-robin (y first or x first).
func genSystematic(out *hx.Out, prop string) {
	type cfg struct {
		ntab int
		a, b string
		w    []string
	}
	cfgs := []cfg{
		{2, "actor x w 0,1 0,1 commit - -", "actor y w 1,0 0 commit - -", []string{"lwatch 0", "watch 1"}},
		{2, "actor x w 0 0 commit - -", "actor y w 1 1 commit - -", []string{"watch 0"}},
		{2, "actor x w 0,1 1 commit - -", "actor y w 0 0 abort - -", []string{"watch 0", "watch 1"}},
		{1, "actor x w 0 0 commit 0:1 0:1", "actor y w 0 0 commit - -", []string{"iwatch 0", "watch 0"}},
		{2, "actor x w 0,1 0,1 commit - -", "actor y reg", []string{"watch 1"}},
		{1, "actor x w 0 0 abort - -", "actor y reg", nil},
	}
	c := 0
	for ci, cf := range cfgs {
		for i := 0; i <= 19; i++ {
			for j := 1; j <= 19; j += 1 {
				for k := 0; k <= 19; k += 3 {
					out.P("#case sys-%s-%d-%d", prop, ci, c)
					c++
					out.P("tables %d", cf.ntab)
					out.P("%s", cf.a)
					out.P("%s", cf.b)
					for _, w := range cf.w {
						out.P("%s", w)
					}
					for s := 0; s < i; s++ {
						out.P("step x")
					}
					for s := 0; s < j; s++ {
						out.P("step y")
					}
					if len(cf.w) > 0 {
						out.P("%s", cf.w[0])
					}
					for s := 0; s < k; s++ {
						out.P("step x")
					}
					for s := 0; s < 22; s++ {
						if (i+j+k)%2 == 0 {
							out.P("step y")
							out.P("step x")
						} else {
							out.P("step x")
							out.P("step y")
						}
					}
				}
			}
		}
	}
}

// many tables: duplicates and ordering of table sets whose positions differ by a multiple of the machine word
// (and of a few words): b = 64, 256, 1024
func genManyTables(out *hx.Out, prop string, b int) {
	out.P("#case many%d-%s", b, prop)
	out.P("tables %d", b+3)
	out.P("actor x w %d,%d,%d,%d,3,0 %d,3 commit - -", b+2, b, b+2, b, b)
	out.P("actor y w %d,%d,%d %d commit - -", b+1, b, b+1, b+1)
	out.P("watch %d", b)
	for k := 0; k < 4; k++ {
		out.P("step x")
	}
	for k := 0; k < 6; k++ {
		out.P("step y")
	}
	out.P("force y")
	for k := 0; k < 24; k++ {
		out.P("step x")
	}
	for k := 0; k < 24; k++ {
		out.P("step y")
	}
}

func (e *eng) Gen(r *hx.Rand, n int, tier string, prop string, out *hx.Out) {
	genManyTables(out, prop, 64)
	genManyTables(out, prop, 256)
	if tier == "thorough" {
		genManyTables(out, prop, 1024)
		genSystematic(out, prop)
	}
	for c := 0; c < n; c++ {
		g := r.Fork()
		out.P("#case %s-%d", prop, c)
		ntab := 1 + g.Intn(3)
		out.P("tables %d", ntab)
		nw := 2 + g.Intn(3)
		var names []string
		regd := map[string]bool{} // initializers registered by an earlier (declared) actor
		for i := 0; i < nw; i++ {
			name := fmt.Sprintf("a%d", i+1)
			// lock set: any order, duplicates
			var tabs []int
			for k := 1 + g.Intn(3); k > 0; k-- {
				tabs = append(tabs, g.Intn(ntab))
			}
			if g.Chance(10) {
				tabs = nil
			}
			seen := map[int]bool{}
			var writes []int
			for _, t := range tabs {
				if !seen[t] && g.Chance(80) {
					writes = append(writes, t)
				}
				seen[t] = true
			}
			commit := g.Chance(75)
			var reg, done []string
			for t := range seen {
				if g.Chance(20) {
					nm := 1 + g.Intn(2)
					key := fmt.Sprintf("%d:%d", t, nm)
					if !regd[key] {
						regd[key] = true
						reg = append(reg, key)
					}
				}
			}
			for key := range regd {
				var t, nm int
				fmt.Sscanf(key, "%d:%d", &t, &nm)
				if seen[t] && g.Chance(50) {
					done = append(done, key)
				}
			}
			sortStrings(reg)
			sortStrings(done)
			ca := "abort"
			if commit {
				ca = "commit"
			}
			rs, ds := "-", "-"
			if len(reg) > 0 {
				rs = strings.Join(reg, ",")
			}
			if len(done) > 0 {
				ds = strings.Join(done, ",")
			}
			out.P("actor %s w %s %s %s %s %s", name, joinInts(tabs), joinInts(writes), ca, rs, ds)
			names = append(names, name)
		}
		if g.Chance(40) {
			out.P("actor r1 reg")
			names = append(names, "r1")
			if g.Chance(40) { // two registrations while transactions are open
				out.P("actor r2 reg")
				names = append(names, "r2")
			}
		}
		// internal transactions of the implementation as actors: ChangeIterator.Close and the graveyard worker
		if g.Chance(25) {
			var gt []int
			for t := 0; t < ntab; t++ {
				if g.Chance(60) {
					gt = append(gt, t)
				}
			}
			if len(gt) == 0 {
				gt = []int{g.Intn(ntab)}
			}
			if g.Chance(50) { // the order the tables are handed to WriteTxn is the worker's (a map iteration)
				for i, j := 0, len(gt)-1; i < j; i, j = i+1, j-1 {
					gt[i], gt[j] = gt[j], gt[i]
				}
			}
			out.P("actor g1 gc %s", joinInts(gt))
			names = append(names, "g1")
		}
		// (declared after the collector's set-up: an iterator that has not been handed a tombstone keeps it)
		if g.Chance(25) {
			out.P("actor c1 close %d", g.Intn(ntab))
			names = append(names, "c1")
		}
		// random schedule with stretches of the same actor, watches taken at random moments
		steps := 20 + g.Intn(40)
		contend := g.Chance(30)
		curA := hx.Pick(g, names)
		for s := 0; s < steps; s++ {
			if g.Chance(35) {
				curA = hx.Pick(g, names)
			}
			if g.Chance(12) {
				// release an actor into a lock that is held (it really blocks inside Lock() and is woken by the holder)
				out.P("force %s", hx.Pick(g, names))
			}
			out.P("step %s", curA)
			if contend {
				// every actor that now waits for a held lock (table or root) really runs into it
				for _, nm := range names {
					if nm != curA {
						out.P("force %s", nm)
					}
				}
			}
			if g.Chance(12) {
				out.P("watch %d", g.Intn(ntab))
			}
			if g.Chance(6) {
				out.P("iwatch %d", g.Intn(ntab))
			}
			if g.Chance(8) {
				out.P("lwatch %d", g.Intn(ntab))
			}
		}
		// finish everything: round robin
		for k := 0; k < 26; k++ {
			for _, nm := range names {
				out.P("step %s", nm)
			}
		}
	}
}

func sortStrings(s []string) {
	for i := 1; i < len(s); i++ {
		for j := i; j > 0 && s[j] < s[j-1]; j-- {
			s[j], s[j-1] = s[j-1], s[j]
		}
	}
}
