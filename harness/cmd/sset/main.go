// Engine sset: reconciler.StatusSet (reconciler/types.go NewStatusSet, Pending, Set, Get, All and the Status
// constructors with their global id counter) against the extracted model Reconciler/StatusSet.v.
//
// Ops (one output line each):
//
//	new                 v := NewStatusSet()                       -> dump of every value built so far
//	pend <i>            v := vals[i].Pending()                    -> dump
//	set <i> <name> <k>  v := vals[i].Set(name, Status<k>())       -> dump      k: p|r|d|e
//	get <i> <name>      vals[i].Get(name)                         -> <kind>:<id>
//	dump                                                          -> dump
//
// Every value ever built is retained and printed again after every later operation (StatusSet is used as an
// immutable value that objects share between table versions: Set/Pending must not touch the receiver's slice).
// Ids are printed relative to the id counter at the start of the case.
package main

import (
	"errors"
	"fmt"
	"sort"
	"strconv"
	"strings"

	"github.com/cilium/statedb/reconciler"

	"verif/harness/hx"
)

const absentName = "\xff\xfe\xff absent"

type eng struct {
	base uint64
	vals []reconciler.StatusSet
	// reference: per value, the set id and the entries (plain Go maps; oracle independent of the Coq model)
	ref []refSet
}
type refSet struct {
	id      uint64
	entries map[string]refSt
}
type refSt struct {
	kind string
	id   uint64
}

func kindOf(k reconciler.StatusKind) string {
	switch k {
	case reconciler.StatusKindPending:
		return "p"
	case reconciler.StatusKindRefreshing:
		return "r"
	case reconciler.StatusKindDone:
		return "d"
	case reconciler.StatusKindError:
		return "e"
	}
	return "?"
}

func (e *eng) Case(string) {
	e.base = reconciler.StatusPending().ID
	e.vals = nil
	e.ref = nil
}

func (e *eng) valString(s reconciler.StatusSet) string {
	all := s.All()
	names := make([]string, 0, len(all))
	for n := range all {
		names = append(names, n)
	}
	sort.Strings(names)
	parts := make([]string, 0, len(names))
	for _, n := range names {
		st := all[n]
		parts = append(parts, fmt.Sprintf("%s:%s:%d", hx.Hex([]byte(n)), kindOf(st.Kind), st.ID-e.base))
	}
	return fmt.Sprintf("id=%d[%s]", s.Get(absentName).ID-e.base, strings.Join(parts, ","))
}

// dump prints every retained value and checks each against the reference
func (e *eng) dump(out *hx.Out) {
	parts := make([]string, len(e.vals))
	bad := ""
	for i, v := range e.vals {
		parts[i] = e.valString(v)
		r := e.ref[i]
		all := v.All()
		same := len(all) == len(r.entries) && v.Get(absentName).ID == r.id
		for n, st := range r.entries {
			if g := v.Get(n); kindOf(g.Kind) != st.kind || g.ID != st.id {
				same = false
			}
			if a, ok := all[n]; !ok || kindOf(a.Kind) != st.kind || a.ID != st.id {
				same = false
			}
		}
		if !same && bad == "" {
			bad = fmt.Sprintf(" !BAD:C15:status-set-value-%d-differs-from-reference", i)
		}
	}
	out.P("P:C15,C14 %s%s", strings.Join(parts, " "), bad)
}

func (e *eng) Op(f []string, line string, out *hx.Out) {
	idx := func(s string) (int, bool) {
		i, err := strconv.Atoi(s)
		return i, err == nil && i >= 0 && i < len(e.vals)
	}
	switch {
	case f[0] == "new" && len(f) == 1:
		v := reconciler.NewStatusSet()
		e.vals = append(e.vals, v)
		e.ref = append(e.ref, refSet{id: v.Get(absentName).ID, entries: map[string]refSt{}})
		e.dump(out)
	case f[0] == "pend" && len(f) == 2:
		i, ok := idx(f[1])
		if !ok {
			out.P("E bad op: %s", line)
			return
		}
		v := e.vals[i].Pending()
		nid := v.Get(absentName).ID
		r := refSet{id: nid, entries: map[string]refSt{}}
		for n := range e.ref[i].entries {
			r.entries[n] = refSt{"p", nid}
		}
		e.vals = append(e.vals, v)
		e.ref = append(e.ref, r)
		bad := ""
		// the new id is larger than every id handed out before (fresh): C15's "same pending id" test relies on it
		for _, o := range e.ref[:len(e.ref)-1] {
			if o.id >= nid {
				bad = " !BAD:C15:pending-id-not-fresh"
			}
			for _, st := range o.entries {
				if st.id >= nid {
					bad = " !BAD:C15:pending-id-not-fresh"
				}
			}
		}
		if bad != "" {
			out.P("P:C15,C14 -%s", bad)
			return
		}
		e.dump(out)
	case f[0] == "set" && len(f) == 4:
		i, ok := idx(f[1])
		if !ok {
			out.P("E bad op: %s", line)
			return
		}
		name := string(hx.UnHex(f[2]))
		var st reconciler.Status
		switch f[3] {
		case "p":
			st = reconciler.StatusPending()
		case "r":
			st = reconciler.StatusRefreshing()
		case "d":
			st = reconciler.StatusDone()
		default:
			st = reconciler.StatusError(errors.New("scripted"))
		}
		v := e.vals[i].Set(name, st)
		r := refSet{id: e.ref[i].id, entries: map[string]refSt{}}
		for n, s := range e.ref[i].entries {
			r.entries[n] = s
		}
		r.entries[name] = refSt{kindOf(st.Kind), st.ID}
		e.vals = append(e.vals, v)
		e.ref = append(e.ref, r)
		e.dump(out)
	case f[0] == "get" && len(f) == 3:
		i, ok := idx(f[1])
		if !ok {
			out.P("E bad op: %s", line)
			return
		}
		name := string(hx.UnHex(f[2]))
		g := e.vals[i].Get(name)
		bad := ""
		want, has := e.ref[i].entries[name]
		if !has {
			want = refSt{"p", e.ref[i].id}
		}
		if kindOf(g.Kind) != want.kind || g.ID != want.id {
			bad = " !BAD:C15:get-differs-from-reference"
		}
		out.P("P:C15,C14 %s:%d%s", kindOf(g.Kind), g.ID-e.base, bad)
	case f[0] == "dump" && len(f) == 1:
		e.dump(out)
	default:
		out.P("E bad op: %s", line)
	}
}

var names = []string{"-", "61", "62", "6162", "72", "00", "7200", "ff", "6100"}

func (e *eng) Gen(r *hx.Rand, n int, tier string, prop string, out *hx.Out) {
	// directed: two reconcilers on one object, user re-marks, stale views
	out.P("#case two-reconcilers")
	for _, l := range []string{"new", "set 0 72 d", "set 1 73 e", "get 2 72", "get 2 73", "get 2 74", "pend 2", "get 3 72", "get 3 73", "get 3 74",
		"set 3 72 d", "set 2 72 e", "get 4 73", "get 5 73", "dump"} {
		out.P("%s", l)
	}
	for c := 0; c < n; c++ {
		g := r.Fork()
		out.P("#case g%d", c)
		out.P("new")
		nv := 1
		pool := names[:2+g.Intn(len(names)-1)]
		steps := 3 + g.Intn(14)
		for s := 0; s < steps; s++ {
			i := g.Intn(nv)
			if g.Chance(60) {
				i = nv - 1 // mostly extend the newest value; otherwise branch from an older one
			}
			switch x := g.Intn(100); {
			case x < 45:
				out.P("set %d %s %s", i, hx.Pick(g, pool), hx.Pick(g, []string{"p", "r", "d", "e"}))
				nv++
			case x < 60:
				out.P("pend %d", i)
				nv++
			case x < 65:
				out.P("new")
				nv++
			case x < 95:
				out.P("get %d %s", i, hx.Pick(g, names))
			default:
				out.P("dump")
			}
		}
	}
}

func main() { hx.Main(&eng{}) }
