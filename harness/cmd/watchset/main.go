// watchset engine (C20): statedb.WatchSet (watchset.go) under virtual time.
//
// Every case runs inside one testing/synctest bubble (hx.MainBubble), so channels,
// contexts and timers live on a virtual clock and all observables, including the instant
// at which Wait returns, are deterministic. One time unit of the ops = 1ms virtual.
//
// Ops (sets are named by small ints and created on first use, channels by ids):
//
//	add <s> <id>…            WatchSet.Add            -> mem=<members via Has>
//	merge <s> <o>            s.Merge(o)              -> mem=… other=…
//	clear <s>                WatchSet.Clear          -> mem=-
//	has <s> <id>             WatchSet.Has            -> has=0|1
//	hasany <s> <id>…         WatchSet.HasAny         -> any=0|1
//	wait <s> <call> <settle> <ctx> <horizon> <id>@<t>…
//	     one complete Wait scenario on relative virtual time: events close channel id at t,
//	     ctx = none | d<t> (deadline at t) | c<t> (cancel() at t) | D<t> / C<t> (the same through
//	     context.WithTimeoutCause / WithCancelCause with a custom cause: ctx.Err() is still
//	     DeadlineExceeded / Canceled, context.Cause(ctx) is not), Wait(ctx, settle) is called
//	     at <call>, everything is observed at <horizon>.
//	     -> ret=<sorted ids> err=nil|deadline|canceled t=<return instant> mem=<members via Has>
//	     -> blocked mem=…   (no return by the horizon; the harness then cancels the context)
//	     When the scenario has several allowed outcomes (several cases ready at the same instant:
//	     decided by each side on its own, the Go side with an independent declarative oracle), the
//	     payload is instead the canonical list of allowed outcomes
//	     -> allowed=[<ret>/<err>/<t>;…] mem=…   (tag M: Go oracle's list vs the Coq model's list)
//	     the observed outcome must be in the list (!BAD:C20:notallowed), and the returned channels
//	     are added back so that the set is as before. ("waitnd" is accepted as an alias of "wait".)
//
// Channels closed by an op stay closed for the rest of the case.
package main

import (
	"context"
	"runtime"
	"errors"
	"fmt"
	"sort"
	"strconv"
	"strings"
	"testing/synctest"
	"time"

	"github.com/cilium/statedb"

	"verif/harness/hx"
)

const unit = time.Millisecond

type eng struct {
	sets   map[int]*statedb.WatchSet
	chans  map[int]chan struct{}
	ids    map[<-chan struct{}]int
	closed map[int]bool
	dead   bool
}

func (e *eng) Case(id string) {
	e.sets = map[int]*statedb.WatchSet{}
	e.chans = map[int]chan struct{}{}
	e.ids = map[<-chan struct{}]int{}
	e.closed = map[int]bool{}
	e.dead = false
}
func (e *eng) CaseEnd() {}

func (e *eng) set(s int) *statedb.WatchSet {
	ws, ok := e.sets[s]
	if !ok {
		ws = statedb.NewWatchSet()
		e.sets[s] = ws
	}
	return ws
}
// nilID names the nil channel: a member like any other that is never closed (the generator never closes it)
const nilID = 999

func (e *eng) ch(id int) chan struct{} {
	c, ok := e.chans[id]
	if !ok {
		c = make(chan struct{})
		if id == nilID {
			c = nil
		}
		e.chans[id] = c
		e.ids[c] = id
	}
	return c
}
func (e *eng) universe() []int {
	ids := make([]int, 0, len(e.chans))
	for id := range e.chans {
		ids = append(ids, id)
	}
	sort.Ints(ids)
	return ids
}

// members observes the set through Has() for every channel of the case.
func (e *eng) members(ws *statedb.WatchSet) []int {
	var m []int
	for _, id := range e.universe() {
		if ws.Has(e.chans[id]) {
			m = append(m, id)
		}
	}
	return m
}

func csv(l []int) string {
	if len(l) == 0 {
		return "-"
	}
	s := make([]string, len(l))
	for i, v := range l {
		s[i] = strconv.Itoa(v)
	}
	return strings.Join(s, ",")
}
func atoi(s string) int {
	v, err := strconv.Atoi(s)
	if err != nil {
		panic("bad int " + s)
	}
	return v
}
func b2i(b bool) int {
	if b {
		return 1
	}
	return 0
}

func (e *eng) Op(f []string, line string, out *hx.Out) {
	if e.dead {
		out.P("P:C20 dead")
		return
	}
	switch f[0] {
	case "probe":
		// probe concurrent: two goroutines Wait on ONE set at the same time (the set serialises them with its mutex:
		// the second Wait starts when the first has returned). Whatever the interleaving, a returned channel must be a
		// closed member and an open member must stay in the set. No virtual time is needed (and none may pass: a
		// goroutine blocked on a mutex stalls the bubble's clock), the hand-offs are channel operations only.
		// Implementation-only oracle (the model answers "probe ok"); S4-C20-2: Wait released the mutex while blocked
		// and the two Waits shared the select-case buffer.
		bad := ""
		for round := 0; round < 12 && bad == ""; round++ {
			ws := statedb.NewWatchSet()
			chs := make([]chan struct{}, 16)
			idx := map[<-chan struct{}]int{}
			for i := range chs {
				chs[i] = make(chan struct{})
				idx[chs[i]] = i
				ws.Add(chs[i])
			}
			type res struct {
				r   []<-chan struct{}
				err error
			}
			results := make(chan res, 2)
			for w := 0; w < 2; w++ {
				go func() {
					r, err := ws.Wait(context.Background(), 0)
					results <- res{r, err}
				}()
			}
			for i := 0; i < 2000; i++ {
				runtime.Gosched() // let both reach their blocking point (select / mutex)
			}
			closedNow := map[int]bool{}
			for k := 0; k < 2; k++ {
				c := (round*5 + k*7 + 3) % len(chs)
				for closedNow[c] {
					c = (c + 1) % len(chs)
				}
				closedNow[c] = true
				close(chs[c])
				got := <-results
				if got.err != nil || len(got.r) == 0 {
					bad = " !BAD:C20:concurrent-wait-returned-nothing"
				}
				for _, ch := range got.r {
					if i, ok := idx[ch]; !ok || !closedNow[i] {
						bad = " !BAD:C20:concurrent-wait-returned-an-open-channel"
					}
				}
			}
			// both Waits have returned (Has takes the set's mutex, which a Wait in progress holds)
			for i, ch := range chs {
				if !closedNow[i] && !ws.Has(ch) {
					bad = " !BAD:C20:concurrent-wait-removed-an-open-member"
				}
			}
		}
		out.P("P:C20 probe ok%s", bad)
	case "add":
		ws := e.set(atoi(f[1]))
		var cs []<-chan struct{}
		for _, a := range f[2:] {
			cs = append(cs, e.ch(atoi(a)))
		}
		ws.Add(cs...)
		out.P("P:C20 mem=%s", csv(e.members(ws)))
	case "merge":
		a, b := atoi(f[1]), atoi(f[2])
		if a == b {
			// ws.Merge(ws) locks the same mutex twice (self-deadlock); not generated
			out.P("E merge of a set with itself")
			return
		}
		ws, o := e.set(a), e.set(b)
		ws.Merge(o)
		out.P("P:C20 mem=%s other=%s", csv(e.members(ws)), csv(e.members(o)))
	case "clear":
		ws := e.set(atoi(f[1]))
		ws.Clear()
		out.P("P:C20 mem=%s", csv(e.members(ws)))
	case "has":
		out.P("P:C20 has=%d", b2i(e.set(atoi(f[1])).Has(e.ch(atoi(f[2])))))
	case "hasany":
		var cs []<-chan struct{}
		for _, a := range f[2:] {
			cs = append(cs, e.ch(atoi(a)))
		}
		out.P("P:C20 any=%d", b2i(e.set(atoi(f[1])).HasAny(cs)))
	case "wait", "waitnd":
		e.wait(f, out)
	default:
		out.P("E unknown op: %s", line)
	}
}

type ev struct{ id, t int }

func parseCtx(s string) (kind string, t int, cause bool) {
	if s == "none" {
		return "", -1, false
	}
	cause = s[0] == 'D' || s[0] == 'C'
	if s[0] == 'd' || s[0] == 'D' {
		return "deadline", atoi(s[1:]), cause
	}
	return "canceled", atoi(s[1:]), cause
}

var errShutdown = errors.New("shutting down")
var errTooSlow = errors.New("too slow")

func parseEvs(fs []string) []ev {
	var evs []ev
	for _, a := range fs {
		p := strings.SplitN(a, "@", 2)
		evs = append(evs, ev{atoi(p[0]), atoi(p[1])})
	}
	return evs
}

// errName: Wait must report the context's error, i.e. exactly what ctx.Err() returns (the
// sentinel values themselves, not a wrapped error and not context.Cause(ctx)).
func errName(err error) string {
	switch {
	case err == nil:
		return "nil"
	case err == context.DeadlineExceeded:
		return "deadline"
	case err == context.Canceled:
		return "canceled"
	}
	return "other"
}

type result struct {
	chs      []<-chan struct{}
	err      error
	rt       int
	panicked any
}

func (e *eng) wait(f []string, out *hx.Out) {
	ws := e.set(atoi(f[1]))
	call, settle, horizon := atoi(f[2]), atoi(f[3]), atoi(f[5])
	kind, ctxT, cause := parseCtx(f[4])
	evs := parseEvs(f[6:])
	for _, v := range evs {
		e.ch(v.id)
	}
	before := e.members(ws)

	// the harness's own record of when each channel is closed (0 = before this op)
	closeAt := map[int]int{}
	for id := range e.closed {
		closeAt[id] = 0
	}
	var todo []ev
	for _, v := range evs {
		if t, ok := closeAt[v.id]; ok && t <= v.t {
			continue // already closed (a channel is closed once)
		}
		closeAt[v.id] = v.t
	}
	for _, v := range evs {
		if !e.closed[v.id] && closeAt[v.id] == v.t {
			todo = append(todo, v)
			e.closed[v.id] = true
		}
	}
	sort.SliceStable(todo, func(i, j int) bool { return todo[i].t < todo[j].t })

	start := time.Now()
	until := func(t int) { time.Sleep(time.Until(start.Add(time.Duration(t) * unit))) }
	var ctx context.Context
	var cancel context.CancelFunc
	switch {
	case kind == "deadline" && cause:
		ctx, cancel = context.WithTimeoutCause(context.Background(), time.Duration(ctxT)*unit, errTooSlow)
	case kind == "deadline":
		ctx, cancel = context.WithTimeout(context.Background(), time.Duration(ctxT)*unit)
	case cause:
		c, cc := context.WithCancelCause(context.Background())
		ctx, cancel = c, func() { cc(errShutdown) }
	default:
		ctx, cancel = context.WithCancel(context.Background())
	}
	defer cancel()
	if kind == "canceled" {
		go func() { until(ctxT); cancel() }()
	}
	go func() {
		for _, v := range todo {
			until(v.t)
			close(e.chans[v.id])
		}
	}()
	res := make(chan result, 1)
	go func() {
		defer func() {
			if p := recover(); p != nil {
				res <- result{panicked: p}
			}
		}()
		until(call)
		chs, err := ws.Wait(ctx, time.Duration(settle)*unit)
		res <- result{chs, err, int(time.Since(start) / unit), nil}
	}()
	until(horizon)
	synctest.Wait()

	sc := &scenario{members: before, ec: map[int]int{}, hasCtx: kind != "", kind: kind, call: call, settle: settle}
	for _, id := range before {
		if t, ok := closeAt[id]; ok {
			sc.ec[id] = max(call, t)
		}
	}
	if sc.hasCtx {
		sc.ecx = max(call, ctxT)
	}

	al := sc.allowedList()
	nd := len(al) > 1 // several allowed outcomes: compare the lists, check membership
	var r result
	blocked := false
	select {
	case r = <-res:
	default:
		blocked = true
	}
	if blocked {
		// observe the set before cleaning up: Has() would block on ws.mu held by Wait, so the
		// waiter is released first; a Wait that returns on cancellation removes nothing
		cancel()
		synctest.Wait()
		select {
		case <-res:
		default:
			e.dead = true
			out.P("P:C20 stuck !BAD:C20:stuck")
			return
		}
		bad := ""
		if _, ok := sc.t1(); ok {
			bad = " !BAD:C20:blocked" // a member was closed or the context ended, yet Wait did not return
		}
		out.P("P:C20 blocked mem=%s%s", csv(e.members(ws)), bad)
		return
	}
	if r.panicked != nil {
		panic(r.panicked) // reported by hx as "X panic <class>"
	}

	var ret []int
	foreign := false
	for _, c := range r.chs {
		id, ok := e.ids[c]
		if !ok {
			foreign = true
			id = -1
		}
		ret = append(ret, id)
	}
	sort.Ints(ret)
	after := e.members(ws)
	en := errName(r.err)
	bads := sc.clauses(ret, en, r.rt, after)
	if r.err != nil && (r.err != ctx.Err() || !(errors.Is(r.err, context.Canceled) || errors.Is(r.err, context.DeadlineExceeded))) {
		// a non-nil error is the context's error: identical to ctx.Err() (stable once non-nil)
		bads = append(bads, "ctxerr")
	}
	if foreign {
		bads = append(bads, "foreign")
	}
	bad := ""
	for _, b := range bads {
		bad += " !BAD:C20:" + b
	}
	if !nd {
		if !sc.allowed(dedup(ret), en, r.rt) && len(bads) == 0 {
			bad += " !BAD:C20:notallowed" // meets every clause above but not the exact statement
		}
		out.P("P:C20 ret=%s err=%s t=%d mem=%s%s", csv(ret), en, r.rt, csv(after), bad)
		return
	}
	if !sc.allowed(dedup(ret), en, r.rt) || len(dedup(ret)) != len(ret) {
		bad += " !BAD:C20:notallowed"
	}
	// normalise: the caller re-adds what was reported, the set is as before
	ws.Add(r.chs...)
	out.P("M:C20 allowed=[%s] mem=%s%s", fmtAllowed(al), csv(e.members(ws)), bad)
}

func dedup(l []int) []int {
	var o []int
	for i, v := range l {
		if i == 0 || v != l[i-1] {
			o = append(o, v)
		}
	}
	return o
}

// ---------------------------------------------------------------------------------------
// Independent oracle: a declarative statement of C20 on one scenario, in terms of what the
// harness did (when it closed which channel, when the context ended) and what it observed
// through the API (members before/after via Has, returned channels, error, return instant).

type scenario struct {
	members []int       // Has() == true just before Wait
	ec      map[int]int // member -> instant from which it is observably closed for this Wait (>= call)
	hasCtx  bool
	ecx     int // instant from which the context is done for this Wait (>= call)
	kind    string
	call    int
	settle  int
}

// t1: the first instant at which a member is closed or the context is done.
func (sc *scenario) t1() (int, bool) {
	t, ok := 0, false
	upd := func(x int) {
		if !ok || x < t {
			t, ok = x, true
		}
	}
	for _, m := range sc.members {
		if x, c := sc.ec[m]; c {
			upd(x)
		}
	}
	if sc.hasCtx {
		upd(sc.ecx)
	}
	return t, ok
}

func contains(l []int, x int) bool {
	for _, v := range l {
		if v == x {
			return true
		}
	}
	return false
}

// clauses evaluates the clauses of C20 on an observed outcome; returns the violated ones.
func (sc *scenario) clauses(ret []int, err string, rt int, after []int) []string {
	var bad []string
	add := func(c string) {
		if !contains2(bad, c) {
			bad = append(bad, c)
		}
	}
	t1, any := sc.t1()
	ctxEnded := sc.hasCtx && sc.ecx <= rt
	for i, r := range ret {
		if !contains(sc.members, r) {
			add("subset") // returned a channel that is not a member
		} else if t, ok := sc.ec[r]; !ok || t > rt {
			add("closed") // returned a member that is not closed at the return instant
		}
		if i > 0 && ret[i-1] == r {
			add("dup")
		}
	}
	// Has() is false exactly for the returned ones afterwards
	for _, m := range sc.members {
		if contains(ret, m) == contains(after, m) {
			add("removed")
		}
	}
	for _, a := range after {
		if !contains(sc.members, a) {
			add("removed")
		}
	}
	// no result while nothing is closed unless the context ended, and then its error
	if len(ret) == 0 && !(ctxEnded && err == sc.kind) {
		add("early")
	}
	if err != "nil" && !(ctxEnded && err == sc.kind) {
		add("err")
	}
	if err == "nil" && len(ret) == 0 {
		add("err")
	}
	if !any || rt < t1 || rt < sc.call {
		add("premature")
	}
	// does not wait longer than first-close + settle, nor beyond the end of the context
	if any && rt > t1+sc.settle {
		add("late")
	}
	if sc.hasCtx && rt > sc.ecx {
		add("late")
	}
	// the settle window gathers every member closed before it ends
	if sc.settle > 0 && len(ret) > 0 {
		for _, m := range sc.members {
			if t, ok := sc.ec[m]; ok && t < rt && !contains(ret, m) {
				add("gather")
			}
		}
	}
	return bad
}
func contains2(l []string, x string) bool {
	for _, v := range l {
		if v == x {
			return true
		}
	}
	return false
}

// allowed: the exact set of outcomes (returned set, error, return instant) of a correct Wait,
// stated declaratively (no reference to the implementation's control flow beyond "it selects").
func (sc *scenario) allowed(ret []int, err string, rt int) bool {
	t1, any := sc.t1()
	if !any {
		return false
	}
	if len(ret) == 0 {
		return sc.hasCtx && sc.ecx == t1 && err == sc.kind && rt == t1
	}
	first := false
	for _, r := range ret {
		t, ok := sc.ec[r]
		if !contains(sc.members, r) || !ok || t > rt {
			return false
		}
		if t == t1 {
			first = true
		}
	}
	if !first {
		return false
	}
	if sc.settle == 0 {
		return len(ret) == 1 && err == "nil" && rt == t1
	}
	end := t1 + sc.settle
	if sc.hasCtx && sc.ecx < end {
		end = sc.ecx
	}
	if rt != end {
		return false
	}
	for _, m := range sc.members {
		if t, ok := sc.ec[m]; ok && t < rt && !contains(ret, m) {
			return false
		}
	}
	switch {
	case sc.hasCtx && sc.ecx < t1+sc.settle:
		return err == sc.kind
	case sc.hasCtx && sc.ecx == t1+sc.settle:
		return err == sc.kind || err == "nil"
	}
	return err == "nil"
}

type outc struct {
	ret []int
	err string
	rt  int
}

// allowedList enumerates candidate outcomes and filters them with allowed().
// Candidates: every subset of the closed members when there are few of them (brute force);
// otherwise singletons and "everything closed before rt plus any subset of those closing at rt".
func (sc *scenario) allowedList() []outc {
	t1, any := sc.t1()
	if !any {
		return nil
	}
	var closedM []int
	for _, m := range sc.members {
		if _, ok := sc.ec[m]; ok {
			closedM = append(closedM, m)
		}
	}
	times := map[int]bool{t1: true, t1 + sc.settle: true}
	if sc.hasCtx {
		times[sc.ecx] = true
	}
	var ts []int
	for t := range times {
		ts = append(ts, t)
	}
	sort.Ints(ts)
	errs := []string{"nil"}
	if sc.hasCtx {
		errs = append(errs, sc.kind)
	}
	var cands [][]int
	if len(closedM) <= 10 {
		for mask := 0; mask < 1<<len(closedM); mask++ {
			var r []int
			for i, m := range closedM {
				if mask&(1<<i) != 0 {
					r = append(r, m)
				}
			}
			cands = append(cands, r)
		}
	} else {
		cands = append(cands, nil)
		for _, m := range closedM {
			cands = append(cands, []int{m})
		}
		for _, rt := range ts {
			var base, opt []int
			for _, m := range closedM {
				if sc.ec[m] < rt {
					base = append(base, m)
				} else if sc.ec[m] == rt {
					opt = append(opt, m)
				}
			}
			if len(opt) > 12 {
				opt = opt[:12]
			}
			for mask := 0; mask < 1<<len(opt); mask++ {
				r := append([]int{}, base...)
				for i, m := range opt {
					if mask&(1<<i) != 0 {
						r = append(r, m)
					}
				}
				sort.Ints(r)
				cands = append(cands, r)
			}
		}
	}
	seen := map[string]bool{}
	var res []outc
	for _, r := range cands {
		for _, e := range errs {
			for _, rt := range ts {
				if sc.allowed(r, e, rt) {
					k := fmt.Sprintf("%s/%s/%d", csv(r), e, rt)
					if !seen[k] {
						seen[k] = true
						res = append(res, outc{r, e, rt})
					}
				}
			}
		}
	}
	sort.Slice(res, func(i, j int) bool { return lessOutc(res[i], res[j]) })
	return res
}

// order of the OCaml driver: polymorphic compare on (int list, string, int)
func lessOutc(a, b outc) bool {
	for i := 0; i < len(a.ret) && i < len(b.ret); i++ {
		if a.ret[i] != b.ret[i] {
			return a.ret[i] < b.ret[i]
		}
	}
	if len(a.ret) != len(b.ret) {
		return len(a.ret) < len(b.ret)
	}
	if a.err != b.err {
		return a.err < b.err
	}
	return a.rt < b.rt
}

func fmtAllowed(l []outc) string {
	s := make([]string, len(l))
	for i, o := range l {
		s[i] = fmt.Sprintf("%s/%s/%d", csv(o.ret), o.err, o.rt)
	}
	return strings.Join(s, ";")
}

// ---------------------------------------------------------------------------------------
// Generator (pure: it never runs the implementation). It tracks the member sets and the closed
// channels itself and uses the declarative oracle above to classify each scenario: exactly
// one allowed outcome -> the set loses the returned channels; several -> the set is unchanged.

type gstate struct {
	sets   map[int][]int
	closed map[int]bool
}

func (g *gstate) add(s int, ids []int) {
	for _, id := range ids {
		if !contains(g.sets[s], id) {
			g.sets[s] = append(g.sets[s], id)
		}
	}
	sort.Ints(g.sets[s])
}

func (*eng) Gen(r *hx.Rand, n int, tier string, prop string, out *hx.Out) {
	out.P("#case probe-concurrent-waits")
	out.P("probe concurrent")
	for c := 0; c < n; c++ {
		out.P("#case g%d", c)
		g := &gstate{sets: map[int][]int{}, closed: map[int]bool{}}
		big := r.Chance(8)
		nids := 2 + r.Intn(7)
		if big {
			nids = 20 + r.Intn(60)
		}
		nsets := 1 + r.Intn(3)
		someIDs := func(k int) []int {
			var l []int
			for i := 0; i < k; i++ {
				l = append(l, r.Intn(nids))
			}
			return l
		}
		emitAdd := func() {
			s := r.Intn(nsets)
			k := 1 + r.Intn(4)
			if big {
				k = nids/2 + r.Intn(nids)
			}
			ids := someIDs(k) // duplicates on purpose
			if r.Chance(12) {
				ids = append(ids, nilID) // a nil channel is a member that never closes (S4-C20-3)
			}
			g.add(s, ids)
			out.P("add %d %s", s, strings.ReplaceAll(csv(ids), ",", " "))
		}
		emitAdd()
		nops := 3 + r.Intn(8)
		for i := 0; i < nops; i++ {
			switch x := r.Intn(100); {
			case x < 30:
				emitAdd()
			case x < 36 && nsets > 1:
				a := r.Intn(nsets)
				b := (a + 1 + r.Intn(nsets-1)) % nsets
				g.add(a, g.sets[b])
				out.P("merge %d %d", a, b)
			case x < 39:
				s := r.Intn(nsets)
				g.sets[s] = nil
				out.P("clear %d", s)
			case x < 44:
				out.P("has %d %d", r.Intn(nsets), r.Intn(nids))
			case x < 47:
				out.P("hasany %d %s", r.Intn(nsets), strings.ReplaceAll(csv(someIDs(1+r.Intn(3))), ",", " "))
			default:
				genWait(r, g, nsets, nids, big, out)
			}
		}
	}
}

func genWait(r *hx.Rand, g *gstate, nsets, nids int, big bool, out *hx.Out) {
	s := r.Intn(nsets)
	for try := 0; try < 4 && len(g.sets[s]) == 0; try++ { // mostly wait on non-empty sets
		s = r.Intn(nsets)
	}
	members := g.sets[s]
	call := hx.Pick(r, []int{0, 0, 1, 3, 5})
	settle := hx.Pick(r, []int{0, 0, 0, 1, 2, 5, 10, 15})
	// events: mostly members of the set, mostly distinct instants; sometimes deliberate ties
	tie := r.Chance(25)
	nev := 1 + r.Intn(4)
	if big {
		nev = r.Intn(nids)
	}
	if r.Chance(10) {
		nev = 0
	}
	var evs []ev
	used := map[int]bool{}
	pickT := func() int {
		for {
			t := r.Intn(30)
			if big {
				t = r.Intn(200)
			}
			if tie || !used[t] {
				used[t] = true
				return t
			}
		}
	}
	if tie {
		// a small pool of instants so that events, the call, the context and the settle end collide
		pool := []int{call, call + settle, r.Intn(8), r.Intn(8)}
		pickT = func() int { return hx.Pick(r, pool) }
	}
	for i := 0; i < nev; i++ {
		id := r.Intn(nids)
		if len(members) > 0 && r.Chance(80) {
			id = hx.Pick(r, members)
			if id == nilID {
				id = r.Intn(nids)
			}
		}
		evs = append(evs, ev{id, pickT()})
	}
	ctx := "none"
	kind, ctxT := "", -1
	if r.Chance(45) {
		ctxT = pickT()
		if r.Chance(30) {
			// aim at the settle window of the first close
			ctxT = call + r.Intn(settle+3)
		}
		if r.Chance(50) {
			kind, ctx = "deadline", fmt.Sprintf("d%d", ctxT)
		} else {
			kind, ctx = "canceled", fmt.Sprintf("c%d", ctxT)
		}
		if r.Chance(50) { // context with a custom cause
			ctx = strings.ToUpper(ctx[:1]) + ctx[1:]
		}
	}
	horizon := call + settle + 3
	for _, v := range evs {
		horizon = max(horizon, v.t+settle+3)
	}
	horizon = max(horizon, ctxT+3)

	// classify with the declarative oracle
	closeAt := map[int]int{}
	for id := range g.closed {
		closeAt[id] = 0
	}
	for _, v := range evs {
		if t, ok := closeAt[v.id]; !ok || v.t < t {
			closeAt[v.id] = v.t
		}
	}
	sc := &scenario{members: members, ec: map[int]int{}, hasCtx: kind != "", kind: kind, call: call, settle: settle}
	for _, id := range members {
		if t, ok := closeAt[id]; ok {
			sc.ec[id] = max(call, t)
		}
	}
	if sc.hasCtx {
		sc.ecx = max(call, ctxT)
	}
	if _, ok := sc.t1(); !ok && r.Chance(85) {
		// nothing would ever be ready (Wait blocks until the horizon): mostly give it a context
		ctxT = call + r.Intn(10)
		if r.Chance(50) {
			kind, ctx = "deadline", fmt.Sprintf("d%d", ctxT)
		} else {
			kind, ctx = "canceled", fmt.Sprintf("c%d", ctxT)
		}
		if r.Chance(50) {
			ctx = strings.ToUpper(ctx[:1]) + ctx[1:]
		}
		sc.hasCtx, sc.kind, sc.ecx = true, kind, max(call, ctxT)
		horizon = max(horizon, ctxT+3)
	}
	// keep the number of members closing exactly when the settle context ends small (each of
	// them doubles the number of allowed outcomes): drop the context, then the settle time
	for pass := 0; pass < 2; pass++ {
		if t1, ok := sc.t1(); ok && sc.settle > 0 {
			end := t1 + sc.settle
			if sc.hasCtx && sc.ecx < end {
				end = sc.ecx
			}
			nopt := 0
			for _, m := range members {
				if t, c := sc.ec[m]; c && t == end {
					nopt++
				}
			}
			if nopt > 4 {
				if sc.hasCtx {
					sc.hasCtx, sc.kind, kind, ctx = false, "", "", "none"
				} else {
					sc.settle, settle = 0, 0
				}
			}
		}
	}
	al := sc.allowedList()
	op := "wait"
	if len(al) == 1 {
		var rem []int
		for _, m := range members {
			if !contains(al[0].ret, m) {
				rem = append(rem, m)
			}
		}
		g.sets[s] = rem
	}
	for _, v := range evs {
		g.closed[v.id] = true
	}
	var es []string
	for _, v := range evs {
		es = append(es, fmt.Sprintf("%d@%d", v.id, v.t))
	}
	out.P("%s", strings.TrimSpace(fmt.Sprintf("%s %d %d %d %s %d %s", op, s, call, settle, ctx, horizon, strings.Join(es, " "))))
}

func main() { hx.MainBubble(&eng{}) }
