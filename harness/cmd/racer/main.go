// racer: the runtime half of C01 ("readers need no synchronisation with writers"): concurrent writers,
// lock-free readers, a change-iterator consumer and the graveyard worker hammer one database; built with
// -race in the thorough tier of C01. A data race report (exit code 66) is a concrete failing schedule.
package main

import (
	"flag"
	"fmt"
	"iter"
	"math/rand"
	"os"
	"sync"
	"sync/atomic"
	"time"

	"github.com/cilium/statedb"
	"github.com/cilium/statedb/index"
)

var idPool = []string{"", "a", "ab", "abc", "abd", "b", "ba", "c\x00", "c\x00\x01", "d", "da", "db"}

type Obj struct {
	ID  string
	Tag []string
	Pfx [][2]uint64 // (16-bit data, plen)
	Val int
}

func (o *Obj) TableHeader() []string { return []string{"ID"} }
func (o *Obj) TableRow() []string    { return []string{o.ID} }

var (
	idIndex = statedb.Index[*Obj, string]{Name: "id", FromObject: func(o *Obj) index.KeySet { return index.NewKeySet([]byte(o.ID)) }, FromKey: func(s string) index.Key { return []byte(s) }, Unique: true}
	tagIdx  = statedb.Index[*Obj, string]{Name: "tag", FromObject: func(o *Obj) index.KeySet { return index.StringSlice(o.Tag) }, FromKey: index.String}
	lpmIdx  = statedb.LPMIndex[*Obj]{Name: "lpm", FromObject: func(o *Obj) iter.Seq2[[]byte, statedb.PrefixLen] {
		return func(yield func([]byte, statedb.PrefixLen) bool) {
			for _, p := range o.Pfx {
				if !yield([]byte{byte(p[0] >> 8), byte(p[0])}, statedb.PrefixLen(p[1])) {
					return
				}
			}
		}
	}, FromString: func(string) ([]byte, statedb.PrefixLen, error) { return nil, 0, fmt.Errorf("x") }}
)

func main() {
	dur := flag.Duration("d", 5*time.Second, "duration")
	seed := flag.Int64("seed", 1, "seed")
	seqOnly := flag.Bool("seqonly", false, "only the concurrent table creation check (quick tier)")
	flag.Parse()
	db := statedb.New()
	var tabs []statedb.RWTable[*Obj]
	for i := 0; i < 2; i++ {
		t, err := statedb.NewTable(db, fmt.Sprintf("t%d", i), idIndex, tagIdx, lpmIdx)
		if err != nil {
			panic(err)
		}
		tabs = append(tabs, t)
	}
	// concurrent table creation: every table lock must get its own sequence number (the lock order of
	// WriteTxn relies on it); duplicates would allow an ABBA deadlock
	{
		db2 := statedb.New()
		var mu sync.Mutex
		seen := map[uint64]string{}
		dup := ""
		var cwg sync.WaitGroup
		for round := 0; round < 200; round++ {
			start := make(chan struct{})
			for g := 0; g < 8; g++ {
				cwg.Add(1)
				go func(round, g int) {
					defer cwg.Done()
					<-start
					name := fmt.Sprintf("c%d-%d", round, g)
					t, err := statedb.NewTable(db2, name, idIndex)
					if err != nil {
						return
					}
					sq := statedb.VerifTableSeq(t)
					mu.Lock()
					if other, ok := seen[sq]; ok {
						dup = fmt.Sprintf("tables %s and %s got the same lock sequence number %d", other, name, sq)
					}
					seen[sq] = name
					mu.Unlock()
				}(round, g)
			}
			close(start)
			cwg.Wait()
		}
		if dup != "" {
			fmt.Println("racer: DUPLICATE LOCK SEQUENCE:", dup)
			os.Exit(67)
		}
		if *seqOnly {
			fmt.Println("racer: seqonly ok:", len(seen), "tables created concurrently, all lock sequence numbers distinct")
			return
		}
	}
	db.Start()
	defer db.Stop()
	var stop atomic.Bool
	var wg sync.WaitGroup
	var sum atomic.Int64 // conserved across both tables by the transfer transactions
	mk := func(r *rand.Rand, id string, val int) *Obj {
		return &Obj{ID: id, Val: val, Tag: []string{fmt.Sprint("g", r.Intn(3)), ""}[:1+r.Intn(2)],
			Pfx: [][2]uint64{{uint64(r.Intn(4)) << 14, uint64(2 + r.Intn(3))}, {0x0a00, 8}}[:1+r.Intn(2)]}
	}
	for w := 0; w < 3; w++ {
		wg.Add(1)
		go func(w int) {
			defer wg.Done()
			r := rand.New(rand.NewSource(*seed + int64(w)))
			for !stop.Load() {
				var metas []statedb.TableMeta
				which := r.Intn(3)
				if which != 1 {
					metas = append(metas, tabs[0])
				}
				if which != 0 {
					metas = append(metas, tabs[1])
				}
				txn := db.WriteTxn(metas...)
				for k := r.Intn(4); k >= 0; k-- {
					t := tabs[0]
					if which == 1 || (which == 2 && r.Intn(2) == 0) {
						t = tabs[1]
					}
					id := idPool[r.Intn(len(idPool))]
					switch r.Intn(4) {
					case 0:
						t.Delete(txn, &Obj{ID: id})
					case 1:
						t.Modify(txn, mk(r, id, 1), func(old, new *Obj) *Obj { n := *new; n.Val = old.Val + 1; return &n })
					default:
						t.Insert(txn, mk(r, id, r.Intn(5)))
					}
				}
				if r.Intn(5) == 0 {
					txn.Abort()
				} else {
					txn.Commit()
				}
			}
		}(w)
	}
	for rd := 0; rd < 3; rd++ {
		wg.Add(1)
		go func(rd int) {
			defer wg.Done()
			r := rand.New(rand.NewSource(*seed + 100 + int64(rd)))
			var kept []statedb.ReadTxn
			for !stop.Load() {
				txn := db.ReadTxn()
				kept = append(kept, txn)
				if len(kept) > 4 {
					kept = kept[1:]
				}
				q := kept[r.Intn(len(kept))]
				for _, t := range tabs {
					n := 0
					for o := range t.All(q) {
						n += o.Val
					}
					for range t.Prefix(q, tagIdx.Query("g")) {
					}
					for range t.LowerBound(q, lpmIdx.Query([]byte{0, 0}, 0)) {
					}
					for range t.List(q, lpmIdx.Query([]byte{0x0a, 0x01}, 16)) {
					}
					t.Get(q, idIndex.Query(idPool[r.Intn(len(idPool))]))
					for range t.Prefix(q, idIndex.Query("a")) {
					}
					_ = t.NumObjects(q) + int(t.Revision(q))
					sum.Add(int64(n))
				}
			}
		}(rd)
	}
	wg.Add(1)
	go func() {
		defer wg.Done()
		wtxn := db.WriteTxn(tabs[0])
		it, _ := tabs[0].Changes(wtxn)
		wtxn.Commit()
		for !stop.Load() {
			seq, watch := it.Next(db.ReadTxn())
			for range seq {
			}
			select {
			case <-watch:
			case <-time.After(10 * time.Millisecond):
			}
		}
		it.Close()
	}()
	time.Sleep(*dur)
	stop.Store(true)
	wg.Wait()
	fmt.Println("racer: done, no race reported; reads", sum.Load() != -1)
	os.Exit(0)
}
