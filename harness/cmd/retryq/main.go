// retryq engine (C16): the retry queue of reconciler/retries.go at mechanism level - the items map, the two
// container/heap priority queues (queue by retryAt, revQueue by origRev) with their index bookkeeping
// (retryItem.index / revIndex maintained by retryPrioQueue.Swap/Push/Pop), and the wake-up timer.
//
// The REAL queue is driven through reconciler.VerifNewRetries (export_verif.go, build tag verif) inside a
// testing/synctest bubble (hx.MainBubble): Add calls time.Now(), resetTimer arms a time.AfterFunc. One time
// unit of the ops is 1 ms of virtual time; instants are printed relative to the start of the case.
// The model side is the extracted Coq model Reconciler/Heap.v (ocaml/retryq_drv.ml).
//
// Ops:
//
//	new <min> <max>          newRetries(min ms, max ms)                         -> P ok
//	add <k> <rev> <orig> <d> retries.Add(k, rev, orig, d==1, nil) at the current instant -> M ok i=<index> r=<revIndex>
//	                         (the positions the item ends up at: mechanism; they decide "if item.index == 0 { resetTimer }")
//	pop                      retries.Pop(); an empty queue panics on both sides  -> P ok key=<k> | M ok key=<k> | P panic
//	                         (P when the popped item was the only one with the minimal retryAt, M under a tie)
//	top                      retries.Top()   -> P top=none | top at=<ms> n=<numRetries> key=<k> rev= orig= del=
//	                         (key/rev/orig/del are printed as ~ when several queued items share the minimal
//	                         retryAt: which of them is the head is mechanism, see dump)
//	clear <k>                retries.Clear(k)                 -> M ok i=<index> r=<revIndex> (before the call; - if absent)
//	lwm                      retries.LowWatermark()                              -> P lwm=<rev>
//	sleep <ms>               advance virtual time, let timers run                -> P t=<ms>
//	woken                    is the channel returned by Wait() closed            -> P woken=0|1
//	dump                     both heap arrays in array order and the items map with the index fields
//	                         (VerifRetries.Dump)                                 -> M q=[..] r=[..] items=[..]
//
// Oracles (!BAD:C16:<clause>), evaluated on the implementation's outputs against a plain reference (a map of
// items with their retryAt/origRev/queued flag, no heaps), after every op:
//
//	lwm                    LowWatermark = 0 iff no items, else the minimum origRev of the items
//	top-not-min            Top is absent iff nothing is queued; else its retryAt is the minimum over the queued
//	                       items, it is one of the queued items with that retryAt, and its numRetries is the
//	                       number of Adds since the last Clear of its key
//	clear-left-key         after Clear(k), k is in neither heap array nor in the items map
//	index-mismatch         an item at position i of queue.items / revQueue.items has index / revIndex == i
//	membership             the keys of queue.items are exactly the queued keys, those of revQueue.items and of
//	                       the items map exactly the keys of the reference (no duplicates)
//	due-head-not-woken     a queued item is due (retryAt <= now) but the wait channel is not closed
package main

import (
	"container/heap"
	"fmt"
	"strconv"
	"strings"
	"testing/synctest"
	"time"

	"github.com/cilium/statedb/reconciler"

	"verif/harness/hx"
)

const unit = time.Millisecond

// ---------------------------------------------------------------- plain reference (no heaps)
type refItem struct {
	rev, orig uint64
	del       bool
	at        int64 // retryAt, ms since the start of the case
	n         int   // numRetries
	queued    bool
}

type eng struct {
	rq       *reconciler.VerifRetries
	start    time.Time
	min, max int64
	ref      map[uint64]*refItem
}

func (e *eng) Case(id string) {
	e.start = time.Now()
	e.min, e.max = 10, 40
	e.rq = reconciler.VerifNewRetries(time.Duration(e.min)*unit, time.Duration(e.max)*unit)
	e.ref = map[uint64]*refItem{}
}

// CaseEnd: a pending time.AfterFunc is not a goroutine; nothing to stop.
func (e *eng) CaseEnd() {}

func (e *eng) now() int64 { return int64(time.Since(e.start) / unit) }

// backoff: min * 2^n capped by max (exponentialBackoff.Duration), on integers
func backoff(min, max int64, n int) int64 {
	if n >= 40 {
		return max
	}
	d := min << uint(n)
	if d > max {
		return max
	}
	return d
}

func atou(s string) uint64 {
	v, err := strconv.ParseUint(s, 10, 64)
	if err != nil {
		panic("bad int " + s)
	}
	return v
}

type dumpEnt struct {
	key           uint64
	index, revIdx int
	n             int
}

func parseArr(s string, withN bool) []dumpEnt {
	s = strings.TrimSpace(s)
	if s == "" {
		return nil
	}
	var out []dumpEnt
	for _, f := range strings.Fields(s) {
		p := strings.Split(f, ":")
		d := dumpEnt{}
		d.key = atou(p[0])
		d.index, _ = strconv.Atoi(p[1])
		d.revIdx, _ = strconv.Atoi(p[2])
		if withN {
			d.n, _ = strconv.Atoi(p[3])
		}
		out = append(out, d)
	}
	return out
}

// parseDump splits "q=[..] r=[..] items=[..]".
func parseDump(s string) (q, r, items []dumpEnt) {
	part := func(name string) string {
		i := strings.Index(s, name+"=[")
		if i < 0 {
			panic("bad dump " + s)
		}
		rest := s[i+len(name)+2:]
		j := strings.Index(rest, "]")
		return rest[:j]
	}
	return parseArr(part("q"), false), parseArr(part("r"), false), parseArr(part("items"), true)
}

// structural oracles on the dump against the reference
func (e *eng) checkDump(bad *[]string) {
	q, r, items := parseDump(e.rq.Dump())
	for i, d := range q {
		if d.index != i {
			*bad = append(*bad, "index-mismatch")
			break
		}
	}
	for i, d := range r {
		if d.revIdx != i {
			*bad = append(*bad, "index-mismatch")
			break
		}
	}
	setOf := func(l []dumpEnt) (map[uint64]bool, bool) {
		m := map[uint64]bool{}
		dup := false
		for _, d := range l {
			if m[d.key] {
				dup = true
			}
			m[d.key] = true
		}
		return m, dup
	}
	qs, d1 := setOf(q)
	rs, d2 := setOf(r)
	is, d3 := setOf(items)
	ok := !d1 && !d2 && !d3 && len(rs) == len(e.ref) && len(is) == len(e.ref)
	nq := 0
	for k, it := range e.ref {
		if !rs[k] || !is[k] || qs[k] != it.queued {
			ok = false
		}
		if it.queued {
			nq++
		}
	}
	if nq != len(qs) {
		ok = false
	}
	if !ok {
		*bad = append(*bad, "membership")
	}
}

// positions returns index and revIndex of the item of key k ("-" when it is not in the map)
func (e *eng) positions(k uint64) (string, string) {
	_, _, items := parseDump(e.rq.Dump())
	for _, d := range items {
		if d.key == k {
			return strconv.Itoa(d.index), strconv.Itoa(d.revIdx)
		}
	}
	return "-", "-"
}

func (e *eng) minQueued() (int64, int, bool) {
	var m int64
	cnt := 0
	any := false
	for _, it := range e.ref {
		if !it.queued {
			continue
		}
		if !any || it.at < m {
			m, cnt, any = it.at, 1, true
		} else if it.at == m {
			cnt++
		}
	}
	return m, cnt, any
}

func emit(out *hx.Out, tag, payload string, bad []string) {
	s := tag + " " + payload
	seen := map[string]bool{}
	for _, b := range bad {
		if !seen[b] {
			s += " !BAD:C16:" + b
			seen[b] = true
		}
	}
	out.P("%s", s)
}

func (e *eng) Op(f []string, line string, out *hx.Out) {
	var bad []string
	switch f[0] {
	case "new":
		e.min, e.max = int64(atou(f[1])), int64(atou(f[2]))
		e.rq = reconciler.VerifNewRetries(time.Duration(e.min)*unit, time.Duration(e.max)*unit)
		e.ref = map[uint64]*refItem{}
		emit(out, "P:C16", "ok", nil)
	case "add":
		k, rev, orig, del := atou(f[1]), atou(f[2]), atou(f[3]), f[4] == "1"
		e.rq.Add(k, rev, orig, del)
		it := e.ref[k]
		if it == nil {
			it = &refItem{}
			e.ref[k] = it
		}
		it.rev, it.orig, it.del = rev, orig, del
		it.n++
		it.at = e.now() + backoff(e.min, e.max, it.n)
		it.queued = true
		e.checkDump(&bad)
		i, r := e.positions(k)
		emit(out, "M:C16", fmt.Sprintf("ok i=%s r=%s", i, r), bad)
	case "pop":
		_, _, _, _, _, _, ok := e.rq.Top()
		if !ok {
			// the documented behaviour of an empty queue: container/heap panics before touching anything
			panicked := func() (p bool) {
				defer func() {
					if recover() != nil {
						p = true
					}
				}()
				e.rq.Pop()
				return false
			}()
			if _, _, any := e.minQueued(); any {
				bad = append(bad, "top-not-min")
			}
			if panicked {
				emit(out, "P:C16", "panic", bad)
			} else {
				emit(out, "P:C16", "ok", bad)
			}
			return
		}
		key, _, _, _, at, _, _ := e.rq.Top()
		e.rq.Pop()
		m, cnt, any := e.minQueued()
		it := e.ref[key]
		if !any || it == nil || !it.queued || it.at != m || int64(at.Sub(e.start)/unit) != m {
			bad = append(bad, "top-not-min")
		}
		if it != nil {
			it.queued = false
		}
		e.checkDump(&bad)
		tag := "P:C16"
		if cnt > 1 {
			tag = "M:C16" // which of the tied items leaves is mechanism
		}
		emit(out, tag, fmt.Sprintf("ok key=%d", key), bad)
	case "top":
		key, rev, orig, del, at, n, ok := e.rq.Top()
		m, cnt, any := e.minQueued()
		if !ok {
			if any {
				bad = append(bad, "top-not-min")
			}
			emit(out, "P:C16", "top=none", bad)
			return
		}
		rel := int64(at.Sub(e.start) / unit)
		it := e.ref[key]
		if !any || rel != m || it == nil || !it.queued || it.at != rel || it.n != n {
			bad = append(bad, "top-not-min")
		}
		if cnt == 1 {
			emit(out, "P:C16", fmt.Sprintf("top at=%d n=%d key=%d rev=%d orig=%d del=%d", rel, n, key, rev, orig, b2i(del)), bad)
		} else {
			emit(out, "P:C16", fmt.Sprintf("top at=%d n=%d key=~ rev=~ orig=~ del=~", rel, n), bad)
		}
	case "clear":
		k := atou(f[1])
		pi, pr := e.positions(k)
		e.rq.Clear(k)
		delete(e.ref, k)
		q, r, items := parseDump(e.rq.Dump())
		for _, l := range [][]dumpEnt{q, r, items} {
			for _, d := range l {
				if d.key == k {
					bad = append(bad, "clear-left-key")
				}
			}
		}
		e.checkDump(&bad)
		emit(out, "M:C16", fmt.Sprintf("ok i=%s r=%s", pi, pr), bad)
	case "lwm":
		got := uint64(e.rq.LowWatermark())
		var want uint64
		first := true
		for _, it := range e.ref {
			if first || it.orig < want {
				want, first = it.orig, false
			}
		}
		if got != want {
			bad = append(bad, "lwm")
		}
		e.checkDump(&bad)
		emit(out, "P:C16", fmt.Sprintf("lwm=%d", got), bad)
	case "sleep":
		time.Sleep(time.Duration(atou(f[1])) * unit)
		synctest.Wait()
		emit(out, "P:C16", fmt.Sprintf("t=%d", e.now()), nil)
	case "woken":
		synctest.Wait()
		w := e.rq.Woken()
		if m, _, any := e.minQueued(); any && m <= e.now() && !w {
			bad = append(bad, "due-head-not-woken")
		}
		emit(out, "P:C16", fmt.Sprintf("woken=%d", b2i(w)), bad)
	case "dump":
		e.checkDump(&bad)
		emit(out, "M:C16", e.rq.Dump(), bad)
	default:
		out.P("P:C16 E unknown op")
	}
}

func b2i(b bool) int {
	if b {
		return 1
	}
	return 0
}

// ---------------------------------------------------------------- generator
// The generator is pure. To aim ops at interesting places (the head, popped items, ties) it keeps its own
// simulation of the queue with container/heap; this is only a steering aid: a wrong guess merely makes an op
// less interesting (pop on an empty queue prints "panic" on both sides).
type gItem struct {
	key    uint64
	at     int64
	n      int
	idx    int
	inMap  bool
	queued bool
}
type gHeap []*gItem

func (h gHeap) Len() int           { return len(h) }
func (h gHeap) Less(i, j int) bool { return h[i].at < h[j].at }
func (h gHeap) Swap(i, j int)      { h[i], h[j] = h[j], h[i]; h[i].idx = i; h[j].idx = j }
func (h *gHeap) Push(x any)        { it := x.(*gItem); it.idx = len(*h); *h = append(*h, it) }
func (h *gHeap) Pop() any {
	o := *h
	it := o[len(o)-1]
	*h = o[:len(o)-1]
	it.idx = -1
	return it
}

type gen struct {
	r        *hx.Rand
	out      *hx.Out
	min, max int64
	now      int64
	keys     []uint64
	items    map[uint64]*gItem
	h        gHeap
	nOrig    int
	nops     int
}

func (g *gen) emit(format string, a ...any) { g.out.P(format, a...); g.nops++ }

func (g *gen) add(k uint64) {
	orig := uint64(1 + g.r.Intn(g.nOrig))
	rev := orig + uint64(g.r.Intn(3))
	g.addWith(k, rev, orig)
}
func (g *gen) addWith(k, rev, orig uint64) {
	g.emit("add %d %d %d %d", k, rev, orig, g.r.Intn(2))
	it := g.items[k]
	if it == nil || !it.inMap {
		it = &gItem{key: k, idx: -1}
		g.items[k] = it
	}
	it.inMap = true
	it.n++
	it.at = g.now + backoff(g.min, g.max, it.n)
	if it.queued {
		heap.Fix(&g.h, it.idx)
	} else {
		it.queued = true
		heap.Push(&g.h, it)
	}
}
func (g *gen) pop() {
	g.emit("pop")
	if len(g.h) > 0 {
		it := heap.Pop(&g.h).(*gItem)
		it.queued = false
	}
}
func (g *gen) clear(k uint64) {
	g.emit("clear %d", k)
	if it := g.items[k]; it != nil && it.inMap {
		if it.queued {
			heap.Remove(&g.h, it.idx)
			it.queued = false
		}
		it.inMap = false
		delete(g.items, k)
	}
}
func (g *gen) sleep(d int64) {
	g.emit("sleep %d", d)
	g.now += d
}
func (g *gen) sel(pred func(*gItem) bool) (uint64, bool) {
	var c []uint64
	for _, k := range g.keys {
		if it := g.items[k]; it != nil && it.inMap && pred(it) {
			c = append(c, k)
		}
	}
	if len(c) == 0 {
		return 0, false
	}
	return hx.Pick(g.r, c), true
}
func (g *gen) observe() {
	switch g.r.Intn(10) {
	case 0, 1, 2, 3:
		g.emit("dump")
	case 4, 5:
		g.emit("top")
	case 6, 7:
		g.emit("lwm")
	default:
		g.emit("woken")
	}
}

func (g *gen) step() {
	r := g.r
	x := r.Intn(100)
	switch {
	case x < 30: // add of any key
		g.add(hx.Pick(r, g.keys))
	case x < 36: // burst: several keys at the same instant (equal numRetries -> equal retryAt)
		n := 2 + r.Intn(4)
		for i := 0; i < n; i++ {
			g.add(hx.Pick(r, g.keys))
		}
	case x < 42: // re-add of a queued item (Fix path on both heaps)
		if k, ok := g.sel(func(it *gItem) bool { return it.queued }); ok {
			g.add(k)
		} else {
			g.add(hx.Pick(r, g.keys))
		}
	case x < 48: // re-add of a popped item (Fix on revQueue, Push on queue)
		if k, ok := g.sel(func(it *gItem) bool { return !it.queued }); ok {
			g.add(k)
		} else {
			g.pop()
		}
	case x < 52: // re-add of the head
		if len(g.h) > 0 {
			g.add(g.h[0].key)
		}
	case x < 64: // pop (sometimes on an empty queue: panic on both sides)
		if len(g.h) > 0 || r.Chance(8) {
			g.pop()
		}
	case x < 68: // clear the head (timer re-arm)
		if len(g.h) > 0 {
			g.clear(g.h[0].key)
		}
	case x < 72: // clear a popped item
		if k, ok := g.sel(func(it *gItem) bool { return !it.queued }); ok {
			g.clear(k)
		}
	case x < 80: // clear any key (also absent ones)
		g.clear(hx.Pick(r, g.keys))
	case x < 90: // time passes; durations are multiples of min/2 so that retryAt values collide
		g.sleep(int64(r.Intn(5)) * g.min / 2)
	case x < 93: // wait for the head
		if len(g.h) > 0 && g.h[0].at > g.now {
			g.sleep(g.h[0].at - g.now)
		}
	default:
		g.observe()
	}
	if r.Chance(45) {
		g.observe()
	}
}

func (*eng) Gen(r *hx.Rand, n int, tier string, prop string, out *hx.Out) {
	// fixed regression shapes
	fixed := [][]string{
		// all retryAt equal: pops in heap order, not in insertion order
		{"new 10 10", "add 1 5 5 0", "add 2 5 5 0", "add 3 5 5 0", "add 4 5 5 0", "add 5 5 5 0", "dump", "top", "pop", "dump", "pop", "dump", "lwm",
			"clear 3", "dump", "pop", "dump", "pop", "dump", "pop", "top", "lwm", "dump"},
		// re-add of the head with a tie: it stays the head, the timer is re-armed
		{"new 10 40", "add 1 1 1 0", "add 2 2 2 0", "add 2 2 2 0", "woken", "add 1 3 1 0", "dump", "top", "woken", "sleep 20", "woken", "sleep 10", "woken", "sleep 10", "woken", "dump"},
		// clear of a non-head item tied with the head: no re-arm
		{"new 10 10", "add 1 1 1 0", "add 2 2 2 0", "add 3 3 3 0", "clear 2", "dump", "woken", "sleep 10", "woken", "pop", "woken", "pop", "woken", "dump", "lwm", "clear 1", "lwm", "clear 3", "lwm", "dump"},
		// popped items stay in revQueue and the map; clear of a popped item; lwm after pops
		{"new 10 80", "add 1 7 7 0", "add 2 3 3 1", "add 3 9 9 0", "sleep 20", "pop", "pop", "lwm", "dump", "clear 2", "lwm", "dump", "add 1 8 8 0", "dump", "pop", "pop", "pop", "lwm", "dump"},
		// origRev changes on re-add (Fix of revQueue in both directions)
		{"new 10 80", "add 1 5 5 0", "add 2 6 6 0", "add 3 7 7 0", "add 4 8 8 0", "lwm", "add 1 9 9 0", "lwm", "dump", "add 4 1 1 0", "lwm", "dump", "add 4 9 9 0", "lwm", "dump"},
		// empty queue
		{"new 10 20", "top", "lwm", "woken", "pop", "dump", "clear 1", "add 1 1 1 0", "pop", "pop", "top", "lwm", "woken", "sleep 100", "woken", "dump"},
	}
	for i, c := range fixed {
		out.P("#case fix%d", i)
		for _, l := range c {
			out.P("%s", l)
		}
	}
	for i := 0; i < n; i++ {
		g := &gen{r: r.Fork(), out: out, items: map[uint64]*gItem{}}
		out.P("#case q%d", i)
		g.min = int64(10 * (1 + g.r.Intn(3)))
		g.max = g.min * int64([]int{1, 1, 2, 4, 8, 16}[g.r.Intn(6)])
		nk := 2 + g.r.Intn(7)
		steps := 6 + g.r.Intn(30)
		if tier == "thorough" && g.r.Chance(25) {
			nk = 6 + g.r.Intn(12)
			steps = 30 + g.r.Intn(60)
		}
		for k := 1; k <= nk; k++ {
			g.keys = append(g.keys, uint64(k))
		}
		g.nOrig = 1 + g.r.Intn(5) // few distinct origRevs: ties in revQueue
		g.emit("new %d %d", g.min, g.max)
		// start with a burst in about half of the cases
		if g.r.Chance(50) {
			for _, p := range g.r.Perm(nk) {
				if g.r.Chance(70) {
					g.add(g.keys[p])
				}
			}
		}
		for s := 0; s < steps; s++ {
			g.step()
		}
		g.emit("dump")
		g.emit("lwm")
		g.emit("top")
		g.emit("woken")
	}
}

func main() { hx.MainBubble(&eng{}) }
