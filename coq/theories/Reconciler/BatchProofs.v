(* Reconciler/BatchProofs.v — the change-stream phase in batch mode (incremental.go batch: collect the
   delete and update batches, DeleteBatch, UpdateBatch, results) keeps the cover invariant. *)
From Coq Require Import List NArith Bool Lia ZifyN ZifyBool.
From SV Require Import Reconciler.Retries Reconciler.Model Reconciler.RetriesProofs Reconciler.CommitProofs
  Reconciler.RoundProofs Reconciler.CoverProofs Reconciler.StepProofs Reconciler.TableWf Reconciler.StreamProofs
  Reconciler.PhaseProofs.
Import ListNotations.
Open Scope N_scope.

Lemma phase_inv_D_mono : forall (D D' : N -> N -> Prop) snap e q res cur chs,
  (forall p r, D p r -> D' p r) -> phase_inv D snap e q res cur chs -> phase_inv D' snap e q res cur chs.
Proof.
  intros D D' snap e q res cur chs H [I1 I2 I3 I4 I5 I6 I7 I8 I9 I10 I11].
  constructor; try assumption. intro pk. apply (covered_D_mono D); [exact H|apply I11].
Qed.

(* the pre-call halves of step_update / step_delete: what retries.Clear + putting the change into a batch
   (or recording its result) does to the invariant *)
Lemma collect_upd : forall D snap e q res cur ch rest b,
  phase_inv D snap e q res cur (ch :: rest) -> c_del ch = false -> is_pending (c_obj ch) = true ->
  phase_inv D snap e (r_clear q (ch_pk ch))
            (res ++ [mkRes (c_obj ch) (c_rev ch) (c_rev ch) (o_sid (c_obj ch)) b]) (c_rev ch) rest.
Proof.
  intros D snap e q res cur ch rest b INV Hd Hp.
  destruct (step_head_slot _ _ _ _ _ _ _ _ INV) as [sl0 [S0 [S1 [P0 [P1 [P2 P3]]]]]].
  pose proof INV as [I1 I2 I3 I4 I5 I6 I7 I8 I9 I10 I11].
  set (k := ch_pk ch) in *.
  set (r := mkRes (c_obj ch) (c_rev ch) (c_rev ch) (o_sid (c_obj ch)) b) in *.
  assert (Hsl0 : sl0 = Live (c_obj ch) (c_rev ch)).
  { destruct sl0 as [o0 r0|o0 r0]; rewrite <- S1 in *; cbn in *; [reflexivity|discriminate]. }
  apply (step_rest_inv D snap e q res cur ch rest INV D); try assumption.
  - apply uniq_clear. exact I6.
  - intros it Hin. apply in_clear_items in Hin. apply I7. exact Hin.
  - unfold res_pks. rewrite map_app. cbn [map]. apply nodup_snoc; [exact I8|]. apply (I9 ch). left. reflexivity.
  - intros p Hp'. unfold res_pks in Hp'. rewrite map_app in Hp'. apply in_app_or in Hp'.
    destruct Hp' as [X|[X|[]]]; [left; exact X|right; symmetry; exact X].
  - intros x Hx. apply in_app_or in Hx. destruct Hx as [Hx|[Hx|[]]]; [apply I10; exact Hx|subst x; cbn; split; exact P1].
  - intro pk. apply cov_clear.
    + apply (cov_advance _ _ cur); [lia| |].
      * apply (covered_res_mono _ _ _ res); [intros x Hx; apply in_or_app; left; exact Hx|apply I11].
      * intros sl Hs Hlt Hle. destruct (step_interval _ _ _ _ _ _ _ _ INV pk sl Hs Hlt Hle) as [K SC].
        destruct sl as [o r0|o r0].
        -- intros _. exists r. split; [apply in_or_app; right; left; reflexivity|]. split; [cbn; rewrite K; reflexivity|].
           left. cbn. rewrite <- SC. reflexivity.
        -- rewrite <- SC in Hd. discriminate.
    + intros Ek sl Hs. destruct sl as [o r0|o r0].
      * intro He. destruct I3 as [_ [_ R3]]. destruct (R3 k o r0 Hs He) as [o' [r' [X Y]]].
        rewrite S0, Hsl0 in X. injection X as X1 X2. subst o'. unfold is_pending in Hp. rewrite Y in Hp. discriminate.
      * left. assert (Hne : Dead o r0 <> sl0) by (rewrite Hsl0; discriminate).
        pose proof (step_self_newer _ _ _ _ _ _ _ _ INV (Dead o r0) sl0 Hs S0 Hne) as L. cbn in L. lia.
Qed.

Lemma collect_del : forall (D : N -> N -> Prop) snap e q res cur ch rest,
  phase_inv D snap e q res cur (ch :: rest) -> c_del ch = true ->
  phase_inv (fun p r => D p r \/ (p = ch_pk ch /\ r = c_rev ch)) snap e (r_clear q (ch_pk ch)) res (c_rev ch) rest.
Proof.
  intros D snap e q res cur ch rest INV Hd.
  destruct (step_head_slot _ _ _ _ _ _ _ _ INV) as [sl0 [S0 [S1 [P0 [P1 [P2 P3]]]]]].
  pose proof INV as [I1 I2 I3 I4 I5 I6 I7 I8 I9 I10 I11].
  set (k := ch_pk ch) in *.
  assert (Hsl0 : sl0 = Dead (c_obj ch) (c_rev ch)).
  { destruct sl0 as [o0 r0|o0 r0]; rewrite <- S1 in *; cbn in *; [discriminate|reflexivity]. }
  apply (step_rest_inv D snap e q res cur ch rest INV); try assumption.
  - apply uniq_clear. exact I6.
  - intros it Hin. apply in_clear_items in Hin. apply I7. exact Hin.
  - intros p Hp'. left. exact Hp'.
  - intro pk. apply cov_clear.
    + apply (cov_advance _ _ cur); [lia| |].
      * apply (covered_D_mono D); [intros p r0 X; left; exact X|apply I11].
      * intros sl Hs Hlt Hle. destruct (step_interval _ _ _ _ _ _ _ _ INV pk sl Hs Hlt Hle) as [K SC].
        destruct sl as [o r0|o r0].
        -- rewrite <- SC in Hd. discriminate.
        -- right. right. split; [exact K|]. rewrite <- SC. reflexivity.
    + intros Ek sl Hs. destruct sl as [o r0|o r0].
      * intro He. destruct I3 as [_ [_ R3]]. destruct (R3 k o r0 Hs He) as [o' [r' [X Y]]].
        rewrite S0, Hsl0 in X. discriminate.
      * destruct (N.lt_ge_cases (t_rev snap) r0) as [L|L]; [left; lia|].
        right. right. split; [reflexivity|].
        destruct I3 as [_ [R2 _]]. specialize (R2 k (Dead o r0) Hs L). rewrite S0, Hsl0 in R2. injection R2 as X1 X2. symmetry. exact X2.
Qed.

(* a scripted call (with whatever its hooks write) keeps the invariant; the log grows by that call *)
Lemma call_inv : forall D snap e q res cur chs fresh op o rev e' ok,
  phase_inv D snap e q res cur chs -> do_call e snap fresh op o rev = (e', ok) ->
  phase_inv D snap e' q res cur chs /\
  exists c, e_calls e' = e_calls e ++ [c] /\ cl_op c = op /\ cl_pk c = o_pk o /\ cl_rev c = rev /\ cl_ok c = ok.
Proof.
  intros D snap e q res cur chs fresh op o rev e' ok [I1 I2 I3 I4 I5 I6 I7 I8 I9 I10 I11] Ec.
  destruct (do_call_effect _ _ _ _ _ _ _ _ I1 Ec) as [WS [_ HL]]. split; [|exact HL].
  assert (W0 : wstate D (e_tab e) cur res q).
  { split; [apply twf_keyed; exact I1|]. split; [destruct I3 as [R1 _]; lia|exact I11]. }
  pose proof (do_call_wstate D e snap fresh op o rev _ _ _ W0) as W1. rewrite Ec in W1. cbn [fst] in W1.
  destruct W1 as [_ [_ C3]]. pose proof (wstep_rev _ _ WS) as M.
  constructor; try assumption.
  - apply (wstep_twf _ _ WS I1).
  - apply (wstep_snap_rel _ _ _ WS I1 I3).
  - intros it Hin. destruct (I7 it Hin). split; lia.
Qed.

(* ------------------------------------------------------------------ collect *)
Definition Dplus (D : N -> N -> Prop) (dl : list change) (p r : N) : Prop :=
  D p r \/ exists d, In d dl /\ p = ch_pk d /\ r = c_rev d.
Definition pend (upds : list change) : list opres :=
  map (fun c => mkRes (c_obj c) (c_rev c) (c_rev c) (o_sid (c_obj c)) false) upds.

Record binv (D : N -> N -> Prop) (snap : table) (e : env) (q : retries) (dels upds : list change) (cur : N) (chs : list change) : Prop := {
  bi_ph : phase_inv (Dplus D dels) snap e q (pend upds) cur chs;
  bi_abs : forall c, In c (dels ++ upds) -> find_item (ch_pk c) (q_items q) = None;
  bi_nd : NoDup (map ch_pk dels);
  bi_du : forall d, In d dels -> ~ In (ch_pk d) (res_pks (pend upds));
  bi_dc : forall d ch, In d dels -> In ch chs -> ch_pk d <> ch_pk ch;
  bi_dpast : forall d, In d dels -> c_rev d <= t_rev snap
}.

Lemma res_pks_pend : forall upds, res_pks (pend upds) = map ch_pk upds.
Proof. intro upds. unfold res_pks, pend. rewrite map_map. reflexivity. Qed.

Lemma find_clear_none : forall q k p, find_item p (q_items q) = None -> find_item p (q_items (r_clear q k)) = None.
Proof.
  intros q k p H. rewrite clear_items. destruct (N.eq_dec p k) as [E|E]; [subst p; apply find_item_remove_same|].
  rewrite find_item_remove_other by exact E. exact H.
Qed.

Theorem batch_collect_inv : forall chs rs D snap e c0 q dels upds nrec lastrev q' dels' upds' nrec' lastrev',
  binv D snap e q dels upds (curs c0 lastrev) chs ->
  batch_collect rs chs q dels upds nrec lastrev = (q', dels', upds', nrec', lastrev') ->
  exists chs', binv D snap e q' dels' upds' (curs c0 lastrev') chs'.
Proof.
  induction chs as [|ch rest IH]; intros rs D snap e c0 q dels upds nrec lastrev q' dels' upds' nrec' lastrev' B H; cbn [batch_collect] in H.
  - injection H as H1 H2 H3 H4 H5. subst. exists []. exact B.
  - pose proof B as [B1 B2 B3 B4 B5 B6].
    destruct (step_head_slot _ _ _ _ _ _ _ _ B1) as [sl0 [S0 [S1 [P0 [P1 [P2 P3]]]]]].
    assert (CU : curs c0 (c_rev ch) = c_rev ch).
    { unfold curs. destruct (c_rev ch =? 0) eqn:E; [apply N.eqb_eq in E; lia|reflexivity]. }
    assert (NDs : ~ In (ch_pk ch) (map ch_pk rest)).
    { destruct B1 as [_ _ _ [N1 _] _ _ _ _ _ _ _]. cbn [map] in N1. inversion N1; assumption. }
    destruct (negb (c_del ch) && negb (is_pending (c_obj ch))) eqn:Esk.
    + apply andb_prop in Esk. destruct Esk as [E1 E2]. apply negb_true_iff in E1. apply negb_true_iff in E2.
      apply (IH rs D snap e c0 q dels upds nrec (c_rev ch) q' dels' upds' nrec' lastrev'); [|exact H].
      rewrite CU. constructor; try assumption.
      * apply (step_skip _ _ _ _ _ _ _ _ B1 E1 E2).
      * intros d x Hd Hx. apply B5; [exact Hd|right; exact Hx].
    + assert (BN : binv D snap e (r_clear q (o_pk (c_obj ch))) (if c_del ch then dels ++ [ch] else dels)
                        (if c_del ch then upds else upds ++ [ch]) (c_rev ch) rest).
      { destruct (c_del ch) eqn:Ed.
        - constructor.
          + apply (phase_inv_D_mono (fun p r => Dplus D dels p r \/ (p = ch_pk ch /\ r = c_rev ch))).
            * intros p r [[X|[d [X1 X2]]]|[X1 X2]].
              -- left. exact X.
              -- right. exists d. split; [apply in_or_app; left; exact X1|exact X2].
              -- right. exists ch. split; [apply in_or_app; right; left; reflexivity|split; assumption].
            * apply (collect_del _ _ _ _ _ _ _ _ B1 Ed).
          + intros c Hc. rewrite <- app_assoc in Hc. apply in_app_or in Hc. destruct Hc as [Hc|Hc].
            * apply find_clear_none. apply B2. apply in_or_app. left. exact Hc.
            * cbn [app] in Hc. destruct Hc as [Hc|Hc]; [subst c; apply no_item_after_clear|].
              apply find_clear_none. apply B2. apply in_or_app. right. exact Hc.
          + rewrite map_app. cbn [map]. apply nodup_snoc; [exact B3|].
            intro Hin. apply in_map_iff in Hin. destruct Hin as [d [X1 X2]]. apply (B5 d ch X2 (or_introl eq_refl)). exact X1.
          + intros d Hd. apply in_app_or in Hd. destruct Hd as [Hd|[Hd|[]]]; [apply B4; exact Hd|].
            subst d. destruct B1 as [_ _ _ _ _ _ _ _ I9 _ _]. apply (I9 ch). left. reflexivity.
          + intros d x Hd Hx. apply in_app_or in Hd. destruct Hd as [Hd|[Hd|[]]].
            * apply B5; [exact Hd|right; exact Hx].
            * subst d. intro X. apply NDs. rewrite X. apply in_map. exact Hx.
          + intros d Hd. apply in_app_or in Hd. destruct Hd as [Hd|[Hd|[]]]; [apply B6; exact Hd|subst d; exact P1].
        - cbn [negb andb] in Esk. apply negb_false_iff in Esk. constructor.
          + unfold pend. rewrite map_app. cbn [map]. apply (collect_upd _ _ _ _ _ _ _ _ false B1 Ed Esk).
          + intros c Hc. rewrite app_assoc in Hc. apply in_app_or in Hc. destruct Hc as [Hc|[Hc|[]]].
            * apply find_clear_none. apply B2. exact Hc.
            * subst c. apply no_item_after_clear.
          + exact B3.
          + intros d Hd. rewrite res_pks_pend, map_app. cbn [map]. intro Hin. apply in_app_or in Hin.
            destruct Hin as [Hin|[Hin|[]]]; [apply (B4 d Hd); rewrite res_pks_pend; exact Hin|].
            apply (B5 d ch Hd (or_introl eq_refl)). symmetry. exact Hin.
          + intros d x Hd Hx. apply B5; [exact Hd|right; exact Hx].
          + exact B6. }
      destruct (rs <=? nrec + 1).
      * injection H as H1 H2 H3 H4 H5. subst q' dels' upds' nrec' lastrev'. exists rest. rewrite CU. exact BN.
      * apply (IH rs D snap e c0 (r_clear q (o_pk (c_obj ch))) (if c_del ch then dels ++ [ch] else dels)
                  (if c_del ch then upds else upds ++ [ch]) (nrec + 1) (c_rev ch) q' dels' upds' nrec' lastrev'); [rewrite CU; exact BN|exact H].
Qed.

(* ------------------------------------------------------------------ DeleteBatch *)
Lemma clear_absent : forall q k, find_item k (q_items q) = None -> r_clear q k = q.
Proof. intros q k H. unfold r_clear. rewrite H. reflexivity. Qed.

Theorem batch_deletes_inv : forall dl snap upds e q res cur chs e' q',
  phase_inv (Dplus (Dlog e) dl) snap e q res cur chs ->
  (forall c, In c (dl ++ upds) -> find_item (ch_pk c) (q_items q) = None) ->
  NoDup (map ch_pk dl) -> (forall d, In d dl -> ~ In (ch_pk d) (map ch_pk upds)) ->
  (forall d, In d dl -> c_rev d <= t_rev snap) ->
  batch_deletes snap dl e q = (e', q') ->
  phase_inv (Dlog e') snap e' q' res cur chs /\
  (forall u, In u upds -> find_item (ch_pk u) (q_items q') = None) /\
  exists l, e_calls e' = e_calls e ++ l.
Proof.
  induction dl as [|d rest IH]; intros snap upds e q res cur chs e' q' PH AB ND DU DP H; cbn [batch_deletes] in H.
  - injection H as H1 H2. subst e' q'. split; [|split].
    + apply (phase_inv_D_mono (Dplus (Dlog e) [])); [|exact PH]. intros p r [X|[x [[] _]]]. exact X.
    + intros u Hu. apply AB. exact Hu.
    + exists []. rewrite app_nil_r. reflexivity.
  - destruct (do_call e snap true 3 (c_obj d) (c_rev d)) as [e1 ok] eqn:Ec.
    destruct (call_inv _ _ _ _ _ _ _ _ _ _ _ _ _ PH Ec) as [PH1 [cl [LC [L1 [L2 [L3 L4]]]]]].
    assert (DM : forall p r, Dlog e p r -> Dlog e1 p r) by (apply (Dlog_mono e e1 [cl] LC)).
    cbn [map] in ND. inversion ND as [|x xs Hx Hr]; subst x xs.
    set (D0 := Dplus (Dlog e1) rest).
    assert (SH : forall p r, Dplus (Dlog e) (d :: rest) p r -> D0 p r \/ (p = o_pk (c_obj d) /\ r = c_rev d)).
    { intros p r [X|[x [[X1|X1] X2]]].
      - left. left. apply DM. exact X.
      - subst x. right. exact X2.
      - left. right. exists x. split; assumption. }
    set (q1 := if ok then q else r_add q (c_obj d) (c_rev d) (c_rev d) true (e_now e1)) in *.
    assert (PH2 : phase_inv D0 snap e1 q1 res cur chs).
    { destruct ok; unfold q1.
      - apply (phase_inv_D_mono (Dplus (Dlog e) (d :: rest))); [|exact PH1].
        intros p r X. destruct (SH p r X) as [Y|[Y1 Y2]]; [exact Y|]. left.
        exists cl. split; [rewrite LC; apply in_or_app; right; left; reflexivity|]. rewrite L1, L2, L3, L4. subst p r. repeat split.
      - pose proof PH1 as [I1 I2 I3 I4 I5 I6 I7 I8 I9 I10 I11]. constructor; try assumption.
        + apply uniq_add. exact I6.
        + intros it Hin. rewrite add_items in Hin. apply in_put_item in Hin. destruct Hin as [Hin|Hin]; [|apply I7; exact Hin].
          subst it. cbn. destruct I3 as [R1 _]. pose proof (DP d (or_introl eq_refl)). split; lia.
        + intro pk. apply cov_add_del.
          * intros it Hit. pose proof (AB d (or_introl eq_refl)) as X. unfold ch_pk in X. rewrite X in Hit. discriminate.
          * apply (covered_D_mono (Dplus (Dlog e) (d :: rest))); [exact SH|apply I11]. }
    assert (AB2 : forall c, In c (rest ++ upds) -> find_item (ch_pk c) (q_items q1) = None).
    { intros c Hc. assert (Ne : ch_pk c <> o_pk (c_obj d)).
      { apply in_app_or in Hc. destruct Hc as [Hc|Hc].
        - intro X. apply Hx. change (o_pk (c_obj d)) with (ch_pk d) in X. rewrite <- X. apply in_map. exact Hc.
        - intro X. apply (DU d (or_introl eq_refl)). change (o_pk (c_obj d)) with (ch_pk d) in X. rewrite <- X. apply in_map. exact Hc. }
      unfold q1. destruct ok; [|rewrite add_other by exact Ne]; apply AB; right; exact Hc. }
    destruct (IH snap upds e1 q1 res cur chs e' q' PH2 AB2 Hr) as [R1 [R2 [l2 R3]]].
    + intros x Hx'. apply DU. right. exact Hx'.
    + intros x Hx'. apply DP. right. exact Hx'.
    + exact H.
    + split; [exact R1|split; [exact R2|]]. exists ([cl] ++ l2). rewrite R3, LC, app_assoc. reflexivity.
Qed.

(* ------------------------------------------------------------------ UpdateBatch calls and results *)
Theorem batch_update_calls_inv : forall upds D snap e q res cur chs acc e' l,
  phase_inv D snap e q res cur chs -> batch_update_calls snap upds e acc = (e', l) ->
  phase_inv D snap e' q res cur chs /\ map fst l = map fst acc ++ upds /\ exists lg, e_calls e' = e_calls e ++ lg.
Proof.
  induction upds as [|c rest IH]; intros D snap e q res cur chs acc e' l PH H; cbn [batch_update_calls] in H.
  - injection H as H1 H2. subst. split; [exact PH|split; [rewrite app_nil_r; reflexivity|exists []; rewrite app_nil_r; reflexivity]].
  - destruct (do_call e snap true 2 (c_obj c) (c_rev c)) as [e1 ok] eqn:Ec.
    destruct (call_inv _ _ _ _ _ _ _ _ _ _ _ _ _ PH Ec) as [PH1 [cl [LC _]]].
    destruct (IH D snap e1 q res cur chs (acc ++ [(c, ok)]) e' l PH1 H) as [R1 [R2 [lg R3]]].
    split; [exact R1|split].
    + rewrite R2, map_app. cbn [map fst]. rewrite <- app_assoc. reflexivity.
    + exists ([cl] ++ lg). rewrite R3, LC, app_assoc. reflexivity.
Qed.

Definition mk_res (x : change * bool) : opres :=
  mkRes (c_obj (fst x)) (c_rev (fst x)) (c_rev (fst x)) (o_sid (c_obj (fst x))) (snd x).

Lemma batch_results_spec : forall l q res0, (forall x, In x l -> find_item (ch_pk (fst x)) (q_items q) = None) ->
  batch_results l q res0 = (q, res0 ++ map mk_res l).
Proof.
  induction l as [|[c ok] rest IH]; intros q res0 AB; cbn [batch_results].
  - rewrite app_nil_r. reflexivity.
  - assert (Q : (if ok then r_clear q (o_pk (c_obj c)) else q) = q).
    { destruct ok; [|reflexivity]. apply clear_absent. apply (AB (c, true)). left. reflexivity. }
    rewrite Q. rewrite IH; [|intros x Hx; apply AB; right; exact Hx]. rewrite <- app_assoc. reflexivity.
Qed.

Lemma covered_okflags : forall D t c l q pk,
  covered D t c (pend (map fst l)) q pk -> covered D t c (map mk_res l) q pk.
Proof.
  intros D t c l q pk H.
  assert (T : forall r, In r (pend (map fst l)) -> exists r', In r' (map mk_res l) /\
            r_obj r' = r_obj r /\ r_rev r' = r_rev r /\ r_orig r' = r_orig r /\ r_id r' = r_id r).
  { intros r Hr. unfold pend in Hr. rewrite map_map in Hr. apply in_map_iff in Hr. destruct Hr as [x [X1 X2]].
    exists (mk_res x). split; [apply in_map; exact X2|]. subst r. cbn. repeat split. }
  unfold covered in *. destruct (slot_of t pk) as [[o r|o r]|]; try exact H. destruct (o_kind o); try exact H.
  - destruct H as [A|[x [X1 [X2 X3]]]]; [left; exact A|right]. destruct (T x X1) as [x' [Y1 [Y2 [Y3 [Y4 Y5]]]]].
    exists x'. split; [exact Y1|]. rewrite Y2, Y3, Y5. split; assumption.
  - destruct H as [A|[x [X1 [X2 X3]]]]; [left; exact A|right]. destruct (T x X1) as [x' [Y1 [Y2 [Y3 [Y4 Y5]]]]].
    exists x'. split; [exact Y1|]. rewrite Y2, Y3, Y5. split; assumption.
  - destruct H as [A|[x [X1 [X2 X3]]]]; [left; exact A|right]. destruct (T x X1) as [x' [Y1 [Y2 [Y3 [Y4 Y5]]]]].
    exists x'. split; [exact Y1|]. rewrite Y2, Y3, Y4. split; assumption.
Qed.

Lemma phase_inv_okflags : forall D snap e q l cur chs,
  phase_inv D snap e q (pend (map fst l)) cur chs -> phase_inv D snap e q (map mk_res l) cur chs.
Proof.
  intros D snap e q l cur chs [I1 I2 I3 I4 I5 I6 I7 I8 I9 I10 I11].
  assert (PK : res_pks (map mk_res l) = res_pks (pend (map fst l))).
  { unfold res_pks, pend. rewrite !map_map. reflexivity. }
  constructor; try assumption.
  - rewrite PK. exact I8.
  - intros ch Hc. rewrite PK. apply I9. exact Hc.
  - intros r Hr. apply in_map_iff in Hr. destruct Hr as [x [X1 X2]]. subst r. cbn.
    apply (I10 (mkRes (c_obj (fst x)) (c_rev (fst x)) (c_rev (fst x)) (o_sid (c_obj (fst x))) false)).
    unfold pend. rewrite map_map. apply in_map_iff. exists x. split; [reflexivity|exact X2].
  - intro pk. apply covered_okflags. apply I11.
Qed.

(* incremental.go batch as a whole *)
Theorem batch_inv : forall rs snap c0 e q chs q1 dels upds nrec lastrev e2 q2 e3 l q4 res,
  phase_inv (Dlog e) snap e q [] (curs c0 0) chs ->
  batch_collect rs chs q [] [] 0 0 = (q1, dels, upds, nrec, lastrev) ->
  batch_deletes snap dels e q1 = (e2, q2) ->
  batch_update_calls snap upds e2 [] = (e3, l) ->
  batch_results l q2 [] = (q4, res) ->
  exists chs', phase_inv (Dlog e3) snap e3 q4 res (curs c0 lastrev) chs'.
Proof.
  intros rs snap c0 e q chs q1 dels upds nrec lastrev e2 q2 e3 l q4 res PH HC HD HU HR.
  assert (B0 : binv (Dlog e) snap e q [] [] (curs c0 0) chs).
  { constructor.
    - apply (phase_inv_D_mono (Dlog e)); [intros p r X; left; exact X|exact PH].
    - intros c [].
    - constructor.
    - intros d [].
    - intros d ch [].
    - intros d []. }
  destruct (batch_collect_inv _ _ _ _ _ _ _ _ _ _ _ _ _ _ _ _ B0 HC) as [chs' [B1 B2 B3 B4 B5 B6]].
  destruct (batch_deletes_inv dels snap upds e q1 (pend upds) (curs c0 lastrev) chs' e2 q2 B1 B2 B3) as [P2 [A2 [lg2 L2]]].
  - intros d Hd. rewrite <- res_pks_pend. apply B4. exact Hd.
  - exact B6.
  - exact HD.
  - destruct (batch_update_calls_inv upds (Dlog e2) snap e2 q2 (pend upds) (curs c0 lastrev) chs' [] e3 l P2 HU) as [P3 [M3 [lg3 L3]]].
    cbn [map app] in M3.
    rewrite batch_results_spec in HR.
    + injection HR as H1 H2. subst q4 res. cbn [app]. exists chs'.
      apply phase_inv_okflags. rewrite M3.
      apply (phase_inv_D_mono (Dlog e2)); [apply (Dlog_mono e2 e3 lg3 L3)|exact P3].
    + intros x Hx. apply A2. rewrite <- M3. apply in_map. exact Hx.
Qed.
