(* Reconciler/HeapInv.v — the retry queue as a whole (model: Heap.v): the invariant HInv of `retries` (one item
   per key, index bookkeeping and heap order of queue and revQueue, every item of the map is in revQueue),
   its preservation by Add / Pop / Clear / LowWatermark, and what Top / Pop / Clear / LowWatermark return. *)
From Coq Require Import List NArith ZArith Bool Lia ZifyN ZifyNat ZifyBool Wf_nat.
From SV Require Import Reconciler.Retries Reconciler.Heap Reconciler.HeapProofs.
Import ListNotations.
Open Scope N_scope.

(* ------------------------------------------------------------------ the other heap is not disturbed *)
Lemma qsel_other : forall w w' : qsel, w <> w' -> w' <> w.
Proof. intros w w' H E. apply H. symmetry. exact E. Qed.

Lemma idx_ok_other : forall w w' st st' arr, w <> w' -> map (erase w) st' = map (erase w) st ->
  idx_ok w' (st, arr) -> idx_ok w' (st', arr).
Proof.
  intros w w' st st' arr Hw He [H1 H2]. cbn [fst snd] in *. split; cbn [fst snd].
  - intros i Hi. destruct (H1 i Hi) as [a [A B]]. destruct (frame_get_some w _ _ _ a He A) as [a' [A' E]].
    exists a'. split; [exact A'|]. rewrite (erase_get_other w w' a' a Hw E). exact B.
  - intros pk a' A' Hne. destruct (frame_get_some w _ _ _ a' (eq_sym He) A') as [a [A E]].
    pose proof (erase_get_other w w' a a' Hw E) as G. rewrite <- G. apply (H2 pk a A). rewrite G. exact Hne.
Qed.

Lemma K_other : forall w w' st st' arr k, map (erase w) st' = map (erase w) st -> K w' (st', arr) k = K w' (st, arr) k.
Proof. intros w w' st st' arr k He. unfold K. cbn [fst snd]. apply (frame_getd_kf w). exact He. Qed.

Lemma heap_inv_other : forall w w' st st' arr, w <> w' -> map (erase w) st' = map (erase w) st ->
  heap_inv w' (st, arr) -> heap_inv w' (st', arr).
Proof.
  intros w w' st st' arr Hw He [A B]. split; [apply (idx_ok_other w w' st); assumption|].
  cbn [snd] in *. apply (hp_ext _ _ _ B). intros k _. apply (K_other w). exact He.
Qed.

Lemma queued_other : forall w w' st st' pk, w <> w' -> map (erase w) st' = map (erase w) st ->
  (queued w' st' pk <-> queued w' st pk).
Proof.
  intros w w' st st' pk Hw He. split.
  - intros [a' [A' B]]. destruct (frame_get_some w _ _ _ a' (eq_sym He) A') as [a [A E]].
    exists a. split; [exact A|]. rewrite (erase_get_other w w' a a' Hw E). exact B.
  - intros [a [A B]]. destruct (frame_get_some w _ _ _ a He A) as [a' [A' E]].
    exists a'. split; [exact A'|]. rewrite (erase_get_other w w' a' a Hw E). exact B.
Qed.

(* ------------------------------------------------------------------ delete(rq.items, key) *)
Lemma st_get_del : forall pk pk' st, st_get pk' (st_del pk st) = if pk =? pk' then None else st_get pk' st.
Proof.
  intros pk pk' st. induction st as [|a r IH]; cbn [st_del st_get]; [destruct (pk =? pk'); reflexivity|].
  destruct (hi_pk a =? pk) eqn:E1.
  - apply N.eqb_eq in E1. rewrite IH. destruct (pk =? pk') eqn:E2; [reflexivity|].
    rewrite E1, E2. reflexivity.
  - cbn [st_get]. rewrite IH. destruct (hi_pk a =? pk') eqn:E2; [|reflexivity].
    apply N.eqb_eq in E2. apply N.eqb_neq in E1. replace (pk =? pk') with false by (symmetry; apply N.eqb_neq; congruence). reflexivity.
Qed.

Lemma st_del_pks : forall pk st, map hi_pk (st_del pk st) = filter (fun k => negb (k =? pk)) (map hi_pk st).
Proof.
  intros pk st. induction st as [|a r IH]; cbn [st_del map filter]; [reflexivity|].
  destruct (hi_pk a =? pk); cbn [negb map]; rewrite IH; reflexivity.
Qed.

Lemma NoDup_filter : forall (f : N -> bool) l, NoDup l -> NoDup (filter f l).
Proof.
  intros f l H. induction H as [|x l Hx Hl IH]; cbn [filter]; [constructor|].
  destruct (f x); [|exact IH]. constructor; [|exact IH]. intro A. apply filter_In in A. apply Hx. apply A.
Qed.

Lemma heap_inv_del : forall w st arr pk, heap_inv w (st, arr) -> ~ queued w st pk -> heap_inv w (st_del pk st, arr).
Proof.
  intros w st arr pk [[H1 H2] Hhp] Hnq. cbn [fst snd] in *.
  assert (Hne : forall i, (i < length arr)%nat -> nth i arr 0 <> pk).
  { intros i Hi E. apply Hnq. destruct (H1 i Hi) as [a [A B]]. exists a. rewrite <- E. split; [exact A|lia]. }
  split; [split|]; cbn [fst snd].
  - intros i Hi. rewrite st_get_del. specialize (Hne i Hi). apply N.eqb_neq in Hne. rewrite N.eqb_sym, Hne. apply H1. exact Hi.
  - intros pk' a A B. rewrite st_get_del in A. destruct (pk =? pk'); [discriminate|]. apply H2; assumption.
  - apply (hp_ext _ _ _ Hhp). intros k Hk. unfold K, st_getd. cbn [fst snd]. rewrite st_get_del.
    specialize (Hne k Hk). apply N.eqb_neq in Hne. rewrite N.eqb_sym, Hne. reflexivity.
Qed.

(* ------------------------------------------------------------------ the index field of a stored item *)
Lemma idx_cases : forall w st arr pk it, idx_ok w (st, arr) -> st_get pk st = Some it ->
  get_idx w it = (-1)%Z \/ exists i, get_idx w it = Z.of_nat i /\ (i < length arr)%nat /\ nth i arr 0 = pk.
Proof.
  intros w st arr pk it [_ H2] Hg. cbn [fst snd] in H2.
  destruct (Z.eq_dec (get_idx w it) (-1)) as [E|E]; [left; exact E|right; apply H2; assumption].
Qed.

(* the guard of retries.Clear is true exactly when the item is in the heap: it never protects anything *)
Lemma clear_guard_spec : forall w st arr pk it, idx_ok w (st, arr) -> st_get pk st = Some it ->
  clear_guard (get_idx w it) arr pk = negb (get_idx w it =? -1)%Z.
Proof.
  intros w st arr pk it Hok Hg. unfold clear_guard.
  destruct (idx_cases w st arr pk it Hok Hg) as [E|[i [E [Hi Hn]]]]; rewrite E.
  - reflexivity.
  - rewrite Nat2Z.id, Hn, N.eqb_refl.
    replace (0 <=? Z.of_nat i)%Z with true by (symmetry; apply Z.leb_le; lia).
    replace (Z.of_nat i <? Z.of_nat (length arr))%Z with true by (symmetry; apply Z.ltb_lt; lia).
    replace (Z.of_nat i =? -1)%Z with false by (symmetry; apply Z.eqb_neq; lia). reflexivity.
Qed.

(* ------------------------------------------------------------------ the invariant of retries *)
Record HInv (hs : hstate) : Prop := mkHInv {
  (* one item object per key *)
  hv_uniq : NoDup (map hi_pk (hs_store hs));
  (* queue: index bookkeeping and heap order by retryAt *)
  hv_q : heap_inv QT (hs_store hs, hs_q hs);
  (* revQueue: index bookkeeping and heap order by origRev *)
  hv_r : heap_inv QR (hs_store hs, hs_r hs);
  (* every item of the map is in revQueue (Pop only takes it out of queue) *)
  hv_allrev : forall pk it, st_get pk (hs_store hs) = Some it -> queued QR (hs_store hs) pk
}.

Lemma HInv_new : forall a b, HInv (hq_new a b).
Proof.
  intros a b. split; cbn.
  - constructor.
  - split; [split; cbn; [intros i Hi; lia|intros pk it H; discriminate]|intros j Hj; cbn in Hj; lia].
  - split; [split; cbn; [intros i Hi; lia|intros pk it H; discriminate]|intros j Hj; cbn in Hj; lia].
  - intros pk it H. discriminate.
Qed.

(* (a) of the invariant in list form: both arrays are duplicate-free lists of keys present in the map *)
Lemma idx_ok_nodup : forall w h, idx_ok w h -> NoDup (snd h).
Proof.
  intros w h Hok. apply (NoDup_nth (snd h) 0). intros i j Hi Hj E. apply (idx_ok_inj w h i j Hok Hi Hj E).
Qed.
Lemma idx_ok_present : forall w h pk, idx_ok w h -> In pk (snd h) -> exists it, st_get pk (fst h) = Some it.
Proof.
  intros w h pk Hok Hin. apply (queued_in w h pk Hok) in Hin. destruct Hin as [it [A _]]. exists it. exact A.
Qed.
Lemma HInv_arrays : forall hs, HInv hs ->
  NoDup (hs_q hs) /\ NoDup (hs_r hs) /\
  (forall pk, In pk (hs_q hs) -> In pk (hs_r hs)) /\
  (forall pk, In pk (hs_r hs) <-> In pk (map hi_pk (hs_store hs))).
Proof.
  intros hs [Hu [Hq _] [Hr _] Ha].
  split; [apply (idx_ok_nodup QT _ Hq)|]. split; [apply (idx_ok_nodup QR _ Hr)|].
  assert (Hall : forall pk, In pk (hs_r hs) <-> In pk (map hi_pk (hs_store hs))).
  { intro pk. split.
    - intro Hin. destruct (idx_ok_present QR _ pk Hr Hin) as [it A]. cbn [fst] in A.
      destruct (In_dec N.eq_dec pk (map hi_pk (hs_store hs))) as [I|I]; [exact I|].
      apply st_get_none in I. congruence.
    - intro Hin. destruct (st_get pk (hs_store hs)) as [it|] eqn:E; [|apply st_get_none in E; contradiction].
      apply (queued_in QR (hs_store hs, hs_r hs) pk Hr). apply (Ha pk it E). }
  split; [|exact Hall].
  intros pk Hin. apply Hall. destruct (idx_ok_present QT _ pk Hq Hin) as [it A]. cbn [fst] in A.
  destruct (In_dec N.eq_dec pk (map hi_pk (hs_store hs))) as [I|I]; [exact I|]. apply st_get_none in I. congruence.
Qed.

(* resetTimer does not touch the heaps *)
Lemma HInv_timer : forall st q r t t' a b, HInv (mkHS st q r t a b) -> HInv (mkHS st q r t' a b).
Proof. intros st q r t t' a b [A B C D]. split; assumption. Qed.
Lemma HInv_reset : forall hs, HInv hs -> HInv (hq_reset_timer hs).
Proof. intros [st q r t a b] H. unfold hq_reset_timer. cbn [hs_store hs_q hs_r hs_min hs_max]. apply (HInv_timer _ _ _ t). exact H. Qed.

(* ------------------------------------------------------------------ retries.Pop *)
Lemma hq_pop_spec : forall hs, HInv hs -> hs_q hs <> [] ->
  exists hs', hq_pop hs = Some hs' /\ HInv hs' /\
    removed QT (hs_store hs, hs_q hs) (hs_store hs', hs_q hs') (nth 0 (hs_q hs) 0) /\
    hs_r hs' = hs_r hs /\ hs_min hs' = hs_min hs /\ hs_max hs' = hs_max hs /\
    hs_timer hs' = option_map hi_at (hq_top hs').
Proof.
  intros hs [Hu Hq Hr Ha] Hne. unfold hq_pop.
  destruct (hs_q hs) as [|p q0] eqn:Eq; [congruence|]. rewrite <- Eq in *.
  assert (Hpos : (0 < length (snd (hs_store hs, hs_q hs)))%nat) by (cbn [snd]; rewrite Eq; cbn; lia).
  pose proof (h_pop_spec QT (hs_store hs, hs_q hs) Hq Hpos) as Hrem.
  destruct (h_pop QT (hs_store hs, hs_q hs)) as [st q] eqn:Ep. cbn [snd] in Hrem.
  eexists. split; [reflexivity|].
  destruct Hrem as [Hinv [Hlen [Her Hqd]]]. cbn [fst snd] in *.
  split; [|split; [split; [exact Hinv|split; [exact Hlen|split; [exact Her|exact Hqd]]]|repeat split]].
  apply HInv_reset. split; cbn [hs_store hs_q hs_r].
  - rewrite (frame_pks QT _ _ Her). exact Hu.
  - exact Hinv.
  - apply (heap_inv_other QT QR (hs_store hs)); [discriminate|exact Her|exact Hr].
  - intros pk it A. destruct (frame_get_some QT _ _ pk it (eq_sym Her) A) as [it0 [A0 _]].
    apply (queued_other QT QR (hs_store hs) st pk); [discriminate|exact Her|]. apply (Ha pk it0 A0).
Qed.

(* ------------------------------------------------------------------ retries.Clear *)
Definition erase2 (it : hitem) : hitem := erase QT (erase QR it).

Lemma erase_erase2 : forall w l l', map (erase w) l' = map (erase w) l -> map erase2 l' = map erase2 l.
Proof.
  intros w l l' H.
  assert (E : forall x, erase2 x = erase2 (erase w x)) by (intros [o r g d i ri a n]; destruct w; reflexivity).
  rewrite (map_ext _ _ E l'), (map_ext _ _ E l), <- !(map_map (erase w) erase2), H. reflexivity.
Qed.

Lemma st_del_map : forall (f : hitem -> hitem) pk st, (forall it, hi_pk (f it) = hi_pk it) ->
  st_del pk (map f st) = map f (st_del pk st).
Proof.
  intros f pk st Hf. induction st as [|a r IH]; cbn [map st_del]; [reflexivity|].
  rewrite Hf. destruct (hi_pk a =? pk); [exact IH|cbn [map]; rewrite IH; reflexivity].
Qed.
Lemma pk_erase2 : forall it, hi_pk (erase2 it) = hi_pk it.
Proof. intros [o r g d i ri a n]. reflexivity. Qed.

(* the deadline resetTimer arms: the key at the root of queue *)
Definition top_at (st : list hitem) (q : list N) : option N :=
  match q with [] => None | _ :: _ => Some (K QT (st, q) 0) end.
Lemma top_at_top : forall hs, option_map hi_at (hq_top hs) = top_at (hs_store hs) (hs_q hs).
Proof. intros hs. unfold hq_top, top_at. destruct (hs_q hs); reflexivity. Qed.
Lemma top_at_ext : forall st st' q, (forall k, (k < length q)%nat -> K QT (st', q) k = K QT (st, q) k) -> top_at st' q = top_at st q.
Proof. intros st st' q H. unfold top_at. destruct q as [|p q0]; [reflexivity|]. rewrite H by (cbn; lia). reflexivity. Qed.

Lemma K_del : forall w st arr pk k, idx_ok w (st, arr) -> ~ queued w st pk -> (k < length arr)%nat ->
  K w (st_del pk st, arr) k = K w (st, arr) k.
Proof.
  intros w st arr pk k [H1 _] Hnq Hk. cbn [fst snd] in H1. unfold K, st_getd. cbn [fst snd]. rewrite st_get_del.
  destruct (pk =? nth k arr 0) eqn:E; [|reflexivity]. apply N.eqb_eq in E. exfalso. apply Hnq.
  destruct (H1 k Hk) as [a [A B]]. exists a. rewrite E. split; [exact A|lia].
Qed.

Lemma hq_clear_absent : forall hs pk, st_get pk (hs_store hs) = None -> hq_clear hs pk = hs.
Proof. intros hs pk H. unfold hq_clear. rewrite H. reflexivity. Qed.

Lemma hq_clear_spec : forall hs pk it, HInv hs -> st_get pk (hs_store hs) = Some it ->
  (* both guards of Clear hold whenever the item is in the respective heap *)
  clear_guard (hi_index it) (hs_q hs) pk = negb (hi_index it =? -1)%Z /\
  clear_guard (hi_revIndex it) (hs_r hs) pk = true /\
  HInv (hq_clear hs pk) /\
  map erase2 (hs_store (hq_clear hs pk)) = map erase2 (st_del pk (hs_store hs)) /\
  (forall w pk', queued w (hs_store (hq_clear hs pk)) pk' <-> pk' <> pk /\ queued w (hs_store hs) pk') /\
  hs_min (hq_clear hs pk) = hs_min hs /\ hs_max (hq_clear hs pk) = hs_max hs /\
  (* "if index == 0 { rq.resetTimer() }" *)
  (hi_index it = 0%Z -> hs_timer (hq_clear hs pk) = option_map hi_at (hq_top (hq_clear hs pk))) /\
  (hi_index it <> 0%Z -> hs_timer (hq_clear hs pk) = hs_timer hs).
Proof.
  intros hs pk it [Hu Hq Hr Ha] Hg.
  pose proof (clear_guard_spec QT _ _ pk it (proj1 Hq) Hg) as G1. cbn [get_idx] in G1.
  pose proof (clear_guard_spec QR _ _ pk it (proj1 Hr) Hg) as G2. cbn [get_idx] in G2.
  assert (Hri : hi_revIndex it <> (-1)%Z).
  { destruct (Ha pk it Hg) as [a [A B]]. rewrite Hg in A. injection A as A. subst a. exact B. }
  replace (hi_revIndex it =? -1)%Z with false in G2 by (symmetry; apply Z.eqb_neq; exact Hri). cbn [negb] in G2.
  split; [exact G1|]. split; [exact G2|].
  unfold hq_clear. rewrite Hg.
  (* first the retryAt queue *)
  set (hs1 := if clear_guard (hi_index it) (hs_q hs) pk then _ else hs).
  assert (H1 : heap_inv QT (hs_store hs1, hs_q hs1) /\ map (erase QT) (hs_store hs1) = map (erase QT) (hs_store hs) /\
               (forall pk', queued QT (hs_store hs1) pk' <-> pk' <> pk /\ queued QT (hs_store hs) pk') /\
               hs_r hs1 = hs_r hs /\ hs_min hs1 = hs_min hs /\ hs_max hs1 = hs_max hs /\
               (hi_index it = 0%Z -> hs_timer hs1 = top_at (hs_store hs1) (hs_q hs1)) /\
               (hi_index it <> 0%Z -> hs_timer hs1 = hs_timer hs)).
  { subst hs1. rewrite G1. destruct (hi_index it =? -1)%Z eqn:E; cbn [negb].
    - apply Z.eqb_eq in E. split; [exact Hq|]. split; [reflexivity|]. split; [|repeat split; lia].
      intro pk'. split; [intro A; split; [|exact A]|intros [_ A]; exact A].
      intro; subst pk'. destruct A as [a [A B]]. rewrite Hg in A. injection A as A. subst a. cbn [get_idx] in B. contradiction.
    - apply Z.eqb_neq in E.
      destruct (idx_cases QT _ _ pk it (proj1 Hq) Hg) as [E'|[i [Ei [Hi Hn]]]]; [cbn [get_idx] in E'; contradiction|].
      cbn [get_idx] in Ei. rewrite Ei, Nat2Z.id.
      pose proof (h_remove_spec QT (hs_store hs, hs_q hs) i Hq Hi) as Hrem. cbn [snd] in Hrem. rewrite Hn in Hrem.
      destruct (h_remove QT (hs_store hs, hs_q hs) i) as [st q].
      destruct Hrem as [A [_ [B C]]]. cbn [fst snd] in *.
      destruct (Z.of_nat i =? 0)%Z eqn:E0; cbn [hq_reset_timer hs_store hs_q hs_r hs_min hs_max hs_timer];
        (split; [exact A|split; [exact B|split; [exact C|split; [reflexivity|split; [reflexivity|split; [reflexivity|split]]]]]]).
      + intros _. apply top_at_top.
      + apply Z.eqb_eq in E0. lia.
      + apply Z.eqb_neq in E0. lia.
      + intros _. reflexivity. }
  clearbody hs1. destruct H1 as [Hq1 [He1 [Hqd1 [Hr1 [Hmin1 [Hmax1 [Ht1a Ht1b]]]]]]].
  (* then the origRev queue *)
  assert (Hr1' : heap_inv QR (hs_store hs1, hs_r hs1)).
  { rewrite Hr1. apply (heap_inv_other QT QR (hs_store hs)); [discriminate|exact He1|exact Hr]. }
  destruct (frame_get_some QT _ _ pk it He1 Hg) as [it1 [Hg1 Eit1]].
  assert (Eri : hi_revIndex (st_getd pk (hs_store hs1)) = hi_revIndex it).
  { unfold st_getd. rewrite Hg1. apply (erase_get_other QT QR it1 it); [discriminate|exact Eit1]. }
  rewrite Eri.
  destruct (idx_cases QR _ _ pk it (proj1 Hr) Hg) as [E'|[i [Ei [Hi Hn]]]]; [cbn [get_idx] in E'; contradiction|].
  cbn [get_idx] in Ei. rewrite Hr1, G2, Ei, Nat2Z.id.
  pose proof (h_remove_spec QR (hs_store hs1, hs_r hs1) i Hr1') as Hrem. cbn [snd] in Hrem. rewrite Hr1 in Hrem.
  specialize (Hrem Hi). rewrite Hn in Hrem.
  destruct (h_remove QR (hs_store hs1, hs_r hs)) as [st2 r2].
  destruct Hrem as [A [_ [B C]]]. cbn [fst snd hs_store hs_q hs_r hs_timer hs_min hs_max] in *.
  assert (Hq2 : heap_inv QT (st2, hs_q hs1)) by (apply (heap_inv_other QR QT (hs_store hs1)); [discriminate|exact B|exact Hq1]).
  assert (Hnq : forall w, ~ queued w st2 pk).
  { intros [|] Hx.
    - apply (queued_other QR QT (hs_store hs1) st2 pk) in Hx; [|discriminate|exact B]. apply Hqd1 in Hx. destruct Hx as [Hx _]. congruence.
    - apply C in Hx. destruct Hx as [Hx _]. congruence. }
  assert (Htop : top_at (st_del pk st2) (hs_q hs1) = top_at (hs_store hs1) (hs_q hs1)).
  { apply top_at_ext. intros k Hk. rewrite (K_del QT st2 (hs_q hs1) pk k (proj1 Hq2) (Hnq QT) Hk). apply (K_other QR). exact B. }
  split; [|split; [|split; [|split; [assumption|split; [assumption|split]]]]].
  - split; cbn [hs_store hs_q hs_r].
    + rewrite st_del_pks. apply NoDup_filter. rewrite (frame_pks QR _ _ B), (frame_pks QT _ _ He1). exact Hu.
    + apply heap_inv_del; [exact Hq2|apply Hnq].
    + apply heap_inv_del; [exact A|apply Hnq].
    + intros pk' a Ha'. rewrite st_get_del in Ha'. destruct (pk =? pk') eqn:E; [discriminate|].
      destruct (frame_get_some QR _ _ pk' a (eq_sym B) Ha') as [a1 [Ha1 _]].
      destruct (frame_get_some QT _ _ pk' a1 (eq_sym He1) Ha1) as [a0 [Ha0 _]].
      assert (Hq0 : queued QR st2 pk').
      { apply C. apply N.eqb_neq in E. split; [congruence|].
        apply (queued_other QT QR (hs_store hs) (hs_store hs1) pk'); [discriminate|exact He1|]. apply (Ha pk' a0 Ha0). }
      destruct Hq0 as [b [Hb1 Hb2]]. exists b. split; [|exact Hb2]. rewrite st_get_del, E. exact Hb1.
  - rewrite <- !(st_del_map erase2) by apply pk_erase2. f_equal.
    rewrite (erase_erase2 QR _ _ B). apply (erase_erase2 QT _ _ He1).
  - intros w pk'. unfold queued at 1. rewrite st_get_del. destruct (pk =? pk') eqn:E.
    + apply N.eqb_eq in E. split; [intros [a [X _]]; discriminate|intros [X _]; congruence].
    + apply N.eqb_neq in E. fold (queued w st2 pk'). destruct w.
      * rewrite (queued_other QR QT (hs_store hs1) st2 pk') by (try discriminate; exact B). apply Hqd1.
      * rewrite C. rewrite (queued_other QT QR (hs_store hs) (hs_store hs1) pk') by (try discriminate; exact He1). reflexivity.
  - intro E0. rewrite top_at_top. cbn [hs_store hs_q]. rewrite Htop. apply Ht1a. exact E0.
  - exact Ht1b.
Qed.

(* ------------------------------------------------------------------ writes through the item pointer in Add *)
Lemma st_get_upd_at : forall f pk' pk st, (forall it, hi_pk it = pk' -> hi_pk (f it) = pk') ->
  st_get pk (st_upd pk' f st) = if pk' =? pk then option_map f (st_get pk st) else st_get pk st.
Proof.
  intros f pk' pk st Hf. induction st as [|a r IH]; cbn [st_upd map st_get].
  - destruct (pk' =? pk); reflexivity.
  - fold (st_upd pk' f r). destruct (hi_pk a =? pk') eqn:E1.
    + apply N.eqb_eq in E1. rewrite (Hf a E1). rewrite <- E1 at 1. destruct (hi_pk a =? pk) eqn:E2.
      * apply N.eqb_eq in E2. replace (pk' =? pk) with true by (symmetry; apply N.eqb_eq; congruence). reflexivity.
      * exact IH.
    + destruct (hi_pk a =? pk) eqn:E2; [|exact IH].
      apply N.eqb_eq in E2. apply N.eqb_neq in E1. replace (pk' =? pk) with false by (symmetry; apply N.eqb_neq; congruence).
      reflexivity.
Qed.

Lemma st_upd_pks_at : forall f pk st, (forall it, hi_pk it = pk -> hi_pk (f it) = pk) -> map hi_pk (st_upd pk f st) = map hi_pk st.
Proof.
  intros f pk st Hf. unfold st_upd. rewrite map_map. apply map_ext. intro a. destruct (hi_pk a =? pk) eqn:E; [|reflexivity].
  apply N.eqb_eq in E. rewrite (Hf a E). symmetry. exact E.
Qed.

Lemma st_get_app : forall pk st a, st_get pk (st ++ [a]) =
  match st_get pk st with Some x => Some x | None => if hi_pk a =? pk then Some a else None end.
Proof.
  intros pk st a. induction st as [|x r IH]; cbn [app st_get]; [reflexivity|].
  destruct (hi_pk x =? pk); [reflexivity|exact IH].
Qed.

Lemma NoDup_snoc : forall (l : list N) x, NoDup l -> ~ In x l -> NoDup (l ++ [x]).
Proof.
  intros l x H Hx. induction H as [|y l Hy Hl IH]; cbn [app]; [constructor; [intros []|constructor]|].
  constructor.
  - intro A. apply in_app_or in A. destruct A as [A|[A|[]]]; [contradiction|]. apply Hx. left. symmetry. exact A.
  - apply IH. intro A. apply Hx. right. exact A.
Qed.

(* a new item that is in no heap yet *)
Lemma heap_inv_app : forall w st arr a, heap_inv w (st, arr) -> st_get (hi_pk a) st = None -> get_idx w a = (-1)%Z ->
  heap_inv w (st ++ [a], arr).
Proof.
  intros w st arr a [[H1 H2] Hhp] Hn Hi. cbn [fst snd] in *.
  assert (Hk : forall i, (i < length arr)%nat -> st_get (nth i arr 0) (st ++ [a]) = st_get (nth i arr 0) st).
  { intros i Hi'. rewrite st_get_app. destruct (H1 i Hi') as [x [A _]]. rewrite A. reflexivity. }
  split; [split|]; cbn [fst snd].
  - intros i Hi'. rewrite Hk by exact Hi'. apply H1. exact Hi'.
  - intros pk x A B. rewrite st_get_app in A. destruct (st_get pk st) as [y|] eqn:Ey.
    + injection A as A. subst y. apply H2; assumption.
    + destruct (hi_pk a =? pk); [|discriminate]. injection A as A. subst x. contradiction.
  - apply (hp_ext _ _ _ Hhp). intros k Hk'. unfold K, st_getd. cbn [fst snd]. rewrite Hk by exact Hk'. reflexivity.
Qed.

Lemma upd_keys : forall w st arr pk f, heap_inv w (st, arr) ->
  (forall it, hi_pk it = pk -> hi_pk (f it) = pk) -> (forall it, get_idx w (f it) = get_idx w it) ->
  idx_ok w (st_upd pk f st, arr) /\
  (forall i, (i < length arr)%nat -> nth i arr 0 = pk -> hole (K w (st_upd pk f st, arr)) (length arr) i) /\
  ((forall i, (i < length arr)%nat -> nth i arr 0 <> pk) -> hp (K w (st_upd pk f st, arr)) (length arr)).
Proof.
  intros w st arr pk f [Hok Hhp] Hf Hi. pose proof Hok as [H1 H2]. cbn [fst snd] in *.
  assert (HK : forall k, nth k arr 0 <> pk -> K w (st_upd pk f st, arr) k = K w (st, arr) k).
  { intros k Hk. unfold K, st_getd. cbn [fst snd]. rewrite st_get_upd_at by exact Hf.
    apply N.eqb_neq in Hk. rewrite N.eqb_sym, Hk. reflexivity. }
  split; [split; cbn [fst snd]|split].
  - intros i Hi'. rewrite st_get_upd_at by exact Hf. destruct (H1 i Hi') as [a [A B]]. rewrite A.
    destruct (pk =? nth i arr 0); cbn [option_map]; eexists; (split; [reflexivity|]); [rewrite Hi|]; exact B.
  - intros pk' a A B. rewrite st_get_upd_at in A by exact Hf. destruct (pk =? pk').
    + destruct (st_get pk' st) as [b|] eqn:Eb; cbn in A; [|discriminate]. injection A as A. subst a.
      rewrite Hi in *. apply (H2 pk' b Eb B).
    + apply H2; assumption.
  - intros i Hi' Hn. apply (hp_hole (K w (st, arr))); [exact Hhp|].
    intros k Hk Hne. apply HK. intro E. apply Hne.
    apply (idx_ok_inj w (st, arr) k i Hok); cbn [snd]; [exact Hk|exact Hi'|congruence].
  - intro Hn. apply (hp_ext _ _ _ Hhp). intros k Hk. apply HK. apply Hn. exact Hk.
Qed.

(* "if item.index >= 0 { Fix(item.index) } else { PushItem(item) }" for either queue *)
Lemma place_spec : forall w st arr pk it,
  idx_ok w (st, arr) -> st_get pk st = Some it ->
  (forall i, (i < length arr)%nat -> nth i arr 0 = pk -> hole (K w (st, arr)) (length arr) i) ->
  ((forall i, (i < length arr)%nat -> nth i arr 0 <> pk) -> hp (K w (st, arr)) (length arr)) ->
  forall h', h' = (if (0 <=? get_idx w it)%Z then h_fix w (st, arr) (Z.to_nat (get_idx w it)) else h_push w (st, arr) pk) ->
  heap_inv w h' /\ map (erase w) (fst h') = map (erase w) st /\
  (forall pk', queued w (fst h') pk' <-> pk' = pk \/ queued w st pk').
Proof.
  intros w st arr pk it Hok Hg Hhole Hhp h' Eh'.
  destruct (idx_cases w st arr pk it Hok Hg) as [E|[i [E [Hi Hn]]]]; rewrite E in Eh'.
  - cbn in Eh'. subst h'.
    assert (Hnot : forall i, (i < length arr)%nat -> nth i arr 0 <> pk).
    { intros i Hi En. destruct Hok as [H1 _]. cbn [fst snd] in H1. destruct (H1 i Hi) as [a [A B]].
      rewrite En, Hg in A. injection A as A. subst a. lia. }
    destruct (h_push_spec w (st, arr) pk it (conj Hok (Hhp Hnot)) Hg E) as [A [_ [B C]]].
    split; [exact A|]. split; [exact B|exact C].
  - replace (0 <=? Z.of_nat i)%Z with true in Eh' by (symmetry; apply Z.leb_le; lia). rewrite Nat2Z.id in Eh'. subst h'.
    destruct (h_fix_spec w (st, arr) i Hi Hok (Hhole i Hi Hn)) as [A B].
    split; [exact A|]. split; [destruct B as [B _]; exact B|].
    intro pk'. rewrite (frame_queued w _ _ _ pk' B). cbn [fst]. split; [intro X; right; exact X|].
    intros [X|X]; [|exact X]. subst pk'. exists it. split; [exact Hg|lia].
Qed.

Lemma erase_to_erase2 : forall w a b, erase w a = erase w b -> erase2 a = erase2 b.
Proof.
  intros w [o1 r1 g1 d1 i1 ri1 a1 n1] [o2 r2 g2 d2 i2 ri2 a2 n2] H.
  destruct w; cbn in H; injection H as <- <- <- <- <- <- <-; reflexivity.
Qed.

(* ------------------------------------------------------------------ retries.Add *)
(* the item as written by Add before it is (re)placed in the heaps *)
Definition add_item (hs : hstate) (o : obj) (rev orig : N) (del : bool) (now : N) (it : hitem) : hitem :=
  mkH o rev orig del (hi_index it) (hi_revIndex it) (now + duration (hs_min hs) (hs_max hs) (hi_n it + 1)) (hi_n it + 1).
Definition fresh_item (o : obj) : hitem := mkH o 0 0 false (-1)%Z (-1)%Z 0 0.

Lemma hq_add_spec : forall hs o rev orig del now, HInv hs ->
  let pk := o_pk o in
  let it0 := match st_get pk (hs_store hs) with Some it => it | None => fresh_item o end in
  let hs' := hq_add hs o rev orig del now in
  HInv hs' /\
  map hi_pk (hs_store hs') =
    (match st_get pk (hs_store hs) with Some _ => map hi_pk (hs_store hs) | None => map hi_pk (hs_store hs) ++ [pk] end) /\
  (forall pk', pk' <> pk -> option_map erase2 (st_get pk' (hs_store hs')) = option_map erase2 (st_get pk' (hs_store hs))) /\
  (exists it', st_get pk (hs_store hs') = Some it' /\ erase2 it' = erase2 (add_item hs o rev orig del now it0)) /\
  (forall w pk', queued w (hs_store hs') pk' <-> pk' = pk \/ queued w (hs_store hs) pk') /\
  hs_min hs' = hs_min hs /\ hs_max hs' = hs_max hs /\
  (hs_timer hs' = hs_timer hs \/ hs_timer hs' = option_map hi_at (hq_top hs')) /\
  (nth 0 (hs_q hs') 0 = pk -> hs_timer hs' = option_map hi_at (hq_top hs')) /\
  (nth 0 (hs_q hs') 0 <> pk -> hs_timer hs' = hs_timer hs).
Proof.
  intros hs o rev orig del now [Hu Hq Hr Ha] pk it0 hs'.
  subst hs'. unfold hq_add. fold pk. fold (fresh_item o).
  set (st0 := match st_get pk (hs_store hs) with Some _ => hs_store hs | None => hs_store hs ++ [fresh_item o] end).
  change (fun it : hitem => mkH o rev orig del (hi_index it) (hi_revIndex it)
            (now + duration (hs_min hs) (hs_max hs) (hi_n it + 1)) (hi_n it + 1)) with (add_item hs o rev orig del now).
  set (F := add_item hs o rev orig del now).
  (* st0: the item exists *)
  assert (H0 : st_get pk st0 = Some it0 /\ (forall pk', pk' <> pk -> st_get pk' st0 = st_get pk' (hs_store hs)) /\
               heap_inv QT (st0, hs_q hs) /\ heap_inv QR (st0, hs_r hs) /\
               (forall w pk', queued w st0 pk' <-> queued w (hs_store hs) pk') /\
               map hi_pk st0 = match st_get pk (hs_store hs) with Some _ => map hi_pk (hs_store hs) | None => map hi_pk (hs_store hs) ++ [pk] end).
  { subst st0 it0. destruct (st_get pk (hs_store hs)) as [a|] eqn:Ea.
    - split; [exact Ea|]. split; [reflexivity|]. split; [exact Hq|]. split; [exact Hr|]. split; [reflexivity|reflexivity].
    - assert (Hpkf : hi_pk (fresh_item o) = pk) by reflexivity.
      split; [rewrite st_get_app, Ea, Hpkf, N.eqb_refl; reflexivity|]. split.
      + intros pk' Hne. rewrite st_get_app, Hpkf. destruct (st_get pk' (hs_store hs)); [reflexivity|].
        apply N.eqb_neq in Hne. rewrite N.eqb_sym, Hne. reflexivity.
      + split; [apply heap_inv_app; [exact Hq|exact Ea|reflexivity]|].
        split; [apply heap_inv_app; [exact Hr|exact Ea|reflexivity]|]. split.
        * intros w pk'. unfold queued. rewrite st_get_app, Hpkf. destruct (st_get pk' (hs_store hs)) as [b|] eqn:Eb; [reflexivity|].
          destruct (pk =? pk'); split; intros [x [X Y]]; try discriminate.
          injection X as X. subst x. destruct w; cbn in Y; contradiction.
        * rewrite map_app. reflexivity. }
  clearbody st0. destruct H0 as [Hg0 [Hoth0 [Hq0 [Hr0 [Hqd0 Hpks0]]]]].
  assert (HFpk : forall it, hi_pk it = pk -> hi_pk (F it) = pk) by (intros; reflexivity).
  (* st1: the fields are written *)
  set (st1 := st_upd pk F st0).
  assert (Hg1 : forall pk', st_get pk' st1 = if pk =? pk' then option_map F (st_get pk' st0) else st_get pk' st0).
  { intro pk'. apply st_get_upd_at. exact HFpk. }
  assert (Hg1pk : st_get pk st1 = Some (F it0)) by (rewrite Hg1, N.eqb_refl, Hg0; reflexivity).
  assert (Hqd1 : forall w pk', queued w st1 pk' <-> queued w st0 pk').
  { intros w pk'. unfold queued. rewrite Hg1. destruct (pk =? pk'); [|reflexivity].
    destruct (st_get pk' st0) as [b|]; cbn [option_map]; [|split; intros [x [X _]]; discriminate].
    split; intros [x [X Y]]; injection X as X; subst x; eexists; (split; [reflexivity|]); destruct w; exact Y. }
  destruct (upd_keys QR st0 (hs_r hs) pk F Hr0 HFpk ltac:(reflexivity)) as [Hokr1 [Hholer1 Hhpr1]].
  destruct (upd_keys QT st0 (hs_q hs) pk F Hq0 HFpk ltac:(reflexivity)) as [Hokq1 [Hholeq1 Hhpq1]].
  fold st1 in Hokr1, Hholer1, Hhpr1, Hokq1, Hholeq1, Hhpq1.
  (* revQueue *)
  assert (Eri : hi_revIndex (st_getd pk st1) = get_idx QR (F it0)) by (unfold st_getd; rewrite Hg1pk; reflexivity).
  rewrite Eri.
  destruct (place_spec QR st1 (hs_r hs) pk (F it0) Hokr1 Hg1pk Hholer1 Hhpr1 _ eq_refl) as [Hr2 [Her2 Hqd2]].
  destruct (if (0 <=? get_idx QR (F it0))%Z then h_fix QR (st1, hs_r hs) (Z.to_nat (get_idx QR (F it0)))
            else h_push QR (st1, hs_r hs) pk) as [st2 r2]. cbn [fst snd] in Hr2, Her2, Hqd2.
  (* queue *)
  destruct (frame_get_some QR _ _ pk (F it0) Her2 Hg1pk) as [it2 [Hg2pk Eit2]].
  assert (Eqi : hi_index (st_getd pk st2) = get_idx QT it2) by (unfold st_getd; rewrite Hg2pk; reflexivity).
  rewrite Eqi.
  assert (Hokq2 : idx_ok QT (st2, hs_q hs)) by (apply (idx_ok_other QR QT st1); [discriminate|exact Her2|exact Hokq1]).
  assert (Hholeq2 : forall i, (i < length (hs_q hs))%nat -> nth i (hs_q hs) 0 = pk -> hole (K QT (st2, hs_q hs)) (length (hs_q hs)) i).
  { intros i Hi Hn. apply (hole_ext _ _ _ _ (Hholeq1 i Hi Hn)). intros k _. apply (K_other QR). exact Her2. }
  assert (Hhpq2 : (forall i, (i < length (hs_q hs))%nat -> nth i (hs_q hs) 0 <> pk) -> hp (K QT (st2, hs_q hs)) (length (hs_q hs))).
  { intro Hn. apply (hp_ext _ _ _ (Hhpq1 Hn)). intros k _. apply (K_other QR). exact Her2. }
  destruct (place_spec QT st2 (hs_q hs) pk it2 Hokq2 Hg2pk Hholeq2 Hhpq2 _ eq_refl) as [Hq3 [Her3 Hqd3]].
  destruct (if (0 <=? get_idx QT it2)%Z then h_fix QT (st2, hs_q hs) (Z.to_nat (get_idx QT it2))
            else h_push QT (st2, hs_q hs) pk) as [st3 q3]. cbn [fst snd] in Hq3, Her3, Hqd3.
  assert (Hr3 : heap_inv QR (st3, r2)) by (apply (heap_inv_other QT QR st2); [discriminate|exact Her3|exact Hr2]).
  destruct (frame_get_some QT _ _ pk it2 Her3 Hg2pk) as [it3 [Hg3pk Eit3]].
  (* membership in either heap *)
  assert (Hqd : forall w pk', queued w st3 pk' <-> pk' = pk \/ queued w (hs_store hs) pk').
  { intros [|] pk'.
    - rewrite Hqd3. rewrite (queued_other QR QT st1 st2 pk') by (try discriminate; exact Her2). rewrite Hqd1, Hqd0. reflexivity.
    - rewrite (queued_other QT QR st2 st3 pk') by (try discriminate; exact Her3). rewrite Hqd2, Hqd1, Hqd0. reflexivity. }
  assert (Her13 : map erase2 st3 = map erase2 st1).
  { rewrite (erase_erase2 QT _ _ Her3). apply (erase_erase2 QR _ _ Her2). }
  assert (Hpks3 : map hi_pk st3 = map hi_pk st0).
  { rewrite (frame_pks QT _ _ Her3), (frame_pks QR _ _ Her2). apply st_upd_pks_at. exact HFpk. }
  assert (Hinv : forall t, HInv (mkHS st3 q3 r2 t (hs_min hs) (hs_max hs))).
  { intro t. split; cbn [hs_store hs_q hs_r].
    - rewrite Hpks3, Hpks0. destruct (st_get pk (hs_store hs)) eqn:Ea; [exact Hu|].
      apply NoDup_snoc; [exact Hu|]. apply st_get_none. exact Ea.
    - exact Hq3.
    - exact Hr3.
    - intros pk' a A. apply Hqd. destruct (N.eq_dec pk' pk) as [E|E]; [left; exact E|right].
      destruct (frame_get_some QT _ _ pk' a (eq_sym Her3) A) as [a2 [A2 _]].
      destruct (frame_get_some QR _ _ pk' a2 (eq_sym Her2) A2) as [a1 [A1 _]].
      rewrite Hg1 in A1. apply N.eqb_neq in E. rewrite N.eqb_sym, E in A1. apply N.eqb_neq in E.
      rewrite Hoth0 in A1 by exact E. apply (Ha pk' a1 A1). }
  assert (Hidx3 : hi_index (st_getd pk st3) = get_idx QT it3) by (unfold st_getd; rewrite Hg3pk; reflexivity).
  rewrite Hidx3.
  (* the head test "item.index == 0" is "the array starts with this item" *)
  assert (Hhead : (get_idx QT it3 =? 0)%Z = true <-> nth 0 q3 0 = pk).
  { destruct (idx_cases QT st3 q3 pk it3 (proj1 Hq3) Hg3pk) as [E|[i [E [Hi Hn]]]].
    - exfalso. assert (X : queued QT st3 pk) by (apply Hqd; left; reflexivity).
      destruct X as [x [X Y]]. rewrite Hg3pk in X. injection X as X. subst x. contradiction.
    - rewrite E. split.
      + intro X. apply Z.eqb_eq in X. assert (i = 0%nat) by lia. subst i. exact Hn.
      + intro X. apply Z.eqb_eq. assert (i = 0%nat); [|lia].
        apply (idx_ok_inj QT (st3, q3) i 0 (proj1 Hq3)); cbn [snd]; [exact Hi|lia|congruence]. }
  assert (Hrest : forall hsx, hsx = (if (get_idx QT it3 =? 0)%Z then hq_reset_timer (mkHS st3 q3 r2 (hs_timer hs) (hs_min hs) (hs_max hs))
                                    else mkHS st3 q3 r2 (hs_timer hs) (hs_min hs) (hs_max hs)) ->
            hs_store hsx = st3 /\ hs_q hsx = q3 /\ hs_r hsx = r2 /\ hs_min hsx = hs_min hs /\ hs_max hsx = hs_max hs /\
            (hs_timer hsx = hs_timer hs \/ hs_timer hsx = option_map hi_at (hq_top hsx)) /\
            (nth 0 q3 0 = pk -> hs_timer hsx = option_map hi_at (hq_top hsx)) /\
            (nth 0 q3 0 <> pk -> hs_timer hsx = hs_timer hs) /\ HInv hsx).
  { intros hsx Ex. destruct (get_idx QT it3 =? 0)%Z eqn:Eh; subst hsx.
    - cbn [hq_reset_timer hs_store hs_q hs_r hs_min hs_max hs_timer].
      split; [reflexivity|]. split; [reflexivity|]. split; [reflexivity|]. split; [reflexivity|]. split; [reflexivity|].
      split; [right; reflexivity|]. split; [intros _; reflexivity|]. split; [|apply Hinv].
      intro X. exfalso. apply X. apply Hhead. reflexivity.
    - cbn [hs_store hs_q hs_r hs_min hs_max hs_timer].
      split; [reflexivity|]. split; [reflexivity|]. split; [reflexivity|]. split; [reflexivity|]. split; [reflexivity|].
      split; [left; reflexivity|]. split; [|split; [intros _; reflexivity|apply Hinv]].
      intro X. apply Hhead in X. discriminate. }
  destruct (Hrest _ eq_refl) as [Es [Eq [Er [Emin [Emax [Ht1 [Ht2 [Ht3 Hfin]]]]]]]].
  rewrite Es, Eq.
  split; [exact Hfin|]. split; [rewrite Hpks3; exact Hpks0|]. split.
  - intros pk' Hne. pose proof (frame_get QT st2 st3 Her3 pk') as X3. pose proof (frame_get QR st1 st2 Her2 pk') as X2.
    rewrite Hg1 in X2. apply N.eqb_neq in Hne. rewrite N.eqb_sym, Hne in X2. apply N.eqb_neq in Hne. rewrite Hoth0 in X2 by exact Hne.
    destruct (st_get pk' st3) as [a3|], (st_get pk' st2) as [a2|], (st_get pk' (hs_store hs)) as [a0|];
      cbn [option_map] in *; try discriminate; [|reflexivity].
    assert (Y3 : erase QT a3 = erase QT a2) by congruence. assert (Y2 : erase QR a2 = erase QR a0) by congruence. f_equal.
    rewrite (erase_to_erase2 QT a3 a2 Y3). apply (erase_to_erase2 QR a2 a0 Y2).
  - split.
    + exists it3. split; [exact Hg3pk|].
      rewrite (erase_to_erase2 QT it3 it2 Eit3). apply (erase_to_erase2 QR it2 (F it0) Eit2).
    + split; [exact Hqd|]. split; [exact Emin|]. split; [exact Emax|]. split; [exact Ht1|]. split; assumption.
Qed.

Lemma st_get_uniq : forall st it, NoDup (map hi_pk st) -> In it st -> st_get (hi_pk it) st = Some it.
Proof.
  induction st as [|a r IH]; intros it Hn Hin; [destruct Hin|].
  cbn [st_get]. cbn [map] in Hn. inversion Hn as [|x xs Hx Hr]; subst.
  destruct Hin as [Hin|Hin].
  - subst a. rewrite N.eqb_refl. reflexivity.
  - destruct (hi_pk a =? hi_pk it) eqn:E.
    + apply N.eqb_eq in E. exfalso. apply Hx. rewrite E. apply in_map. exact Hin.
    + apply IH; assumption.
Qed.

(* the key at an array position is the key of the item stored there *)
Lemma K_at : forall w st arr i pk it, nth i arr 0 = pk -> st_get pk st = Some it -> K w (st, arr) i = kf w it.
Proof. intros w st arr i pk it Hn Hg. unfold K, st_getd. cbn [fst snd]. rewrite Hn, Hg. reflexivity. Qed.

(* the root of either heap is a minimum over the items in that heap *)
Lemma root_min : forall w st arr, heap_inv w (st, arr) -> arr <> [] ->
  exists t, st_get (nth 0 arr 0) st = Some t /\ get_idx w t = 0%Z /\
    forall pk it, st_get pk st = Some it -> get_idx w it <> (-1)%Z -> kf w t <= kf w it.
Proof.
  intros w st arr [Hok Hhp] Hne. pose proof Hok as [H1 H2]. cbn [fst snd] in *.
  assert (Hpos : (0 < length arr)%nat) by (destruct arr; [congruence|cbn; lia]).
  destruct (H1 0%nat Hpos) as [t [A B]]. exists t. split; [exact A|]. split; [exact B|].
  intros pk it Hg Hq. destruct (H2 pk it Hg Hq) as [i [_ [Hi Hn]]].
  pose proof (hp_root_min _ _ Hhp i Hi) as M.
  rewrite (K_at w st arr 0 _ t eq_refl A), (K_at w st arr i pk it Hn Hg) in M. exact M.
Qed.

(* ------------------------------------------------------------------ retries.Top *)
Lemma hq_top_none : forall hs, HInv hs -> (hq_top hs = None <-> forall pk, ~ queued QT (hs_store hs) pk).
Proof.
  intros hs [Hu Hq Hr Ha]. unfold hq_top.
  assert (Hin : forall pk, queued QT (hs_store hs) pk <-> In pk (hs_q hs)) by (intro pk; apply (queued_in QT (hs_store hs, hs_q hs) pk (proj1 Hq))).
  clear Hq. destruct (hs_q hs) as [|p q0].
  - split; [|reflexivity]. intros _ pk X. apply Hin in X. destruct X.
  - split; [discriminate|]. intro X. exfalso. apply (X p). apply Hin. left. reflexivity.
Qed.

Lemma hq_top_min : forall hs t, HInv hs -> hq_top hs = Some t ->
  st_get (hi_pk t) (hs_store hs) = Some t /\ hi_index t = 0%Z /\ nth 0 (hs_q hs) 0 = hi_pk t /\
  forall pk it, st_get pk (hs_store hs) = Some it -> hi_index it <> (-1)%Z -> hi_at t <= hi_at it.
Proof.
  intros hs t [Hu Hq Hr Ha] Ht. unfold hq_top in Ht.
  pose proof (root_min QT (hs_store hs) (hs_q hs) Hq) as RM. clear Hq.
  destruct (hs_q hs) as [|p q0]; [discriminate|]. injection Ht as Ht.
  destruct (RM ltac:(discriminate)) as [t' [A [B M]]].
  cbn [nth] in A. unfold st_getd in Ht. rewrite A in Ht. subst t'.
  pose proof (st_get_pk _ _ _ A) as Hp. split; [rewrite Hp; exact A|]. split; [exact B|].
  split; [cbn [nth]; symmetry; exact Hp|exact M].
Qed.

(* ------------------------------------------------------------------ retries.LowWatermark *)
Lemma hq_lwm_spec : forall hs, HInv hs ->
  exists v, hq_low_watermark hs = (v, hs, 0%nat) /\
    (hs_store hs = [] -> v = 0) /\
    (hs_store hs <> [] -> (exists it, In it (hs_store hs) /\ hi_orig it = v) /\
                          forall it, In it (hs_store hs) -> v <= hi_orig it).
Proof.
  intros hs [Hu Hq Hr Ha]. unfold hq_low_watermark. cbn [hq_lwm_loop].
  pose proof (root_min QR (hs_store hs) (hs_r hs) Hr) as RM.
  assert (Hin : forall pk, queued QR (hs_store hs) pk <-> In pk (hs_r hs)) by (intro pk; apply (queued_in QR (hs_store hs, hs_r hs) pk (proj1 Hr))).
  clear Hr. destruct (hs_r hs) as [|top r0].
  - exists 0. split; [reflexivity|]. split; [reflexivity|]. intro Hne. exfalso.
    destruct (hs_store hs) as [|a st] eqn:Es; [congruence|].
    assert (X : queued QR (a :: st) (hi_pk a)).
    { apply (Ha (hi_pk a) a). cbn [st_get]. rewrite N.eqb_refl. reflexivity. }
    apply Hin in X. destruct X.
  - destruct (RM ltac:(discriminate)) as [t [A [B M]]].
    cbn [nth] in A. rewrite A. exists (hi_orig t). split; [reflexivity|]. split.
    + intro Es. rewrite Es in A. discriminate.
    + intros _. split; [exists t; split; [apply (st_get_in _ _ _ A)|reflexivity]|].
      intros it Hin'. pose proof (st_get_uniq _ _ Hu Hin') as G.
      destruct (Ha _ _ G) as [x [X Y]]. rewrite G in X. injection X as X. subst x. apply (M _ _ G Y).
Qed.

(* ------------------------------------------------------------------ the operations of the queue *)
Inductive hop :=
  | HAdd (o : obj) (rev orig : N) (del : bool) (now : N)
  | HPop
  | HClear (pk : N)
  | HLwm.

Definition apply_hop (hs : hstate) (op : hop) : hstate :=
  match op with
  | HAdd o rev orig del now => hq_add hs o rev orig del now
  | HPop => match hq_pop hs with Some hs' => hs' | None => hs end
  | HClear pk => hq_clear hs pk
  | HLwm => snd (fst (hq_low_watermark hs))
  end.

Lemma HInv_apply : forall hs op, HInv hs -> HInv (apply_hop hs op).
Proof.
  intros hs [o rev orig del now| |pk|] H; cbn [apply_hop].
  - apply (hq_add_spec hs o rev orig del now H).
  - destruct (hs_q hs) as [|p q0] eqn:Eq.
    + unfold hq_pop. rewrite Eq. exact H.
    + destruct (hq_pop_spec hs H ltac:(rewrite Eq; discriminate)) as [hs' [A [B _]]]. rewrite A. exact B.
  - destruct (st_get pk (hs_store hs)) as [it|] eqn:Eg.
    + apply (hq_clear_spec hs pk it H Eg).
    + rewrite (hq_clear_absent hs pk Eg). exact H.
  - destruct (hq_lwm_spec hs H) as [v [A _]]. rewrite A. exact H.
Qed.

(* every state reachable from newRetries by Add / Pop / Clear / LowWatermark *)
Definition hreach (hs : hstate) : Prop := exists a b ops, hs = fold_left apply_hop ops (hq_new a b).

Lemma HInv_reach : forall hs, hreach hs -> HInv hs.
Proof.
  intros hs [a [b [ops E]]]. subst hs. generalize (HInv_new a b). generalize (hq_new a b).
  induction ops as [|op ops IH]; intros hs H; cbn [fold_left]; [exact H|]. apply IH. apply HInv_apply. exact H.
Qed.

(* the lazy-deletion loop of LowWatermark never pops in a reachable state *)
Lemma lwm_never_pops : forall hs, hreach hs -> snd (hq_low_watermark hs) = 0%nat /\ snd (fst (hq_low_watermark hs)) = hs.
Proof. intros hs H. destruct (hq_lwm_spec hs (HInv_reach hs H)) as [v [A _]]. rewrite A. split; reflexivity. Qed.

(* (b) of the invariant in the words of retries.go: item.index is the item's position in queue.items
   when it is there and -1 otherwise; the same for revIndex and revQueue.items *)
Lemma HInv_index : forall hs pk it, HInv hs -> st_get pk (hs_store hs) = Some it ->
  (forall i, (i < length (hs_q hs))%nat -> (nth i (hs_q hs) 0 = pk <-> hi_index it = Z.of_nat i)) /\
  (~ In pk (hs_q hs) <-> hi_index it = (-1)%Z) /\
  (forall i, (i < length (hs_r hs))%nat -> (nth i (hs_r hs) 0 = pk <-> hi_revIndex it = Z.of_nat i)) /\
  In pk (hs_r hs) /\ hi_revIndex it <> (-1)%Z.
Proof.
  intros hs pk it [Hu Hq Hr Ha] Hg.
  assert (G : forall w arr, idx_ok w (hs_store hs, arr) ->
            (forall i, (i < length arr)%nat -> (nth i arr 0 = pk <-> get_idx w it = Z.of_nat i)) /\
            (~ In pk arr <-> get_idx w it = (-1)%Z)).
  { intros w arr Hok. split.
    - intros i Hi. split.
      + intro Hn. destruct Hok as [H1 _]. cbn [fst snd] in H1. destruct (H1 i Hi) as [a [A B]].
        rewrite Hn, Hg in A. injection A as A. subst a. exact B.
      + intro Hx. destruct (idx_cases w _ _ pk it Hok Hg) as [E|[j [E [Hj Hn]]]]; [lia|].
        assert (i = j) by lia. subst j. exact Hn.
    - rewrite <- (queued_in w (hs_store hs, arr) pk Hok). cbn [fst]. split.
      + intro X. destruct (Z.eq_dec (get_idx w it) (-1)) as [E|E]; [exact E|]. exfalso. apply X. exists it. split; assumption.
      + intros E [a [A B]]. rewrite Hg in A. injection A as A. subst a. contradiction. }
  destruct (G QT (hs_q hs) (proj1 Hq)) as [G1 G2]. destruct (G QR (hs_r hs) (proj1 Hr)) as [G3 G4]. cbn [get_idx] in *.
  split; [exact G1|]. split; [exact G2|]. split; [exact G3|].
  pose proof (Ha pk it Hg) as X. split.
  - apply (queued_in QR (hs_store hs, hs_r hs) pk (proj1 Hr)). exact X.
  - destruct X as [a [A B]]. rewrite Hg in A. injection A as A. subst a. exact B.
Qed.

(* (c) of the invariant: in both arrays a parent is not greater than its children *)
Lemma HInv_order : forall hs, HInv hs ->
  (forall j, (0 < j < length (hs_q hs))%nat ->
     hi_at (st_getd (nth (Nat.div (j - 1) 2) (hs_q hs) 0) (hs_store hs)) <= hi_at (st_getd (nth j (hs_q hs) 0) (hs_store hs))) /\
  (forall j, (0 < j < length (hs_r hs))%nat ->
     hi_orig (st_getd (nth (Nat.div (j - 1) 2) (hs_r hs) 0) (hs_store hs)) <= hi_orig (st_getd (nth j (hs_r hs) 0) (hs_store hs))).
Proof. intros hs [Hu [_ Hq] [_ Hr] Ha]. split; intros j Hj; [apply (Hq j Hj)|apply (Hr j Hj)]. Qed.

(* ------------------------------------------------------------------ Pop and Clear in terms of the arrays *)
Lemma HInv_queued_q : forall hs pk, HInv hs -> (queued QT (hs_store hs) pk <-> In pk (hs_q hs)).
Proof. intros hs pk H. apply (queued_in QT (hs_store hs, hs_q hs) pk (proj1 (hv_q _ H))). Qed.
Lemma HInv_queued_r : forall hs pk, HInv hs -> (queued QR (hs_store hs) pk <-> In pk (hs_r hs)).
Proof. intros hs pk H. apply (queued_in QR (hs_store hs, hs_r hs) pk (proj1 (hv_r _ H))). Qed.

(* Pop takes exactly the head out of queue.items; the item stays in the map and in revQueue.items, and
   nothing but index fields changes *)
Lemma hq_pop_removes_top : forall hs t, HInv hs -> hq_top hs = Some t ->
  exists hs', hq_pop hs = Some hs' /\ HInv hs' /\
    (forall pk, In pk (hs_q hs') <-> pk <> hi_pk t /\ In pk (hs_q hs)) /\
    S (length (hs_q hs')) = length (hs_q hs) /\
    hs_r hs' = hs_r hs /\ map (erase QT) (hs_store hs') = map (erase QT) (hs_store hs).
Proof.
  intros hs t H Et.
  assert (Hne : hs_q hs <> []) by (unfold hq_top in Et; destruct (hs_q hs); discriminate).
  destruct (hq_pop_spec hs H Hne) as [hs' [Ep [Hinv [[_ [Hlen [Her Hqd]]] [Hr _]]]]]. cbn [fst snd] in *.
  destruct (hq_top_min hs t H Et) as [_ [_ [Tn _]]]. rewrite Tn in Hqd.
  exists hs'. split; [exact Ep|]. split; [exact Hinv|]. split; [|split; [exact Hlen|split; [exact Hr|exact Her]]].
  intro pk. rewrite <- (HInv_queued_q hs' pk Hinv), <- (HInv_queued_q hs pk H). apply Hqd.
Qed.

(* Clear removes exactly the item of pk from the map and from both arrays; both guards hold *)
Lemma hq_clear_exact : forall hs pk it, HInv hs -> st_get pk (hs_store hs) = Some it ->
  (In pk (hs_q hs) -> clear_guard (hi_index it) (hs_q hs) pk = true) /\
  clear_guard (hi_revIndex it) (hs_r hs) pk = true /\
  HInv (hq_clear hs pk) /\
  st_get pk (hs_store (hq_clear hs pk)) = None /\
  (forall pk', In pk' (hs_q (hq_clear hs pk)) <-> pk' <> pk /\ In pk' (hs_q hs)) /\
  (forall pk', In pk' (hs_r (hq_clear hs pk)) <-> pk' <> pk /\ In pk' (hs_r hs)) /\
  map erase2 (hs_store (hq_clear hs pk)) = map erase2 (st_del pk (hs_store hs)).
Proof.
  intros hs pk it H Hg. destruct (hq_clear_spec hs pk it H Hg) as [G1 [G2 [Hinv [Her [Hqd _]]]]].
  split.
  - intro Hin. rewrite G1. apply (HInv_queued_q hs pk H) in Hin. destruct Hin as [a [A B]].
    rewrite Hg in A. injection A as A. subst a. cbn [get_idx] in B.
    destruct (hi_index it =? -1)%Z eqn:E; [apply Z.eqb_eq in E; contradiction|reflexivity].
  - split; [exact G2|]. split; [exact Hinv|]. split; [|split; [|split; [|exact Her]]].
    + destruct (st_get pk (hs_store (hq_clear hs pk))) as [a|] eqn:Ea; [|reflexivity]. exfalso.
      destruct (hv_allrev _ Hinv pk a Ea) as [x X]. assert (Y : queued QR (hs_store (hq_clear hs pk)) pk) by (exists x; exact X).
      apply Hqd in Y. destruct Y as [Y _]. congruence.
    + intro pk'. rewrite <- (HInv_queued_q _ pk' Hinv), <- (HInv_queued_q hs pk' H). apply Hqd.
    + intro pk'. rewrite <- (HInv_queued_r _ pk' Hinv), <- (HInv_queued_r hs pk' H). apply Hqd.
Qed.

(* revisions of changes are positive: LowWatermark = 0 exactly when no item awaits a retry *)
Lemma hq_lwm_zero_iff : forall hs, HInv hs -> (forall it, In it (hs_store hs) -> 0 < hi_orig it) ->
  (fst (fst (hq_low_watermark hs)) = 0 <-> hs_store hs = []).
Proof.
  intros hs H Hpos. destruct (hq_lwm_spec hs H) as [v [A [B C]]]. rewrite A. cbn [fst]. split; [|exact B].
  intro Ev. destruct (hs_store hs) as [|a st] eqn:Es; [reflexivity|]. exfalso.
  destruct (C ltac:(discriminate)) as [[it [Iin Io]] _]. specialize (Hpos it Iin). lia.
Qed.
