(* Reconciler/RetriesProofs.v — proofs about the retry queue model (Retries.v): backoff arithmetic,
   item bookkeeping, low watermark, timer re-arming. *)
From Coq Require Import List NArith Bool Lia ZifyN ZifyBool.
From SV Require Import Reconciler.Retries.
Import ListNotations.
Open Scope N_scope.

(* ------------------------------------------------------------------ backoff arithmetic (C16) *)
Lemma pow2_ge_1 : forall n, 1 <= 2 ^ n.
Proof.
  intro n. induction n as [|n IH] using N.peano_ind.
  - cbn. lia.
  - rewrite N.pow_succ_r'. lia.
Qed.

Lemma pow2_mono : forall n m, n <= m -> 2 ^ n <= 2 ^ m.
Proof. intros n m H. apply N.pow_le_mono_r; lia. Qed.

Lemma duration_le_max : forall bmin bmax n, duration bmin bmax n <= bmax.
Proof.
  intros bmin bmax n. unfold duration.
  destruct (bmax <? bmin * 2 ^ n) eqn:E.
  - lia.
  - apply N.ltb_ge in E. exact E.
Qed.

Lemma duration_ge_min : forall bmin bmax n, bmin <= bmax -> bmin <= duration bmin bmax n.
Proof.
  intros bmin bmax n H. unfold duration.
  destruct (bmax <? bmin * 2 ^ n) eqn:E.
  - exact H.
  - pose proof (pow2_ge_1 n) as P. nia.
Qed.

Lemma duration_mono : forall bmin bmax n m, n <= m -> duration bmin bmax n <= duration bmin bmax m.
Proof.
  intros bmin bmax n m H. unfold duration.
  pose proof (pow2_mono n m H) as P.
  assert (Q : bmin * 2 ^ n <= bmin * 2 ^ m) by nia.
  destruct (bmax <? bmin * 2 ^ n) eqn:E1; destruct (bmax <? bmin * 2 ^ m) eqn:E2;
    try apply N.ltb_lt in E1; try apply N.ltb_ge in E1; try apply N.ltb_lt in E2; try apply N.ltb_ge in E2; lia.
Qed.

(* exponential until the cap: below the cap the wait doubles *)
Lemma duration_doubles : forall bmin bmax n,
  bmin * 2 ^ (n + 1) <= bmax -> duration bmin bmax (n + 1) = 2 * duration bmin bmax n.
Proof.
  intros bmin bmax n H. unfold duration.
  assert (P : 2 ^ (n + 1) = 2 * 2 ^ n) by (rewrite N.add_1_r, N.pow_succ_r'; reflexivity).
  rewrite P in *.
  destruct (bmax <? bmin * (2 * 2 ^ n)) eqn:E1; [apply N.ltb_lt in E1; lia|].
  destruct (bmax <? bmin * 2 ^ n) eqn:E2; [apply N.ltb_lt in E2; nia|]. lia.
Qed.

(* ------------------------------------------------------------------ list lemmas *)
Lemma in_remove_item : forall pk l j, In j (remove_item pk l) -> In j l /\ ri_pk j <> pk.
Proof.
  intros pk l j. induction l as [|i r IH]; cbn [remove_item]; intro H.
  - destruct H.
  - destruct (ri_pk i =? pk) eqn:E.
    + destruct (IH H) as [A B]. split; [right; exact A|exact B].
    + destruct H as [H|H].
      * subst j. split; [left; reflexivity|apply N.eqb_neq; exact E].
      * destruct (IH H) as [A B]. split; [right; exact A|exact B].
Qed.

Lemma in_remove_item_intro : forall pk l j, In j l -> ri_pk j <> pk -> In j (remove_item pk l).
Proof.
  intros pk l j. induction l as [|i r IH]; cbn [remove_item]; intros H Hn.
  - destruct H.
  - destruct H as [H|H].
    + subst i. apply N.eqb_neq in Hn. rewrite Hn. left. reflexivity.
    + destruct (ri_pk i =? pk); [apply IH; assumption|right; apply IH; assumption].
Qed.

Lemma in_put_item : forall it l j, In j (put_item it l) -> j = it \/ In j l.
Proof.
  intros it l j. induction l as [|i r IH]; cbn [put_item]; intro H.
  - destruct H as [H|[]]. left. symmetry. exact H.
  - destruct (ri_pk i =? ri_pk it).
    + destruct H as [H|H]; [left; symmetry; exact H|right; right; exact H].
    + destruct H as [H|H]; [right; left; exact H|].
      destruct (IH H) as [A|A]; [left; exact A|right; right; exact A].
Qed.

Lemma find_item_remove_same : forall pk l, find_item pk (remove_item pk l) = None.
Proof.
  intros pk l. induction l as [|i r IH]; cbn [remove_item find_item]; [reflexivity|].
  destruct (ri_pk i =? pk) eqn:E; [exact IH|]. cbn [find_item]. rewrite E. exact IH.
Qed.

Lemma find_item_remove_other : forall pk pk' l, pk' <> pk -> find_item pk' (remove_item pk l) = find_item pk' l.
Proof.
  intros pk pk' l Hn. induction l as [|i r IH]; cbn [remove_item find_item]; [reflexivity|].
  destruct (ri_pk i =? pk) eqn:E.
  - apply N.eqb_eq in E. destruct (ri_pk i =? pk') eqn:E2; [apply N.eqb_eq in E2; congruence|exact IH].
  - cbn [find_item]. destruct (ri_pk i =? pk'); [reflexivity|exact IH].
Qed.

Lemma find_item_put_same : forall it l, find_item (ri_pk it) (put_item it l) = Some it.
Proof.
  intros it l. induction l as [|i r IH]; cbn [put_item find_item].
  - rewrite N.eqb_refl. reflexivity.
  - destruct (ri_pk i =? ri_pk it) eqn:E; cbn [find_item].
    + rewrite N.eqb_refl. reflexivity.
    + rewrite E. exact IH.
Qed.

Lemma find_item_put_other : forall it l pk, pk <> ri_pk it -> find_item pk (put_item it l) = find_item pk l.
Proof.
  intros it l pk Hn. induction l as [|i r IH]; cbn [put_item find_item].
  - destruct (ri_pk it =? pk) eqn:E; [apply N.eqb_eq in E; congruence|reflexivity].
  - destruct (ri_pk i =? ri_pk it) eqn:E; cbn [find_item].
    + apply N.eqb_eq in E. rewrite E.
      destruct (ri_pk it =? pk) eqn:E2; [apply N.eqb_eq in E2; congruence|reflexivity].
    + destruct (ri_pk i =? pk); [reflexivity|exact IH].
Qed.

Lemma find_item_in : forall pk l it, find_item pk l = Some it -> In it l /\ ri_pk it = pk.
Proof.
  intros pk l it. induction l as [|i r IH]; cbn [find_item]; intro H; [discriminate|].
  destruct (ri_pk i =? pk) eqn:E.
  - injection H as H. subst i. split; [left; reflexivity|apply N.eqb_eq; exact E].
  - destruct (IH H) as [A B]. split; [right; exact A|exact B].
Qed.

(* ------------------------------------------------------------------ the head of the retryAt queue *)
Lemma top_of_spec : forall l t, top_of l = Some t ->
  In t l /\ ri_inq t = true /\ forall j, In j l -> ri_inq j = true -> ri_at t <= ri_at j.
Proof.
  induction l as [|i r IH]; cbn [top_of]; intros t H; [discriminate|].
  destruct (top_of r) as [j0|] eqn:Er.
  - destruct (IH j0 eq_refl) as [A [B C]].
    destruct (ri_inq i && (ri_at i <=? ri_at j0)) eqn:E; injection H as H; subst t.
    + apply andb_prop in E. destruct E as [E1 E2]. apply N.leb_le in E2.
      split; [left; reflexivity|]. split; [exact E1|].
      intros j [Hj|Hj] Hq; [subst j; lia|]. specialize (C j Hj Hq). lia.
    + split; [right; exact A|]. split; [exact B|].
      intros j [Hj|Hj] Hq; [|apply C; assumption].
      subst j. rewrite Hq in E. cbn in E. apply N.leb_gt in E. lia.
  - destruct (ri_inq i) eqn:E; [|discriminate]. injection H as H. subst t.
    split; [left; reflexivity|]. split; [exact E|].
    intros j [Hj|Hj] Hq; [subst j; lia|].
    exfalso. clear IH E. revert Er j Hj Hq. induction r as [|x r IHr]; intros Er j Hj Hq; [destruct Hj|].
    cbn [top_of] in Er. destruct (top_of r) as [y|] eqn:Ey.
    + destruct (ri_inq x && (ri_at x <=? ri_at y)); discriminate.
    + destruct (ri_inq x) eqn:Ex; [discriminate|].
      destruct Hj as [Hj|Hj]; [subst j; congruence|]. apply (IHr eq_refl j Hj Hq).
Qed.

Lemma top_of_none : forall l, top_of l = None -> forall j, In j l -> ri_inq j = false.
Proof.
  induction l as [|i r IH]; cbn [top_of]; intros H j Hj; [destruct Hj|].
  destruct (top_of r) as [y|] eqn:Ey.
  - destruct (ri_inq i && (ri_at i <=? ri_at y)); discriminate.
  - destruct (ri_inq i) eqn:Ei; [discriminate|].
    destruct Hj as [Hj|Hj]; [subst j; exact Ei|apply IH; [reflexivity|exact Hj]].
Qed.

Lemma top_of_some_if_queued : forall l j, In j l -> ri_inq j = true -> exists t, top_of l = Some t.
Proof.
  intros l j Hj Hq. destruct (top_of l) as [t|] eqn:E; [exists t; reflexivity|].
  rewrite (top_of_none l E j Hj) in Hq. discriminate.
Qed.

(* ------------------------------------------------------------------ timer re-arm lemma (C16) *)
(* whenever an item is queued, a timer is armed (or has fired) with a deadline not after the head's
   retryAt: the wait channel closes no later than the moment the head becomes due *)
Definition timer_ok (q : retries) : Prop :=
  forall t, top_of (q_items q) = Some t -> exists d, q_timer q = Some d /\ d <= ri_at t.

Lemma reset_timer_ok : forall q, timer_ok (r_reset_timer q).
Proof.
  intros q t H. unfold r_reset_timer in *. cbn [q_items q_timer] in *. rewrite H. cbn.
  exists (ri_at t). split; [reflexivity|lia].
Qed.

Lemma timer_ok_new : forall a b, timer_ok (r_new a b).
Proof. intros a b t H. cbn in H. discriminate. Qed.

Lemma pop_timer_ok : forall q, timer_ok (r_pop q).
Proof. intro q. unfold r_pop. destruct (top_of (q_items q)); apply reset_timer_ok. Qed.

Lemma add_timer_ok : forall q o rev orig del now, timer_ok q -> timer_ok (r_add q o rev orig del now).
Proof.
  intros q o rev orig del now H. unfold r_add.
  set (n := match find_item (o_pk o) (q_items q) with Some i => ri_n i + 1 | None => 1 end).
  set (it := mkItem o rev orig del (now + duration (q_min q) (q_max q) n) n true).
  unfold others_min_at.
  destruct (top_of (remove_item (o_pk o) (q_items q))) as [m|] eqn:Em; cbn [option_map].
  - destruct (ri_at it <? ri_at m) eqn:E; [apply reset_timer_ok|].
    apply N.ltb_ge in E.
    intros t Ht. cbn [q_items q_timer] in *.
    destruct (top_of_spec _ _ Em) as [Hm1 [Hm2 _]].
    destruct (in_remove_item _ _ _ Hm1) as [Hm3 _].
    destruct (top_of_some_if_queued _ _ Hm3 Hm2) as [t0 Ht0].
    destruct (H t0 Ht0) as [d [Hd1 Hd2]]. exists d. split; [exact Hd1|].
    destruct (top_of_spec _ _ Ht0) as [_ [_ Hmin0]].
    specialize (Hmin0 m Hm3 Hm2).
    destruct (top_of_spec _ _ Ht) as [Ht1 [Ht2 _]].
    destruct (in_put_item _ _ _ Ht1) as [Hx|Hx].
    + subst t. lia.
    + destruct (top_of_spec _ _ Ht0) as [_ [_ Hmin1]]. specialize (Hmin1 t Hx Ht2). lia.
  - apply reset_timer_ok.
Qed.

Lemma clear_timer_ok : forall q pk, timer_ok q -> timer_ok (r_clear q pk).
Proof.
  intros q pk H. unfold r_clear.
  destruct (find_item pk (q_items q)) as [it|] eqn:Ef; [|exact H].
  match goal with |- timer_ok (if ?c then _ else _) => destruct c end; [apply reset_timer_ok|].
  intros t Ht. cbn [q_items q_timer] in *.
  destruct (top_of_spec _ _ Ht) as [Ht1 [Ht2 _]].
  destruct (in_remove_item _ _ _ Ht1) as [Ht3 _].
  destruct (top_of_some_if_queued _ _ Ht3 Ht2) as [t0 Ht0].
  destruct (H t0 Ht0) as [d [Hd1 Hd2]]. exists d. split; [exact Hd1|].
  destruct (top_of_spec _ _ Ht0) as [_ [_ Hmin]]. specialize (Hmin t Ht3 Ht2). lia.
Qed.

(* consequence: a due head means the wait channel is closed (the idle loop wakes up) *)
Lemma due_head_fires : forall q now t, timer_ok q -> r_top q = Some t -> ri_at t <= now -> r_fired q now = true.
Proof.
  intros q now t H Ht Hd. destruct (H t Ht) as [d [Hd1 Hd2]].
  unfold r_fired. rewrite Hd1. apply N.leb_le. lia.
Qed.

(* ------------------------------------------------------------------ Add: retry time and retry count *)
Lemma items_reset_timer : forall q, q_items (r_reset_timer q) = q_items q.
Proof. reflexivity. Qed.

Lemma add_items : forall q o rev orig del now,
  q_items (r_add q o rev orig del now) =
  put_item (mkItem o rev orig del
     (now + duration (q_min q) (q_max q) (match find_item (o_pk o) (q_items q) with Some i => ri_n i + 1 | None => 1 end))
     (match find_item (o_pk o) (q_items q) with Some i => ri_n i + 1 | None => 1 end) true) (q_items q).
Proof.
  intros. unfold r_add.
  match goal with |- q_items (if ?c then _ else _) = _ => destruct c end; reflexivity.
Qed.

Lemma add_bounds : forall q o rev orig del now,
  q_min (r_add q o rev orig del now) = q_min q /\ q_max (r_add q o rev orig del now) = q_max q.
Proof.
  intros. unfold r_add.
  match goal with |- q_min (if ?c then _ else _) = _ /\ _ => destruct c end; split; reflexivity.
Qed.

(* an item that failed at time `now` with n retries is queued for now + Duration(n), n >= 1, n one more
   than before; all fields are the arguments of Add *)
Lemma add_item_spec : forall q o rev orig del now,
  exists it, find_item (o_pk o) (q_items (r_add q o rev orig del now)) = Some it /\
    ri_obj it = o /\ ri_rev it = rev /\ ri_orig it = orig /\ ri_del it = del /\ ri_inq it = true /\
    ri_n it = (match find_item (o_pk o) (q_items q) with Some i => ri_n i + 1 | None => 1 end) /\
    ri_at it = now + duration (q_min q) (q_max q) (ri_n it).
Proof.
  intros. rewrite add_items. eexists. split.
  - apply (find_item_put_same (mkItem o rev orig del _ _ true)).
  - cbn. repeat split; reflexivity.
Qed.

Lemma add_not_due_before : forall q o rev orig del now it,
  q_min q <= q_max q ->
  find_item (o_pk o) (q_items (r_add q o rev orig del now)) = Some it ->
  now + q_min q <= ri_at it /\ ri_at it <= now + q_max q /\ ri_at it = now + duration (q_min q) (q_max q) (ri_n it).
Proof.
  intros q o rev orig del now it Hmm H.
  destruct (add_item_spec q o rev orig del now) as [it' [H1 [_ [_ [_ [_ [_ [_ H7]]]]]]]].
  rewrite H1 in H. injection H as H. subst it'.
  pose proof (duration_ge_min (q_min q) (q_max q) (ri_n it) Hmm).
  pose proof (duration_le_max (q_min q) (q_max q) (ri_n it)). lia.
Qed.

Lemma add_other : forall q o rev orig del now pk, pk <> o_pk o ->
  find_item pk (q_items (r_add q o rev orig del now)) = find_item pk (q_items q).
Proof. intros. rewrite add_items. apply find_item_put_other. cbn. exact H. Qed.

(* ------------------------------------------------------------------ keys are unique *)
Definition uniq (q : retries) : Prop := NoDup (map ri_pk (q_items q)).

Lemma find_item_uniq : forall l t, NoDup (map ri_pk l) -> In t l -> find_item (ri_pk t) l = Some t.
Proof.
  induction l as [|i r IH]; intros t Hn Hin; [destruct Hin|].
  cbn [find_item]. cbn [map] in Hn. inversion Hn as [|x xs Hx Hr]; subst.
  destruct Hin as [Hin|Hin].
  - subst i. rewrite N.eqb_refl. reflexivity.
  - destruct (ri_pk i =? ri_pk t) eqn:E.
    + apply N.eqb_eq in E. exfalso. apply Hx. rewrite E. apply in_map. exact Hin.
    + apply IH; assumption.
Qed.

Lemma uniq_put_item : forall it l, NoDup (map ri_pk l) -> NoDup (map ri_pk (put_item it l)).
Proof.
  intros it l. induction l as [|i r IH]; intro Hn; cbn [put_item map].
  - constructor; [intros []|constructor].
  - cbn [map] in Hn. inversion Hn as [|x xs Hx Hr]; subst.
    destruct (ri_pk i =? ri_pk it) eqn:E; cbn [map].
    + apply N.eqb_eq in E. rewrite <- E. constructor; assumption.
    + constructor; [|apply IH; exact Hr].
      intro Hin. apply in_map_iff in Hin. destruct Hin as [j [Hj1 Hj2]].
      destruct (in_put_item _ _ _ Hj2) as [A|A].
      * subst j. apply N.eqb_neq in E. congruence.
      * apply Hx. rewrite <- Hj1. apply in_map. exact A.
Qed.

Lemma uniq_remove_item : forall pk l, NoDup (map ri_pk l) -> NoDup (map ri_pk (remove_item pk l)).
Proof.
  intros pk l. induction l as [|i r IH]; intro Hn; cbn [remove_item map]; [constructor|].
  cbn [map] in Hn. inversion Hn as [|x xs Hx Hr]; subst.
  destruct (ri_pk i =? pk); [apply IH; exact Hr|].
  cbn [map]. constructor; [|apply IH; exact Hr].
  intro Hin. apply in_map_iff in Hin. destruct Hin as [j [Hj1 Hj2]].
  destruct (in_remove_item _ _ _ Hj2) as [A _]. apply Hx. rewrite <- Hj1. apply in_map. exact A.
Qed.

Lemma uniq_new : forall a b, uniq (r_new a b).
Proof. intros. unfold uniq. cbn. constructor. Qed.
Lemma uniq_add : forall q o rev orig del now, uniq q -> uniq (r_add q o rev orig del now).
Proof. intros. unfold uniq. rewrite add_items. apply uniq_put_item. exact H. Qed.
Lemma pop_items : forall q, q_items (r_pop q) =
  match top_of (q_items q) with Some t => put_item (set_inq false t) (q_items q) | None => q_items q end.
Proof. intro q. unfold r_pop. destruct (top_of (q_items q)); reflexivity. Qed.
Lemma uniq_pop : forall q, uniq q -> uniq (r_pop q).
Proof.
  intros q H. unfold uniq. rewrite pop_items. destruct (top_of (q_items q)); [apply uniq_put_item|]; exact H.
Qed.
Lemma clear_items : forall q pk, q_items (r_clear q pk) = remove_item pk (q_items q).
Proof.
  intros q pk. unfold r_clear. destruct (find_item pk (q_items q)) as [it|] eqn:E.
  - match goal with |- q_items (if ?c then _ else _) = _ => destruct c end; reflexivity.
  - clear -E. induction (q_items q) as [|i r IH]; [reflexivity|].
    cbn [find_item] in E. cbn [remove_item]. destruct (ri_pk i =? pk); [discriminate|]. rewrite <- IH by exact E. reflexivity.
Qed.
Lemma uniq_clear : forall q pk, uniq q -> uniq (r_clear q pk).
Proof. intros. unfold uniq. rewrite clear_items. apply uniq_remove_item. exact H. Qed.

(* ------------------------------------------------------------------ numRetries only grows between Clears *)
Definition n_of (q : retries) (pk : N) : option N := option_map ri_n (find_item pk (q_items q)).
Definition orig_of (q : retries) (pk : N) : option N := option_map ri_orig (find_item pk (q_items q)).

Lemma n_of_add_same : forall q o rev orig del now,
  n_of (r_add q o rev orig del now) (o_pk o) = Some (match n_of q (o_pk o) with Some n => n + 1 | None => 1 end).
Proof.
  intros. unfold n_of. destruct (add_item_spec q o rev orig del now) as [it [H1 [_ [_ [_ [_ [_ [H7 _]]]]]]]].
  rewrite H1. cbn. rewrite H7. destruct (find_item (o_pk o) (q_items q)); reflexivity.
Qed.
Lemma n_of_add_other : forall q o rev orig del now pk, pk <> o_pk o -> n_of (r_add q o rev orig del now) pk = n_of q pk.
Proof. intros. unfold n_of. rewrite add_other by exact H. reflexivity. Qed.

Lemma pop_find : forall q pk, uniq q ->
  option_map (fun i => (ri_obj i, ri_rev i, ri_orig i, ri_del i, ri_at i, ri_n i)) (find_item pk (q_items (r_pop q))) =
  option_map (fun i => (ri_obj i, ri_rev i, ri_orig i, ri_del i, ri_at i, ri_n i)) (find_item pk (q_items q)).
Proof.
  intros q pk Hu. rewrite pop_items. destruct (top_of (q_items q)) as [t|] eqn:Et; [|reflexivity].
  destruct (top_of_spec _ _ Et) as [Hin _].
  destruct (N.eq_dec pk (ri_pk t)) as [E|E].
  - subst pk. rewrite (find_item_uniq _ _ Hu Hin).
    change (ri_pk t) with (ri_pk (set_inq false t)). rewrite find_item_put_same. reflexivity.
  - rewrite find_item_put_other by (cbn; exact E). reflexivity.
Qed.
Lemma n_of_pop : forall q pk, uniq q -> n_of (r_pop q) pk = n_of q pk.
Proof.
  intros q pk Hu. pose proof (pop_find q pk Hu) as H. unfold n_of.
  destruct (find_item pk (q_items (r_pop q))), (find_item pk (q_items q)); cbn in *; congruence.
Qed.
Lemma orig_of_pop : forall q pk, uniq q -> orig_of (r_pop q) pk = orig_of q pk.
Proof.
  intros q pk Hu. pose proof (pop_find q pk Hu) as H. unfold orig_of.
  destruct (find_item pk (q_items (r_pop q))), (find_item pk (q_items q)); cbn in *; congruence.
Qed.
Lemma n_of_clear_same : forall q pk, n_of (r_clear q pk) pk = None.
Proof. intros. unfold n_of. rewrite clear_items, find_item_remove_same. reflexivity. Qed.
Lemma n_of_clear_other : forall q pk pk', pk' <> pk -> n_of (r_clear q pk) pk' = n_of q pk'.
Proof. intros. unfold n_of. rewrite clear_items, find_item_remove_other by exact H. reflexivity. Qed.

(* summary: any queue operation other than Clear of that key leaves the retry count of a key
   unchanged or increments it *)
Inductive qop := QAdd (o : obj) (rev orig : N) (del : bool) (now : N) | QPop | QClear (pk : N).
Definition apply_qop (q : retries) (op : qop) : retries :=
  match op with
  | QAdd o rev orig del now => r_add q o rev orig del now
  | QPop => r_pop q
  | QClear pk => r_clear q pk
  end.
Lemma uniq_apply : forall q op, uniq q -> uniq (apply_qop q op).
Proof. intros q [o rev orig del now| |pk] H; cbn; [apply uniq_add|apply uniq_pop|apply uniq_clear]; exact H. Qed.
Lemma timer_ok_apply : forall q op, timer_ok q -> timer_ok (apply_qop q op).
Proof. intros q [o rev orig del now| |pk] H; cbn; [apply add_timer_ok; exact H|apply pop_timer_ok|apply clear_timer_ok; exact H]. Qed.

Lemma numretries_only_grows : forall q op pk n, uniq q -> op <> QClear pk -> n_of q pk = Some n ->
  exists n', n_of (apply_qop q op) pk = Some n' /\ n <= n'.
Proof.
  intros q op pk n Hu Hop Hn. destruct op as [o rev orig del now| |pk']; cbn [apply_qop].
  - destruct (N.eq_dec pk (o_pk o)) as [E|E].
    + subst pk. rewrite n_of_add_same, Hn. eexists. split; [reflexivity|lia].
    + rewrite n_of_add_other by exact E. exists n. split; [exact Hn|lia].
  - rewrite n_of_pop by exact Hu. exists n. split; [exact Hn|lia].
  - assert (pk <> pk') by congruence. rewrite n_of_clear_other by exact H. exists n. split; [exact Hn|lia].
Qed.

(* ------------------------------------------------------------------ low watermark *)
Lemma min_orig_none : forall l, min_orig l = None <-> l = [].
Proof.
  intro l. destruct l as [|i r]; cbn [min_orig]; [split; reflexivity|].
  destruct (min_orig r); split; discriminate.
Qed.

Lemma min_orig_spec : forall l m, min_orig l = Some m ->
  (exists i, In i l /\ ri_orig i = m) /\ forall j, In j l -> m <= ri_orig j.
Proof.
  induction l as [|i r IH]; cbn [min_orig]; intros m H; [discriminate|].
  destruct (min_orig r) as [m0|] eqn:E.
  - injection H as H. destruct (IH m0 eq_refl) as [[x [Hx1 Hx2]] Hmin].
    split.
    + destruct (N.min_spec (ri_orig i) m0) as [[A B]|[A B]].
      * exists i. split; [left; reflexivity|lia].
      * exists x. split; [right; exact Hx1|lia].
    + intros j [Hj|Hj]; [subst j; lia|]. specialize (Hmin j Hj). lia.
  - injection H as H. apply min_orig_none in E. subst r m.
    split; [exists i; split; [left; reflexivity|reflexivity]|].
    intros j [Hj|[]]. subst j. lia.
Qed.

(* LowWatermark = 0 <-> no items (revisions of changes are positive), else the minimum origRev *)
Lemma low_watermark_zero_iff : forall q, (forall i, In i (q_items q) -> 0 < ri_orig i) ->
  (r_low_watermark q = 0 <-> q_items q = []).
Proof.
  intros q Hpos. unfold r_low_watermark. destruct (min_orig (q_items q)) as [m|] eqn:E.
  - destruct (min_orig_spec _ _ E) as [[x [Hx1 Hx2]] _]. specialize (Hpos x Hx1).
    split; intro H; [lia|]. rewrite H in Hx1. destruct Hx1.
  - apply min_orig_none in E. split; intro; [exact E|reflexivity].
Qed.

Definition lwm_is_min (q : retries) : Prop :=
  (exists i, In i (q_items q) /\ ri_orig i = r_low_watermark q) /\
  (forall j, In j (q_items q) -> r_low_watermark q <= ri_orig j).

Lemma low_watermark_is_min : forall q, q_items q <> nil -> lwm_is_min q.
Proof.
  intros q Hne. unfold lwm_is_min, r_low_watermark. destruct (min_orig (q_items q)) as [m|] eqn:E.
  - apply min_orig_spec. exact E.
  - apply min_orig_none in E. contradiction.
Qed.
