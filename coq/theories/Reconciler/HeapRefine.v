(* Reconciler/HeapRefine.v — the heap-level model (Heap.v) refines the list model (Retries.v): the same items,
   low watermark and head retryAt always; the same head item when the minimal retryAt is unique; the same
   timer decisions up to ties (r_add_b / r_clear_b / r_pop_t: Retries.v's operations with the tie-dependent
   choice made explicit), hence exactly Retries.v's results on runs without ties (R_step). *)
From Coq Require Import List NArith ZArith Bool Lia ZifyN ZifyNat ZifyBool Wf_nat.
From SV Require Import Reconciler.Retries Reconciler.RetriesProofs Reconciler.Heap Reconciler.HeapProofs Reconciler.HeapInv.
Import ListNotations.
Open Scope N_scope.

(* ------------------------------------------------------------------ abstraction *)
(* ri_inq = "index >= 0: still in the retryAt queue" *)
Definition abs_item (it : hitem) : ritem :=
  mkItem (hi_obj it) (hi_rev it) (hi_orig it) (hi_del it) (hi_at it) (hi_n it) (0 <=? hi_index it)%Z.

(* forget the two arrays and the index fields *)
Definition abs (hs : hstate) : retries :=
  mkRet (map abs_item (hs_store hs)) (hs_timer hs) (hs_min hs) (hs_max hs).

Lemma pk_abs_item : forall it, ri_pk (abs_item it) = hi_pk it.
Proof. reflexivity. Qed.
Lemma find_abs : forall pk st, find_item pk (map abs_item st) = option_map abs_item (st_get pk st).
Proof.
  intros pk st. induction st as [|a r IH]; cbn [map find_item st_get]; [reflexivity|].
  rewrite pk_abs_item. destruct (hi_pk a =? pk); [reflexivity|exact IH].
Qed.
Lemma pks_abs : forall st, map ri_pk (map abs_item st) = map hi_pk st.
Proof. intro st. rewrite map_map. reflexivity. Qed.
Lemma abs_item_eq : forall a b, erase2 a = erase2 b -> (0 <=? hi_index a)%Z = (0 <=? hi_index b)%Z -> abs_item a = abs_item b.
Proof.
  intros [o1 r1 g1 d1 i1 ri1 a1 n1] [o2 r2 g2 d2 i2 ri2 a2 n2] H Hi. cbn in H. injection H as <- <- <- <- <- <-.
  unfold abs_item. cbn in *. rewrite Hi. reflexivity.
Qed.
Lemma inq_queued : forall st q pk it, idx_ok QT (st, q) -> st_get pk st = Some it ->
  ((0 <=? hi_index it)%Z = true <-> queued QT st pk).
Proof.
  intros st q pk it Hok Hg. destruct (idx_cases QT st q pk it Hok Hg) as [E|[i [E _]]]; cbn [get_idx] in E.
  - rewrite E. split; [discriminate|]. intros [a [A B]]. rewrite Hg in A. injection A as A. subst a. cbn in B. contradiction.
  - rewrite E. split; [intros _; exists it; split; [exact Hg|cbn; lia]|intros _; apply Z.leb_le; lia].
Qed.

Lemma map_get_gen : forall (f : hitem -> hitem), (forall it, hi_pk (f it) = hi_pk it) ->
  forall st st' pk, map f st' = map f st -> option_map f (st_get pk st') = option_map f (st_get pk st).
Proof.
  intros f Hf st. induction st as [|a r IH]; intros st' pk H; destruct st' as [|a' r']; cbn [map] in H; try discriminate; [reflexivity|].
  injection H as Ha Hr. cbn [st_get]. assert (E : hi_pk a' = hi_pk a) by (rewrite <- (Hf a'), <- (Hf a), Ha; reflexivity).
  rewrite E. destruct (hi_pk a =? pk); [cbn; rewrite Ha; reflexivity|apply IH; exact Hr].
Qed.

(* lookups of the abstraction are determined by erase2 and by membership in queue *)
Lemma abs_lookup_eq : forall st q st' q' pk, idx_ok QT (st, q) -> idx_ok QT (st', q') ->
  option_map erase2 (st_get pk st') = option_map erase2 (st_get pk st) ->
  (queued QT st' pk <-> queued QT st pk) ->
  option_map abs_item (st_get pk st') = option_map abs_item (st_get pk st).
Proof.
  intros st q st' q' pk Hok Hok' He Hq.
  destruct (st_get pk st') as [a'|] eqn:Ea', (st_get pk st) as [a|] eqn:Ea; cbn [option_map] in *; try discriminate; [|reflexivity].
  f_equal. apply abs_item_eq; [congruence|].
  pose proof (inq_queued st q pk a Hok Ea) as I. pose proof (inq_queued st' q' pk a' Hok' Ea') as I'.
  destruct (0 <=? hi_index a')%Z, (0 <=? hi_index a)%Z; try reflexivity; exfalso.
  - assert (X : false = true) by (apply I; apply Hq; apply I'; reflexivity). discriminate.
  - assert (X : false = true) by (apply I'; apply Hq; apply I; reflexivity). discriminate.
Qed.

(* ------------------------------------------------------------------ lists with unique keys *)
Lemma find_item_none : forall pk l, ~ In pk (map ri_pk l) -> find_item pk l = None.
Proof.
  intros pk l. induction l as [|a r IH]; cbn [map find_item]; intro H; [reflexivity|].
  destruct (ri_pk a =? pk) eqn:E; [apply N.eqb_eq in E; exfalso; apply H; left; exact E|]. apply IH. intro X. apply H. right. exact X.
Qed.

Lemma items_ext : forall l l', map ri_pk l = map ri_pk l' -> NoDup (map ri_pk l) ->
  (forall pk, find_item pk l = find_item pk l') -> l = l'.
Proof.
  induction l as [|a r IH]; intros l' Hk Hn Hf; destruct l' as [|a' r']; cbn [map] in Hk; try discriminate; [reflexivity|].
  injection Hk as Hka Hkr. cbn [map] in Hn. inversion Hn as [|x xs Hx Hr]; subst.
  pose proof (Hf (ri_pk a)) as Ha. cbn [find_item] in Ha. rewrite <- Hka, N.eqb_refl in Ha. injection Ha as Ha. subst a'.
  f_equal. apply IH; [exact Hkr|exact Hr|].
  intro pk. specialize (Hf pk). cbn [find_item] in Hf. destruct (ri_pk a =? pk) eqn:E; [|exact Hf].
  apply N.eqb_eq in E. subst pk. rewrite (find_item_none _ _ Hx). rewrite Hkr in Hx. rewrite (find_item_none _ _ Hx). reflexivity.
Qed.

Lemma put_item_pks : forall it l, map ri_pk (put_item it l) =
  match find_item (ri_pk it) l with Some _ => map ri_pk l | None => map ri_pk l ++ [ri_pk it] end.
Proof.
  intros it l. induction l as [|a r IH]; cbn [put_item find_item map app]; [reflexivity|].
  destruct (ri_pk a =? ri_pk it) eqn:E; cbn [map]; [apply N.eqb_eq in E; rewrite E; reflexivity|].
  rewrite IH. destruct (find_item (ri_pk it) r); reflexivity.
Qed.

Lemma remove_item_pks : forall pk l, map ri_pk (remove_item pk l) = filter (fun k => negb (k =? pk)) (map ri_pk l).
Proof.
  intros pk l. induction l as [|a r IH]; cbn [remove_item map filter]; [reflexivity|].
  destruct (ri_pk a =? pk); cbn [negb map]; rewrite IH; reflexivity.
Qed.

Lemma erase2_pks : forall st st', map erase2 st' = map erase2 st -> map hi_pk st' = map hi_pk st.
Proof.
  intros st st' H.
  assert (E : forall l, map hi_pk l = map hi_pk (map erase2 l)).
  { intro l. rewrite map_map. apply map_ext. intro a. rewrite pk_erase2. reflexivity. }
  rewrite (E st'), (E st), H. reflexivity.
Qed.

(* ------------------------------------------------------------------ Add: the items *)
Lemma abs_add_items : forall hs o rev orig del now, HInv hs ->
  q_items (abs (hq_add hs o rev orig del now)) = q_items (r_add (abs hs) o rev orig del now).
Proof.
  intros hs o rev orig del now H.
  destruct (hq_add_spec hs o rev orig del now H) as [Hinv [Hpks [Hoth [[it' [Hg' Eit']] [Hqd _]]]]].
  rewrite add_items. cbn [abs q_items q_min q_max].
  set (hs' := hq_add hs o rev orig del now) in *.
  set (n := match find_item (o_pk o) (map abs_item (hs_store hs)) with Some i => ri_n i + 1 | None => 1 end).
  set (new := mkItem o rev orig del (now + duration (hs_min hs) (hs_max hs) n) n true).
  assert (Hnew : abs_item it' = new).
  { assert (Hq' : (0 <=? hi_index it')%Z = true).
    { apply (inq_queued _ _ _ _ (proj1 (hv_q _ Hinv)) Hg'). apply Hqd. left. reflexivity. }
    subst new n. rewrite find_abs.
    destruct it' as [o1 r1 g1 d1 i1 ri1 a1 n1]. cbn in Eit'. unfold abs_item. cbn [hi_obj hi_rev hi_orig hi_del hi_at hi_n hi_index] in *.
    rewrite Hq'. injection Eit' as -> -> -> -> -> ->.
    destruct (st_get (o_pk o) (hs_store hs)) as [a|]; reflexivity. }
  apply items_ext.
  - rewrite pks_abs, put_item_pks, pks_abs, Hpks. change (ri_pk new) with (o_pk o). rewrite find_abs.
    destruct (st_get (o_pk o) (hs_store hs)); reflexivity.
  - rewrite pks_abs. apply (hv_uniq _ Hinv).
  - intro pk. rewrite find_abs. destruct (N.eq_dec pk (o_pk o)) as [E|E].
    + subst pk. rewrite Hg'. cbn [option_map]. rewrite Hnew. symmetry. apply (find_item_put_same new).
    + rewrite find_item_put_other by exact E. rewrite find_abs.
      apply (abs_lookup_eq _ (hs_q hs) _ (hs_q hs')); [apply (hv_q _ H)|apply (hv_q _ Hinv)|apply Hoth; exact E|].
      rewrite Hqd. split; [intros [X|X]; [congruence|exact X]|intro X; right; exact X].
Qed.

(* ------------------------------------------------------------------ Clear: the items *)
Lemma abs_clear_items : forall hs pk, HInv hs -> q_items (abs (hq_clear hs pk)) = q_items (r_clear (abs hs) pk).
Proof.
  intros hs pk H. rewrite clear_items. cbn [abs q_items].
  destruct (st_get pk (hs_store hs)) as [it|] eqn:Eg.
  - destruct (hq_clear_spec hs pk it H Eg) as [_ [_ [Hinv [Her [Hqd _]]]]].
    apply items_ext.
    + rewrite pks_abs, remove_item_pks, pks_abs, (erase2_pks _ _ Her). apply st_del_pks.
    + rewrite pks_abs. apply (hv_uniq _ Hinv).
    + intro pk'. rewrite find_abs. destruct (N.eq_dec pk' pk) as [E|E].
      * subst pk'. rewrite find_item_remove_same.
        pose proof (map_get_gen erase2 pk_erase2 _ _ pk Her) as X. rewrite st_get_del, N.eqb_refl in X.
        destruct (st_get pk (hs_store (hq_clear hs pk))); [discriminate|reflexivity].
      * rewrite find_item_remove_other by exact E. rewrite find_abs.
        apply (abs_lookup_eq _ (hs_q hs) _ (hs_q (hq_clear hs pk))); [apply (hv_q _ H)|apply (hv_q _ Hinv)| |].
        { rewrite (map_get_gen erase2 pk_erase2 _ _ pk' Her), st_get_del.
          apply N.eqb_neq in E. rewrite N.eqb_sym, E. reflexivity. }
        { rewrite Hqd. split; [intros [_ X]; exact X|intro X; split; [exact E|exact X]]. }
  - rewrite (hq_clear_absent hs pk Eg).
    assert (X : find_item pk (map abs_item (hs_store hs)) = None) by (rewrite find_abs, Eg; reflexivity).
    clear -X. induction (map abs_item (hs_store hs)) as [|a r IH]; [reflexivity|].
    cbn [find_item] in X. cbn [remove_item]. destruct (ri_pk a =? pk); [discriminate|]. rewrite <- IH by exact X. reflexivity.
Qed.

(* ------------------------------------------------------------------ Top *)
Lemma in_abs_store : forall hs j, HInv hs -> In j (map abs_item (hs_store hs)) ->
  exists it, st_get (ri_pk j) (hs_store hs) = Some it /\ j = abs_item it.
Proof.
  intros hs j H Hin. apply in_map_iff in Hin. destruct Hin as [it [A B]]. exists it. subst j. split; [|reflexivity].
  rewrite pk_abs_item. apply st_get_uniq; [apply (hv_uniq _ H)|exact B].
Qed.

Lemma abs_inq : forall hs pk it, HInv hs -> st_get pk (hs_store hs) = Some it ->
  (ri_inq (abs_item it) = true <-> hi_index it <> (-1)%Z).
Proof.
  intros hs pk it H Hg. cbn [abs_item ri_inq].
  destruct (idx_cases QT _ _ pk it (proj1 (hv_q _ H)) Hg) as [E|[i [E _]]]; cbn [get_idx] in E; rewrite E.
  - split; [discriminate|congruence].
  - split; [lia|intros _; apply Z.leb_le; lia].
Qed.

(* the head of the heap has the retryAt of the list model's head, whatever the ties *)
Lemma abs_top_at : forall hs, HInv hs -> option_map hi_at (hq_top hs) = option_map ri_at (r_top (abs hs)).
Proof.
  intros hs H. unfold r_top. cbn [abs q_items].
  destruct (hq_top hs) as [t|] eqn:Et; destruct (top_of (map abs_item (hs_store hs))) as [j|] eqn:Ej; cbn [option_map].
  - destruct (hq_top_min hs t H Et) as [Hg [Hi [_ Hmin]]].
    destruct (top_of_spec _ _ Ej) as [Jin [Jq Jmin]].
    destruct (in_abs_store hs j H Jin) as [x [Xg Xe]].
    f_equal. apply N.le_antisymm.
    + subst j. apply (Hmin _ x Xg). apply (abs_inq hs _ x H Xg). exact Jq.
    + specialize (Jmin (abs_item t) (in_map abs_item _ _ (st_get_in _ _ _ Hg))).
      apply Jmin. apply (abs_inq hs _ t H Hg). lia.
  - exfalso. destruct (hq_top_min hs t H Et) as [Hg [Hi _]].
    pose proof (top_of_none _ Ej (abs_item t) (in_map abs_item _ _ (st_get_in _ _ _ Hg))) as X.
    assert (Y : ri_inq (abs_item t) = true) by (apply (abs_inq hs _ t H Hg); lia). congruence.
  - exfalso. destruct (top_of_spec _ _ Ej) as [Jin [Jq _]]. destruct (in_abs_store hs j H Jin) as [x [Xg Xe]].
    apply (proj1 (hq_top_none hs H) Et (ri_pk j)). exists x. split; [exact Xg|]. subst j. apply (abs_inq hs _ x H Xg). exact Jq.
  - reflexivity.
Qed.

(* ... and it is the same item when no other queued item has the same retryAt *)
Lemma abs_top_item : forall hs t, HInv hs -> hq_top hs = Some t ->
  (forall pk it, st_get pk (hs_store hs) = Some it -> hi_index it <> (-1)%Z -> pk <> hi_pk t -> hi_at it <> hi_at t) ->
  r_top (abs hs) = Some (abs_item t).
Proof.
  intros hs t H Et Huniq. pose proof (abs_top_at hs H) as A. rewrite Et in A. cbn [option_map] in A.
  unfold r_top in *. cbn [abs q_items] in *.
  destruct (top_of (map abs_item (hs_store hs))) as [j|] eqn:Ej; cbn [option_map] in A; [|discriminate]. injection A as A.
  destruct (top_of_spec _ _ Ej) as [Jin [Jq _]]. destruct (in_abs_store hs j H Jin) as [x [Xg Xe]].
  destruct (hq_top_min hs t H Et) as [Hg _].
  destruct (N.eq_dec (ri_pk j) (hi_pk t)) as [E|E].
  - rewrite E, Hg in Xg. injection Xg as Xg. subst x. subst j. reflexivity.
  - exfalso. apply (Huniq _ x Xg); [apply (abs_inq hs _ x H Xg); subst j; exact Jq|exact E|]. subst j. cbn in A. congruence.
Qed.

(* ------------------------------------------------------------------ LowWatermark *)
Lemma abs_low_watermark : forall hs, HInv hs -> fst (fst (hq_low_watermark hs)) = r_low_watermark (abs hs).
Proof.
  intros hs H. destruct (hq_lwm_spec hs H) as [v [A [B C]]]. rewrite A. cbn [fst].
  unfold r_low_watermark. cbn [abs q_items].
  destruct (min_orig (map abs_item (hs_store hs))) as [m|] eqn:Em.
  - destruct (min_orig_spec _ _ Em) as [[j [Jin Jo]] Jmin].
    assert (Hne : hs_store hs <> []) by (intro X; rewrite X in Jin; destruct Jin).
    destruct (C Hne) as [[it [Iin Io]] Imin].
    apply in_map_iff in Jin. destruct Jin as [x [Xe Xin]]. subst j. cbn in Jo.
    apply N.le_antisymm; [rewrite <- Jo; apply Imin; exact Xin|].
    rewrite <- Io. apply (Jmin (abs_item it)). apply in_map. exact Iin.
  - apply min_orig_none in Em. apply map_eq_nil in Em. apply B. exact Em.
Qed.

(* ------------------------------------------------------------------ the list model up to ties *)
(* Retries.v decides by strict comparison of retryAt whether an added / cleared item "is the head"; the heap
   decides by position 0, which under ties may or may not be the item. r_add_b / r_clear_b / r_pop_t are
   Retries.v's operations with that choice made explicit; add_ok / clear_ok / is_head say which choices a
   heap may make. Retries.v's own functions are the instances with Retries.v's choice (r_add_is_b ...). *)
Definition is_head (l : list ritem) (t : ritem) : Prop :=
  In t l /\ ri_inq t = true /\ forall j, In j l -> ri_inq j = true -> ri_at t <= ri_at j.

Definition new_item (q : retries) (o : obj) (rev orig : N) (del : bool) (now : N) : ritem :=
  let n := match find_item (o_pk o) (q_items q) with Some i => ri_n i + 1 | None => 1 end in
  mkItem o rev orig del (now + duration (q_min q) (q_max q) n) n true.

Definition r_add_b (b : bool) (q : retries) (o : obj) (rev orig : N) (del : bool) (now : N) : retries :=
  let q' := mkRet (put_item (new_item q o rev orig del now) (q_items q)) (q_timer q) (q_min q) (q_max q) in
  if b then r_reset_timer q' else q'.

(* re-arm only if the item is a head; keep the timer only if some other queued item is not later *)
Definition add_ok (b : bool) (q : retries) (o : obj) (rev orig : N) (del : bool) (now : N) : Prop :=
  (b = true -> is_head (put_item (new_item q o rev orig del now) (q_items q)) (new_item q o rev orig del now)) /\
  (b = false -> exists j, In j (q_items q) /\ ri_pk j <> o_pk o /\ ri_inq j = true /\
                          ri_at j <= ri_at (new_item q o rev orig del now)).

Definition r_clear_b (b : bool) (q : retries) (pk : N) : retries :=
  match find_item pk (q_items q) with
  | None => q
  | Some _ =>
    let q' := mkRet (remove_item pk (q_items q)) (q_timer q) (q_min q) (q_max q) in
    if b then r_reset_timer q' else q'
  end.

Definition clear_ok (b : bool) (q : retries) (pk : N) : Prop :=
  forall it, find_item pk (q_items q) = Some it ->
    (b = true -> is_head (q_items q) it) /\
    (b = false -> ri_inq it = false \/
                  exists j, In j (q_items q) /\ ri_pk j <> pk /\ ri_inq j = true /\ ri_at j <= ri_at it).

Definition r_pop_t (t : ritem) (q : retries) : retries :=
  r_reset_timer (mkRet (put_item (set_inq false t) (q_items q)) (q_timer q) (q_min q) (q_max q)).

Lemma r_add_is_b : forall q o rev orig del now,
  r_add q o rev orig del now =
  r_add_b (match others_min_at (o_pk o) (q_items q) with None => true | Some m => ri_at (new_item q o rev orig del now) <? m end)
          q o rev orig del now.
Proof. reflexivity. Qed.

Lemma r_clear_is_b : forall q pk,
  r_clear q pk =
  r_clear_b (match find_item pk (q_items q) with
             | Some it => ri_inq it && match others_min_at pk (q_items q) with None => true | Some m => ri_at it <=? m end
             | None => false end) q pk.
Proof. intros q pk. unfold r_clear, r_clear_b. destruct (find_item pk (q_items q)); reflexivity. Qed.

Lemma r_pop_is_t : forall q t, r_top q = Some t -> r_pop q = r_pop_t t q.
Proof. intros q t H. unfold r_pop, r_pop_t. unfold r_top in H. rewrite H. reflexivity. Qed.

(* ------------------------------------------------------------------ list lemmas *)
Lemma in_put_item_self : forall it l, In it (put_item it l).
Proof.
  intros it l. induction l as [|a r IH]; cbn [put_item]; [left; reflexivity|].
  destruct (ri_pk a =? ri_pk it); [left; reflexivity|right; exact IH].
Qed.
Lemma in_put_item_other : forall it l j, In j l -> ri_pk j <> ri_pk it -> In j (put_item it l).
Proof.
  intros it l j. induction l as [|a r IH]; cbn [put_item]; intros Hin Hne; [destruct Hin|].
  destruct Hin as [Hin|Hin].
  - subst a. apply N.eqb_neq in Hne. rewrite Hne. left. reflexivity.
  - destruct (ri_pk a =? ri_pk it); right; [exact Hin|apply IH; assumption].
Qed.
Lemma retries_eq : forall a b, q_items a = q_items b -> q_timer a = q_timer b -> q_min a = q_min b -> q_max a = q_max b -> a = b.
Proof. intros [i1 t1 m1 x1] [i2 t2 m2 x2]; cbn; intros -> -> -> ->; reflexivity. Qed.

Lemma top_of_is_head : forall l t, top_of l = Some t -> is_head l t.
Proof. intros l t H. apply top_of_spec. exact H. Qed.

(* ------------------------------------------------------------------ timer_ok for every allowed choice *)
Lemma add_b_timer_ok : forall b q o rev orig del now, timer_ok q -> add_ok b q o rev orig del now ->
  timer_ok (r_add_b b q o rev orig del now).
Proof.
  intros b q o rev orig del now Hok [_ Hf]. unfold r_add_b. destruct b; [apply reset_timer_ok|].
  destruct (Hf eq_refl) as [j [Jin [Jpk [Jq Jat]]]].
  intros t Ht. cbn [q_items q_timer] in *.
  destruct (top_of_some_if_queued _ _ Jin Jq) as [t0 Ht0].
  destruct (Hok t0 Ht0) as [d [Hd1 Hd2]]. exists d. split; [exact Hd1|].
  destruct (top_of_spec _ _ Ht0) as [_ [_ Hmin0]].
  destruct (top_of_spec _ _ Ht) as [Tin [Tq _]].
  destruct (in_put_item _ _ _ Tin) as [E|E].
  - subst t. specialize (Hmin0 j Jin Jq). lia.
  - specialize (Hmin0 t E Tq). lia.
Qed.

Lemma clear_b_timer_ok : forall b q pk, timer_ok q -> timer_ok (r_clear_b b q pk).
Proof.
  intros b q pk Hok. unfold r_clear_b. destruct (find_item pk (q_items q)); [|exact Hok].
  destruct b; [apply reset_timer_ok|].
  intros t Ht. cbn [q_items q_timer] in *.
  destruct (top_of_spec _ _ Ht) as [Tin [Tq _]]. destruct (in_remove_item _ _ _ Tin) as [Tin' _].
  destruct (top_of_some_if_queued _ _ Tin' Tq) as [t0 Ht0].
  destruct (Hok t0 Ht0) as [d [Hd1 Hd2]]. exists d. split; [exact Hd1|].
  destruct (top_of_spec _ _ Ht0) as [_ [_ Hmin0]]. specialize (Hmin0 t Tin' Tq). lia.
Qed.

Lemma pop_t_timer_ok : forall t q, timer_ok (r_pop_t t q).
Proof. intros. apply reset_timer_ok. Qed.

(* ------------------------------------------------------------------ without ties the choice is Retries.v's *)
(* no other queued item has the retryAt the added item gets *)
Definition add_no_tie (q : retries) (o : obj) (rev orig : N) (del : bool) (now : N) : Prop :=
  forall j, In j (q_items q) -> ri_pk j <> o_pk o -> ri_inq j = true -> ri_at j <> ri_at (new_item q o rev orig del now).
(* no other queued item has the retryAt of the cleared item *)
Definition clear_no_tie (q : retries) (pk : N) : Prop :=
  forall it j, find_item pk (q_items q) = Some it -> In j (q_items q) -> ri_pk j <> pk -> ri_inq j = true -> ri_at j <> ri_at it.

Lemma others_min_spec : forall pk l,
  match others_min_at pk l with
  | None => forall j, In j l -> ri_pk j <> pk -> ri_inq j = false
  | Some m => (exists j, In j l /\ ri_pk j <> pk /\ ri_inq j = true /\ ri_at j = m) /\
              forall j, In j l -> ri_pk j <> pk -> ri_inq j = true -> m <= ri_at j
  end.
Proof.
  intros pk l. unfold others_min_at. destruct (top_of (remove_item pk l)) as [t|] eqn:Et; cbn [option_map].
  - destruct (top_of_spec _ _ Et) as [Tin [Tq Tmin]]. destruct (in_remove_item _ _ _ Tin) as [Tin' Tpk]. split.
    + exists t. repeat split; assumption.
    + intros j Jin Jpk Jq. apply Tmin; [apply in_remove_item_intro; assumption|exact Jq].
  - intros j Jin Jpk. apply (top_of_none _ Et). apply in_remove_item_intro; assumption.
Qed.

Lemma add_b_exact : forall b q o rev orig del now, add_ok b q o rev orig del now -> add_no_tie q o rev orig del now ->
  r_add_b b q o rev orig del now = r_add q o rev orig del now.
Proof.
  intros b q o rev orig del now [Ht Hf] Hnt. rewrite r_add_is_b. f_equal.
  pose proof (others_min_spec (o_pk o) (q_items q)) as S.
  destruct (others_min_at (o_pk o) (q_items q)) as [m|].
  - destruct S as [[j [Jin [Jpk [Jq Jat]]]] Smin].
    destruct (ri_at (new_item q o rev orig del now) <? m) eqn:E.
    + apply N.ltb_lt in E. destruct b; [reflexivity|]. destruct (Hf eq_refl) as [j' [Jin' [Jpk' [Jq' Jat']]]].
      specialize (Smin j' Jin' Jpk' Jq'). lia.
    + apply N.ltb_ge in E. destruct b; [|reflexivity]. destruct (Ht eq_refl) as [_ [_ Hmin]].
      assert (X : ri_at (new_item q o rev orig del now) <= ri_at j).
      { apply Hmin; [apply in_put_item_other; [exact Jin|exact Jpk]|exact Jq]. }
      specialize (Hnt j Jin Jpk Jq). lia.
  - destruct b; [reflexivity|]. destruct (Hf eq_refl) as [j' [Jin' [Jpk' [Jq' _]]]]. rewrite (S j' Jin' Jpk') in Jq'. discriminate.
Qed.

Lemma clear_b_exact : forall b q pk, clear_ok b q pk -> clear_no_tie q pk -> r_clear_b b q pk = r_clear q pk.
Proof.
  intros b q pk Hok Hnt. rewrite r_clear_is_b. unfold r_clear_b. destruct (find_item pk (q_items q)) as [it|] eqn:Ef; [|reflexivity].
  destruct (Hok it Ef) as [Ht Hf].
  pose proof (others_min_spec pk (q_items q)) as S.
  assert (Eb : b = ri_inq it && match others_min_at pk (q_items q) with None => true | Some m => ri_at it <=? m end); [|rewrite <- Eb; reflexivity].
  destruct b.
  - destruct (Ht eq_refl) as [_ [Hq Hmin]]. rewrite Hq. cbn [andb].
    destruct (others_min_at pk (q_items q)) as [m|]; [|reflexivity].
    destruct S as [[j [Jin [Jpk [Jq Jat]]]] _]. symmetry. apply N.leb_le. rewrite <- Jat. apply Hmin; assumption.
  - destruct (Hf eq_refl) as [Hq|[j [Jin [Jpk [Jq Jat]]]]]; [rewrite Hq; reflexivity|].
    destruct (ri_inq it); [cbn [andb]|reflexivity].
    destruct (others_min_at pk (q_items q)) as [m|].
    + destruct S as [_ Smin]. specialize (Smin j Jin Jpk Jq). specialize (Hnt it j Ef Jin Jpk Jq).
      symmetry. apply N.leb_gt. lia.
    + rewrite (S j Jin Jpk) in Jq. discriminate.
Qed.

(* Retries.v's own choice is an allowed one *)
Lemma put_item_same_key : forall it l j, NoDup (map ri_pk l) -> In j (put_item it l) -> ri_pk j = ri_pk it -> j = it.
Proof.
  intros it l j Hn Hin Hk. pose proof (find_item_uniq _ j (uniq_put_item it l Hn) Hin) as X.
  rewrite Hk, find_item_put_same in X. congruence.
Qed.

Lemma r_add_ok : forall q o rev orig del now, uniq q ->
  add_ok (match others_min_at (o_pk o) (q_items q) with None => true | Some m => ri_at (new_item q o rev orig del now) <? m end)
         q o rev orig del now.
Proof.
  intros q o rev orig del now Hu. pose proof (others_min_spec (o_pk o) (q_items q)) as S.
  set (new := new_item q o rev orig del now) in *.
  assert (Hhead : (forall j, In j (q_items q) -> ri_pk j <> o_pk o -> ri_inq j = true -> ri_at new <= ri_at j) ->
                  is_head (put_item new (q_items q)) new).
  { intro Hm. split; [apply in_put_item_self|]. split; [reflexivity|].
    intros j Jin Jq. destruct (N.eq_dec (ri_pk j) (ri_pk new)) as [Ek|Ek].
    - rewrite (put_item_same_key new _ j Hu Jin Ek). apply N.le_refl.
    - destruct (in_put_item _ _ _ Jin) as [E|E]; [subst j; lia|]. apply Hm; assumption. }
  destruct (others_min_at (o_pk o) (q_items q)) as [m|].
  - destruct S as [[j [Jin [Jpk [Jq Jat]]]] Smin]. destruct (ri_at new <? m) eqn:E; split; intro X; try discriminate.
    + apply N.ltb_lt in E. apply Hhead. intros j' A B C. specialize (Smin j' A B C). lia.
    + apply N.ltb_ge in E. exists j. repeat split; try assumption. change (ri_at j <= ri_at new). lia.
  - split; intro X; [|discriminate]. apply Hhead. intros j A B C. rewrite (S j A B) in C. discriminate.
Qed.

Lemma r_clear_ok : forall q pk, uniq q ->
  clear_ok (match find_item pk (q_items q) with
            | Some it => ri_inq it && match others_min_at pk (q_items q) with None => true | Some m => ri_at it <=? m end
            | None => false end) q pk.
Proof.
  intros q pk Hu it Ef. rewrite Ef. pose proof (others_min_spec pk (q_items q)) as S.
  destruct (find_item_in _ _ _ Ef) as [Iin Ipk].
  destruct (ri_inq it) eqn:Eq; cbn [andb]; [|split; intro X; [discriminate|left; reflexivity]].
  assert (Hhead : (forall j, In j (q_items q) -> ri_pk j <> pk -> ri_inq j = true -> ri_at it <= ri_at j) -> is_head (q_items q) it).
  { intro Hm. split; [exact Iin|]. split; [exact Eq|]. intros j Jin Jq.
    destruct (N.eq_dec (ri_pk j) pk) as [Ek|Ek]; [|apply Hm; assumption].
    pose proof (find_item_uniq _ j Hu Jin) as X. rewrite Ek, Ef in X. injection X as X. subst j. lia. }
  destruct (others_min_at pk (q_items q)) as [m|].
  - destruct S as [[j [Jin [Jpk [Jq Jat]]]] Smin]. destruct (ri_at it <=? m) eqn:E; split; intro X; try discriminate.
    + apply N.leb_le in E. apply Hhead. intros j' A B C. specialize (Smin j' A B C). lia.
    + apply N.leb_gt in E. right. exists j. repeat split; try assumption. lia.
  - split; intro X; [|discriminate]. apply Hhead. intros j A B C. rewrite (S j A B) in C. discriminate.
Qed.

Lemma uniq_abs : forall hs, HInv hs -> uniq (abs hs).
Proof. intros hs H. unfold uniq. cbn [abs q_items]. rewrite pks_abs. apply (hv_uniq _ H). Qed.

(* a stored item that is in queue, seen from the list model *)
Lemma abs_queued_in : forall hs pk it, HInv hs -> st_get pk (hs_store hs) = Some it -> hi_index it <> (-1)%Z ->
  In (abs_item it) (q_items (abs hs)) /\ ri_inq (abs_item it) = true /\ ri_pk (abs_item it) = pk.
Proof.
  intros hs pk it H Hg Hi. split; [apply in_map; apply (st_get_in _ _ _ Hg)|].
  split; [apply (abs_inq hs pk it H Hg); exact Hi|apply (st_get_pk _ _ _ Hg)].
Qed.

(* the root of queue is a head of the list model *)
Lemma abs_root_is_head : forall hs t, HInv hs -> hq_top hs = Some t -> is_head (q_items (abs hs)) (abs_item t).
Proof.
  intros hs t H Et. destruct (hq_top_min hs t H Et) as [Hg [Hi [_ Hmin]]].
  destruct (abs_queued_in hs _ t H Hg ltac:(lia)) as [A [B _]]. split; [exact A|]. split; [exact B|].
  intros j Jin Jq. destruct (in_abs_store hs j H Jin) as [x [Xg Xe]]. subst j.
  apply (Hmin _ x Xg). apply (abs_inq hs _ x H Xg). exact Jq.
Qed.

Lemma top_some : forall hs pk, HInv hs -> queued QT (hs_store hs) pk -> exists t, hq_top hs = Some t.
Proof.
  intros hs pk H Hq. destruct (hq_top hs) as [t|] eqn:Et; [exists t; reflexivity|].
  exfalso. apply (proj1 (hq_top_none hs H) Et pk). exact Hq.
Qed.

(* ------------------------------------------------------------------ Add *)
Theorem abs_add : forall hs o rev orig del now, HInv hs ->
  exists b, abs (hq_add hs o rev orig del now) = r_add_b b (abs hs) o rev orig del now /\
            add_ok b (abs hs) o rev orig del now.
Proof.
  intros hs o rev orig del now H.
  pose proof (abs_add_items hs o rev orig del now H) as Hitems. rewrite add_items in Hitems.
  destruct (hq_add_spec hs o rev orig del now H) as [Hinv [_ [_ [[it' [Hg' _]] [Hqd [Hmin [Hmax [_ [Ht1 Ht2]]]]]]]]].
  set (hs' := hq_add hs o rev orig del now) in *.
  change (mkItem o rev orig del _ _ true) with (new_item (abs hs) o rev orig del now) in Hitems.
  set (new := new_item (abs hs) o rev orig del now) in *.
  assert (Hnew : abs_item it' = new).
  { pose proof (find_abs (o_pk o) (hs_store hs')) as X. rewrite Hg' in X. cbn [option_map] in X.
    change (map abs_item (hs_store hs')) with (q_items (abs hs')) in X. rewrite Hitems in X.
    rewrite (find_item_put_same new) in X. congruence. }
  assert (Hq' : queued QT (hs_store hs') (o_pk o)) by (apply Hqd; left; reflexivity).
  assert (Hi' : hi_index it' <> (-1)%Z).
  { destruct Hq' as [x [X Y]]. rewrite Hg' in X. injection X as X. subst x. exact Y. }
  destruct (top_some hs' _ Hinv Hq') as [t Et].
  destruct (hq_top_min hs' t Hinv Et) as [Tg [Ti [Tn Tmin]]].
  pose proof (abs_root_is_head hs' t Hinv Et) as Thead. rewrite Hitems in Thead.
  exists (nth 0 (hs_q hs') 0 =? o_pk o). split.
  - unfold r_add_b. fold new. destruct (nth 0 (hs_q hs') 0 =? o_pk o) eqn:Eb.
    + apply N.eqb_eq in Eb. apply retries_eq; [exact Hitems| |exact Hmin|exact Hmax].
      change (hs_timer hs' = option_map ri_at (top_of (put_item new (q_items (abs hs))))).
      rewrite <- Hitems, (Ht1 Eb). apply (abs_top_at hs' Hinv).
    + apply N.eqb_neq in Eb. apply retries_eq; [exact Hitems| |exact Hmin|exact Hmax].
      cbn [abs q_items q_timer q_min q_max]. apply Ht2. exact Eb.
  - split; intro Eb.
    + apply N.eqb_eq in Eb. rewrite Tn in Eb. rewrite Eb, Hg' in Tg. injection Tg as Tg. subst t. rewrite Hnew in Thead. exact Thead.
    + apply N.eqb_neq in Eb. rewrite Tn in Eb. exists (abs_item t).
      destruct Thead as [Tin [Tq _]].
      split; [|split; [exact Eb|split; [exact Tq|]]].
      * destruct (in_put_item _ _ _ Tin) as [X|X]; [|exact X]. exfalso. apply Eb. rewrite <- pk_abs_item, X. reflexivity.
      * change (ri_at (abs_item t) <= ri_at new). rewrite <- Hnew. cbn [abs_item ri_at]. apply (Tmin _ it' Hg' Hi').
Qed.

(* without a tie: exactly Retries.v's Add *)
Theorem abs_add_exact : forall hs o rev orig del now, HInv hs -> add_no_tie (abs hs) o rev orig del now ->
  abs (hq_add hs o rev orig del now) = r_add (abs hs) o rev orig del now.
Proof.
  intros hs o rev orig del now H Hnt. destruct (abs_add hs o rev orig del now H) as [b [A B]].
  rewrite A. apply add_b_exact; assumption.
Qed.

(* ------------------------------------------------------------------ Clear *)
Theorem abs_clear : forall hs pk, HInv hs ->
  exists b, abs (hq_clear hs pk) = r_clear_b b (abs hs) pk /\ clear_ok b (abs hs) pk.
Proof.
  intros hs pk H. pose proof (abs_clear_items hs pk H) as Hitems. rewrite clear_items in Hitems.
  destruct (st_get pk (hs_store hs)) as [it|] eqn:Eg.
  - destruct (hq_clear_spec hs pk it H Eg) as [_ [_ [Hinv [_ [_ [Hmin [Hmax [Ht1 Ht2]]]]]]]].
    assert (Ef : find_item pk (q_items (abs hs)) = Some (abs_item it)) by (cbn [abs q_items]; rewrite find_abs, Eg; reflexivity).
    exists (hi_index it =? 0)%Z. split.
    + unfold r_clear_b. rewrite Ef. destruct (hi_index it =? 0)%Z eqn:Eb.
      * apply Z.eqb_eq in Eb. apply retries_eq; [exact Hitems| |exact Hmin|exact Hmax].
        change (hs_timer (hq_clear hs pk) = option_map ri_at (top_of (remove_item pk (q_items (abs hs))))).
        rewrite <- Hitems, (Ht1 Eb). apply (abs_top_at _ Hinv).
      * apply Z.eqb_neq in Eb. apply retries_eq; [exact Hitems| |exact Hmin|exact Hmax].
        cbn [abs q_items q_timer q_min q_max]. apply Ht2. exact Eb.
    + intros it1 Ef1. rewrite Ef in Ef1. injection Ef1 as Ef1. subst it1. split; intro Eb.
      * apply Z.eqb_eq in Eb.
        assert (Hq : queued QT (hs_store hs) pk) by (exists it; split; [exact Eg|cbn; lia]).
        destruct (top_some hs pk H Hq) as [t Et]. destruct (hq_top_min hs t H Et) as [Tg [_ [Tn _]]].
        destruct (HInv_index hs pk it H Eg) as [X _].
        assert (Hpos : (0 < length (hs_q hs))%nat).
        { apply (queued_in QT (hs_store hs, hs_q hs) pk (proj1 (hv_q _ H))) in Hq. cbn [snd] in Hq. destruct (hs_q hs); [destruct Hq|cbn; lia]. }
        apply (X 0%nat Hpos) in Eb. rewrite Tn in Eb. rewrite Eb, Eg in Tg. injection Tg as Tg. subst t.
        apply (abs_root_is_head hs it H Et).
      * apply Z.eqb_neq in Eb. destruct (Z.eq_dec (hi_index it) (-1)) as [E1|E1].
        { left. cbn [abs_item ri_inq]. rewrite E1. reflexivity. }
        right.
        assert (Hq : queued QT (hs_store hs) pk) by (exists it; split; [exact Eg|exact E1]).
        destruct (top_some hs pk H Hq) as [t Et]. destruct (hq_top_min hs t H Et) as [Tg [Ti [_ Tmin]]].
        destruct (abs_root_is_head hs t H Et) as [Tin [Tq _]].
        exists (abs_item t). split; [exact Tin|]. split; [|split; [exact Tq|apply (Tmin _ it Eg E1)]].
        rewrite pk_abs_item. intro E. rewrite E, Eg in Tg. injection Tg as Tg. subst t. contradiction.
  - rewrite (hq_clear_absent hs pk Eg). exists false. split.
    + unfold r_clear_b. cbn [abs q_items]. rewrite find_abs, Eg. reflexivity.
    + intros it Ef. cbn [abs q_items] in Ef. rewrite find_abs, Eg in Ef. discriminate.
Qed.

Theorem abs_clear_exact : forall hs pk, HInv hs -> clear_no_tie (abs hs) pk -> abs (hq_clear hs pk) = r_clear (abs hs) pk.
Proof.
  intros hs pk H Hnt. destruct (abs_clear hs pk H) as [b [A B]]. rewrite A. apply clear_b_exact; assumption.
Qed.

(* ------------------------------------------------------------------ Pop *)
Theorem abs_pop : forall hs, HInv hs -> hs_q hs <> [] ->
  exists hs' t, hq_pop hs = Some hs' /\ hq_top hs = Some t /\
    abs hs' = r_pop_t (abs_item t) (abs hs) /\ is_head (q_items (abs hs)) (abs_item t).
Proof.
  intros hs H Hne. destruct (hq_pop_spec hs H Hne) as [hs' [Ep [Hinv [[_ [_ [Her Hqd]]] [_ [Hmin [Hmax Htimer]]]]]]].
  cbn [fst snd] in Her, Hqd.
  assert (Ht : exists t, hq_top hs = Some t) by (unfold hq_top; destruct (hs_q hs); [congruence|eexists; reflexivity]).
  destruct Ht as [t Et]. destruct (hq_top_min hs t H Et) as [Tg [Ti [Tn _]]]. rewrite Tn in Hqd.
  exists hs', t. split; [exact Ep|]. split; [exact Et|]. split; [|apply (abs_root_is_head hs t H Et)].
  assert (Hitems : q_items (abs hs') = put_item (set_inq false (abs_item t)) (q_items (abs hs))).
  { cbn [abs q_items]. apply items_ext.
    - rewrite pks_abs, put_item_pks, pks_abs, (frame_pks QT _ _ Her).
      change (ri_pk (set_inq false (abs_item t))) with (hi_pk t). rewrite find_abs, Tg. reflexivity.
    - rewrite pks_abs. apply (hv_uniq _ Hinv).
    - intro pk. rewrite find_abs. destruct (N.eq_dec pk (hi_pk t)) as [E|E].
      + subst pk. change (hi_pk t) with (ri_pk (set_inq false (abs_item t))) at 2. rewrite find_item_put_same.
        destruct (frame_get_some QT _ _ _ t Her Tg) as [t' [Tg' Et']]. rewrite Tg'. cbn [option_map]. f_equal.
        assert (Hnq : (0 <=? hi_index t')%Z = false).
        { destruct (0 <=? hi_index t')%Z eqn:E0; [|reflexivity]. exfalso.
          apply (inq_queued _ _ _ _ (proj1 (hv_q _ Hinv)) Tg') in E0. apply Hqd in E0. destruct E0 as [E0 _]. congruence. }
        destruct t as [o1 r1 g1 d1 i1 ri1 a1 n1], t' as [o2 r2 g2 d2 i2 ri2 a2 n2]. cbn in Et'. injection Et' as -> -> -> -> -> -> ->.
        unfold abs_item, set_inq. cbn in *. rewrite Hnq. reflexivity.
      + rewrite find_item_put_other by exact E. rewrite find_abs.
        apply (abs_lookup_eq _ (hs_q hs) _ (hs_q hs')); [apply (hv_q _ H)|apply (hv_q _ Hinv)| |].
        * apply (map_get_gen erase2 pk_erase2). apply (erase_erase2 QT). exact Her.
        * rewrite Hqd. split; [intros [_ X]; exact X|intro X; split; [exact E|exact X]]. }
  unfold r_pop_t. apply retries_eq; [exact Hitems| |exact Hmin|exact Hmax].
  change (hs_timer hs' = option_map ri_at (top_of (put_item (set_inq false (abs_item t)) (q_items (abs hs))))).
  rewrite <- Hitems, Htimer. apply (abs_top_at hs' Hinv).
Qed.

(* when the minimal retryAt is unique: exactly Retries.v's Pop *)
Theorem abs_pop_exact : forall hs t, HInv hs -> hq_top hs = Some t ->
  (forall pk it, st_get pk (hs_store hs) = Some it -> hi_index it <> (-1)%Z -> pk <> hi_pk t -> hi_at it <> hi_at t) ->
  exists hs', hq_pop hs = Some hs' /\ abs hs' = r_pop (abs hs).
Proof.
  intros hs t H Et Hu.
  assert (Hne : hs_q hs <> []) by (unfold hq_top in Et; destruct (hs_q hs); [discriminate|discriminate]).
  destruct (abs_pop hs H Hne) as [hs' [t' [Ep [Et' [A _]]]]]. rewrite Et in Et'. injection Et' as <-.
  exists hs'. split; [exact Ep|]. rewrite A. symmetry. apply r_pop_is_t. apply (abs_top_item hs t H Et Hu).
Qed.

(* ------------------------------------------------------------------ the wake-up timer at heap level *)
(* whenever an item is queued, the wait channel closes no later than the head's retryAt *)
Definition htimer_ok (hs : hstate) : Prop :=
  forall t, hq_top hs = Some t -> exists d, hs_timer hs = Some d /\ d <= hi_at t.

Lemma htimer_ok_abs : forall hs, HInv hs -> (htimer_ok hs <-> timer_ok (abs hs)).
Proof.
  intros hs H. pose proof (abs_top_at hs H) as A. unfold htimer_ok, timer_ok, r_top in *. cbn [abs q_items q_timer] in *. split.
  - intros X j Ej. rewrite Ej in A. destruct (hq_top hs) as [t|]; cbn in A; [|discriminate]. injection A as A.
    destruct (X t eq_refl) as [d [D1 D2]]. exists d. split; [exact D1|lia].
  - intros X t Et. rewrite Et in A. destruct (top_of (map abs_item (hs_store hs))) as [j|]; cbn in A; [|discriminate]. injection A as A.
    destruct (X j eq_refl) as [d [D1 D2]]. exists d. split; [exact D1|lia].
Qed.

Theorem htimer_ok_apply : forall hs op, HInv hs -> htimer_ok hs -> htimer_ok (apply_hop hs op).
Proof.
  intros hs op H Hok. apply (htimer_ok_abs _ (HInv_apply hs op H)). apply (htimer_ok_abs hs H) in Hok.
  destruct op as [o rev orig del now| |pk|]; cbn [apply_hop].
  - destruct (abs_add hs o rev orig del now H) as [b [A B]]. rewrite A. apply add_b_timer_ok; assumption.
  - destruct (hs_q hs) as [|p q0] eqn:Eq.
    + unfold hq_pop. rewrite Eq. exact Hok.
    + destruct (abs_pop hs H ltac:(rewrite Eq; discriminate)) as [hs' [t [Ep [_ [A _]]]]]. rewrite Ep, A. apply pop_t_timer_ok.
  - destruct (abs_clear hs pk H) as [b [A B]]. rewrite A. apply clear_b_timer_ok. exact Hok.
  - destruct (hq_lwm_spec hs H) as [v [A _]]. rewrite A. exact Hok.
Qed.

Theorem htimer_due_head_fires : forall hs now t, HInv hs -> htimer_ok hs -> hq_top hs = Some t -> hi_at t <= now ->
  hq_fired hs now = true.
Proof.
  intros hs now t H Hok Et Hd. destruct (Hok t Et) as [d [D1 D2]]. unfold hq_fired. rewrite D1. apply N.leb_le. lia.
Qed.

(* ------------------------------------------------------------------ simulation of whole runs without ties *)
(* R: the heap state is consistent and its abstraction is the list-model state *)
Definition R (hs : hstate) (q : retries) : Prop := HInv hs /\ abs hs = q.

Definition op_no_tie (q : retries) (op : hop) : Prop :=
  match op with
  | HAdd o rev orig del now => add_no_tie q o rev orig del now
  | HPop => forall t j, r_top q = Some t -> In j (q_items q) -> ri_inq j = true -> ri_pk j <> ri_pk t -> ri_at j <> ri_at t
  | HClear pk => clear_no_tie q pk
  | HLwm => True
  end.

(* Retries.v's operation for a heap operation (Pop on an empty queue: the heap model stays put) *)
Definition apply_rop (q : retries) (op : hop) : retries :=
  match op with
  | HAdd o rev orig del now => r_add q o rev orig del now
  | HPop => match r_top q with Some _ => r_pop q | None => q end
  | HClear pk => r_clear q pk
  | HLwm => q
  end.

Theorem R_new : forall a b, R (hq_new a b) (r_new a b).
Proof. intros a b. split; [apply HInv_new|reflexivity]. Qed.

Theorem R_step : forall hs q op, R hs q -> op_no_tie q op -> R (apply_hop hs op) (apply_rop q op).
Proof.
  intros hs q op [H E] Hnt. subst q. split; [apply HInv_apply; exact H|].
  destruct op as [o rev orig del now| |pk|]; cbn [apply_hop apply_rop op_no_tie] in *.
  - apply abs_add_exact; assumption.
  - destruct (hq_top hs) as [t|] eqn:Et.
    + assert (Hu : forall pk it, st_get pk (hs_store hs) = Some it -> hi_index it <> (-1)%Z -> pk <> hi_pk t -> hi_at it <> hi_at t).
      { intros pk it Hg Hi Hpk.
        pose proof (abs_top_at hs H) as A. rewrite Et in A. cbn [option_map] in A.
        destruct (r_top (abs hs)) as [j|] eqn:Ej; cbn [option_map] in A; [|discriminate]. injection A as A.
        destruct (abs_queued_in hs pk it H Hg Hi) as [X1 [X2 X3]].
        destruct (N.eq_dec (ri_pk j) pk) as [Ek|Ek].
        - (* the list model's head is this very item: then the root of the heap would be a second minimum *)
          destruct (hq_top_min hs t H Et) as [Tg [Ti _]].
          destruct (abs_queued_in hs _ t H Tg ltac:(lia)) as [Y1 [Y2 Y3]].
          pose proof (Hnt j (abs_item t) eq_refl Y1 Y2 ltac:(rewrite Y3, Ek; congruence)) as Z. cbn in Z. congruence.
        - pose proof (Hnt j (abs_item it) eq_refl X1 X2 ltac:(rewrite X3; congruence)) as Z. cbn in Z. congruence. }
      destruct (abs_pop_exact hs t H Et Hu) as [hs' [Ep A]]. rewrite Ep, A.
      rewrite (abs_top_item hs t H Et Hu). reflexivity.
    + pose proof (abs_top_at hs H) as A. rewrite Et in A. destruct (r_top (abs hs)); [discriminate|].
      unfold hq_pop. unfold hq_top in Et. destruct (hs_q hs); [reflexivity|discriminate].
  - apply abs_clear_exact; assumption.
  - destruct (hq_lwm_spec hs H) as [v [A _]]. rewrite A. reflexivity.
Qed.

(* observables under R: the same items, low watermark, deadline, fired flag, head retryAt; the same head item
   when it is the only one with the minimal retryAt *)
Theorem R_observables : forall hs q, R hs q ->
  q_items q = map abs_item (hs_store hs) /\
  fst (fst (hq_low_watermark hs)) = r_low_watermark q /\
  hs_timer hs = q_timer q /\ (forall now, hq_fired hs now = r_fired q now) /\
  option_map hi_at (hq_top hs) = option_map ri_at (r_top q) /\
  (forall t, hq_top hs = Some t ->
     (forall pk it, st_get pk (hs_store hs) = Some it -> hi_index it <> (-1)%Z -> pk <> hi_pk t -> hi_at it <> hi_at t) ->
     r_top q = Some (abs_item t)).
Proof.
  intros hs q [H E]. subst q. split; [reflexivity|]. split; [apply abs_low_watermark; exact H|].
  split; [reflexivity|]. split; [reflexivity|]. split; [apply abs_top_at; exact H|].
  intros t Et Hu. apply abs_top_item; assumption.
Qed.

(* ------------------------------------------------------------------ numRetries evolves as in Retries.v *)
Theorem abs_add_numretries : forall hs o rev orig del now, HInv hs ->
  n_of (abs (hq_add hs o rev orig del now)) (o_pk o) = Some (match n_of (abs hs) (o_pk o) with Some n => n + 1 | None => 1 end).
Proof.
  intros hs o rev orig del now H. unfold n_of at 1. rewrite (abs_add_items hs o rev orig del now H).
  apply (n_of_add_same (abs hs) o rev orig del now).
Qed.
Theorem abs_add_numretries_other : forall hs o rev orig del now pk, HInv hs -> pk <> o_pk o ->
  n_of (abs (hq_add hs o rev orig del now)) pk = n_of (abs hs) pk.
Proof.
  intros hs o rev orig del now pk H Hne. unfold n_of at 1. rewrite (abs_add_items hs o rev orig del now H).
  apply (n_of_add_other (abs hs) o rev orig del now pk Hne).
Qed.
Theorem abs_clear_numretries : forall hs pk pk', HInv hs ->
  n_of (abs (hq_clear hs pk)) pk' = if pk' =? pk then None else n_of (abs hs) pk'.
Proof.
  intros hs pk pk' H. unfold n_of at 1. rewrite (abs_clear_items hs pk H).
  destruct (N.eqb_spec pk' pk) as [E|E]; [subst pk'; apply (n_of_clear_same (abs hs) pk)|apply (n_of_clear_other (abs hs) pk pk' E)].
Qed.
Theorem abs_pop_numretries : forall hs hs' pk, HInv hs -> hq_pop hs = Some hs' -> n_of (abs hs') pk = n_of (abs hs) pk.
Proof.
  intros hs hs' pk H Ep.
  assert (Hne : hs_q hs <> []) by (unfold hq_pop in Ep; destruct (hs_q hs); [discriminate|discriminate]).
  destruct (hq_pop_spec hs H Hne) as [hs2 [Ep2 [_ [[_ [_ [Her _]]] _]]]]. rewrite Ep in Ep2. injection Ep2 as <-. cbn [fst] in Her.
  unfold n_of. cbn [abs q_items]. rewrite !find_abs. pose proof (frame_get QT _ _ Her pk) as X.
  destruct (st_get pk (hs_store hs')) as [a|], (st_get pk (hs_store hs)) as [b|]; cbn [option_map] in *; try discriminate; [|reflexivity].
  f_equal. assert (Y : erase QT a = erase QT b) by congruence. rewrite (erase_eq QT b a (eq_sym Y)). destruct b; reflexivity.
Qed.
