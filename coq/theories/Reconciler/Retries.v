(* Reconciler/Retries.v — executable model of reconciler/retries.go (retry queue + backoff + wait timer).
   No proofs here (see RetriesProofs.v). Go counterparts are named next to each definition.

   Abstraction: `items` (map pk -> *retryItem) is an association list in insertion order; the two
   container/heap priority queues are modelled as min-selection over that list:
   - the retryAt queue = the items with ri_inq = true (Pop only clears the flag: "leave it into the map");
   - the origRev queue = all items (an item is pushed on Add and removed only by Clear), so
     LowWatermark = minimum ri_orig over the items.
   The heap index bookkeeping (index/revIndex, Fix/Remove) is not modelled; it is exercised by the
   correspondence run. The wait timer + wait channel are modelled as the armed deadline:
   Some d = a timer that fires (closes waitChan) at time d and stays fired until the next resetTimer;
   None = no timer / stopped timer. *)
From Coq Require Import List NArith Bool.
Import ListNotations.
Open Scope N_scope.

(* reconciler/types.go StatusKind (Unset never occurs for objects handled by the harness) *)
Inductive skind := Pending | Refreshing | Done | Error.

(* the reconciled object: primary key, payload version (the "contents"), our Status.Kind and Status.ID, and
   o_aux: the data only OTHER writers change (a second reconciler's status; the harness field Other) *)
Record obj := mkObj { o_pk : N; o_ver : N; o_kind : skind; o_sid : N; o_aux : N }.

(* retries.go exponentialBackoff.Duration(attempt): float64(min)*2^attempt, capped by max.
   Exact on naturals below 2^53 ns; +Inf > max also yields max. *)
Definition duration (bmin bmax n : N) : N :=
  let d := bmin * 2 ^ n in if bmax <? d then bmax else d.

(* retries.go retryItem *)
Record ritem := mkItem {
  ri_obj : obj;      (* object *)
  ri_rev : N;        (* rev *)
  ri_orig : N;       (* origRev *)
  ri_del : bool;     (* delete *)
  ri_at : N;         (* retryAt *)
  ri_n : N;          (* numRetries *)
  ri_inq : bool      (* index >= 0: still in the retryAt queue *)
}.
Definition ri_pk (i : ritem) : N := o_pk (ri_obj i).

(* retries.go retries *)
Record retries := mkRet {
  q_items : list ritem;
  q_timer : option N;
  q_min : N;
  q_max : N
}.

Definition r_new (bmin bmax : N) : retries := mkRet [] None bmin bmax.

Fixpoint find_item (pk : N) (l : list ritem) : option ritem :=
  match l with
  | [] => None
  | i :: r => if ri_pk i =? pk then Some i else find_item pk r
  end.

Fixpoint remove_item (pk : N) (l : list ritem) : list ritem :=
  match l with
  | [] => []
  | i :: r => if ri_pk i =? pk then remove_item pk r else i :: remove_item pk r
  end.

(* replace in place, or append (a new heap element goes to the end) *)
Fixpoint put_item (it : ritem) (l : list ritem) : list ritem :=
  match l with
  | [] => [it]
  | i :: r => if ri_pk i =? ri_pk it then it :: r else i :: put_item it r
  end.

(* the first item with minimal retryAt among those still queued: queue.Peek() *)
Fixpoint top_of (l : list ritem) : option ritem :=
  match l with
  | [] => None
  | i :: r =>
    match top_of r with
    | None => if ri_inq i then Some i else None
    | Some j => if ri_inq i && (ri_at i <=? ri_at j) then Some i else Some j
    end
  end.

(* retries.Top *)
Definition r_top (q : retries) : option ritem := top_of (q_items q).

(* retries.resetTimer: afterwards the timer is armed for the head of the queue, or absent *)
Definition r_reset_timer (q : retries) : retries :=
  mkRet (q_items q) (option_map ri_at (top_of (q_items q))) (q_min q) (q_max q).

Definition set_inq (b : bool) (i : ritem) : ritem :=
  mkItem (ri_obj i) (ri_rev i) (ri_orig i) (ri_del i) (ri_at i) (ri_n i) b.

(* retries.Pop: remove the head from the retryAt queue but keep it in the map; resetTimer *)
Definition r_pop (q : retries) : retries :=
  match top_of (q_items q) with
  | None => r_reset_timer q
  | Some it => r_reset_timer (mkRet (put_item (set_inq false it) (q_items q)) (q_timer q) (q_min q) (q_max q))
  end.

(* minimum retryAt over queued items other than pk *)
Definition others_min_at (pk : N) (l : list ritem) : option N :=
  option_map ri_at (top_of (remove_item pk l)).

(* retries.Add(obj, rev, origRev, delete, err) at time now *)
Definition r_add (q : retries) (o : obj) (rev orig : N) (del : bool) (now : N) : retries :=
  let n := match find_item (o_pk o) (q_items q) with Some i => ri_n i + 1 | None => 1 end in
  let it := mkItem o rev orig del (now + duration (q_min q) (q_max q) n) n true in
  let q' := mkRet (put_item it (q_items q)) (q_timer q) (q_min q) (q_max q) in
  (* "if item.index == 0": the item is at the head of the heap iff strictly earlier than all others *)
  let head := match others_min_at (o_pk o) (q_items q) with None => true | Some m => ri_at it <? m end in
  if head then r_reset_timer q' else q'.

(* retries.Clear(obj) *)
Definition r_clear (q : retries) (pk : N) : retries :=
  match find_item pk (q_items q) with
  | None => q
  | Some it =>
    let q' := mkRet (remove_item pk (q_items q)) (q_timer q) (q_min q) (q_max q) in
    (* "if index == 0": it was the head of the retryAt queue *)
    let washead := ri_inq it &&
      match others_min_at pk (q_items q) with None => true | Some m => ri_at it <=? m end in
    if washead then r_reset_timer q' else q'
  end.

Fixpoint min_orig (l : list ritem) : option N :=
  match l with
  | [] => None
  | i :: r => match min_orig r with None => Some (ri_orig i) | Some m => Some (N.min (ri_orig i) m) end
  end.

(* retries.LowWatermark: origRev of the head of revQueue, 0 when empty *)
Definition r_low_watermark (q : retries) : N :=
  match min_orig (q_items q) with None => 0 | Some m => m end.

(* the wait channel returned by retries.Wait() is closed at time now *)
Definition r_fired (q : retries) (now : N) : bool :=
  match q_timer q with Some d => d <=? now | None => false end.
