(* Reconciler/RoundProofs.v — the "nothing is forgotten" cover invariant (C14/C15) across a status
   commit, and small facts about the round structure. *)
From Coq Require Import List NArith Bool Lia ZifyN ZifyBool.
From SV Require Import Reconciler.Retries Reconciler.Model Reconciler.RetriesProofs Reconciler.CommitProofs.
Import ListNotations.
Open Scope N_scope.

Section Cover.
(* D pk rev: a Delete of key pk for its deletion at revision rev has succeeded (ghost) *)
Variable D : N -> N -> Prop.

Definition res_covers (res : list opres) (pk : N) (o : obj) (rev : N) : Prop :=
  exists r, In r res /\ o_pk (r_obj r) = pk /\ (r_rev r = rev \/ (o_kind o = Pending /\ r_id r = o_sid o)).
(* a RETRY result (rev <> origRev) for the key awaits its status commit *)
Definition res_retry (res : list opres) (pk : N) : Prop :=
  exists r, In r res /\ o_pk (r_obj r) = pk /\ r_rev r <> r_orig r.
Definition item_covers (q : retries) (pk : N) (del : bool) (rev : N) : Prop :=
  exists it, find_item pk (q_items q) = Some it /\ ri_del it = del /\ ri_rev it = rev /\ ri_inq it = true.
(* an update retry is queued for the key (its rev is the revision of an Error write, never its origRev) *)
Definition item_upd (q : retries) (pk : N) : Prop :=
  exists it, find_item pk (q_items q) = Some it /\ ri_del it = false /\ ri_inq it = true /\ ri_rev it <> ri_orig it.

(* key pk is not forgotten in state (table t, change cursor c, pending results res, retry queue q):
   - live and Pending/Refreshing: ahead of the cursor, or an operation result for exactly this version
     (same revision, or same pending id) awaits its status commit;
   - live and Error: an update retry is queued for the key, or a retry result awaits commit — whatever
     the object's revision: since fix 8844901 a retry result is applied to an object that still carries
     the Error status even if a foreign status-only write changed its revision;
   - deleted: ahead of the cursor, or a delete retry for this deletion is queued, or it was Delete()d. *)
Definition covered (t : table) (c : N) (res : list opres) (q : retries) (pk : N) : Prop :=
  match slot_of t pk with
  | Some (Live o rev) =>
    match o_kind o with
    | Pending | Refreshing => c < rev \/ res_covers res pk o rev
    | Error => item_upd q pk \/ res_retry res pk
    | Done => True
    end
  | Some (Dead o rev) => c < rev \/ item_covers q pk true rev \/ D pk rev
  | None => True
  end.

Lemma item_covers_add_other : forall q o rev orig del now pk d rv, pk <> o_pk o ->
  item_covers q pk d rv -> item_covers (r_add q o rev orig del now) pk d rv.
Proof.
  intros q o rev orig del now pk d rv Hn [it [A B]]. exists it. rewrite add_other by exact Hn. split; assumption.
Qed.
Lemma item_upd_add_other : forall q o rev orig del now pk, pk <> o_pk o ->
  item_upd q pk -> item_upd (r_add q o rev orig del now) pk.
Proof.
  intros q o rev orig del now pk Hn [it [A B]]. exists it. rewrite add_other by exact Hn. split; assumption.
Qed.

Lemma commit_one_covers : forall c now t q r rest t1 q1, keyed t ->
  ~ In (o_pk (r_obj r)) (map (fun r => o_pk (r_obj r)) rest) ->
  r_orig r <= t_rev t ->
  (forall pk, covered t c (r :: rest) q pk) ->
  commit_one true true now (t, q) r = (t1, q1) ->
  forall pk, covered t1 c rest q1 pk.
Proof.
  intros c now t q r rest t1 q1 Hk Hnin Hpast Hcov H pk.
  destruct (commit_one_spec _ _ _ _ _ _ _ _ Hk H) as [Ho [Hc Hq]].
  pose proof (queued_pk t r Hk) as Qk.
  assert (NotRest : forall r', In r' rest -> o_pk (r_obj r') = o_pk (r_obj r) -> False).
  { intros r' Hin Heq. apply Hnin. rewrite <- Heq. apply (in_map (fun r => o_pk (r_obj r))). exact Hin. }
  specialize (Hcov pk). unfold covered in *.
  destruct (N.eq_dec pk (o_pk (r_obj r))) as [E|E].
  2:{ (* another key: slot and item untouched, its covering result is in the rest *)
    rewrite (Ho pk E).
    assert (IC : forall d rv, item_covers q pk d rv -> item_covers q1 pk d rv).
    { intros d rv Hi. rewrite Hq. destruct (negb (r_ok r) && wrote t t1); [apply item_covers_add_other; [rewrite Qk|]; assumption|exact Hi]. }
    assert (IU : item_upd q pk -> item_upd q1 pk).
    { intros Hi. rewrite Hq. destruct (negb (r_ok r) && wrote t t1); [apply item_upd_add_other; [rewrite Qk|]; assumption|exact Hi]. }
    destruct (slot_of t pk) as [[o rev|o rev]|]; [|destruct Hcov as [A|[A|A]]; [left; exact A|right; left; apply IC; exact A|right; right; exact A]|exact I].
    destruct (o_kind o).
    - destruct Hcov as [A|[r' [[A1|A1] [A2 A3]]]]; [left; exact A|subst r'; congruence|right; exists r'; repeat split; assumption].
    - destruct Hcov as [A|[r' [[A1|A1] [A2 A3]]]]; [left; exact A|subst r'; congruence|right; exists r'; repeat split; assumption].
    - exact I.
    - destruct Hcov as [A|[r' [[A1|A1] [A2 A3]]]]; [left; apply IU; exact A|subst r'; congruence|right; exists r'; repeat split; assumption]. }
  subst pk.
  assert (Queued : r_ok r = false -> t_rev t1 = t_rev t + 1 -> item_upd q1 (o_pk (r_obj r))).
  { intros Eok C. rewrite Hq, Eok. cbn [negb andb]. unfold wrote. rewrite C, N.eqb_refl.
    destruct (add_item_spec q (queued t r) (t_rev t + 1) (r_orig r) false now) as [it [I1 [_ [I3 [I4 [I5 [I6 _]]]]]]].
    rewrite Qk in I1. exists it. repeat split; try assumption. rewrite I3, I4. lia. }
  destruct Hc as [[A [B C]]|[[cur [A [B C]]]|[cur [rv0 [A [A2 [A3 [B C]]]]]]]].
  - (* nothing written: the queue is unchanged and this result did not cover the current object *)
    assert (Hq1 : q1 = q).
    { rewrite Hq. unfold wrote. rewrite B. replace (t_rev t =? t_rev t + 1) with false by (symmetry; apply N.eqb_neq; lia).
      rewrite andb_false_r. reflexivity. }
    rewrite A, Hq1.
    destruct (slot_of t (o_pk (r_obj r))) as [[o rev|o rev]|] eqn:Es; [|exact Hcov|exact I].
    assert (Hl : t_live t (o_pk (r_obj r)) = Some (o, rev)) by (apply t_live_slot; exact Es).
    destruct (C o rev Hl) as [C1 C2].
    assert (NF : ~ ((o_kind o = Pending /\ o_sid o = r_id r) \/ (true = true /\ o_kind o = Error /\ r_rev r <> r_orig r))).
    { intro X. apply fallback_ok_spec in X. congruence. }
    destruct (o_kind o) eqn:Eo.
    + destruct Hcov as [X|[r' [[X1|X1] [X2 X3]]]]; [left; exact X| |exfalso; eapply NotRest; eassumption].
      subst r'. exfalso. destruct X3 as [X3|[_ X3]]; [congruence|]. apply NF. left. split; [reflexivity|congruence].
    + destruct Hcov as [X|[r' [[X1|X1] [X2 X3]]]]; [left; exact X| |exfalso; eapply NotRest; eassumption].
      subst r'. exfalso. destruct X3 as [X3|[X3 _]]; congruence.
    + exact I.
    + destruct Hcov as [X|[r' [[X1|X1] [X2 X3]]]]; [left; exact X| |exfalso; eapply NotRest; eassumption].
      subst r'. exfalso. apply NF. right. repeat split; assumption.
  - (* written by CompareAndSwap *)
    rewrite B. cbn [with_status o_kind].
    destruct (r_ok r) eqn:Eok; [exact I|]. left. apply Queued; [reflexivity|exact C].
  - (* written through the fallback (same pending id, or retry over our Error status) *)
    rewrite B. cbn [with_status o_kind].
    destruct (r_ok r) eqn:Eok; [exact I|]. left. apply Queued; [reflexivity|exact C].
Qed.

Theorem commit_status_covers : forall c now res t q t' q',
  keyed t -> uniq q -> NoDup (map (fun r => o_pk (r_obj r)) res) ->
  (forall r, In r res -> r_orig r <= t_rev t) ->
  (forall pk, covered t c res q pk) -> commit_status now t q res = (t', q') ->
  forall pk, covered t' c [] q' pk.
Proof.
  intros c now res. unfold commit_status, commit_status_gen.
  induction res as [|r rest IH]; intros t q t' q' Hk Hu Hnd Hpast Hcov H.
  - cbn in H. injection H as H1 H2. subst. exact Hcov.
  - cbn [fold_left] in H. destruct (commit_one true true now (t, q) r) as [t1 q1] eqn:E1.
    cbn [map] in Hnd. inversion Hnd as [|x xs Hx Hr]; subst.
    destruct (commit_one_spec _ _ _ _ _ _ _ _ Hk E1) as [_ [Hc Hq]].
    assert (Hmono : t_rev t <= t_rev t1).
    { destruct Hc as [[_ [B _]]|[[cur [_ [_ C]]]|[cur [rv0 [_ [_ [_ [_ C]]]]]]]]; lia. }
    apply (IH t1 q1 t' q').
    + eapply commit_one_keyed; eassumption.
    + rewrite Hq. destruct (negb (r_ok r) && wrote t t1); [apply uniq_add|]; exact Hu.
    + exact Hr.
    + intros r2 Hin. specialize (Hpast r2 (or_intror Hin)). lia.
    + eapply commit_one_covers; try eassumption. apply Hpast. left. reflexivity.
    + exact H.
Qed.
End Cover.

(* ------------------------------------------------------------------ round structure *)
Lemma single_skips : forall rs snap c rest e q res nrec lastrev,
  c_del c = false -> is_pending (c_obj c) = false ->
  single rs snap (c :: rest) e q res nrec lastrev = single rs snap rest e q res nrec (c_rev c).
Proof. intros. cbn [single]. rewrite H, H0. reflexivity. Qed.
