(* Reconciler/Model.v — executable model of the statedb reconciler (reconciler/reconciler.go,
   incremental.go, progress.go) over an abstract table, plus the scripted environment of the
   correspondence harness (fault oracle, user writes placed inside in-flight operations).
   No proofs here. Go counterparts are named next to each definition. *)
From Coq Require Import List NArith Bool.
From SV Require Export Reconciler.Retries.
Import ListNotations.
Open Scope N_scope.

(* ------------------------------------------------------------------ association lists *)
Fixpoint aget {V} (k : N) (l : list (N * V)) : option V :=
  match l with
  | [] => None
  | (k', v) :: r => if k' =? k then Some v else aget k r
  end.
Fixpoint aset {V} (k : N) (v : V) (l : list (N * V)) : list (N * V) :=
  match l with
  | [] => [(k, v)]
  | (k', v') :: r => if k' =? k then (k, v) :: r else (k', v') :: aset k v r
  end.
Fixpoint adel {V} (k : N) (l : list (N * V)) : list (N * V) :=
  match l with
  | [] => []
  | (k', v') :: r => if k' =? k then adel k r else (k', v') :: adel k r
  end.

(* ------------------------------------------------------------------ the table (statedb, abstracted) *)
(* Live: object in the primary/revision index at that revision.
   Dead: object in the graveyard with its deletion revision (write_txn.go delete); a later insert of the
   same key replaces the graveyard entry (write_txn.go insert "remove an older deleted object"). *)
Inductive slot := Live (o : obj) (rev : N) | Dead (o : obj) (rev : N).

Record table := mkTable {
  t_slots : list (N * slot);
  t_rev : N;           (* table revision *)
  t_nextid : N;        (* reconciler/types.go idGen *)
  t_pendinit : bool    (* a table initializer is still pending (table.go RegisterInitializer) *)
}.

Definition t_empty (pendinit : bool) : table := mkTable [] 0 1 pendinit.

(* Table.Get *)
Definition t_live (t : table) (pk : N) : option (obj * N) :=
  match aget pk (t_slots t) with Some (Live o r) => Some (o, r) | _ => None end.

(* Table.Insert *)
Definition t_insert (t : table) (o : obj) : table :=
  let r := t_rev t + 1 in
  mkTable (aset (o_pk o) (Live o r) (t_slots t)) r (t_nextid t) (t_pendinit t).

(* Table.Delete *)
Definition t_delete (t : table) (pk : N) : table :=
  match aget pk (t_slots t) with
  | Some (Live o _) =>
    let r := t_rev t + 1 in mkTable (aset pk (Dead o r) (t_slots t)) r (t_nextid t) (t_pendinit t)
  | _ => t
  end.

Definition t_fresh_id (t : table) : table * N :=
  (mkTable (t_slots t) (t_rev t) (t_nextid t + 1) (t_pendinit t), t_nextid t).

Inductive casres := CasOk | CasNotFound | CasMismatch (cur : obj) (currev : N).

(* Table.CompareAndSwap(guard, o) (write_txn.go insert with guardRevision) *)
Definition t_cas (t : table) (guard : N) (o : obj) : table * casres :=
  match t_live t (o_pk o) with
  | None => (t, CasNotFound)
  | Some (cur, r) => if r =? guard then (t_insert t o, CasOk) else (t, CasMismatch cur r)
  end.

(* the change iterator (iterator.go changeIterator.Next over a snapshot): every object whose revision is
   above the cursor, deletions included, latest state only, in revision order. The two cursors
   (revision / deleteRevision) of the code are merged: both streams are consumed in merged revision
   order, so everything at or below the last delivered revision has been delivered. *)
Record change := mkChange { c_obj : obj; c_rev : N; c_del : bool }.
Definition slot_change (s : slot) : change :=
  match s with Live o r => mkChange o r false | Dead o r => mkChange o r true end.
Fixpoint insert_by_rev (c : change) (l : list change) : list change :=
  match l with
  | [] => [c]
  | d :: r => if c_rev c <=? c_rev d then c :: l else d :: insert_by_rev c r
  end.
Definition changes_of (t : table) (cursor : N) : list change :=
  fold_right insert_by_rev []
    (filter (fun c => cursor <? c_rev c) (map (fun kv => slot_change (snd kv)) (t_slots t))).

Definition with_status (o : obj) (k : skind) (id : N) : obj := mkObj (o_pk o) (o_ver o) k id (o_aux o).
(* a write of another writer (a second reconciler's status): everything of ours is kept *)
Definition bump_aux (o : obj) : obj := mkObj (o_pk o) (o_ver o) (o_kind o) (o_sid o) (o_aux o + 1).

(* Status.IsPendingOrRefreshing *)
Definition is_pending (o : obj) : bool :=
  match o_kind o with Pending | Refreshing => true | _ => false end.

(* ------------------------------------------------------------------ status commit *)
(* incremental.go opResult *)
Record opres := mkRes {
  r_obj : obj;     (* original *)
  r_rev : N;       (* rev *)
  r_orig : N;      (* origRev *)
  r_id : N;        (* id: the pending identifier *)
  r_ok : bool      (* err == nil *)
}.

(* the fallback condition of incremental.go commitStatus after a revision mismatch:
   (currentStatus.Kind == Pending && currentStatus.ID == result.id) ||
   (isRetry && currentStatus.Kind == Error)   with isRetry := result.rev != result.origRev.
   efb = false: the variant before fix 8844901 (no Error-status fallback for retries). *)
Definition fallback_ok (efb : bool) (cur : obj) (r : opres) : bool :=
  match o_kind cur with
  | Pending => o_sid cur =? r_id r
  | Error => efb && negb (r_rev r =? r_orig r)
  | _ => false
  end.

(* one iteration of the loop of incremental.go commitStatus.
   fixed = true: the code as it is (origRev carried through);
   fixed = false: the variant before fix cd98c3d (retries.Add(..., newRevision, result.rev, ...)).
   efb: see fallback_ok.
   The retry is queued with result.original: the reconciled object after a successful CompareAndSwap, the
   object just inserted (current with the new status) after the fallback (fix 1583841). *)
Definition commit_one (fixed efb : bool) (now : N) (tq : table * retries) (r : opres) : table * retries :=
  let (t, q) := tq in
  let (t1, id) := t_fresh_id t in                                (* StatusDone()/StatusError(err) *)
  let st := if r_ok r then Done else Error in
  let '(t2, wrote, orig) :=
    match t_cas t1 (r_rev r) (with_status (r_obj r) st id) with
    | (t', CasOk) => (t', true, r_obj r)
    | (t', CasNotFound) => (t', false, r_obj r)
    | (t', CasMismatch cur _) =>
      (* the object had changed: apply the result to the CURRENT object iff only the status changed *)
      if fallback_ok efb cur r then (t_insert t' (with_status cur st id), true, with_status cur st id)
      else (t', false, r_obj r)
    end in
  if negb (r_ok r) && wrote
  then (t2, r_add q orig (t_rev t2) (if fixed then r_orig r else r_rev r) false now)
  else (t2, q).

(* the variant before fix 1583841: after the fallback the retry is queued with the STALE reconciled object
   (kept for the refutation stale_retry_clobbers_refuted) *)
Definition commit_one_stale (fixed efb : bool) (now : N) (tq : table * retries) (r : opres) : table * retries :=
  let (t, q) := tq in
  let (t1, id) := t_fresh_id t in
  let st := if r_ok r then Done else Error in
  let '(t2, wrote) :=
    match t_cas t1 (r_rev r) (with_status (r_obj r) st id) with
    | (t', CasOk) => (t', true)
    | (t', CasNotFound) => (t', false)
    | (t', CasMismatch cur _) =>
      if fallback_ok efb cur r then (t_insert t' (with_status cur st id), true) else (t', false)
    end in
  if negb (r_ok r) && wrote
  then (t2, r_add q (r_obj r) (t_rev t2) (if fixed then r_orig r else r_rev r) false now)
  else (t2, q).

(* incremental.go commitStatus (the map iteration order of `results` is modelled as processing order) *)
Definition commit_status_gen (fixed efb : bool) (now : N) (t : table) (q : retries) (res : list opres)
  : table * retries := fold_left (commit_one fixed efb now) res (t, q).
Definition commit_status := commit_status_gen true true.
(* variant before fix cd98c3d, kept for the refutation low_watermark_drift_refuted *)
Definition commit_status_old := commit_status_gen false false.
(* variant before fix 8844901, kept for the refutation convergence_refuted_by_foreign_status_write *)
Definition commit_status_nofallback_old := commit_status_gen true false.
(* variant before fix 1583841 *)
Definition commit_status_stale (now : N) (t : table) (q : retries) (res : list opres) : table * retries :=
  fold_left (commit_one_stale true true now) res (t, q).

(* ------------------------------------------------------------------ scripted environment (harness) *)
(* user write kinds: 0 put | 1 del | 2 reins | 3 stat (guarded) | 4 statx | 5 ref | 6 pend.
   stat/statx are the writes of ANOTHER writer: they change o_aux only (bump_aux).
   The object's status may be a plain reconciler.Status or a reconciler.StatusSet entry read through
   StatusSet.Get(name): both are a (kind, id) pair; NewStatusSet()/Pending() give a fresh id. *)
Record call := mkCall {
  cl_t : N; cl_op : N;            (* 0 U | 1 D | 2 UB | 3 DB | 4 Prune *)
  cl_pk : N; cl_ver : N; cl_rev : N;
  cl_exact : bool;                (* rev is the revision of a user write *)
  cl_cur : bool;                  (* rev is the revision of the object in the round's snapshot *)
  cl_ok : bool;
  cl_prune : list (N * N)         (* contents handed to Prune *)
}.

Record env := mkEnv {
  e_tab : table;
  e_now : N;
  e_attempts : list (N * N);          (* per key: number of Update/Delete attempts so far *)
  e_faults : list (N * N);            (* (key, attempt) pairs that fail *)
  e_hooks : list (N * N * (N * N));   (* (key, attempt, (write kind, key2)) *)
  e_foff : bool;                      (* faults switched off (op `final`) *)
  e_ver : N;                          (* payload version counter *)
  e_urevs : list N;                   (* revisions produced by user writes *)
  e_calls : list call;                (* call log since the last print, in call order *)
  e_target : list (N * N)             (* simulated target: key -> version *)
}.

Definition set_tab (e : env) (t : table) : env :=
  mkEnv t (e_now e) (e_attempts e) (e_faults e) (e_hooks e) (e_foff e) (e_ver e) (e_urevs e) (e_calls e) (e_target e).
Definition add_urev (e : env) : env :=
  mkEnv (e_tab e) (e_now e) (e_attempts e) (e_faults e) (e_hooks e) (e_foff e) (e_ver e)
        (t_rev (e_tab e) :: e_urevs e) (e_calls e) (e_target e).
Definition bump_ver (e : env) : env :=
  mkEnv (e_tab e) (e_now e) (e_attempts e) (e_faults e) (e_hooks e) (e_foff e) (e_ver e + 1) (e_urevs e) (e_calls e) (e_target e).

(* harness doWrite("put"): insert/update with a new payload version and StatusPending(); the other
   writers' data of an existing object is kept (o.Other = old.Other), a new object starts at 0 *)
Definition w_put (e : env) (k : N) : env :=
  let aux := match t_live (e_tab e) k with Some (o, _) => o_aux o | None => 0 end in
  let e := bump_ver e in
  let (t, id) := t_fresh_id (e_tab e) in
  add_urev (set_tab e (t_insert t (mkObj k (e_ver e) Pending id aux))).
Definition w_del (e : env) (k : N) : env :=
  match t_live (e_tab e) k with
  | Some _ => add_urev (set_tab e (t_delete (e_tab e) k))
  | None => e
  end.
Definition w_stat (guarded : bool) (e : env) (k : N) : env :=
  match t_live (e_tab e) k with
  | Some (o, _) =>
    if guarded && match o_kind o with Error => true | _ => false end then e
    else add_urev (set_tab e (t_insert (e_tab e) (bump_aux o)))
  | None => e
  end.
Definition w_ref (e : env) (k : N) : env :=
  match t_live (e_tab e) k with
  | Some (o, _) =>
    match o_kind o with
    | Done => let (t, id) := t_fresh_id (e_tab e) in add_urev (set_tab e (t_insert t (with_status o Refreshing id)))
    | _ => e
    end
  | None => e
  end.
(* harness doWrite("pend"): the user re-marks the object pending without changing the payload
   (Status = StatusPending() / Statuses = Statuses.Pending()) *)
Definition w_pend (e : env) (k : N) : env :=
  match t_live (e_tab e) k with
  | Some (o, _) => let (t, id) := t_fresh_id (e_tab e) in add_urev (set_tab e (t_insert t (with_status o Pending id)))
  | None => e
  end.
Definition do_write (e : env) (kind k : N) : env :=
  match kind with
  | 0 => w_put e k
  | 1 => w_del e k
  | 2 => w_put (w_del e k) k
  | 3 => w_stat true e k
  | 4 => w_stat false e k
  | 5 => w_ref e k
  | _ => w_pend e k
  end.

Fixpoint mem_pair (a b : N) (l : list (N * N)) : bool :=
  match l with [] => false | (x, y) :: r => ((x =? a) && (y =? b)) || mem_pair a b r end.
Fixpoint mem_n (a : N) (l : list N) : bool :=
  match l with [] => false | x :: r => (x =? a) || mem_n a r end.

Fixpoint run_hooks (hs : list (N * N * (N * N))) (k n : N) (e : env) : env :=
  match hs with
  | [] => e
  | (k', n', (wk, k2)) :: r =>
    let e := if (k' =? k) && (n' =? n) then do_write e wk k2 else e in run_hooks r k n e
  end.

(* one scripted Update/Delete (or batch entry) on object o with revision rev, in a round whose
   snapshot is snap: harness eng.call. fresh = the call comes from the change stream (not a retry).
   Attempt counters and hooks are keyed by 2*pk (all attempts) and 2*pk+1 (fresh attempts only). *)
Definition do_call (e : env) (snap : table) (fresh : bool) (op : N) (o : obj) (rev : N) : env * bool :=
  let k := o_pk o in
  let n := match aget (2 * k) (e_attempts e) with Some n => n | None => 0 end in
  let fn := match aget (2 * k + 1) (e_attempts e) with Some n => n | None => 0 end in
  let exact := mem_n rev (e_urevs e) in
  let cur := match t_live snap k with Some (_, r) => r =? rev | None => false end in
  let att := aset (2 * k) (n + 1) (e_attempts e) in
  let att := if fresh then aset (2 * k + 1) (fn + 1) att else att in
  let e := mkEnv (e_tab e) (e_now e) att (e_faults e) (e_hooks e) (e_foff e)
                 (e_ver e) (e_urevs e) (e_calls e) (e_target e) in
  let e := run_hooks (e_hooks e) (2 * k) n e in
  let e := if fresh then run_hooks (e_hooks e) (2 * k + 1) fn e else e in
  let ok := negb (mem_pair k n (e_faults e) && negb (e_foff e)) in
  let isupd := (op =? 0) || (op =? 2) in
  let tg := if ok then (if isupd then aset k (o_ver o) (e_target e) else adel k (e_target e)) else e_target e in
  (mkEnv (e_tab e) (e_now e) (e_attempts e) (e_faults e) (e_hooks e) (e_foff e) (e_ver e) (e_urevs e)
         (e_calls e ++ [mkCall (e_now e) op k (o_ver o) rev exact cur ok []]) tg, ok).

(* ------------------------------------------------------------------ the reconciler *)
Record cfg := mkCfg {
  cf_batch : bool;   (* BatchOperations != nil *)
  cf_rs : N;         (* IncrementalRoundSize *)
  cf_min : N; cf_max : N;   (* RetryBackoffMin/MaxDuration *)
  cf_prunei : N;     (* PruneInterval, 0 = WithoutPruning *)
  cf_init : bool     (* a table initializer is registered before start *)
}.

(* state kept across rounds: reconciler.go reconcileLoop locals + retries + progressTracker *)
Record rstate := mkR {
  k_cursor : N;       (* change iterator position *)
  k_ret : retries;
  k_prev : N;         (* progressTracker.revision *)
  k_plwm : N;         (* progressTracker.retryLowWatermark *)
  k_tinit : bool;     (* tableInitialized *)
  k_ext : bool;       (* externalPrune *)
  k_exttok : bool;    (* a token sits in externalPruneTrigger *)
  k_tick : N          (* next prune ticker tick (meaningful when cf_prunei > 0) *)
}.

Definition now_of (e : env) := e_now e.

(* incremental.go processSingle *)
Definition process_single (e : env) (snap : table) (fresh : bool) (q : retries) (res : list opres)
           (o : obj) (rev orig : N) (del : bool) : env * retries * list opres :=
  if del then
    let (e, ok) := do_call e snap fresh 1 o rev in
    if ok then (e, r_clear q (o_pk o), res)
    else (e, r_add q o rev orig true (e_now e), res)
  else
    let (e, ok) := do_call e snap fresh 0 o rev in
    let res := res ++ [mkRes o rev orig (o_sid o) ok] in
    (e, if ok then r_clear q (o_pk o) else q, res).

(* incremental.go single: returns (env, retries, results, numReconciled, lastRev) *)
Fixpoint single (rs : N) (snap : table) (chs : list change) (e : env) (q : retries) (res : list opres)
         (nrec lastrev : N) : env * retries * list opres * N * N :=
  match chs with
  | [] => (e, q, res, nrec, lastrev)
  | c :: rest =>
    let lastrev := c_rev c in
    if negb (c_del c) && negb (is_pending (c_obj c)) then single rs snap rest e q res nrec lastrev
    else
      let q := r_clear q (o_pk (c_obj c)) in
      let '(e, q, res) := process_single e snap true q res (c_obj c) (c_rev c) (c_rev c) (c_del c) in
      let nrec := nrec + 1 in
      if rs <=? nrec then (e, q, res, nrec, lastrev) else single rs snap rest e q res nrec lastrev
  end.

(* incremental.go batch, first loop: collect the delete and update batches *)
Fixpoint batch_collect (rs : N) (chs : list change) (q : retries) (dels upds : list change)
         (nrec lastrev : N) : retries * list change * list change * N * N :=
  match chs with
  | [] => (q, dels, upds, nrec, lastrev)
  | c :: rest =>
    let lastrev := c_rev c in
    if negb (c_del c) && negb (is_pending (c_obj c)) then batch_collect rs rest q dels upds nrec lastrev
    else
      let q := r_clear q (o_pk (c_obj c)) in
      let dels := if c_del c then dels ++ [c] else dels in
      let upds := if c_del c then upds else upds ++ [c] in
      let nrec := nrec + 1 in
      if rs <=? nrec then (q, dels, upds, nrec, lastrev) else batch_collect rs rest q dels upds nrec lastrev
  end.

(* DeleteBatch as scripted by the harness + "Delete failed, queue a retry for it" *)
Fixpoint batch_deletes (snap : table) (dels : list change) (e : env) (q : retries) : env * retries :=
  match dels with
  | [] => (e, q)
  | c :: rest =>
    let (e, ok) := do_call e snap true 3 (c_obj c) (c_rev c) in
    let q := if ok then q else r_add q (c_obj c) (c_rev c) (c_rev c) true (e_now e) in
    batch_deletes snap rest e q
  end.

(* UpdateBatch as scripted by the harness: the calls happen first ... *)
Fixpoint batch_update_calls (snap : table) (upds : list change) (e : env) (acc : list (change * bool))
  : env * list (change * bool) :=
  match upds with
  | [] => (e, acc)
  | c :: rest =>
    let (e, ok) := do_call e snap true 2 (c_obj c) (c_rev c) in
    batch_update_calls snap rest e (acc ++ [(c, ok)])
  end.
(* ... then the results loop of incremental.go batch *)
Fixpoint batch_results (l : list (change * bool)) (q : retries) (res : list opres) : retries * list opres :=
  match l with
  | [] => (q, res)
  | (c, ok) :: rest =>
    let q := if ok then r_clear q (o_pk (c_obj c)) else q in
    batch_results rest q (res ++ [mkRes (c_obj c) (c_rev c) (c_rev c) (o_sid (c_obj c)) ok])
  end.

(* incremental.go processRetries; the loop is bounded by the round size *)
Fixpoint process_retries (fuel : nat) (rs : N) (snap : table) (e : env) (q : retries) (res : list opres)
         (nrec : N) : env * retries * list opres * N :=
  match fuel with
  | O => (e, q, res, nrec)
  | S f =>
    if nrec <? rs then
      match r_top q with
      | None => (e, q, res, nrec)
      | Some it =>
        if e_now e <? ri_at it then (e, q, res, nrec)
        else
          let q := r_pop q in
          let '(e, q, res) := process_single e snap false q res (ri_obj it) (ri_rev it) (ri_orig it) (ri_del it) in
          process_retries f rs snap e q res (nrec + 1)
      end
    else (e, q, res, nrec)
  end.

Definition live_contents (t : table) : list (N * N) :=
  flat_map (fun kv => match snd kv with Live o _ => [(o_pk o, o_ver o)] | Dead _ _ => [] end) (t_slots t).

(* progress.go progressTracker.update *)
Definition progress_update (s : rstate) (rev lwm : N) : rstate :=
  mkR (k_cursor s) (k_ret s) (if k_prev s <? rev then rev else k_prev s) lwm
      (k_tinit s) (k_ext s) (k_exttok s) (k_tick s).

(* progress.go progressTracker.wait with a context that is cancelled as soon as it would block:
   (revision, retryLowWatermark, err == nil) *)
Definition wur (s : rstate) (req : N) : N * N * bool := (k_prev s, k_plwm s, req <=? k_prev s).

(* one iteration of reconciler.go reconcileLoop after the trigger: snapshot, incremental.run
   (single|batch, commitStatus, processRetries, commitStatus), progress.update, prune gating.
   All ready prune-related triggers are consumed by the same round (the harness keeps them apart). *)
Definition round_gen (fixed efb : bool) (cf : cfg) (e : env) (s : rstate) : env * rstate :=
  (* triggers *)
  let initfire := negb (k_tinit s) && negb (t_pendinit (e_tab e)) in
  let tick := negb (cf_prunei cf =? 0) && (k_tick s <=? e_now e) in
  let prune := (initfire && negb (cf_prunei cf =? 0)) || tick in
  let tinit := k_tinit s || initfire in
  let ext := k_ext s || k_exttok s in
  let nexttick := if tick then k_tick s + cf_prunei cf else k_tick s in
  (* txn = r.DB.ReadTxn(); changes = changeIterator.Next(txn) *)
  let snap := e_tab e in
  let chs := changes_of snap (k_cursor s) in
  let q := k_ret s in
  let '(e, q, res, nrec, lastrev) :=
    if cf_batch cf then
      let '(q, dels, upds, nrec, lastrev) := batch_collect (cf_rs cf) chs q [] [] 0 0 in
      let (e, q) := batch_deletes snap dels e q in
      let (e, l) := batch_update_calls snap upds e [] in
      let (q, res) := batch_results l q [] in
      (e, q, res, nrec, lastrev)
    else single (cf_rs cf) snap chs e q [] 0 0 in
  let cursor := if lastrev =? 0 then k_cursor s else lastrev in
  (* newErrors := incr.commitStatus(); clear(incr.results) *)
  let (t, q) := commit_status_gen fixed efb (e_now e) (e_tab e) q res in
  let e := set_tab e t in
  (* retryLowWatermark = incr.processRetries(ctx, txn) *)
  let '(e, q, res2, _) := process_retries (N.to_nat (cf_rs cf)) (cf_rs cf) snap e q [] nrec in
  let lwm := r_low_watermark q in
  (* newErrors += incr.commitStatus() *)
  let (t, q) := commit_status_gen fixed efb (e_now e) (e_tab e) q res2 in
  let e := set_tab e t in
  let s' := progress_update (mkR cursor q (k_prev s) (k_plwm s) tinit ext false nexttick) lastrev lwm in
  (* if tableInitialized && (prune || externalPrune) { r.prune(ctx, txn); externalPrune = false } *)
  if tinit && (prune || ext) then
    let e := mkEnv (e_tab e) (e_now e) (e_attempts e) (e_faults e) (e_hooks e) (e_foff e) (e_ver e) (e_urevs e)
                   (e_calls e ++ [mkCall (e_now e) 4 0 0 0 false false true (live_contents snap)]) (e_target e) in
    (e, mkR (k_cursor s') (k_ret s') (k_prev s') (k_plwm s') (k_tinit s') false false (k_tick s'))
  else (e, s').

Definition round := round_gen true true.

(* some case of the select in reconcileLoop is ready *)
Definition trigger_ready (cf : cfg) (e : env) (s : rstate) : bool :=
  match changes_of (e_tab e) (k_cursor s) with _ :: _ => true | [] => false end
  || r_fired (k_ret s) (e_now e)
  || (negb (k_tinit s) && negb (t_pendinit (e_tab e)))
  || k_exttok s
  || (negb (cf_prunei cf =? 0) && (k_tick s <=? e_now e)).

(* run rounds until the loop blocks in the select (synctest.Wait) *)
Fixpoint settle_gen (fixed efb : bool) (fuel : nat) (cf : cfg) (e : env) (s : rstate) : env * rstate :=
  match fuel with
  | O => (e, s)
  | S f => if trigger_ready cf e s then let (e, s) := round_gen fixed efb cf e s in settle_gen fixed efb f cf e s else (e, s)
  end.
Definition settle := settle_gen true true.

Definition set_now (e : env) (t : N) : env :=
  mkEnv (e_tab e) t (e_attempts e) (e_faults e) (e_hooks e) (e_foff e) (e_ver e) (e_urevs e) (e_calls e) (e_target e).

(* the next timer event strictly after now and not after `until` *)
Definition next_event (cf : cfg) (e : env) (s : rstate) (until : N) : option N :=
  let a := match q_timer (k_ret s) with Some d => if d <=? until then Some d else None | None => None end in
  let b := if negb (cf_prunei cf =? 0) && (k_tick s <=? until) then Some (k_tick s) else None in
  match a, b with
  | Some x, Some y => Some (N.min x y)
  | Some x, None => Some x
  | None, y => y
  end.

(* time.Sleep(until - now) in the bubble followed by synctest.Wait *)
Fixpoint advance_gen (fixed efb : bool) (fuel : nat) (sfuel : nat) (cf : cfg) (e : env) (s : rstate) (until : N) : env * rstate :=
  match fuel with
  | O => (set_now e until, s)
  | S f =>
    match next_event cf e s until with
    | None => (set_now e until, s)
    | Some t =>
      let e := set_now e (N.max t (e_now e)) in
      let (e, s) := settle_gen fixed efb sfuel cf e s in
      advance_gen fixed efb f sfuel cf e s until
    end
  end.
Definition advance := advance_gen true true.

Definition env0 (cf : cfg) : env := mkEnv (t_empty (cf_init cf)) 0 [] [] [] false 0 [] [] [].
Definition rstate0 (cf : cfg) : rstate :=
  mkR 0 (r_new (cf_min cf) (cf_max cf)) 0 0 false false false (cf_prunei cf).

(* helpers for the driver *)
Definition add_fault (e : env) (k n : N) : env :=
  mkEnv (e_tab e) (e_now e) (e_attempts e) ((k, n) :: e_faults e) (e_hooks e) (e_foff e) (e_ver e) (e_urevs e) (e_calls e) (e_target e).
(* k is 2*pk for a hook indexed by attempt, 2*pk+1 for a hook indexed by fresh attempt *)
Definition add_hook (e : env) (k n wk k2 : N) : env :=
  mkEnv (e_tab e) (e_now e) (e_attempts e) (e_faults e) (e_hooks e ++ [(k, n, (wk, k2))]) (e_foff e) (e_ver e) (e_urevs e) (e_calls e) (e_target e).
Definition faults_off (e : env) : env :=
  mkEnv (e_tab e) (e_now e) (e_attempts e) (e_faults e) (e_hooks e) true (e_ver e) (e_urevs e) (e_calls e) (e_target e).
Definition clear_calls (e : env) : env :=
  mkEnv (e_tab e) (e_now e) (e_attempts e) (e_faults e) (e_hooks e) (e_foff e) (e_ver e) (e_urevs e) [] (e_target e).
Definition ext_prune (s : rstate) : rstate :=
  mkR (k_cursor s) (k_ret s) (k_prev s) (k_plwm s) (k_tinit s) (k_ext s) true (k_tick s).
Definition mark_init (e : env) : env :=
  set_tab e (mkTable (t_slots (e_tab e)) (t_rev (e_tab e)) (t_nextid (e_tab e)) false).
Definition kind_code (k : skind) : N := match k with Pending => 0 | Refreshing => 1 | Done => 2 | Error => 3 end.
Definition live_objs (t : table) : list (N * N * N) :=
  flat_map (fun kv => match snd kv with Live o _ => [(o_pk o, o_ver o, kind_code (o_kind o))] | Dead _ _ => [] end) (t_slots t).

(* ------------------------------------------------------------------ variants of commitStatus that are not instances of commit_status_gen *)
(* round / settle / advance with the status commit as a parameter:
   round_with (commit_status_gen fixed efb) = round_gen fixed efb etc. by reflexivity (Refuted.v) *)
Definition round_with (commit : N -> table -> retries -> list opres -> table * retries) (cf : cfg) (e : env) (s : rstate) : env * rstate :=
  (* triggers *)
  let initfire := negb (k_tinit s) && negb (t_pendinit (e_tab e)) in
  let tick := negb (cf_prunei cf =? 0) && (k_tick s <=? e_now e) in
  let prune := (initfire && negb (cf_prunei cf =? 0)) || tick in
  let tinit := k_tinit s || initfire in
  let ext := k_ext s || k_exttok s in
  let nexttick := if tick then k_tick s + cf_prunei cf else k_tick s in
  (* txn = r.DB.ReadTxn(); changes = changeIterator.Next(txn) *)
  let snap := e_tab e in
  let chs := changes_of snap (k_cursor s) in
  let q := k_ret s in
  let '(e, q, res, nrec, lastrev) :=
    if cf_batch cf then
      let '(q, dels, upds, nrec, lastrev) := batch_collect (cf_rs cf) chs q [] [] 0 0 in
      let (e, q) := batch_deletes snap dels e q in
      let (e, l) := batch_update_calls snap upds e [] in
      let (q, res) := batch_results l q [] in
      (e, q, res, nrec, lastrev)
    else single (cf_rs cf) snap chs e q [] 0 0 in
  let cursor := if lastrev =? 0 then k_cursor s else lastrev in
  (* newErrors := incr.commitStatus(); clear(incr.results) *)
  let (t, q) := commit (e_now e) (e_tab e) q res in
  let e := set_tab e t in
  (* retryLowWatermark = incr.processRetries(ctx, txn) *)
  let '(e, q, res2, _) := process_retries (N.to_nat (cf_rs cf)) (cf_rs cf) snap e q [] nrec in
  let lwm := r_low_watermark q in
  (* newErrors += incr.commitStatus() *)
  let (t, q) := commit (e_now e) (e_tab e) q res2 in
  let e := set_tab e t in
  let s' := progress_update (mkR cursor q (k_prev s) (k_plwm s) tinit ext false nexttick) lastrev lwm in
  (* if tableInitialized && (prune || externalPrune) { r.prune(ctx, txn); externalPrune = false } *)
  if tinit && (prune || ext) then
    let e := mkEnv (e_tab e) (e_now e) (e_attempts e) (e_faults e) (e_hooks e) (e_foff e) (e_ver e) (e_urevs e)
                   (e_calls e ++ [mkCall (e_now e) 4 0 0 0 false false true (live_contents snap)]) (e_target e) in
    (e, mkR (k_cursor s') (k_ret s') (k_prev s') (k_plwm s') (k_tinit s') false false (k_tick s'))
  else (e, s').


Fixpoint settle_with (commit : N -> table -> retries -> list opres -> table * retries) (fuel : nat) (cf : cfg) (e : env) (s : rstate) : env * rstate :=
  match fuel with
  | O => (e, s)
  | S f => if trigger_ready cf e s then let (e, s) := round_with commit cf e s in settle_with commit f cf e s else (e, s)
  end.

Fixpoint advance_with (commit : N -> table -> retries -> list opres -> table * retries) (fuel : nat) (sfuel : nat) (cf : cfg) (e : env) (s : rstate) (until : N) : env * rstate :=
  match fuel with
  | O => (set_now e until, s)
  | S f =>
    match next_event cf e s until with
    | None => (set_now e until, s)
    | Some t =>
      let e := set_now e (N.max t (e_now e)) in
      let (e, s) := settle_with commit sfuel cf e s in
      advance_with commit f sfuel cf e s until
    end
  end.

(* the reconciler before fix 1583841 *)
Definition round_stale := round_with commit_status_stale.
Definition settle_stale := settle_with commit_status_stale.
Definition advance_stale := advance_with commit_status_stale.

(* live objects with the other writers' data: (key, payload version, status kind, aux) *)
Definition live_objs_aux (t : table) : list (N * N * N * N) :=
  flat_map (fun kv => match snd kv with Live o _ => [(o_pk o, o_ver o, kind_code (o_kind o), o_aux o)] | Dead _ _ => [] end) (t_slots t).
