(* Reconciler/CommitProofs.v — proofs about incremental.go commitStatus (C15) and about origRev being
   carried through retries (C16, fix cd98c3d). *)
From Coq Require Import List NArith Bool Lia ZifyN ZifyBool.
From SV Require Import Reconciler.Retries Reconciler.Model Reconciler.RetriesProofs.
Import ListNotations.
Open Scope N_scope.

Lemma aget_aset_same : forall V k (v : V) l, aget k (aset k v l) = Some v.
Proof.
  intros V k v l. induction l as [|[k' v'] r IH]; cbn [aset aget].
  - rewrite N.eqb_refl. reflexivity.
  - destruct (k' =? k) eqn:E; cbn [aget]; [rewrite N.eqb_refl; reflexivity|rewrite E; exact IH].
Qed.

Lemma aget_aset_other : forall V k k' (v : V) l, k' <> k -> aget k' (aset k v l) = aget k' l.
Proof.
  intros V k k' v l Hn. induction l as [|[k0 v0] r IH]; cbn [aset aget].
  - destruct (k =? k') eqn:E; [apply N.eqb_eq in E; congruence|reflexivity].
  - destruct (k0 =? k) eqn:E; cbn [aget].
    + apply N.eqb_eq in E. subst k0.
      destruct (k =? k') eqn:E2; [apply N.eqb_eq in E2; congruence|reflexivity].
    + destruct (k0 =? k'); [reflexivity|exact IH].
Qed.

Definition slot_of (t : table) (k : N) : option slot := aget k (t_slots t).

Lemma slot_insert_same : forall t o, slot_of (t_insert t o) (o_pk o) = Some (Live o (t_rev t + 1)).
Proof. intros. unfold slot_of, t_insert. cbn [t_slots]. apply aget_aset_same. Qed.
Lemma slot_insert_other : forall t o k, k <> o_pk o -> slot_of (t_insert t o) k = slot_of t k.
Proof. intros. unfold slot_of, t_insert. cbn [t_slots]. apply aget_aset_other. exact H. Qed.
Lemma t_live_slot : forall t k o r, t_live t k = Some (o, r) <-> slot_of t k = Some (Live o r).
Proof.
  intros. unfold t_live, slot_of. destruct (aget k (t_slots t)) as [[o' r'|o' r']|]; split; intro H;
    try discriminate; injection H as H1 H2; subst; reflexivity.
Qed.

Definition wrote (t t' : table) : bool := t_rev t' =? t_rev t + 1.

(* every live object is stored under its own primary key *)
Definition keyed (t : table) : Prop := forall k o r, slot_of t k = Some (Live o r) -> o_pk o = k.

Lemma keyed_insert : forall t o, keyed t -> keyed (t_insert t o).
Proof.
  intros t o H k o' r' Hs. destruct (N.eq_dec k (o_pk o)) as [E|E].
  - subst k. rewrite slot_insert_same in Hs. injection Hs as H1 H2. subst o'. reflexivity.
  - rewrite slot_insert_other in Hs by exact E. apply (H k o' r'). exact Hs.
Qed.

(* when the fallback applies: Pending with the reconciled id, or (code after fix 8844901) a retry
   result meeting an object that still carries our Error status *)
Lemma fallback_ok_spec : forall efb cur r, fallback_ok efb cur r = true <->
  (o_kind cur = Pending /\ o_sid cur = r_id r) \/ (efb = true /\ o_kind cur = Error /\ r_rev r <> r_orig r).
Proof.
  intros efb cur r. unfold fallback_ok. destruct (o_kind cur) eqn:Ek.
  - rewrite N.eqb_eq. split; [intro H; left; split; [reflexivity|exact H]|].
    intros [[_ H]|[_ [H _]]]; [exact H|discriminate].
  - split; [discriminate|]. intros [[H _]|[_ [H _]]]; discriminate.
  - split; [discriminate|]. intros [[H _]|[_ [H _]]]; discriminate.
  - destruct efb; cbn [andb].
    + destruct (r_rev r =? r_orig r) eqn:E; cbn [negb].
      * apply N.eqb_eq in E. split; [discriminate|]. intros [[H _]|[_ [_ H]]]; [discriminate|contradiction].
      * apply N.eqb_neq in E. split; [|reflexivity]. intros _. right. repeat split; assumption.
    + split; [discriminate|]. intros [[H _]|[H _]]; discriminate.
Qed.

(* Exact effect of one status commit. Three cases only:
   (1) nothing is written (object absent/deleted, or changed and the fallback does not apply);
   (2) the object still has the reconciled revision: it is replaced by the reconciled object with the
       new status (CompareAndSwap);
   (3) revision differs but the fallback applies (fallback_ok_spec): the CURRENT object gets the new status.
   No other key is touched; a missing key is never inserted; a retry is queued iff the operation had
   failed and the status write happened. *)
(* result.original at the time the retry is queued: the reconciled object after a CompareAndSwap, the
   object just inserted (current + new status) after the fallback (fix 1583841) *)
Definition queued (t : table) (r : opres) : obj :=
  match t_live t (o_pk (r_obj r)) with
  | Some (cur, rv) =>
    if rv =? r_rev r then r_obj r else with_status cur (if r_ok r then Done else Error) (t_nextid t)
  | None => r_obj r
  end.

Lemma queued_pk : forall t r, keyed t -> o_pk (queued t r) = o_pk (r_obj r).
Proof.
  intros t r Hk. unfold queued. destruct (t_live t (o_pk (r_obj r))) as [[cur rv]|] eqn:E; [|reflexivity].
  destruct (rv =? r_rev r); [reflexivity|]. cbn. apply (Hk _ cur rv). apply t_live_slot. exact E.
Qed.

Definition commit_effect (fixed efb : bool) (now : N) (t : table) (q : retries) (r : opres) (t' : table) (q' : retries) : Prop :=
  let pk := o_pk (r_obj r) in
  let st := if r_ok r then Done else Error in
  (forall k, k <> pk -> slot_of t' k = slot_of t k) /\
  ( (slot_of t' pk = slot_of t pk /\ t_rev t' = t_rev t /\
       forall cur rv, t_live t pk = Some (cur, rv) -> rv <> r_rev r /\ fallback_ok efb cur r = false)
    \/ (exists cur, t_live t pk = Some (cur, r_rev r) /\
         slot_of t' pk = Some (Live (with_status (r_obj r) st (t_nextid t)) (t_rev t + 1)) /\
         t_rev t' = t_rev t + 1)
    \/ (exists cur rv, t_live t pk = Some (cur, rv) /\ rv <> r_rev r /\ fallback_ok efb cur r = true /\
         slot_of t' pk = Some (Live (with_status cur st (t_nextid t)) (t_rev t + 1)) /\
         t_rev t' = t_rev t + 1) ) /\
  q' = (if negb (r_ok r) && wrote t t'
        then r_add q (queued t r) (t_rev t') (if fixed then r_orig r else r_rev r) false now else q).

Lemma wrote_insert : forall t t1 o, t_rev t1 = t_rev t -> (t_rev (t_insert t1 o) =? t_rev t + 1) = true.
Proof. intros t t1 o H. cbn. rewrite H. apply N.eqb_refl. Qed.
Lemma wrote_same : forall t t1, t_rev t1 = t_rev t -> (t_rev t1 =? t_rev t + 1) = false.
Proof. intros t t1 H. rewrite H. apply N.eqb_neq. lia. Qed.

Theorem commit_one_spec : forall fixed efb now t q r t' q', keyed t ->
  commit_one fixed efb now (t, q) r = (t', q') -> commit_effect fixed efb now t q r t' q'.
Proof.
  intros fixed efb now t q r t' q' Hk H. unfold commit_effect, queued.
  unfold commit_one, t_fresh_id, t_cas in H.
  set (t1 := mkTable (t_slots t) (t_rev t) (t_nextid t + 1) (t_pendinit t)) in *.
  assert (L1 : forall st, t_live t1 (o_pk (with_status (r_obj r) st (t_nextid t))) = t_live t (o_pk (r_obj r))) by reflexivity.
  rewrite L1 in H. clear L1.
  assert (S1 : forall k, slot_of t1 k = slot_of t k) by reflexivity.
  destruct (t_live t (o_pk (r_obj r))) as [[cur rv]|] eqn:EL.
  - destruct (rv =? r_rev r) eqn:Erv.
    + (* CAS on the reconciled revision *)
      apply N.eqb_eq in Erv. subst rv.
      destruct (r_ok r) eqn:Eok; cbn [negb andb] in H; injection H as H1 H2; subst t' q';
      (split; [intros k Hn; rewrite <- S1; apply (slot_insert_other t1); exact Hn|]);
      unfold wrote; erewrite wrote_insert by reflexivity; cbn [negb andb]; (split; [|reflexivity]);
      right; left; exists cur; (split; [reflexivity|]); (split; [|reflexivity]).
      * exact (slot_insert_same t1 (with_status (r_obj r) Done (t_nextid t))).
      * exact (slot_insert_same t1 (with_status (r_obj r) Error (t_nextid t))).
    + apply N.eqb_neq in Erv.
      assert (Hpk : o_pk cur = o_pk (r_obj r)) by (apply (Hk _ cur rv); apply t_live_slot; exact EL).
      destruct (fallback_ok efb cur r) eqn:Ef.
      * assert (P : forall st, slot_of (t_insert t1 (with_status cur st (t_nextid t))) (o_pk (r_obj r)) =
                    Some (Live (with_status cur st (t_nextid t)) (t_rev t + 1))).
        { intro st0. pose proof (slot_insert_same t1 (with_status cur st0 (t_nextid t))) as P.
          cbn [with_status o_pk] in P. rewrite Hpk in P. exact P. }
        destruct (r_ok r) eqn:Eok; cbn [negb andb] in H; injection H as H1 H2; subst t' q';
        (split; [intros k Hn; rewrite <- S1; apply (slot_insert_other t1); cbn [with_status o_pk]; rewrite Hpk; exact Hn|]);
        unfold wrote; erewrite wrote_insert by reflexivity; cbn [negb andb]; (split; [|reflexivity]);
        right; right; exists cur, rv; repeat split; try assumption; apply P.
      * rewrite andb_false_r in H. injection H as H1 H2. subst t' q'.
        unfold wrote. rewrite (wrote_same t t1 eq_refl), andb_false_r.
        split; [intros; apply S1|]. split; [|reflexivity]. left.
        split; [apply S1|]. split; [reflexivity|].
        intros c0 v0 Hc0. injection Hc0 as Hc1 Hc2. subst c0 v0. split; [exact Erv|exact Ef].
  - (* not found (absent or in the graveyard): nothing written, nothing queued *)
    rewrite andb_false_r in H. injection H as H1 H2. subst t' q'. unfold wrote. rewrite (wrote_same t t1 eq_refl), andb_false_r.
    split; [intros; apply S1|]. split; [|reflexivity]. left.
    split; [apply S1|]. split; [reflexivity|]. intros cur rv Hc. discriminate.
Qed.

(* ------------------------------------------------------------------ C15 corollaries *)
Definition payload (t : table) (k : N) : option N :=
  match slot_of t k with Some (Live o _) => Some (o_ver o) | _ => None end.
Definition not_live (t : table) (k : N) : Prop :=
  match slot_of t k with Some (Live _ _) => False | _ => True end.

(* the reconciled object of a result is the object the table held at the reconciled revision
   (revisions identify object versions): same payload, same data of the other writers *)
Definition rev_identifies (t : table) (r : opres) : Prop :=
  forall cur, t_live t (o_pk (r_obj r)) = Some (cur, r_rev r) ->
    o_ver cur = o_ver (r_obj r) /\ o_aux cur = o_aux (r_obj r).

Lemma commit_one_keyed : forall fixed efb now t q r t' q', keyed t ->
  commit_one fixed efb now (t, q) r = (t', q') -> keyed t'.
Proof.
  intros fixed efb now t q r t' q' Hk H. destruct (commit_one_spec _ _ _ _ _ _ _ _ Hk H) as [Ho [Hc _]].
  intros k o rv Hs. destruct (N.eq_dec k (o_pk (r_obj r))) as [E|E].
  - subst k. destruct Hc as [[A _]|[[cur [A [B _]]]|[cur [rv0 [A [_ [_ [B _]]]]]]]].
    + rewrite A in Hs. apply (Hk _ _ _ Hs).
    + rewrite B in Hs. injection Hs as H1 H2. subst o. reflexivity.
    + rewrite B in Hs. injection Hs as H1 H2. subst o. cbn. apply (Hk _ cur rv0). apply t_live_slot. exact A.
  - rewrite Ho in Hs by exact E. apply (Hk _ _ _ Hs).
Qed.

(* a deleted or absent object is never (re-)created, and then no retry is queued either *)
Theorem commit_one_never_inserts : forall fixed efb now t q r t' q', keyed t ->
  commit_one fixed efb now (t, q) r = (t', q') -> not_live t (o_pk (r_obj r)) ->
  (forall k, slot_of t' k = slot_of t k) /\ t_rev t' = t_rev t /\ q' = q.
Proof.
  intros fixed efb now t q r t' q' Hk H Hn. destruct (commit_one_spec _ _ _ _ _ _ _ _ Hk H) as [Ho [Hc Hq]].
  unfold not_live in Hn.
  assert (NL : forall cur rv, t_live t (o_pk (r_obj r)) = Some (cur, rv) -> False).
  { intros cur rv Hl. apply t_live_slot in Hl. rewrite Hl in Hn. exact Hn. }
  destruct Hc as [[A [B _]]|[[cur [A _]]|[cur [rv0 [A _]]]]]; try (exfalso; eapply NL; eassumption).
  split; [|split; [exact B|]].
  - intro k. destruct (N.eq_dec k (o_pk (r_obj r))) as [E|E]; [subst k; exact A|apply Ho; exact E].
  - rewrite Hq. unfold wrote. rewrite B. replace (t_rev t =? t_rev t + 1) with false by (symmetry; apply N.eqb_neq; lia).
    rewrite andb_false_r. reflexivity.
Qed.

(* a result is applied only if the revision is the reconciled one, or the status is Pending with the
   reconciled id *)
Theorem commit_one_applies_only_if : forall fixed efb now t q r t' q', keyed t ->
  commit_one fixed efb now (t, q) r = (t', q') -> slot_of t' (o_pk (r_obj r)) <> slot_of t (o_pk (r_obj r)) ->
  exists cur rv, t_live t (o_pk (r_obj r)) = Some (cur, rv) /\
    (rv = r_rev r \/ (o_kind cur = Pending /\ o_sid cur = r_id r) \/
     (efb = true /\ o_kind cur = Error /\ r_rev r <> r_orig r)).
Proof.
  intros fixed efb now t q r t' q' Hk H Hd. destruct (commit_one_spec _ _ _ _ _ _ _ _ Hk H) as [_ [Hc _]].
  destruct Hc as [[A _]|[[cur [A _]]|[cur [rv0 [A [_ [B _]]]]]]].
  - contradiction.
  - exists cur, (r_rev r). split; [exact A|left; reflexivity].
  - exists cur, rv0. split; [exact A|right; apply fallback_ok_spec; exact B].
Qed.

(* a retry is queued only if the operation failed AND its Error status was written *)
Theorem commit_one_retry_only_if_written : forall fixed efb now t q r t' q', keyed t ->
  commit_one fixed efb now (t, q) r = (t', q') -> q' <> q -> r_ok r = false /\ t_rev t' = t_rev t + 1.
Proof.
  intros fixed efb now t q r t' q' Hk H Hd. destruct (commit_one_spec _ _ _ _ _ _ _ _ Hk H) as [_ [_ Hq]].
  destruct (r_ok r); cbn [negb andb] in Hq; [congruence|].
  split; [reflexivity|]. unfold wrote in Hq. destruct (t_rev t' =? t_rev t + 1) eqn:E; [apply N.eqb_eq; exact E|congruence].
Qed.

(* only the status component changes: every key keeps its payload version, dead/absent stays so *)
Theorem commit_one_status_only : forall fixed efb now t q r t' q', keyed t -> rev_identifies t r ->
  commit_one fixed efb now (t, q) r = (t', q') ->
  (forall k, payload t' k = payload t k) /\ (forall k, not_live t k -> slot_of t' k = slot_of t k).
Proof.
  intros fixed efb now t q r t' q' Hk Hri H. destruct (commit_one_spec _ _ _ _ _ _ _ _ Hk H) as [Ho [Hc _]].
  split.
  - intro k. unfold payload. destruct (N.eq_dec k (o_pk (r_obj r))) as [E|E]; [subst k|rewrite Ho by exact E; reflexivity].
    destruct Hc as [[A _]|[[cur [A [B _]]]|[cur [rv0 [A [_ [_ [B _]]]]]]]].
    + rewrite A. reflexivity.
    + rewrite B. destruct (Hri cur A) as [V _]. apply t_live_slot in A. rewrite A. cbn. congruence.
    + rewrite B. apply t_live_slot in A. rewrite A. reflexivity.
  - intros k Hn. destruct (N.eq_dec k (o_pk (r_obj r))) as [E|E]; [subst k|apply Ho; exact E].
    destruct (commit_one_never_inserts _ _ _ _ _ _ _ _ Hk H Hn) as [A _]. apply A.
Qed.

(* the whole commitStatus (any number of results, any order) *)
Definition res_consistent (t : table) (res : list opres) : Prop :=
  NoDup (map (fun r => o_pk (r_obj r)) res) /\ forall r, In r res -> rev_identifies t r.

Theorem commit_status_status_only : forall fixed efb now res t q t' q', keyed t -> res_consistent t res ->
  commit_status_gen fixed efb now t q res = (t', q') ->
  keyed t' /\ (forall k, payload t' k = payload t k) /\ (forall k, not_live t k -> slot_of t' k = slot_of t k).
Proof.
  intros fixed efb now res. unfold commit_status_gen. induction res as [|r rest IH]; intros t q t' q' Hk [Hnd Hri] H.
  - cbn in H. injection H as H1 H2. subst. split; [exact Hk|]. split; intros; reflexivity.
  - cbn [fold_left] in H. destruct (commit_one fixed efb now (t, q) r) as [t1 q1] eqn:E1.
    pose proof (commit_one_keyed _ _ _ _ _ _ _ _ Hk E1) as Hk1.
    destruct (commit_one_spec _ _ _ _ _ _ _ _ Hk E1) as [Ho _].
    destruct (commit_one_status_only _ _ _ _ _ _ _ _ Hk (Hri r (or_introl eq_refl)) E1) as [P1 N1].
    cbn [map] in Hnd. inversion Hnd as [|x xs Hx Hr]; subst.
    assert (C1 : res_consistent t1 rest).
    { split; [exact Hr|]. intros r2 Hin cur Hl. apply (Hri r2 (or_intror Hin) cur).
      assert (Hne : o_pk (r_obj r2) <> o_pk (r_obj r)).
      { intro Heq. apply Hx. rewrite <- Heq. apply (in_map (fun r => o_pk (r_obj r))). exact Hin. }
      apply t_live_slot. rewrite <- (Ho _ Hne). apply t_live_slot. exact Hl. }
    destruct (IH t1 q1 t' q' Hk1 C1 H) as [K2 [P2 N2]].
    split; [exact K2|]. split.
    + intro k. rewrite P2. apply P1.
    + intros k Hn. rewrite N2; [apply N1; exact Hn|]. unfold not_live. rewrite (N1 k Hn). exact Hn.
Qed.

(* ------------------------------------------------------------------ origRev is carried through retries (C16) *)
(* with the fix, the item re-queued by a status commit carries the origRev of the result; every other
   item is untouched *)
Lemma commit_one_orig : forall efb now t q r t' q' pk, keyed t ->
  commit_one true efb now (t, q) r = (t', q') ->
  orig_of q' pk = orig_of q pk \/ (pk = o_pk (r_obj r) /\ orig_of q' pk = Some (r_orig r)).
Proof.
  intros efb now t q r t' q' pk Hk H. destruct (commit_one_spec _ _ _ _ _ _ _ _ Hk H) as [_ [_ Hq]].
  destruct (negb (r_ok r) && wrote t t'); [|left; rewrite Hq; reflexivity].
  pose proof (queued_pk t r Hk) as Qk.
  subst q'. unfold orig_of. destruct (N.eq_dec pk (o_pk (r_obj r))) as [E|E].
  - right. split; [exact E|]. subst pk.
    destruct (add_item_spec q (queued t r) (t_rev t') (r_orig r) false now) as [it [H1 [_ [_ [H4 _]]]]].
    rewrite Qk in H1. rewrite H1. cbn. rewrite H4. reflexivity.
  - left. rewrite add_other by (rewrite Qk; exact E). reflexivity.
Qed.

(* processSingle hands the item's origRev on to the result (update) or straight back to Add (delete) *)
Lemma process_single_retry_orig : forall e snap q res it e' q' res',
  process_single e snap false q res (ri_obj it) (ri_rev it) (ri_orig it) (ri_del it) = (e', q', res') ->
  if ri_del it
  then res' = res /\ (orig_of q' (ri_pk it) = None \/ orig_of q' (ri_pk it) = Some (ri_orig it))
  else exists ok, res' = res ++ [mkRes (ri_obj it) (ri_rev it) (ri_orig it) (o_sid (ri_obj it)) ok].
Proof.
  intros e snap q res it e' q' res' H. unfold process_single in H.
  destruct (ri_del it).
  - destruct (do_call e snap false 1 (ri_obj it) (ri_rev it)) as [e1 ok]. destruct ok; injection H as H1 H2 H3; subst.
    + split; [reflexivity|]. left. unfold orig_of. rewrite clear_items. unfold ri_pk. rewrite find_item_remove_same. reflexivity.
    + split; [reflexivity|]. right. unfold orig_of, ri_pk.
      destruct (add_item_spec q (ri_obj it) (ri_rev it) (ri_orig it) true (e_now e')) as [i2 [A [_ [_ [B _]]]]].
      rewrite A. cbn. rewrite B. reflexivity.
  - destruct (do_call e snap false 0 (ri_obj it) (ri_rev it)) as [e1 ok]. injection H as H1 H2 H3. subst.
    exists ok. reflexivity.
Qed.

(* origrev_stable: retrying an update item and committing its (failed) result re-queues the object with
   the SAME origRev — the low watermark cannot drift while the same change keeps failing *)
Theorem origrev_stable : forall e snap q res it e1 q1 res1 now t q2 t' q',
  ri_del it = false -> keyed t ->
  process_single e snap false q res (ri_obj it) (ri_rev it) (ri_orig it) (ri_del it) = (e1, q1, res1) ->
  exists r, res1 = res ++ [r] /\ r_orig r = ri_orig it /\ o_pk (r_obj r) = ri_pk it /\
    (commit_one true true now (t, q2) r = (t', q') ->
     orig_of q' (ri_pk it) = orig_of q2 (ri_pk it) \/ orig_of q' (ri_pk it) = Some (ri_orig it)).
Proof.
  intros e snap q res it e1 q1 res1 now t q2 t' q' Hd Hk H.
  pose proof (process_single_retry_orig _ _ _ _ _ _ _ _ H) as P. rewrite Hd in P. destruct P as [ok P].
  eexists. split; [exact P|]. split; [reflexivity|]. split; [reflexivity|].
  intro Hc. destruct (commit_one_orig _ _ _ _ _ _ _ (ri_pk it) Hk Hc) as [A|[_ A]]; [left; exact A|right; exact A].
Qed.

(* ------------------------------------------------------------------ progress tracker (C16) *)
Lemma wur_spec : forall s req,
  (snd (wur s req) = true <-> req <= k_prev s) /\
  forall rev lwm, k_prev s <= k_prev (progress_update s rev lwm) /\ rev <= k_prev (progress_update s rev lwm) /\
                  k_plwm (progress_update s rev lwm) = lwm.
Proof.
  intros s req. split.
  - unfold wur. cbn [snd]. apply N.leb_le.
  - intros rev lwm. unfold progress_update. cbn [k_prev k_plwm].
    destruct (k_prev s <? rev) eqn:E; [apply N.ltb_lt in E|apply N.ltb_ge in E]; repeat split; lia.
Qed.

(* ------------------------------------------------------------------ fix 8844901 (positive statement) *)
(* a RETRY result (rev <> origRev) meeting an object that still carries our Error status is always
   written — whatever revision a foreign status-only write gave the object meanwhile — and a failed retry
   is re-queued for the written revision with its origRev, with the object that was written when the
   revision had changed (fix 1583841); the foreign data (o_aux) of the current object is kept *)
Theorem retry_commits_over_foreign_write : forall fixed now t q r t' q' cur rv, keyed t ->
  t_live t (o_pk (r_obj r)) = Some (cur, rv) -> o_kind cur = Error -> r_rev r <> r_orig r ->
  commit_one fixed true now (t, q) r = (t', q') ->
  t_rev t' = t_rev t + 1 /\
  (exists o', slot_of t' (o_pk (r_obj r)) = Some (Live o' (t_rev t + 1)) /\
              o_kind o' = (if r_ok r then Done else Error) /\
              o_ver o' = (if rv =? r_rev r then o_ver (r_obj r) else o_ver cur) /\
              o_aux o' = (if rv =? r_rev r then o_aux (r_obj r) else o_aux cur)) /\
  q' = (if r_ok r then q
        else r_add q (if rv =? r_rev r then r_obj r else with_status cur Error (t_nextid t)) (t_rev t + 1)
                   (if fixed then r_orig r else r_rev r) false now).
Proof.
  intros fixed now t q r t' q' cur rv Hk Hl Hke Hre H.
  destruct (commit_one_spec _ _ _ _ _ _ _ _ Hk H) as [_ [Hc Hq]].
  assert (Hf : fallback_ok true cur r = true) by (apply fallback_ok_spec; right; repeat split; assumption).
  destruct Hc as [[_ [_ C]]|[[c2 [A [B C]]]|[c2 [rv2 [A [A2 [_ [B C]]]]]]]].
  - destruct (C cur rv Hl) as [_ C2]. congruence.
  - rewrite Hl in A. injection A as A1 A2. subst c2 rv. rewrite N.eqb_refl.
    split; [exact C|]. split.
    + eexists. split; [exact B|]. split; [reflexivity|split; reflexivity].
    + rewrite Hq. unfold wrote, queued. rewrite C, N.eqb_refl, Hl, N.eqb_refl. destruct (r_ok r); reflexivity.
  - rewrite Hl in A. injection A as A1 A3. subst c2 rv2.
    apply N.eqb_neq in A2. rewrite A2.
    split; [exact C|]. split.
    + eexists. split; [exact B|]. split; [reflexivity|split; reflexivity].
    + rewrite Hq. unfold wrote, queued. rewrite C, N.eqb_refl, Hl, A2. destruct (r_ok r); reflexivity.
Qed.
