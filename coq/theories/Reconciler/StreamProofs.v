(* Reconciler/StreamProofs.v — the change stream of a snapshot (changes_of) and the relation between the
   round's snapshot and the current table while user writes land (C14, whole round). *)
From Coq Require Import List NArith Bool Lia ZifyN ZifyBool.
From SV Require Import Reconciler.Retries Reconciler.Model Reconciler.RetriesProofs Reconciler.CommitProofs
  Reconciler.RoundProofs Reconciler.CoverProofs Reconciler.TableWf.
Import ListNotations.
Open Scope N_scope.

(* ------------------------------------------------------------------ snapshot vs current table *)
(* while no status commit happens: slots not newer than the snapshot are the snapshot's slots, and an
   object in Error was already in Error in the snapshot (only commitStatus writes Error) *)
Definition snap_rel (snap t : table) : Prop :=
  t_rev snap <= t_rev t /\
  (forall k sl, slot_of t k = Some sl -> slot_rev sl <= t_rev snap -> slot_of snap k = Some sl) /\
  (forall k o r, slot_of t k = Some (Live o r) -> o_kind o = Error ->
     exists o' r', slot_of snap k = Some (Live o' r') /\ o_kind o' = Error).

Lemma snap_rel_refl : forall t, snap_rel t t.
Proof.
  intro t. split; [lia|]. split; [intros; assumption|]. intros k o r H He. exists o, r. split; assumption.
Qed.

Lemma snap_rel_tset : forall snap t k sl, snap_rel snap t -> slot_rev sl = t_rev t + 1 ->
  (forall o r, sl = Live o r -> o_kind o = Error -> exists o0 r0, slot_of t k = Some (Live o0 r0) /\ o_kind o0 = Error) ->
  snap_rel snap (tset t k sl).
Proof.
  intros snap t k sl [A [B C]] Hr He. split; [cbn; lia|]. split.
  - intros k' sl' Hs Hle. destruct (N.eq_dec k' k) as [E|E].
    + subst k'. rewrite slot_tset_same in Hs. injection Hs as Hs. subst sl'. lia.
    + rewrite slot_tset_other in Hs by exact E. apply B; assumption.
  - intros k' o r Hs Hk. destruct (N.eq_dec k' k) as [E|E].
    + subst k'. rewrite slot_tset_same in Hs. injection Hs as Hs. destruct (He o r Hs Hk) as [o0 [r0 [X Y]]]. apply (C k o0 r0 X Y).
    + rewrite slot_tset_other in Hs by exact E. apply (C k' o r Hs Hk).
Qed.

Lemma wstep_snap_rel : forall snap t t', wstep t t' -> twf t -> snap_rel snap t -> snap_rel snap t'.
Proof.
  intros snap t t' H. induction H; intros W S.
  - exact S.
  - destruct S as [A [B C]]. split; [exact A|split; [exact B|exact C]].
  - rewrite t_insert_tset. apply snap_rel_tset; [exact S|reflexivity|].
    intros o0 r0 Heq Hk. injection Heq as E1 E2. subst o0. destruct (H Hk) as [o1 [r1 [Hs He]]]. exists o1, r1. split; assumption.
  - destruct (t_delete_cases t k) as [[o [r [A B]]]|[_ B]]; rewrite B; [|exact S].
    apply snap_rel_tset; [exact S|reflexivity|]. intros; discriminate.
  - apply IHwstep2; [eapply wstep_twf; eassumption|apply IHwstep1; assumption].
Qed.

(* ------------------------------------------------------------------ the change stream *)
Definition ch_pk (c : change) : N := o_pk (c_obj c).

Fixpoint sorted_rev (l : list change) : Prop :=
  match l with [] => True | c :: r => (forall d, In d r -> c_rev c <= c_rev d) /\ sorted_rev r end.

Definition stream_ok (snap : table) (cur : N) (chs : list change) : Prop :=
  NoDup (map ch_pk chs) /\ sorted_rev chs /\
  (forall ch, In ch chs -> exists sl, slot_of snap (ch_pk ch) = Some sl /\ slot_change sl = ch) /\
  (forall k sl, slot_of snap k = Some sl -> cur < slot_rev sl -> In (slot_change sl) chs) /\
  (forall ch, In ch chs -> cur < c_rev ch).

Lemma slot_change_rev : forall sl, c_rev (slot_change sl) = slot_rev sl.
Proof. intros [o r|o r]; reflexivity. Qed.
Lemma slot_change_obj : forall sl, c_obj (slot_change sl) = slot_obj sl.
Proof. intros [o r|o r]; reflexivity. Qed.

Lemma in_insert_by_rev : forall c l x, In x (insert_by_rev c l) <-> x = c \/ In x l.
Proof.
  intros c l x. induction l as [|d r IH]; cbn [insert_by_rev].
  - split; [intros [H|[]]; left; symmetry; exact H|intros [H|[]]; left; symmetry; exact H].
  - destruct (c_rev c <=? c_rev d).
    + cbn [In]. split; [intros [H|H]; [left; symmetry; exact H|right; exact H]|intros [H|H]; [left; symmetry; exact H|right; exact H]].
    + cbn [In]. rewrite IH. split; [intros [H|[H|H]]; auto|intros [H|[H|H]]; auto].
Qed.

Lemma in_sort : forall l x, In x (fold_right insert_by_rev [] l) <-> In x l.
Proof.
  induction l as [|c r IH]; intro x; cbn [fold_right]; [reflexivity|].
  rewrite in_insert_by_rev, IH. cbn [In]. split; [intros [H|H]; [left; symmetry; exact H|right; exact H]|intros [H|H]; [left; symmetry; exact H|right; exact H]].
Qed.

Lemma sorted_insert : forall c l, sorted_rev l -> sorted_rev (insert_by_rev c l).
Proof.
  intros c l. induction l as [|d r IH]; intro H; cbn [insert_by_rev].
  - cbn. split; [intros d []|exact I].
  - destruct (c_rev c <=? c_rev d) eqn:E.
    + apply N.leb_le in E. cbn [sorted_rev]. split; [|exact H].
      intros x [Hx|Hx]; [subst x; exact E|]. destruct H as [H1 _]. specialize (H1 x Hx). lia.
    + apply N.leb_gt in E. cbn [sorted_rev] in *. destruct H as [H1 H2]. split; [|apply IH; exact H2].
      intros x Hx. apply (proj1 (in_insert_by_rev _ _ _)) in Hx. destruct Hx as [Hx|Hx]; [subst x; lia|apply H1; exact Hx].
Qed.

Lemma sorted_sort : forall l, sorted_rev (fold_right insert_by_rev [] l).
Proof. induction l as [|c r IH]; cbn [fold_right]; [exact I|apply sorted_insert; exact IH]. Qed.

Lemma nodup_insert : forall c l, ~ In (ch_pk c) (map ch_pk l) -> NoDup (map ch_pk l) -> NoDup (map ch_pk (insert_by_rev c l)).
Proof.
  intros c l. induction l as [|d r IH]; intros Hn Hd; cbn [insert_by_rev].
  - cbn. constructor; [intros []|constructor].
  - destruct (c_rev c <=? c_rev d).
    + cbn [map]. constructor; assumption.
    + cbn [map] in *. inversion Hd as [|x xs Hx Hr]; subst. constructor.
      * intro Hin. apply in_map_iff in Hin. destruct Hin as [y [Hy1 Hy2]]. apply (proj1 (in_insert_by_rev _ _ _)) in Hy2.
        destruct Hy2 as [Hy2|Hy2]; [subst y; apply Hn; left; symmetry; exact Hy1|apply Hx; rewrite <- Hy1; apply in_map; exact Hy2].
      * apply IH; [intro Hin; apply Hn; right; exact Hin|exact Hr].
Qed.

Lemma nodup_sort : forall l, NoDup (map ch_pk l) -> NoDup (map ch_pk (fold_right insert_by_rev [] l)).
Proof.
  induction l as [|c r IH]; intro H; cbn [fold_right]; [constructor|].
  cbn [map] in H. inversion H as [|x xs Hx Hr]; subst. apply nodup_insert; [|apply IH; exact Hr].
  intro Hin. apply in_map_iff in Hin. destruct Hin as [y [Hy1 Hy2]]. apply (proj1 (in_sort _ _)) in Hy2.
  apply Hx. rewrite <- Hy1. apply in_map. exact Hy2.
Qed.

Lemma nodup_map_filter : forall A B (f : A -> B) (p : A -> bool) l, NoDup (map f l) -> NoDup (map f (filter p l)).
Proof.
  intros A B f p l. induction l as [|a r IH]; intro H; cbn [filter]; [constructor|].
  cbn [map] in H. inversion H as [|x xs Hx Hr]; subst. destruct (p a); [|apply IH; exact Hr].
  cbn [map]. constructor; [|apply IH; exact Hr]. intro Hin. apply Hx.
  apply in_map_iff in Hin. destruct Hin as [y [Hy1 Hy2]]. apply (proj1 (filter_In _ _ _)) in Hy2. rewrite <- Hy1. apply in_map. apply Hy2.
Qed.

Lemma aget_in : forall V (l : list (N * V)) k v, NoDup (map fst l) -> (aget k l = Some v <-> In (k, v) l).
Proof.
  intros V l k v. induction l as [|[k0 v0] r IH]; intro H; cbn [aget In].
  - split; [discriminate|intros []].
  - cbn [map fst] in H. inversion H as [|x xs Hx Hr]; subst. destruct (k0 =? k) eqn:E.
    + apply N.eqb_eq in E. subst k0. split; [intro A; injection A as A; subst; left; reflexivity|].
      intros [A|A]; [injection A as A; subst; reflexivity|]. exfalso. apply Hx. apply (in_map fst) in A. exact A.
    + apply N.eqb_neq in E. rewrite (IH Hr). split; [intro A; right; exact A|intros [A|A]; [injection A as A1 A2; congruence|exact A]].
Qed.

Theorem changes_stream_ok : forall snap c, twf snap -> stream_ok snap c (changes_of snap c).
Proof.
  intros snap c [W1 [W2 W3]]. unfold changes_of.
  set (g := fun kv : N * slot => slot_change (snd kv)).
  assert (G : forall x, In x (filter (fun ch => c <? c_rev ch) (map g (t_slots snap))) <->
                        exists k sl, slot_of snap k = Some sl /\ slot_change sl = x /\ c < slot_rev sl).
  { intro x. rewrite filter_In, in_map_iff. split.
    - intros [[[k sl] [A B]] C]. exists k, sl. unfold slot_of. rewrite (aget_in _ _ _ _ W1).
      split; [exact B|]. split; [exact A|]. apply N.ltb_lt in C. rewrite <- A in C. unfold g in C. cbn in C. rewrite slot_change_rev in C. exact C.
    - intros [k [sl [A [B C]]]]. unfold slot_of in A. rewrite (aget_in _ _ _ _ W1) in A. split.
      + exists (k, sl). split; [exact B|exact A].
      + apply N.ltb_lt. rewrite <- B, slot_change_rev. exact C. }
  split; [|split; [apply sorted_sort|split; [|split]]].
  - apply nodup_sort. apply nodup_map_filter. rewrite map_map.
    assert (M : map (fun x => ch_pk (g x)) (t_slots snap) = map fst (t_slots snap)).
    { apply map_ext_in. intros [k sl] Hin. unfold g, ch_pk. cbn [snd fst]. rewrite slot_change_obj.
      assert (A : slot_of snap k = Some sl) by (unfold slot_of; apply (aget_in _ _ _ _ W1); exact Hin).
      destruct (W2 k sl A) as [X _]. exact X. }
    rewrite M. exact W1.
  - intros ch Hin. apply (proj1 (in_sort _ _)) in Hin. apply (proj1 (G _)) in Hin. destruct Hin as [k [sl [A [B _]]]].
    exists sl. split; [|exact B]. rewrite <- B. unfold ch_pk. rewrite slot_change_obj. destruct (W2 k sl A) as [X _]. rewrite X. exact A.
  - intros k sl A B. apply in_sort. apply G. exists k, sl. repeat split; assumption.
  - intros ch Hin. apply (proj1 (in_sort _ _)) in Hin. apply (proj1 (G _)) in Hin. destruct Hin as [k [sl [A [B C]]]]. rewrite <- B, slot_change_rev. exact C.
Qed.

(* the head of the stream is the only snapshot slot with a revision in (cur, c_rev head] *)
Lemma stream_head_unique : forall snap cur ch rest k sl, twf snap -> stream_ok snap cur (ch :: rest) ->
  slot_of snap k = Some sl -> cur < slot_rev sl -> slot_rev sl <= c_rev ch -> k = ch_pk ch /\ slot_change sl = ch.
Proof.
  intros snap cur ch rest k sl [W1 [W2 W3]] [A [[B1 B2] [C [D E]]]] Hs Hlt Hle.
  destruct (C ch (or_introl eq_refl)) as [sl0 [S0 S1]].
  assert (R0 : slot_rev sl0 = c_rev ch) by (rewrite <- S1, slot_change_rev; reflexivity).
  assert (K : k = ch_pk ch).
  { destruct (D k sl Hs Hlt) as [X|X].
    - rewrite X. unfold ch_pk. rewrite slot_change_obj. destruct (W2 k sl Hs) as [Y _]. symmetry. exact Y.
    - specialize (B1 _ X). rewrite slot_change_rev in B1. apply (W3 k (ch_pk ch) sl sl0 Hs S0). lia. }
  split; [exact K|]. subst k. rewrite S0 in Hs. injection Hs as Hs. subst sl0. exact S1.
Qed.

Lemma stream_tail : forall snap cur ch rest, twf snap -> stream_ok snap cur (ch :: rest) -> stream_ok snap (c_rev ch) rest.
Proof.
  intros snap cur ch rest W S. pose proof S as [A [[B1 B2] [C [D E]]]].
  cbn [map] in A. inversion A as [|x xs Hx Hr]; subst.
  assert (Strict : forall d, In d rest -> c_rev ch < c_rev d).
  { intros d Hd. pose proof (B1 d Hd) as L. destruct (N.eq_dec (c_rev ch) (c_rev d)) as [Eq|Ne]; [|lia].
    exfalso. destruct (C d (or_intror Hd)) as [sld [Sd Sd1]].
    assert (Rd : slot_rev sld = c_rev d) by (rewrite <- Sd1, slot_change_rev; reflexivity).
    destruct (stream_head_unique snap cur ch rest (ch_pk d) sld W S Sd) as [K _]; [rewrite Rd; apply E; right; exact Hd|lia|].
    apply Hx. rewrite <- K. apply in_map. exact Hd. }
  split; [exact Hr|split; [exact B2|split; [|split]]].
  - intros d Hd. apply C. right. exact Hd.
  - intros k sl Hs Hlt. assert (Hc : cur < slot_rev sl) by (specialize (E ch (or_introl eq_refl)); lia).
    destruct (D k sl Hs Hc) as [X|X]; [|exact X]. exfalso. rewrite X, slot_change_rev in Hlt. lia.
  - exact Strict.
Qed.
