(* Reconciler/Heap.v — executable, mechanism-level model of the retry queue of reconciler/retries.go:
   the `items` map, the two container/heap priority queues over the same item objects (queue ordered by
   retryAt, revQueue ordered by origRev) with the index bookkeeping done by retryPrioQueue.Swap/Push/Pop
   through setIndex, and the wake-up timer. No proofs here (see HeapProofs*.v). The Go counterpart is
   named next to every definition; container/heap = $GOROOT/src/container/heap/heap.go (go1.25.0).

   Representation.
   - An item object (a pointer to a retryItem) is identified by its primary key: the store `list hitem` is the `items`
     map (association list in insertion order, at most one item per key); a heap array `[]*retryItem` is
     the list of the keys of the pointed-to items in array order. The fields of an item are read and
     written through the store, so a write through one heap (setIndex) is seen through the other heap
     and through the map, like writes through a shared pointer.
   - Deviation in states that violate the invariant HInv (HeapProofs.v; never reached): an item that was
     deleted from `items` but is still referenced by a heap array has no data any more (reads give
     `hi_dflt`; Go keeps the object alive), out-of-range array reads give key 0 (Go panics), and the
     pointer comparison `item == top` of LowWatermark is presence of the key in the store.
   - Time is N (the harness uses ms); the wait timer + wait channel are the armed deadline exactly as in
     Retries.v: Some d = the channel returned by Wait() is closed from time d on (until the next
     resetTimer); None = no timer / stopped timer: the channel stays open. *)
From Coq Require Import List NArith ZArith Bool.
From SV Require Import Reconciler.Retries.
Import ListNotations.
Open Scope N_scope.

(* retries.go retryItem (lastError is not modelled; object = obj of Retries.v, its key is o_pk) *)
Record hitem := mkH {
  hi_obj : obj;        (* object *)
  hi_rev : N;          (* rev *)
  hi_orig : N;         (* origRev *)
  hi_del : bool;       (* delete *)
  hi_index : Z;        (* index: position in queue.items, -1 = not queued *)
  hi_revIndex : Z;     (* revIndex: position in revQueue.items, -1 = not queued *)
  hi_at : N;           (* retryAt *)
  hi_n : N             (* numRetries *)
}.
(* objectToKey(item.object) *)
Definition hi_pk (it : hitem) : N := o_pk (hi_obj it).

(* what a dangling reference reads (see the header; unreachable) *)
Definition hi_dflt : hitem := mkH (mkObj 0 0 Pending 0 0) 0 0 false (-1)%Z (-1)%Z 0 0.

(* which of the two retryPrioQueue values of newRetries: QT = queue (retryAt), QR = revQueue (origRev) *)
Inductive qsel := QT | QR.

(* the `less` closures of newRetries, on the two items: retryAt.Before / origRev < *)
Definition item_less (w : qsel) (a b : hitem) : bool :=
  match w with
  | QT => hi_at a <? hi_at b
  | QR => hi_orig a <? hi_orig b
  end.

(* the `setIndex` closures of newRetries: item.index = idx / item.revIndex = idx *)
Definition set_idx (w : qsel) (v : Z) (it : hitem) : hitem :=
  match w with
  | QT => mkH (hi_obj it) (hi_rev it) (hi_orig it) (hi_del it) v (hi_revIndex it) (hi_at it) (hi_n it)
  | QR => mkH (hi_obj it) (hi_rev it) (hi_orig it) (hi_del it) (hi_index it) v (hi_at it) (hi_n it)
  end.

(* item.index / item.revIndex *)
Definition get_idx (w : qsel) (it : hitem) : Z :=
  match w with QT => hi_index it | QR => hi_revIndex it end.

(* ---------------------------------------------------------------- the store (rq.items + the objects) *)
(* rq.items[key] *)
Fixpoint st_get (pk : N) (st : list hitem) : option hitem :=
  match st with
  | [] => None
  | it :: r => if hi_pk it =? pk then Some it else st_get pk r
  end.

(* dereference of an item pointer held by a heap array *)
Definition st_getd (pk : N) (st : list hitem) : hitem :=
  match st_get pk st with Some it => it | None => hi_dflt end.

(* a write through the item pointer *)
Definition st_upd (pk : N) (f : hitem -> hitem) (st : list hitem) : list hitem :=
  map (fun it => if hi_pk it =? pk then f it else it) st.

(* delete(rq.items, key) *)
Fixpoint st_del (pk : N) (st : list hitem) : list hitem :=
  match st with
  | [] => []
  | it :: r => if hi_pk it =? pk then st_del pk r else it :: st_del pk r
  end.

(* items[i] = v *)
Fixpoint list_set {A : Type} (i : nat) (v : A) (l : list A) : list A :=
  match l, i with
  | [], _ => []
  | _ :: r, O => v :: r
  | x :: r, S k => x :: list_set k v r
  end.

(* one retryPrioQueue together with the objects its array points to *)
Definition hq := (list hitem * list N)%type.

(* retryPrioQueue.Less(i, j) = hq.less(hq.items, i, j) *)
Definition h_less (w : qsel) (h : hq) (i j : nat) : bool :=
  let '(st, arr) := h in
  item_less w (st_getd (nth i arr 0) st) (st_getd (nth j arr 0) st).

(* retryPrioQueue.Swap(i, j):
     hq.items[i], hq.items[j] = hq.items[j], hq.items[i]
     hq.setIndex(hq.items[i], i)
     hq.setIndex(hq.items[j], j) *)
Definition h_swap (w : qsel) (h : hq) (i j : nat) : hq :=
  let '(st, arr) := h in
  let arr' := list_set i (nth j arr 0) (list_set j (nth i arr 0) arr) in
  let st1 := st_upd (nth i arr' 0) (set_idx w (Z.of_nat i)) st in
  let st2 := st_upd (nth j arr' 0) (set_idx w (Z.of_nat j)) st1 in
  (st2, arr').

(* container/heap up(h, j):
     for { i := (j - 1) / 2; if i == j || !h.Less(j, i) { break }; h.Swap(i, j); j = i }
   (Go's (0-1)/2 = 0 like the truncated subtraction on nat) *)
Fixpoint h_up (w : qsel) (fuel : nat) (h : hq) (j : nat) : hq :=
  match fuel with
  | O => h
  | S f =>
    let i := Nat.div (j - 1) 2 in
    if Nat.eqb i j || negb (h_less w h j i) then h
    else h_up w f (h_swap w h i j) i
  end.

(* the loop of container/heap down(h, i0, n), returning the final i:
     for { j1 := 2*i + 1; if j1 >= n || j1 < 0 { break }
           j := j1; if j2 := j1 + 1; j2 < n && h.Less(j2, j1) { j = j2 }
           if !h.Less(j, i) { break }
           h.Swap(i, j); i = j } *)
Fixpoint h_down_loop (w : qsel) (fuel : nat) (h : hq) (i n : nat) : hq * nat :=
  match fuel with
  | O => (h, i)
  | S f =>
    let j1 := (2 * i + 1)%nat in
    if Nat.leb n j1 then (h, i)
    else
      let j := if Nat.ltb (j1 + 1) n && h_less w h (j1 + 1) j1 then (j1 + 1)%nat else j1 in
      if negb (h_less w h j i) then (h, i)
      else h_down_loop w f (h_swap w h i j) j n
  end.

(* container/heap down(h, i0, n) bool: ... return i > i0 *)
Definition h_down (w : qsel) (h : hq) (i0 n : nat) : hq * bool :=
  let '(h', i) := h_down_loop w (S (length (snd h))) h i0 n in
  (h', Nat.ltb i0 i).

(* retryPrioQueue.Push(x): hq.setIndex(item, len(hq.items)); hq.items = append(hq.items, item) *)
Definition h_push_last (w : qsel) (h : hq) (pk : N) : hq :=
  let '(st, arr) := h in
  (st_upd pk (set_idx w (Z.of_nat (length arr))) st, arr ++ [pk]).

(* retryPrioQueue.Pop(): item := hq.items[n-1]; hq.setIndex(item, -1); hq.items = hq.items[:n-1] *)
Definition h_pop_last (w : qsel) (h : hq) : hq :=
  let '(st, arr) := h in
  let n := length arr in
  (st_upd (nth (n - 1) arr 0) (set_idx w (-1)%Z) st, firstn (n - 1) arr).

(* container/heap Push(h, x): h.Push(x); up(h, h.Len()-1)   (= retryPrioQueue.PushItem) *)
Definition h_push (w : qsel) (h : hq) (pk : N) : hq :=
  let h1 := h_push_last w h pk in
  h_up w (S (length (snd h1))) h1 (length (snd h1) - 1).

(* container/heap Pop(h): n := h.Len() - 1; h.Swap(0, n); down(h, 0, n); return h.Pop()
   (= retryPrioQueue.PopItem; on an empty heap Go panics in Swap: callers below test for emptiness) *)
Definition h_pop (w : qsel) (h : hq) : hq :=
  let n := (length (snd h) - 1)%nat in
  let h1 := h_swap w h 0 n in
  let '(h2, _) := h_down w h1 0 n in
  h_pop_last w h2.

(* container/heap Remove(h, i):
     n := h.Len() - 1
     if n != i { h.Swap(i, n); if !down(h, i, n) { up(h, i) } }
     return h.Pop()                                          (= retryPrioQueue.Remove) *)
Definition h_remove (w : qsel) (h : hq) (i : nat) : hq :=
  let n := (length (snd h) - 1)%nat in
  let h3 :=
    if Nat.eqb n i then h
    else
      let h1 := h_swap w h i n in
      let '(h2, moved) := h_down w h1 i n in
      if moved then h2 else h_up w (S (length (snd h2))) h2 i in
  h_pop_last w h3.

(* container/heap Fix(h, i): if !down(h, i, h.Len()) { up(h, i) }   (= retryPrioQueue.Fix) *)
Definition h_fix (w : qsel) (h : hq) (i : nat) : hq :=
  let '(h2, moved) := h_down w h i (length (snd h)) in
  if moved then h2 else h_up w (S (length (snd h2))) h2 i.

(* ---------------------------------------------------------------- retries *)
(* retries.go retries: items + the objects, queue.items, revQueue.items, waitTimer/waitChan, backoff *)
Record hstate := mkHS {
  hs_store : list hitem;
  hs_q : list N;
  hs_r : list N;
  hs_timer : option N;
  hs_min : N;
  hs_max : N
}.

(* newRetries(min, max, _) *)
Definition hq_new (bmin bmax : N) : hstate := mkHS [] [] [] None bmin bmax.

(* retries.Top: if rq.queue.Len() == 0 { return nil, false }; return rq.queue.Peek(), true *)
Definition hq_top (hs : hstate) : option hitem :=
  match hs_q hs with
  | [] => None
  | pk :: _ => Some (st_getd pk (hs_store hs))
  end.

(* retries.resetTimer: afterwards the (new or re-armed) timer closes the current wait channel at
   queue.Peek().retryAt, or there is no running timer when the queue is empty *)
Definition hq_reset_timer (hs : hstate) : hstate :=
  mkHS (hs_store hs) (hs_q hs) (hs_r hs) (option_map hi_at (hq_top hs)) (hs_min hs) (hs_max hs).

(* retries.Pop: rq.queue.PopItem(); rq.resetTimer(). None = the panic of an empty queue. *)
Definition hq_pop (hs : hstate) : option hstate :=
  match hs_q hs with
  | [] => None
  | _ :: _ =>
    let '(st, q) := h_pop QT (hs_store hs, hs_q hs) in
    Some (hq_reset_timer (mkHS st q (hs_r hs) (hs_timer hs) (hs_min hs) (hs_max hs)))
  end.

(* retries.Add(obj, rev, origRev, delete, _) at time now *)
Definition hq_add (hs : hstate) (o : obj) (rev orig : N) (del : bool) (now : N) : hstate :=
  let pk := o_pk o in
  (* if item, ok = rq.items[keyStr]; !ok { item = &retryItem{numRetries: 0, index: -1, revIndex: -1}; rq.items[keyStr] = item } *)
  let st0 := match st_get pk (hs_store hs) with
             | Some _ => hs_store hs
             | None => hs_store hs ++ [mkH o 0 0 false (-1)%Z (-1)%Z 0 0]
             end in
  (* item.object = obj ... item.numRetries += 1; item.retryAt = time.Now().Add(rq.backoff.Duration(item.numRetries)) *)
  let st1 := st_upd pk (fun it =>
               let n := hi_n it + 1 in
               mkH o rev orig del (hi_index it) (hi_revIndex it) (now + duration (hs_min hs) (hs_max hs) n) n) st0 in
  (* if item.revIndex >= 0 { rq.revQueue.Fix(item.revIndex) } else { rq.revQueue.PushItem(item) } *)
  let ri := hi_revIndex (st_getd pk st1) in
  let '(st2, r2) := if (0 <=? ri)%Z then h_fix QR (st1, hs_r hs) (Z.to_nat ri) else h_push QR (st1, hs_r hs) pk in
  (* if item.index >= 0 { rq.queue.Fix(item.index) } else { rq.queue.PushItem(item) } *)
  let qi := hi_index (st_getd pk st2) in
  let '(st3, q3) := if (0 <=? qi)%Z then h_fix QT (st2, hs_q hs) (Z.to_nat qi) else h_push QT (st2, hs_q hs) pk in
  let hs' := mkHS st3 q3 r2 (hs_timer hs) (hs_min hs) (hs_max hs) in
  (* if item.index == 0 { rq.resetTimer() } *)
  if (hi_index (st_getd pk st3) =? 0)%Z then hq_reset_timer hs' else hs'.

(* the guard of retries.Clear, for either queue:
     idx >= 0 && idx < len(q.items) && key.Equal(rq.objectToKey(q.items[idx].object)) *)
Definition clear_guard (idx : Z) (arr : list N) (pk : N) : bool :=
  (0 <=? idx)%Z && (idx <? Z.of_nat (length arr))%Z && (nth (Z.to_nat idx) arr 0 =? pk).

(* retries.Clear(obj) *)
Definition hq_clear (hs : hstate) (pk : N) : hstate :=
  match st_get pk (hs_store hs) with
  | None => hs
  | Some it =>
    (* index := item.index; if <guard> { rq.queue.Remove(item.index); if index == 0 { rq.resetTimer() } } *)
    let index := hi_index it in
    let hs1 :=
      if clear_guard index (hs_q hs) pk then
        let '(st, q) := h_remove QT (hs_store hs, hs_q hs) (Z.to_nat index) in
        let hs' := mkHS st q (hs_r hs) (hs_timer hs) (hs_min hs) (hs_max hs) in
        if (index =? 0)%Z then hq_reset_timer hs' else hs'
      else hs in
    (* if <guard on revIndex> { rq.revQueue.Remove(item.revIndex) } *)
    let ri := hi_revIndex (st_getd pk (hs_store hs1)) in
    let hs2 :=
      if clear_guard ri (hs_r hs1) pk then
        let '(st, r) := h_remove QR (hs_store hs1, hs_r hs1) (Z.to_nat ri) in
        mkHS st (hs_q hs1) r (hs_timer hs1) (hs_min hs1) (hs_max hs1)
      else hs1 in
    (* delete(rq.items, string(key)) *)
    mkHS (st_del pk (hs_store hs2)) (hs_q hs2) (hs_r hs2) (hs_timer hs2) (hs_min hs2) (hs_max hs2)
  end.

(* retries.LowWatermark:
     for rq.revQueue.Len() > 0 {
       top := rq.revQueue.Peek()
       if item, ok := rq.items[key(top)]; ok && item == top { return top.origRev }
       rq.revQueue.PopItem() }
     return 0
   The second component is the number of lazy deletions performed (PopItem calls). *)
Fixpoint hq_lwm_loop (fuel : nat) (hs : hstate) (pops : nat) : N * hstate * nat :=
  match fuel with
  | O => (0, hs, pops)
  | S f =>
    match hs_r hs with
    | [] => (0, hs, pops)
    | top :: _ =>
      match st_get top (hs_store hs) with
      | Some it => (hi_orig it, hs, pops)
      | None =>
        let '(st, r) := h_pop QR (hs_store hs, hs_r hs) in
        hq_lwm_loop f (mkHS st (hs_q hs) r (hs_timer hs) (hs_min hs) (hs_max hs)) (S pops)
      end
    end
  end.

Definition hq_low_watermark (hs : hstate) : N * hstate * nat :=
  hq_lwm_loop (S (length (hs_r hs))) hs O.

(* the wait channel returned by retries.Wait() is closed at time now *)
Definition hq_fired (hs : hstate) (now : N) : bool :=
  match hs_timer hs with Some d => d <=? now | None => false end.
