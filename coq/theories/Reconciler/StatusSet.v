(* Reconciler/StatusSet.v — reconciler/types.go: Status constructors, nextID, StatusSet (NewStatusSet, Pending,
   Set, Get, All). Executable model, no proofs (StatusSetProofs.v).

   A StatusSet lets several reconcilers keep their status on one object: a set-wide id, and a slice of named
   statuses sorted by name. Each reconciler reads its entry with Get(name) and writes it with Set(name, status);
   the user marks the object for all of them with Pending(). In Reconciler/Model.v one reconciler's view of an
   object's status is the pair (o_kind, o_sid) and everything the OTHER writers own is o_aux; this file models
   the data structure those two projections are taken from.

   Not modelled: UpdatedAt / createdAt (time stamps), the Error text, String(), the JSON/YAML codecs. *)
From Coq Require Import List NArith Bool.
From SV Require Import Base.Bytes Base.OrdMap Reconciler.Retries.
Import ListNotations.
Open Scope N_scope.

(* types.go Status: Kind and ID *)
Record status := mkSt { st_kind : skind; st_id : N }.

(* types.go StatusSet{id, createdAt, statuses []namedStatus}; names are Go strings = byte strings *)
Record sset := mkSS { ss_id : N; ss_list : list (bytes * status) }.

(* types.go nextID(): idGen.Add(1) — the global counter is threaded: returns (new id, new counter) *)
Definition next_id (gen : N) : N * N := (gen + 1, gen + 1).

(* types.go StatusPending / StatusRefreshing / StatusDone / StatusError: Kind + fresh ID *)
Definition status_new (k : skind) (gen : N) : status * N :=
  let '(id, gen') := next_id gen in (mkSt k id, gen').

(* types.go NewStatusSet *)
Definition ss_new (gen : N) : sset * N :=
  let '(id, gen') := next_id gen in (mkSS id [], gen').

(* types.go StatusSet.Pending: fresh set id; the slice is cloned and every entry becomes Pending with that id
   (names are kept) *)
Definition ss_pending (s : sset) (gen : N) : sset * N :=
  let '(id, gen') := next_id gen in
  (mkSS id (map (fun e => (fst e, mkSt Pending id)) (ss_list s)), gen').

(* slices.IndexFunc(s.statuses, name ==) *)
Fixpoint index_of (n : bytes) (l : list (bytes * status)) : option nat :=
  match l with
  | [] => None
  | (n', _) :: r => if bytes_eqb n n' then Some O else option_map S (index_of n r)
  end.

(* s.statuses[idx] = namedStatus{status, name} on the clone *)
Fixpoint replace_nth (i : nat) (e : bytes * status) (l : list (bytes * status)) : list (bytes * status) :=
  match l, i with
  | [], _ => []
  | _ :: r, O => e :: r
  | x :: r, S j => x :: replace_nth j e r
  end.

(* slices.SortFunc(s.statuses, cmp.Compare(a.name, b.name)): the result is the permutation sorted by name, which
   is unique when names are distinct (they are: Set appends only absent names); modelled as insertion sort *)
Fixpoint ins_by_name (e : bytes * status) (l : list (bytes * status)) : list (bytes * status) :=
  match l with
  | [] => [e]
  | x :: r => if bytes_ltb (fst x) (fst e) then x :: ins_by_name e r else e :: x :: r
  end.
Definition sort_by_name (l : list (bytes * status)) : list (bytes * status) := fold_right ins_by_name [] l.

(* types.go StatusSet.Set: clone; replace the entry in place, or append and sort *)
Definition ss_set (s : sset) (n : bytes) (st : status) : sset :=
  match index_of n (ss_list s) with
  | Some i => mkSS (ss_id s) (replace_nth i (n, st) (ss_list s))
  | None => mkSS (ss_id s) (sort_by_name (ss_list s ++ [(n, st)]))
  end.

(* types.go StatusSet.Get: the named entry, or Pending with the set's id for a reconciler not seen yet *)
Definition ss_get (s : sset) (n : bytes) : status :=
  match index_of n (ss_list s) with
  | Some i => match nth_error (ss_list s) i with Some e => snd e | None => mkSt Pending (ss_id s) end
  | None => mkSt Pending (ss_id s)
  end.

(* types.go StatusSet.All (a Go map; printed sorted by name) *)
Definition ss_all (s : sset) : list (bytes * status) := sort_by_name (ss_list s).

(* ------------------------------------------------------------------ what one reconciler sees / does not own *)
(* GetObjectStatus of reconciler `me` *)
Definition view (me : bytes) (s : sset) : status := ss_get s me.
(* everything else: the set id and the entries of the other reconcilers *)
Definition others (me : bytes) (s : sset) : N * list (bytes * status) :=
  (ss_id s, filter (fun e => negb (bytes_eqb (fst e) me)) (ss_list s)).

(* seeded variants (S-C15-1, S2-C14-3): Pending() that keeps the set id / the per-entry ids *)
Definition ss_pending_keep_set_id (s : sset) (gen : N) : sset * N :=
  let '(id, gen') := next_id gen in
  (mkSS (ss_id s) (map (fun e => (fst e, mkSt Pending id)) (ss_list s)), gen').
Definition ss_pending_keep_entry_ids (s : sset) (gen : N) : sset * N :=
  let '(id, gen') := next_id gen in
  (mkSS id (map (fun e => (fst e, mkSt Pending (st_id (snd e)))) (ss_list s)), gen').

(* ------------------------------------------------------------------ engine: retained values, one global counter *)
Record smach := mkSM { sm_gen : N; sm_vals : list sset }.
Definition sm_init : smach := mkSM 0 [].
Definition sm_val (m : smach) (i : nat) : sset := nth i (sm_vals m) (mkSS 0 []).
Definition sm_new (m : smach) : smach :=
  let '(s, g) := ss_new (sm_gen m) in mkSM g (sm_vals m ++ [s]).
Definition sm_pending (m : smach) (i : nat) : smach :=
  let '(s, g) := ss_pending (sm_val m i) (sm_gen m) in mkSM g (sm_vals m ++ [s]).
Definition sm_set (m : smach) (i : nat) (n : bytes) (k : skind) : smach :=
  let '(st, g) := status_new k (sm_gen m) in mkSM g (sm_vals m ++ [ss_set (sm_val m i) n st]).
