(* Reconciler/Converge.v — BOUNDED CONVERGENCE of the reconciler model (C14, second half).
   Once the fault oracle only answers ok (e_foff), no user write is pending in a hook (hooks_inert) and
   every retry item is due (or will be replaced by a change that is still ahead of the cursor), each
   `round` decreases the measure
       (#changes ahead of the cursor that are deletions or Pending/Refreshing objects) + (#retry items)
   by at least min(roundSize, measure); when the measure is 0 one more round moves the cursor over the
   Done objects written by the status commits and the reconciler is quiescent (and stays so).
   Hence quiescence — and with it `reconciled` — is reached after at most
       ceil(measure / roundSize) + 1   rounds. *)
From Coq Require Import List NArith Bool Lia ZifyN ZifyNat ZifyBool Arith.
From SV Require Import Reconciler.Retries Reconciler.Model Reconciler.RetriesProofs Reconciler.CommitProofs
  Reconciler.RoundProofs Reconciler.CoverProofs Reconciler.StepProofs Reconciler.TableWf Reconciler.StreamProofs
  Reconciler.PhaseProofs Reconciler.BatchProofs Reconciler.RoundInv Reconciler.Runs Reconciler.Progress.
Import ListNotations.
Open Scope N_scope.

(* ------------------------------------------------------------------ a calm environment *)
(* number of attempts recorded under an attempt-counter key (2*pk: all attempts, 2*pk+1: fresh attempts) *)
Definition att (e : env) (k : N) : N := match aget k (e_attempts e) with Some n => n | None => 0 end.

(* no user write is pending inside a future operation: every registered hook is keyed by an attempt
   number that is already in the past (in particular: e_hooks e = []) *)
Definition hooks_inert (e : env) : Prop := forall k n w, In (k, n, w) (e_hooks e) -> n < att e k.

(* operations have stopped failing and the table has stopped changing *)
Definition calm (e : env) : Prop := e_foff e = true /\ hooks_inert e.

Lemma no_hooks_inert : forall e, e_hooks e = [] -> hooks_inert e.
Proof. intros e H k n w Hin. rewrite H in Hin. destruct Hin. Qed.

Lemma run_hooks_inert : forall hs k n e, (forall n' w, In (k, n', w) hs -> n' <> n) -> run_hooks hs k n e = e.
Proof.
  induction hs as [|[[k' n'] [wk k2]] r IH]; intros k n e H; cbn [run_hooks]; [reflexivity|].
  destruct ((k' =? k) && (n' =? n)) eqn:E.
  - apply andb_prop in E. destruct E as [E1 E2]. apply N.eqb_eq in E1. apply N.eqb_eq in E2. subst k' n'.
    exfalso. apply (H n (wk, k2)); [left; reflexivity|reflexivity].
  - apply IH. intros n0 w Hin. apply (H n0 w). right. exact Hin.
Qed.

Lemma att_aset : forall e k v k',
  match aget k' (aset k v (e_attempts e)) with Some n => n | None => 0 end = if k' =? k then v else att e k'.
Proof.
  intros e k v k'. destruct (k' =? k) eqn:E.
  - apply N.eqb_eq in E. subst k'. rewrite aget_aset_same. reflexivity.
  - apply N.eqb_neq in E. rewrite aget_aset_other by exact E. reflexivity.
Qed.

(* in a calm environment a scripted operation succeeds, leaves the table and the clock alone, and the
   environment stays calm *)
Lemma do_call_calm : forall e snap fresh op o rev e' ok, calm e -> do_call e snap fresh op o rev = (e', ok) ->
  ok = true /\ calm e' /\ e_tab e' = e_tab e /\ e_now e' = e_now e.
Proof.
  intros e snap fresh op o rev e' ok [F HI] H. unfold do_call in H. cbv zeta in H. cbn [e_hooks] in H.
  remember (2 * o_pk o) as ka eqn:Eka. remember (ka + 1) as kb eqn:Ekb.
  assert (I1 : forall E0, run_hooks (e_hooks e) ka (att e ka) E0 = E0).
  { intro E0. apply run_hooks_inert. intros n' w Hin. specialize (HI _ _ _ Hin). lia. }
  assert (I2 : forall E0, run_hooks (e_hooks e) kb (att e kb) E0 = E0).
  { intro E0. apply run_hooks_inert. intros n' w Hin. specialize (HI _ _ _ Hin). lia. }
  fold (att e ka) in H. fold (att e kb) in H.
  destruct fresh.
  - rewrite I1 in H. cbn [e_hooks] in H. rewrite I2 in H. cbn [e_tab e_now e_attempts e_faults e_hooks e_foff e_ver e_urevs e_calls e_target] in H.
    rewrite F in H. cbn [negb] in H. rewrite andb_false_r in H. cbn [negb] in H.
    injection H as H1 H2. subst e' ok. split; [reflexivity|]. split; [|split; reflexivity].
    split; [reflexivity|]. intros k n w Hin. cbn [e_hooks] in Hin. specialize (HI _ _ _ Hin). unfold att at 1. cbn [e_attempts].
    destruct (N.eq_dec k kb) as [E1|E1].
    + subst k. rewrite aget_aset_same. lia.
    + rewrite aget_aset_other by exact E1. destruct (N.eq_dec k ka) as [E2|E2].
      * subst k. rewrite aget_aset_same. lia.
      * rewrite aget_aset_other by exact E2. exact HI.
  - rewrite I1 in H. cbn [e_tab e_now e_attempts e_faults e_hooks e_foff e_ver e_urevs e_calls e_target] in H.
    rewrite F in H. cbn [negb] in H. rewrite andb_false_r in H. cbn [negb] in H.
    injection H as H1 H2. subst e' ok. split; [reflexivity|]. split; [|split; reflexivity].
    split; [reflexivity|]. intros k n w Hin. cbn [e_hooks] in Hin. specialize (HI _ _ _ Hin). unfold att at 1. cbn [e_attempts].
    destruct (N.eq_dec k ka) as [E2|E2].
    + subst k. rewrite aget_aset_same. lia.
    + rewrite aget_aset_other by exact E2. exact HI.
Qed.

(* ------------------------------------------------------------------ counting the work ahead of the cursor *)
(* a change the reconciler has to act on: a deletion or a Pending/Refreshing object *)
Definition ch_act (c : change) : bool := c_del c || is_pending (c_obj c).
Definition slot_act (sl : slot) : bool := match sl with Live o _ => is_pending o | Dead _ _ => true end.

Lemma ch_act_slot : forall sl, ch_act (slot_change sl) = slot_act sl.
Proof. intros [o r|o r]; reflexivity. Qed.

Lemma skip_is_not_act : forall c, negb (c_del c) && negb (is_pending (c_obj c)) = negb (ch_act c).
Proof. intro c. unfold ch_act. destruct (c_del c), (is_pending (c_obj c)); reflexivity. Qed.

(* number of changes ahead of the cursor the reconciler has to act on *)
Definition pending_ahead (t : table) (c : N) : nat := length (filter ch_act (changes_of t c)).

(* the convergence measure *)
Definition measure (e : env) (s : rstate) : nat :=
  (pending_ahead (e_tab e) (k_cursor s) + length (q_items (k_ret s)))%nat.

Definition cnt (f : slot -> bool) (l : list (N * slot)) : nat := length (filter (fun kv => f (snd kv)) l).

Lemma cnt_ext : forall f g l, (forall kv, In kv l -> f (snd kv) = g (snd kv)) -> cnt f l = cnt g l.
Proof.
  intros f g l. unfold cnt. induction l as [|kv r IH]; intro H; cbn [filter]; [reflexivity|].
  rewrite (H kv (or_introl eq_refl)). destruct (g (snd kv)); cbn [length]; rewrite IH; try reflexivity;
    intros x Hx; apply H; right; exact Hx.
Qed.

Lemma cnt_aset_le : forall f k v l, f v = false -> (cnt f (aset k v l) <= cnt f l)%nat.
Proof.
  intros f k v l Hf. unfold cnt. induction l as [|[k0 v0] r IH]; cbn [aset filter snd].
  - rewrite Hf. cbn. lia.
  - destruct (k0 =? k); cbn [filter snd].
    + rewrite Hf. destruct (f v0); cbn [length]; lia.
    + destruct (f v0); cbn [length]; lia.
Qed.

Lemma filter_insert_len : forall (g : change -> bool) x l,
  length (filter g (insert_by_rev x l)) = length (filter g (x :: l)).
Proof.
  intros g x l. induction l as [|d r IH]; cbn [insert_by_rev]; [reflexivity|].
  destruct (c_rev x <=? c_rev d); [reflexivity|].
  cbn [filter] in *. destruct (g d); destruct (g x); cbn [length] in *; lia.
Qed.

Lemma filter_sort_len : forall (g : change -> bool) l,
  length (filter g (fold_right insert_by_rev [] l)) = length (filter g l).
Proof.
  intros g l. induction l as [|x r IH]; cbn [fold_right]; [reflexivity|].
  rewrite filter_insert_len. cbn [filter]. destruct (g x); cbn [length]; rewrite IH; reflexivity.
Qed.

(* the bridge between the change stream and the slots of the table *)
Lemma changes_count : forall (g : change -> bool) t c,
  length (filter g (changes_of t c)) = cnt (fun sl => (c <? slot_rev sl) && g (slot_change sl)) (t_slots t).
Proof.
  intros g t c. unfold changes_of. rewrite filter_sort_len. unfold cnt.
  induction (t_slots t) as [|[k sl] r IH]; cbn [map filter snd]; [reflexivity|].
  rewrite slot_change_rev. destruct (c <? slot_rev sl); cbn [andb filter]; [|exact IH].
  destruct (g (slot_change sl)); cbn [length]; rewrite IH; reflexivity.
Qed.

Definition ahead (c : N) (sl : slot) : bool := (c <? slot_rev sl) && slot_act sl.

Lemma pending_ahead_cnt : forall t c, pending_ahead t c = cnt (ahead c) (t_slots t).
Proof.
  intros t c. unfold pending_ahead. rewrite changes_count. apply cnt_ext. intros kv _. unfold ahead.
  rewrite ch_act_slot. reflexivity.
Qed.

(* the work ahead of a later cursor c', counted on the stream of an earlier cursor c *)
Lemma pending_ahead_later : forall t c c', c <= c' ->
  pending_ahead t c' = length (filter (fun ch => (c' <? c_rev ch) && ch_act ch) (changes_of t c)).
Proof.
  intros t c c' H. rewrite pending_ahead_cnt, changes_count. apply cnt_ext. intros kv _. unfold ahead.
  rewrite ch_act_slot, slot_change_rev.
  destruct (N.ltb_spec c' (slot_rev (snd kv))) as [A|A]; destruct (N.ltb_spec c (slot_rev (snd kv))) as [B|B];
    cbn [andb]; try reflexivity. lia.
Qed.

(* ------------------------------------------------------------------ the visited prefix of the stream *)
(* the revision of the last visited change (d when none was visited): incremental.go lastRev *)
Fixpoint last_rev (l : list change) (d : N) : N :=
  match l with [] => d | c :: r => last_rev r (c_rev c) end.

Lemma last_rev_cases : forall l d, (l = [] /\ last_rev l d = d) \/ (exists x, In x l /\ last_rev l d = c_rev x).
Proof.
  induction l as [|c r IH]; intro d; cbn [last_rev]; [left; split; reflexivity|right].
  destruct (IH (c_rev c)) as [[A B]|[x [A B]]].
  - exists c. split; [left; reflexivity|exact B].
  - exists x. split; [right; exact A|exact B].
Qed.

Lemma last_rev_app : forall l1 l2 d, last_rev (l1 ++ l2) d = last_rev l2 (last_rev l1 d).
Proof. induction l1 as [|c r IH]; intros l2 d; cbn [app last_rev]; [reflexivity|apply IH]. Qed.

Lemma last_rev_default : forall l d d', l <> [] -> last_rev l d = last_rev l d'.
Proof. intros [|c r] d d' H; [congruence|reflexivity]. Qed.

Lemma stream_split : forall snap vis rem c, twf snap -> stream_ok snap c (vis ++ rem) ->
  stream_ok snap (last_rev vis c) rem.
Proof.
  intros snap vis. induction vis as [|v vs IH]; intros rem c W S; cbn [last_rev app] in *; [exact S|].
  apply IH; [exact W|]. apply (stream_tail snap c v (vs ++ rem) W S).
Qed.

Lemma sorted_app_l : forall l1 l2, sorted_rev (l1 ++ l2) -> sorted_rev l1.
Proof.
  induction l1 as [|c r IH]; intros l2 H; cbn [app sorted_rev] in *; [exact I|].
  destruct H as [A B]. split; [|apply (IH l2 B)]. intros d Hd. apply A. apply in_or_app. left. exact Hd.
Qed.

Lemma sorted_le_last : forall l d, sorted_rev l -> forall x, In x l -> c_rev x <= last_rev l d.
Proof.
  induction l as [|c r IH]; intros d H x Hx; [destruct Hx|].
  cbn [last_rev sorted_rev] in *. destruct H as [A B]. destruct Hx as [Hx|Hx].
  - subst x. destruct (last_rev_cases r (c_rev c)) as [[_ E]|[y [Y1 Y2]]]; [lia|]. rewrite Y2. apply A. exact Y1.
  - apply IH; assumption.
Qed.

(* the cursor after the change phase: reconciler.go `if lastRev != 0 { cursor = lastRev }` *)
Lemma curs_last : forall c vis, (forall ch, In ch vis -> c < c_rev ch) -> curs c (last_rev vis 0) = last_rev vis c.
Proof.
  intros c vis H. unfold curs. destruct (last_rev_cases vis 0) as [[A B]|[x [A B]]].
  - subst vis. cbn. reflexivity.
  - rewrite B. specialize (H x A). destruct (N.eqb_spec (c_rev x) 0) as [E|E]; [lia|].
    rewrite <- B. apply last_rev_default. intro X. subst vis. destruct A.
Qed.

Lemma cursor_monotone : forall c vis, (forall ch, In ch vis -> c < c_rev ch) -> c <= last_rev vis c.
Proof.
  intros c vis H. destruct (last_rev_cases vis c) as [[A B]|[x [A B]]]; [lia|]. rewrite B. specialize (H x A). lia.
Qed.

(* ------------------------------------------------------------------ queue bookkeeping *)
Lemma remove_item_length : forall pk l, (length (remove_item pk l) <= length l)%nat.
Proof.
  intros pk l. induction l as [|i r IH]; cbn [remove_item]; [lia|].
  destruct (ri_pk i =? pk); cbn [length]; lia.
Qed.

Lemma remove_item_length_lt : forall pk l it, In it l -> ri_pk it = pk -> (length (remove_item pk l) < length l)%nat.
Proof.
  intros pk l it. induction l as [|i r IH]; intros Hin Hk; [destruct Hin|].
  cbn [remove_item]. destruct Hin as [Hin|Hin].
  - subst i. rewrite Hk, N.eqb_refl. pose proof (remove_item_length pk r). cbn [length]. lia.
  - specialize (IH Hin Hk). destruct (ri_pk i =? pk); cbn [length]; lia.
Qed.

Lemma remove_put_same : forall it l, remove_item (ri_pk it) (put_item it l) = remove_item (ri_pk it) l.
Proof.
  intros it l. induction l as [|i r IH]; cbn [put_item remove_item].
  - rewrite N.eqb_refl. reflexivity.
  - destruct (ri_pk i =? ri_pk it) eqn:E; cbn [remove_item].
    + rewrite N.eqb_refl. reflexivity.
    + rewrite E, IH. reflexivity.
Qed.

Lemma clear_in : forall q k it, In it (q_items (r_clear q k)) -> In it (q_items q) /\ ri_pk it <> k.
Proof. intros q k it H. rewrite clear_items in H. apply in_remove_item in H. exact H. Qed.

Lemma clear_len : forall q k, (length (q_items (r_clear q k)) <= length (q_items q))%nat.
Proof. intros q k. rewrite clear_items. apply remove_item_length. Qed.

(* ------------------------------------------------------------------ one operation in a calm environment *)
Lemma process_single_calm : forall e snap fresh q res o rev orig del e' q' res', calm e ->
  process_single e snap fresh q res o rev orig del = (e', q', res') ->
  calm e' /\ e_tab e' = e_tab e /\ e_now e' = e_now e /\ q' = r_clear q (o_pk o) /\
  res' = (if del then res else res ++ [mkRes o rev orig (o_sid o) true]).
Proof.
  intros e snap fresh q res o rev orig del e' q' res' C H. unfold process_single in H. destruct del.
  - destruct (do_call e snap fresh 1 o rev) as [e1 ok] eqn:Ec.
    destruct (do_call_calm _ _ _ _ _ _ _ _ C Ec) as [X [C1 [T1 N1]]]. subst ok.
    injection H as H1 H2 H3. subst e' q' res'. split; [exact C1|]. split; [exact T1|]. split; [exact N1|]. split; reflexivity.
  - destruct (do_call e snap fresh 0 o rev) as [e1 ok] eqn:Ec.
    destruct (do_call_calm _ _ _ _ _ _ _ _ C Ec) as [X [C1 [T1 N1]]]. subst ok.
    injection H as H1 H2 H3. subst e' q' res'. split; [exact C1|]. split; [exact T1|]. split; [exact N1|]. split; reflexivity.
Qed.

(* ------------------------------------------------------------------ the change phase, single mode *)
Definition act_keys (vis : list change) : list N := map ch_pk (filter ch_act vis).

(* what the walk over the change stream did: vis = the visited prefix, rem = what is left for later rounds *)
Definition walk_spec (rs : N) (chs : list change) (q q' : retries) (nrec nrec' lastrev lastrev' : N)
           (vis rem : list change) : Prop :=
  chs = vis ++ rem /\
  nrec' = nrec + N.of_nat (length (filter ch_act vis)) /\
  (rem = [] \/ rs <= nrec') /\ (nrec < rs -> nrec' <= rs) /\
  lastrev' = last_rev vis lastrev /\
  (length (q_items q') <= length (q_items q))%nat /\
  (forall it, In it (q_items q') -> In it (q_items q) /\ ~ In (ri_pk it) (act_keys vis)).

Lemma act_keys_skip : forall ch vis, ch_act ch = false -> act_keys (ch :: vis) = act_keys vis.
Proof. intros ch vis H. unfold act_keys. cbn [filter]. rewrite H. reflexivity. Qed.
Lemma act_keys_take : forall ch vis, ch_act ch = true -> act_keys (ch :: vis) = ch_pk ch :: act_keys vis.
Proof. intros ch vis H. unfold act_keys. cbn [filter]. rewrite H. reflexivity. Qed.

Lemma single_calm : forall chs rs snap e q res nrec lastrev e' q' res' nrec' lastrev',
  calm e -> all_ok res ->
  single rs snap chs e q res nrec lastrev = (e', q', res', nrec', lastrev') ->
  calm e' /\ e_tab e' = e_tab e /\ e_now e' = e_now e /\ all_ok res' /\
  exists vis rem, walk_spec rs chs q q' nrec nrec' lastrev lastrev' vis rem /\
    (forall r, In r res' -> In r res \/ In (o_pk (r_obj r)) (act_keys vis)).
Proof.
  induction chs as [|ch rest IH]; intros rs snap e q res nrec lastrev e' q' res' nrec' lastrev' C A H; cbn [single] in H.
  - injection H as H1 H2 H3 H4 H5. subst. split; [exact C|]. split; [reflexivity|]. split; [reflexivity|]. split; [exact A|].
    exists [], []. split; [|intros r Hr; left; exact Hr].
    unfold walk_spec. cbn [app filter length last_rev act_keys map]. 
    split; [reflexivity|]. split; [cbn; lia|]. split; [left; reflexivity|]. split; [cbn; lia|]. split; [reflexivity|]. split; [lia|].
    intros it Hi. split; [exact Hi|intros []].
  - rewrite skip_is_not_act in H. destruct (ch_act ch) eqn:Ea; cbn [negb] in H.
    + destruct (process_single e snap true (r_clear q (o_pk (c_obj ch))) res (c_obj ch) (c_rev ch) (c_rev ch) (c_del ch))
        as [[e1 q1] res1] eqn:Ep.
      destruct (process_single_calm _ _ _ _ _ _ _ _ _ _ _ _ C Ep) as [C1 [T1 [N1 [Q1 R1]]]].
      assert (A1 : all_ok res1).
      { subst res1. destruct (c_del ch); [exact A|]. intros r Hr. apply in_app_or in Hr.
        destruct Hr as [Hr|[Hr|[]]]; [apply A; exact Hr|subst r; reflexivity]. }
      assert (I1 : forall it, In it (q_items q1) -> In it (q_items q) /\ ri_pk it <> ch_pk ch).
      { intros it Hi. subst q1. apply clear_in in Hi. destruct Hi as [Hi _]. apply clear_in in Hi. exact Hi. }
      assert (L1 : (length (q_items q1) <= length (q_items q))%nat).
      { subst q1. pose proof (clear_len (r_clear q (o_pk (c_obj ch))) (o_pk (c_obj ch))). pose proof (clear_len q (o_pk (c_obj ch))). lia. }
      assert (RR : forall r, In r res1 -> In r res \/ o_pk (r_obj r) = ch_pk ch).
      { intros r Hr. subst res1. destruct (c_del ch); [left; exact Hr|]. apply in_app_or in Hr.
        destruct Hr as [Hr|[Hr|[]]]; [left; exact Hr|right; subst r; reflexivity]. }
      destruct (rs <=? nrec + 1) eqn:Ers.
      * injection H as H1 H2 H3 H4 H5. subst e' q' res' nrec' lastrev'.
        split; [exact C1|]. split; [exact T1|]. split; [exact N1|]. split; [exact A1|].
        exists [ch], rest. split.
        -- unfold walk_spec. cbn [app filter last_rev]. rewrite Ea. cbn [length]. apply N.leb_le in Ers.
           split; [reflexivity|]. split; [lia|]. split; [right; lia|]. split; [lia|]. split; [reflexivity|]. split; [exact L1|].
           intros it Hi. split; [apply (I1 it Hi)|].
           rewrite act_keys_take by exact Ea. intros [X|[]]. destruct (I1 it Hi) as [_ Y]. congruence.
        -- intros r Hr. destruct (RR r Hr) as [X|X]; [left; exact X|right]. rewrite act_keys_take by exact Ea. left. symmetry. exact X.
      * destruct (IH _ _ _ _ _ _ _ _ _ _ _ _ C1 A1 H) as [C2 [T2 [N2 [A2 [vis [rem [WS RS]]]]]]].
        split; [exact C2|]. split; [congruence|]. split; [congruence|]. split; [exact A2|].
        exists (ch :: vis), rem. destruct WS as [W1 [W2 [W3 [W4 [W5 [W6 W7]]]]]]. apply N.leb_gt in Ers. split.
        -- unfold walk_spec. cbn [app filter last_rev]. rewrite Ea. cbn [length].
           split; [rewrite W1; reflexivity|]. split; [lia|]. split; [destruct W3 as [X|X]; [left; exact X|right; lia]|].
           split; [lia|]. split; [exact W5|]. split; [lia|].
           intros it Hi. destruct (W7 it Hi) as [Y1 Y2]. destruct (I1 it Y1) as [Z1 Z2]. split; [exact Z1|].
           rewrite act_keys_take by exact Ea. intros [X|X]; [congruence|contradiction].
        -- intros r Hr. rewrite act_keys_take by exact Ea. destruct (RS r Hr) as [X|X]; [|right; right; exact X].
           destruct (RR r X) as [Y|Y]; [left; exact Y|right; left; symmetry; exact Y].
    + destruct (IH _ _ _ _ _ _ _ _ _ _ _ _ C A H) as [C2 [T2 [N2 [A2 [vis [rem [WS RS]]]]]]].
      split; [exact C2|]. split; [exact T2|]. split; [exact N2|]. split; [exact A2|].
      exists (ch :: vis), rem. destruct WS as [W1 [W2 [W3 [W4 [W5 [W6 W7]]]]]]. split.
      * unfold walk_spec. cbn [app filter last_rev]. rewrite Ea. rewrite act_keys_skip by exact Ea.
        split; [rewrite W1; reflexivity|]. split; [exact W2|]. split; [exact W3|]. split; [exact W4|]. split; [exact W5|]. split; [exact W6|exact W7].
      * intros r Hr. rewrite act_keys_skip by exact Ea. apply RS. exact Hr.
Qed.

(* ------------------------------------------------------------------ the change phase, batch mode *)
Lemma batch_collect_walk : forall chs rs q dels upds nrec lastrev q' dels' upds' nrec' lastrev',
  batch_collect rs chs q dels upds nrec lastrev = (q', dels', upds', nrec', lastrev') ->
  exists vis rem, walk_spec rs chs q q' nrec nrec' lastrev lastrev' vis rem /\
    (forall c, In c upds' -> In c upds \/ In (ch_pk c) (act_keys vis)).
Proof.
  induction chs as [|ch rest IH]; intros rs q dels upds nrec lastrev q' dels' upds' nrec' lastrev' H; cbn [batch_collect] in H.
  - injection H as H1 H2 H3 H4 H5. subst.
    exists [], []. split; [|intros c Hc; left; exact Hc].
    unfold walk_spec. cbn [app filter length last_rev act_keys map].
    split; [reflexivity|]. split; [cbn; lia|]. split; [left; reflexivity|]. split; [cbn; lia|]. split; [reflexivity|]. split; [lia|].
    intros it Hi. split; [exact Hi|intros []].
  - rewrite skip_is_not_act in H. destruct (ch_act ch) eqn:Ea; cbn [negb] in H.
    + assert (I1 : forall it, In it (q_items (r_clear q (o_pk (c_obj ch)))) -> In it (q_items q) /\ ri_pk it <> ch_pk ch).
      { intros it Hi. apply clear_in in Hi. exact Hi. }
      pose proof (clear_len q (o_pk (c_obj ch))) as L1.
      assert (UU : forall c, In c (if c_del ch then upds else upds ++ [ch]) -> In c upds \/ c = ch).
      { intros c Hc. destruct (c_del ch); [left; exact Hc|]. apply in_app_or in Hc.
        destruct Hc as [Hc|[Hc|[]]]; [left; exact Hc|right; symmetry; exact Hc]. }
      destruct (rs <=? nrec + 1) eqn:Ers.
      * injection H as H1 H2 H3 H4 H5. subst q' dels' upds' nrec' lastrev'.
        exists [ch], rest. split.
        -- unfold walk_spec. cbn [app filter last_rev]. rewrite Ea. cbn [length]. apply N.leb_le in Ers.
           split; [reflexivity|]. split; [lia|]. split; [right; lia|]. split; [lia|]. split; [reflexivity|]. split; [exact L1|].
           intros it Hi. split; [apply (I1 it Hi)|].
           rewrite act_keys_take by exact Ea. intros [X|[]]. destruct (I1 it Hi) as [_ Y]. congruence.
        -- intros c Hc. destruct (UU c Hc) as [X|X]; [left; exact X|right]. rewrite act_keys_take by exact Ea. left. subst c. reflexivity.
      * destruct (IH _ _ _ _ _ _ _ _ _ _ _ H) as [vis [rem [WS RS]]].
        exists (ch :: vis), rem. destruct WS as [W1 [W2 [W3 [W4 [W5 [W6 W7]]]]]]. apply N.leb_gt in Ers. split.
        -- unfold walk_spec. cbn [app filter last_rev]. rewrite Ea. cbn [length].
           split; [rewrite W1; reflexivity|]. split; [lia|]. split; [destruct W3 as [X|X]; [left; exact X|right; lia]|].
           split; [lia|]. split; [exact W5|]. split; [lia|].
           intros it Hi. destruct (W7 it Hi) as [Y1 Y2]. destruct (I1 it Y1) as [Z1 Z2]. split; [exact Z1|].
           rewrite act_keys_take by exact Ea. intros [X|X]; [congruence|contradiction].
        -- intros c Hc. rewrite act_keys_take by exact Ea. destruct (RS c Hc) as [X|X]; [|right; right; exact X].
           destruct (UU c X) as [Y|Y]; [left; exact Y|right; left; subst c; reflexivity].
    + destruct (IH _ _ _ _ _ _ _ _ _ _ _ H) as [vis [rem [WS RS]]].
      exists (ch :: vis), rem. destruct WS as [W1 [W2 [W3 [W4 [W5 [W6 W7]]]]]]. split.
      * unfold walk_spec. cbn [app filter last_rev]. rewrite Ea. rewrite act_keys_skip by exact Ea.
        split; [rewrite W1; reflexivity|]. split; [exact W2|]. split; [exact W3|]. split; [exact W4|]. split; [exact W5|]. split; [exact W6|exact W7].
      * intros c Hc. rewrite act_keys_skip by exact Ea. apply RS. exact Hc.
Qed.

Lemma batch_deletes_calm : forall dl snap e q e' q', calm e -> batch_deletes snap dl e q = (e', q') ->
  calm e' /\ e_tab e' = e_tab e /\ e_now e' = e_now e /\ q' = q.
Proof.
  induction dl as [|d rest IH]; intros snap e q e' q' C H; cbn [batch_deletes] in H.
  - injection H as H1 H2. subst. split; [exact C|]. split; [reflexivity|]. split; reflexivity.
  - destruct (do_call e snap true 3 (c_obj d) (c_rev d)) as [e1 ok] eqn:Ec.
    destruct (do_call_calm _ _ _ _ _ _ _ _ C Ec) as [X [C1 [T1 N1]]]. subst ok.
    destruct (IH snap e1 q e' q' C1 H) as [C2 [T2 [N2 Q2]]].
    split; [exact C2|]. split; [congruence|]. split; [congruence|exact Q2].
Qed.

Lemma batch_update_calls_calm : forall upds snap e acc e' l, calm e -> (forall x, In x acc -> snd x = true) ->
  batch_update_calls snap upds e acc = (e', l) ->
  calm e' /\ e_tab e' = e_tab e /\ e_now e' = e_now e /\ (forall x, In x l -> snd x = true) /\
  (forall x, In x l -> In x acc \/ In (fst x) upds).
Proof.
  induction upds as [|c rest IH]; intros snap e acc e' l C A H; cbn [batch_update_calls] in H.
  - injection H as H1 H2. subst. split; [exact C|]. split; [reflexivity|]. split; [reflexivity|]. split; [exact A|].
    intros x Hx. left. exact Hx.
  - destruct (do_call e snap true 2 (c_obj c) (c_rev c)) as [e1 ok] eqn:Ec.
    destruct (do_call_calm _ _ _ _ _ _ _ _ C Ec) as [X [C1 [T1 N1]]]. subst ok.
    destruct (IH snap e1 (acc ++ [(c, true)]) e' l C1) as [C2 [T2 [N2 [A2 U2]]]].
    + intros x Hx. apply in_app_or in Hx. destruct Hx as [Hx|[Hx|[]]]; [apply A; exact Hx|subst x; reflexivity].
    + exact H.
    + split; [exact C2|]. split; [congruence|]. split; [congruence|]. split; [exact A2|].
      intros x Hx. destruct (U2 x Hx) as [Y|Y]; [|right; right; exact Y].
      apply in_app_or in Y. destruct Y as [Y|[Y|[]]]; [left; exact Y|right; left; subst x; reflexivity].
Qed.

Lemma batch_results_calm : forall l q res0 q' res', all_ok res0 -> (forall x, In x l -> snd x = true) ->
  batch_results l q res0 = (q', res') ->
  all_ok res' /\ (length (q_items q') <= length (q_items q))%nat /\
  (forall it, In it (q_items q') -> In it (q_items q)) /\
  (forall r, In r res' -> In r res0 \/ exists x, In x l /\ o_pk (r_obj r) = ch_pk (fst x)).
Proof.
  induction l as [|[c ok] rest IH]; intros q res0 q' res' A L H; cbn [batch_results] in H.
  - injection H as H1 H2. subst. split; [exact A|]. split; [lia|]. split; [intros it Hi; exact Hi|]. intros r Hr. left. exact Hr.
  - assert (Ok : ok = true) by (apply (L (c, ok)); left; reflexivity). subst ok.
    destruct (IH (r_clear q (o_pk (c_obj c))) (res0 ++ [mkRes (c_obj c) (c_rev c) (c_rev c) (o_sid (c_obj c)) true]) q' res') as [A2 [L2 [I2 R2]]].
    + intros r Hr. apply in_app_or in Hr. destruct Hr as [Hr|[Hr|[]]]; [apply A; exact Hr|subst r; reflexivity].
    + intros x Hx. apply L. right. exact Hx.
    + exact H.
    + split; [exact A2|]. split; [pose proof (clear_len q (o_pk (c_obj c))); lia|]. split.
      * intros it Hi. apply I2 in Hi. apply clear_in in Hi. apply Hi.
      * intros r Hr. destruct (R2 r Hr) as [Y|[x [Y1 Y2]]].
        -- apply in_app_or in Y. destruct Y as [Y|[Y|[]]]; [left; exact Y|right]. exists (c, true). split; [left; reflexivity|subst r; reflexivity].
        -- right. exists x. split; [right; exact Y1|exact Y2].
Qed.

(* ------------------------------------------------------------------ the change phase, either mode *)
Lemma phase1_calm : forall cf snap chs e q e1 q1 res1 nrec1 lastrev1, calm e ->
  phase1 cf snap chs e q = (e1, q1, res1, nrec1, lastrev1) ->
  calm e1 /\ e_tab e1 = e_tab e /\ e_now e1 = e_now e /\ all_ok res1 /\
  exists vis rem, walk_spec (cf_rs cf) chs q q1 0 nrec1 0 lastrev1 vis rem /\
    (forall r, In r res1 -> In (o_pk (r_obj r)) (act_keys vis)).
Proof.
  intros cf snap chs e q e1 q1 res1 nrec1 lastrev1 C H. unfold phase1 in H. destruct (cf_batch cf).
  - destruct (batch_collect (cf_rs cf) chs q [] [] 0 0) as [[[[qa dels] upds] nrec] lastrev] eqn:HC.
    destruct (batch_deletes snap dels e qa) as [e2 q2] eqn:HD.
    destruct (batch_update_calls snap upds e2 []) as [e3 l] eqn:HU.
    destruct (batch_results l q2 []) as [q4 res] eqn:HR.
    injection H as H1 H2 H3 H4 H5. subst e1 q1 res1 nrec1 lastrev1.
    destruct (batch_collect_walk _ _ _ _ _ _ _ _ _ _ _ _ HC) as [vis [rem [WS US]]].
    destruct (batch_deletes_calm _ _ _ _ _ _ C HD) as [C2 [T2 [N2 Q2]]]. subst q2.
    destruct (batch_update_calls_calm _ _ _ _ _ _ C2 (fun x (Hx : In x []) => match Hx with end) HU) as [C3 [T3 [N3 [L3 U3]]]].
    destruct (batch_results_calm _ _ _ _ _ (fun r (Hr : In r []) => match Hr with end) L3 HR) as [A4 [L4 [I4 R4]]].
    split; [exact C3|]. split; [congruence|]. split; [congruence|]. split; [exact A4|].
    exists vis, rem. destruct WS as [W1 [W2 [W3 [W4 [W5 [W6 W7]]]]]]. split.
    + unfold walk_spec. split; [exact W1|]. split; [exact W2|]. split; [exact W3|]. split; [exact W4|]. split; [exact W5|].
      split; [lia|]. intros it Hi. apply W7. apply I4. exact Hi.
    + intros r Hr. destruct (R4 r Hr) as [[]|[x [X1 X2]]]. rewrite X2.
      destruct (U3 x X1) as [[]|Y]. destruct (US _ Y) as [[]|Z]. exact Z.
  - destruct (single_calm _ _ _ _ _ _ _ _ _ _ _ _ _ C (fun r (Hr : In r []) => match Hr with end) H) as [C1 [T1 [N1 [A1 [vis [rem [WS RS]]]]]]].
    split; [exact C1|]. split; [exact T1|]. split; [exact N1|]. split; [exact A1|].
    exists vis, rem. split; [exact WS|]. intros r Hr. destruct (RS r Hr) as [[]|X]. exact X.
Qed.

(* ------------------------------------------------------------------ status commits of successful results *)
(* a counting predicate that does not see Done objects *)
Definition done_blind (f : slot -> bool) : Prop := forall o rv, o_kind o = Done -> f (Live o rv) = false.

Lemma ahead_done_blind : forall c, done_blind (ahead c).
Proof. intros c o rv H. unfold ahead, slot_act, is_pending. rewrite H. apply andb_false_r. Qed.

Lemma commit_one_cnt : forall fixed efb now t q r t' q' f, done_blind f -> r_ok r = true ->
  commit_one fixed efb now (t, q) r = (t', q') -> (cnt f (t_slots t') <= cnt f (t_slots t))%nat.
Proof.
  intros fixed efb now t q r t' q' f DB Hok H. unfold commit_one, t_fresh_id, t_cas in H. rewrite Hok in H.
  cbn [with_status o_pk negb andb] in H.
  set (t1 := mkTable (t_slots t) (t_rev t) (t_nextid t + 1) (t_pendinit t)) in *.
  destruct (t_live t1 (o_pk (r_obj r))) as [[cur rv]|].
  - destruct (rv =? r_rev r).
    + injection H as H1 H2. subst t'. cbn [t_insert t_slots t1]. apply cnt_aset_le. apply DB. reflexivity.
    + destruct (fallback_ok efb cur r).
      * injection H as H1 H2. subst t'. cbn [t_insert t_slots t1]. apply cnt_aset_le. apply DB. reflexivity.
      * injection H as H1 H2. subst t'. cbn [t_slots t1]. lia.
  - injection H as H1 H2. subst t'. cbn [t_slots t1]. lia.
Qed.

Lemma commit_status_calm : forall now res t q t' q', keyed t -> all_ok res ->
  commit_status_gen true true now t q res = (t', q') ->
  q' = q /\ keyed t' /\
  (forall k, ~ In k (res_pks res) -> slot_of t' k = slot_of t k) /\
  (forall f, done_blind f -> (cnt f (t_slots t') <= cnt f (t_slots t))%nat).
Proof.
  intros now res. unfold commit_status_gen. induction res as [|r rest IH]; intros t q t' q' K A H.
  - cbn in H. injection H as H1 H2. subst. split; [reflexivity|]. split; [exact K|]. split; [reflexivity|]. intros; lia.
  - cbn [fold_left] in H. destruct (commit_one true true now (t, q) r) as [t1 q1] eqn:E1.
    assert (Hok : r_ok r = true) by (apply A; left; reflexivity).
    destruct (commit_one_spec _ _ _ _ _ _ _ _ K E1) as [Ho [_ Hq]]. rewrite Hok in Hq. cbn [negb andb] in Hq. subst q1.
    pose proof (commit_one_keyed _ _ _ _ _ _ _ _ K E1) as K1.
    destruct (IH t1 q t' q' K1 (fun x Hx => A x (or_intror Hx)) H) as [Q2 [K2 [O2 C2]]].
    split; [exact Q2|]. split; [exact K2|]. split.
    + intros k Hk. cbn [res_pks map] in Hk. rewrite O2 by (intro X; apply Hk; right; exact X).
      apply Ho. intro X. apply Hk. left. symmetry. exact X.
    + intros f DB. pose proof (C2 f DB). pose proof (commit_one_cnt _ _ _ _ _ _ _ _ f DB Hok E1). lia.
Qed.

(* ------------------------------------------------------------------ the retry phase *)
Lemma process_retries_full : forall fuel rs snap e q res nrec, rs <= nrec ->
  process_retries fuel rs snap e q res nrec = (e, q, res, nrec).
Proof.
  intros fuel rs snap e q res nrec H. destruct fuel; cbn [process_retries]; [reflexivity|].
  destruct (N.ltb_spec nrec rs) as [X|X]; [lia|reflexivity].
Qed.

Lemma process_retries_empty : forall fuel rs snap e q res nrec, q_items q = [] ->
  process_retries fuel rs snap e q res nrec = (e, q, res, nrec).
Proof.
  intros fuel rs snap e q res nrec H. destruct fuel; cbn [process_retries]; [reflexivity|].
  unfold r_top. rewrite H. cbn [top_of]. destruct (nrec <? rs); reflexivity.
Qed.

Lemma process_retries_calm : forall fuel rs snap e q res nrec e' q' res' nrec', calm e -> all_ok res ->
  (forall it, In it (q_items q) -> ri_inq it = true /\ ri_at it <= e_now e) ->
  rs <= N.of_nat fuel + nrec ->
  process_retries fuel rs snap e q res nrec = (e', q', res', nrec') ->
  calm e' /\ e_tab e' = e_tab e /\ e_now e' = e_now e /\ all_ok res' /\
  (forall it, In it (q_items q') -> In it (q_items q)) /\
  (q_items q' = [] \/ N.of_nat (length (q_items q')) + (rs - nrec) <= N.of_nat (length (q_items q))).
Proof.
  induction fuel as [|f IH]; intros rs snap e q res nrec e' q' res' nrec' C A R F H; cbn [process_retries] in H.
  - injection H as H1 H2 H3 H4. subst. split; [exact C|]. split; [reflexivity|]. split; [reflexivity|]. split; [exact A|].
    split; [intros it Hi; exact Hi|right; lia].
  - destruct (N.ltb_spec nrec rs) as [Lt|Ge].
    2:{ injection H as H1 H2 H3 H4. subst. split; [exact C|]. split; [reflexivity|]. split; [reflexivity|]. split; [exact A|].
        split; [intros it Hi; exact Hi|right; lia]. }
    destruct (r_top q) as [it|] eqn:Et.
    2:{ injection H as H1 H2 H3 H4. subst. split; [exact C|]. split; [reflexivity|]. split; [reflexivity|]. split; [exact A|].
        split; [intros it Hi; exact Hi|left].
        destruct (q_items q') as [|i r] eqn:Eq; [reflexivity|]. exfalso.
        unfold r_top in Et. rewrite Eq in Et. pose proof (top_of_none _ Et i (or_introl eq_refl)) as X.
        destruct (R i (or_introl eq_refl)) as [Y _]. congruence. }
    unfold r_top in Et. destruct (top_of_spec _ _ Et) as [Hin _]. destruct (R it Hin) as [_ Due].
    destruct (N.ltb_spec (e_now e) (ri_at it)) as [X|_]; [lia|].
    destruct (process_single e snap false (r_pop q) res (ri_obj it) (ri_rev it) (ri_orig it) (ri_del it)) as [[e1 q1] res1] eqn:Ep.
    destruct (process_single_calm _ _ _ _ _ _ _ _ _ _ _ _ C Ep) as [C1 [T1 [N1 [Q1 R1]]]].
    assert (Items1 : q_items q1 = remove_item (ri_pk it) (q_items q)).
    { subst q1. rewrite clear_items, pop_items, Et. apply (remove_put_same (set_inq false it)). }
    assert (A1 : all_ok res1).
    { subst res1. destruct (ri_del it); [exact A|]. intros r Hr. apply in_app_or in Hr.
      destruct Hr as [Hr|[Hr|[]]]; [apply A; exact Hr|subst r; reflexivity]. }
    assert (Sub1 : forall i, In i (q_items q1) -> In i (q_items q)).
    { intros i Hi. rewrite Items1 in Hi. apply in_remove_item in Hi. apply Hi. }
    assert (Len1 : (length (q_items q1) < length (q_items q))%nat).
    { rewrite Items1. apply (remove_item_length_lt _ _ it Hin eq_refl). }
    destruct (IH rs snap e1 q1 res1 (nrec + 1) e' q' res' nrec' C1 A1) as [C2 [T2 [N2 [A2 [S2 L2]]]]].
    + intros i Hi. rewrite N1. apply R. apply Sub1. exact Hi.
    + lia.
    + exact H.
    + split; [exact C2|]. split; [congruence|]. split; [congruence|]. split; [exact A2|].
      split; [intros i Hi; apply Sub1; apply S2; exact Hi|].
      destruct L2 as [L2|L2]; [left; exact L2|right; lia].
Qed.

(* ------------------------------------------------------------------ the parts of a round *)
Lemma round_decompose : forall cf e s e' s', round cf e s = (e', s') ->
  exists e1 q1 res1 nrec1 lastrev1 t1 q2 e3 q3 res2 nrec3 t2 q4,
    phase1 cf (e_tab e) (changes_of (e_tab e) (k_cursor s)) e (k_ret s) = (e1, q1, res1, nrec1, lastrev1) /\
    commit_status_gen true true (e_now e1) (e_tab e1) q1 res1 = (t1, q2) /\
    process_retries (N.to_nat (cf_rs cf)) (cf_rs cf) (e_tab e) (set_tab e1 t1) q2 [] nrec1 = (e3, q3, res2, nrec3) /\
    commit_status_gen true true (e_now e3) (e_tab e3) q3 res2 = (t2, q4) /\
    e_tab e' = t2 /\ e_now e' = e_now e3 /\ e_foff e' = e_foff e3 /\ e_hooks e' = e_hooks e3 /\
    e_attempts e' = e_attempts e3 /\
    k_cursor s' = curs (k_cursor s) lastrev1 /\ k_ret s' = q4.
Proof.
  intros cf e s e' s' H. unfold round, round_gen in H. cbv zeta in H.
  change (if cf_batch cf
          then let '(q, dels, upds, nrec, lastrev) := batch_collect (cf_rs cf) (changes_of (e_tab e) (k_cursor s)) (k_ret s) [] [] 0 0 in
               let (e0, q0) := batch_deletes (e_tab e) dels e q in
               let (e1, l) := batch_update_calls (e_tab e) upds e0 [] in
               let (q1, res) := batch_results l q0 [] in (e1, q1, res, nrec, lastrev)
          else single (cf_rs cf) (e_tab e) (changes_of (e_tab e) (k_cursor s)) e (k_ret s) [] 0 0)
    with (phase1 cf (e_tab e) (changes_of (e_tab e) (k_cursor s)) e (k_ret s)) in H.
  destruct (phase1 cf (e_tab e) (changes_of (e_tab e) (k_cursor s)) e (k_ret s)) as [[[[e1 q1] res1] nrec1] lastrev1] eqn:E1.
  destruct (commit_status_gen true true (e_now e1) (e_tab e1) q1 res1) as [t1 q2] eqn:C1.
  destruct (process_retries (N.to_nat (cf_rs cf)) (cf_rs cf) (e_tab e) (set_tab e1 t1) q2 [] nrec1) as [[[e3 q3] res2] nrec3] eqn:R1.
  destruct (commit_status_gen true true (e_now e3) (e_tab e3) q3 res2) as [t2 q4] eqn:C2.
  exists e1, q1, res1, nrec1, lastrev1, t1, q2, e3, q3, res2, nrec3, t2, q4.
  split; [reflexivity|]. split; [exact C1|]. split; [exact R1|]. split; [exact C2|].
  match type of H with (if ?b then _ else _) = _ => destruct b end; injection H as H1 H2; subst e' s'; cbn;
    repeat split; reflexivity.
Qed.

(* ------------------------------------------------------------------ the work ahead after the walk *)
Lemma filter_none : forall A (g : A -> bool) l, (forall x, In x l -> g x = false) -> filter g l = [].
Proof.
  intros A g l. induction l as [|x r IH]; intro H; cbn [filter]; [reflexivity|].
  rewrite (H x (or_introl eq_refl)). apply IH. intros y Hy. apply H. right. exact Hy.
Qed.

Lemma filter_and_le : forall A (p g : A -> bool) l,
  (length (filter (fun x => p x && g x) l) <= length (filter g l))%nat.
Proof.
  intros A p g l. induction l as [|x r IH]; cbn [filter]; [lia|].
  destruct (p x), (g x); cbn [andb length]; lia.
Qed.

Lemma ahead_after_walk : forall snap c vis rem t2, twf snap -> changes_of snap c = vis ++ rem ->
  (cnt (ahead (last_rev vis c)) (t_slots t2) <= cnt (ahead (last_rev vis c)) (t_slots snap))%nat ->
  (pending_ahead t2 (last_rev vis c) <= length (filter ch_act rem))%nat /\
  pending_ahead snap c = (length (filter ch_act vis) + length (filter ch_act rem))%nat.
Proof.
  intros snap c vis rem t2 W E H.
  pose proof (changes_stream_ok snap c W) as [_ [S2 [_ [_ S5]]]]. rewrite E in S2, S5.
  assert (Hvis : forall ch, In ch vis -> c < c_rev ch) by (intros ch Hc; apply S5; apply in_or_app; left; exact Hc).
  pose proof (cursor_monotone c vis Hvis) as CM.
  split.
  - rewrite (pending_ahead_cnt t2). eapply Nat.le_trans; [exact H|].
    rewrite <- pending_ahead_cnt, (pending_ahead_later snap c _ CM), E, filter_app, app_length.
    rewrite (filter_none _ _ vis).
    + cbn [length]. apply filter_and_le.
    + intros x Hx. pose proof (sorted_le_last vis c (sorted_app_l _ _ S2) x Hx) as L.
      destruct (N.ltb_spec (last_rev vis c) (c_rev x)) as [X|X]; [lia|reflexivity].
  - unfold pending_ahead. rewrite E, filter_app, app_length. reflexivity.
Qed.

Lemma calm_ext : forall e e', e_foff e' = e_foff e -> e_hooks e' = e_hooks e -> e_attempts e' = e_attempts e ->
  calm e -> calm e'.
Proof.
  intros e e' F H A [C1 C2]. split; [congruence|]. intros k n w Hin. unfold att. rewrite A. rewrite H in Hin. apply (C2 k n w Hin).
Qed.

(* ------------------------------------------------------------------ retry items that can be processed *)
(* every retry item is either queued and due (the clock does not go backwards: rounds do not move it), or
   its key has a deletion / a Pending or Refreshing object ahead of the cursor — the change phase will then
   Clear the item before the retry phase can look at it (this is the only way an item that was popped but
   not re-queued, ri_inq = false, is ever removed) *)
Definition items_ready (e : env) (s : rstate) : Prop :=
  forall it, In it (q_items (k_ret s)) ->
    (ri_inq it = true /\ ri_at it <= e_now e) \/
    (exists sl, slot_of (e_tab e) (ri_pk it) = Some sl /\ k_cursor s < slot_rev sl /\ slot_act sl = true).

(* an item that survived the walk and whose key has work ahead: that work is in the unvisited rest *)
Lemma survivor_in_rest : forall snap c vis rem k sl, twf snap -> changes_of snap c = vis ++ rem ->
  slot_of snap k = Some sl -> c < slot_rev sl -> slot_act sl = true -> ~ In k (act_keys vis) ->
  In (slot_change sl) rem.
Proof.
  intros snap c vis rem k sl W E Hs Hlt Ha Hn.
  pose proof (changes_stream_ok snap c W) as [_ [_ [_ [S4 _]]]]. specialize (S4 k sl Hs Hlt). rewrite E in S4.
  apply in_app_or in S4. destruct S4 as [X|X]; [|exact X]. exfalso. apply Hn.
  destruct W as [_ [W2 _]]. destruct (W2 k sl Hs) as [K _].
  replace k with (ch_pk (slot_change sl)) by (unfold ch_pk; rewrite slot_change_obj; exact K).
  unfold act_keys. apply in_map. apply filter_In. split; [exact X|]. rewrite ch_act_slot. exact Ha.
Qed.

Lemma calm_set_tab : forall e t, calm e -> calm (set_tab e t).
Proof. intros e t C. apply (calm_ext e); try reflexivity. exact C. Qed.

(* ------------------------------------------------------------------ one round makes progress *)
Lemma round_progress : forall cf e s e' s', twf (e_tab e) -> 0 < cf_rs cf -> calm e -> items_ready e s ->
  round cf e s = (e', s') ->
  calm e' /\ e_now e' = e_now e /\ items_ready e' s' /\
  (measure e' s' + Nat.min (N.to_nat (cf_rs cf)) (measure e s) <= measure e s)%nat.
Proof.
  intros cf e s e' s' W RS C IR H.
  destruct (round_decompose _ _ _ _ _ H) as [e1 [q1 [res1 [nrec1 [lastrev1 [t1 [q2 [e3 [q3 [res2 [nrec3 [t2 [q4
    [P1 [Cm1 [PR [Cm2 [Tt [Tn [Tf [Th [Ta [Tc Tq]]]]]]]]]]]]]]]]]]]]]]].
  destruct (phase1_calm _ _ _ _ _ _ _ _ _ _ C P1) as [C1 [T1 [N1 [A1 [vis [rem [[W1 [W2 [W3 [W4 [W5 [W6 W7]]]]]] RK]]]]]]].
  pose proof (changes_stream_ok (e_tab e) (k_cursor s) W) as SOK.
  assert (Hvis : forall ch, In ch vis -> k_cursor s < c_rev ch).
  { destruct SOK as [_ [_ [_ [_ S5]]]]. intros ch Hc. apply S5. rewrite W1. apply in_or_app. left. exact Hc. }
  assert (Ec : curs (k_cursor s) lastrev1 = last_rev vis (k_cursor s)) by (rewrite W5; apply curs_last; exact Hvis).
  rewrite Ec in Tc.
  pose proof SOK as SOK'. rewrite W1 in SOK'. apply (stream_split _ _ _ _ W) in SOK'.
  rewrite T1 in Cm1.
  destruct (commit_status_calm _ _ _ _ _ _ (twf_keyed _ W) A1 Cm1) as [Q2 [K1 [O1 Cn1]]]. subst q2.
  assert (Untouched : forall it, In it (q_items q1) -> slot_of t1 (ri_pk it) = slot_of (e_tab e) (ri_pk it)).
  { intros it Hi. apply O1. intro X. unfold res_pks in X. apply in_map_iff in X. destruct X as [r [X1 X2]].
    destruct (W7 it Hi) as [_ Y]. apply Y. rewrite <- X1. apply RK. exact X2. }
  set (a := length (filter ch_act vis)) in *.
  destruct (N.ltb_spec nrec1 (cf_rs cf)) as [Lt|Ge].
  - (* the stream was exhausted: the retry phase runs *)
    assert (Rem : rem = []) by (destruct W3 as [X|X]; [exact X|lia]). subst rem.
    assert (R1 : forall it, In it (q_items q1) -> ri_inq it = true /\ ri_at it <= e_now (set_tab e1 t1)).
    { intros it Hi. destruct (W7 it Hi) as [Hq Hnk]. destruct (IR it Hq) as [[A B]|[sl [A [B D]]]].
      - split; [exact A|]. cbn [set_tab e_now]. rewrite N1. exact B.
      - destruct (survivor_in_rest _ _ _ _ _ _ W W1 A B D Hnk). }
    assert (Fuel : cf_rs cf <= N.of_nat (N.to_nat (cf_rs cf)) + nrec1) by lia.
    destruct (process_retries_calm _ _ _ _ _ _ _ _ _ _ _ (calm_set_tab _ t1 C1) (fun r (Hr : In r []) => match Hr with end) R1
                Fuel PR) as [C3 [T3 [N3 [A3 [S3 L3]]]]].
    cbn [set_tab e_tab e_now] in T3, N3. rewrite T3 in Cm2.
    destruct (commit_status_calm _ _ _ _ _ _ K1 A3 Cm2) as [Q4 [K2 [O2 Cn2]]]. rewrite Q4 in Tq.
    split; [apply (calm_ext e3); assumption|]. split; [congruence|]. split.
    + intros it Hi. rewrite Tq in Hi. left. destruct (R1 it (S3 it Hi)) as [X Y]. split; [exact X|]. cbn [set_tab e_now] in Y. congruence.
    + unfold measure. rewrite Tt, Tc, Tq.
      destruct (ahead_after_walk (e_tab e) (k_cursor s) vis [] t2 W W1) as [PA PB].
      { pose proof (Cn1 _ (ahead_done_blind (last_rev vis (k_cursor s)))). pose proof (Cn2 _ (ahead_done_blind (last_rev vis (k_cursor s)))). lia. }
      cbn [filter length] in PA, PB. fold a in PB. rewrite PB.
      destruct L3 as [L3|L3]; [rewrite L3; cbn [length]; lia|lia].
  - (* the round-size limit stopped the walk: no retry is processed in this round *)
    rewrite process_retries_full in PR by exact Ge. injection PR as X1 X2 X3 X4. subst e3 q3 res2 nrec3.
    unfold commit_status_gen in Cm2. cbn [fold_left set_tab e_tab] in Cm2. injection Cm2 as Y1 Y2. rewrite <- Y1 in Tt. rewrite <- Y2 in Tq.
    split; [apply (calm_ext (set_tab e1 t1)); try assumption; apply calm_set_tab; exact C1|].
    split; [rewrite Tn; cbn [set_tab e_now]; exact N1|]. split.
    + intros it Hi. rewrite Tq in Hi. destruct (W7 it Hi) as [Hq Hnk]. destruct (IR it Hq) as [[A B]|[sl [A [B D]]]].
      * left. split; [exact A|]. rewrite Tn. cbn [set_tab e_now]. rewrite N1. exact B.
      * right. exists sl. pose proof (survivor_in_rest _ _ _ _ _ _ W W1 A B D Hnk) as X.
        split; [rewrite Tt, (Untouched it Hi); exact A|]. split; [|exact D].
        rewrite Tc. destruct SOK' as [_ [_ [_ [_ S5]]]]. specialize (S5 _ X). rewrite slot_change_rev in S5. exact S5.
    + unfold measure. rewrite Tt, Tc, Tq.
      destruct (ahead_after_walk (e_tab e) (k_cursor s) vis rem t1 W W1 (Cn1 _ (ahead_done_blind _))) as [PA PB].
      fold a in PB. rewrite PB. lia.
Qed.

(* ------------------------------------------------------------------ the last round: nothing to do but move the cursor *)
Lemma single_idle : forall chs rs snap e q res nrec lastrev, (forall ch, In ch chs -> ch_act ch = false) ->
  single rs snap chs e q res nrec lastrev = (e, q, res, nrec, last_rev chs lastrev).
Proof.
  induction chs as [|ch rest IH]; intros rs snap e q res nrec lastrev H; cbn [single last_rev]; [reflexivity|].
  rewrite skip_is_not_act, (H ch (or_introl eq_refl)). cbn [negb]. apply IH. intros x Hx. apply H. right. exact Hx.
Qed.

Lemma batch_collect_idle : forall chs rs q dels upds nrec lastrev, (forall ch, In ch chs -> ch_act ch = false) ->
  batch_collect rs chs q dels upds nrec lastrev = (q, dels, upds, nrec, last_rev chs lastrev).
Proof.
  induction chs as [|ch rest IH]; intros rs q dels upds nrec lastrev H; cbn [batch_collect last_rev]; [reflexivity|].
  rewrite skip_is_not_act, (H ch (or_introl eq_refl)). cbn [negb]. apply IH. intros x Hx. apply H. right. exact Hx.
Qed.

Lemma phase1_idle : forall cf snap chs e q, (forall ch, In ch chs -> ch_act ch = false) ->
  phase1 cf snap chs e q = (e, q, [], 0, last_rev chs 0).
Proof.
  intros cf snap chs e q H. unfold phase1. destruct (cf_batch cf).
  - rewrite (batch_collect_idle _ _ _ _ _ _ _ H). reflexivity.
  - apply single_idle. exact H.
Qed.

Lemma filter_nil_all : forall A (g : A -> bool) l, filter g l = [] -> forall x, In x l -> g x = false.
Proof.
  intros A g l. induction l as [|y r IH]; intros H x Hx; [destruct Hx|]. cbn [filter] in H.
  destruct (g y) eqn:E; [discriminate|]. destruct Hx as [Hx|Hx]; [subst x; exact E|apply IH; assumption].
Qed.

Lemma stream_exhausted : forall snap c, twf snap -> stream_ok snap c [] -> changes_of snap c = [].
Proof.
  intros snap c W [_ [_ [_ [S4 _]]]]. destruct (changes_of snap c) as [|ch l] eqn:E; [reflexivity|exfalso].
  destruct (changes_stream_ok snap c W) as [_ [_ [T3 [_ T5]]]]. rewrite E in T3, T5.
  destruct (T3 ch (or_introl eq_refl)) as [sl [A B]]. specialize (T5 ch (or_introl eq_refl)).
  rewrite <- B, slot_change_rev in T5. apply (S4 _ _ A T5).
Qed.

(* a round that finds no retry item and no deletion / Pending / Refreshing object ahead of the cursor calls no
   operation, writes nothing, and leaves the cursor at the end of the stream: the reconciler is quiescent.
   No hypothesis on faults, hooks or the clock is needed. *)
Lemma idle_round : forall cf e s e' s', twf (e_tab e) -> q_items (k_ret s) = [] ->
  pending_ahead (e_tab e) (k_cursor s) = 0%nat -> round cf e s = (e', s') ->
  e_tab e' = e_tab e /\ e_now e' = e_now e /\ e_foff e' = e_foff e /\ e_hooks e' = e_hooks e /\
  e_attempts e' = e_attempts e /\ k_ret s' = k_ret s /\ k_cursor s <= k_cursor s' /\ quiescent e' s'.
Proof.
  intros cf e s e' s' W QE PZ H.
  destruct (round_decompose _ _ _ _ _ H) as [e1 [q1 [res1 [nrec1 [lastrev1 [t1 [q2 [e3 [q3 [res2 [nrec3 [t2 [q4
    [P1 [Cm1 [PR [Cm2 [Tt [Tn [Tf [Th [Ta [Tc Tq]]]]]]]]]]]]]]]]]]]]]]].
  unfold pending_ahead in PZ. apply length_zero_iff_nil in PZ. pose proof (filter_nil_all _ _ _ PZ) as NA.
  rewrite (phase1_idle _ _ _ _ _ NA) in P1. injection P1 as X1 X2 X3 X4 X5. subst e1 q1 res1 nrec1 lastrev1.
  unfold commit_status_gen in Cm1. cbn [fold_left] in Cm1. injection Cm1 as Y1 Y2. subst t1 q2.
  rewrite process_retries_empty in PR by exact QE. injection PR as Z1 Z2 Z3 Z4. subst e3 q3 res2 nrec3.
  unfold commit_status_gen in Cm2. cbn [fold_left set_tab e_tab] in Cm2. injection Cm2 as V1 V2. subst t2 q4.
  pose proof (changes_stream_ok (e_tab e) (k_cursor s) W) as SOK.
  assert (Hvis : forall ch, In ch (changes_of (e_tab e) (k_cursor s)) -> k_cursor s < c_rev ch).
  { destruct SOK as [_ [_ [_ [_ S5]]]]. exact S5. }
  rewrite (curs_last _ _ Hvis) in Tc.
  split; [exact Tt|]. split; [exact Tn|]. split; [exact Tf|]. split; [exact Th|]. split; [exact Ta|]. split; [exact Tq|].
  split; [rewrite Tc; apply cursor_monotone; exact Hvis|].
  split; [rewrite Tq; exact QE|]. rewrite Tt, Tc. apply (stream_exhausted _ _ W).
  apply (stream_split _ _ [] _ W). rewrite app_nil_r. exact SOK.
Qed.

(* ------------------------------------------------------------------ iterating rounds *)
Fixpoint iter_round (cf : cfg) (n : nat) (st : env * rstate) : env * rstate :=
  match n with O => st | S m => iter_round cf m (round cf (fst st) (snd st)) end.

Lemma iter_round_add : forall cf n m st, iter_round cf (n + m) st = iter_round cf m (iter_round cf n st).
Proof. intros cf n. induction n as [|n IH]; intros m st; cbn [Nat.add iter_round]; [reflexivity|apply IH]. Qed.

Lemma full_inv_twf : forall e s, full_inv e s -> twf (e_tab e).
Proof. intros e s [[[W _] _] _]. exact W. Qed.

Lemma quiescent_no_work : forall e s, quiescent e s -> q_items (k_ret s) = [] /\ pending_ahead (e_tab e) (k_cursor s) = 0%nat.
Proof. intros e s [Q1 Q2]. split; [exact Q1|]. unfold pending_ahead. rewrite Q2. reflexivity. Qed.

(* idempotence: a quiescent reconciler stays quiescent under further rounds (whatever the fault oracle, the
   hooks and the clock do — no operation is called): table, retry queue and cursor do not move; only a due
   prune tick adds a Prune call to the log *)
Theorem quiescent_stable : forall cf e s e' s', full_inv e s -> quiescent e s -> round cf e s = (e', s') ->
  quiescent e' s' /\ e_tab e' = e_tab e /\ k_ret s' = k_ret s /\ k_cursor s' = k_cursor s.
Proof.
  intros cf e s e' s' FI Q H. destruct (quiescent_no_work e s Q) as [QE PZ].
  pose proof (full_inv_twf _ _ FI) as W.
  destruct (idle_round cf e s e' s' W QE PZ H) as [T [_ [_ [_ [_ [R [_ Q']]]]]]].
  split; [exact Q'|]. split; [exact T|]. split; [exact R|].
  (* the cursor does not move: the stream is empty *)
  destruct (round_decompose _ _ _ _ _ H) as [e1 [q1 [res1 [nrec1 [lastrev1 [t1 [q2 [e3 [q3 [res2 [nrec3 [t2 [q4
    [P1 [_ [_ [_ [_ [_ [_ [_ [_ [Tc _]]]]]]]]]]]]]]]]]]]]]]].
  destruct Q as [_ Q2]. rewrite Q2 in P1. rewrite phase1_idle in P1 by (intros ch []).
  injection P1 as X1 X2 X3 X4 X5. subst lastrev1. exact Tc.
Qed.

Theorem quiescent_forever : forall cf m e s, full_inv e s -> quiescent e s ->
  quiescent (fst (iter_round cf m (e, s))) (snd (iter_round cf m (e, s))) /\
  full_inv (fst (iter_round cf m (e, s))) (snd (iter_round cf m (e, s))) /\
  e_tab (fst (iter_round cf m (e, s))) = e_tab e /\
  k_ret (snd (iter_round cf m (e, s))) = k_ret s /\ k_cursor (snd (iter_round cf m (e, s))) = k_cursor s.
Proof.
  intros cf m. induction m as [|m IH]; intros e s FI Q; cbn [iter_round fst snd].
  - split; [exact Q|]. split; [exact FI|]. split; [reflexivity|]. split; reflexivity.
  - destruct (round cf e s) as [e1 s1] eqn:E.
    destruct (quiescent_stable cf e s e1 s1 FI Q E) as [Q1 [T1 [R1 C1]]].
    pose proof (round_keeps_full cf e s e1 s1 FI E) as FI1.
    destruct (IH e1 s1 FI1 Q1) as [Q2 [F2 [T2 [R2 C2]]]].
    split; [exact Q2|]. split; [exact F2|]. split; [congruence|]. split; congruence.
Qed.

(* ------------------------------------------------------------------ bounded convergence *)
Lemma converges_in : forall cf k e s, full_inv e s -> 0 < cf_rs cf -> calm e -> items_ready e s ->
  N.of_nat (measure e s) <= N.of_nat k * cf_rs cf ->
  exists n, (n <= k + 1)%nat /\
    quiescent (fst (iter_round cf n (e, s))) (snd (iter_round cf n (e, s))) /\
    full_inv (fst (iter_round cf n (e, s))) (snd (iter_round cf n (e, s))) /\
    calm (fst (iter_round cf n (e, s))) /\ e_now (fst (iter_round cf n (e, s))) = e_now e.
Proof.
  intros cf k. induction k as [|k IH]; intros e s FI RS C IR M.
  - exists 1%nat. split; [lia|]. cbn [iter_round fst snd]. destruct (round cf e s) as [e1 s1] eqn:E. cbn [fst snd].
    assert (MZ : measure e s = 0%nat) by lia. unfold measure in MZ.
    assert (QE : q_items (k_ret s) = []) by (apply length_zero_iff_nil; lia).
    assert (PZ : pending_ahead (e_tab e) (k_cursor s) = 0%nat) by lia.
    destruct (idle_round cf e s e1 s1 (full_inv_twf _ _ FI) QE PZ E) as [T [Nw [Ff [Hh [Aa [R [_ Q']]]]]]].
    split; [exact Q'|]. split; [apply (round_keeps_full cf e s e1 s1 FI E)|]. split; [apply (calm_ext e); assumption|exact Nw].
  - destruct (round cf e s) as [e1 s1] eqn:E.
    destruct (round_progress cf e s e1 s1 (full_inv_twf _ _ FI) RS C IR E) as [C1 [N1 [IR1 M1]]].
    pose proof (round_keeps_full cf e s e1 s1 FI E) as FI1.
    destruct (IH e1 s1 FI1 RS C1 IR1) as [n [Hn [Q [F2 [C2 N2]]]]]; [lia|].
    exists (S n). split; [lia|]. cbn [iter_round fst snd]. rewrite E.
    split; [exact Q|]. split; [exact F2|]. split; [exact C2|congruence].
Qed.

(* the explicit bound: ceil((#pending changes ahead + #retry items) / roundSize) + 1 rounds *)
Definition bound (cf : cfg) (e : env) (s : rstate) : nat :=
  (N.to_nat ((N.of_nat (measure e s) + cf_rs cf - 1) / cf_rs cf) + 1)%nat.

Lemma ceil_div_covers : forall m r, 0 < r -> m <= ((m + r - 1) / r) * r.
Proof.
  intros m r H. assert (Hr : r <> 0) by lia. pose proof (N.mul_succ_div_gt (m + r - 1) r Hr) as X.
  rewrite N.mul_succ_r in X. lia.
Qed.

Theorem converges_bounded : forall cf e s, full_inv e s -> 0 < cf_rs cf -> calm e -> items_ready e s ->
  exists n, (n <= bound cf e s)%nat /\
    quiescent (fst (iter_round cf n (e, s))) (snd (iter_round cf n (e, s))) /\
    reconciled (fst (iter_round cf n (e, s))).
Proof.
  intros cf e s FI RS C IR.
  destruct (converges_in cf (N.to_nat ((N.of_nat (measure e s) + cf_rs cf - 1) / cf_rs cf)) e s FI RS C IR) as [n [Hn [Q [F2 _]]]].
  - rewrite N2Nat.id. apply ceil_div_covers. exact RS.
  - exists n. split; [exact Hn|]. split; [exact Q|]. apply (quiescent_is_reconciled _ _ F2 Q).
Qed.

(* ... and it stays there: from some round n <= bound on, EVERY later state is quiescent and reconciled, and
   the table is the table reached at round n *)
Theorem converges_and_stays : forall cf e s, full_inv e s -> 0 < cf_rs cf -> calm e -> items_ready e s ->
  exists n, (n <= bound cf e s)%nat /\
    forall m, (n <= m)%nat ->
      quiescent (fst (iter_round cf m (e, s))) (snd (iter_round cf m (e, s))) /\
      reconciled (fst (iter_round cf m (e, s))) /\
      e_tab (fst (iter_round cf m (e, s))) = e_tab (fst (iter_round cf n (e, s))).
Proof.
  intros cf e s FI RS C IR.
  destruct (converges_in cf (N.to_nat ((N.of_nat (measure e s) + cf_rs cf - 1) / cf_rs cf)) e s FI RS C IR) as [n [Hn [Q [F2 _]]]].
  - rewrite N2Nat.id. apply ceil_div_covers. exact RS.
  - exists n. split; [exact Hn|]. intros m Hm. replace m with (n + (m - n))%nat by lia. rewrite iter_round_add.
    destruct (iter_round cf n (e, s)) as [en sn] eqn:En. cbn [fst snd] in *.
    destruct (quiescent_forever cf (m - n) en sn F2 Q) as [Q' [F' [T' _]]].
    split; [exact Q'|]. split; [apply (quiescent_is_reconciled _ _ F' Q')|exact T'].
Qed.

(* ------------------------------------------------------------------ the simple form of the hypotheses *)
(* no hook registered at all, every retry item queued and due *)
Corollary converges_bounded_simple : forall cf e s, full_inv e s -> 0 < cf_rs cf ->
  e_foff e = true -> e_hooks e = [] ->
  (forall it, In it (q_items (k_ret s)) -> ri_inq it = true /\ ri_at it <= e_now e) ->
  exists n, (n <= bound cf e s)%nat /\
    forall m, (n <= m)%nat ->
      quiescent (fst (iter_round cf m (e, s))) (snd (iter_round cf m (e, s))) /\
      reconciled (fst (iter_round cf m (e, s))).
Proof.
  intros cf e s FI RS F Hh R.
  destruct (converges_and_stays cf e s FI RS (conj F (no_hooks_inert e Hh))) as [n [Hn S]].
  - intros it Hi. left. apply R. exact Hi.
  - exists n. split; [exact Hn|]. intros m Hm. destruct (S m Hm) as [A [B _]]. split; assumption.
Qed.

(* a decidable sufficient condition for items_ready, and full_inv of reachable states in curried form *)
Definition all_due_b (e : env) (s : rstate) : bool :=
  forallb (fun it => ri_inq it && (ri_at it <=? e_now e)) (q_items (k_ret s)).

Lemma all_due_ready : forall e s, all_due_b e s = true -> items_ready e s.
Proof.
  intros e s H it Hi. left. unfold all_due_b in H. rewrite forallb_forall in H. specialize (H it Hi).
  apply andb_prop in H. destruct H as [A B]. apply N.leb_le in B. split; assumption.
Qed.

Lemma reach_full_inv : forall cf e s, reach cf (e, s) -> full_inv e s.
Proof. intros cf e s H. exact (nothing_forgotten cf (e, s) H). Qed.

Lemma iter_round_fix : forall cf e s, round cf e s = (e, s) -> forall n, iter_round cf n (e, s) = (e, s).
Proof. intros cf e s H n. induction n as [|n IH]; [reflexivity|]. cbn [iter_round fst snd]. rewrite H. exact IH. Qed.

(* ------------------------------------------------------------------ non-vacuity: a reachable state with work *)
(* single mode, round size 2; key 1 fails its first Update (-> Error + retry item), key 2 is reconciled and
   then deleted, keys 3 and 4 are pending; then faults stop and the clock passes every retryAt.
   measure = 3 changes ahead + 1 retry item = 4, bound = ceil(4/2) + 1 = 3 rounds — and exactly 3 are needed *)
Definition ex_cf : cfg := mkCfg false 2 10 40 0 false.
Definition ex_e1 : env := do_write (do_write (do_write (add_fault (env0 ex_cf) 1 0) 0 1) 0 2) 0 3.
Definition ex_e2 : env := fst (round ex_cf ex_e1 (rstate0 ex_cf)).
Definition ex_s : rstate := snd (round ex_cf ex_e1 (rstate0 ex_cf)).
Definition ex_e : env := faults_off (set_now (do_write (do_write ex_e2 1 2) 0 4) 1000).

Lemma ex_reach : reach ex_cf (ex_e, ex_s).
Proof.
  unfold ex_e. eapply reach_env; [|apply es_foff]. eapply reach_env; [|apply es_time].
  eapply reach_env; [|apply es_write]. eapply reach_env; [|apply es_write].
  unfold ex_e2, ex_s. rewrite <- surjective_pairing. apply reach_round.
  unfold ex_e1. eapply reach_env; [|apply es_write]. eapply reach_env; [|apply es_write]. eapply reach_env; [|apply es_write].
  eapply reach_env; [|apply es_fault]. apply reach_init.
Qed.

Example converges_bounded_nonvacuous :
  reach ex_cf (ex_e, ex_s) /\ full_inv ex_e ex_s /\ 0 < cf_rs ex_cf /\ calm ex_e /\ items_ready ex_e ex_s /\
  measure ex_e ex_s = 4%nat /\ length (q_items (k_ret ex_s)) = 1%nat /\ bound ex_cf ex_e ex_s = 3%nat /\
  ~ quiescent (fst (iter_round ex_cf 2 (ex_e, ex_s))) (snd (iter_round ex_cf 2 (ex_e, ex_s))) /\
  quiescent (fst (iter_round ex_cf 3 (ex_e, ex_s))) (snd (iter_round ex_cf 3 (ex_e, ex_s))) /\
  live_objs (e_tab (fst (iter_round ex_cf 3 (ex_e, ex_s)))) = [(1, 1, 2); (3, 3, 2); (4, 4, 2)] /\
  e_target (fst (iter_round ex_cf 3 (ex_e, ex_s))) = [(3, 3); (4, 4); (1, 1)].
Proof.
  split; [exact ex_reach|]. split; [apply (reach_full_inv ex_cf); exact ex_reach|]. split; [reflexivity|].
  split; [split; [vm_compute; reflexivity|apply no_hooks_inert; vm_compute; reflexivity]|].
  split; [apply all_due_ready; vm_compute; reflexivity|].
  split; [vm_compute; reflexivity|]. split; [vm_compute; reflexivity|]. split; [vm_compute; reflexivity|].
  split.
  { assert (X : changes_of (e_tab (fst (iter_round ex_cf 2 (ex_e, ex_s)))) (k_cursor (snd (iter_round ex_cf 2 (ex_e, ex_s)))) <> [])
      by (vm_compute; discriminate).
    intros [_ Q]. exact (X Q). }
  split; [split; vm_compute; reflexivity|]. split; vm_compute; reflexivity.
Qed.

(* ------------------------------------------------------------------ what the hypotheses are needed for *)
(* (a) full_inv alone is not enough: it does not say that an item that was popped and not re-queued
   (ri_inq = false) has work ahead of the cursor. Such an item is removed only by retries.Clear in the
   change phase; in the state below (a Done object behind the cursor + a stale item for its key) every
   further round is the identity and the queue never drains. items_ready excludes the state; in reachable
   states the clause holds (ItemsInv.v). *)
Definition stale_cf : cfg := mkCfg false 2 10 40 0 false.
Definition stale_obj : obj := mkObj 1 1 Done 2 0.
Definition stale_e : env :=
  mkEnv (mkTable [(1, Live stale_obj 2)] 2 3 false) 100 [] [] [] true 1 [1] [] [(1, 1)].
Definition stale_s : rstate :=
  mkR 2 (mkRet [mkItem (mkObj 1 1 Pending 1 0) 1 1 false 20 1 false] None 10 40) 2 1 true false false 0.

Lemma stale_full_inv : full_inv stale_e stale_s.
Proof.
  assert (S1 : forall k, slot_of (e_tab stale_e) k = if 1 =? k then Some (Live stale_obj 2) else None) by reflexivity.
  split; [|split; [cbn; lia|intros it [Hi|[]] Hd; subst it; discriminate]].
  split; [|split; [cbn; lia|]].
  - split; [|split].
    + split; [constructor; [intros []|constructor]|]. split.
      * intros k sl Hs. rewrite S1 in Hs. destruct (N.eqb_spec 1 k) as [E|E]; [|discriminate].
        injection Hs as Hs. subst sl k. cbn. repeat split; lia.
      * intros k1 k2 s1 s2 H1 H2 _. rewrite S1 in H1, H2.
        destruct (N.eqb_spec 1 k1) as [E1|E1]; [|discriminate]. destruct (N.eqb_spec 1 k2) as [E2|E2]; [|discriminate]. congruence.
    + unfold uniq. cbn. constructor; [intros []|constructor].
    + intros it [Hi|[]]. subst it. cbn. lia.
  - intro pk. unfold covered. rewrite S1. destruct (1 =? pk); exact I.
Qed.

Theorem converges_needs_items_ready_refuted :
  full_inv stale_e stale_s /\ 0 < cf_rs stale_cf /\ calm stale_e /\
  (forall it, In it (q_items (k_ret stale_s)) -> ri_at it <= e_now stale_e) /\
  forall n, ~ quiescent (fst (iter_round stale_cf n (stale_e, stale_s))) (snd (iter_round stale_cf n (stale_e, stale_s))).
Proof.
  split; [exact stale_full_inv|]. split; [reflexivity|]. split; [split; [reflexivity|apply no_hooks_inert; reflexivity]|].
  split; [intros it [Hi|[]]; subst it; vm_compute; discriminate|].
  assert (Fix : forall n, iter_round stale_cf n (stale_e, stale_s) = (stale_e, stale_s))
    by (apply iter_round_fix; vm_compute; reflexivity).
  intros n. rewrite Fix. cbn [fst snd]. intros [Q _]. discriminate.
Qed.

(* (b) the round size must be positive (reconciler/config.go rejects IncrementalRoundSize <= 0): with round
   size 0 the retry phase never runs and a retry item stays for ever — in a reachable state *)
Definition rs0_cf : cfg := mkCfg false 0 10 40 0 false.
Definition rs0_r := round rs0_cf (do_write (add_fault (env0 rs0_cf) 1 0) 0 1) (rstate0 rs0_cf).
Definition rs0_r2 := round rs0_cf (faults_off (set_now (fst rs0_r) 1000)) (snd rs0_r).
Definition rs0_e : env := fst rs0_r2.
Definition rs0_s : rstate := snd rs0_r2.

Theorem converges_needs_positive_round_size_refuted :
  reach rs0_cf (rs0_e, rs0_s) /\ cf_rs rs0_cf = 0 /\ calm rs0_e /\ items_ready rs0_e rs0_s /\
  forall n, ~ quiescent (fst (iter_round rs0_cf n (rs0_e, rs0_s))) (snd (iter_round rs0_cf n (rs0_e, rs0_s))).
Proof.
  split.
  { unfold rs0_e, rs0_s, rs0_r2. rewrite <- surjective_pairing. apply reach_round.
    eapply reach_env; [|apply es_foff]. eapply reach_env; [|apply es_time].
    unfold rs0_r. rewrite <- surjective_pairing. apply reach_round.
    eapply reach_env; [|apply es_write]. eapply reach_env; [|apply es_fault]. apply reach_init. }
  split; [reflexivity|]. split; [split; [vm_compute; reflexivity|apply no_hooks_inert; vm_compute; reflexivity]|]. split.
  { apply all_due_ready. vm_compute. reflexivity. }
  assert (Fix : forall n, iter_round rs0_cf n (rs0_e, rs0_s) = (rs0_e, rs0_s))
    by (apply iter_round_fix; vm_compute; reflexivity).
  assert (X : q_items (k_ret rs0_s) <> []) by (vm_compute; discriminate).
  intros n. rewrite Fix. cbn [fst snd]. intros [Q _]. exact (X Q).
Qed.

Print Assumptions converges_bounded.
Print Assumptions converges_and_stays.
Print Assumptions quiescent_forever.
Print Assumptions converges_bounded_nonvacuous.
Print Assumptions converges_needs_items_ready_refuted.
Print Assumptions converges_needs_positive_round_size_refuted.
