(* Reconciler/HeapProofs.v — the two container/heap priority queues of reconciler/retries.go (model: Heap.v):
   one heap at a time. Index bookkeeping (idx_ok) and heap order (hp) are restored by up/down and kept by
   Push / Pop / Remove / Fix; every operation on one heap only writes that heap's index field (frame). *)

From Coq Require Import List NArith ZArith Bool Lia ZifyN ZifyNat ZifyBool Wf_nat.
From SV Require Import Reconciler.Retries Reconciler.Heap.
Import ListNotations.

(* ------------------------------------------------------------------ parents and children *)
Definition par (j : nat) : nat := Nat.div (j - 1) 2.

Ltac Zify.zify_post_hook ::= Z.div_mod_to_equations.
Lemma par_lt : forall j, (0 < j)%nat -> (par j < j)%nat.
Proof. intros j H. unfold par. lia. Qed.
Lemma par_child : forall j x, (0 < j)%nat -> par j = x <-> (j = 2 * x + 1 \/ j = 2 * x + 2)%nat.
Proof. intros j x H. unfold par. lia. Qed.
Lemma par_0 : par 0 = 0%nat.
Proof. reflexivity. Qed.
Ltac Zify.zify_post_hook ::= idtac.

Open Scope N_scope.


(* ------------------------------------------------------------------ heap order on a key function *)
Definition hp (f : nat -> N) (n : nat) : Prop := forall j, (0 < j < n)%nat -> f (par j) <= f j.
(* all edges not touching x are in order, and the parent of x is not above x's children *)
Definition hole (f : nat -> N) (n x : nat) : Prop :=
  (forall j, (0 < j < n)%nat -> j <> x -> par j <> x -> f (par j) <= f j) /\
  (forall j, (0 < j < n)%nat -> par j = x -> (0 < x)%nat -> f (par x) <= f j).
Definition down_ok (f : nat -> N) (n x : nat) : Prop := forall j, (0 < j < n)%nat -> par j = x -> f x <= f j.
Definition swapf (f : nat -> N) (i j : nat) : nat -> N :=
  fun k => if Nat.eqb k i then f j else if Nat.eqb k j then f i else f k.

Lemma up_done : forall f n x, hole f n x -> down_ok f n x -> (x = 0%nat \/ f (par x) <= f x) -> hp f n.
Proof.
  intros f n x [H1 H2] Hd Hx j Hj.
  destruct (Nat.eq_dec j x) as [E|E].
  - subst j. destruct Hx as [Hx|Hx]; [lia|exact Hx].
  - destruct (Nat.eq_dec (par j) x) as [E2|E2].
    + rewrite E2. apply Hd; assumption.
    + apply H1; assumption.
Qed.

Lemma up_step : forall f n x, hole f n x -> down_ok f n x -> (0 < x)%nat -> f x < f (par x) ->
  hole (swapf f (par x) x) n (par x) /\ down_ok (swapf f (par x) x) n (par x).
Proof.
  intros f n x [H1 H2] Hd Hx Hlt.
  pose proof (par_lt x Hx) as Hpx.
  split; [split|].
  - intros j Hj Hne Hpne. unfold swapf.
    destruct (Nat.eqb_spec j (par x)) as [E|E]; [contradiction|].
    destruct (Nat.eqb_spec (par j) (par x)) as [E1|E1]; [contradiction|].
    destruct (Nat.eqb_spec j x) as [E2|E2]; [subst j; contradiction|].
    destruct (Nat.eqb_spec (par j) x) as [E3|E3].
    + apply H2; assumption.
    + apply H1; assumption.
  - intros j Hj Hpj Hppos. unfold swapf.
    assert (Hpp : (par (par x) < par x)%nat) by (apply par_lt; exact Hppos).
    destruct (Nat.eqb_spec (par (par x)) (par x)) as [E|E]; [lia|].
    destruct (Nat.eqb_spec (par (par x)) x) as [E0|E0]; [lia|].
    destruct (Nat.eqb_spec j (par x)) as [E1|E1]; [pose proof (par_lt j); lia|].
    assert (Hpe : f (par (par x)) <= f (par x)).
    { apply H1; [pose proof (par_lt j); lia|lia|lia]. }
    destruct (Nat.eqb_spec j x) as [E2|E2]; [exact Hpe|].
    assert (H : f (par j) <= f j) by (apply H1; [lia|exact E2|lia]).
    rewrite Hpj in H. lia.
  - intros j Hj Hpj. unfold swapf.
    rewrite Nat.eqb_refl.
    destruct (Nat.eqb_spec j (par x)) as [E1|E1]; [pose proof (par_lt j); lia|].
    destruct (Nat.eqb_spec j x) as [E2|E2]; [lia|].
    assert (H : f (par j) <= f j) by (apply H1; [lia|exact E2|lia]).
    rewrite Hpj in H. lia.
Qed.

(* one step of down: j is a smallest child of x and smaller than x *)
Lemma down_step : forall f n x j, hole f n x -> (0 < j < n)%nat -> par j = x ->
  (forall j', (0 < j' < n)%nat -> par j' = x -> f j <= f j') -> f j < f x ->
  hole (swapf f x j) n j /\ (swapf f x j) (par j) <= (swapf f x j) j.
Proof.
  intros f n x j [H1 H2] Hj Hpj Hmin Hlt.
  assert (Hxj : (x < j)%nat) by (rewrite <- Hpj; apply par_lt; lia).
  split; [split|].
  - intros k Hk Hne Hpne. unfold swapf.
    destruct (Nat.eqb_spec k j) as [E|E]; [contradiction|].
    destruct (Nat.eqb_spec (par k) j) as [E0|E0]; [contradiction|].
    destruct (Nat.eqb_spec k x) as [E1|E1].
    + subst k. destruct (Nat.eqb_spec (par x) x) as [E2|E2]; [pose proof (par_lt x); lia|].
      apply H2; [exact Hj|exact Hpj|lia].
    + destruct (Nat.eqb_spec (par k) x) as [E2|E2].
      * apply Hmin; assumption.
      * apply H1; assumption.
  - intros k Hk Hpk _. unfold swapf. rewrite Hpj. rewrite Nat.eqb_refl.
    destruct (Nat.eqb_spec k x) as [E|E]; [pose proof (par_lt k); lia|].
    destruct (Nat.eqb_spec k j) as [E1|E1]; [pose proof (par_lt k); lia|].
    assert (H : f (par k) <= f k) by (apply H1; [exact Hk|lia|lia]).
    rewrite Hpk in H. exact H.
  - unfold swapf. rewrite Hpj, Nat.eqb_refl.
    destruct (Nat.eqb_spec j x) as [E|E]; [lia|]. rewrite Nat.eqb_refl. lia.
Qed.

(* the root of a heap is a minimum *)
Lemma hp_root_min : forall f n, hp f n -> forall j, (j < n)%nat -> f 0%nat <= f j.
Proof.
  intros f n H j. induction j as [j IH] using (well_founded_induction lt_wf). intro Hj.
  destruct j as [|j]; [lia|].
  assert (Hp : (par (S j) < S j)%nat) by (apply par_lt; lia).
  specialize (IH (par (S j)) Hp ltac:(lia)). specialize (H (S j) ltac:(lia)). lia.
Qed.

(* changing the key at x of a heap leaves a hole at x *)
Lemma hp_hole : forall f g n x, hp f n -> (forall k, (k < n)%nat -> k <> x -> g k = f k) -> hole g n x.
Proof.
  intros f g n x H Hg. split.
  - intros j Hj Hne Hpne. pose proof (par_lt j ltac:(lia)) as Hp.
    rewrite (Hg j ltac:(lia) Hne), (Hg (par j) ltac:(lia) Hpne). apply H. exact Hj.
  - intros j Hj Hpj Hx.
    assert (Hxj : (x < j)%nat) by (rewrite <- Hpj; apply par_lt; lia).
    rewrite (Hg j) by lia. rewrite (Hg (par x)) by (pose proof (par_lt x Hx); lia).
    pose proof (H j Hj) as A. rewrite Hpj in A. pose proof (H x ltac:(lia)) as B. lia.
Qed.

Lemma hp_ext : forall f g n, hp f n -> (forall k, (k < n)%nat -> g k = f k) -> hp g n.
Proof.
  intros f g n H Hg j Hj. rewrite (Hg j) by lia. rewrite (Hg (par j)) by (pose proof (par_lt j); lia). apply H. exact Hj.
Qed.
Lemma hole_ext : forall f g n x, hole f n x -> (forall k, (k < n)%nat -> g k = f k) -> hole g n x.
Proof.
  intros f g n x [H1 H2] Hg. split.
  - intros j Hj A B. rewrite (Hg j) by lia. rewrite (Hg (par j)) by (pose proof (par_lt j); lia). apply H1; assumption.
  - intros j Hj A B. rewrite (Hg j) by lia. rewrite (Hg (par x)) by (pose proof (par_lt x B); pose proof (par_lt j); lia). apply H2; assumption.
Qed.
Lemma down_ok_ext : forall f g n x, down_ok f n x -> (x < n)%nat -> (forall k, (k < n)%nat -> g k = f k) -> down_ok g n x.
Proof.
  intros f g n x H Hx Hg j Hj A. rewrite (Hg j) by lia. rewrite (Hg x) by lia. apply H; assumption.
Qed.
Lemma hp_shrink : forall f n m, hp f n -> (m <= n)%nat -> hp f m.
Proof. intros f n m H Hm j Hj. apply H. lia. Qed.

(* ------------------------------------------------------------------ items and the store *)
(* the key a heap orders by *)
Definition kf (w : qsel) (it : hitem) : N := match w with QT => hi_at it | QR => hi_orig it end.
(* an item without its index in heap w *)
Definition erase (w : qsel) (it : hitem) : hitem := set_idx w 0%Z it.

Lemma item_less_kf : forall w a b, item_less w a b = (kf w a <? kf w b).
Proof. intros [|] a b; reflexivity. Qed.
Lemma pk_set_idx : forall w v it, hi_pk (set_idx w v it) = hi_pk it.
Proof. intros [|] v it; reflexivity. Qed.
Lemma kf_set_idx : forall w' w v it, kf w' (set_idx w v it) = kf w' it.
Proof. intros [|] [|] v it; reflexivity. Qed.
Lemma get_set_idx_same : forall w v it, get_idx w (set_idx w v it) = v.
Proof. intros [|] v it; reflexivity. Qed.
Lemma get_set_idx_other : forall w w' v it, w <> w' -> get_idx w' (set_idx w v it) = get_idx w' it.
Proof. intros [|] [|] v it H; try reflexivity; congruence. Qed.
Lemma set_set_idx : forall w a b it, set_idx w a (set_idx w b it) = set_idx w a it.
Proof. intros [|] a b it; reflexivity. Qed.
Lemma erase_set_idx : forall w v it, erase w (set_idx w v it) = erase w it.
Proof. intros. unfold erase. apply set_set_idx. Qed.
Lemma set_idx_get : forall w it, set_idx w (get_idx w it) it = it.
Proof. intros [|] [o r g d i ri a n]; reflexivity. Qed.
(* two items that differ at most in the index of heap w *)
Lemma erase_eq : forall w a b, erase w a = erase w b -> b = set_idx w (get_idx w b) a.
Proof.
  intros w a b H. rewrite <- (set_idx_get w b) at 1. rewrite <- (set_set_idx w _ 0%Z b), <- (set_set_idx w _ 0%Z a).
  unfold erase in H. rewrite H. reflexivity.
Qed.
Lemma erase_kf : forall w w' a b, erase w a = erase w b -> kf w' a = kf w' b.
Proof. intros w w' a b H. rewrite (erase_eq w a b H). rewrite kf_set_idx. reflexivity. Qed.
Lemma erase_pk : forall w a b, erase w a = erase w b -> hi_pk a = hi_pk b.
Proof. intros w a b H. rewrite (erase_eq w a b H). rewrite pk_set_idx. reflexivity. Qed.
Lemma erase_get_other : forall w w' a b, w <> w' -> erase w a = erase w b -> get_idx w' a = get_idx w' b.
Proof. intros w w' a b Hn H. rewrite (erase_eq w a b H). rewrite get_set_idx_other by exact Hn. reflexivity. Qed.

Lemma st_get_pk : forall pk st it, st_get pk st = Some it -> hi_pk it = pk.
Proof.
  intros pk st it. induction st as [|a r IH]; cbn [st_get]; intro H; [discriminate|].
  destruct (hi_pk a =? pk) eqn:E; [injection H as H; subst a; apply N.eqb_eq; exact E|apply IH; exact H].
Qed.
Lemma st_get_in : forall pk st it, st_get pk st = Some it -> In it st.
Proof.
  intros pk st it. induction st as [|a r IH]; cbn [st_get]; intro H; [discriminate|].
  destruct (hi_pk a =? pk); [injection H as H; left; exact H|right; apply IH; exact H].
Qed.
Lemma st_get_none : forall pk st, st_get pk st = None <-> ~ In pk (map hi_pk st).
Proof.
  intros pk st. induction st as [|a r IH]; cbn [st_get map]; [split; [intros _ []|reflexivity]|].
  destruct (hi_pk a =? pk) eqn:E.
  - apply N.eqb_eq in E. split; [discriminate|]. intro H. exfalso. apply H. left. exact E.
  - apply N.eqb_neq in E. rewrite IH. split; intro H; [intros [A|A]; [contradiction|apply H; exact A]|].
    intro A. apply H. right. exact A.
Qed.

Lemma st_get_upd : forall f pk' pk st, (forall it, hi_pk (f it) = hi_pk it) ->
  st_get pk (st_upd pk' f st) = if pk' =? pk then option_map f (st_get pk st) else st_get pk st.
Proof.
  intros f pk' pk st Hf. induction st as [|a r IH]; cbn [st_upd map st_get].
  - destruct (pk' =? pk); reflexivity.
  - fold (st_upd pk' f r). destruct (hi_pk a =? pk') eqn:E1.
    + rewrite Hf. apply N.eqb_eq in E1. destruct (hi_pk a =? pk) eqn:E2.
      * apply N.eqb_eq in E2. replace (pk' =? pk) with true by (symmetry; apply N.eqb_eq; congruence). reflexivity.
      * exact IH.
    + destruct (hi_pk a =? pk) eqn:E2; [|exact IH].
      apply N.eqb_eq in E2. apply N.eqb_neq in E1. replace (pk' =? pk) with false by (symmetry; apply N.eqb_neq; congruence).
      reflexivity.
Qed.

Lemma st_upd_pks : forall f pk st, (forall it, hi_pk (f it) = hi_pk it) -> map hi_pk (st_upd pk f st) = map hi_pk st.
Proof.
  intros f pk st Hf. unfold st_upd. rewrite map_map. apply map_ext. intro a. destruct (hi_pk a =? pk); [apply Hf|reflexivity].
Qed.

Lemma st_upd_erase : forall w v pk st, map (erase w) (st_upd pk (set_idx w v) st) = map (erase w) st.
Proof.
  intros w v pk st. unfold st_upd. rewrite map_map. apply map_ext. intro a.
  destruct (hi_pk a =? pk); [apply erase_set_idx|reflexivity].
Qed.

(* two stores with the same items up to the indices of heap w *)
Lemma frame_get : forall w st st', map (erase w) st' = map (erase w) st -> forall pk,
  option_map (erase w) (st_get pk st') = option_map (erase w) (st_get pk st).
Proof.
  intros w st. induction st as [|a r IH]; intros st' H pk; destruct st' as [|a' r']; cbn [map] in H; try discriminate; [reflexivity|].
  injection H as Ha Hr. cbn [st_get]. rewrite (erase_pk w a' a Ha).
  destruct (hi_pk a =? pk); [cbn; rewrite Ha; reflexivity|apply IH; exact Hr].
Qed.
Lemma frame_get_some : forall w st st' pk it, map (erase w) st' = map (erase w) st -> st_get pk st = Some it ->
  exists it', st_get pk st' = Some it' /\ erase w it' = erase w it.
Proof.
  intros w st st' pk it H Hg. pose proof (frame_get w st st' H pk) as A. rewrite Hg in A.
  destruct (st_get pk st') as [it'|]; cbn in A; [|discriminate]. exists it'. split; [reflexivity|congruence].
Qed.
Lemma frame_pks : forall w st st', map (erase w) st' = map (erase w) st -> map hi_pk st' = map hi_pk st.
Proof.
  intros w st st' H.
  assert (E : forall l, map hi_pk l = map hi_pk (map (erase w) l)).
  { intro l. rewrite map_map. apply map_ext. intro a. unfold erase. rewrite pk_set_idx. reflexivity. }
  rewrite (E st'), (E st), H. reflexivity.
Qed.
Lemma frame_getd_kf : forall w w' st st' pk, map (erase w) st' = map (erase w) st ->
  kf w' (st_getd pk st') = kf w' (st_getd pk st).
Proof.
  intros w w' st st' pk H. unfold st_getd. pose proof (frame_get w st st' H pk) as A.
  destruct (st_get pk st') as [a|], (st_get pk st) as [b|]; cbn in A; try discriminate; [|reflexivity].
  apply (erase_kf w). congruence.
Qed.

(* ------------------------------------------------------------------ arrays *)
Lemma length_list_set : forall (A : Type) i (v : A) l, length (list_set i v l) = length l.
Proof. intros A i v l. revert i. induction l as [|x r IH]; intros [|i]; cbn [list_set length]; try reflexivity. rewrite IH. reflexivity. Qed.
Lemma nth_list_set : forall (A : Type) i (v d : A) l k,
  nth k (list_set i v l) d = if Nat.eqb k i && Nat.ltb i (length l) then v else nth k l d.
Proof.
  intros A i v d l. revert i. induction l as [|x r IH]; intros [|i] [|k]; cbn [list_set nth length]; try reflexivity.
  - rewrite Bool.andb_false_r. reflexivity.
  - rewrite IH. cbn [Nat.eqb]. replace (Nat.ltb (S i) (S (length r))) with (Nat.ltb i (length r)); [reflexivity|].
    destruct (Nat.ltb_spec i (length r)), (Nat.ltb_spec (S i) (S (length r))); try reflexivity; lia.
Qed.

(* ------------------------------------------------------------------ one heap: keys by position, index bookkeeping *)
Definition K (w : qsel) (h : hq) (i : nat) : N := kf w (st_getd (nth i (snd h) 0) (fst h)).

Lemma h_less_K : forall w h i j, h_less w h i j = (K w h i <? K w h j).
Proof. intros w [st arr] i j. unfold h_less, K. cbn [fst snd]. apply item_less_kf. Qed.

(* item.index (resp. revIndex) is the position in the array, or -1 when the item is not in the array *)
Definition idx_ok (w : qsel) (h : hq) : Prop :=
  (forall i, (i < length (snd h))%nat ->
     exists it, st_get (nth i (snd h) 0) (fst h) = Some it /\ get_idx w it = Z.of_nat i) /\
  (forall pk it, st_get pk (fst h) = Some it -> get_idx w it <> (-1)%Z ->
     exists i, get_idx w it = Z.of_nat i /\ (i < length (snd h))%nat /\ nth i (snd h) 0 = pk).

Lemma idx_ok_inj : forall w h i j, idx_ok w h -> (i < length (snd h))%nat -> (j < length (snd h))%nat ->
  nth i (snd h) 0 = nth j (snd h) 0 -> i = j.
Proof.
  intros w h i j [H1 _] Hi Hj E. destruct (H1 i Hi) as [a [A1 A2]]. destruct (H1 j Hj) as [b [B1 B2]].
  rewrite E in A1. rewrite A1 in B1. injection B1 as B1. subst b. lia.
Qed.

(* what an operation on heap w may change: only index fields of heap w; array length kept; entries from
   position n on untouched; an item is in the array afterwards iff it was before *)
Definition frame (w : qsel) (n : nat) (h h' : hq) : Prop :=
  map (erase w) (fst h') = map (erase w) (fst h) /\
  length (snd h') = length (snd h) /\
  (forall k, (n <= k)%nat -> nth k (snd h') 0 = nth k (snd h) 0) /\
  (forall pk it it', st_get pk (fst h) = Some it -> st_get pk (fst h') = Some it' ->
     (get_idx w it = (-1)%Z <-> get_idx w it' = (-1)%Z)).

Lemma frame_refl : forall w n h, frame w n h h.
Proof.
  intros w n h. split; [reflexivity|]. split; [reflexivity|]. split; [reflexivity|].
  intros pk it it' A B. rewrite A in B. injection B as B. subst it'. reflexivity.
Qed.
Lemma frame_trans : forall w n h1 h2 h3, frame w n h1 h2 -> frame w n h2 h3 -> frame w n h1 h3.
Proof.
  intros w n h1 h2 h3 [A1 [A2 [A3 A4]]] [B1 [B2 [B3 B4]]].
  split; [congruence|]. split; [congruence|]. split; [intros k Hk; rewrite B3, A3 by exact Hk; reflexivity|].
  intros pk it it' G1 G3. destruct (frame_get_some w _ _ pk it A1 G1) as [it2 [G2 _]].
  rewrite (A4 pk it it2 G1 G2). apply (B4 pk it2 it' G2 G3).
Qed.

(* retryPrioQueue.Swap *)
Lemma h_swap_get : forall w st arr i j pk, (i < length arr)%nat -> (j < length arr)%nat ->
  st_get pk (fst (h_swap w (st, arr) i j)) =
  option_map (fun it => if nth i arr 0 =? pk then set_idx w (Z.of_nat j) it
                        else if nth j arr 0 =? pk then set_idx w (Z.of_nat i) it else it) (st_get pk st).
Proof.
  intros w st arr i j pk Hi Hj. unfold h_swap. cbn [fst].
  rewrite !nth_list_set, !length_list_set, !Nat.eqb_refl.
  replace (Nat.ltb i (length arr)) with true by (symmetry; apply Nat.ltb_lt; exact Hi).
  replace (Nat.ltb j (length arr)) with true by (symmetry; apply Nat.ltb_lt; exact Hj).
  cbn [andb]. rewrite Bool.andb_true_r.
  assert (Hji : (if Nat.eqb j i then nth j arr 0 else nth i arr 0) = nth i arr 0).
  { destruct (Nat.eqb_spec j i) as [E|E]; [subst j|]; reflexivity. }
  rewrite Hji.
  rewrite !st_get_upd by (intro; apply pk_set_idx).
  destruct (st_get pk st) as [it|]; cbn [option_map].
  - destruct (nth i arr 0 =? pk), (nth j arr 0 =? pk); cbn [option_map]; try reflexivity.
    rewrite set_set_idx. reflexivity.
  - destruct (nth i arr 0 =? pk), (nth j arr 0 =? pk); reflexivity.
Qed.

Lemma h_swap_arr : forall w st arr i j k, (i < length arr)%nat -> (j < length arr)%nat ->
  nth k (snd (h_swap w (st, arr) i j)) 0 =
  if Nat.eqb k i then nth j arr 0 else if Nat.eqb k j then nth i arr 0 else nth k arr 0.
Proof.
  intros w st arr i j k Hi Hj. unfold h_swap. cbn [snd].
  rewrite !nth_list_set, !length_list_set.
  replace (Nat.ltb i (length arr)) with true by (symmetry; apply Nat.ltb_lt; exact Hi).
  replace (Nat.ltb j (length arr)) with true by (symmetry; apply Nat.ltb_lt; exact Hj).
  rewrite !Bool.andb_true_r. reflexivity.
Qed.

Lemma h_swap_len : forall w h i j, length (snd (h_swap w h i j)) = length (snd h).
Proof. intros w [st arr] i j. unfold h_swap. cbn [snd]. rewrite !length_list_set. reflexivity. Qed.

Lemma h_swap_erase : forall w h i j, map (erase w) (fst (h_swap w h i j)) = map (erase w) (fst h).
Proof. intros w [st arr] i j. unfold h_swap. cbn [fst]. rewrite !st_upd_erase. reflexivity. Qed.

Lemma h_swap_K : forall w h i j k, (i < length (snd h))%nat -> (j < length (snd h))%nat ->
  K w (h_swap w h i j) k = swapf (K w h) i j k.
Proof.
  intros w [st arr] i j k Hi Hj. cbn [snd] in Hi, Hj. unfold K at 1.
  rewrite (frame_getd_kf w w _ _ _ (h_swap_erase w (st, arr) i j)).
  rewrite h_swap_arr by assumption. unfold swapf, K. cbn [fst snd].
  destruct (Nat.eqb k i); [reflexivity|]. destruct (Nat.eqb k j); reflexivity.
Qed.

Lemma h_swap_idx_ok : forall w h i j, idx_ok w h -> (i < length (snd h))%nat -> (j < length (snd h))%nat ->
  idx_ok w (h_swap w h i j).
Proof.
  intros w [st arr] i j Hok Hi Hj. cbn [snd] in Hi, Hj.
  pose proof (idx_ok_inj w (st, arr) i j Hok Hi Hj) as Hinj. cbn [snd] in Hinj.
  destruct Hok as [H1 H2]. cbn [fst snd] in H1, H2.
  split.
  - intros k Hk. rewrite h_swap_len in Hk. cbn [snd] in Hk.
    rewrite h_swap_arr by assumption. rewrite h_swap_get by assumption.
    destruct (Nat.eqb_spec k i) as [E|E].
    + subst k. destruct (H1 j Hj) as [a [A1 A2]]. rewrite A1. cbn [option_map].
      destruct (nth i arr 0 =? nth j arr 0) eqn:E1.
      * apply N.eqb_eq in E1. specialize (Hinj E1). subst j. eexists. split; [reflexivity|]. apply get_set_idx_same.
      * rewrite N.eqb_refl. eexists. split; [reflexivity|]. apply get_set_idx_same.
    + destruct (Nat.eqb_spec k j) as [E2|E2].
      * subst k. destruct (H1 i Hi) as [a [A1 A2]]. rewrite A1. cbn [option_map]. rewrite N.eqb_refl.
        eexists. split; [reflexivity|]. apply get_set_idx_same.
      * destruct (H1 k Hk) as [a [A1 A2]]. rewrite A1. cbn [option_map].
        destruct (nth i arr 0 =? nth k arr 0) eqn:E3.
        { apply N.eqb_eq in E3. exfalso. apply E. symmetry.
          apply (idx_ok_inj w (st, arr) i k (conj H1 H2)); assumption. }
        destruct (nth j arr 0 =? nth k arr 0) eqn:E4.
        { apply N.eqb_eq in E4. exfalso. apply E2. symmetry.
          apply (idx_ok_inj w (st, arr) j k (conj H1 H2)); assumption. }
        exists a. split; [reflexivity|exact A2].
  - intros pk it Hg Hne. rewrite h_swap_get in Hg by assumption. rewrite h_swap_len. cbn [snd].
    destruct (st_get pk st) as [a|] eqn:Ea; cbn [option_map] in Hg; [|discriminate]. injection Hg as Hg.
    destruct (nth i arr 0 =? pk) eqn:E1.
    + apply N.eqb_eq in E1. subst it. rewrite get_set_idx_same. exists j. split; [reflexivity|]. split; [exact Hj|].
      rewrite h_swap_arr by assumption. destruct (Nat.eqb_spec j i) as [E|E]; [subst j; exact E1|]. rewrite Nat.eqb_refl. exact E1.
    + destruct (nth j arr 0 =? pk) eqn:E2.
      * apply N.eqb_eq in E2. subst it. rewrite get_set_idx_same. exists i. split; [reflexivity|]. split; [exact Hi|].
        rewrite h_swap_arr by assumption. rewrite Nat.eqb_refl. exact E2.
      * subst it. destruct (H2 pk a Ea Hne) as [k [A1 [A2 A3]]]. exists k. split; [exact A1|]. split; [exact A2|].
        rewrite h_swap_arr by assumption.
        destruct (Nat.eqb_spec k i) as [E|E]; [subst k; rewrite A3, N.eqb_refl in E1; discriminate|].
        destruct (Nat.eqb_spec k j) as [E3|E3]; [subst k; rewrite A3, N.eqb_refl in E2; discriminate|]. exact A3.
Qed.

Lemma h_swap_frame : forall w n h i j, idx_ok w h -> (i < n)%nat -> (j < n)%nat -> (n <= length (snd h))%nat ->
  frame w n h (h_swap w h i j).
Proof.
  intros w n [st arr] i j Hok Hi Hj Hn. cbn [snd] in Hn.
  split; [apply h_swap_erase|]. split; [apply h_swap_len|]. split.
  - intros k Hk. rewrite h_swap_arr by lia. cbn [snd].
    destruct (Nat.eqb_spec k i); [lia|]. destruct (Nat.eqb_spec k j); [lia|]. reflexivity.
  - intros pk it it' A B. cbn [fst] in A. rewrite h_swap_get in B by lia. rewrite A in B. cbn [option_map] in B.
    injection B as B. destruct Hok as [H1 _]. cbn [fst snd] in H1.
    destruct (nth i arr 0 =? pk) eqn:E1.
    + apply N.eqb_eq in E1. destruct (H1 i ltac:(lia)) as [a [A1 A2]]. rewrite E1, A in A1. injection A1 as A1. subst a.
      subst it'. rewrite get_set_idx_same. lia.
    + destruct (nth j arr 0 =? pk) eqn:E2; [|subst it'; reflexivity].
      apply N.eqb_eq in E2. destruct (H1 j ltac:(lia)) as [a [A1 A2]]. rewrite E2, A in A1. injection A1 as A1. subst a.
      subst it'. rewrite get_set_idx_same. lia.
Qed.

(* ------------------------------------------------------------------ container/heap up *)
Lemma h_up_spec : forall w n fuel h x, (x < fuel)%nat -> (x < n)%nat -> (n <= length (snd h))%nat ->
  idx_ok w h -> hole (K w h) n x -> down_ok (K w h) n x ->
  idx_ok w (h_up w fuel h x) /\ frame w n h (h_up w fuel h x) /\ hp (K w (h_up w fuel h x)) n.
Proof.
  intros w n fuel. induction fuel as [|f IH]; intros h x Hf Hx Hn Hok Hh Hd; [lia|].
  cbn [h_up]. change (Nat.div (x - 1) 2) with (par x).
  destruct (Nat.eqb_spec (par x) x) as [E|E]; cbn [orb].
  - assert (x = 0%nat) by (destruct x; [reflexivity|pose proof (par_lt (S x)); lia]).
    split; [exact Hok|]. split; [apply frame_refl|]. apply (up_done _ _ x Hh Hd). left. assumption.
  - assert (Hx0 : (0 < x)%nat) by (destruct x; [rewrite par_0 in E; congruence|lia]).
    pose proof (par_lt x Hx0) as Hpx.
    rewrite h_less_K. destruct (K w h x <? K w h (par x)) eqn:El; cbn [negb].
    + apply N.ltb_lt in El.
      destruct (up_step _ _ _ Hh Hd Hx0 El) as [Hh' Hd'].
      assert (HK : forall k, (k < n)%nat -> K w (h_swap w h (par x) x) k = swapf (K w h) (par x) x k).
      { intros k _. apply h_swap_K; lia. }
      destruct (IH (h_swap w h (par x) x) (par x)) as [A [B C]].
      * lia.
      * lia.
      * rewrite h_swap_len. exact Hn.
      * apply h_swap_idx_ok; [exact Hok|lia|lia].
      * apply (hole_ext _ _ _ _ Hh' HK).
      * apply (down_ok_ext _ _ _ _ Hd' ltac:(lia) HK).
      * split; [exact A|]. split; [|exact C].
        apply (frame_trans w n h (h_swap w h (par x) x)); [apply h_swap_frame; [exact Hok|lia|lia|exact Hn]|exact B].
    + apply N.ltb_ge in El. split; [exact Hok|]. split; [apply frame_refl|]. apply (up_done _ _ x Hh Hd). right. exact El.
Qed.

(* ------------------------------------------------------------------ container/heap down *)
Lemma h_down_spec : forall w n fuel h x, (n - x <= fuel)%nat -> (x < n)%nat -> (n <= length (snd h))%nat ->
  idx_ok w h -> hole (K w h) n x ->
  idx_ok w (fst (h_down_loop w fuel h x n)) /\ frame w n h (fst (h_down_loop w fuel h x n)) /\
  hole (K w (fst (h_down_loop w fuel h x n))) n (snd (h_down_loop w fuel h x n)) /\
  down_ok (K w (fst (h_down_loop w fuel h x n))) n (snd (h_down_loop w fuel h x n)) /\
  (x <= snd (h_down_loop w fuel h x n) < n)%nat /\
  ((x < snd (h_down_loop w fuel h x n))%nat ->
     K w (fst (h_down_loop w fuel h x n)) (par (snd (h_down_loop w fuel h x n))) <=
     K w (fst (h_down_loop w fuel h x n)) (snd (h_down_loop w fuel h x n))) /\
  (snd (h_down_loop w fuel h x n) = x -> fst (h_down_loop w fuel h x n) = h).
Proof.
  intros w n fuel. induction fuel as [|f IH]; intros h x Hf Hx Hn Hok Hh; [lia|].
  cbn [h_down_loop].
  destruct (Nat.leb_spec n (2 * x + 1)) as [E|E].
  - cbn [fst snd]. split; [exact Hok|]. split; [apply frame_refl|]. split; [exact Hh|].
    split; [|split; [lia|split; [lia|reflexivity]]].
    intros j Hj Hpj. apply par_child in Hpj; lia.
  - rewrite !h_less_K.
    set (j := if Nat.ltb (2 * x + 1 + 1) n && (K w h (2 * x + 1 + 1) <? K w h (2 * x + 1)) then (2 * x + 1 + 1)%nat else (2 * x + 1)%nat).
    assert (Hj : (0 < j < n)%nat /\ par j = x /\ forall j', (0 < j' < n)%nat -> par j' = x -> K w h j <= K w h j').
    { subst j. destruct (Nat.ltb_spec (2 * x + 1 + 1) n) as [E2|E2]; cbn [andb].
      - destruct (K w h (2 * x + 1 + 1) <? K w h (2 * x + 1)) eqn:El.
        + apply N.ltb_lt in El. split; [lia|]. split; [apply par_child; lia|].
          intros j' Hj' Hp. apply par_child in Hp; [|lia]. destruct Hp as [Hp|Hp]; subst j'; [lia|].
          replace (2 * x + 2)%nat with (2 * x + 1 + 1)%nat by lia. lia.
        + apply N.ltb_ge in El. split; [lia|]. split; [apply par_child; lia|].
          intros j' Hj' Hp. apply par_child in Hp; [|lia]. destruct Hp as [Hp|Hp]; subst j'; [lia|].
          replace (2 * x + 2)%nat with (2 * x + 1 + 1)%nat by lia. lia.
      - split; [lia|]. split; [apply par_child; lia|].
        intros j' Hj' Hp. apply par_child in Hp; [|lia]. destruct Hp as [Hp|Hp]; subst j'; [lia|lia]. }
    clearbody j. destruct Hj as [Hj [Hpj Hmin]].
    assert (Hxj : (x < j)%nat) by (rewrite <- Hpj; apply par_lt; lia).
    destruct (K w h j <? K w h x) eqn:El; cbn [negb].
    + apply N.ltb_lt in El.
      destruct (down_step _ _ _ _ Hh Hj Hpj Hmin El) as [Hh' Hup].
      assert (HK : forall k, K w (h_swap w h x j) k = swapf (K w h) x j k).
      { intros k. apply h_swap_K; lia. }
      destruct (IH (h_swap w h x j) j) as [A [B [C [D [F [G I]]]]]].
      * lia.
      * lia.
      * rewrite h_swap_len. exact Hn.
      * apply h_swap_idx_ok; [exact Hok|lia|lia].
      * apply (hole_ext _ _ _ _ Hh'). intros k _. apply HK.
      * split; [exact A|]. split.
        { apply (frame_trans w n h (h_swap w h x j)); [apply h_swap_frame; [exact Hok|lia|lia|exact Hn]|exact B]. }
        split; [exact C|]. split; [exact D|]. split; [lia|]. split; [|lia].
        intros _. destruct (Nat.eq_dec (snd (h_down_loop w f (h_swap w h x j) j n)) j) as [Ej|Ej].
        { rewrite (I Ej), Ej, !HK. exact Hup. }
        { apply G. lia. }
    + apply N.ltb_ge in El. cbn [fst snd]. split; [exact Hok|]. split; [apply frame_refl|]. split; [exact Hh|].
      split; [|split; [lia|split; [lia|reflexivity]]].
      intros j' Hj' Hp. specialize (Hmin j' Hj' Hp). lia.
Qed.

(* down followed, when nothing moved, by up: the body of heap.Fix and of heap.Remove *)
Definition down_up (w : qsel) (h : hq) (i n : nat) : hq :=
  let '(h2, moved) := h_down w h i n in
  if moved then h2 else h_up w (S (length (snd h2))) h2 i.

Lemma down_up_spec : forall w h i n, (i < n)%nat -> (n <= length (snd h))%nat -> idx_ok w h -> hole (K w h) n i ->
  idx_ok w (down_up w h i n) /\ frame w n h (down_up w h i n) /\ hp (K w (down_up w h i n)) n.
Proof.
  intros w h i n Hi Hn Hok Hh. unfold down_up, h_down.
  destruct (h_down_spec w n (S (length (snd h))) h i ltac:(lia) Hi Hn Hok Hh) as [A [B [C [D [F [G I]]]]]].
  destruct (h_down_loop w (S (length (snd h))) h i n) as [h2 x] eqn:Eh. cbn [fst snd] in *.
  destruct (Nat.ltb_spec i x) as [E|E].
  - split; [exact A|]. split; [exact B|]. apply (up_done _ _ x C D). right. apply G. exact E.
  - assert (x = i) by lia. subst x. rewrite (I eq_refl) in *.
    destruct (h_up_spec w n (S (length (snd h))) h i ltac:(lia) Hi Hn Hok C D) as [A' [B' C']].
    split; [exact A'|]. split; [exact B'|exact C'].
Qed.

(* ------------------------------------------------------------------ one heap with its invariant *)
Definition heap_inv (w : qsel) (h : hq) : Prop := idx_ok w h /\ hp (K w h) (length (snd h)).

(* retryPrioQueue.Fix = heap.Fix, after the key of the item at position i changed *)
Lemma h_fix_spec : forall w h i, (i < length (snd h))%nat -> idx_ok w h -> hole (K w h) (length (snd h)) i ->
  heap_inv w (h_fix w h i) /\ frame w (length (snd h)) h (h_fix w h i).
Proof.
  intros w h i Hi Hok Hh. change (h_fix w h i) with (down_up w h i (length (snd h))).
  destruct (down_up_spec w h i (length (snd h)) Hi ltac:(lia) Hok Hh) as [A [B C]].
  split; [|exact B]. split; [exact A|]. destruct B as [_ [B _]]. rewrite B. exact C.
Qed.

(* ------------------------------------------------------------------ membership through the index field *)
(* the item of pk is in the array of heap w *)
Definition queued (w : qsel) (st : list hitem) (pk : N) : Prop :=
  exists it, st_get pk st = Some it /\ get_idx w it <> (-1)%Z.

Lemma queued_in : forall w h pk, idx_ok w h -> (queued w (fst h) pk <-> In pk (snd h)).
Proof.
  intros w h pk [H1 H2]. split.
  - intros [it [A B]]. destruct (H2 pk it A B) as [i [_ [C D]]]. rewrite <- D. apply nth_In. exact C.
  - intro Hin. destruct (In_nth _ _ 0 Hin) as [i [A B]]. destruct (H1 i A) as [it [C D]].
    exists it. rewrite <- B. split; [exact C|lia].
Qed.

Lemma frame_queued : forall w n h h' pk, frame w n h h' -> (queued w (fst h') pk <-> queued w (fst h) pk).
Proof.
  intros w n h h' pk [A [_ [_ B]]]. split.
  - intros [it' [C D]]. destruct (frame_get_some w _ _ pk it' (eq_sym A) C) as [it [E _]].
    exists it. split; [exact E|]. rewrite (B pk it it' E C). exact D.
  - intros [it [C D]]. destruct (frame_get_some w _ _ pk it A C) as [it' [E _]].
    exists it'. split; [exact E|]. rewrite <- (B pk it it' C E). exact D.
Qed.

Lemma frame_K : forall w n h h' k, frame w n h h' -> (n <= k)%nat -> K w h' k = K w h k.
Proof.
  intros w n h h' k [A [_ [B _]]] Hk. unfold K. rewrite (B k Hk). apply (frame_getd_kf w). exact A.
Qed.

Lemma nth_firstn_lt : forall (A : Type) n (l : list A) k d, (k < n)%nat -> nth k (firstn n l) d = nth k l d.
Proof.
  intros A n. induction n as [|n IH]; intros l k d Hk; [lia|].
  destruct l as [|x r]; [destruct k; reflexivity|]. destruct k as [|k]; [reflexivity|]. cbn [firstn nth]. apply IH. lia.
Qed.

(* ------------------------------------------------------------------ retryPrioQueue.Pop (the last element) *)
Lemma h_pop_last_spec : forall w h n pk, idx_ok w h -> length (snd h) = S n -> nth n (snd h) 0 = pk ->
  idx_ok w (h_pop_last w h) /\ length (snd (h_pop_last w h)) = n /\
  map (erase w) (fst (h_pop_last w h)) = map (erase w) (fst h) /\
  (forall k, (k < n)%nat -> K w (h_pop_last w h) k = K w h k) /\
  (forall pk', queued w (fst (h_pop_last w h)) pk' <-> pk' <> pk /\ queued w (fst h) pk').
Proof.
  intros w [st arr] n pk Hok Hlen Hpk. cbn [snd] in Hlen, Hpk.
  unfold h_pop_last. rewrite Hlen. replace (S n - 1)%nat with n by lia. rewrite Hpk. cbn [fst snd].
  assert (Hg : forall pk', st_get pk' (st_upd pk (set_idx w (-1)%Z) st) =
                 if pk =? pk' then option_map (set_idx w (-1)%Z) (st_get pk' st) else st_get pk' st).
  { intro pk'. apply st_get_upd. intro. apply pk_set_idx. }
  assert (Hlen' : length (firstn n arr) = n) by (rewrite firstn_length; lia).
  split; [|split; [exact Hlen'|split; [apply st_upd_erase|split]]].
  - destruct Hok as [H1 H2]. cbn [fst snd] in H1, H2. split; cbn [fst snd].
    + intros k Hk. rewrite Hlen' in Hk. rewrite nth_firstn_lt by exact Hk. rewrite Hg.
      destruct (pk =? nth k arr 0) eqn:E.
      * apply N.eqb_eq in E. exfalso. rewrite <- Hpk in E.
        pose proof (idx_ok_inj w (st, arr) n k (conj H1 H2)) as I. cbn [snd] in I. specialize (I ltac:(lia) ltac:(lia) E). lia.
      * apply H1. lia.
    + intros pk' it Hget Hne. rewrite Hg in Hget. rewrite Hlen'. destruct (pk =? pk') eqn:E.
      * destruct (st_get pk' st); cbn in Hget; [|discriminate]. injection Hget as Hget. subst it.
        rewrite get_set_idx_same in Hne. congruence.
      * apply N.eqb_neq in E. destruct (H2 pk' it Hget Hne) as [i [A [B C]]]. exists i. split; [exact A|].
        assert (i <> n) by (intro; subst i; congruence).
        split; [lia|]. rewrite nth_firstn_lt by lia. exact C.
  - intros k Hk. unfold K. cbn [fst snd]. rewrite nth_firstn_lt by exact Hk.
    apply (frame_getd_kf w). apply st_upd_erase.
  - intro pk'. unfold queued. rewrite Hg. destruct (pk =? pk') eqn:E.
    + apply N.eqb_eq in E. split.
      * intros [it [A B]]. destruct (st_get pk' st); cbn in A; [|discriminate]. injection A as A. subst it.
        rewrite get_set_idx_same in B. congruence.
      * intros [A _]. congruence.
    + apply N.eqb_neq in E. split; [intros [it [A B]]; split; [congruence|exists it; split; assumption]|].
      intros [_ [it [A B]]]. exists it. split; assumption.
Qed.

(* what Pop / Remove establish: the item at position i leaves the heap, everything else stays *)
Definition removed (w : qsel) (h h' : hq) (pk : N) : Prop :=
  heap_inv w h' /\ S (length (snd h')) = length (snd h) /\
  map (erase w) (fst h') = map (erase w) (fst h) /\
  (forall pk', queued w (fst h') pk' <-> pk' <> pk /\ queued w (fst h) pk').

Lemma remove_tail : forall w h0 h n pk, idx_ok w h -> length (snd h) = S n -> hp (K w h) n -> nth n (snd h) 0 = pk ->
  length (snd h0) = S n -> map (erase w) (fst h) = map (erase w) (fst h0) ->
  (forall pk', queued w (fst h) pk' <-> queued w (fst h0) pk') ->
  removed w h0 (h_pop_last w h) pk.
Proof.
  intros w h0 h n pk Hok Hlen Hhp Hpk Hlen0 Her Hq.
  destruct (h_pop_last_spec w h n pk Hok Hlen Hpk) as [A [B [C [D E]]]].
  split; [split; [exact A|]|split; [lia|split; [congruence|]]].
  - rewrite B. apply (hp_ext (K w h)); assumption.
  - intro pk'. rewrite E, Hq. reflexivity.
Qed.

(* retryPrioQueue.Remove = heap.Remove *)
Lemma h_remove_spec : forall w h i, heap_inv w h -> (i < length (snd h))%nat ->
  removed w h (h_remove w h i) (nth i (snd h) 0).
Proof.
  intros w h i [Hok Hhp] Hi. unfold h_remove.
  set (n := (length (snd h) - 1)%nat). assert (Hlen : length (snd h) = S n) by lia.
  destruct (Nat.eqb_spec n i) as [E|E].
  - subst i. apply (remove_tail w h h n); try assumption; try reflexivity.
    apply (hp_shrink _ _ _ Hhp). lia.
  - change (let '(h2, moved) := h_down w (h_swap w h i n) i n in
            if moved then h2 else h_up w (S (length (snd h2))) h2 i) with (down_up w (h_swap w h i n) i n).
    assert (Hin : (i < n)%nat) by lia.
    assert (Hok1 : idx_ok w (h_swap w h i n)) by (apply h_swap_idx_ok; [exact Hok|lia|lia]).
    assert (Hf1 : frame w (S n) h (h_swap w h i n)) by (apply h_swap_frame; [exact Hok|lia|lia|lia]).
    assert (Hh1 : hole (K w (h_swap w h i n)) n i).
    { apply (hp_hole (K w h)); [apply (hp_shrink _ _ _ Hhp); lia|].
      intros k Hk Hne. rewrite h_swap_K by lia. unfold swapf.
      destruct (Nat.eqb_spec k i); [contradiction|]. destruct (Nat.eqb_spec k n); [lia|]. reflexivity. }
    destruct (down_up_spec w (h_swap w h i n) i n Hin ltac:(rewrite h_swap_len; lia) Hok1 Hh1) as [A [B C]].
    apply (remove_tail w h _ n); try assumption.
    + destruct B as [_ [B _]]. rewrite B, h_swap_len. exact Hlen.
    + destruct B as [_ [_ [B _]]]. rewrite B by lia. destruct h as [st arr]. rewrite h_swap_arr by (cbn [snd] in *; lia).
      destruct (Nat.eqb_spec n i); [lia|]. rewrite Nat.eqb_refl. reflexivity.
    + destruct B as [B _]. rewrite B. apply h_swap_erase.
    + intro pk'. rewrite (frame_queued w n _ _ pk' B). apply (frame_queued w (S n) _ _ pk' Hf1).
Qed.

(* retryPrioQueue.PopItem = heap.Pop *)
Lemma h_pop_spec : forall w h, heap_inv w h -> (0 < length (snd h))%nat ->
  removed w h (h_pop w h) (nth 0 (snd h) 0).
Proof.
  intros w h [Hok Hhp] Hpos. unfold h_pop.
  set (n := (length (snd h) - 1)%nat). assert (Hlen : length (snd h) = S n) by lia.
  assert (Hok1 : idx_ok w (h_swap w h 0 n)) by (apply h_swap_idx_ok; [exact Hok|lia|lia]).
  assert (Hf1 : frame w (S n) h (h_swap w h 0 n)) by (apply h_swap_frame; [exact Hok|lia|lia|lia]).
  assert (Hlast : nth n (snd (h_swap w h 0 n)) 0 = nth 0 (snd h) 0).
  { destruct h as [st arr]. rewrite h_swap_arr by (cbn [snd] in *; lia).
    destruct (Nat.eqb_spec n 0) as [E|E]; [rewrite E; reflexivity|]. rewrite Nat.eqb_refl. reflexivity. }
  unfold h_down.
  destruct (Nat.eq_dec n 0) as [E0|E0].
  - (* a single element: down(h, 0, 0) does nothing *)
    rewrite E0 in *. cbn [h_down_loop Nat.leb Nat.mul Nat.add].
    apply (remove_tail w h _ 0%nat); try assumption.
    + rewrite h_swap_len. exact Hlen.
    + intros j Hj. lia.
    + apply h_swap_erase.
    + intro pk'. apply (frame_queued w 1 _ _ pk' Hf1).
  - assert (Hh1 : hole (K w (h_swap w h 0 n)) n 0).
    { apply (hp_hole (K w h)); [apply (hp_shrink _ _ _ Hhp); lia|].
      intros k Hk Hne. rewrite h_swap_K by lia. unfold swapf.
      destruct (Nat.eqb_spec k 0); [contradiction|]. destruct (Nat.eqb_spec k n); [lia|]. reflexivity. }
    destruct (h_down_spec w n (S (length (snd (h_swap w h 0 n)))) (h_swap w h 0 n) 0%nat
                ltac:(rewrite h_swap_len; lia) ltac:(lia) ltac:(rewrite h_swap_len; lia) Hok1 Hh1) as [A [B [C [D [F [G I]]]]]].
    destruct (h_down_loop w (S (length (snd (h_swap w h 0 n)))) (h_swap w h 0 n) 0 n) as [h2 x]. cbn [fst snd] in *.
    apply (remove_tail w h _ n); try assumption.
    + destruct B as [_ [B _]]. rewrite B, h_swap_len. exact Hlen.
    + apply (up_done _ _ x C D). destruct (Nat.eq_dec x 0) as [Ex|Ex]; [left; exact Ex|right; apply G; lia].
    + destruct B as [_ [_ [B _]]]. rewrite B by lia. exact Hlast.
    + destruct B as [B _]. rewrite B. apply h_swap_erase.
    + intro pk'. rewrite (frame_queued w n _ _ pk' B). apply (frame_queued w (S n) _ _ pk' Hf1).
Qed.

(* ------------------------------------------------------------------ retryPrioQueue.Push and PushItem = heap.Push *)
Lemma nth_app_last : forall (l : list N) x, nth (length l) (l ++ [x]) 0 = x.
Proof. intros l x. rewrite app_nth2 by lia. rewrite Nat.sub_diag. reflexivity. Qed.

Definition pushed (w : qsel) (h h' : hq) (pk : N) : Prop :=
  heap_inv w h' /\ length (snd h') = S (length (snd h)) /\
  map (erase w) (fst h') = map (erase w) (fst h) /\
  (forall pk', queued w (fst h') pk' <-> pk' = pk \/ queued w (fst h) pk').

Lemma h_push_spec : forall w h pk it, heap_inv w h -> st_get pk (fst h) = Some it -> get_idx w it = (-1)%Z ->
  pushed w h (h_push w h pk) pk.
Proof.
  intros w [st arr] pk it [Hok Hhp] Hget Hidx. cbn [fst snd] in *.
  unfold h_push. set (h1 := h_push_last w (st, arr) pk).
  assert (Eh1 : h1 = (st_upd pk (set_idx w (Z.of_nat (length arr))) st, arr ++ [pk])) by reflexivity.
  assert (Hg : forall pk', st_get pk' (fst h1) =
                 if pk =? pk' then option_map (set_idx w (Z.of_nat (length arr))) (st_get pk' st) else st_get pk' st).
  { intro pk'. rewrite Eh1. cbn [fst]. apply st_get_upd. intro. apply pk_set_idx. }
  assert (Hl1 : length (snd h1) = S (length arr)) by (rewrite Eh1; cbn [snd]; rewrite app_length; cbn; lia).
  assert (Her1 : map (erase w) (fst h1) = map (erase w) st) by (rewrite Eh1; apply st_upd_erase).
  assert (Hnotin : forall k, (k < length arr)%nat -> nth k arr 0 <> pk).
  { intros k Hk E. destruct Hok as [H1 _]. cbn [fst snd] in H1. destruct (H1 k Hk) as [a [A B]].
    rewrite E, Hget in A. injection A as A. subst a. lia. }
  assert (Hok1 : idx_ok w h1).
  { destruct Hok as [H1 H2]. cbn [fst snd] in H1, H2. split.
    - intros k Hk. rewrite Hl1 in Hk. rewrite Hg. rewrite Eh1. cbn [snd].
      destruct (Nat.eq_dec k (length arr)) as [E|E].
      + subst k. rewrite nth_app_last, N.eqb_refl, Hget. cbn. eexists. split; [reflexivity|apply get_set_idx_same].
      + rewrite app_nth1 by lia. destruct (pk =? nth k arr 0) eqn:E1.
        * apply N.eqb_eq in E1. exfalso. apply (Hnotin k); [lia|congruence].
        * apply H1. lia.
    - intros pk' a Ha Hne. rewrite Hg in Ha. rewrite Hl1. destruct (pk =? pk') eqn:E.
      + apply N.eqb_eq in E. subst pk'. rewrite Hget in Ha. cbn in Ha. injection Ha as Ha. subst a.
        exists (length arr). rewrite get_set_idx_same. split; [reflexivity|]. split; [lia|]. rewrite Eh1. apply nth_app_last.
      + destruct (H2 pk' a Ha Hne) as [i [A [B C]]]. exists i. split; [exact A|]. split; [lia|].
        rewrite Eh1. cbn [snd]. rewrite app_nth1 by lia. exact C. }
  assert (HK1 : forall k, (k < length arr)%nat -> K w h1 k = K w (st, arr) k).
  { intros k Hk. unfold K. replace (snd h1) with (arr ++ [pk]) by (rewrite Eh1; reflexivity). cbn [fst snd]. rewrite app_nth1 by exact Hk.
    apply (frame_getd_kf w). exact Her1. }
  assert (Hq1 : forall pk', queued w (fst h1) pk' <-> pk' = pk \/ queued w st pk').
  { intro pk'. unfold queued. rewrite Hg. destruct (pk =? pk') eqn:E.
    - apply N.eqb_eq in E. subst pk'. rewrite Hget. cbn. split; [intros _; left; reflexivity|].
      intros _. eexists. split; [reflexivity|]. rewrite get_set_idx_same. lia.
    - apply N.eqb_neq in E. split; [intros A; right; exact A|]. intros [A|A]; [congruence|exact A]. }
  rewrite Hl1. replace (S (length arr) - 1)%nat with (length arr) by lia.
  destruct (h_up_spec w (S (length arr)) (S (S (length arr))) h1 (length arr)) as [A [B C]]; try lia; try assumption.
  - (* the new last position has no children; all other edges are those of the old heap *)
    split.
    + intros j Hj Hne Hpne. rewrite !HK1 by (pose proof (par_lt j); lia). apply Hhp. lia.
    + intros j Hj Hpj _. apply par_child in Hpj; lia.
  - intros j Hj Hpj. apply par_child in Hpj; lia.
  - split; [split; [exact A|]|].
    + destruct B as [_ [B _]]. rewrite B, Hl1. exact C.
    + split; [destruct B as [_ [B _]]; rewrite B; exact Hl1|]. split.
      * destruct B as [B _]. rewrite B. exact Her1.
      * intro pk'. rewrite (frame_queued w _ _ _ pk' B). apply Hq1.
Qed.
