(* Reconciler/Runs.v — the cover invariant in every reachable state (C14 nothing_forgotten, single mode),
   and the WaitUntilReconciled contract (C16): the reported revision never runs ahead of the attempts. *)
From Coq Require Import List NArith Bool Lia ZifyN ZifyBool.
From SV Require Import Reconciler.Retries Reconciler.Model Reconciler.RetriesProofs Reconciler.CommitProofs
  Reconciler.RoundProofs Reconciler.CoverProofs Reconciler.StepProofs Reconciler.TableWf Reconciler.StreamProofs
  Reconciler.PhaseProofs Reconciler.BatchProofs Reconciler.RoundInv.
Import ListNotations.
Open Scope N_scope.

(* ------------------------------------------------------------------ "attempted" ghost for deletions *)
(* a Delete (single or batch) of (pk, rev) was called, whatever its outcome *)
Definition Acall (e : env) (pk rev : N) : Prop :=
  exists c, In c (e_calls e) /\ is_del_op (cl_op c) = true /\ cl_pk c = pk /\ cl_rev c = rev.
Definition del_logged (e : env) (q : retries) : Prop :=
  forall it, In it (q_items q) -> ri_del it = true -> Acall e (ri_pk it) (ri_rev it).

Lemma Acall_mono : forall e e' l, e_calls e' = e_calls e ++ l -> forall p r, Acall e p r -> Acall e' p r.
Proof. intros e e' l H p r [c [A B]]. exists c. split; [rewrite H; apply in_or_app; left; exact A|exact B]. Qed.

Lemma run_hooks_calls : forall hs k n e, e_calls (run_hooks hs k n e) = e_calls e.
Proof.
  induction hs as [|[[k' n'] [wk k2]] r IH]; intros k n e; cbn [run_hooks]; [reflexivity|].
  rewrite IH. destruct ((k' =? k) && (n' =? n)); [|reflexivity]. destruct (do_write_frame e wk k2) as [F _]. exact F.
Qed.

Lemma do_call_log : forall e snap fresh op o rev e' ok, do_call e snap fresh op o rev = (e', ok) ->
  exists c, e_calls e' = e_calls e ++ [c] /\ cl_op c = op /\ cl_pk c = o_pk o /\ cl_rev c = rev /\ cl_ok c = ok.
Proof.
  intros e snap fresh op o rev e' ok H. unfold do_call in H.
  destruct fresh; injection H as H1 H2; subst e'; cbn [e_calls]; rewrite ?run_hooks_calls; cbn [e_calls];
    eexists; (split; [reflexivity|]); cbn; repeat split; exact H2.
Qed.

Lemma del_logged_mono : forall e e' l q, e_calls e' = e_calls e ++ l -> del_logged e q -> del_logged e' q.
Proof. intros e e' l q H D it Hin Hd. apply (Acall_mono e e' l H). apply D; assumption. Qed.

Lemma del_logged_clear : forall e q k, del_logged e q -> del_logged e (r_clear q k).
Proof. intros e q k D it Hin. apply D. apply in_clear_items in Hin. exact Hin. Qed.

Lemma del_logged_pop : forall e q, del_logged e q -> del_logged e (r_pop q).
Proof.
  intros e q D it Hin Hd. rewrite pop_items in Hin. destruct (top_of (q_items q)) as [t|] eqn:Et; [|apply D; assumption].
  apply in_put_item in Hin. destruct Hin as [Hin|Hin]; [|apply D; assumption].
  subst it. destruct (top_of_spec _ _ Et) as [A _]. apply (D t A). exact Hd.
Qed.

Lemma del_logged_add : forall e q o rev orig del now, del_logged e q -> (del = true -> Acall e (o_pk o) rev) ->
  del_logged e (r_add q o rev orig del now).
Proof.
  intros e q o rev orig del now D H it Hin Hd. rewrite add_items in Hin. apply in_put_item in Hin.
  destruct Hin as [Hin|Hin]; [|apply D; assumption]. subst it. cbn in *. apply H. exact Hd.
Qed.

Lemma process_single_dl : forall e snap fresh q res o rev orig del e' q' res',
  del_logged e q -> process_single e snap fresh q res o rev orig del = (e', q', res') ->
  del_logged e' q' /\ exists l, e_calls e' = e_calls e ++ l.
Proof.
  intros e snap fresh q res o rev orig del e' q' res' D H. unfold process_single in H. destruct del.
  - destruct (do_call e snap fresh 1 o rev) as [e1 ok] eqn:Ec. destruct (do_call_log _ _ _ _ _ _ _ _ Ec) as [c [LC [L1 [L2 [L3 L4]]]]].
    pose proof (del_logged_mono e e1 [c] q LC D) as D1.
    destruct ok; injection H as H1 H2 H3; subst e' q' res'; (split; [|exists [c]; exact LC]).
    + apply del_logged_clear. exact D1.
    + apply del_logged_add; [exact D1|]. intros _. exists c. split; [rewrite LC; apply in_or_app; right; left; reflexivity|].
      rewrite L1, L2, L3. repeat split.
  - destruct (do_call e snap fresh 0 o rev) as [e1 ok] eqn:Ec. destruct (do_call_log _ _ _ _ _ _ _ _ Ec) as [c [LC _]].
    pose proof (del_logged_mono e e1 [c] q LC D) as D1.
    injection H as H1 H2 H3. subst e' q' res'. split; [|exists [c]; exact LC].
    destruct ok; [apply del_logged_clear|]; exact D1.
Qed.

Lemma single_dl : forall chs rs snap e q res nrec lastrev e' q' res' nrec' lastrev',
  del_logged e q -> single rs snap chs e q res nrec lastrev = (e', q', res', nrec', lastrev') ->
  del_logged e' q' /\ exists l, e_calls e' = e_calls e ++ l.
Proof.
  induction chs as [|ch rest IH]; intros rs snap e q res nrec lastrev e' q' res' nrec' lastrev' D H; cbn [single] in H.
  - injection H as H1 H2 H3 H4 H5. subst. split; [exact D|exists []; rewrite app_nil_r; reflexivity].
  - destruct (negb (c_del ch) && negb (is_pending (c_obj ch))); [apply (IH _ _ _ _ _ _ _ _ _ _ _ _ D H)|].
    destruct (process_single e snap true (r_clear q (o_pk (c_obj ch))) res (c_obj ch) (c_rev ch) (c_rev ch) (c_del ch)) as [[e1 q1] res1] eqn:Ep.
    destruct (process_single_dl _ _ _ _ _ _ _ _ _ _ _ _ (del_logged_clear _ _ _ D) Ep) as [D1 [l1 L1]].
    destruct (rs <=? nrec + 1).
    + injection H as H1 H2 H3 H4 H5. subst. split; [exact D1|exists l1; exact L1].
    + destruct (IH _ _ _ _ _ _ _ _ _ _ _ _ D1 H) as [D2 [l2 L2]]. split; [exact D2|]. exists (l1 ++ l2). rewrite L2, L1, app_assoc. reflexivity.
Qed.

Lemma process_retries_dl : forall fuel rs snap e q res nrec e' q' res' nrec',
  del_logged e q -> process_retries fuel rs snap e q res nrec = (e', q', res', nrec') ->
  del_logged e' q' /\ exists l, e_calls e' = e_calls e ++ l.
Proof.
  induction fuel as [|f IH]; intros rs snap e q res nrec e' q' res' nrec' D H; cbn [process_retries] in H.
  - injection H as H1 H2 H3 H4. subst. split; [exact D|exists []; rewrite app_nil_r; reflexivity].
  - destruct (nrec <? rs); [|injection H as H1 H2 H3 H4; subst; split; [exact D|exists []; rewrite app_nil_r; reflexivity]].
    destruct (r_top q) as [it|]; [|injection H as H1 H2 H3 H4; subst; split; [exact D|exists []; rewrite app_nil_r; reflexivity]].
    destruct (e_now e <? ri_at it); [injection H as H1 H2 H3 H4; subst; split; [exact D|exists []; rewrite app_nil_r; reflexivity]|].
    destruct (process_single e snap false (r_pop q) res (ri_obj it) (ri_rev it) (ri_orig it) (ri_del it)) as [[e1 q1] res1] eqn:Ep.
    destruct (process_single_dl _ _ _ _ _ _ _ _ _ _ _ _ (del_logged_pop _ _ D) Ep) as [D1 [l1 L1]].
    destruct (IH _ _ _ _ _ _ _ _ _ _ D1 H) as [D2 [l2 L2]]. split; [exact D2|]. exists (l1 ++ l2). rewrite L2, L1, app_assoc. reflexivity.
Qed.

Lemma commit_status_dl : forall fixed efb now res e t q t' q', del_logged e q ->
  commit_status_gen fixed efb now t q res = (t', q') -> del_logged e q'.
Proof.
  intros fixed efb now res e. unfold commit_status_gen. induction res as [|r rest IH]; intros t q t' q' D H.
  - cbn in H. injection H as H1 H2. subst. exact D.
  - cbn [fold_left] in H. destruct (commit_one fixed efb now (t, q) r) as [t1 q1] eqn:E1.
    apply (IH t1 q1 t' q'); [|exact H].
    unfold commit_one in E1. destruct (t_fresh_id t) as [t0 id].
    destruct (t_cas t0 (r_rev r) (with_status (r_obj r) (if r_ok r then Done else Error) id)) as [t'0 c].
    assert (X : q1 = q \/ exists o rv og, q1 = r_add q o rv og false now).
    { destruct c as [| |cur cr]; [| |destruct (fallback_ok efb cur r)];
        match type of E1 with (if ?b then _ else _) = _ => destruct b end; injection E1 as X1 X2; subst q1;
        first [left; reflexivity | right; eexists; eexists; eexists; reflexivity]. }
    destruct X as [X|[o [rv [og X]]]]; subst q1; [exact D|apply del_logged_add; [exact D|discriminate]].
Qed.

Lemma batch_collect_dl : forall chs rs e q dels upds nrec lastrev q' dels' upds' nrec' lastrev',
  del_logged e q -> batch_collect rs chs q dels upds nrec lastrev = (q', dels', upds', nrec', lastrev') -> del_logged e q'.
Proof.
  induction chs as [|ch rest IH]; intros rs e q dels upds nrec lastrev q' dels' upds' nrec' lastrev' D H; cbn [batch_collect] in H.
  - injection H as H1 H2 H3 H4 H5. subst. exact D.
  - destruct (negb (c_del ch) && negb (is_pending (c_obj ch))); [apply (IH _ _ _ _ _ _ _ _ _ _ _ _ D H)|].
    destruct (rs <=? nrec + 1).
    + injection H as H1 H2 H3 H4 H5. subst q'. apply del_logged_clear. exact D.
    + apply (IH _ _ _ _ _ _ _ _ _ _ _ _ (del_logged_clear _ _ _ D) H).
Qed.

Lemma batch_deletes_dl : forall dl snap e q e' q', del_logged e q -> batch_deletes snap dl e q = (e', q') -> del_logged e' q'.
Proof.
  induction dl as [|d rest IH]; intros snap e q e' q' D H; cbn [batch_deletes] in H.
  - injection H as H1 H2. subst. exact D.
  - destruct (do_call e snap true 3 (c_obj d) (c_rev d)) as [e1 ok] eqn:Ec.
    destruct (do_call_log _ _ _ _ _ _ _ _ Ec) as [c [LC [L1 [L2 [L3 L4]]]]].
    pose proof (del_logged_mono e e1 [c] q LC D) as D1.
    apply (IH snap e1 (if ok then q else r_add q (c_obj d) (c_rev d) (c_rev d) true (e_now e1)) e' q'); [|exact H]. destruct ok; [exact D1|].
    apply del_logged_add; [exact D1|]. intros _. exists c. split; [rewrite LC; apply in_or_app; right; left; reflexivity|].
    rewrite L1, L2, L3. repeat split.
Qed.

Lemma batch_update_calls_log : forall upds snap e acc e' l, batch_update_calls snap upds e acc = (e', l) ->
  exists lg, e_calls e' = e_calls e ++ lg.
Proof.
  induction upds as [|c rest IH]; intros snap e acc e' l H; cbn [batch_update_calls] in H.
  - injection H as H1 H2. subst. exists []. rewrite app_nil_r. reflexivity.
  - destruct (do_call e snap true 2 (c_obj c) (c_rev c)) as [e1 ok] eqn:Ec.
    destruct (do_call_log _ _ _ _ _ _ _ _ Ec) as [cl [LC _]].
    destruct (IH _ _ _ _ _ H) as [lg R]. exists ([cl] ++ lg). rewrite R, LC, app_assoc. reflexivity.
Qed.

Lemma batch_results_dl : forall l e q res0 q' res', del_logged e q -> batch_results l q res0 = (q', res') -> del_logged e q'.
Proof.
  induction l as [|[c ok] rest IH]; intros e q res0 q' res' D H; cbn [batch_results] in H.
  - injection H as H1 H2. subst. exact D.
  - apply (IH e (if ok then r_clear q (o_pk (c_obj c)) else q) (res0 ++ [mkRes (c_obj c) (c_rev c) (c_rev c) (o_sid (c_obj c)) ok]) q' res'); [|exact H]. destruct ok; [apply del_logged_clear|]; exact D.
Qed.

Lemma phase1_dl : forall cf snap chs e q e1 q1 res1 nrec1 lastrev1,
  del_logged e q -> phase1 cf snap chs e q = (e1, q1, res1, nrec1, lastrev1) -> del_logged e1 q1.
Proof.
  intros cf snap chs e q e1 q1 res1 nrec1 lastrev1 D H. unfold phase1 in H. destruct (cf_batch cf).
  - destruct (batch_collect (cf_rs cf) chs q [] [] 0 0) as [[[[qa dels] upds] nrec] lastrev] eqn:HC.
    destruct (batch_deletes snap dels e qa) as [e2 q2] eqn:HD.
    destruct (batch_update_calls snap upds e2 []) as [e3 l] eqn:HU.
    destruct (batch_results l q2 []) as [q4 res] eqn:HR.
    injection H as H1 H2 H3 H4 H5. subst e1 q1 res1 nrec1 lastrev1.
    pose proof (batch_collect_dl _ _ _ _ _ _ _ _ _ _ _ _ _ D HC) as D1.
    pose proof (batch_deletes_dl _ _ _ _ _ _ D1 HD) as D2.
    destruct (batch_update_calls_log _ _ _ _ _ _ HU) as [lg L].
    apply (batch_results_dl _ _ _ _ _ _ (del_logged_mono e2 e3 lg q2 L D2) HR).
  - destruct (single_dl _ _ _ _ _ _ _ _ _ _ _ _ _ D H) as [X _]. exact X.
Qed.

(* ------------------------------------------------------------------ the full invariant, rounds and runs *)
Definition full_inv (e : env) (s : rstate) : Prop :=
  round_inv e s /\ k_prev s <= k_cursor s /\ del_logged e (k_ret s).

Theorem round_keeps_full : forall cf e s e' s', full_inv e s -> round cf e s = (e', s') -> full_inv e' s'.
Proof.
  intros cf e s e' s' [RI [HP DL]] H.
  destruct (round_keeps_inv cf e s e' s' RI H) as [RI' _].
  split; [exact RI'|].
  pose proof RI as [[W [U P]] [Hc Hcov]].
  unfold round, round_gen in H. cbv zeta in H.
  change (if cf_batch cf
          then let '(q, dels, upds, nrec, lastrev) := batch_collect (cf_rs cf) (changes_of (e_tab e) (k_cursor s)) (k_ret s) [] [] 0 0 in
               let (e0, q0) := batch_deletes (e_tab e) dels e q in
               let (e1, l) := batch_update_calls (e_tab e) upds e0 [] in
               let (q1, res) := batch_results l q0 [] in (e1, q1, res, nrec, lastrev)
          else single (cf_rs cf) (e_tab e) (changes_of (e_tab e) (k_cursor s)) e (k_ret s) [] 0 0)
    with (phase1 cf (e_tab e) (changes_of (e_tab e) (k_cursor s)) e (k_ret s)) in H.
  destruct (phase1 cf (e_tab e) (changes_of (e_tab e) (k_cursor s)) e (k_ret s)) as [[[[e1 q1] res1] nrec1] lastrev1] eqn:E1.
  assert (INV0 : phase_inv (Dlog e) (e_tab e) e (k_ret s) [] (curs (k_cursor s) 0) (changes_of (e_tab e) (k_cursor s))).
  { constructor; first [assumption | exact Hc | apply snap_rel_refl | apply changes_stream_ok; exact W
                        | intros ch _ [] | intros r [] | constructor ]. }
  destruct (phase1_inv _ _ _ _ _ _ _ _ _ _ _ INV0 E1) as [_ LR0].
  assert (LR : lastrev1 = 0 \/ k_cursor s < lastrev1).
  { destruct LR0 as [X|[ch [X1 X2]]]; [left; exact X|right].
    destruct (changes_stream_ok (e_tab e) (k_cursor s) W) as [_ [_ [_ [_ S5]]]]. specialize (S5 ch X1). lia. }
  pose proof (phase1_dl _ _ _ _ _ _ _ _ _ _ DL E1) as D1.
  destruct (commit_status_gen true true (e_now e1) (e_tab e1) q1 res1) as [t1 q2] eqn:C1.
  pose proof (commit_status_dl _ _ _ _ e1 _ _ _ _ D1 C1) as D2.
  destruct (process_retries (N.to_nat (cf_rs cf)) (cf_rs cf) (e_tab e) (set_tab e1 t1) q2 [] nrec1) as [[[e3 q3] res2] nrec3] eqn:R1.
  assert (D2' : del_logged (set_tab e1 t1) q2) by exact D2.
  destruct (process_retries_dl _ _ _ _ _ _ _ _ _ _ _ D2' R1) as [D3 [l3 L3]].
  destruct (commit_status_gen true true (e_now e3) (e_tab e3) q3 res2) as [t2 q4] eqn:C2.
  pose proof (commit_status_dl _ _ _ _ e3 _ _ _ _ D3 C2) as D4.
  assert (PC : (if k_prev s <? lastrev1 then lastrev1 else k_prev s) <= (if lastrev1 =? 0 then k_cursor s else lastrev1)).
  { destruct (N.ltb_spec (k_prev s) lastrev1) as [A|A]; destruct (N.eqb_spec lastrev1 0) as [B|B]; lia. }
  match type of H with (if ?b then _ else _) = _ => destruct b end; injection H as H1 H2; subst e' s'; cbn.
  - split; [exact PC|]. intros it Hin Hd. destruct (D4 it Hin Hd) as [c [A B]]. exists c. split; [cbn; apply in_or_app; left; exact A|exact B].
  - split; [exact PC|exact D4].
Qed.

(* what the environment (users, the fault oracle, time) may do between rounds *)
Inductive estep : env * rstate -> env * rstate -> Prop :=
| es_write : forall e s kind k, estep (e, s) (do_write e kind k, s)
| es_time : forall e s t, estep (e, s) (set_now e t, s)
| es_fault : forall e s k n, estep (e, s) (add_fault e k n, s)
| es_hook : forall e s k n wk k2, estep (e, s) (add_hook e k n wk k2, s)
| es_foff : forall e s, estep (e, s) (faults_off e, s)
| es_prune : forall e s, estep (e, s) (e, ext_prune s)
| es_init : forall e s, estep (e, s) (mark_init e, s).

Lemma estep_keeps_full : forall st st', estep st st' -> full_inv (fst st) (snd st) -> full_inv (fst st') (snd st').
Proof.
  intros st st' H. destruct H; cbn [fst snd]; intros [[[W [U P]] [Hc Hcov]] [HP DL]]; try (split; [split; [split; [exact W|split; [exact U|exact P]]|split; [exact Hc|exact Hcov]]|split; [exact HP|exact DL]]).
  (* only the user write remains *)
  pose proof (do_write_wstep e kind k (twf_keyed _ W)) as WS. pose proof (wstep_rev _ _ WS) as M.
  destruct (do_write_frame e kind k) as [F1 _].
  destruct (do_write_covers (Dlog e) e kind k (k_cursor s) [] (k_ret s) (twf_keyed _ W) Hc Hcov) as [_ [A B]].
  split; [|split; [exact HP|]].
  - split; [split; [apply (wstep_twf _ _ WS W)|split; [exact U|]]|split; [exact A|]].
    + intros it Hin. destruct (P it Hin). split; lia.
    + intro pk. apply (covered_D_mono (Dlog e)); [|apply B]. intros p r [c [X Y]]. exists c. rewrite F1. split; assumption.
  - intros it Hin Hd. destruct (DL it Hin Hd) as [c [X Y]]. exists c. rewrite F1. split; assumption.
Qed.

Inductive reach (cf : cfg) : env * rstate -> Prop :=
| reach_init : reach cf (env0 cf, rstate0 cf)
| reach_env : forall st st', reach cf st -> estep st st' -> reach cf st'
| reach_round : forall e s, reach cf (e, s) -> reach cf (round cf e s).

Lemma full_inv_init : forall cf, full_inv (env0 cf) (rstate0 cf).
Proof.
  intro cf. split; [|split].
  - split; [split; [apply twf_empty|split; [apply uniq_new|intros it []]]|split; [cbn; lia|]].
    intro pk. unfold covered. cbn. exact I.
  - cbn. lia.
  - intros it [].
Qed.

(* nothing_forgotten: in every reachable state of the reconciler — single or batch mode, any round size, any
   backoff, any fault oracle, any user writes placed between rounds or from inside any operation (hooks),
   any timing — every key is covered *)
Theorem nothing_forgotten : forall cf st, reach cf st -> full_inv (fst st) (snd st).
Proof.
  intros cf st H. induction H.
  - apply full_inv_init.
  - apply (estep_keeps_full st st'); assumption.
  - destruct (round cf e s) as [e' s'] eqn:E. apply (round_keeps_full cf e s e' s' IHreach E).
Qed.

(* ------------------------------------------------------------------ C16: WaitUntilReconciled *)
(* every change with revision <= the reported revision has been attempted: a live object at such a
   revision is no longer Pending/Refreshing (its status was written by a status commit, i.e. after an
   Update of that version), a deletion at such a revision has been handed to Delete at least once *)
Definition attempted_upto (e : env) (s : rstate) : Prop :=
  forall pk sl, slot_of (e_tab e) pk = Some sl -> slot_rev sl <= k_prev s ->
    match sl with
    | Live o _ => is_pending o = false
    | Dead _ r => Acall e pk r
    end.

Theorem wur_only_after_attempted : forall cf st, reach cf st ->
  k_prev (snd st) <= k_cursor (snd st) /\ attempted_upto (fst st) (snd st) /\
  forall req, snd (wur (snd st) req) = true -> forall pk sl, slot_of (e_tab (fst st)) pk = Some sl -> slot_rev sl <= req ->
    match sl with Live o _ => is_pending o = false | Dead _ r => Acall (fst st) pk r end.
Proof.
  intros cf st H. destruct (nothing_forgotten cf st H) as [[_ [_ Hcov]] [HP DL]].
  assert (AU : attempted_upto (fst st) (snd st)).
  { intros pk sl Hs Hle. specialize (Hcov pk). unfold covered in Hcov. rewrite Hs in Hcov.
    destruct sl as [o r|o r]; cbn in Hle.
    - unfold is_pending. destruct (o_kind o); try reflexivity.
      + destruct Hcov as [A|[x [[] _]]]. lia.
      + destruct Hcov as [A|[x [[] _]]]. lia.
    - destruct Hcov as [A|[[it [A [B [C _]]]]|[c [A [B [C [D _]]]]]]]; [lia| |].
      + destruct (find_item_in _ _ _ A) as [Hin Hk]. rewrite <- Hk, <- C. apply DL; assumption.
      + exists c. repeat split; assumption. }
  split; [exact HP|]. split; [exact AU|].
  intros req Hw pk sl Hs Hle. apply (AU pk sl Hs). unfold wur in Hw. cbn in Hw. apply N.leb_le in Hw. lia.
Qed.

(* ------------------------------------------------------------------ convergence (partial): quiescent => reconciled *)
(* the reconciler is quiescent: no retry item is left and no object is ahead of the change cursor
   (then no trigger but a timer/prune can fire: trigger_ready's change clause is false) *)
Definition quiescent (e : env) (s : rstate) : Prop :=
  q_items (k_ret s) = [] /\ changes_of (e_tab e) (k_cursor s) = [].

(* the table is fully reconciled: every live object is Done, every deletion was Delete()d successfully *)
Definition reconciled (e : env) : Prop :=
  forall pk sl, slot_of (e_tab e) pk = Some sl ->
    match sl with Live o _ => o_kind o = Done | Dead _ r => Dlog e pk r end.

Lemma no_changes_all_behind : forall t c, twf t -> changes_of t c = [] ->
  forall pk sl, slot_of t pk = Some sl -> slot_rev sl <= c.
Proof.
  intros t c W H pk sl Hs. destruct (changes_stream_ok t c W) as [_ [_ [_ [S4 _]]]]. rewrite H in S4.
  destruct (N.lt_ge_cases c (slot_rev sl)) as [L|L]; [destruct (S4 pk sl Hs L)|exact L].
Qed.

Theorem quiescent_is_reconciled : forall e s, full_inv e s -> quiescent e s -> reconciled e.
Proof.
  intros e s [[[W _] [_ Hcov]] _] [Q1 Q2] pk sl Hs.
  pose proof (no_changes_all_behind _ _ W Q2 pk sl Hs) as L.
  specialize (Hcov pk). unfold covered in Hcov. rewrite Hs in Hcov.
  destruct sl as [o r|o r]; cbn in L.
  - destruct (o_kind o); try reflexivity.
    + destruct Hcov as [A|[x [[] _]]]. lia.
    + destruct Hcov as [A|[x [[] _]]]. lia.
    + destruct Hcov as [[it [A _]]|[x [[] _]]]. rewrite Q1 in A. discriminate.
  - destruct Hcov as [A|[[it [A _]]|A]]; [lia|rewrite Q1 in A; discriminate|exact A].
Qed.

(* converges_partial: in every reachable quiescent state of the reconciler (either mode) the table is
   reconciled — whatever history of writes, faults and timings led there *)
Theorem converges_partial : forall cf st, reach cf st ->
  quiescent (fst st) (snd st) -> reconciled (fst st).
Proof.
  intros cf st H Q. apply (quiescent_is_reconciled (fst st) (snd st)); [apply (nothing_forgotten cf st H)|exact Q].
Qed.
