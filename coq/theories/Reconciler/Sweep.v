(* Reconciler/Sweep.v — one sweep of the refresher (reconciler/reconciler.go refreshLoop, the body of the outer for):

     seq := Table.LowerBound(ReadTxn, ByRevision(lastRevision+1))        -- the snapshot's live objects, oldest change first
     for obj, rev := range seq {
       updatedSince := time.Since(status.UpdatedAt)
       if updatedSince < RefreshInterval { durationUntilRefresh = RefreshInterval - updatedSince; break }
       lastRevision = rev
       if status.Kind == Done { RefreshRateLimiter.Wait(ctx); <the write transaction of Refresh.v> }
     }
     refreshTimer.Reset(durationUntilRefresh)

   Refresh.v models the write of one (object, revision) pair and leaves open WHICH pairs the refresher picks and
   when. This file models that choice: the sweep over the snapshot in revision order with the age test, the cursor
   `lastRevision`, the rate limiter (as an arbitrary list of waits, one before each write: time passes during a sweep)
   and the duration until the next sweep. Time stamps are not part of Model.obj: `upd` gives the UpdatedAt of an
   object's status (a parameter; the theorems hold for every assignment, completeness needs it monotone in revision
   order, which holds when every status write stamps the current time - StatusPending/Done/Error/Refreshing do).

   NOT modelled: the timer itself (the loop sleeps `duration`), ctx cancellation, health reporting. The sweep is not run
   against the implementation by a randomized engine (the refresh loop runs only in the directed probes of the
   reconciler engine: probe refresh / refreshbackoff); it is tied to the rest of the development through Refresh.v. *)
From Coq Require Import List NArith Bool Lia ZifyN ZifyBool.
From SV Require Import Reconciler.Retries Reconciler.Model Reconciler.RetriesProofs Reconciler.CommitProofs
  Reconciler.RoundProofs Reconciler.CoverProofs Reconciler.TableWf Reconciler.StreamProofs Reconciler.Refresh.
Import ListNotations.
Open Scope N_scope.

Section Sweep.
Variable upd : obj -> N.   (* Status.UpdatedAt *)

(* what the sweep hands to the write transaction: the object and revision seen in the snapshot, and when *)
Record cand := mkCand { cd_obj : obj; cd_rev : N; cd_at : N }.

(* the loop over seq; returns (candidates in order, lastRevision afterwards, durationUntilRefresh) *)
Fixpoint sweep (iv now last : N) (objs : list change) (delays : list N) : list cand * N * N :=
  match objs with
  | [] => ([], last, iv)
  | c :: r =>
    let since := now - upd (c_obj c) in          (* time.Since: a time stamp in the future gives a negative duration < iv *)
    if since <? iv then ([], last, iv - since)
    else match o_kind (c_obj c) with
         | Done => let d := hd 0 delays in        (* RefreshRateLimiter.Wait *)
                   let '(cs, l, dur) := sweep iv (now + d) (c_rev c) r (tl delays) in
                   (mkCand (c_obj c) (c_rev c) (now + d) :: cs, l, dur)
         | _ => sweep iv now (c_rev c) r delays
         end
  end.

(* LowerBound(ByRevision(last+1)) on a read snapshot: live objects with a larger revision, by revision *)
Definition live_stream (snap : table) (last : N) : list change :=
  filter (fun c => negb (c_del c)) (changes_of snap last).

Definition refresh_sweep (iv now last : N) (snap : table) (delays : list N) : list cand * N * N :=
  sweep iv now last (live_stream snap last) delays.

(* ------------------------------------------------------------------ soundness of the choice *)
Lemma sweep_sound : forall objs iv now last delays cs l dur,
  sweep iv now last objs delays = (cs, l, dur) ->
  forall c, In c cs ->
    exists ch, In ch objs /\ c_obj ch = cd_obj c /\ c_rev ch = cd_rev c /\ o_kind (cd_obj c) = Done /\
               iv <= cd_at c - upd (cd_obj c) /\ now <= cd_at c.
Proof.
  induction objs as [|ch r IH]; intros iv now last delays cs l dur H c Hc; cbn [sweep] in H.
  - inversion H; subst. destruct Hc.
  - destruct (now - upd (c_obj ch) <? iv) eqn:Ey; [inversion H; subst; destruct Hc|].
    destruct (o_kind (c_obj ch)) eqn:Ek.
    1,2,4: destruct (IH _ _ _ _ _ _ _ H c Hc) as [x [A B]]; exists x; split; [right; exact A|exact B].
    destruct (sweep iv (now + hd 0 delays) (c_rev ch) r (tl delays)) as [[cs' l'] dur'] eqn:Er.
    inversion H; subst. destruct Hc as [Hc|Hc].
    + subst c. exists ch. cbn [cd_obj cd_rev cd_at]. repeat split; [left; reflexivity|exact Ek|lia|lia].
    + destruct (IH _ _ _ _ _ _ _ Er c Hc) as [x [A [B1 [B2 [B3 [B4 B5]]]]]]. exists x.
      repeat split; [right; exact A|exact B1|exact B2|exact B3|exact B4|lia].
Qed.

(* every candidate is what Refresh.v calls "seen by the refresher": the snapshot's live object at that revision, Done *)
Theorem sweep_candidates_seen : forall iv now last snap delays c, twf snap ->
  In c (fst (fst (refresh_sweep iv now last snap delays))) ->
  refresher_saw snap (cd_obj c) (cd_rev c) /\ last < cd_rev c /\ iv <= cd_at c - upd (cd_obj c) /\ now <= cd_at c.
Proof.
  intros iv now last snap delays c Hw Hc. unfold refresh_sweep in Hc.
  destruct (sweep iv now last (live_stream snap last) delays) as [[cs l] dur] eqn:E. cbn [fst] in Hc.
  destruct (sweep_sound _ _ _ _ _ _ _ _ E c Hc) as [ch [Hin [Ho [Hr [Hk [Ha Hn]]]]]].
  unfold live_stream in Hin. apply filter_In in Hin. destruct Hin as [Hin Hd].
  destruct (changes_stream_ok snap last Hw) as [_ [_ [S3 [_ S5]]]].
  destruct (S3 ch Hin) as [sl [Hs Hsc]]. specialize (S5 ch Hin).
  destruct sl as [o r|o r]; cbn [slot_change] in Hsc; subst ch; cbn [c_del negb] in Hd; [|discriminate].
  cbn [c_obj c_rev] in *. unfold ch_pk in Hs. cbn [c_obj] in Hs. subst o r.
  repeat split; try assumption.
  unfold t_live. unfold slot_of in Hs. rewrite Hs. reflexivity.
Qed.

(* ------------------------------------------------------------------ completeness: nothing old is skipped *)
Fixpoint upd_mono (l : list change) : Prop :=
  match l with [] => True | c :: r => (forall d, In d r -> upd (c_obj c) <= upd (c_obj d)) /\ upd_mono r end.

Lemma sweep_complete : forall objs iv now last delays cs l dur,
  sweep iv now last objs delays = (cs, l, dur) -> upd_mono objs ->
  forall ch, In ch objs -> o_kind (c_obj ch) = Done -> iv <= now - upd (c_obj ch) -> 0 < iv ->
    exists c, In c cs /\ cd_obj c = c_obj ch /\ cd_rev c = c_rev ch.
Proof.
  induction objs as [|x r IH]; intros iv now last delays cs l dur H Hm ch Hin Hk Ha Hiv; [destruct Hin|].
  cbn [sweep] in H. destruct Hm as [Hm1 Hm2].
  destruct (now - upd (c_obj x) <? iv) eqn:Ey.
  - (* the head is young: everything behind it is younger still *)
    exfalso. apply N.ltb_lt in Ey. destruct Hin as [Hin|Hin]; [subst x; lia|]. specialize (Hm1 ch Hin). lia.
  - destruct Hin as [Hin|Hin].
    + subst x. rewrite Hk in H.
      destruct (sweep iv (now + hd 0 delays) (c_rev ch) r (tl delays)) as [[cs' l'] dur'] eqn:Er.
      inversion H; subst. eexists. split; [left; reflexivity|]. split; reflexivity.
    + destruct (o_kind (c_obj x)) eqn:Ek.
      1,2,4: exact (IH _ _ _ _ _ _ _ H Hm2 ch Hin Hk Ha Hiv).
      destruct (sweep iv (now + hd 0 delays) (c_rev x) r (tl delays)) as [[cs' l'] dur'] eqn:Er.
      inversion H; subst.
      destruct (IH _ _ _ _ _ _ _ Er Hm2 ch Hin Hk ltac:(lia) Hiv) as [c [A B]]. exists c. split; [right; exact A|exact B].
Qed.

(* on a snapshot: every live Done object with revision above the cursor that is at least RefreshInterval old when the
   sweep starts is handed to the write transaction, whatever the rate limiter's waits *)
Theorem sweep_refreshes_every_old_done_object : forall iv now last snap delays o r, twf snap ->
  upd_mono (live_stream snap last) -> 0 < iv ->
  t_live snap (o_pk o) = Some (o, r) -> last < r -> o_kind o = Done -> iv <= now - upd o ->
  exists c, In c (fst (fst (refresh_sweep iv now last snap delays))) /\ cd_obj c = o /\ cd_rev c = r.
Proof.
  intros iv now last snap delays o r Hw Hm Hiv Hl Hr Hk Ha. unfold refresh_sweep.
  destruct (sweep iv now last (live_stream snap last) delays) as [[cs l] dur] eqn:E. cbn [fst].
  assert (Hin : In (mkChange o r false) (live_stream snap last)).
  { unfold live_stream. apply filter_In. split; [|reflexivity].
    destruct (changes_stream_ok snap last Hw) as [_ [_ [_ [S4 _]]]].
    unfold t_live in Hl. destruct (aget (o_pk o) (t_slots snap)) as [[o' r'|o' r']|] eqn:Es; try discriminate.
    inversion Hl; subst o' r'. apply (S4 (o_pk o) (Live o r)); [exact Es|exact Hr]. }
  destruct (sweep_complete _ _ _ _ _ _ _ _ E Hm _ Hin Hk Ha Hiv) as [c [A [B C]]].
  exists c. split; [exact A|split; [exact B|exact C]].
Qed.

(* ------------------------------------------------------------------ cursor and timer *)
Lemma sweep_cursor : forall objs iv now last delays cs l dur,
  sweep iv now last objs delays = (cs, l, dur) ->
  (l = last \/ exists ch, In ch objs /\ l = c_rev ch) /\ (forall c, In c cs -> exists ch, In ch objs /\ cd_rev c = c_rev ch).
Proof.
  induction objs as [|x r IH]; intros iv now last delays cs l dur H; cbn [sweep] in H.
  - inversion H; subst. split; [left; reflexivity|intros c []].
  - destruct (now - upd (c_obj x) <? iv); [inversion H; subst; split; [left; reflexivity|intros c []]|].
    destruct (o_kind (c_obj x)).
    1,2,4: destruct (IH _ _ _ _ _ _ _ H) as [[A|[ch [A1 A2]]] B];
      (split; [|intros c Hc; destruct (B c Hc) as [ch' [B1 B2]]; exists ch'; split; [right; exact B1|exact B2]]);
      [right; exists x; split; [left; reflexivity|exact A]|right; exists ch; split; [right; exact A1|exact A2]].
    destruct (sweep iv (now + hd 0 delays) (c_rev x) r (tl delays)) as [[cs' l'] dur'] eqn:Er. inversion H; subst.
    destruct (IH _ _ _ _ _ _ _ Er) as [[A|[ch [A1 A2]]] B]; split.
    + right. exists x. split; [left; reflexivity|exact A].
    + intros c [Hc|Hc]; [subst c; exists x; split; [left; reflexivity|reflexivity]|].
      destruct (B c Hc) as [ch' [B1 B2]]. exists ch'. split; [right; exact B1|exact B2].
    + right. exists ch. split; [right; exact A1|exact A2].
    + intros c [Hc|Hc]; [subst c; exists x; split; [left; reflexivity|reflexivity]|].
      destruct (B c Hc) as [ch' [B1 B2]]. exists ch'. split; [right; exact B1|exact B2].
Qed.

(* the timer is re-armed for a positive duration of at most the refresh interval *)
Lemma sweep_duration : forall objs iv now last delays cs l dur,
  sweep iv now last objs delays = (cs, l, dur) -> 0 < iv -> 0 < dur /\ dur <= iv.
Proof.
  induction objs as [|x r IH]; intros iv now last delays cs l dur H Hiv; cbn [sweep] in H.
  - inversion H; subst. lia.
  - destruct (now - upd (c_obj x) <? iv) eqn:Ey; [apply N.ltb_lt in Ey; inversion H; subst; lia|].
    destruct (o_kind (c_obj x)).
    1,2,4: exact (IH _ _ _ _ _ _ _ H Hiv).
    destruct (sweep iv (now + hd 0 delays) (c_rev x) r (tl delays)) as [[cs' l'] dur'] eqn:Er. inversion H; subst.
    exact (IH _ _ _ _ _ _ _ Er Hiv).
Qed.

(* ------------------------------------------------------------------ sweep + write (Refresh.v) *)
(* whatever happened between the snapshot and the write transaction of a candidate (the rate limiter's wait, other
   candidates' writes, rounds of the reconciler, user writes): the write is the model's `ref` write of a Done object
   unchanged since the snapshot, or nothing; in particular it changes nothing but a status *)
Theorem sweep_write_is_ref_or_nothing : forall iv now last snap delays c e, twf snap -> tstep snap (e_tab e) ->
  In c (fst (fst (refresh_sweep iv now last snap delays))) ->
  (slot_of (e_tab e) (o_pk (cd_obj c)) = slot_of snap (o_pk (cd_obj c)) /\
   refresh_write (e_tab e) (cd_obj c) (cd_rev c) = e_tab (do_write e 5 (o_pk (cd_obj c)))) \/
  (slot_of (e_tab e) (o_pk (cd_obj c)) <> slot_of snap (o_pk (cd_obj c)) /\
   refresh_write (e_tab e) (cd_obj c) (cd_rev c) = e_tab e).
Proof.
  intros iv now last snap delays c e Hw Ht Hc.
  destruct (sweep_candidates_seen iv now last snap delays c Hw Hc) as [Hs _].
  exact (refresher_write_is_ref_or_nothing snap e (cd_obj c) (cd_rev c) Hw Ht Hs).
Qed.

End Sweep.

(* non-vacuity / a worked sweep: three Done objects stamped at 0, 5, 50 and a Pending one at 7; interval 20, sweep at
   time 30 with a limiter wait of 4 before each write: objects 1 and 2 are candidates (written at 34 and 38), the
   Pending one only moves the cursor, the sweep stops at object 4 (age 0 at... stamped 50 > now) and re-arms for 20 *)
Definition sw_upd (o : obj) : N := match o_pk o with 1 => 0 | 2 => 5 | 3 => 7 | _ => 50 end.
Definition sw_snap : table :=
  t_insert (t_insert (t_insert (t_insert (t_empty false) (mkObj 1 1 Done 1 0)) (mkObj 2 1 Done 2 0)) (mkObj 3 1 Pending 3 0))
           (mkObj 4 1 Done 4 0).
Example sweep_example :
  refresh_sweep sw_upd 20 30 0 sw_snap [4; 4; 4] =
    ([mkCand (mkObj 1 1 Done 1 0) 1 34; mkCand (mkObj 2 1 Done 2 0) 2 38], 3, 20) /\
  refresh_sweep sw_upd 20 30 3 sw_snap [] = ([], 3, 20) /\
  refresh_sweep sw_upd 20 60 0 sw_snap [] =
    ([mkCand (mkObj 1 1 Done 1 0) 1 60; mkCand (mkObj 2 1 Done 2 0) 2 60], 3, 10).
Proof. vm_compute. repeat split. Qed.
