(* Reconciler/Refuted.v — the final clause of C16 ("the low watermark is the revision of the oldest
   failing change") is FALSE for the code before fix cd98c3d (commit_status_old: the retry item was
   re-queued with origRev := result.rev, the revision of the reconciler's own Error write):
   one user change at revision 1 keeps failing, the watermark climbs 1, 2, 3. With the fix it stays.
   (Both runs without the later Error-status fallback of 8844901; it plays no role here.) *)
From Coq Require Import List NArith Bool.
From SV Require Import Reconciler.Retries Reconciler.Model.
Import ListNotations.
Open Scope N_scope.

Definition drift_cf : cfg := mkCfg false 2 10 80 0 false.
Definition drift_e0 : env := add_fault (add_fault (add_fault (env0 drift_cf) 1 0) 1 1) 1 2.

(* low watermark reported after the 1st, 2nd and 3rd failed attempt of the single user write (put 1),
   and the table contents at the end *)
Definition run_drift (fixed : bool) : list N * list (N * N * N) :=
  let (e, s) := settle_gen fixed false 50 drift_cf drift_e0 (rstate0 drift_cf) in
  let e := do_write e 0 1 in
  let (e, s1) := settle_gen fixed false 50 drift_cf e s in
  let (e, s2) := advance_gen fixed false 50 50 drift_cf e s1 20 in
  let (e, s3) := advance_gen fixed false 50 50 drift_cf e s2 60 in
  ([k_plwm s1; k_plwm s2; k_plwm s3], live_objs (e_tab e)).

Theorem low_watermark_drift_refuted :
  exists cf e0, cf = drift_cf /\ e0 = drift_e0 /\
    (* pre-fix: the only failing change has revision 1, object k1 still holds payload v1 in Error,
       but the reported watermark is 1, then 2, then 3 *)
    run_drift false = ([1; 2; 3], [(1, 1, kind_code Error)]) /\
    (* the code as it is: stays at 1 *)
    run_drift true = ([1; 1; 1], [(1, 1, kind_code Error)]).
Proof. exists drift_cf, drift_e0. repeat split; vm_compute; reflexivity. Qed.

(* Defect fixed by 8844901 (efb = false is the code before that fix): a foreign status-only write (a
   second reconciler on the same object) over an object whose OUR status is Error re-stamps the revision;
   the retry's status commit then fails the CompareAndSwap AND the Pending-id fallback, the result is
   dropped and no retry is re-queued. Scenario: put 1 (attempts 0 and 1 fail), statx 1, then 1000 ms with
   NO further faults. Before the fix: only two Update calls ever happen, the object stays Error, the
   target never receives it, the retry low watermark stays at 1 forever — C14 convergence is false for
   this history. With the fix: third attempt at t=60 succeeds, object Done, target = table, watermark 0. *)
Definition stuck_cf : cfg := mkCfg false 2 10 40 0 false.
Definition run_stuck (efb : bool) : list (N * N * N) * list (N * N) * N * N :=
  let e0 := add_fault (add_fault (env0 stuck_cf) 1 0) 1 1 in
  let (e, s) := settle_gen true efb 50 stuck_cf e0 (rstate0 stuck_cf) in
  let (e, s) := settle_gen true efb 50 stuck_cf (do_write e 0 1) s in
  let (e, s) := settle_gen true efb 50 stuck_cf (do_write e 4 1) s in
  let (e, s) := advance_gen true efb 100 50 stuck_cf e s 1000 in
  (live_objs (e_tab e), e_target e, k_plwm s, N.of_nat (length (e_calls e))).

Theorem convergence_refuted_by_foreign_status_write :
  run_stuck false = ([(1, 1, kind_code Error)], [], 1, 2).
Proof. vm_compute. reflexivity. Qed.

Theorem converges_after_foreign_status_write_fixed :
  run_stuck true = ([(1, 1, kind_code Done)], [(1, 1)], 0, 3).
Proof. vm_compute. reflexivity. Qed.

(* Defect D15, fixed by 1583841 (commit_one_stale is the code before that fix). round_with / settle_with /
   advance_with are round_gen / settle_gen / advance_gen with the status commit as a parameter: *)
Lemma round_with_gen : forall fixed efb cf e s, round_with (commit_status_gen fixed efb) cf e s = round_gen fixed efb cf e s.
Proof. reflexivity. Qed.
Lemma settle_with_gen : forall fixed efb fuel cf e s, settle_with (commit_status_gen fixed efb) fuel cf e s = settle_gen fixed efb fuel cf e s.
Proof.
  intros fixed efb fuel. induction fuel as [|f IH]; intros cf e s; cbn [settle_with settle_gen]; [reflexivity|].
  destruct (trigger_ready cf e s); [|reflexivity]. rewrite round_with_gen. destruct (round_gen fixed efb cf e s) as [e' s']. apply IH.
Qed.
Lemma advance_with_gen : forall fixed efb fuel sfuel cf e s until,
  advance_with (commit_status_gen fixed efb) fuel sfuel cf e s until = advance_gen fixed efb fuel sfuel cf e s until.
Proof.
  intros fixed efb fuel sfuel. induction fuel as [|f IH]; intros cf e s until; cbn [advance_with advance_gen]; [reflexivity|].
  destruct (next_event cf e s until) as [t|]; [|reflexivity]. rewrite settle_with_gen.
  destruct (settle_gen fixed efb sfuel cf (set_now e (N.max t (e_now e))) s) as [e' s']. apply IH.
Qed.

(* When the status commit of a FAILED retry falls back to the current object (its revision was changed by
   the status write of another reconciler, here `statx`, which changes o_aux), the code before the fix
   queued the next retry with the stale reconciled object at the new revision. The next, successful retry
   then did CompareAndSwap(retry revision, stale object + Done): it matched and wrote the stale object
   back, reverting the other writer's data.
   History: fail 1 0, fail 1 1, put 1 (attempt 0 fails), statx 1 (o_aux 0 -> 1), sleep 100 (attempt 1 at
   t=20 fails and commits through the fallback; attempt 2 at t=60 succeeds). *)
Definition run_d15 (stale : bool) :=
  let stl := if stale then settle_stale else settle in
  let adv := if stale then advance_stale else advance in
  let e0 := add_fault (add_fault (env0 stuck_cf) 1 0) 1 1 in
  let (e, s) := stl 50%nat stuck_cf e0 (rstate0 stuck_cf) in
  let (e, s) := stl 50%nat stuck_cf (do_write e 0 1) s in
  let e3 := do_write e 4 1 in
  let (e, s) := stl 50%nat stuck_cf e3 s in
  (* after the failed attempt 1 and its status commit through the fallback *)
  let (e4, s4) := adv 100%nat 50%nat stuck_cf e s 25 in
  let (e5, s5) := adv 100%nat 50%nat stuck_cf e4 s4 100 in
  (live_objs_aux (e_tab e3),
   (* the queued retry: aux of its object and its revision; the table: aux and revision of key 1 *)
   (map (fun it => (o_aux (ri_obj it), ri_rev it)) (q_items (k_ret s4)),
    match t_live (e_tab e4) 1 with Some (o, r) => Some (o_aux o, r) | None => None end),
   live_objs_aux (e_tab e5), N.of_nat (length (e_calls e5))).

(* before the fix: the stat write had set aux = 1; the retry queued at the fallback carries aux 0 for the
   revision at which the table holds aux 1 (the invariant StatusOnly.J1 "revision identifies the version"
   is broken exactly there); the final table has aux 0: the other writer's data is lost *)
Theorem stale_retry_clobbers_refuted :
  exists written final,
    run_d15 true = ([(1, 1, kind_code Error, written)], ([(0, 4)], Some (written, 4)), [(1, 1, kind_code Done, final)], 3) /\
    final <> written.
Proof. exists 1, 0. split; [vm_compute; reflexivity|discriminate]. Qed.

(* the code as it is: the retry is queued with the object just written, the other writer's data survives *)
Theorem stale_retry_fixed :
  run_d15 false = ([(1, 1, kind_code Error, 1)], ([(1, 4)], Some (1, 4)), [(1, 1, kind_code Done, 1)], 3).
Proof. vm_compute. reflexivity. Qed.
