(* Reconciler/StatusOnly.v — C15: the hypothesis `rev_identifies` of the status-commit theorem
   (CommitProofs.commit_status_status_only) is an invariant of every reachable state: at both status
   commits of every round of every run, every committed result (obj, rev) identifies the object version
   the table holds at revision rev (same payload, same data of the OTHER writers, o_aux), result keys are
   pairwise distinct and the table is keyed.  Hence a whole status commit changes only OUR statuses: it
   leaves payloads and the other writers' data alone, unconditionally; every payload change during a round is a
   user write (do_write) performed by a hook from inside an operation.

   Structure:
   1. user writes as primitive table steps (`ustep`), the exact relation `user_writes`;
   2. status ids identify payload versions (`tab_ids`), what a retry item / a result knows about the
      table (`J1`, `J2`), both stable under user writes;
   3. the retry queue only loses update items outside the status commit (`usub`);
   4. one status commit and a whole commitStatus keep the invariant (`sinv`);
   5. what the phases of a round do to the table, the queue and the result list;
   6. the invariant in every reachable state, theorem (a);
   7. the statuses-erased projection `erase`, theorem (b). *)
From Coq Require Import List NArith Bool Lia ZifyN ZifyBool.
From SV Require Import Reconciler.Retries Reconciler.Model Reconciler.RetriesProofs Reconciler.CommitProofs
  Reconciler.RoundProofs Reconciler.CoverProofs Reconciler.StepProofs Reconciler.TableWf Reconciler.StreamProofs
  Reconciler.PhaseProofs Reconciler.BatchProofs Reconciler.RoundInv Reconciler.Runs.
Import ListNotations.
Open Scope N_scope.

(* ================================================================== 1. user writes *)
(* the primitive effects of a user write on the table:
   us_new: an object with a freshly drawn status id, not in Error (put, refresh, re-pend);
   us_re : the live object of a key is written back with the other writers' data changed (bump_aux: the
           status write of another reconciler);
   us_del: deletion. *)
Inductive ustep : table -> table -> Prop :=
| us_refl : forall t, ustep t t
| us_new : forall t o, o_sid o = t_nextid t -> o_kind o <> Error -> ustep t (t_insert (fst (t_fresh_id t)) o)
| us_re : forall t k o r, t_live t k = Some (o, r) -> ustep t (t_insert t (bump_aux o))
| us_del : forall t k, ustep t (t_delete t k)
| us_trans : forall t1 t2 t3, ustep t1 t2 -> ustep t2 t3 -> ustep t1 t3.

Lemma w_put_ustep : forall e k, ustep (e_tab e) (e_tab (w_put e k)).
Proof.
  intros e k. unfold w_put, t_fresh_id. cbn [bump_ver e_tab e_ver add_urev set_tab].
  apply (us_new (e_tab e) (mkObj k (e_ver e + 1) Pending (t_nextid (e_tab e))
                                 (match t_live (e_tab e) k with Some (o, _) => o_aux o | None => 0 end)));
    cbn; [reflexivity|discriminate].
Qed.
Lemma w_del_ustep : forall e k, ustep (e_tab e) (e_tab (w_del e k)).
Proof.
  intros e k. unfold w_del. destruct (t_live (e_tab e) k); [|apply us_refl]. cbn [add_urev set_tab e_tab]. apply us_del.
Qed.
Lemma w_stat_ustep : forall g e k, ustep (e_tab e) (e_tab (w_stat g e k)).
Proof.
  intros g e k. unfold w_stat. destruct (t_live (e_tab e) k) as [[o r]|] eqn:El; [|apply us_refl].
  match goal with |- ustep _ (e_tab (if ?b then _ else _)) => destruct b end; [apply us_refl|].
  cbn [add_urev set_tab e_tab]. apply (us_re _ k o r). exact El.
Qed.
Lemma w_ref_ustep : forall e k, ustep (e_tab e) (e_tab (w_ref e k)).
Proof.
  intros e k. unfold w_ref. destruct (t_live (e_tab e) k) as [[o r]|]; [|apply us_refl].
  destruct (o_kind o); try apply us_refl.
  unfold t_fresh_id. cbn [add_urev set_tab e_tab].
  apply (us_new (e_tab e) (with_status o Refreshing (t_nextid (e_tab e)))); cbn; [reflexivity|discriminate].
Qed.
Lemma w_pend_ustep : forall e k, ustep (e_tab e) (e_tab (w_pend e k)).
Proof.
  intros e k. unfold w_pend. destruct (t_live (e_tab e) k) as [[o r]|]; [|apply us_refl].
  unfold t_fresh_id. cbn [add_urev set_tab e_tab].
  apply (us_new (e_tab e) (with_status o Pending (t_nextid (e_tab e)))); cbn; [reflexivity|discriminate].
Qed.

Lemma do_write_ustep : forall e kind k, ustep (e_tab e) (e_tab (do_write e kind k)).
Proof.
  intros e kind k. unfold do_write.
  destruct kind as [|[[p|[p|p|]|]|[p|[p|p|]|]|]];
    first [ apply (us_trans _ (e_tab (w_del e k))); [apply w_del_ustep|apply w_put_ustep]
          | apply w_put_ustep | apply w_del_ustep | apply w_stat_ustep
          | apply w_ref_ustep | apply w_pend_ustep ].
Qed.

(* the table t' is obtained from t by a sequence of user writes (harness doWrite) on keys in K, nothing
   else *)
Inductive user_writes_in (K : N -> Prop) : table -> table -> Prop :=
| uw_refl : forall t, user_writes_in K t t
| uw_step : forall t e kind k, K k -> user_writes_in K t (e_tab e) -> user_writes_in K t (e_tab (do_write e kind k)).
Definition user_writes : table -> table -> Prop := user_writes_in (fun _ => True).

Lemma user_writes_in_trans : forall K a b c, user_writes_in K a b -> user_writes_in K b c -> user_writes_in K a c.
Proof. intros K a b c H1 H2. induction H2; [exact H1|apply uw_step; [assumption|apply IHuser_writes_in; exact H1]]. Qed.

Lemma user_writes_in_mono : forall (K K' : N -> Prop) t t', (forall k, K k -> K' k) -> user_writes_in K t t' -> user_writes_in K' t t'.
Proof. intros K K' t t' H U. induction U; [apply uw_refl|apply uw_step; [apply H; assumption|exact IHU]]. Qed.

Lemma user_writes_in_all : forall K t t', user_writes_in K t t' -> user_writes t t'.
Proof. intros K t t' U. apply (user_writes_in_mono K); [intros; exact I|exact U]. Qed.

Lemma user_writes_ustep : forall K t t', user_writes_in K t t' -> ustep t t'.
Proof.
  intros K t t' H. induction H; [apply us_refl|].
  apply (us_trans _ (e_tab e)); [exact IHuser_writes_in|apply do_write_ustep].
Qed.

(* no key to write to: nothing is written *)
Lemma user_writes_in_none : forall t t', user_writes_in (fun _ => False) t t' -> t' = t.
Proof. intros t t' H. induction H; [reflexivity|contradiction]. Qed.

(* the keys the registered hooks write to *)
Definition hooks_in (K : N -> Prop) (e : env) : Prop :=
  forall k n wk k2, In (k, n, (wk, k2)) (e_hooks e) -> K k2.
Definition hook_keys (e : env) (k2 : N) : Prop := exists k n wk, In (k, n, (wk, k2)) (e_hooks e).
Lemma hooks_in_keys : forall e, hooks_in (hook_keys e) e.
Proof. intros e k n wk k2 H. exists k, n, wk. exact H. Qed.
Lemma hooks_in_eq : forall (K : N -> Prop) e e', e_hooks e' = e_hooks e -> hooks_in K e -> hooks_in K e'.
Proof. intros K e e' H A. unfold hooks_in. rewrite H. exact A. Qed.

Lemma run_hooks_uw : forall (K : N -> Prop) hs k n e t, (forall k0 n0 wk k2, In (k0, n0, (wk, k2)) hs -> K k2) ->
  user_writes_in K t (e_tab e) ->
  user_writes_in K t (e_tab (run_hooks hs k n e)) /\ e_hooks (run_hooks hs k n e) = e_hooks e.
Proof.
  intros K. induction hs as [|[[k' n'] [wk k2]] r IH]; intros k n e t HK H; cbn [run_hooks]; [split; [exact H|reflexivity]|].
  assert (HK' : forall k0 n0 wk0 k3, In (k0, n0, (wk0, k3)) r -> K k3) by (intros; eapply HK; right; eassumption).
  destruct ((k' =? k) && (n' =? n)).
  - destruct (IH k n (do_write e wk k2) t HK') as [A B].
    + apply uw_step; [apply (HK k' n' wk k2); left; reflexivity|exact H].
    + split; [exact A|]. rewrite B. destruct (do_write_frame e wk k2) as [_ [_ [F _]]]. exact F.
  - apply IH; assumption.
Qed.

(* a scripted operation moves the table by the writes of the hooks only; the hooks stay registered *)
Lemma do_call_uw : forall (K : N -> Prop) e snap fresh op o rev e' ok, do_call e snap fresh op o rev = (e', ok) -> hooks_in K e ->
  forall t, user_writes_in K t (e_tab e) -> user_writes_in K t (e_tab e') /\ e_hooks e' = e_hooks e.
Proof.
  intros K e snap fresh op o rev e' ok H HK t U. unfold do_call in H.
  destruct fresh; injection H as H1 H2; subst e'; cbn [e_tab e_hooks].
  - match goal with |- user_writes_in K t (e_tab (run_hooks ?h2 ?k2 ?n2 (run_hooks ?h1 ?k1 ?n1 ?E1))) /\ _ =>
      destruct (run_hooks_uw K h1 k1 n1 E1 t HK U) as [A1 B1];
      assert (HK2 : forall k0 n0 wk k3, In (k0, n0, (wk, k3)) h2 -> K k3) by (cbn [e_hooks] in B1; rewrite B1; exact HK);
      destruct (run_hooks_uw K h2 k2 n2 (run_hooks h1 k1 n1 E1) t HK2 A1) as [A2 B2] end.
    split; [exact A2|]. rewrite B2, B1. reflexivity.
  - match goal with |- user_writes_in K t (e_tab (run_hooks ?h1 ?k1 ?n1 ?E1)) /\ _ =>
      destruct (run_hooks_uw K h1 k1 n1 E1 t HK U) as [A1 B1] end.
    split; [exact A1|]. rewrite B1. reflexivity.
Qed.

Lemma ustep_wstep : forall t t', ustep t t' -> twf t -> wstep t t'.
Proof.
  intros t t' H. induction H; intro W.
  - apply ws_refl.
  - apply (ws_trans _ (fst (t_fresh_id t))); [apply ws_id|]. apply ws_ins. intro E. contradiction.
  - apply ws_ins. intros He. exists o, r. apply t_live_slot in H.
    change (o_pk (bump_aux o)) with (o_pk o). rewrite (twf_keyed _ W k o r H). split; [exact H|exact He].
  - apply ws_del.
  - apply (ws_trans _ t2); [apply IHustep1; exact W|]. apply IHustep2. apply (wstep_twf _ _ (IHustep1 W) W).
Qed.

Lemma ustep_twf : forall t t', ustep t t' -> twf t -> twf t'.
Proof. intros t t' H W. apply (wstep_twf _ _ (ustep_wstep _ _ H W) W). Qed.
Lemma ustep_rev : forall t t', ustep t t' -> twf t -> t_rev t <= t_rev t'.
Proof. intros t t' H W. apply (wstep_rev _ _ (ustep_wstep _ _ H W)). Qed.
(* ================================================================== 2. ids, and what items/results know *)
(* status ids identify payload versions: there is a function f from the ids drawn so far to payload
   versions such that every object around carries the version of its id *)
Definition okobj (f : N -> N) (n : N) (o : obj) : Prop := o_ver o = f (o_sid o) /\ o_sid o < n.
Definition ext (f : N -> N) (n : N) (f' : N -> N) (n' : N) : Prop := n <= n' /\ forall i, i < n -> f' i = f i.
Definition tab_ids (f : N -> N) (t : table) : Prop :=
  forall k sl, slot_of t k = Some sl -> okobj f (t_nextid t) (slot_obj sl).

Lemma ext_refl : forall f n, ext f n f n.
Proof. intros. split; [lia|reflexivity]. Qed.
Lemma ext_trans : forall f1 n1 f2 n2 f3 n3, ext f1 n1 f2 n2 -> ext f2 n2 f3 n3 -> ext f1 n1 f3 n3.
Proof.
  intros f1 n1 f2 n2 f3 n3 [A1 A2] [B1 B2]. split; [lia|]. intros i Hi. rewrite B2 by lia. apply A2. exact Hi.
Qed.
Lemma okobj_ext : forall f n f' n' o, ext f n f' n' -> okobj f n o -> okobj f' n' o.
Proof. intros f n f' n' o [A B] [C D]. split; [rewrite B by exact D; exact C|lia]. Qed.
Lemma okobj_same_id : forall f n o1 o2, okobj f n o1 -> okobj f n o2 -> o_sid o1 = o_sid o2 -> o_ver o1 = o_ver o2.
Proof. intros f n o1 o2 [A _] [B _] E. rewrite A, B, E. reflexivity. Qed.

Definition upd_fun (f : N -> N) (i v : N) : N -> N := fun j => if j =? i then v else f j.
Lemma ext_upd : forall f n v, ext f n (upd_fun f n v) (n + 1).
Proof.
  intros f n v. split; [lia|]. intros i Hi. unfold upd_fun. destruct (i =? n) eqn:E; [apply N.eqb_eq in E; lia|reflexivity].
Qed.

Lemma slot_fresh : forall t k, slot_of (fst (t_fresh_id t)) k = slot_of t k.
Proof. reflexivity. Qed.

Lemma tab_ids_insert_fresh : forall f t o, tab_ids f t -> o_sid o = t_nextid t ->
  tab_ids (upd_fun f (t_nextid t) (o_ver o)) (t_insert (fst (t_fresh_id t)) o).
Proof.
  intros f t o T Hs k sl H. cbn [t_insert t_nextid t_fresh_id fst].
  destruct (N.eq_dec k (o_pk o)) as [E|E].
  - subst k. rewrite slot_insert_same in H. injection H as H. subst sl. cbn [slot_obj].
    split; [unfold upd_fun; rewrite Hs, N.eqb_refl; reflexivity|lia].
  - rewrite slot_insert_other in H by exact E. rewrite slot_fresh in H.
    apply (okobj_ext f (t_nextid t)); [apply ext_upd|apply (T k sl H)].
Qed.

Lemma ustep_ids : forall t t', ustep t t' -> forall f, twf t -> tab_ids f t ->
  exists f', ext f (t_nextid t) f' (t_nextid t') /\ tab_ids f' t'.
Proof.
  intros t t' H. induction H; intros f W T.
  - exists f. split; [apply ext_refl|exact T].
  - exists (upd_fun f (t_nextid t) (o_ver o)). split; [apply ext_upd|apply tab_ids_insert_fresh; assumption].
  - exists f. split; [apply ext_refl|]. intros k0 sl Hs. cbn [t_insert t_nextid].
    destruct (N.eq_dec k0 (o_pk (bump_aux o))) as [E|E].
    + subst k0. rewrite slot_insert_same in Hs. injection Hs as Hs. subst sl. cbn [slot_obj].
      apply t_live_slot in H. exact (T k _ H).
    + rewrite slot_insert_other in Hs by exact E. apply (T k0 sl Hs).
  - exists f. destruct (t_delete_cases t k) as [[o [r [A B]]]|[_ B]]; rewrite B; [|split; [apply ext_refl|exact T]].
    split; [apply ext_refl|]. intros k0 sl Hs. cbn [tset t_nextid].
    destruct (N.eq_dec k0 k) as [E|E].
    + subst k0. rewrite slot_tset_same in Hs. injection Hs as Hs. subst sl. apply (T k _ A).
    + rewrite slot_tset_other in Hs by exact E. apply (T k0 sl Hs).
  - destruct (IHustep1 f W T) as [f2 [E2 T2]].
    destruct (IHustep2 f2 (ustep_twf _ _ H W) T2) as [f3 [E3 T3]].
    exists f3. split; [apply (ext_trans _ _ _ _ _ _ E2 E3)|exact T3].
Qed.

(* J1: (o, rev) still identifies a version: whatever the table holds at revision rev under o's key has
   o's payload AND o's data of the other writers (every write, also a foreign status write, draws a new
   revision).  J2: an object of that key in Error has o's payload (only commitStatus writes Error; its
   o_aux may have been changed by a foreign status write meanwhile). *)
Definition J1 (t : table) (o : obj) (rev : N) : Prop :=
  rev <= t_rev t /\ forall cur, t_live t (o_pk o) = Some (cur, rev) -> o_ver cur = o_ver o /\ o_aux cur = o_aux o.
Definition J2 (t : table) (o : obj) : Prop :=
  forall cur rv, t_live t (o_pk o) = Some (cur, rv) -> o_kind cur = Error -> o_ver cur = o_ver o.

Lemma live_insert_same : forall t o, t_live (t_insert t o) (o_pk o) = Some (o, t_rev t + 1).
Proof. intros. apply t_live_slot. apply slot_insert_same. Qed.
Lemma live_insert_other : forall t o k, k <> o_pk o -> t_live (t_insert t o) k = t_live t k.
Proof.
  intros t o k H. unfold t_live. change (aget k (t_slots (t_insert t o))) with (slot_of (t_insert t o) k).
  rewrite slot_insert_other by exact H. reflexivity.
Qed.
Lemma live_delete : forall t k k' o r, t_live (t_delete t k) k' = Some (o, r) -> t_live t k' = Some (o, r).
Proof.
  intros t k k' o r H. destruct (t_delete_cases t k) as [[o0 [r0 [A B]]]|[_ B]]; rewrite B in H; [|exact H].
  apply t_live_slot in H. apply t_live_slot. destruct (N.eq_dec k' k) as [E|E].
  - subst k'. rewrite slot_tset_same in H. discriminate.
  - rewrite slot_tset_other in H by exact E. exact H.
Qed.

Lemma J1_frame : forall t t' o rev, t_live t' (o_pk o) = t_live t (o_pk o) -> t_rev t <= t_rev t' -> J1 t o rev -> J1 t' o rev.
Proof. intros t t' o rev H M [A B]. split; [lia|]. rewrite H. exact B. Qed.
Lemma J2_frame : forall t t' o, t_live t' (o_pk o) = t_live t (o_pk o) -> J2 t o -> J2 t' o.
Proof. intros t t' o H B. unfold J2. rewrite H. exact B. Qed.

Lemma ustep_J1 : forall t t', ustep t t' -> forall o rev, twf t -> J1 t o rev -> J1 t' o rev.
Proof.
  intros t t' H. induction H; intros x rev W [A B].
  - split; assumption.
  - split; [cbn; lia|]. intros cur Hl. destruct (N.eq_dec (o_pk x) (o_pk o)) as [E|E].
    + rewrite E, live_insert_same in Hl. injection Hl as H1 H2. cbn in H2. lia.
    + rewrite live_insert_other in Hl by exact E. apply B. exact Hl.
  - split; [cbn; lia|]. intros cur Hl. destruct (N.eq_dec (o_pk x) (o_pk (bump_aux o))) as [E|E].
    + rewrite E, live_insert_same in Hl. injection Hl as H1 H2. lia.
    + rewrite live_insert_other in Hl by exact E. apply B. exact Hl.
  - split; [pose proof (t_rev_delete t k); lia|]. intros cur Hl. apply B. apply (live_delete _ _ _ _ _ Hl).
  - apply IHustep2; [apply (ustep_twf _ _ H W)|]. apply IHustep1; [exact W|split; assumption].
Qed.

Lemma ustep_J2 : forall t t', ustep t t' -> forall o, twf t -> J2 t o -> J2 t' o.
Proof.
  intros t t' H. induction H; intros x W B.
  - exact B.
  - intros cur rv Hl He. destruct (N.eq_dec (o_pk x) (o_pk o)) as [E|E].
    + rewrite E, live_insert_same in Hl. injection Hl as H1 H2. subst cur. contradiction.
    + rewrite live_insert_other in Hl by exact E. apply (B cur rv Hl He).
  - intros cur rv Hl He. destruct (N.eq_dec (o_pk x) (o_pk (bump_aux o))) as [E|E].
    + rewrite E, live_insert_same in Hl. injection Hl as H1 H2. subst cur.
      assert (K : o_pk o = k) by (apply (twf_keyed _ W k o r); apply t_live_slot; exact H).
      apply (B o r); [rewrite E; change (o_pk (bump_aux o)) with (o_pk o); rewrite K; exact H|exact He].
    + rewrite live_insert_other in Hl by exact E. apply (B cur rv Hl He).
  - intros cur rv Hl He. apply (B cur rv); [apply (live_delete _ _ _ _ _ Hl)|exact He].
  - apply IHustep2; [apply (ustep_twf _ _ H W)|]. apply IHustep1; assumption.
Qed.
(* ================================================================== 3. the retry queue outside the commit *)
(* every update item of q' is an update item of q (same key, object, revision): the queue operations of
   the two phases (Clear, Pop, Add of a DELETE retry) never create an update item *)
Definition usub (q' q : retries) : Prop :=
  forall pk it', find_item pk (q_items q') = Some it' -> ri_del it' = false ->
    exists it, find_item pk (q_items q) = Some it /\ ri_del it = false /\ ri_obj it = ri_obj it' /\ ri_rev it = ri_rev it'.

Lemma usub_refl : forall q, usub q q.
Proof. intros q pk it H D. exists it. repeat split; assumption. Qed.
Lemma usub_trans : forall a b c, usub a b -> usub b c -> usub a c.
Proof.
  intros a b c H1 H2 pk it Hf Hd. destruct (H1 pk it Hf Hd) as [i1 [A [B [C D]]]].
  destruct (H2 pk i1 A B) as [i2 [A2 [B2 [C2 D2]]]]. exists i2. repeat split; congruence.
Qed.
Lemma usub_clear : forall q k, usub (r_clear q k) q.
Proof.
  intros q k pk it Hf Hd. destruct (find_clear_cases _ _ _ _ Hf) as [_ A]. exists it. repeat split; assumption.
Qed.
Lemma usub_add_del : forall q o rev orig now, usub (r_add q o rev orig true now) q.
Proof.
  intros q o rev orig now pk it Hf Hd. destruct (N.eq_dec pk (o_pk o)) as [E|E].
  - subst pk. destruct (add_item_spec q o rev orig true now) as [i2 [A [_ [_ [_ [B _]]]]]].
    rewrite A in Hf. injection Hf as Hf. subst i2. congruence.
  - rewrite add_other in Hf by exact E. exists it. repeat split; assumption.
Qed.
Lemma usub_pop : forall q, uniq q -> usub (r_pop q) q.
Proof.
  intros q U pk it Hf Hd. destruct (r_top q) as [t|] eqn:Et.
  - destruct (N.eq_dec pk (ri_pk t)) as [E|E].
    + subst pk. rewrite (popped_find q t U Et) in Hf. injection Hf as Hf. subst it. cbn in Hd.
      exists t. split; [|repeat split; try reflexivity; exact Hd].
      apply find_item_uniq; [exact U|]. destruct (top_of_spec _ _ Et) as [A _]. exact A.
    + rewrite find_pop_other in Hf; [exists it; repeat split; assumption|exact U|].
      intros t0 Ht0. rewrite Et in Ht0. injection Ht0 as X. subst t0. congruence.
  - rewrite pop_items in Hf. unfold r_top in Et. rewrite Et in Hf. exists it. repeat split; assumption.
Qed.

(* the state invariant: well-formed table, unique item keys, ids identify versions in the table and in the
   update items, every update item still identifies its version and matches an Error object of its key *)
Definition items_ok (f : N -> N) (t : table) (q : retries) : Prop :=
  forall pk it, find_item pk (q_items q) = Some it -> ri_del it = false ->
    okobj f (t_nextid t) (ri_obj it) /\ J1 t (ri_obj it) (ri_rev it) /\ J2 t (ri_obj it).
Definition sinv (f : N -> N) (t : table) (q : retries) : Prop :=
  twf t /\ uniq q /\ tab_ids f t /\ items_ok f t q.

Lemma items_ok_usub : forall f t q q', usub q' q -> items_ok f t q -> items_ok f t q'.
Proof.
  intros f t q q' S I pk it Hf Hd. destruct (S pk it Hf Hd) as [i0 [A [B [C D]]]].
  destruct (I pk i0 A B) as [X [Y Z]]. rewrite <- C, <- D. split; [exact X|split; [exact Y|exact Z]].
Qed.

Lemma items_ok_ustep : forall f t q t' f', twf t -> ustep t t' -> ext f (t_nextid t) f' (t_nextid t') ->
  items_ok f t q -> items_ok f' t' q.
Proof.
  intros f t q t' f' W U E I pk it Hf Hd. destruct (I pk it Hf Hd) as [X [Y Z]].
  split; [apply (okobj_ext _ _ _ _ _ E X)|]. split; [apply (ustep_J1 _ _ U _ _ W Y)|apply (ustep_J2 _ _ U _ W Z)].
Qed.

(* user writes and queue shrinking keep the state invariant (the id function grows) *)
Lemma sinv_move : forall f t q t' q', sinv f t q -> ustep t t' -> usub q' q -> uniq q' ->
  exists f', ext f (t_nextid t) f' (t_nextid t') /\ sinv f' t' q'.
Proof.
  intros f t q t' q' [W [U [T I]]] S Q U'.
  destruct (ustep_ids _ _ S f W T) as [f' [E T']]. exists f'. split; [exact E|].
  split; [apply (ustep_twf _ _ S W)|]. split; [exact U'|]. split; [exact T'|].
  apply (items_ok_usub _ _ q); [exact Q|]. apply (items_ok_ustep f t q t' f' W S E I).
Qed.
(* ================================================================== 4. the status commit *)
(* the three outcomes of one commitStatus iteration, structurally; a failed operation whose status was
   written is queued with result.original: the reconciled object after the CompareAndSwap, the object just
   inserted after the fallback (fix 1583841) *)
Lemma commit_one_cases : forall fixed efb now t q r t' q',
  commit_one fixed efb now (t, q) r = (t', q') ->
  let t1 := fst (t_fresh_id t) in
  let st := if r_ok r then Done else Error in
  let pk := o_pk (r_obj r) in
  let qa o := if r_ok r then q else r_add q o (t_rev t + 1) (if fixed then r_orig r else r_rev r) false now in
  (t' = t1 /\ q' = q /\
     forall cur rv, t_live t pk = Some (cur, rv) -> rv <> r_rev r /\ fallback_ok efb cur r = false) \/
  (exists cur, t_live t pk = Some (cur, r_rev r) /\
     t' = t_insert t1 (with_status (r_obj r) st (t_nextid t)) /\ q' = qa (r_obj r)) \/
  (exists cur rv, t_live t pk = Some (cur, rv) /\ rv <> r_rev r /\ fallback_ok efb cur r = true /\
     t' = t_insert t1 (with_status cur st (t_nextid t)) /\ q' = qa (with_status cur st (t_nextid t))).
Proof.
  intros fixed efb now t q r t' q' H. cbv zeta.
  unfold commit_one, t_fresh_id, t_cas in H. unfold t_fresh_id. cbn [fst].
  set (t1 := mkTable (t_slots t) (t_rev t) (t_nextid t + 1) (t_pendinit t)) in *.
  assert (L1 : forall st, t_live t1 (o_pk (with_status (r_obj r) st (t_nextid t))) = t_live t (o_pk (r_obj r))) by reflexivity.
  rewrite L1 in H. clear L1.
  destruct (t_live t (o_pk (r_obj r))) as [[cur rv]|] eqn:EL.
  - destruct (rv =? r_rev r) eqn:Erv.
    + apply N.eqb_eq in Erv. subst rv. right. left. exists cur. split; [reflexivity|].
      destruct (r_ok r) eqn:Eok; cbn [negb andb] in H; injection H as H1 H2; subst t' q'; split; reflexivity.
    + apply N.eqb_neq in Erv. destruct (fallback_ok efb cur r) eqn:Ef.
      * right. right. exists cur, rv. split; [reflexivity|]. split; [exact Erv|]. split; [exact Ef|].
        destruct (r_ok r) eqn:Eok; cbn [negb andb] in H; injection H as H1 H2; subst t' q'; split; reflexivity.
      * left. rewrite andb_false_r in H. injection H as H1 H2. subst t' q'. split; [reflexivity|]. split; [reflexivity|].
        intros c0 v0 Hc. injection Hc as Hc1 Hc2. subst c0 v0. split; assumption.
  - left. rewrite andb_false_r in H. injection H as H1 H2. subst t' q'. split; [reflexivity|]. split; [reflexivity|].
    intros c0 v0 Hc. discriminate.
Qed.

(* the variant before fix 1583841 differs in one place only: after the fallback the STALE reconciled object
   is queued *)
Lemma commit_one_stale_cases : forall fixed efb now t q r t' q',
  commit_one_stale fixed efb now (t, q) r = (t', q') ->
  let t1 := fst (t_fresh_id t) in
  let st := if r_ok r then Done else Error in
  let pk := o_pk (r_obj r) in
  let qa o := if r_ok r then q else r_add q o (t_rev t + 1) (if fixed then r_orig r else r_rev r) false now in
  (t' = t1 /\ q' = q /\
     forall cur rv, t_live t pk = Some (cur, rv) -> rv <> r_rev r /\ fallback_ok efb cur r = false) \/
  (exists cur, t_live t pk = Some (cur, r_rev r) /\
     t' = t_insert t1 (with_status (r_obj r) st (t_nextid t)) /\ q' = qa (r_obj r)) \/
  (exists cur rv, t_live t pk = Some (cur, rv) /\ rv <> r_rev r /\ fallback_ok efb cur r = true /\
     t' = t_insert t1 (with_status cur st (t_nextid t)) /\ q' = qa (r_obj r)).
Proof.
  intros fixed efb now t q r t' q' H. cbv zeta.
  unfold commit_one_stale, t_fresh_id, t_cas in H. unfold t_fresh_id. cbn [fst].
  set (t1 := mkTable (t_slots t) (t_rev t) (t_nextid t + 1) (t_pendinit t)) in *.
  assert (L1 : forall st, t_live t1 (o_pk (with_status (r_obj r) st (t_nextid t))) = t_live t (o_pk (r_obj r))) by reflexivity.
  rewrite L1 in H. clear L1.
  destruct (t_live t (o_pk (r_obj r))) as [[cur rv]|] eqn:EL.
  - destruct (rv =? r_rev r) eqn:Erv.
    + apply N.eqb_eq in Erv. subst rv. right. left. exists cur. split; [reflexivity|].
      destruct (r_ok r) eqn:Eok; cbn [negb andb] in H; injection H as H1 H2; subst t' q'; split; reflexivity.
    + apply N.eqb_neq in Erv. destruct (fallback_ok efb cur r) eqn:Ef.
      * right. right. exists cur, rv. split; [reflexivity|]. split; [exact Erv|]. split; [exact Ef|].
        destruct (r_ok r) eqn:Eok; cbn [negb andb] in H; injection H as H1 H2; subst t' q'; split; reflexivity.
      * left. rewrite andb_false_r in H. injection H as H1 H2. subst t' q'. split; [reflexivity|]. split; [reflexivity|].
        intros c0 v0 Hc. injection Hc as Hc1 Hc2. subst c0 v0. split; assumption.
  - left. rewrite andb_false_r in H. injection H as H1 H2. subst t' q'. split; [reflexivity|]. split; [reflexivity|].
    intros c0 v0 Hc. discriminate.
Qed.

(* what a result must know about the table the commit starts from *)
Definition res_ok (f : N -> N) (t : table) (r : opres) : Prop :=
  r_id r = o_sid (r_obj r) /\ okobj f (t_nextid t) (r_obj r) /\ J1 t (r_obj r) (r_rev r) /\
  (r_rev r <> r_orig r -> J2 t (r_obj r)).

Lemma res_ok_identifies : forall f t r, res_ok f t r -> rev_identifies t r.
Proof. intros f t r [_ [_ [[_ B] _]]]. exact B. Qed.

Lemma twf_fresh : forall t, twf t -> twf (fst (t_fresh_id t)).
Proof. intros t W. apply (twf_ext t); [reflexivity|reflexivity|exact W]. Qed.
Lemma live_fresh : forall t k, t_live (fst (t_fresh_id t)) k = t_live t k.
Proof. reflexivity. Qed.

(* the write of a status commit: object x (payload and foreign data of the object stored under its key)
   with a fresh id; if a retry is queued for the key, it is for the written object at the written revision *)
Lemma sinv_status_write : forall f t q x st cur rv qa,
  sinv f t q -> t_live t (o_pk x) = Some (cur, rv) -> o_ver x = o_ver cur ->
  uniq qa ->
  (forall pk it, find_item pk (q_items qa) = Some it -> ri_del it = false ->
     (pk <> o_pk x /\ find_item pk (q_items q) = Some it) \/
     (pk = o_pk x /\ st <> Error /\ find_item pk (q_items q) = Some it) \/
     (pk = o_pk x /\ okobj (upd_fun f (t_nextid t) (o_ver x)) (t_nextid t + 1) (ri_obj it) /\
      o_pk (ri_obj it) = o_pk x /\ o_ver (ri_obj it) = o_ver x /\ o_aux (ri_obj it) = o_aux x /\
      ri_rev it = t_rev t + 1)) ->
  let t' := t_insert (fst (t_fresh_id t)) (with_status x st (t_nextid t)) in
  let f' := upd_fun f (t_nextid t) (o_ver x) in
  ext f (t_nextid t) f' (t_nextid t') /\ sinv f' t' qa.
Proof.
  intros f t q x st cur rv qa [W [U [T I]]] Hl Hv Ua Hq. cbv zeta.
  set (x' := with_status x st (t_nextid t)).
  assert (Hpk : o_pk x' = o_pk x) by reflexivity.
  assert (E : ext f (t_nextid t) (upd_fun f (t_nextid t) (o_ver x)) (t_nextid t + 1)) by apply ext_upd.
  split; [exact E|].
  split; [rewrite t_insert_tset; apply twf_tset; [apply twf_fresh; exact W|reflexivity|reflexivity]|].
  split; [exact Ua|]. split; [apply (tab_ids_insert_fresh f t x' T); reflexivity|].
  intros pk it Hf Hd.
  assert (Lsame : t_live (t_insert (fst (t_fresh_id t)) x') (o_pk x) = Some (x', t_rev t + 1)).
  { exact (live_insert_same (fst (t_fresh_id t)) x'). }
  assert (Loth : forall k, k <> o_pk x -> t_live (t_insert (fst (t_fresh_id t)) x') k = t_live t k).
  { intros k Hk. rewrite live_insert_other by (rewrite Hpk; exact Hk). apply live_fresh. }
  destruct (Hq pk it Hf Hd) as [[A B]|[[A [B C]]|[A [B [C [D [D2 F]]]]]]].
  - destruct (I pk it B Hd) as [X [Y Z]]. destruct (find_item_in _ _ _ B) as [_ Kp]. unfold ri_pk in Kp.
    split; [apply (okobj_ext _ _ _ _ _ E X)|]. split.
    + apply (J1_frame t); [rewrite Kp; apply Loth; exact A|cbn; lia|exact Y].
    + apply (J2_frame t); [rewrite Kp; apply Loth; exact A|exact Z].
  - destruct (I pk it C Hd) as [X [[Y1 Y2] Z]]. destruct (find_item_in _ _ _ C) as [_ Kp]. unfold ri_pk in Kp.
    split; [apply (okobj_ext _ _ _ _ _ E X)|]. split.
    + split; [cbn; lia|]. intros c Hc. rewrite Kp, A, Lsame in Hc. injection Hc as H1 H2. lia.
    + intros c v Hc He. rewrite Kp, A, Lsame in Hc. injection Hc as H1 H2. subst c. cbn in He. contradiction.
  - split; [exact B|]. split.
    + split; [rewrite F; cbn; lia|]. intros c Hc. rewrite C, Lsame in Hc. injection Hc as H1 H2. subst c. cbn.
      split; congruence.
    + intros c v Hc He. rewrite C, Lsame in Hc. injection Hc as H1 H2. subst c. cbn. congruence.
Qed.

Lemma sinv_fresh : forall f t q, sinv f t q -> sinv f (fst (t_fresh_id t)) q.
Proof.
  intros f t q [W [U [T I]]].
  assert (E : ext f (t_nextid t) f (t_nextid t + 1)) by (split; [lia|reflexivity]).
  split; [apply twf_fresh; exact W|]. split; [exact U|]. split.
  - intros k sl Hs. apply (okobj_ext _ _ _ _ _ E). apply (T k sl Hs).
  - intros pk it Hf Hd. destruct (I pk it Hf Hd) as [X [Y Z]].
    split; [apply (okobj_ext _ _ _ _ _ E X)|]. split; [exact Y|exact Z].
Qed.

(* when the fallback applies, the current object has the payload of the reconciled one: either it still
   carries the reconciled pending id (ids identify versions), or it is the Error object of a retry *)
Lemma fallback_same_ver : forall f t q efb r cur rv, sinv f t q -> res_ok f t r ->
  t_live t (o_pk (r_obj r)) = Some (cur, rv) -> fallback_ok efb cur r = true -> o_ver cur = o_ver (r_obj r).
Proof.
  intros f t q efb r cur rv [W [U [T I]]] [R1 [R2 [R3 R4]]] Hl Hf.
  apply fallback_ok_spec in Hf. destruct Hf as [[A B]|[_ [A B]]].
  - apply (okobj_same_id f (t_nextid t)); [|exact R2|congruence].
    apply t_live_slot in Hl. apply (T _ _ Hl).
  - apply (R4 B cur rv Hl A).
Qed.

Lemma res_ok_frame : forall f t f' t' r, ext f (t_nextid t) f' (t_nextid t') ->
  t_live t' (o_pk (r_obj r)) = t_live t (o_pk (r_obj r)) -> t_rev t <= t_rev t' -> res_ok f t r -> res_ok f' t' r.
Proof.
  intros f t f' t' r E L M [R1 [R2 [R3 R4]]]. split; [exact R1|]. split; [apply (okobj_ext _ _ _ _ _ E R2)|].
  split; [apply (J1_frame t); assumption|]. intro Hn. apply (J2_frame t); [exact L|apply R4; exact Hn].
Qed.

Lemma commit_one_sinv : forall fixed efb now f t q r t' q',
  sinv f t q -> res_ok f t r -> commit_one fixed efb now (t, q) r = (t', q') ->
  exists f', ext f (t_nextid t) f' (t_nextid t') /\ sinv f' t' q' /\ t_rev t <= t_rev t' /\
    (forall k, k <> o_pk (r_obj r) -> t_live t' k = t_live t k).
Proof.
  intros fixed efb now f t q r t' q' S R H.
  pose proof S as [W [U [T I]]]. pose proof R as [R1 [R2 [[R3a R3b] R4]]].
  destruct (commit_one_cases _ _ _ _ _ _ _ _ H) as [[A [B _]]|[[cur [A [B C]]]|[cur [rv [A [_ [Hfb [B C]]]]]]]].
  - subst t' q'. exists f. split; [split; [cbn; lia|reflexivity]|]. split; [apply sinv_fresh; exact S|].
    split; [cbn; lia|]. intros k _. apply live_fresh.
  - (* CompareAndSwap on the reconciled revision: the reconciled object is queued *)
    set (qa := if r_ok r then q else r_add q (r_obj r) (t_rev t + 1) (if fixed then r_orig r else r_rev r) false now) in *.
    assert (Ua : uniq qa) by (unfold qa; destruct (r_ok r); [exact U|apply uniq_add; exact U]).
    destruct (sinv_status_write f t q (r_obj r) (if r_ok r then Done else Error) cur (r_rev r) qa S A) as [E S'];
      [symmetry; apply R3b; exact A|exact Ua| |].
    + intros pk it Hf Hd. unfold qa in Hf. destruct (N.eq_dec pk (o_pk (r_obj r))) as [Ek|Ek].
      * destruct (r_ok r); [right; left; split; [exact Ek|split; [discriminate|exact Hf]]|].
        right. right. subst pk.
        destruct (add_item_spec q (r_obj r) (t_rev t + 1) (if fixed then r_orig r else r_rev r) false now) as [i2 [X1 [X2 [X3 _]]]].
        rewrite X1 in Hf. injection Hf as Hf. subst i2. rewrite X2, X3.
        split; [reflexivity|]. split; [apply (okobj_ext f (t_nextid t)); [apply ext_upd|exact R2]|].
        split; [reflexivity|]. split; [reflexivity|]. split; reflexivity.
      * left. split; [exact Ek|]. destruct (r_ok r); [exact Hf|]. rewrite add_other in Hf by exact Ek. exact Hf.
    + subst t' q'. eexists. split; [exact E|]. split; [exact S'|]. split; [cbn; lia|].
      intros k Hk. rewrite live_insert_other by exact Hk. apply live_fresh.
  - (* fallback: the current object gets the status, and it is the object that is queued (fix 1583841) *)
    set (st := if r_ok r then Done else Error) in *.
    set (qa := if r_ok r then q else r_add q (with_status cur st (t_nextid t)) (t_rev t + 1) (if fixed then r_orig r else r_rev r) false now) in *.
    assert (Ua : uniq qa) by (unfold qa; destruct (r_ok r); [exact U|apply uniq_add; exact U]).
    assert (Kc : o_pk cur = o_pk (r_obj r)) by (apply (twf_keyed _ W _ cur rv); apply t_live_slot; exact A).
    destruct (sinv_status_write f t q cur st cur rv qa S) as [E S'];
      [rewrite Kc; exact A|reflexivity|exact Ua| |].
    + intros pk it Hf Hd. unfold qa in Hf. rewrite Kc. destruct (N.eq_dec pk (o_pk (r_obj r))) as [Ek|Ek].
      * destruct (r_ok r); [right; left; split; [exact Ek|split; [unfold st; discriminate|exact Hf]]|].
        right. right. subst pk.
        destruct (add_item_spec q (with_status cur st (t_nextid t)) (t_rev t + 1) (if fixed then r_orig r else r_rev r) false now) as [i2 [X1 [X2 [X3 _]]]].
        cbn [with_status o_pk] in X1. rewrite Kc in X1. rewrite X1 in Hf. injection Hf as Hf. subst i2. rewrite X2, X3.
        split; [reflexivity|]. split.
        { split; [cbn; unfold upd_fun; rewrite N.eqb_refl; reflexivity|cbn; lia]. }
        split; [exact Kc|]. split; [reflexivity|]. split; reflexivity.
      * left. split; [exact Ek|]. destruct (r_ok r); [exact Hf|].
        rewrite add_other in Hf by (cbn [with_status o_pk]; rewrite Kc; exact Ek). exact Hf.
    + subst t' q'. eexists. split; [exact E|]. split; [exact S'|]. split; [cbn; lia|].
      intros k Hk. rewrite live_insert_other by (cbn [with_status o_pk]; rewrite Kc; exact Hk). apply live_fresh.
Qed.

(* where the code before fix 1583841 breaks the invariant: a FAILED operation whose status commit goes
   through the fallback onto an object whose foreign data differs from the reconciled one (another
   reconciler's status write came in between) leaves a retry item that no longer identifies a version — it
   carries the stale object for the revision at which the table holds the current one. The next successful
   retry then CompareAndSwaps the stale object in (Refuted.stale_retry_clobbers_refuted). *)
Lemma stale_fallback_breaks_J1 : forall fixed efb now t q r t' q' cur rv, twf t ->
  t_live t (o_pk (r_obj r)) = Some (cur, rv) -> rv <> r_rev r -> fallback_ok efb cur r = true ->
  r_ok r = false -> o_aux cur <> o_aux (r_obj r) ->
  commit_one_stale fixed efb now (t, q) r = (t', q') ->
  exists it, find_item (o_pk (r_obj r)) (q_items q') = Some it /\ ri_del it = false /\
             ~ J1 t' (ri_obj it) (ri_rev it).
Proof.
  intros fixed efb now t q r t' q' cur rv W Hl Hrv Hfb Hok Haux H.
  destruct (commit_one_stale_cases _ _ _ _ _ _ _ _ H) as [[_ [_ A]]|[[c2 [A _]]|[c2 [rv2 [A [_ [_ [B C]]]]]]]].
  - destruct (A cur rv Hl) as [_ X]. congruence.
  - rewrite Hl in A. injection A as A1 A2. congruence.
  - rewrite Hl in A. injection A as A1 A2. subst c2 rv2. rewrite Hok in B, C.
    destruct (add_item_spec q (r_obj r) (t_rev t + 1) (if fixed then r_orig r else r_rev r) false now) as [it [X1 [X2 [X3 [_ [X5 _]]]]]].
    exists it. rewrite C. split; [exact X1|]. split; [exact X5|]. rewrite X2, X3. intros [_ J].
    assert (Kc : o_pk cur = o_pk (r_obj r)) by (apply (twf_keyed _ W _ cur rv); apply t_live_slot; exact Hl).
    assert (L : t_live t' (o_pk (r_obj r)) = Some (with_status cur Error (t_nextid t), t_rev t + 1)).
    { rewrite B, <- Kc. exact (live_insert_same (fst (t_fresh_id t)) (with_status cur Error (t_nextid t))). }
    destruct (J _ L) as [_ J2']. apply Haux. exact J2'.
Qed.

(* a whole commitStatus keeps the state invariant *)
Lemma commit_status_sinv : forall fixed efb now res f t q t' q',
  sinv f t q -> NoDup (res_pks res) -> (forall r, In r res -> res_ok f t r) ->
  commit_status_gen fixed efb now t q res = (t', q') ->
  exists f', ext f (t_nextid t) f' (t_nextid t') /\ sinv f' t' q' /\ t_rev t <= t_rev t'.
Proof.
  intros fixed efb now res. unfold commit_status_gen. induction res as [|r rest IH]; intros f t q t' q' S Hnd Hr H.
  - cbn in H. injection H as H1 H2. subst. exists f. split; [apply ext_refl|]. split; [exact S|lia].
  - cbn [fold_left] in H. destruct (commit_one fixed efb now (t, q) r) as [t1 q1] eqn:E1.
    destruct (commit_one_sinv _ _ _ _ _ _ _ _ _ S (Hr r (or_introl eq_refl)) E1) as [f1 [X1 [S1 [M1 L1]]]].
    cbn [res_pks map] in Hnd. inversion Hnd as [|x xs Hx Hrest]; subst.
    destruct (IH f1 t1 q1 t' q' S1 Hrest) as [f2 [X2 [S2 M2]]]; [|exact H|].
    + intros r2 Hin. apply (res_ok_frame f t); [exact X1| |exact M1|apply Hr; right; exact Hin].
      apply L1. intro Heq. apply Hx. rewrite <- Heq. apply (in_map (fun r => o_pk (r_obj r))). exact Hin.
    + exists f2. split; [apply (ext_trans _ _ _ _ _ _ X1 X2)|]. split; [exact S2|lia].
Qed.
(* ================================================================== 5. what the phases do *)
(* ---- (A) to the table: the writes of the hooks only *)
Lemma process_single_uw : forall (K : N -> Prop) e snap fresh q res o rev orig del e' q' res',
  process_single e snap fresh q res o rev orig del = (e', q', res') -> hooks_in K e ->
  forall t, user_writes_in K t (e_tab e) -> user_writes_in K t (e_tab e') /\ e_hooks e' = e_hooks e.
Proof.
  intros K e snap fresh q res o rev orig del e' q' res' H HK t U. unfold process_single in H. destruct del.
  - destruct (do_call e snap fresh 1 o rev) as [e1 ok] eqn:Ec. pose proof (do_call_uw K _ _ _ _ _ _ _ _ Ec HK t U) as U1.
    destruct ok; injection H as H1 H2 H3; subst e'; exact U1.
  - destruct (do_call e snap fresh 0 o rev) as [e1 ok] eqn:Ec. pose proof (do_call_uw K _ _ _ _ _ _ _ _ Ec HK t U) as U1.
    injection H as H1 H2 H3; subst e'; exact U1.
Qed.

Lemma single_uw : forall (K : N -> Prop) chs rs snap e q res nrec lastrev e' q' res' nrec' lastrev',
  single rs snap chs e q res nrec lastrev = (e', q', res', nrec', lastrev') -> hooks_in K e ->
  forall t, user_writes_in K t (e_tab e) -> user_writes_in K t (e_tab e') /\ e_hooks e' = e_hooks e.
Proof.
  intros K. induction chs as [|ch rest IH]; intros rs snap e q res nrec lastrev e' q' res' nrec' lastrev' H HK t U; cbn [single] in H.
  - injection H as H1 H2 H3 H4 H5. subst. split; [exact U|reflexivity].
  - destruct (negb (c_del ch) && negb (is_pending (c_obj ch))); [apply (IH _ _ _ _ _ _ _ _ _ _ _ _ H HK t U)|].
    destruct (process_single e snap true (r_clear q (o_pk (c_obj ch))) res (c_obj ch) (c_rev ch) (c_rev ch) (c_del ch)) as [[e1 q1] res1] eqn:Ep.
    destruct (process_single_uw K _ _ _ _ _ _ _ _ _ _ _ _ Ep HK t U) as [U1 F1].
    destruct (rs <=? nrec + 1).
    + injection H as H1 H2 H3 H4 H5. subst. split; assumption.
    + destruct (IH _ _ _ _ _ _ _ _ _ _ _ _ H (hooks_in_eq K e e1 F1 HK) t U1) as [U2 F2]. split; [exact U2|congruence].
Qed.

Lemma batch_deletes_uw : forall (K : N -> Prop) dl snap e q e' q', batch_deletes snap dl e q = (e', q') -> hooks_in K e ->
  forall t, user_writes_in K t (e_tab e) -> user_writes_in K t (e_tab e') /\ e_hooks e' = e_hooks e.
Proof.
  intros K. induction dl as [|d rest IH]; intros snap e q e' q' H HK t U; cbn [batch_deletes] in H.
  - injection H as H1 H2. subst. split; [exact U|reflexivity].
  - destruct (do_call e snap true 3 (c_obj d) (c_rev d)) as [e1 ok] eqn:Ec.
    destruct (do_call_uw K _ _ _ _ _ _ _ _ Ec HK t U) as [U1 F1].
    destruct (IH _ _ _ _ _ H (hooks_in_eq K e e1 F1 HK) t U1) as [U2 F2]. split; [exact U2|congruence].
Qed.

Lemma batch_update_calls_uw : forall (K : N -> Prop) upds snap e acc e' l, batch_update_calls snap upds e acc = (e', l) -> hooks_in K e ->
  forall t, user_writes_in K t (e_tab e) -> user_writes_in K t (e_tab e') /\ e_hooks e' = e_hooks e.
Proof.
  intros K. induction upds as [|c rest IH]; intros snap e acc e' l H HK t U; cbn [batch_update_calls] in H.
  - injection H as H1 H2. subst. split; [exact U|reflexivity].
  - destruct (do_call e snap true 2 (c_obj c) (c_rev c)) as [e1 ok] eqn:Ec.
    destruct (do_call_uw K _ _ _ _ _ _ _ _ Ec HK t U) as [U1 F1].
    destruct (IH _ _ _ _ _ H (hooks_in_eq K e e1 F1 HK) t U1) as [U2 F2]. split; [exact U2|congruence].
Qed.

Lemma phase1_uw : forall (K : N -> Prop) cf snap chs e q e1 q1 res1 nrec1 lastrev1,
  phase1 cf snap chs e q = (e1, q1, res1, nrec1, lastrev1) -> hooks_in K e ->
  user_writes_in K (e_tab e) (e_tab e1) /\ e_hooks e1 = e_hooks e.
Proof.
  intros K cf snap chs e q e1 q1 res1 nrec1 lastrev1 H HK. unfold phase1 in H. destruct (cf_batch cf).
  - destruct (batch_collect (cf_rs cf) chs q [] [] 0 0) as [[[[qa dels] upds] nrec] lastrev] eqn:HC.
    destruct (batch_deletes snap dels e qa) as [e2 q2] eqn:HD.
    destruct (batch_update_calls snap upds e2 []) as [e3 l] eqn:HU.
    destruct (batch_results l q2 []) as [q4 res] eqn:HR.
    injection H as H1 H2 H3 H4 H5. subst e1 q1 res1 nrec1 lastrev1.
    destruct (batch_deletes_uw K _ _ _ _ _ _ HD HK _ (uw_refl K (e_tab e))) as [U1 F1].
    destruct (batch_update_calls_uw K _ _ _ _ _ _ HU (hooks_in_eq K e e2 F1 HK) _ U1) as [U2 F2].
    split; [exact U2|congruence].
  - apply (single_uw K _ _ _ _ _ _ _ _ _ _ _ _ _ H HK). apply uw_refl.
Qed.

Lemma process_retries_uw : forall (K : N -> Prop) fuel rs snap e q res nrec e' q' res' nrec',
  process_retries fuel rs snap e q res nrec = (e', q', res', nrec') -> hooks_in K e ->
  forall t, user_writes_in K t (e_tab e) -> user_writes_in K t (e_tab e') /\ e_hooks e' = e_hooks e.
Proof.
  intros K. induction fuel as [|fu IH]; intros rs snap e q res nrec e' q' res' nrec' H HK t U; cbn [process_retries] in H.
  - injection H as H1 H2 H3 H4. subst. split; [exact U|reflexivity].
  - destruct (nrec <? rs); [|injection H as H1 H2 H3 H4; subst; split; [exact U|reflexivity]].
    destruct (r_top q) as [it|]; [|injection H as H1 H2 H3 H4; subst; split; [exact U|reflexivity]].
    destruct (e_now e <? ri_at it); [injection H as H1 H2 H3 H4; subst; split; [exact U|reflexivity]|].
    destruct (process_single e snap false (r_pop q) res (ri_obj it) (ri_rev it) (ri_orig it) (ri_del it)) as [[e1 q1] res1] eqn:Ep.
    destruct (process_single_uw K _ _ _ _ _ _ _ _ _ _ _ _ Ep HK t U) as [U1 F1].
    destruct (IH _ _ _ _ _ _ _ _ _ _ H (hooks_in_eq K e e1 F1 HK) t U1) as [U2 F2]. split; [exact U2|congruence].
Qed.

(* ---- (B) to the queue: no new update items *)
Lemma process_single_q : forall e snap fresh q res o rev orig del e' q' res', uniq q ->
  process_single e snap fresh q res o rev orig del = (e', q', res') -> usub q' q /\ uniq q'.
Proof.
  intros e snap fresh q res o rev orig del e' q' res' U H. unfold process_single in H. destruct del.
  - destruct (do_call e snap fresh 1 o rev) as [e1 ok]. destruct ok; injection H as H1 H2 H3; subst q'.
    + split; [apply usub_clear|apply uniq_clear; exact U].
    + split; [apply usub_add_del|apply uniq_add; exact U].
  - destruct (do_call e snap fresh 0 o rev) as [e1 ok]. injection H as H1 H2 H3. subst q'.
    destruct ok; [split; [apply usub_clear|apply uniq_clear; exact U]|split; [apply usub_refl|exact U]].
Qed.

Lemma single_q : forall chs rs snap e q res nrec lastrev e' q' res' nrec' lastrev', uniq q ->
  single rs snap chs e q res nrec lastrev = (e', q', res', nrec', lastrev') -> usub q' q /\ uniq q'.
Proof.
  induction chs as [|ch rest IH]; intros rs snap e q res nrec lastrev e' q' res' nrec' lastrev' U H; cbn [single] in H.
  - injection H as H1 H2 H3 H4 H5. subst. split; [apply usub_refl|exact U].
  - destruct (negb (c_del ch) && negb (is_pending (c_obj ch))); [apply (IH _ _ _ _ _ _ _ _ _ _ _ _ U H)|].
    destruct (process_single e snap true (r_clear q (o_pk (c_obj ch))) res (c_obj ch) (c_rev ch) (c_rev ch) (c_del ch)) as [[e1 q1] res1] eqn:Ep.
    destruct (process_single_q _ _ _ _ _ _ _ _ _ _ _ _ (uniq_clear _ (o_pk (c_obj ch)) U) Ep) as [S1 U1].
    assert (S2 : usub q1 q) by (apply (usub_trans _ _ _ S1); apply usub_clear).
    destruct (rs <=? nrec + 1).
    + injection H as H1 H2 H3 H4 H5. subst. split; assumption.
    + destruct (IH _ _ _ _ _ _ _ _ _ _ _ _ U1 H) as [S3 U3]. split; [apply (usub_trans _ _ _ S3 S2)|exact U3].
Qed.

Lemma batch_collect_q : forall chs rs q dels upds nrec lastrev q' dels' upds' nrec' lastrev', uniq q ->
  batch_collect rs chs q dels upds nrec lastrev = (q', dels', upds', nrec', lastrev') -> usub q' q /\ uniq q'.
Proof.
  induction chs as [|ch rest IH]; intros rs q dels upds nrec lastrev q' dels' upds' nrec' lastrev' U H; cbn [batch_collect] in H.
  - injection H as H1 H2 H3 H4 H5. subst. split; [apply usub_refl|exact U].
  - destruct (negb (c_del ch) && negb (is_pending (c_obj ch))); [apply (IH _ _ _ _ _ _ _ _ _ _ _ U H)|].
    destruct (rs <=? nrec + 1).
    + injection H as H1 H2 H3 H4 H5. subst q'. split; [apply usub_clear|apply uniq_clear; exact U].
    + destruct (IH _ _ _ _ _ _ _ _ _ _ _ (uniq_clear _ (o_pk (c_obj ch)) U) H) as [S3 U3].
      split; [apply (usub_trans _ _ _ S3); apply usub_clear|exact U3].
Qed.

Lemma batch_deletes_q : forall dl snap e q e' q', uniq q -> batch_deletes snap dl e q = (e', q') -> usub q' q /\ uniq q'.
Proof.
  induction dl as [|d rest IH]; intros snap e q e' q' U H; cbn [batch_deletes] in H.
  - injection H as H1 H2. subst. split; [apply usub_refl|exact U].
  - destruct (do_call e snap true 3 (c_obj d) (c_rev d)) as [e1 ok]. destruct ok.
    + apply (IH _ _ _ _ _ U H).
    + destruct (IH _ _ _ _ _ (uniq_add _ (c_obj d) (c_rev d) (c_rev d) true (e_now e1) U) H) as [S3 U3].
      split; [apply (usub_trans _ _ _ S3); apply usub_add_del|exact U3].
Qed.

Lemma batch_results_q : forall l q res0 q' res', uniq q -> batch_results l q res0 = (q', res') -> usub q' q /\ uniq q'.
Proof.
  induction l as [|[c ok] rest IH]; intros q res0 q' res' U H; cbn [batch_results] in H.
  - injection H as H1 H2. subst. split; [apply usub_refl|exact U].
  - destruct ok.
    + destruct (IH _ _ _ _ (uniq_clear _ (o_pk (c_obj c)) U) H) as [S3 U3].
      split; [apply (usub_trans _ _ _ S3); apply usub_clear|exact U3].
    + apply (IH _ _ _ _ U H).
Qed.

Lemma phase1_q : forall cf snap chs e q e1 q1 res1 nrec1 lastrev1, uniq q ->
  phase1 cf snap chs e q = (e1, q1, res1, nrec1, lastrev1) -> usub q1 q /\ uniq q1.
Proof.
  intros cf snap chs e q e1 q1 res1 nrec1 lastrev1 U H. unfold phase1 in H. destruct (cf_batch cf).
  - destruct (batch_collect (cf_rs cf) chs q [] [] 0 0) as [[[[qa dels] upds] nrec] lastrev] eqn:HC.
    destruct (batch_deletes snap dels e qa) as [e2 q2] eqn:HD.
    destruct (batch_update_calls snap upds e2 []) as [e3 l] eqn:HU.
    destruct (batch_results l q2 []) as [q4 res] eqn:HR.
    injection H as H1 H2 H3 H4 H5. subst e1 q1 res1 nrec1 lastrev1.
    destruct (batch_collect_q _ _ _ _ _ _ _ _ _ _ _ _ U HC) as [S1 U1].
    destruct (batch_deletes_q _ _ _ _ _ _ U1 HD) as [S2 U2].
    destruct (batch_results_q _ _ _ _ _ U2 HR) as [S3 U3].
    split; [apply (usub_trans _ _ _ S3); apply (usub_trans _ _ _ S2 S1)|exact U3].
  - apply (single_q _ _ _ _ _ _ _ _ _ _ _ _ _ U H).
Qed.

Lemma process_retries_q : forall fuel rs snap e q res nrec e' q' res' nrec', uniq q ->
  process_retries fuel rs snap e q res nrec = (e', q', res', nrec') -> usub q' q /\ uniq q'.
Proof.
  induction fuel as [|fu IH]; intros rs snap e q res nrec e' q' res' nrec' U H; cbn [process_retries] in H.
  - injection H as H1 H2 H3 H4. subst. split; [apply usub_refl|exact U].
  - destruct (nrec <? rs); [|injection H as H1 H2 H3 H4; subst; split; [apply usub_refl|exact U]].
    destruct (r_top q) as [it|]; [|injection H as H1 H2 H3 H4; subst; split; [apply usub_refl|exact U]].
    destruct (e_now e <? ri_at it); [injection H as H1 H2 H3 H4; subst; split; [apply usub_refl|exact U]|].
    destruct (process_single e snap false (r_pop q) res (ri_obj it) (ri_rev it) (ri_orig it) (ri_del it)) as [[e1 q1] res1] eqn:Ep.
    destruct (process_single_q _ _ _ _ _ _ _ _ _ _ _ _ (uniq_pop _ U) Ep) as [S1 U1].
    destruct (IH _ _ _ _ _ _ _ _ _ _ U1 H) as [S3 U3].
    split; [|exact U3]. apply (usub_trans _ _ _ S3). apply (usub_trans _ _ _ S1). apply usub_pop. exact U.
Qed.

(* ---- (C) to the result list *)
(* a result of the change-stream phase is an undeleted change of the round's stream, unchanged *)
Definition from_change (chs : list change) (r : opres) : Prop :=
  exists ch, In ch chs /\ c_del ch = false /\ r_obj r = c_obj ch /\ r_rev r = c_rev ch /\ r_orig r = c_rev ch /\
             r_id r = o_sid (c_obj ch).

Lemma process_single_res : forall e snap fresh q res o rev orig del e' q' res',
  process_single e snap fresh q res o rev orig del = (e', q', res') ->
  if del then res' = res else exists ok, res' = res ++ [mkRes o rev orig (o_sid o) ok].
Proof.
  intros e snap fresh q res o rev orig del e' q' res' H. unfold process_single in H. destruct del.
  - destruct (do_call e snap fresh 1 o rev) as [e1 ok]. destruct ok; injection H as H1 H2 H3; subst res'; reflexivity.
  - destruct (do_call e snap fresh 0 o rev) as [e1 ok]. injection H as H1 H2 H3. subst res'. exists ok. reflexivity.
Qed.

Lemma from_change_cons : forall ch chs r, from_change chs r -> from_change (ch :: chs) r.
Proof. intros ch chs r [c [A B]]. exists c. split; [right; exact A|exact B]. Qed.

Lemma single_res : forall chs rs snap e q res nrec lastrev e' q' res' nrec' lastrev',
  single rs snap chs e q res nrec lastrev = (e', q', res', nrec', lastrev') ->
  forall r, In r res' -> In r res \/ from_change chs r.
Proof.
  induction chs as [|ch rest IH]; intros rs snap e q res nrec lastrev e' q' res' nrec' lastrev' H r Hr; cbn [single] in H.
  - injection H as H1 H2 H3 H4 H5. subst. left. exact Hr.
  - destruct (negb (c_del ch) && negb (is_pending (c_obj ch))).
    + destruct (IH _ _ _ _ _ _ _ _ _ _ _ _ H r Hr) as [A|A]; [left; exact A|right; apply from_change_cons; exact A].
    + destruct (process_single e snap true (r_clear q (o_pk (c_obj ch))) res (c_obj ch) (c_rev ch) (c_rev ch) (c_del ch)) as [[e1 q1] res1] eqn:Ep.
      pose proof (process_single_res _ _ _ _ _ _ _ _ _ _ _ _ Ep) as P.
      assert (Q : forall x, In x res1 -> In x res \/ from_change (ch :: rest) x).
      { intros x Hx. destruct (c_del ch) eqn:Ed.
        - subst res1. left. exact Hx.
        - destruct P as [ok P]. subst res1. apply in_app_or in Hx. destruct Hx as [Hx|[Hx|[]]]; [left; exact Hx|right].
          subst x. exists ch. split; [left; reflexivity|]. split; [exact Ed|]. repeat split. }
      destruct (rs <=? nrec + 1).
      * injection H as H1 H2 H3 H4 H5. subst. apply Q. exact Hr.
      * destruct (IH _ _ _ _ _ _ _ _ _ _ _ _ H r Hr) as [A|A]; [apply Q; exact A|right; apply from_change_cons; exact A].
Qed.

Lemma batch_collect_upds : forall chs rs q dels upds nrec lastrev q' dels' upds' nrec' lastrev',
  batch_collect rs chs q dels upds nrec lastrev = (q', dels', upds', nrec', lastrev') ->
  forall c, In c upds' -> In c upds \/ (In c chs /\ c_del c = false).
Proof.
  induction chs as [|ch rest IH]; intros rs q dels upds nrec lastrev q' dels' upds' nrec' lastrev' H c Hc; cbn [batch_collect] in H.
  - injection H as H1 H2 H3 H4 H5. subst. left. exact Hc.
  - destruct (negb (c_del ch) && negb (is_pending (c_obj ch))).
    + destruct (IH _ _ _ _ _ _ _ _ _ _ _ H c Hc) as [A|[A B]]; [left; exact A|right; split; [right; exact A|exact B]].
    + assert (Q : forall x, In x (if c_del ch then upds else upds ++ [ch]) -> In x upds \/ (In x (ch :: rest) /\ c_del x = false)).
      { intros x Hx. destruct (c_del ch) eqn:Ed; [left; exact Hx|].
        apply in_app_or in Hx. destruct Hx as [Hx|[Hx|[]]]; [left; exact Hx|right]. subst x. split; [left; reflexivity|exact Ed]. }
      destruct (rs <=? nrec + 1).
      * injection H as H1 H2 H3 H4 H5. subst. apply Q. exact Hc.
      * destruct (IH _ _ _ _ _ _ _ _ _ _ _ H c Hc) as [A|[A B]]; [apply Q; exact A|right; split; [right; exact A|exact B]].
Qed.

Lemma batch_update_calls_l : forall upds snap e acc e' l, batch_update_calls snap upds e acc = (e', l) ->
  forall x, In x l -> In x acc \/ In (fst x) upds.
Proof.
  induction upds as [|c rest IH]; intros snap e acc e' l H x Hx; cbn [batch_update_calls] in H.
  - injection H as H1 H2. subst. left. exact Hx.
  - destruct (do_call e snap true 2 (c_obj c) (c_rev c)) as [e1 ok].
    destruct (IH _ _ _ _ _ H x Hx) as [A|A]; [|right; right; exact A].
    apply in_app_or in A. destruct A as [A|[A|[]]]; [left; exact A|right; left; subst x; reflexivity].
Qed.

Lemma batch_results_res : forall l q res0 q' res', batch_results l q res0 = (q', res') ->
  forall r, In r res' -> In r res0 \/ exists x, In x l /\ r = mk_res x.
Proof.
  induction l as [|[c ok] rest IH]; intros q res0 q' res' H r Hr; cbn [batch_results] in H.
  - injection H as H1 H2. subst. left. exact Hr.
  - destruct (IH _ _ _ _ H r Hr) as [A|[x [A B]]]; [|right; exists x; split; [right; exact A|exact B]].
    apply in_app_or in A. destruct A as [A|[A|[]]]; [left; exact A|right]. exists (c, ok). split; [left; reflexivity|symmetry; exact A].
Qed.

Lemma phase1_res : forall cf snap chs e q e1 q1 res1 nrec1 lastrev1,
  phase1 cf snap chs e q = (e1, q1, res1, nrec1, lastrev1) -> forall r, In r res1 -> from_change chs r.
Proof.
  intros cf snap chs e q e1 q1 res1 nrec1 lastrev1 H r Hr. unfold phase1 in H. destruct (cf_batch cf).
  - destruct (batch_collect (cf_rs cf) chs q [] [] 0 0) as [[[[qa dels] upds] nrec] lastrev] eqn:HC.
    destruct (batch_deletes snap dels e qa) as [e2 q2] eqn:HD.
    destruct (batch_update_calls snap upds e2 []) as [e3 l] eqn:HU.
    destruct (batch_results l q2 []) as [q4 res] eqn:HR.
    injection H as H1 H2 H3 H4 H5. subst e1 q1 res1 nrec1 lastrev1.
    destruct (batch_results_res _ _ _ _ _ HR r Hr) as [[]|[x [A B]]].
    destruct (batch_update_calls_l _ _ _ _ _ _ HU x A) as [[]|C].
    destruct (batch_collect_upds _ _ _ _ _ _ _ _ _ _ _ _ HC _ C) as [[]|[D F]].
    exists (fst x). subst r. split; [exact D|]. split; [exact F|]. repeat split.
  - destruct (single_res _ _ _ _ _ _ _ _ _ _ _ _ _ H r Hr) as [[]|A]. exact A.
Qed.

(* a result of the retry phase is an update item of the queue the phase started with *)
Definition from_item (q : retries) (r : opres) : Prop :=
  exists pk it, find_item pk (q_items q) = Some it /\ ri_del it = false /\ r_obj r = ri_obj it /\ r_rev r = ri_rev it /\
                r_id r = o_sid (ri_obj it).

Lemma from_item_usub : forall q q' r, usub q' q -> from_item q' r -> from_item q r.
Proof.
  intros q q' r S [pk [it [A [B [C [D E]]]]]]. destruct (S pk it A B) as [i0 [A0 [B0 [C0 D0]]]].
  exists pk, i0. split; [exact A0|]. split; [exact B0|]. repeat split; congruence.
Qed.

Lemma process_retries_res : forall fuel rs snap e q res nrec e' q' res' nrec', uniq q ->
  process_retries fuel rs snap e q res nrec = (e', q', res', nrec') ->
  forall r, In r res' -> In r res \/ from_item q r.
Proof.
  induction fuel as [|fu IH]; intros rs snap e q res nrec e' q' res' nrec' U H r Hr; cbn [process_retries] in H.
  - injection H as H1 H2 H3 H4. subst. left. exact Hr.
  - destruct (nrec <? rs); [|injection H as H1 H2 H3 H4; subst; left; exact Hr].
    destruct (r_top q) as [it|] eqn:Et; [|injection H as H1 H2 H3 H4; subst; left; exact Hr].
    destruct (e_now e <? ri_at it); [injection H as H1 H2 H3 H4; subst; left; exact Hr|].
    destruct (process_single e snap false (r_pop q) res (ri_obj it) (ri_rev it) (ri_orig it) (ri_del it)) as [[e1 q1] res1] eqn:Ep.
    destruct (process_single_q _ _ _ _ _ _ _ _ _ _ _ _ (uniq_pop _ U) Ep) as [S1 U1].
    pose proof (process_single_res _ _ _ _ _ _ _ _ _ _ _ _ Ep) as P.
    assert (Hf : find_item (ri_pk it) (q_items q) = Some it).
    { apply find_item_uniq; [exact U|]. destruct (top_of_spec _ _ Et) as [A _]. exact A. }
    destruct (IH _ _ _ _ _ _ _ _ _ _ U1 H r Hr) as [A|A].
    + destruct (ri_del it) eqn:Ed.
      * subst res1. left. exact A.
      * destruct P as [ok P]. subst res1. apply in_app_or in A. destruct A as [A|[A|[]]]; [left; exact A|right].
        subst r. exists (ri_pk it), it. split; [exact Hf|]. split; [exact Ed|]. repeat split.
    + right. apply (from_item_usub q q1); [|exact A]. apply (usub_trans _ _ _ S1). apply usub_pop. exact U.
Qed.
(* ================================================================== 6. the round, reachable states *)
(* the intermediate states of a round: after the change-stream phase (e1, q1, res1), after the first
   status commit (t1, q2), after the retry phase (e3, q3, res2), after the second commit (t2, q4) *)
Record rtrace := mkTrace {
  tr_e1 : env; tr_q1 : retries; tr_res1 : list opres; tr_t1 : table; tr_q2 : retries;
  tr_e3 : env; tr_q3 : retries; tr_res2 : list opres; tr_t2 : table; tr_q4 : retries }.

Definition round_trace (cf : cfg) (e : env) (s : rstate) : rtrace :=
  let snap := e_tab e in
  let '(e1, q1, res1, nrec1, _) := phase1 cf snap (changes_of snap (k_cursor s)) e (k_ret s) in
  let '(t1, q2) := commit_status (e_now e1) (e_tab e1) q1 res1 in
  let '(e3, q3, res2, _) := process_retries (N.to_nat (cf_rs cf)) (cf_rs cf) snap (set_tab e1 t1) q2 [] nrec1 in
  let '(t2, q4) := commit_status (e_now e3) (e_tab e3) q3 res2 in
  mkTrace e1 q1 res1 t1 q2 e3 q3 res2 t2 q4.

(* round_trace is what round does *)
Lemma round_trace_eq : forall cf e s e1 q1 res1 nrec1 lastrev1 t1 q2 e3 q3 res2 nrec3 t2 q4,
  phase1 cf (e_tab e) (changes_of (e_tab e) (k_cursor s)) e (k_ret s) = (e1, q1, res1, nrec1, lastrev1) ->
  commit_status (e_now e1) (e_tab e1) q1 res1 = (t1, q2) ->
  process_retries (N.to_nat (cf_rs cf)) (cf_rs cf) (e_tab e) (set_tab e1 t1) q2 [] nrec1 = (e3, q3, res2, nrec3) ->
  commit_status (e_now e3) (e_tab e3) q3 res2 = (t2, q4) ->
  round_trace cf e s = mkTrace e1 q1 res1 t1 q2 e3 q3 res2 t2 q4 /\
  e_tab (fst (round cf e s)) = t2 /\ k_ret (snd (round cf e s)) = q4.
Proof.
  intros cf e s e1 q1 res1 nrec1 lastrev1 t1 q2 e3 q3 res2 nrec3 t2 q4 E1 C1 R1 C2. split.
  - unfold round_trace. cbv zeta. rewrite E1, C1, R1, C2. reflexivity.
  - unfold round, round_gen. cbv zeta.
    change (if cf_batch cf
            then let '(q, dels, upds, nrec, lastrev) := batch_collect (cf_rs cf) (changes_of (e_tab e) (k_cursor s)) (k_ret s) [] [] 0 0 in
                 let (e0, q0) := batch_deletes (e_tab e) dels e q in
                 let (e1, l) := batch_update_calls (e_tab e) upds e0 [] in
                 let (q1, res) := batch_results l q0 [] in (e1, q1, res, nrec, lastrev)
            else single (cf_rs cf) (e_tab e) (changes_of (e_tab e) (k_cursor s)) e (k_ret s) [] 0 0)
      with (phase1 cf (e_tab e) (changes_of (e_tab e) (k_cursor s)) e (k_ret s)).
    rewrite E1. unfold commit_status in C1, C2. rewrite C1, R1, C2.
    match goal with |- e_tab (fst (if ?b then _ else _)) = _ /\ _ => destruct b end; cbn; split; reflexivity.
Qed.

(* the facts RoundInv.round_keeps_inv establishes about the intermediate states *)
Lemma round_internal : forall cf e s e1 q1 res1 nrec1 lastrev1 t1 q2 e3 q3 res2 nrec3,
  round_inv e s ->
  phase1 cf (e_tab e) (changes_of (e_tab e) (k_cursor s)) e (k_ret s) = (e1, q1, res1, nrec1, lastrev1) ->
  commit_status (e_now e1) (e_tab e1) q1 res1 = (t1, q2) ->
  process_retries (N.to_nat (cf_rs cf)) (cf_rs cf) (e_tab e) (set_tab e1 t1) q2 [] nrec1 = (e3, q3, res2, nrec3) ->
  (exists chs', phase_inv (Dlog e1) (e_tab e) e1 q1 res1 (curs (k_cursor s) lastrev1) chs') /\
  retry_inv e3 q3 res2 (curs (k_cursor s) lastrev1).
Proof.
  intros cf e s e1 q1 res1 nrec1 lastrev1 t1 q2 e3 q3 res2 nrec3 [[W [U P]] [Hc Hcov]] E1 C1 R1.
  set (snap := e_tab e) in *.
  assert (INV0 : phase_inv (Dlog e) snap e (k_ret s) [] (curs (k_cursor s) 0) (changes_of snap (k_cursor s))).
  { constructor; first [assumption | exact Hc | apply snap_rel_refl | apply changes_stream_ok; exact W
                        | intros ch _ [] | intros r [] | constructor ]. }
  destruct (phase1_inv _ _ _ _ _ _ _ _ _ _ _ INV0 E1) as [[chs' PI] LR].
  split; [exists chs'; exact PI|].
  destruct PI as [J1' J2' J3 J4 J5 J6 J7 J8 J9 J10 J11].
  set (cur1 := curs (k_cursor s) lastrev1) in *.
  assert (SR : t_rev snap <= t_rev (e_tab e1)) by (destruct J3 as [X _]; exact X).
  assert (Hres1 : forall r, In r res1 -> r_orig r <= t_rev (e_tab e1) /\ r_rev r <= t_rev (e_tab e1)).
  { intros r Hr. destruct (J10 r Hr). split; lia. }
  unfold commit_status in C1.
  destruct (commit_status_side _ _ _ _ _ _ _ _ (conj J1' (conj J6 J7)) Hres1 C1) as [[W1 [U1 P1]] M1].
  assert (Cov1 : forall pk, covered (Dlog e1) t1 cur1 [] q2 pk).
  { apply (commit_status_covers (Dlog e1) cur1 (e_now e1) res1 (e_tab e1) q1 t1 q2 (twf_keyed _ J1') J6 J8).
    - intros r Hr. apply Hres1. exact Hr.
    - exact J11.
    - exact C1. }
  assert (RI0 : retry_inv (set_tab e1 t1) q2 [] cur1).
  { constructor; first [assumption | cbn; lia | intros r [] | intros p it [] | intro pk; apply Cov1 | constructor]. }
  apply (process_retries_inv _ _ _ _ _ _ _ _ _ _ _ _ RI0 R1).
Qed.

(* the round keeps the state invariant, and every committed result knows its version *)
Lemma round_sinv : forall cf e s f e1 q1 res1 nrec1 lastrev1 t1 q2 e3 q3 res2 nrec3 t2 q4,
  round_inv e s -> sinv f (e_tab e) (k_ret s) ->
  phase1 cf (e_tab e) (changes_of (e_tab e) (k_cursor s)) e (k_ret s) = (e1, q1, res1, nrec1, lastrev1) ->
  commit_status (e_now e1) (e_tab e1) q1 res1 = (t1, q2) ->
  process_retries (N.to_nat (cf_rs cf)) (cf_rs cf) (e_tab e) (set_tab e1 t1) q2 [] nrec1 = (e3, q3, res2, nrec3) ->
  commit_status (e_now e3) (e_tab e3) q3 res2 = (t2, q4) ->
  (exists f1, sinv f1 (e_tab e1) q1 /\ NoDup (res_pks res1) /\ forall r, In r res1 -> res_ok f1 (e_tab e1) r) /\
  (exists f3, sinv f3 (e_tab e3) q3 /\ NoDup (res_pks res2) /\ forall r, In r res2 -> res_ok f3 (e_tab e3) r) /\
  (exists f4, sinv f4 t2 q4) /\
  user_writes_in (hook_keys e) (e_tab e) (e_tab e1) /\ user_writes_in (hook_keys e) t1 (e_tab e3).
Proof.
  intros cf e s f e1 q1 res1 nrec1 lastrev1 t1 q2 e3 q3 res2 nrec3 t2 q4 RI S E1 C1 R1 C2.
  destruct (round_internal _ _ _ _ _ _ _ _ _ _ _ _ _ _ RI E1 C1 R1) as [[chs' PI] RT].
  pose proof S as [W [U [T I]]].
  set (snap := e_tab e) in *.
  (* phase 1 *)
  destruct (phase1_uw (hook_keys e) _ _ _ _ _ _ _ _ _ _ E1 (hooks_in_keys e)) as [UW1 HF1].
  destruct (phase1_q _ _ _ _ _ _ _ _ _ _ U E1) as [QS1 QU1].
  destruct (sinv_move f snap (k_ret s) (e_tab e1) q1 S (user_writes_ustep _ _ _ UW1) QS1 QU1) as [f1 [X1 S1]].
  assert (SR : snap_rel snap (e_tab e1)).
  { apply (wstep_snap_rel snap snap); [apply ustep_wstep; [apply (user_writes_ustep _ _ _ UW1)|exact W]|exact W|apply snap_rel_refl]. }
  assert (ND1 : NoDup (res_pks res1)) by (destruct PI; assumption).
  assert (RO1 : forall r, In r res1 -> res_ok f1 (e_tab e1) r).
  { intros r Hr. destruct (phase1_res _ _ _ _ _ _ _ _ _ _ E1 r Hr) as [ch [A [B [C [D [F G]]]]]].
    destruct (changes_stream_ok snap (k_cursor s) W) as [_ [_ [SO _]]].
    destruct (SO ch A) as [sl [Hs Hc]].
    assert (Hsl : sl = Live (r_obj r) (r_rev r)).
    { destruct sl as [o0 r0|o0 r0]; rewrite <- Hc in *; cbn in *; [congruence|discriminate]. }
    subst sl. unfold ch_pk in Hs. rewrite <- C in Hs.
    destruct W as [_ [W2 _]]. destruct (W2 _ _ Hs) as [_ [_ Hle]]. cbn in Hle.
    destruct SR as [SR1 [SR2 _]].
    split; [congruence|]. split; [apply (okobj_ext _ _ _ _ _ X1); apply (T _ _ Hs)|]. split.
    - split; [lia|]. intros cur Hl. apply t_live_slot in Hl.
      pose proof (SR2 _ _ Hl Hle) as Hsn. rewrite Hs in Hsn. injection Hsn as Hsn. subst cur. split; reflexivity.
    - intro Hn. exfalso. apply Hn. congruence. }
  (* commit 1 *)
  unfold commit_status in C1, C2.
  destruct (commit_status_sinv _ _ _ _ _ _ _ _ _ S1 ND1 RO1 C1) as [f2 [X2 [S2 M2]]].
  (* phase 2 *)
  assert (HK1 : hooks_in (hook_keys e) (set_tab e1 t1)) by (apply (hooks_in_eq _ e); [exact HF1|apply hooks_in_keys]).
  destruct (process_retries_uw (hook_keys e) _ _ _ _ _ _ _ _ _ _ _ R1 HK1 t1 (uw_refl _ t1)) as [UW3 _].
  pose proof S2 as [W2 [U2 [T2 I2]]].
  destruct (process_retries_q _ _ _ _ _ _ _ _ _ _ _ U2 R1) as [QS3 QU3].
  destruct (sinv_move f2 t1 q2 (e_tab e3) q3 S2 (user_writes_ustep _ _ _ UW3) QS3 QU3) as [f3 [X3 S3]].
  assert (ND3 : NoDup (res_pks res2)) by (destruct RT; assumption).
  assert (RO3 : forall r, In r res2 -> res_ok f3 (e_tab e3) r).
  { intros r Hr. destruct (process_retries_res _ _ _ _ _ _ _ _ _ _ _ U2 R1 r Hr) as [[]|[pk [it [A [B [C [D F]]]]]]].
    destruct (I2 pk it A B) as [Y1 [Y2 Y3]]. unfold res_ok. rewrite C, D.
    split; [exact F|]. split; [apply (okobj_ext _ _ _ _ _ X3 Y1)|].
    split; [apply (ustep_J1 _ _ (user_writes_ustep _ _ _ UW3) _ _ W2 Y2)|].
    intros _. apply (ustep_J2 _ _ (user_writes_ustep _ _ _ UW3) _ W2 Y3). }
  destruct (commit_status_sinv _ _ _ _ _ _ _ _ _ S3 ND3 RO3 C2) as [f4 [X4 [S4 M4]]].
  split; [exists f1; split; [exact S1|split; [exact ND1|exact RO1]]|].
  split; [exists f3; split; [exact S3|split; [exact ND3|exact RO3]]|].
  split; [exists f4; exact S4|]. split; [exact UW1|exact UW3].
Qed.
(* ---- the invariant of reachable states *)
Definition c15_inv (e : env) (s : rstate) : Prop :=
  full_inv e s /\ exists f, sinv f (e_tab e) (k_ret s).

Lemma c15_inv_init : forall cf, c15_inv (env0 cf) (rstate0 cf).
Proof.
  intro cf. split; [apply full_inv_init|]. exists (fun _ => 0).
  split; [apply twf_empty|]. split; [apply uniq_new|]. split.
  - intros k sl H. discriminate.
  - intros pk it H. discriminate.
Qed.

Lemma c15_inv_estep : forall st st', estep st st' -> c15_inv (fst st) (snd st) -> c15_inv (fst st') (snd st').
Proof.
  intros st st' H [FI [f S]]. split; [apply (estep_keeps_full st st' H FI)|].
  destruct H; cbn [fst snd] in *; try (exists f; exact S).
  pose proof S as [_ [U _]].
    destruct (sinv_move f (e_tab e) (k_ret s) (e_tab (do_write e kind k)) (k_ret s) S (do_write_ustep e kind k) (usub_refl _) U) as [f' [_ S']].
    exists f'. exact S'.
Qed.

Lemma c15_inv_round : forall cf e s, c15_inv e s -> c15_inv (fst (round cf e s)) (snd (round cf e s)).
Proof.
  intros cf e s [FI [f S]]. split.
  - destruct (round cf e s) as [e' s'] eqn:E. apply (round_keeps_full cf e s e' s' FI E).
  - destruct FI as [RI _].
    destruct (phase1 cf (e_tab e) (changes_of (e_tab e) (k_cursor s)) e (k_ret s)) as [[[[e1 q1] res1] nrec1] lastrev1] eqn:E1.
    destruct (commit_status (e_now e1) (e_tab e1) q1 res1) as [t1 q2] eqn:C1.
    destruct (process_retries (N.to_nat (cf_rs cf)) (cf_rs cf) (e_tab e) (set_tab e1 t1) q2 [] nrec1) as [[[e3 q3] res2] nrec3] eqn:R1.
    destruct (commit_status (e_now e3) (e_tab e3) q3 res2) as [t2 q4] eqn:C2.
    destruct (round_trace_eq _ _ _ _ _ _ _ _ _ _ _ _ _ _ _ _ E1 C1 R1 C2) as [_ [T2 Q4]].
    destruct (round_sinv _ _ _ _ _ _ _ _ _ _ _ _ _ _ _ _ _ RI S E1 C1 R1 C2) as [_ [_ [[f4 S4] _]]].
    exists f4. rewrite T2, Q4. exact S4.
Qed.

Theorem c15_inv_reach : forall cf st, reach cf st -> c15_inv (fst st) (snd st).
Proof.
  intros cf st H. induction H.
  - apply c15_inv_init.
  - apply (c15_inv_estep st st'); assumption.
  - apply (c15_inv_round cf e s IHreach).
Qed.

(* ---- theorem (a) *)
(* what the four stages of round_trace are (so that the theorems below, stated on round_trace, speak about
   the two commitStatus calls round performs) *)
Lemma round_trace_spec : forall cf e s, let tr := round_trace cf e s in
  (exists nrec1 lastrev1 nrec3,
     phase1 cf (e_tab e) (changes_of (e_tab e) (k_cursor s)) e (k_ret s) = (tr_e1 tr, tr_q1 tr, tr_res1 tr, nrec1, lastrev1) /\
     process_retries (N.to_nat (cf_rs cf)) (cf_rs cf) (e_tab e) (set_tab (tr_e1 tr) (tr_t1 tr)) (tr_q2 tr) [] nrec1 =
       (tr_e3 tr, tr_q3 tr, tr_res2 tr, nrec3)) /\
  commit_status (e_now (tr_e1 tr)) (e_tab (tr_e1 tr)) (tr_q1 tr) (tr_res1 tr) = (tr_t1 tr, tr_q2 tr) /\
  commit_status (e_now (tr_e3 tr)) (e_tab (tr_e3 tr)) (tr_q3 tr) (tr_res2 tr) = (tr_t2 tr, tr_q4 tr) /\
  e_tab (fst (round cf e s)) = tr_t2 tr /\ k_ret (snd (round cf e s)) = tr_q4 tr.
Proof.
  intros cf e s.
  destruct (phase1 cf (e_tab e) (changes_of (e_tab e) (k_cursor s)) e (k_ret s)) as [[[[e1 q1] res1] nrec1] lastrev1] eqn:E1.
  destruct (commit_status (e_now e1) (e_tab e1) q1 res1) as [t1 q2] eqn:C1.
  destruct (process_retries (N.to_nat (cf_rs cf)) (cf_rs cf) (e_tab e) (set_tab e1 t1) q2 [] nrec1) as [[[e3 q3] res2] nrec3] eqn:R1.
  destruct (commit_status (e_now e3) (e_tab e3) q3 res2) as [t2 q4] eqn:C2.
  destruct (round_trace_eq _ _ _ _ _ _ _ _ _ _ _ _ _ _ _ _ E1 C1 R1 C2) as [TR [T2 Q4]].
  cbv zeta. rewrite TR. cbn [tr_e1 tr_q1 tr_res1 tr_t1 tr_q2 tr_e3 tr_q3 tr_res2 tr_t2 tr_q4].
  split; [exists nrec1, lastrev1, nrec3; split; [reflexivity|exact R1]|].
  split; [exact C1|]. split; [exact C2|]. split; assumption.
Qed.

Lemma res_consistent_of_ok : forall f t res, NoDup (res_pks res) -> (forall r, In r res -> res_ok f t r) -> res_consistent t res.
Proof. intros f t res N R. split; [exact N|]. intros r Hr. apply (res_ok_identifies f). apply R. exact Hr. Qed.

(* (a) in every reachable state, for the round executed from it: at both status commits the table is
   keyed, the result keys are pairwise distinct and every result identifies the object version the table
   holds at its revision — the hypotheses of CommitProofs.commit_status_status_only *)
Theorem results_identify_versions : forall cf st, reach cf st ->
  let tr := round_trace cf (fst st) (snd st) in
  (keyed (e_tab (tr_e1 tr)) /\ res_consistent (e_tab (tr_e1 tr)) (tr_res1 tr)) /\
  (keyed (e_tab (tr_e3 tr)) /\ res_consistent (e_tab (tr_e3 tr)) (tr_res2 tr)).
Proof.
  intros cf [e s] H. cbn [fst snd]. destruct (c15_inv_reach cf _ H) as [[RI _] [f S]]. cbn [fst snd] in *.
  destruct (phase1 cf (e_tab e) (changes_of (e_tab e) (k_cursor s)) e (k_ret s)) as [[[[e1 q1] res1] nrec1] lastrev1] eqn:E1.
  destruct (commit_status (e_now e1) (e_tab e1) q1 res1) as [t1 q2] eqn:C1.
  destruct (process_retries (N.to_nat (cf_rs cf)) (cf_rs cf) (e_tab e) (set_tab e1 t1) q2 [] nrec1) as [[[e3 q3] res2] nrec3] eqn:R1.
  destruct (commit_status (e_now e3) (e_tab e3) q3 res2) as [t2 q4] eqn:C2.
  destruct (round_trace_eq _ _ _ _ _ _ _ _ _ _ _ _ _ _ _ _ E1 C1 R1 C2) as [TR _].
  destruct (round_sinv _ _ _ _ _ _ _ _ _ _ _ _ _ _ _ _ _ RI S E1 C1 R1 C2) as [[f1 [S1 [N1 O1]]] [[f3 [S3 [N3 O3]]] _]].
  cbv zeta. rewrite TR. cbn [tr_e1 tr_res1 tr_e3 tr_res2].
  split; (split; [apply twf_keyed; first [apply S1|apply S3]|]).
  - apply (res_consistent_of_ok f1); assumption.
  - apply (res_consistent_of_ok f3); assumption.
Qed.
(* ================================================================== 7. statuses erased *)
(* the table with our statuses (and revisions) erased: per slot, in slot order, the key and (payload version,
   data of the other writers) of the live object, None for a deleted one *)
Definition ers (sl : slot) : option (N * N) := match sl with Live o _ => Some (o_ver o, o_aux o) | Dead _ _ => None end.
Definition erase (t : table) : list (N * option (N * N)) := map (fun kv => (fst kv, ers (snd kv))) (t_slots t).

Lemma erase_aset : forall k sl sl' (l : list (N * slot)), aget k l = Some sl -> ers sl' = ers sl ->
  map (fun kv => (fst kv, ers (snd kv))) (aset k sl' l) = map (fun kv => (fst kv, ers (snd kv))) l.
Proof.
  intros k sl sl' l. induction l as [|[k0 s0] r IH]; intros H E; cbn [aget] in H; [discriminate|].
  cbn [aset]. destruct (k0 =? k) eqn:Ek.
  - injection H as H. subst s0. apply N.eqb_eq in Ek. subst k0. cbn [map fst snd]. rewrite E. reflexivity.
  - cbn [map fst snd]. rewrite (IH H E). reflexivity.
Qed.

Lemma erase_fresh : forall t, erase (fst (t_fresh_id t)) = erase t.
Proof. reflexivity. Qed.

(* writing an object with the payload and the foreign data of the live object of its key changes nothing
   but status/revision *)
Lemma erase_insert : forall t o cur rv, t_live t (o_pk o) = Some (cur, rv) -> o_ver o = o_ver cur -> o_aux o = o_aux cur ->
  erase (t_insert t o) = erase t.
Proof.
  intros t o cur rv H E E2. unfold erase, t_insert. cbn [t_slots]. apply t_live_slot in H.
  apply (erase_aset _ (Live cur rv)); [exact H|cbn; rewrite E, E2; reflexivity].
Qed.

Lemma aget_erase : forall k t, aget k (erase t) = option_map ers (slot_of t k).
Proof.
  intros k t. unfold erase, slot_of. induction (t_slots t) as [|[k0 s0] r IH]; cbn [map aget fst snd]; [reflexivity|].
  destruct (k0 =? k); [reflexivity|exact IH].
Qed.

Lemma payload_erase : forall t k, payload t k = match aget k (erase t) with Some (Some (v, _)) => Some v | _ => None end.
Proof. intros t k. rewrite aget_erase. unfold payload. destruct (slot_of t k) as [[o r|o r]|]; reflexivity. Qed.

Lemma erase_payload : forall t t', erase t' = erase t -> forall k, payload t' k = payload t k.
Proof. intros t t' H k. rewrite !payload_erase, H. reflexivity. Qed.

Lemma commit_one_erase : forall fixed efb now t q r t' q', keyed t -> rev_identifies t r ->
  commit_one fixed efb now (t, q) r = (t', q') -> erase t' = erase t.
Proof.
  intros fixed efb now t q r t' q' K R H.
  destruct (commit_one_cases _ _ _ _ _ _ _ _ H) as [[A _]|[[cur [A [B _]]]|[cur [rv [A [_ [_ [B _]]]]]]]]; subst t'.
  - apply erase_fresh.
  - destruct (R cur A) as [R1 R2].
    rewrite (erase_insert _ _ cur (r_rev r)); [apply erase_fresh|exact A|cbn; symmetry; exact R1|cbn; symmetry; exact R2].
  - assert (Kc : o_pk cur = o_pk (r_obj r)) by (apply (K _ cur rv); apply t_live_slot; exact A).
    rewrite (erase_insert _ _ cur rv); [apply erase_fresh|cbn [with_status o_pk]; rewrite Kc; exact A|reflexivity|reflexivity].
Qed.

(* a whole commitStatus on identified results leaves the statuses-erased table exactly as it was *)
Theorem commit_status_erase : forall fixed efb now res t q t' q', keyed t -> res_consistent t res ->
  commit_status_gen fixed efb now t q res = (t', q') -> erase t' = erase t.
Proof.
  intros fixed efb now res. unfold commit_status_gen. induction res as [|r rest IH]; intros t q t' q' Hk [Hnd Hri] H.
  - cbn in H. injection H as H1 H2. subst. reflexivity.
  - cbn [fold_left] in H. destruct (commit_one fixed efb now (t, q) r) as [t1 q1] eqn:E1.
    pose proof (commit_one_keyed _ _ _ _ _ _ _ _ Hk E1) as Hk1.
    destruct (commit_one_spec _ _ _ _ _ _ _ _ Hk E1) as [Ho _].
    pose proof (commit_one_erase _ _ _ _ _ _ _ _ Hk (Hri r (or_introl eq_refl)) E1) as P1.
    cbn [map] in Hnd. inversion Hnd as [|x xs Hx Hr]; subst.
    assert (C1 : res_consistent t1 rest).
    { split; [exact Hr|]. intros r2 Hin cur Hl. apply (Hri r2 (or_intror Hin) cur).
      assert (Hne : o_pk (r_obj r2) <> o_pk (r_obj r)).
      { intro Heq. apply Hx. rewrite <- Heq. apply (in_map (fun r => o_pk (r_obj r))). exact Hin. }
      apply t_live_slot. rewrite <- (Ho _ Hne). apply t_live_slot. exact Hl. }
    rewrite (IH t1 q1 t' q' Hk1 C1 H). exact P1.
Qed.

(* t' differs from t in statuses (and revisions of rewritten objects) only: same keys in the same order,
   same payload versions, deleted objects untouched *)
Definition status_only (t t' : table) : Prop :=
  erase t' = erase t /\ (forall k, not_live t k -> slot_of t' k = slot_of t k).

Lemma status_only_payload : forall t t', status_only t t' -> forall k, payload t' k = payload t k.
Proof. intros t t' [A _]. apply erase_payload. exact A. Qed.
Lemma status_only_live : forall t t' k, status_only t t' ->
  (exists o r, slot_of t' k = Some (Live o r)) <-> (exists o r, slot_of t k = Some (Live o r)).
Proof.
  intros t t' k [A _]. pose proof (aget_erase k t) as P. pose proof (aget_erase k t') as P'. rewrite A in P'. rewrite P in P'.
  destruct (slot_of t k) as [[o r|o r]|]; destruct (slot_of t' k) as [[o' r'|o' r']|]; cbn in P'; try discriminate;
    split; intros [x [y H]]; try discriminate; eexists; eexists; reflexivity.
Qed.

Lemma commit_status_only : forall fixed efb now res t q t' q', keyed t -> res_consistent t res ->
  commit_status_gen fixed efb now t q res = (t', q') -> status_only t t'.
Proof.
  intros fixed efb now res t q t' q' K R H. split; [apply (commit_status_erase _ _ _ _ _ _ _ _ K R H)|].
  destruct (commit_status_status_only _ _ _ _ _ _ _ _ K R H) as [_ [_ A]]. exact A.
Qed.

(* a user write on key k touches no other key *)
Lemma do_write_other : forall e kind k k', keyed (e_tab e) -> k' <> k ->
  slot_of (e_tab (do_write e kind k)) k' = slot_of (e_tab e) k'.
Proof.
  intros e kind k k' K Hn.
  assert (P : forall e, slot_of (e_tab (w_put e k)) k' = slot_of (e_tab e) k').
  { intro e0. unfold w_put, t_fresh_id. cbn [bump_ver e_tab e_ver add_urev set_tab]. rewrite slot_insert_other by (cbn; exact Hn). reflexivity. }
  assert (D : forall e, slot_of (e_tab (w_del e k)) k' = slot_of (e_tab e) k').
  { intro e0. unfold w_del. destruct (t_live (e_tab e0) k); [|reflexivity]. cbn [add_urev set_tab e_tab]. apply slot_delete_other. exact Hn. }
  assert (Kk : forall o r, t_live (e_tab e) k = Some (o, r) -> o_pk o = k).
  { intros o r H. apply (K k o r). apply t_live_slot. exact H. }
  assert (S : forall g, slot_of (e_tab (w_stat g e k)) k' = slot_of (e_tab e) k').
  { intro g. unfold w_stat. destruct (t_live (e_tab e) k) as [[o r]|] eqn:El; [|reflexivity].
    match goal with |- slot_of (e_tab (if ?b then _ else _)) _ = _ => destruct b end; [reflexivity|].
    cbn [add_urev set_tab e_tab]. apply slot_insert_other. change (o_pk (bump_aux o)) with (o_pk o). rewrite (Kk o r eq_refl). exact Hn. }
  assert (R : slot_of (e_tab (w_ref e k)) k' = slot_of (e_tab e) k').
  { unfold w_ref. destruct (t_live (e_tab e) k) as [[o r]|] eqn:El; [|reflexivity].
    destruct (o_kind o); try reflexivity.
    unfold t_fresh_id. cbn [add_urev set_tab e_tab]. rewrite slot_insert_other by (cbn; rewrite (Kk o r eq_refl); exact Hn). reflexivity. }
  assert (Q : slot_of (e_tab (w_pend e k)) k' = slot_of (e_tab e) k').
  { unfold w_pend. destruct (t_live (e_tab e) k) as [[o r]|] eqn:El; [|reflexivity].
    unfold t_fresh_id. cbn [add_urev set_tab e_tab]. rewrite slot_insert_other by (cbn; rewrite (Kk o r eq_refl); exact Hn). reflexivity. }
  unfold do_write. destruct kind as [|[[p|[p|p|]|]|[p|[p|p|]|]|]];
    first [ exact (P e) | exact (D e) | exact (eq_trans (P (w_del e k)) (D e)) | exact (S true) | exact (S false) | exact R | exact Q ].
Qed.
(* ---- theorem (b) *)
(* user writes on keys in K leave every other key alone *)
Lemma user_writes_in_other : forall K t t', user_writes_in K t t' -> twf t ->
  forall pk, ~ K pk -> slot_of t' pk = slot_of t pk.
Proof.
  intros K t t' H W pk Hn. induction H; [reflexivity|].
  rewrite <- (IHuser_writes_in W). apply do_write_other.
  - apply twf_keyed. apply (ustep_twf t); [apply (user_writes_ustep K); assumption|exact W].
  - intro E. subst pk. contradiction.
Qed.

Lemma status_only_trans : forall a b c, status_only a b -> status_only b c -> status_only a c.
Proof.
  intros a b c [A1 A2] [B1 B2]. split; [congruence|]. intros k Hn.
  rewrite B2; [apply A2; exact Hn|]. unfold not_live. rewrite (A2 k Hn). exact Hn.
Qed.

(* (b) in every reachable state, for the round executed from it (K = the keys the registered hooks write
   to): the table moves
     - by user writes of hooks on keys in K during the change-stream phase,
     - by a status-only change at the first commitStatus,
     - by user writes of hooks on keys in K during the retry phase,
     - by a status-only change at the second commitStatus,
   and the result is the table of the state after the round.  Every payload change in a round is a
   do_write; the reconciler itself writes statuses only and never re-creates a deleted object. *)
Theorem round_commits_change_only_statuses : forall cf st, reach cf st ->
  forall e' s', round cf (fst st) (snd st) = (e', s') ->
  let tr := round_trace cf (fst st) (snd st) in
  let K := hook_keys (fst st) in
  user_writes_in K (e_tab (fst st)) (e_tab (tr_e1 tr)) /\
  status_only (e_tab (tr_e1 tr)) (tr_t1 tr) /\
  user_writes_in K (tr_t1 tr) (e_tab (tr_e3 tr)) /\
  status_only (e_tab (tr_e3 tr)) (e_tab e').
Proof.
  intros cf [e s] H e' s' HR. cbn [fst snd] in *. destruct (c15_inv_reach cf _ H) as [[RI _] [f S]]. cbn [fst snd] in *.
  destruct (phase1 cf (e_tab e) (changes_of (e_tab e) (k_cursor s)) e (k_ret s)) as [[[[e1 q1] res1] nrec1] lastrev1] eqn:E1.
  destruct (commit_status (e_now e1) (e_tab e1) q1 res1) as [t1 q2] eqn:C1.
  destruct (process_retries (N.to_nat (cf_rs cf)) (cf_rs cf) (e_tab e) (set_tab e1 t1) q2 [] nrec1) as [[[e3 q3] res2] nrec3] eqn:R1.
  destruct (commit_status (e_now e3) (e_tab e3) q3 res2) as [t2 q4] eqn:C2.
  destruct (round_trace_eq _ _ _ _ _ _ _ _ _ _ _ _ _ _ _ _ E1 C1 R1 C2) as [TR [T2 _]].
  destruct (round_sinv _ _ _ _ _ _ _ _ _ _ _ _ _ _ _ _ _ RI S E1 C1 R1 C2) as [[f1 [S1 [N1 O1]]] [[f3 [S3 [N3 O3]]] [_ [U1 U3]]]].
  rewrite HR in T2. cbn [fst] in T2.
  cbv zeta. rewrite TR. cbn [tr_e1 tr_t1 tr_e3]. rewrite T2.
  split; [exact U1|]. split.
  - apply (commit_status_only true true (e_now e1) res1 (e_tab e1) q1 t1 q2); [apply twf_keyed; apply S1| |exact C1].
    apply (res_consistent_of_ok f1); assumption.
  - split; [exact U3|].
    apply (commit_status_only true true (e_now e3) res2 (e_tab e3) q3 t2 q4); [apply twf_keyed; apply S3| |exact C2].
    apply (res_consistent_of_ok f3); assumption.
Qed.

(* consequences over the whole round, per key: a key no registered hook writes to keeps its payload
   version through the round; if it was deleted or absent it stays exactly as it was *)
Theorem round_keeps_unhooked_payloads : forall cf st, reach cf st ->
  forall e' s', round cf (fst st) (snd st) = (e', s') ->
  forall pk, ~ hook_keys (fst st) pk ->
    payload (e_tab e') pk = payload (e_tab (fst st)) pk /\
    (not_live (e_tab (fst st)) pk -> slot_of (e_tab e') pk = slot_of (e_tab (fst st)) pk).
Proof.
  intros cf st H e' s' HR pk Hn.
  destruct (round_commits_change_only_statuses cf st H e' s' HR) as [U1 [O1 [U3 O3]]]. cbv zeta in *.
  set (tr := round_trace cf (fst st) (snd st)) in *.
  destruct (c15_inv_reach cf _ H) as [_ [f [W _]]].
  pose proof (user_writes_in_other _ _ _ U1 W pk Hn) as A1.
  assert (W1 : twf (tr_t1 tr)).
  { destruct (round_trace_spec cf (fst st) (snd st)) as [_ [C1 _]]. fold tr in C1. unfold commit_status in C1.
    pose proof (ustep_twf _ _ (user_writes_ustep _ _ _ U1) W) as We1.
    clear -C1 We1. revert C1. generalize (tr_q1 tr) (tr_q2 tr) (tr_t1 tr) (e_tab (tr_e1 tr)) We1.
    unfold commit_status_gen. induction (tr_res1 tr) as [|r rest IH]; intros q q' t' t Wt C.
    - cbn in C. injection C as C1 C2. subst. exact Wt.
    - cbn [fold_left] in C. destruct (commit_one true true (e_now (tr_e1 tr)) (t, q) r) as [t1 q1] eqn:E1.
      apply (IH q1 q' t' t1); [|exact C].
      destruct (commit_one_cases _ _ _ _ _ _ _ _ E1) as [[A _]|[[cur [_ [A _]]]|[cur [rv [_ [_ [_ [A _]]]]]]]]; subst t1;
        first [apply twf_fresh; exact Wt | rewrite t_insert_tset; apply twf_tset; [apply twf_fresh; exact Wt|reflexivity|reflexivity]]. }
  pose proof (user_writes_in_other _ _ _ U3 W1 pk Hn) as A3.
  split.
  - rewrite (status_only_payload _ _ O3). unfold payload at 1. rewrite A3. fold (payload (tr_t1 tr) pk).
    rewrite (status_only_payload _ _ O1). unfold payload. rewrite A1. reflexivity.
  - intro Hd. destruct O1 as [_ D1]. destruct O3 as [_ D3].
    assert (N1 : not_live (e_tab (tr_e1 tr)) pk) by (unfold not_live; rewrite A1; exact Hd).
    assert (N3 : not_live (e_tab (tr_e3 tr)) pk) by (unfold not_live; rewrite A3, (D1 pk N1), A1; exact Hd).
    rewrite (D3 pk N3), A3, (D1 pk N1), A1. reflexivity.
Qed.

(* with no hook registered, a round changes statuses only *)
Theorem round_without_hooks_changes_only_statuses : forall cf st, reach cf st -> e_hooks (fst st) = [] ->
  forall e' s', round cf (fst st) (snd st) = (e', s') -> status_only (e_tab (fst st)) (e_tab e').
Proof.
  intros cf st H Hh e' s' HR.
  destruct (round_commits_change_only_statuses cf st H e' s' HR) as [U1 [O1 [U3 O3]]]. cbv zeta in *.
  assert (Kn : forall k, hook_keys (fst st) k -> False).
  { intros k [k0 [n [wk Hin]]]. rewrite Hh in Hin. destruct Hin. }
  apply (user_writes_in_mono _ (fun _ => False) _ _ Kn) in U1. apply user_writes_in_none in U1.
  apply (user_writes_in_mono _ (fun _ => False) _ _ Kn) in U3. apply user_writes_in_none in U3.
  rewrite U1 in O1. rewrite U3 in O3. apply (status_only_trans _ _ _ O1 O3).
Qed.

(* ---- non-vacuity: a concrete run *)
Definition ex_cf : cfg := mkCfg false 10 1 8 0 false.
(* put 1, put 2; Update(1) fails at its first attempt; a hook puts a new version of key 2 from inside the
   first Update of key 1 *)
Definition ex_e0 : env := add_hook (add_fault (do_write (do_write (env0 ex_cf) 0 1) 0 2) 1 0) 2 0 0 2.
Definition ex_st0 : env * rstate := (ex_e0, rstate0 ex_cf).
(* one round and 100 time units later: the retry of key 1 is due *)
Definition ex_st1 : env * rstate := let '(e, s) := round ex_cf ex_e0 (rstate0 ex_cf) in (set_now e 100, s).

Lemma ex_reach0 : reach ex_cf ex_st0.
Proof.
  unfold ex_st0, ex_e0.
  eapply reach_env; [|apply es_hook]. eapply reach_env; [|apply es_fault].
  eapply reach_env; [|apply es_write]. eapply reach_env; [|apply es_write]. apply reach_init.
Qed.
Lemma reach_round_time : forall cf e s t, reach cf (e, s) -> reach cf (let '(e', s') := round cf e s in (set_now e' t, s')).
Proof.
  intros cf e s t H. pose proof (reach_round cf e s H) as R. destruct (round cf e s) as [e' s'].
  eapply reach_env; [exact R|apply es_time].
Qed.
Lemma ex_reach1 : reach ex_cf ex_st1.
Proof. unfold ex_st1. exact (reach_round_time ex_cf ex_e0 (rstate0 ex_cf) 100 ex_reach0). Qed.

(* round 1 commits two results of the change stream (the one of key 2 is dropped: a hook put a new
   version meanwhile — the payload of key 2 changes 2 -> 3 by that user write, not by the commit);
   round 2 commits one change-stream result and one retry result *)
Example ex_traces :
  reach ex_cf ex_st0 /\ reach ex_cf ex_st1 /\
  (let tr := round_trace ex_cf (fst ex_st0) (snd ex_st0) in
   map (fun r => (o_pk (r_obj r), o_ver (r_obj r), r_rev r, r_ok r)) (tr_res1 tr) = [(1, 1, 1, false); (2, 2, 2, true)] /\
   tr_res2 tr = [] /\
   erase (e_tab (fst ex_st0)) = [(1, Some (1, 0)); (2, Some (2, 0))] /\
   erase (e_tab (tr_e1 tr)) = [(1, Some (1, 0)); (2, Some (3, 0))] /\
   erase (tr_t1 tr) = [(1, Some (1, 0)); (2, Some (3, 0))] /\
   live_objs (tr_t2 tr) = [(1, 1, 3); (2, 3, 0)]) /\
  (let tr := round_trace ex_cf (fst ex_st1) (snd ex_st1) in
   map (fun r => (o_pk (r_obj r), o_ver (r_obj r), r_rev r, r_ok r)) (tr_res1 tr) = [(2, 3, 3, true)] /\
   map (fun r => (o_pk (r_obj r), o_ver (r_obj r), r_rev r, r_ok r)) (tr_res2 tr) = [(1, 1, 4, true)] /\
   erase (tr_t2 tr) = [(1, Some (1, 0)); (2, Some (3, 0))] /\
   live_objs (tr_t2 tr) = [(1, 1, 2); (2, 3, 2)]) /\
  hook_keys (fst ex_st0) 2 /\ ~ hook_keys (fst ex_st0) 1.
Proof.
  split; [exact ex_reach0|]. split; [exact ex_reach1|].
  split; [vm_compute; repeat split; reflexivity|]. split; [vm_compute; repeat split; reflexivity|].
  split.
  - exists 2, 0, 0. vm_compute. left. reflexivity.
  - intros [k [n [wk Hin]]]. vm_compute in Hin. destruct Hin as [Hin|[]]. discriminate.
Qed.

(* ---- the history of defect D15 (Refuted.stale_retry_clobbers_refuted) under the code as it is *)
Lemma reach_settle : forall fuel cf e s, reach cf (e, s) -> reach cf (settle fuel cf e s).
Proof.
  unfold settle. induction fuel as [|f IH]; intros cf e s H; cbn [settle_gen]; [exact H|].
  destruct (trigger_ready cf e s); [|exact H].
  pose proof (reach_round cf e s H) as R. unfold round in R. destruct (round_gen true true cf e s) as [e' s']. apply IH. exact R.
Qed.

(* put 1 (Update fails twice), another reconciler's status write (statx: o_aux 0 -> 1) after the first
   failure, then the retry is due *)
Definition d15_cf : cfg := mkCfg false 2 10 40 0 false.
Definition d15_st1 : env * rstate :=
  settle 50 d15_cf (do_write (add_fault (add_fault (env0 d15_cf) 1 0) 1 1) 0 1) (rstate0 d15_cf).
Definition d15_st2 : env * rstate := settle 50 d15_cf (do_write (fst d15_st1) 4 1) (snd d15_st1).
Definition d15_st3 : env * rstate := (set_now (fst d15_st2) 20, snd d15_st2).

Lemma d15_reach : reach d15_cf d15_st3.
Proof.
  unfold d15_st3. eapply reach_env; [|apply es_time].
  assert (R1 : reach d15_cf d15_st1).
  { unfold d15_st1. apply reach_settle. eapply reach_env; [|apply es_write].
    eapply reach_env; [|apply es_fault]. eapply reach_env; [|apply es_fault]. apply reach_init. }
  assert (R2 : reach d15_cf d15_st2).
  { unfold d15_st2. apply reach_settle. eapply reach_env; [|apply es_write]. destruct d15_st1 as [e s]. exact R1. }
  destruct d15_st2 as [e s]. exact R2.
Qed.

(* the round from that state retries key 1 (the result carries the object as reconciled: aux 0, revision
   2), the Update fails again, the status commit goes through the fallback (the table holds aux 1 at
   revision 3): the erased table — payload 1, aux 1 — is untouched, and the retry is queued with the
   written object (aux 1) at the written revision 4 *)
Example d15_trace :
  reach d15_cf d15_st3 /\
  (let tr := round_trace d15_cf (fst d15_st3) (snd d15_st3) in
   tr_res1 tr = [] /\
   map (fun r => (o_pk (r_obj r), o_ver (r_obj r), o_aux (r_obj r), r_rev r, r_orig r, r_ok r)) (tr_res2 tr) = [(1, 1, 0, 2, 1, false)] /\
   t_live (e_tab (tr_e3 tr)) 1 = Some (mkObj 1 1 Error 2 1, 3) /\
   erase (e_tab (tr_e3 tr)) = [(1, Some (1, 1))] /\
   erase (tr_t2 tr) = [(1, Some (1, 1))] /\
   t_live (tr_t2 tr) 1 = Some (mkObj 1 1 Error 3 1, 4) /\
   map (fun it => (ri_obj it, ri_rev it, ri_orig it)) (q_items (tr_q4 tr)) = [(mkObj 1 1 Error 3 1, 4, 1)]).
Proof. split; [exact d15_reach|]. vm_compute. repeat split; reflexivity. Qed.
