(* Reconciler/TableWf.v — well-formed tables, the effect of user writes as `wstep`, and the relation
   between a round's snapshot and the current table (C14 nothing_forgotten for a whole round). *)
From Coq Require Import List NArith Bool Lia ZifyN ZifyBool.
From SV Require Import Reconciler.Retries Reconciler.Model Reconciler.RetriesProofs Reconciler.CommitProofs
  Reconciler.RoundProofs Reconciler.CoverProofs.
Import ListNotations.
Open Scope N_scope.

Definition slot_rev (s : slot) : N := match s with Live _ r | Dead _ r => r end.
Definition slot_obj (s : slot) : obj := match s with Live o _ | Dead o _ => o end.

(* keys are unique, every slot is stored under its object's key, revisions are positive, bounded by the
   table revision and pairwise distinct *)
Definition twf (t : table) : Prop :=
  NoDup (map fst (t_slots t)) /\
  (forall k sl, slot_of t k = Some sl -> o_pk (slot_obj sl) = k /\ 0 < slot_rev sl /\ slot_rev sl <= t_rev t) /\
  (forall k1 k2 s1 s2, slot_of t k1 = Some s1 -> slot_of t k2 = Some s2 -> slot_rev s1 = slot_rev s2 -> k1 = k2).

Lemma twf_keyed : forall t, twf t -> keyed t.
Proof. intros t [_ [H _]] k o r Hs. destruct (H k _ Hs) as [A _]. exact A. Qed.

Lemma twf_empty : forall b, twf (t_empty b).
Proof.
  intro b. split; [constructor|]. split.
  - intros k sl H. discriminate.
  - intros k1 k2 s1 s2 H. discriminate.
Qed.

Lemma aset_keys : forall V k (v : V) l k', In k' (map fst (aset k v l)) <-> k' = k \/ In k' (map fst l).
Proof.
  intros V k v l k'. induction l as [|[k0 v0] r IH]; cbn [aset map fst In].
  - split; [intros [H|[]]; left; symmetry; exact H|intros [H|[]]; left; symmetry; exact H].
  - destruct (k0 =? k) eqn:E; cbn [map fst In].
    + apply N.eqb_eq in E. subst k0. split; [intros [H|H]; [left; symmetry; exact H|right; right; exact H]|].
      intros [H|[H|H]]; [left; symmetry; exact H|left; exact H|right; exact H].
    + rewrite IH. split; [intros [H|[H|H]]; auto|intros [H|[H|H]]; auto].
Qed.

Lemma aset_nodup : forall V k (v : V) l, NoDup (map fst l) -> NoDup (map fst (aset k v l)).
Proof.
  intros V k v l. induction l as [|[k0 v0] r IH]; intro H; cbn [aset map fst].
  - constructor; [intros []|constructor].
  - cbn [map fst] in H. inversion H as [|x xs Hx Hr]; subst.
    destruct (k0 =? k) eqn:E; cbn [map fst].
    + apply N.eqb_eq in E. subst k0. constructor; assumption.
    + constructor; [|apply IH; exact Hr]. intro Hin. apply aset_keys in Hin. destruct Hin as [Hin|Hin].
      * apply N.eqb_neq in E. congruence.
      * contradiction.
Qed.

(* writing slot sl under key k at the next revision *)
Definition tset (t : table) (k : N) (sl : slot) : table :=
  mkTable (aset k sl (t_slots t)) (t_rev t + 1) (t_nextid t) (t_pendinit t).

Lemma slot_tset_same : forall t k sl, slot_of (tset t k sl) k = Some sl.
Proof. intros. unfold slot_of, tset. cbn [t_slots]. apply aget_aset_same. Qed.
Lemma slot_tset_other : forall t k sl k', k' <> k -> slot_of (tset t k sl) k' = slot_of t k'.
Proof. intros. unfold slot_of, tset. cbn [t_slots]. apply aget_aset_other. exact H. Qed.

Lemma twf_tset : forall t k sl, twf t -> o_pk (slot_obj sl) = k -> slot_rev sl = t_rev t + 1 -> twf (tset t k sl).
Proof.
  intros t k sl [A [B C]] Hk Hr. split; [apply aset_nodup; exact A|]. split.
  - intros k' sl' Hs. destruct (N.eq_dec k' k) as [E|E].
    + subst k'. rewrite slot_tset_same in Hs. injection Hs as Hs. subst sl'. cbn [tset t_rev]. repeat split; [exact Hk|lia|lia].
    + rewrite slot_tset_other in Hs by exact E. destruct (B k' sl' Hs) as [B1 [B2 B3]]. cbn [tset t_rev]. repeat split; [exact B1|exact B2|lia].
  - intros k1 k2 s1 s2 H1 H2 He.
    destruct (N.eq_dec k1 k) as [E1|E1]; destruct (N.eq_dec k2 k) as [E2|E2]; try congruence.
    + subst k1. rewrite slot_tset_same in H1. injection H1 as H1. subst s1.
      rewrite slot_tset_other in H2 by exact E2. destruct (B k2 s2 H2) as [_ [_ B3]]. lia.
    + subst k2. rewrite slot_tset_same in H2. injection H2 as H2. subst s2.
      rewrite slot_tset_other in H1 by exact E1. destruct (B k1 s1 H1) as [_ [_ B3]]. lia.
    + rewrite slot_tset_other in H1 by exact E1. rewrite slot_tset_other in H2 by exact E2. apply (C k1 k2 s1 s2); assumption.
Qed.

Lemma twf_ext : forall t t', t_slots t' = t_slots t -> t_rev t' = t_rev t -> twf t -> twf t'.
Proof.
  intros t t' Hs Hr [A [B C]]. unfold twf, slot_of in *. rewrite Hs, Hr. split; [exact A|split; [exact B|exact C]].
Qed.

Lemma t_insert_tset : forall t o, t_insert t o = tset t (o_pk o) (Live o (t_rev t + 1)).
Proof. reflexivity. Qed.

Lemma t_delete_cases : forall t k,
  (exists o r, slot_of t k = Some (Live o r) /\ t_delete t k = tset t k (Dead o (t_rev t + 1))) \/
  ((forall o r, slot_of t k <> Some (Live o r)) /\ t_delete t k = t).
Proof.
  intros t k. unfold t_delete, slot_of. destruct (aget k (t_slots t)) as [[o r|o r]|].
  - left. exists o, r. split; reflexivity.
  - right. split; [intros; discriminate|reflexivity].
  - right. split; [intros; discriminate|reflexivity].
Qed.

(* ------------------------------------------------------------------ user writes as steps *)
Inductive wstep : table -> table -> Prop :=
| ws_refl : forall t, wstep t t
| ws_id : forall t, wstep t (fst (t_fresh_id t))
| ws_ins : forall t o, (o_kind o = Error -> exists o0 r0, slot_of t (o_pk o) = Some (Live o0 r0) /\ o_kind o0 = Error) -> wstep t (t_insert t o)
| ws_del : forall t k, wstep t (t_delete t k)
| ws_trans : forall t1 t2 t3, wstep t1 t2 -> wstep t2 t3 -> wstep t1 t3.

Lemma wstep_twf : forall t t', wstep t t' -> twf t -> twf t'.
Proof.
  intros t t' H. induction H; intro W.
  - exact W.
  - apply (twf_ext t); [reflexivity|reflexivity|exact W].
  - rewrite t_insert_tset. apply twf_tset; [exact W|reflexivity|reflexivity].
  - destruct (t_delete_cases t k) as [[o [r [A B]]]|[_ B]]; rewrite B; [|exact W].
    apply twf_tset; [exact W| |reflexivity]. destruct W as [_ [W2 _]]. destruct (W2 k _ A) as [X _]. exact X.
  - auto.
Qed.

Lemma wstep_rev : forall t t', wstep t t' -> t_rev t <= t_rev t'.
Proof.
  intros t t' H. induction H; try (cbn; lia).
  pose proof (t_rev_delete t k). lia.
Qed.

Lemma w_put_wstep : forall e k, wstep (e_tab e) (e_tab (w_put e k)).
Proof.
  intros e k. unfold w_put. cbn [bump_ver e_tab e_ver].
  destruct (t_fresh_id (e_tab e)) as [t id] eqn:Ef. cbn [add_urev set_tab e_tab].
  apply (ws_trans _ t); [replace t with (fst (t_fresh_id (e_tab e))) by (rewrite Ef; reflexivity); apply ws_id|].
  apply ws_ins. cbn. discriminate.
Qed.
Lemma w_del_wstep : forall e k, wstep (e_tab e) (e_tab (w_del e k)).
Proof.
  intros e k. unfold w_del. destruct (t_live (e_tab e) k); [|apply ws_refl]. cbn [add_urev set_tab e_tab]. apply ws_del.
Qed.
Lemma w_stat_wstep : forall g e k, keyed (e_tab e) -> wstep (e_tab e) (e_tab (w_stat g e k)).
Proof.
  intros g e k Hk. unfold w_stat. destruct (t_live (e_tab e) k) as [[o r]|] eqn:El; [|apply ws_refl].
  match goal with |- wstep _ (e_tab (if ?b then _ else _)) => destruct b end; [apply ws_refl|].
  cbn [add_urev set_tab e_tab]. apply ws_ins. intros He. exists o, r.
  apply t_live_slot in El. change (o_pk (bump_aux o)) with (o_pk o). rewrite (Hk k o r El). split; [exact El|exact He].
Qed.
Lemma w_ref_wstep : forall e k, wstep (e_tab e) (e_tab (w_ref e k)).
Proof.
  intros e k. unfold w_ref. destruct (t_live (e_tab e) k) as [[o r]|]; [|apply ws_refl].
  destruct (o_kind o); try apply ws_refl.
  destruct (t_fresh_id (e_tab e)) as [t id] eqn:Ef. cbn [add_urev set_tab e_tab].
  apply (ws_trans _ t); [replace t with (fst (t_fresh_id (e_tab e))) by (rewrite Ef; reflexivity); apply ws_id|].
  apply ws_ins. cbn. discriminate.
Qed.
Lemma w_pend_wstep : forall e k, wstep (e_tab e) (e_tab (w_pend e k)).
Proof.
  intros e k. unfold w_pend. destruct (t_live (e_tab e) k) as [[o r]|]; [|apply ws_refl].
  destruct (t_fresh_id (e_tab e)) as [t id] eqn:Ef. cbn [add_urev set_tab e_tab].
  apply (ws_trans _ t); [replace t with (fst (t_fresh_id (e_tab e))) by (rewrite Ef; reflexivity); apply ws_id|].
  apply ws_ins. cbn. discriminate.
Qed.

Lemma do_write_wstep : forall e kind k, keyed (e_tab e) -> wstep (e_tab e) (e_tab (do_write e kind k)).
Proof.
  intros e kind k Hk. unfold do_write.
  destruct kind as [|[[p|[p|p|]|]|[p|[p|p|]|]|]];
    first [ apply (ws_trans _ (e_tab (w_del e k))); [apply w_del_wstep|apply w_put_wstep]
          | apply w_put_wstep | apply w_del_wstep | apply w_stat_wstep; exact Hk
          | apply w_ref_wstep | apply w_pend_wstep ].
Qed.

(* facts about the parts of env a write does not touch *)
Lemma do_write_frame : forall e kind k,
  e_calls (do_write e kind k) = e_calls e /\ e_now (do_write e kind k) = e_now e /\
  e_hooks (do_write e kind k) = e_hooks e /\ e_faults (do_write e kind k) = e_faults e /\
  e_foff (do_write e kind k) = e_foff e /\ e_attempts (do_write e kind k) = e_attempts e /\
  e_target (do_write e kind k) = e_target e.
Proof.
  intros e kind k.
  assert (P : forall e k, e_calls (w_put e k) = e_calls e /\ e_now (w_put e k) = e_now e /\ e_hooks (w_put e k) = e_hooks e /\
     e_faults (w_put e k) = e_faults e /\ e_foff (w_put e k) = e_foff e /\ e_attempts (w_put e k) = e_attempts e /\ e_target (w_put e k) = e_target e).
  { intros e0 k0. unfold w_put. cbn. repeat split. }
  assert (Q : forall e k, e_calls (w_del e k) = e_calls e /\ e_now (w_del e k) = e_now e /\ e_hooks (w_del e k) = e_hooks e /\
     e_faults (w_del e k) = e_faults e /\ e_foff (w_del e k) = e_foff e /\ e_attempts (w_del e k) = e_attempts e /\ e_target (w_del e k) = e_target e).
  { intros e0 k0. unfold w_del. destruct (t_live (e_tab e0) k0); cbn; repeat split. }
  assert (R : forall g e k, e_calls (w_stat g e k) = e_calls e /\ e_now (w_stat g e k) = e_now e /\ e_hooks (w_stat g e k) = e_hooks e /\
     e_faults (w_stat g e k) = e_faults e /\ e_foff (w_stat g e k) = e_foff e /\ e_attempts (w_stat g e k) = e_attempts e /\ e_target (w_stat g e k) = e_target e).
  { intros g e0 k0. unfold w_stat. destruct (t_live (e_tab e0) k0) as [[o r]|]; [|repeat split].
    match goal with |- e_calls (if ?c then _ else _) = _ /\ _ => destruct c end; cbn; repeat split. }
  assert (S : forall e k, e_calls (w_ref e k) = e_calls e /\ e_now (w_ref e k) = e_now e /\ e_hooks (w_ref e k) = e_hooks e /\
     e_faults (w_ref e k) = e_faults e /\ e_foff (w_ref e k) = e_foff e /\ e_attempts (w_ref e k) = e_attempts e /\ e_target (w_ref e k) = e_target e).
  { intros e0 k0. unfold w_ref. destruct (t_live (e_tab e0) k0) as [[o r]|]; [|repeat split]. destruct (o_kind o); cbn; repeat split. }
  assert (T : forall e k, e_calls (w_pend e k) = e_calls e /\ e_now (w_pend e k) = e_now e /\ e_hooks (w_pend e k) = e_hooks e /\
     e_faults (w_pend e k) = e_faults e /\ e_foff (w_pend e k) = e_foff e /\ e_attempts (w_pend e k) = e_attempts e /\ e_target (w_pend e k) = e_target e).
  { intros e0 k0. unfold w_pend. destruct (t_live (e_tab e0) k0) as [[o r]|]; cbn; repeat split. }
  unfold do_write.
  destruct kind as [|[[p|[p|p|]|]|[p|[p|p|]|]|]]; try apply P; try apply Q; try apply R; try apply S; try apply T.
Qed.

Lemma run_hooks_wstep : forall hs k n e, twf (e_tab e) ->
  wstep (e_tab e) (e_tab (run_hooks hs k n e)) /\ e_calls (run_hooks hs k n e) = e_calls e /\
  e_now (run_hooks hs k n e) = e_now e /\ e_faults (run_hooks hs k n e) = e_faults e /\ e_foff (run_hooks hs k n e) = e_foff e.
Proof.
  induction hs as [|[[k' n'] [wk k2]] r IH]; intros k n e W; cbn [run_hooks].
  - repeat split. apply ws_refl.
  - destruct ((k' =? k) && (n' =? n)).
    + pose proof (do_write_wstep e wk k2 (twf_keyed _ W)) as S1.
      destruct (do_write_frame e wk k2) as [F1 [F2 [_ [F4 [F5 _]]]]].
      destruct (IH k n (do_write e wk k2) (wstep_twf _ _ S1 W)) as [S2 [G1 [G2 [G4 G5]]]].
      split; [eapply ws_trans; eassumption|]. repeat split; congruence.
    + apply IH. exact W.
Qed.

(* a scripted operation: the table moves by user-write steps only; exactly one call is logged *)
Lemma do_call_effect : forall e snap fresh op o rev e' ok, twf (e_tab e) ->
  do_call e snap fresh op o rev = (e', ok) ->
  wstep (e_tab e) (e_tab e') /\ e_now e' = e_now e /\
  exists c, e_calls e' = e_calls e ++ [c] /\ cl_op c = op /\ cl_pk c = o_pk o /\ cl_rev c = rev /\ cl_ok c = ok.
Proof.
  intros e snap fresh op o rev e' ok W H. unfold do_call in H.
  destruct fresh; injection H as H1 H2; subst e'; cbn [e_tab e_now e_calls].
  - match goal with |- wstep _ (e_tab (run_hooks ?h2 ?k2 ?n2 (run_hooks ?h1 ?k1 ?n1 ?E1))) /\ _ =>
      destruct (run_hooks_wstep h1 k1 n1 E1 W) as [S1 [C1 [N1 _]]];
      destruct (run_hooks_wstep h2 k2 n2 (run_hooks h1 k1 n1 E1) (wstep_twf _ _ S1 W)) as [S2 [C2 [N2 _]]] end.
    split; [eapply ws_trans; eassumption|]. split; [rewrite N2, N1; reflexivity|].
    eexists. split; [rewrite C2, C1; reflexivity|]. cbn. repeat split. exact H2.
  - match goal with |- wstep _ (e_tab (run_hooks ?h1 ?k1 ?n1 ?E1)) /\ _ =>
      destruct (run_hooks_wstep h1 k1 n1 E1 W) as [S1 [C1 [N1 _]]] end.
    split; [exact S1|]. split; [rewrite N1; reflexivity|].
    eexists. split; [rewrite C1; reflexivity|]. cbn. repeat split. exact H2.
Qed.
