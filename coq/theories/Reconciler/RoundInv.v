(* Reconciler/RoundInv.v — nothing_forgotten for a WHOLE round (single mode) and for runs: the cover
   invariant is preserved by round_gen true true for arbitrary fault oracles and arbitrary user writes
   placed before the round, from inside any operation, and between the rounds. *)
From Coq Require Import List NArith Bool Lia ZifyN ZifyBool.
From SV Require Import Reconciler.Retries Reconciler.Model Reconciler.RetriesProofs Reconciler.CommitProofs
  Reconciler.RoundProofs Reconciler.CoverProofs Reconciler.StepProofs Reconciler.TableWf Reconciler.StreamProofs
  Reconciler.PhaseProofs Reconciler.BatchProofs.
Import ListNotations.
Open Scope N_scope.

(* ------------------------------------------------------------------ status commits keep the side invariants *)
Definition side_inv (t : table) (q : retries) : Prop :=
  twf t /\ uniq q /\ forall it, In it (q_items q) -> ri_orig it <= t_rev t /\ ri_rev it <= t_rev t.

Lemma commit_one_side : forall fixed efb now t q r t' q', side_inv t q -> r_orig r <= t_rev t -> r_rev r <= t_rev t ->
  commit_one fixed efb now (t, q) r = (t', q') -> side_inv t' q' /\ t_rev t <= t_rev t'.
Proof.
  intros fixed efb now t q r t' q' [W [U P]] Ho Hr H.
  destruct (commit_one_spec _ _ _ _ _ _ _ _ (twf_keyed _ W) H) as [_ [Hc Hq]].
  assert (Hm : t_rev t <= t_rev t').
  { destruct Hc as [[_ [B _]]|[[cur [_ [_ C]]]|[cur [rv0 [_ [_ [_ [_ C]]]]]]]]; lia. }
  assert (W' : twf t').
  { unfold commit_one, t_fresh_id, t_cas in H.
    set (t1 := mkTable (t_slots t) (t_rev t) (t_nextid t + 1) (t_pendinit t)) in *.
    assert (W1 : twf t1) by (apply (twf_ext t); [reflexivity|reflexivity|exact W]).
    destruct (t_live t1 (o_pk (with_status (r_obj r) (if r_ok r then Done else Error) (t_nextid t)))) as [[cur rv]|].
    - destruct (rv =? r_rev r).
      + destruct (negb (r_ok r) && true); injection H as H1 H2; subst t';
          rewrite t_insert_tset; apply twf_tset; try exact W1; reflexivity.
      + destruct (fallback_ok efb cur r).
        * destruct (negb (r_ok r) && true); injection H as H1 H2; subst t';
            rewrite t_insert_tset; apply twf_tset; try exact W1; reflexivity.
        * destruct (negb (r_ok r) && false); injection H as H1 H2; subst t'; exact W1.
    - destruct (negb (r_ok r) && false); injection H as H1 H2; subst t'; exact W1. }
  split; [|exact Hm]. split; [exact W'|]. rewrite Hq.
  destruct (negb (r_ok r) && wrote t t').
  - split; [apply uniq_add; exact U|]. intros it Hin. rewrite add_items in Hin. apply in_put_item in Hin.
    destruct Hin as [Hin|Hin]; [subst it; cbn; destruct fixed; split; lia|destruct (P it Hin); split; lia].
  - split; [exact U|]. intros it Hin. destruct (P it Hin). split; lia.
Qed.

Lemma commit_status_side : forall fixed efb now res t q t' q', side_inv t q ->
  (forall r, In r res -> r_orig r <= t_rev t /\ r_rev r <= t_rev t) ->
  commit_status_gen fixed efb now t q res = (t', q') -> side_inv t' q' /\ t_rev t <= t_rev t'.
Proof.
  intros fixed efb now res. unfold commit_status_gen. induction res as [|r rest IH]; intros t q t' q' S Hp H.
  - cbn in H. injection H as H1 H2. subst. split; [exact S|lia].
  - cbn [fold_left] in H. destruct (commit_one fixed efb now (t, q) r) as [t1 q1] eqn:E1.
    destruct (Hp r (or_introl eq_refl)) as [P1 P2].
    destruct (commit_one_side _ _ _ _ _ _ _ _ S P1 P2 E1) as [S1 M1].
    destruct (IH t1 q1 t' q' S1) as [S2 M2]; [|exact H|].
    + intros r2 Hin. destruct (Hp r2 (or_intror Hin)). split; lia.
    + split; [exact S2|lia].
Qed.

(* ------------------------------------------------------------------ the retry phase *)
Record retry_inv (e : env) (q : retries) (res : list opres) (c : N) : Prop := {
  ri_twf : twf (e_tab e);
  ri_cur : c <= t_rev (e_tab e);
  ri_uniq : uniq q;
  ri_past : forall it, In it (q_items q) -> ri_orig it <= t_rev (e_tab e) /\ ri_rev it <= t_rev (e_tab e);
  ri_nd : NoDup (res_pks res);
  ri_rpast : forall r, In r res -> r_orig r <= t_rev (e_tab e) /\ r_rev r <= t_rev (e_tab e);
  ri_popped : forall p it, In p (res_pks res) -> find_item p (q_items q) = Some it -> ri_inq it = false;
  ri_cov : forall pk, covered (Dlog e) (e_tab e) c res q pk
}.

Lemma find_clear_cases : forall q k p it, find_item p (q_items (r_clear q k)) = Some it -> p <> k /\ find_item p (q_items q) = Some it.
Proof.
  intros q k p it H. rewrite clear_items in H. destruct (N.eq_dec p k) as [E|E].
  - subst p. rewrite find_item_remove_same in H. discriminate.
  - rewrite find_item_remove_other in H by exact E. split; assumption.
Qed.

Lemma retry_step : forall e snap q res c it e' q' res',
  retry_inv e q res c -> r_top q = Some it ->
  process_single e snap false (r_pop q) res (ri_obj it) (ri_rev it) (ri_orig it) (ri_del it) = (e', q', res') ->
  retry_inv e' q' res' c.
Proof.
  intros e snap q res c it e' q' res' [I1 I2 I3 I4 I5 I6 I7 I8] Ht H.
  assert (Hin : In it (q_items q)) by (destruct (top_of_spec _ _ Ht) as [A _]; exact A).
  assert (Hq : ri_inq it = true) by (destruct (top_of_spec _ _ Ht) as [_ [A _]]; exact A).
  assert (Hf : find_item (ri_pk it) (q_items q) = Some it) by (apply find_item_uniq; assumption).
  assert (Hnew : ~ In (ri_pk it) (res_pks res)).
  { intro X. rewrite (I7 _ _ X Hf) in Hq. discriminate. }
  assert (Hpop : forall p i, find_item p (q_items (r_pop q)) = Some i ->
                 (p = ri_pk it /\ i = set_inq false it) \/ (p <> ri_pk it /\ find_item p (q_items q) = Some i)).
  { intros p i X. destruct (N.eq_dec p (ri_pk it)) as [E|E].
    - left. subst p. rewrite (popped_find q it I3 Ht) in X. injection X as X. split; [reflexivity|symmetry; exact X].
    - right. split; [exact E|]. rewrite find_pop_other in X; [exact X|exact I3|].
      intros t0 Ht0. rewrite Ht in Ht0. injection Ht0 as Y. subst t0. congruence. }
  assert (Hpin : forall i, In i (q_items (r_pop q)) -> ri_orig i <= t_rev (e_tab e) /\ ri_rev i <= t_rev (e_tab e)).
  { intros i Hi. rewrite pop_items in Hi. unfold r_top in Ht. rewrite Ht in Hi. apply in_put_item in Hi.
    destruct Hi as [Hi|Hi]; [subst i; cbn; apply I4; exact Hin|apply I4; exact Hi]. }
  destruct (ri_del it) eqn:Hd.
  - (* delete item *)
    unfold process_single in H.
    destruct (do_call e snap false 1 (ri_obj it) (ri_rev it)) as [e1 ok] eqn:Ec.
    destruct (do_call_effect _ _ _ _ _ _ _ _ I1 Ec) as [WS [_ [cl [LC [L1 [L2 [L3 L4]]]]]]].
    set (D' := fun p r0 => Dlog e p r0 \/ (p = o_pk (ri_obj it) /\ r0 = ri_rev it)).
    assert (C2 : forall pk, covered D' (e_tab e) c res (r_pop q) pk).
    { intro pk. specialize (I8 pk). unfold covered in *.
      destruct (N.eq_dec pk (ri_pk it)) as [E|E].
      - subst pk. destruct (slot_of (e_tab e) (ri_pk it)) as [[o r|o r]|]; [| |exact I].
        + destruct (o_kind o); try exact I8.
          destruct I8 as [[i [A [B _]]]|A]; [rewrite Hf in A; injection A as A; subst i; congruence|right; exact A].
        + destruct I8 as [A|[[i [A [_ [B _]]]]|A]]; [left; exact A| |right; right; left; exact A].
          rewrite Hf in A. injection A as A. subst i. right. right. right. split; [reflexivity|symmetry; exact B].
      - destruct (slot_of (e_tab e) pk) as [[o r|o r]|]; [| |exact I].
        + destruct (o_kind o); try exact I8.
          destruct I8 as [A|A]; [left; apply (item_upd_pop_other q it); assumption|right; exact A].
        + destruct I8 as [A|[A|A]]; [left; exact A|right; left; apply (item_covers_pop_other q it); assumption|right; right; left; exact A]. }
    assert (W0 : wstate D' (e_tab e) c res (r_pop q)) by (split; [apply twf_keyed; exact I1|split; [exact I2|exact C2]]).
    pose proof (do_call_wstate D' e snap false 1 (ri_obj it) (ri_rev it) _ _ _ W0) as W1.
    rewrite Ec in W1. cbn [fst] in W1. destruct W1 as [_ [_ C3]].
    assert (DM : forall p r0, Dlog e p r0 -> Dlog e1 p r0) by (apply (Dlog_mono e e1 [cl] LC)).
    pose proof (wstep_rev _ _ WS) as M.
    assert (Unq : forall i, find_item (o_pk (ri_obj it)) (q_items (r_pop q)) = Some i -> ri_inq i = false).
    { intros i X. destruct (Hpop _ _ X) as [[_ Y]|[Y _]]; [subst i; reflexivity|exfalso; apply Y; reflexivity]. }
    destruct ok; injection H as H1 H2 H3; subst e' q' res'.
    + constructor.
      * apply (wstep_twf _ _ WS I1).
      * lia.
      * apply uniq_clear. apply uniq_pop. exact I3.
      * intros i Hi. apply in_clear_items in Hi. destruct (Hpin i Hi). split; lia.
      * exact I5.
      * intros r Hr. destruct (I6 r Hr). split; lia.
      * intros p i Hp Hfi. destruct (find_clear_cases _ _ _ _ Hfi) as [Y1 Y2].
        destruct (Hpop _ _ Y2) as [[Z _]|[_ Z]]; [contradiction|apply (I7 p i Hp Z)].
      * intro pk. apply cov_clear_unqueued; [exact Unq|].
        apply (covered_D_mono D'); [|apply C3]. intros p r0 [X|[X1 X2]]; [apply DM; exact X|].
        exists cl. split; [rewrite LC; apply in_or_app; right; left; reflexivity|].
        rewrite L1, L2, L3, L4. subst p r0. repeat split.
    + constructor.
      * apply (wstep_twf _ _ WS I1).
      * lia.
      * apply uniq_add. apply uniq_pop. exact I3.
      * intros i Hi. rewrite add_items in Hi. apply in_put_item in Hi. destruct Hi as [Hi|Hi].
        -- subst i. cbn. destruct (I4 it Hin). split; lia.
        -- destruct (Hpin i Hi). split; lia.
      * exact I5.
      * intros r Hr. destruct (I6 r Hr). split; lia.
      * intros p i Hp Hfi. assert (Pne : p <> o_pk (ri_obj it)) by (intro X; subst p; apply Hnew; exact Hp).
        rewrite add_other in Hfi by exact Pne.
        destruct (Hpop _ _ Hfi) as [[Z _]|[_ Z]]; [contradiction|apply (I7 p i Hp Z)].
      * intro pk. apply cov_add_del; [exact Unq|].
        apply (covered_D_mono D'); [|apply C3]. intros p r0 [X|X]; [left; apply DM; exact X|right; exact X].
  - (* update item *)
    assert (W0 : wstate (Dlog e) (e_tab e) c res q) by (split; [apply twf_keyed; exact I1|split; [exact I2|exact I8]]).
    destruct (retry_update_step_covers (Dlog e) c e snap q res it e' q' res' I3 Ht Hd W0 H) as [[K1 [K2 K3]] U1].
    unfold process_single in H.
    destruct (do_call e snap false 0 (ri_obj it) (ri_rev it)) as [e1 ok] eqn:Ec.
    destruct (do_call_effect _ _ _ _ _ _ _ _ I1 Ec) as [WS [_ [cl [LC _]]]].
    pose proof (wstep_rev _ _ WS) as M.
    injection H as H1 H2 H3. subst e' res'.
    constructor.
    + apply (wstep_twf _ _ WS I1).
    + exact K2.
    + exact U1.
    + intros i Hi. assert (X : In i (q_items (r_pop q))).
      { subst q'. destruct ok; [apply in_clear_items in Hi|]; exact Hi. }
      destruct (Hpin i X). split; lia.
    + unfold res_pks. rewrite map_app. cbn [map]. apply nodup_snoc; [exact I5|exact Hnew].
    + intros r Hr. apply in_app_or in Hr. destruct Hr as [Hr|[Hr|[]]].
      * destruct (I6 r Hr). split; lia.
      * subst r. cbn. destruct (I4 it Hin). split; lia.
    + intros p i Hp Hfi. unfold res_pks in Hp. rewrite map_app in Hp. apply in_app_or in Hp.
      assert (Y : find_item p (q_items (r_pop q)) = Some i).
      { subst q'. destruct ok; [destruct (find_clear_cases _ _ _ _ Hfi) as [_ Y]; exact Y|exact Hfi]. }
      destruct (Hpop _ _ Y) as [[_ Z]|[Z1 Z2]]; [subst i; reflexivity|].
      destruct Hp as [Hp|[Hp|[]]]; [apply (I7 p i Hp Z2)|cbn in Hp; unfold ri_pk in Z1; congruence].
    + intro pk. apply (covered_D_mono (Dlog e)); [apply (Dlog_mono e e1 [cl] LC)|apply K3].
Qed.

Theorem process_retries_inv : forall fuel rs snap e q res nrec c e' q' res' nrec',
  retry_inv e q res c -> process_retries fuel rs snap e q res nrec = (e', q', res', nrec') ->
  retry_inv e' q' res' c.
Proof.
  induction fuel as [|f IH]; intros rs snap e q res nrec c e' q' res' nrec' INV H; cbn [process_retries] in H.
  - injection H as H1 H2 H3 H4. subst. exact INV.
  - destruct (nrec <? rs); [|injection H as H1 H2 H3 H4; subst; exact INV].
    destruct (r_top q) as [it|] eqn:Et; [|injection H as H1 H2 H3 H4; subst; exact INV].
    destruct (e_now e <? ri_at it); [injection H as H1 H2 H3 H4; subst; exact INV|].
    destruct (process_single e snap false (r_pop q) res (ri_obj it) (ri_rev it) (ri_orig it) (ri_del it)) as [[e1 q1] res1] eqn:Ep.
    apply (IH rs snap e1 q1 res1 (nrec + 1) c e' q' res' nrec'); [|exact H].
    apply (retry_step e snap q res c it e1 q1 res1 INV Et Ep).
Qed.

(* ------------------------------------------------------------------ the whole round *)
Definition round_inv (e : env) (s : rstate) : Prop :=
  side_inv (e_tab e) (k_ret s) /\ k_cursor s <= t_rev (e_tab e) /\
  forall pk, covered (Dlog e) (e_tab e) (k_cursor s) [] (k_ret s) pk.

Lemma Dlog_set_tab : forall e t p r, Dlog (set_tab e t) p r <-> Dlog e p r.
Proof. intros. unfold Dlog. cbn. reflexivity. Qed.

Lemma single_lastrev : forall chs rs snap e q res nrec lastrev e' q' res' nrec' lastrev',
  single rs snap chs e q res nrec lastrev = (e', q', res', nrec', lastrev') ->
  lastrev' = lastrev \/ exists ch, In ch chs /\ lastrev' = c_rev ch.
Proof.
  induction chs as [|ch rest IH]; intros rs snap e q res nrec lastrev e' q' res' nrec' lastrev' H; cbn [single] in H.
  - injection H as H1 H2 H3 H4 H5. left. symmetry. exact H5.
  - right. destruct (negb (c_del ch) && negb (is_pending (c_obj ch))).
    + destruct (IH _ _ _ _ _ _ _ _ _ _ _ _ H) as [X|[d [X1 X2]]]; [exists ch; split; [left; reflexivity|exact X]|exists d; split; [right; exact X1|exact X2]].
    + destruct (process_single e snap true (r_clear q (o_pk (c_obj ch))) res (c_obj ch) (c_rev ch) (c_rev ch) (c_del ch)) as [[e1 q1] res1].
      destruct (rs <=? nrec + 1).
      * injection H as H1 H2 H3 H4 H5. exists ch. split; [left; reflexivity|symmetry; exact H5].
      * destruct (IH _ _ _ _ _ _ _ _ _ _ _ _ H) as [X|[d [X1 X2]]]; [exists ch; split; [left; reflexivity|exact X]|exists d; split; [right; exact X1|exact X2]].
Qed.

Lemma batch_collect_lastrev : forall chs rs q dels upds nrec lastrev q' dels' upds' nrec' lastrev',
  batch_collect rs chs q dels upds nrec lastrev = (q', dels', upds', nrec', lastrev') ->
  lastrev' = lastrev \/ exists ch, In ch chs /\ lastrev' = c_rev ch.
Proof.
  induction chs as [|ch rest IH]; intros rs q dels upds nrec lastrev q' dels' upds' nrec' lastrev' H; cbn [batch_collect] in H.
  - injection H as H1 H2 H3 H4 H5. left. symmetry. exact H5.
  - right. destruct (negb (c_del ch) && negb (is_pending (c_obj ch))).
    + destruct (IH _ _ _ _ _ _ _ _ _ _ _ H) as [X|[d [X1 X2]]]; [exists ch; split; [left; reflexivity|exact X]|exists d; split; [right; exact X1|exact X2]].
    + destruct (rs <=? nrec + 1).
      * injection H as H1 H2 H3 H4 H5. exists ch. split; [left; reflexivity|symmetry; exact H5].
      * destruct (IH _ _ _ _ _ _ _ _ _ _ _ H) as [X|[d [X1 X2]]]; [exists ch; split; [left; reflexivity|exact X]|exists d; split; [right; exact X1|exact X2]].
Qed.

(* the change-stream phase of a round, either mode *)
Definition phase1 (cf : cfg) (snap : table) (chs : list change) (e : env) (q : retries)
  : env * retries * list opres * N * N :=
  if cf_batch cf then
    let '(q, dels, upds, nrec, lastrev) := batch_collect (cf_rs cf) chs q [] [] 0 0 in
    let (e, q) := batch_deletes snap dels e q in
    let (e, l) := batch_update_calls snap upds e [] in
    let (q, res) := batch_results l q [] in
    (e, q, res, nrec, lastrev)
  else single (cf_rs cf) snap chs e q [] 0 0.

Lemma phase1_inv : forall cf snap c0 chs e q e1 q1 res1 nrec1 lastrev1,
  phase_inv (Dlog e) snap e q [] (curs c0 0) chs ->
  phase1 cf snap chs e q = (e1, q1, res1, nrec1, lastrev1) ->
  (exists chs', phase_inv (Dlog e1) snap e1 q1 res1 (curs c0 lastrev1) chs') /\
  (lastrev1 = 0 \/ exists ch, In ch chs /\ lastrev1 = c_rev ch).
Proof.
  intros cf snap c0 chs e q e1 q1 res1 nrec1 lastrev1 PH H. unfold phase1 in H. destruct (cf_batch cf).
  - destruct (batch_collect (cf_rs cf) chs q [] [] 0 0) as [[[[qa dels] upds] nrec] lastrev] eqn:HC.
    destruct (batch_deletes snap dels e qa) as [e2 q2] eqn:HD.
    destruct (batch_update_calls snap upds e2 []) as [e3 l] eqn:HU.
    destruct (batch_results l q2 []) as [q4 res] eqn:HR.
    injection H as H1 H2 H3 H4 H5. subst e1 q1 res1 nrec1 lastrev1. split.
    + apply (batch_inv _ _ _ _ _ _ _ _ _ _ _ _ _ _ _ _ _ PH HC HD HU HR).
    + apply (batch_collect_lastrev _ _ _ _ _ _ _ _ _ _ _ _ HC).
  - split; [apply (single_inv _ _ _ _ _ _ _ _ _ _ _ _ _ _ PH H)|apply (single_lastrev _ _ _ _ _ _ _ _ _ _ _ _ _ H)].
Qed.

Theorem round_keeps_inv : forall cf e s e' s',
  round_inv e s -> round cf e s = (e', s') -> round_inv e' s' /\ k_cursor s <= k_cursor s'.
Proof.
  intros cf e s e' s' [[W [U P]] [Hc Hcov]] H.
  unfold round, round_gen in H. cbv zeta in H.
  set (snap := e_tab e) in *.
  change (if cf_batch cf
          then let '(q, dels, upds, nrec, lastrev) := batch_collect (cf_rs cf) (changes_of snap (k_cursor s)) (k_ret s) [] [] 0 0 in
               let (e0, q0) := batch_deletes snap dels e q in
               let (e1, l) := batch_update_calls snap upds e0 [] in
               let (q1, res) := batch_results l q0 [] in (e1, q1, res, nrec, lastrev)
          else single (cf_rs cf) snap (changes_of snap (k_cursor s)) e (k_ret s) [] 0 0)
    with (phase1 cf snap (changes_of snap (k_cursor s)) e (k_ret s)) in H.
  destruct (phase1 cf snap (changes_of snap (k_cursor s)) e (k_ret s)) as [[[[e1 q1] res1] nrec1] lastrev1] eqn:E1.
  assert (INV0 : phase_inv (Dlog e) snap e (k_ret s) [] (curs (k_cursor s) 0) (changes_of snap (k_cursor s))).
  { constructor; first [assumption | exact Hc | apply snap_rel_refl | apply changes_stream_ok; exact W
                        | intros ch _ [] | intros r [] | constructor ]. }
  destruct (phase1_inv _ _ _ _ _ _ _ _ _ _ _ INV0 E1) as [[chs' [J1 J2 J3 J4 J5 J6 J7 J8 J9 J10 J11]] LR].
  set (cur1 := curs (k_cursor s) lastrev1) in *.
  assert (SR : t_rev snap <= t_rev (e_tab e1)) by (destruct J3 as [X _]; exact X).
  assert (CM : k_cursor s <= cur1).
  { unfold cur1, curs. destruct (lastrev1 =? 0) eqn:E; [lia|]. apply N.eqb_neq in E.
    destruct LR as [X|[ch [X1 X2]]]; [congruence|].
    destruct (changes_stream_ok snap (k_cursor s) W) as [_ [_ [_ [_ S5]]]]. specialize (S5 ch X1). lia. }
  destruct (commit_status_gen true true (e_now e1) (e_tab e1) q1 res1) as [t1 q2] eqn:C1.
  assert (Hres1 : forall r, In r res1 -> r_orig r <= t_rev (e_tab e1) /\ r_rev r <= t_rev (e_tab e1)).
  { intros r Hr. destruct (J10 r Hr). split; lia. }
  destruct (commit_status_side _ _ _ _ _ _ _ _ (conj J1 (conj J6 J7)) Hres1 C1) as [[W1 [U1 P1]] M1].
  assert (Cov1 : forall pk, covered (Dlog e1) t1 cur1 [] q2 pk).
  { apply (commit_status_covers (Dlog e1) cur1 (e_now e1) res1 (e_tab e1) q1 t1 q2 (twf_keyed _ J1) J6 J8).
    - intros r Hr. apply Hres1. exact Hr.
    - exact J11.
    - exact C1. }
  destruct (process_retries (N.to_nat (cf_rs cf)) (cf_rs cf) snap (set_tab e1 t1) q2 [] nrec1) as [[[e3 q3] res2] nrec3] eqn:R1.
  assert (RI0 : retry_inv (set_tab e1 t1) q2 [] cur1).
  { constructor; first [assumption | cbn; lia | intros r [] | intros p it [] | intro pk; apply Cov1 | constructor]. }
  pose proof (process_retries_inv _ _ _ _ _ _ _ _ _ _ _ _ RI0 R1) as [K1 K2 K3 K4 K5 K6 K7 K8].
  destruct (commit_status_gen true true (e_now e3) (e_tab e3) q3 res2) as [t2 q4] eqn:C2.
  destruct (commit_status_side _ _ _ _ _ _ _ _ (conj K1 (conj K3 K4)) K6 C2) as [[W2 [U2 P2]] M2].
  assert (Cov2 : forall pk, covered (Dlog e3) t2 cur1 [] q4 pk).
  { apply (commit_status_covers (Dlog e3) cur1 (e_now e3) res2 (e_tab e3) q3 t2 q4 (twf_keyed _ K1) K3 K5).
    - intros r Hr. apply K6. exact Hr.
    - exact K8.
    - exact C2. }
  match type of H with (if ?b then _ else _) = _ => destruct b end; injection H as H1 H2; subst e' s'; unfold round_inv, side_inv; cbn.
  - split; [|exact CM]. split; [split; [exact W2|split; [exact U2|exact P2]]|]. split; [exact (N.le_trans _ _ _ K2 M2)|].
    intro pk. apply (covered_D_mono (Dlog e3)); [|apply Cov2].
    intros p r [c [A B]]. exists c. split; [cbn; apply in_or_app; left; exact A|exact B].
  - split; [|exact CM]. split; [split; [exact W2|split; [exact U2|exact P2]]|]. split; [exact (N.le_trans _ _ _ K2 M2)|]. exact Cov2.
Qed.
