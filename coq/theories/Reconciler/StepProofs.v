(* Reconciler/StepProofs.v — the retry phase keeps the cover invariant (C14): writes performed by hooks
   from inside a scripted operation, and one processRetries step on an update item. *)
From Coq Require Import List NArith Bool Lia ZifyN ZifyBool.
From SV Require Import Reconciler.Retries Reconciler.Model Reconciler.RetriesProofs Reconciler.CommitProofs
  Reconciler.RoundProofs Reconciler.CoverProofs.
Import ListNotations.
Open Scope N_scope.

Lemma do_write_wstate : forall D e kind k c res q,
  wstate D (e_tab e) c res q -> wstate D (e_tab (do_write e kind k)) c res q.
Proof.
  intros D e kind k c res q [A [B C]].
  destruct (do_write_covers D e kind k c res q A B C) as [A' [B' C']].
  split; [exact A'|split; [exact B'|exact C']].
Qed.

Lemma run_hooks_wstate : forall D hs k n e c res q,
  wstate D (e_tab e) c res q -> wstate D (e_tab (run_hooks hs k n e)) c res q.
Proof.
  intros D hs k n. induction hs as [|[[k' n'] [wk k2]] r IH]; intros e c res q W; cbn [run_hooks]; [exact W|].
  apply IH. destruct ((k' =? k) && (n' =? n)); [|exact W]. apply do_write_wstate. exact W.
Qed.

(* a scripted operation changes the table only through user writes (of ANY kind): the cover is kept *)
Lemma do_call_wstate : forall D e snap fresh op o rev c res q,
  wstate D (e_tab e) c res q ->
  wstate D (e_tab (fst (do_call e snap fresh op o rev))) c res q.
Proof.
  intros D e snap fresh op o rev c res q W. unfold do_call. cbn [fst e_tab e_hooks].
  destruct fresh; cbn [e_hooks].
  - apply run_hooks_wstate. apply run_hooks_wstate. exact W.
  - apply run_hooks_wstate. exact W.
Qed.

(* ------------------------------------------------------------------ one processRetries step (update item) *)
Lemma find_pop_other : forall q pk, uniq q -> (forall t, r_top q = Some t -> ri_pk t <> pk) ->
  find_item pk (q_items (r_pop q)) = find_item pk (q_items q).
Proof.
  intros q pk Hu Hn. rewrite pop_items. unfold r_top in Hn. destruct (top_of (q_items q)) as [t|]; [|reflexivity].
  apply find_item_put_other. cbn. intro E. apply (Hn t eq_refl). symmetry. exact E.
Qed.

Lemma item_covers_pop_other : forall q it pk d rv, uniq q -> r_top q = Some it -> pk <> ri_pk it ->
  item_covers q pk d rv -> item_covers (r_pop q) pk d rv.
Proof.
  intros q it pk d rv Hu Ht Hn [i [A B]]. exists i. split; [|exact B].
  rewrite find_pop_other; [exact A|exact Hu|]. intros t Ht'. rewrite Ht in Ht'. injection Ht' as E. subst t. congruence.
Qed.

Lemma item_upd_pop_other : forall q it pk, uniq q -> r_top q = Some it -> pk <> ri_pk it ->
  item_upd q pk -> item_upd (r_pop q) pk.
Proof.
  intros q it pk Hu Ht Hn [i [A B]]. exists i. split; [|exact B].
  rewrite find_pop_other; [exact A|exact Hu|]. intros t Ht'. rewrite Ht in Ht'. injection Ht' as E. subst t. congruence.
Qed.
Lemma item_upd_clear_other : forall q pk pk', pk' <> pk -> item_upd q pk' -> item_upd (r_clear q pk) pk'.
Proof.
  intros q pk pk' Hn [i [A B]]. exists i. split; [|exact B].
  rewrite clear_items, find_item_remove_other by exact Hn. exact A.
Qed.

Lemma item_covers_clear_other : forall q pk pk' d rv, pk' <> pk -> item_covers q pk' d rv -> item_covers (r_clear q pk) pk' d rv.
Proof.
  intros q pk pk' d rv Hn [i [A B]]. exists i. split; [|exact B].
  rewrite clear_items, find_item_remove_other by exact Hn. exact A.
Qed.

(* popping the due update item `it` and recording its result keeps every key covered *)
Lemma pop_update_covers : forall D t c res q it ok, uniq q -> r_top q = Some it -> ri_del it = false ->
  (forall pk, covered D t c res q pk) ->
  forall pk, covered D t c (res ++ [mkRes (ri_obj it) (ri_rev it) (ri_orig it) (o_sid (ri_obj it)) ok]) (r_pop q) pk.
Proof.
  intros D t c res q it ok Hu Ht Hd Hcov pk.
  set (r := mkRes (ri_obj it) (ri_rev it) (ri_orig it) (o_sid (ri_obj it)) ok).
  assert (Hin : In it (q_items q)) by (destruct (top_of_spec _ _ Ht) as [A _]; exact A).
  assert (Hf : find_item (ri_pk it) (q_items q) = Some it) by (apply find_item_uniq; assumption).
  specialize (Hcov pk). unfold covered in *.
  assert (RC : forall o rv, res_covers res pk o rv -> res_covers (res ++ [r]) pk o rv).
  { intros o rv [r' [A B]]. exists r'. split; [apply in_or_app; left; exact A|exact B]. }
  assert (RR : res_retry res pk -> res_retry (res ++ [r]) pk).
  { intros [r' [A B]]. exists r'. split; [apply in_or_app; left; exact A|exact B]. }
  destruct (N.eq_dec pk (ri_pk it)) as [E|E].
  - subst pk.
    destruct (slot_of t (ri_pk it)) as [[o rev|o rev]|]; [| |exact I].
    + destruct (o_kind o).
      * destruct Hcov as [A|A]; [left; exact A|right; apply RC; exact A].
      * destruct Hcov as [A|A]; [left; exact A|right; apply RC; exact A].
      * exact I.
      * destruct Hcov as [[i [A [B [C Dn]]]]|A]; [|right; apply RR; exact A].
        rewrite Hf in A. injection A as A. subst i. right. exists r.
        split; [apply in_or_app; right; left; reflexivity|]. split; [reflexivity|exact Dn].
    + destruct Hcov as [A|[[i [A [B _]]]|A]]; [left; exact A| |right; right; exact A].
      rewrite Hf in A. injection A as A. subst i. congruence.
  - destruct (slot_of t pk) as [[o rev|o rev]|]; [| |exact I].
    + destruct (o_kind o).
      * destruct Hcov as [A|A]; [left; exact A|right; apply RC; exact A].
      * destruct Hcov as [A|A]; [left; exact A|right; apply RC; exact A].
      * exact I.
      * destruct Hcov as [A|A]; [left; apply (item_upd_pop_other q it); assumption|right; apply RR; exact A].
    + destruct Hcov as [A|[A|A]]; [left; exact A|right; left; apply (item_covers_pop_other q it); assumption|right; right; exact A].
Qed.

(* after a successful retry the item is cleared: the key stays covered by its pending result *)
Lemma clear_after_result_covers : forall D t c res q pk0,
  (forall pk, covered D t c res q pk) ->
  (forall rv, ~ item_covers q pk0 true rv) ->
  (forall o rev, slot_of t pk0 = Some (Live o rev) -> o_kind o = Error -> res_retry res pk0) ->
  forall pk, covered D t c res (r_clear q pk0) pk.
Proof.
  intros D t c res q pk0 Hcov Hnd Herr pk. specialize (Hcov pk). unfold covered in *.
  destruct (N.eq_dec pk pk0) as [E|E].
  - subst pk. destruct (slot_of t pk0) as [[o rev|o rev]|] eqn:Es; [| |exact I].
    + destruct (o_kind o) eqn:Ek; try exact Hcov. right. apply (Herr o rev eq_refl Ek).
    + destruct Hcov as [A|[A|A]]; [left; exact A|exfalso; apply (Hnd rev); exact A|right; right; exact A].
  - destruct (slot_of t pk) as [[o rev|o rev]|]; [| |exact I].
    + destruct (o_kind o); try exact Hcov.
      destruct Hcov as [A|A]; [left; apply item_upd_clear_other; assumption|right; exact A].
    + destruct Hcov as [A|[A|A]]; [left; exact A|right; left; apply item_covers_clear_other; assumption|right; right; exact A].
Qed.

Lemma popped_find : forall q it, uniq q -> r_top q = Some it ->
  find_item (ri_pk it) (q_items (r_pop q)) = Some (set_inq false it).
Proof.
  intros q it Hu Ht. rewrite pop_items. unfold r_top in Ht. rewrite Ht.
  change (ri_pk it) with (ri_pk (set_inq false it)). apply find_item_put_same.
Qed.
Lemma popped_not_queued : forall q it d rv, uniq q -> r_top q = Some it -> ~ item_covers (r_pop q) (ri_pk it) d rv.
Proof.
  intros q it d rv Hu Ht [i [A [_ [_ B]]]]. rewrite (popped_find q it Hu Ht) in A.
  injection A as A. subst i. cbn in B. discriminate.
Qed.
Lemma popped_not_upd : forall q it, uniq q -> r_top q = Some it -> ~ item_upd (r_pop q) (ri_pk it).
Proof.
  intros q it Hu Ht [i [A [_ [B _]]]]. rewrite (popped_find q it Hu Ht) in A.
  injection A as A. subst i. cbn in B. discriminate.
Qed.

(* one iteration of processRetries on a due UPDATE item: pop, run the operation (its hooks may write
   anything), record the result, Clear on success — every key stays covered *)
Theorem retry_update_step_covers : forall D c e snap q res it e' q' res',
  uniq q -> r_top q = Some it -> ri_del it = false ->
  wstate D (e_tab e) c res q ->
  process_single e snap false (r_pop q) res (ri_obj it) (ri_rev it) (ri_orig it) false = (e', q', res') ->
  wstate D (e_tab e') c res' q' /\ uniq q'.
Proof.
  intros D c e snap q res it e' q' res' Hu Ht Hd [K [B C]] H.
  unfold process_single in H.
  destruct (do_call e snap false 0 (ri_obj it) (ri_rev it)) as [e1 ok] eqn:Ec.
  injection H as H1 H2 H3. subst e' res'.
  set (r := mkRes (ri_obj it) (ri_rev it) (ri_orig it) (o_sid (ri_obj it)) ok) in *.
  assert (W0 : wstate D (e_tab e) c (res ++ [r]) (r_pop q)).
  { split; [exact K|split; [exact B|]]. apply pop_update_covers; assumption. }
  pose proof (do_call_wstate D e snap false 0 (ri_obj it) (ri_rev it) c (res ++ [r]) (r_pop q) W0) as W1.
  rewrite Ec in W1. cbn [fst] in W1.
  destruct ok; subst q'.
  - split; [|apply uniq_clear; apply uniq_pop; exact Hu].
    destruct W1 as [K1 [B1 C1]]. split; [exact K1|split; [exact B1|]].
    apply clear_after_result_covers.
    + exact C1.
    + intro rv. apply (popped_not_queued q it true rv Hu Ht).
    + intros o rev Hsl Hk. specialize (C1 (o_pk (ri_obj it))). unfold covered in C1. rewrite Hsl, Hk in C1.
      destruct C1 as [A|A]; [exfalso; apply (popped_not_upd q it Hu Ht); exact A|exact A].
  - split; [exact W1|apply uniq_pop; exact Hu].
Qed.
